package faiss

import "fmt"

// SetDirectMap sets the kind of id -> vector map an IVF index maintains
// (0 none, 1 array, 2 hashtable).  Without one, an IVF index can neither
// reconstruct vectors nor tell which cluster an id lives in.
func (idx *IndexImpl) SetDirectMap(mapType int) (err error) {
	if err := enter("SetDirectMap"); err != nil {
		return err
	}
	ix := idx.fake()
	ix.wlock()
	defer ix.mu.Unlock()
	if !ix.ivf {
		return fmt.Errorf("index is not of ivf type")
	}
	if mapType < directMapNone || mapType > directMapHashtable {
		return fmt.Errorf("fakefaiss: SetDirectMap: invalid direct map type %d", mapType)
	}
	ix.directMap = mapType
	return nil
}

// SetNProbe sets the number of clusters a search visits by default.
// IVF indexes only; a no-op otherwise.
func (idx *IndexImpl) SetNProbe(nprobe int32) {
	ix := idx.fake()
	ix.wlock()
	defer ix.mu.Unlock()
	if !ix.ivf {
		return
	}
	ix.nprobe = nprobe
}

// GetNProbe returns the index-time nprobe (0 for a non-IVF index).
func (idx *IndexImpl) GetNProbe() int32 {
	ix := idx.fake()
	ix.rlock()
	defer ix.mu.RUnlock()
	if !ix.ivf {
		return 0
	}
	return ix.nprobe
}
