package faiss

import "fmt"

// searchParamsIVF are the search-time parameters go-faiss understands (JSON).
// They only matter for IVF indexes; a flat index never parses them.
type searchParamsIVF struct {
	NprobePct   float32 `json:"ivf_nprobe_pct,omitempty"`
	MaxCodesPct float32 `json:"ivf_max_codes_pct,omitempty"`
}

func (s *searchParamsIVF) Validate() error {
	if s.NprobePct < 0 || s.NprobePct > 100 {
		return fmt.Errorf("invalid IVF search params, ivf_nprobe_pct:%v, "+
			"should be in range [0, 100]", s.NprobePct)
	}

	if s.MaxCodesPct < 0 || s.MaxCodesPct > 100 {
		return fmt.Errorf("invalid IVF search params, ivf_max_codes_pct:%v, "+
			"should be in range [0, 100]", s.MaxCodesPct)
	}

	return nil
}
