// Package faiss is a pure-Go stand-in for github.com/blevesearch/go-faiss
// (v1.0.25).  It implements the part of the API that blevesearch/zapx uses,
// without cgo and without the native FAISS library:
//
//   - an exact flat index for every description that does not start with "IVF"
//     (e.g. "IDMap2,Flat"),
//   - a simple deterministic IVF index for "IVF<n>,<anything>" (vectors are
//     stored exactly, scalar quantisation is ignored),
//   - a trivial self-describing serialisation,
//   - a registry of live indexes / selectors with counters and "fail the n-th
//     call of operation X" fault injection (see verif.go).
//
// It is NOT FAISS: it is an engine stand-in used to exercise the logic that
// zapx builds around the engine.
package faiss

import (
	"errors"
	"math"
)

// Metric type (numeric values are those of faiss/MetricType.h).
const (
	MetricInnerProduct  = 0
	MetricL2            = 1
	MetricL1            = 2
	MetricLinf          = 3
	MetricLp            = 4
	MetricCanberra      = 20
	MetricBrayCurtis    = 21
	MetricJensenShannon = 22
)

// IO flags.  The numeric values are only passed through by zapx; they are
// distinct bit patterns, not guaranteed to equal those of the native library.
const (
	IOFlagMmap         = 1
	IOFlagReadOnly     = 2
	IOFlagReadMmap     = 4 | 0x646f0000
	IOFlagSkipPrefetch = 8
)

// Direct map types accepted by (*IndexImpl).SetDirectMap.
const (
	directMapNone      = 0
	directMapArray     = 1
	directMapHashtable = 2
)

var ompThreads uint

// SetOMPThreads is recorded and otherwise ignored (the fake is single threaded).
func SetOMPThreads(n uint) {
	verif.mu.Lock()
	ompThreads = n
	verif.mu.Unlock()
}

// NormalizeVector normalises the vector in place to unit L2 norm.
func NormalizeVector(vector []float32) []float32 {
	var s float64
	for _, v := range vector {
		s += float64(v) * float64(v)
	}
	if s > 0 {
		inv := float32(1 / math.Sqrt(s))
		for i := range vector {
			vector[i] *= inv
		}
	}
	return vector
}

func injected(op string) error {
	return errors.New("fakefaiss: injected fault in " + op)
}
