package faiss

import (
	"encoding/json"
	"math"
	"reflect"
	"strings"
	"sync"
	"testing"
)

// The tests share package-level accounting, so none of them runs in parallel.

func resetAll() {
	VerifClearFaults()
	VerifResetCounters()
	VerifResetCallCounts()
}

func flat(t *testing.T, metric int, vecs [][]float32, ids []int64) *IndexImpl {
	t.Helper()
	idx, err := IndexFactory(len(vecs[0]), "IDMap2,Flat", metric)
	if err != nil {
		t.Fatal(err)
	}
	var x []float32
	for _, v := range vecs {
		x = append(x, v...)
	}
	if err := idx.AddWithIDs(x, ids); err != nil {
		t.Fatal(err)
	}
	return idx
}

var smallVecs = [][]float32{
	{0, 0},  // id 10
	{1, 0},  // id 11
	{0, 2},  // id 12
	{3, 3},  // id 13
	{1, 0},  // id 14 (duplicate vector of 11)
	{-2, 0}, // id 15
}
var smallIDs = []int64{10, 11, 12, 13, 14, 15}

func TestFlatL2Exact(t *testing.T) {
	resetAll()
	idx := flat(t, MetricL2, smallVecs, smallIDs)
	defer idx.Close()

	if idx.IsIVFIndex() || idx.D() != 2 || idx.Ntotal() != 6 || idx.MetricType() != MetricL2 || idx.GetNProbe() != 0 {
		t.Fatalf("bad basic properties")
	}
	if err := idx.SetDirectMap(2); err == nil {
		t.Fatalf("SetDirectMap on a flat index must fail")
	}

	q := []float32{0, 0}
	// scores: 10:0 11:1 12:4 13:18 14:1 15:4
	d, l, err := idx.SearchWithoutIDs(q, 4, nil, nil)
	if err != nil {
		t.Fatal(err)
	}
	if !reflect.DeepEqual(l, []int64{10, 11, 14, 12}) || !reflect.DeepEqual(d, []float32{0, 1, 1, 4}) {
		t.Fatalf("got %v %v", l, d)
	}

	d, l, err = idx.SearchWithoutIDs(q, 4, []int64{10, 14, 999}, json.RawMessage(`{"ivf_nprobe_pct": 1000}`))
	if err != nil { // (a flat index never parses params)
		t.Fatal(err)
	}
	if !reflect.DeepEqual(l, []int64{11, 12, 15, 13}) || !reflect.DeepEqual(d, []float32{1, 4, 4, 18}) {
		t.Fatalf("got %v %v", l, d)
	}

	// fewer than k admissible ids: padded with -1
	d, l, err = idx.SearchWithIDs(q, 4, []int64{13, 12, 777}, nil)
	if err != nil {
		t.Fatal(err)
	}
	if !reflect.DeepEqual(l, []int64{12, 13, -1, -1}) || d[0] != 4 || d[1] != 18 || d[2] != math.MaxFloat32 {
		t.Fatalf("got %v %v", l, d)
	}

	// several queries at once
	d, l, err = idx.Search([]float32{0, 0, 3, 3}, 2)
	if err != nil {
		t.Fatal(err)
	}
	if !reflect.DeepEqual(l, []int64{10, 11, 13, 12}) || !reflect.DeepEqual(d, []float32{0, 1, 0, 10}) {
		t.Fatalf("got %v %v", l, d)
	}

	// k == 0: empty answer, no panic
	d, l, err = idx.SearchWithoutIDs(q, 0, nil, nil)
	if err != nil || len(d) != 0 || len(l) != 0 {
		t.Fatalf("k=0: %v %v %v", d, l, err)
	}
	if c := VerifCounters(); c.RealWouldPanic != 1 {
		t.Fatalf("k=0 must be counted as a would-panic: %+v", c)
	}

	// wrong dimension
	if _, _, err = idx.SearchWithoutIDs([]float32{1}, 1, nil, nil); err == nil {
		t.Fatalf("expected an error for a short query")
	}

	// not IVF
	if _, err = idx.ObtainClusterVectorCountsFromIVFIndex([]int64{10}); err == nil {
		t.Fatalf("expected not-IVF error")
	}
	if _, _, err = idx.ObtainClustersWithDistancesFromIVFIndex(q, []int64{0}); err == nil {
		t.Fatalf("expected not-IVF error")
	}
}

func TestFlatInnerProduct(t *testing.T) {
	resetAll()
	idx := flat(t, MetricInnerProduct, smallVecs, smallIDs)
	defer idx.Close()
	q := []float32{1, 1}
	// scores: 10:0 11:1 12:2 13:6 14:1 15:-2
	d, l, err := idx.SearchWithoutIDs(q, 7, []int64{12}, nil)
	if err != nil {
		t.Fatal(err)
	}
	if !reflect.DeepEqual(l, []int64{13, 11, 14, 10, 15, -1, -1}) {
		t.Fatalf("got %v %v", l, d)
	}
	if !reflect.DeepEqual(d[:5], []float32{6, 1, 1, 0, -2}) || d[5] != -math.MaxFloat32 {
		t.Fatalf("got %v", d)
	}
}

func TestReconstruct(t *testing.T) {
	resetAll()
	idx := flat(t, MetricL2, smallVecs, smallIDs)
	defer idx.Close()
	recons := make([]float32, 6)
	out, err := idx.ReconstructBatch([]int64{13, 10, 15}, recons)
	if err != nil {
		t.Fatal(err)
	}
	if !reflect.DeepEqual(out, []float32{3, 3, 0, 0, -2, 0}) || &out[0] != &recons[0] {
		t.Fatalf("got %v", out)
	}
	if _, err = idx.ReconstructBatch([]int64{13, 99}, recons); err == nil {
		t.Fatalf("expected unknown key error")
	}
	if _, err = idx.ReconstructBatch([]int64{13, 10}, recons[:3]); err == nil {
		t.Fatalf("expected short buffer error")
	}
	v, err := idx.Reconstruct(12)
	if err != nil || !reflect.DeepEqual(v, []float32{0, 2}) {
		t.Fatalf("got %v %v", v, err)
	}
}

// grid returns n*n vectors (i, j), ids 1000+i*n+j.
func grid(n int) (x []float32, ids []int64) {
	for i := 0; i < n; i++ {
		for j := 0; j < n; j++ {
			x = append(x, float32(i), float32(j))
			ids = append(ids, int64(1000+i*n+j))
		}
	}
	return
}

func ivf(t *testing.T, nlist int, nprobe int32) (*IndexImpl, []float32, []int64) {
	t.Helper()
	x, ids := grid(20)
	idx, err := IndexFactory(2, "IVF"+itoa(nlist)+",SQ8", MetricL2)
	if err != nil {
		t.Fatal(err)
	}
	if !idx.IsIVFIndex() || idx.IsTrained() {
		t.Fatalf("expected an untrained IVF index")
	}
	if err := idx.AddWithIDs(x, ids); err == nil {
		t.Fatalf("AddWithIDs before Train must fail")
	}
	if idx.Ntotal() != 0 {
		t.Fatalf("failed add must add nothing")
	}
	if err := idx.SetDirectMap(2); err != nil {
		t.Fatal(err)
	}
	idx.SetNProbe(nprobe)
	if idx.GetNProbe() != nprobe {
		t.Fatalf("nprobe")
	}
	if err := idx.Train(x); err != nil {
		t.Fatal(err)
	}
	if err := idx.AddWithIDs(x, ids); err != nil {
		t.Fatal(err)
	}
	return idx, x, ids
}

func itoa(n int) string {
	b, _ := json.Marshal(n)
	return string(b)
}

func vecOf(x []float32, ids []int64, id int64) []float32 {
	for i, v := range ids {
		if v == id {
			return x[2*i : 2*i+2]
		}
	}
	return nil
}

// checkSound: labels are distinct admissible ids (or -1 padding at the end),
// scores are true scores, best first.
func checkSound(t *testing.T, x []float32, ids []int64, q []float32, d []float32, l []int64,
	admit func(int64) bool) int {
	t.Helper()
	seen := map[int64]bool{}
	n := 0
	for i, id := range l {
		if id == -1 {
			for _, rest := range l[i:] {
				if rest != -1 {
					t.Fatalf("padding in the middle: %v", l)
				}
			}
			break
		}
		n++
		v := vecOf(x, ids, id)
		if v == nil || seen[id] || !admit(id) {
			t.Fatalf("inadmissible id %d in %v", id, l)
		}
		seen[id] = true
		if d[i] != l2(q, v) {
			t.Fatalf("id %d: score %v, true %v", id, d[i], l2(q, v))
		}
		if i > 0 && d[i] < d[i-1] {
			t.Fatalf("not sorted: %v", d)
		}
	}
	return n
}

func TestIVF(t *testing.T) {
	resetAll()
	idx, x, ids := ivf(t, 8, 2)
	defer idx.Close()
	if idx.Ntotal() != 400 {
		t.Fatalf("ntotal %d", idx.Ntotal())
	}
	q := []float32{7, 7}
	all := func(int64) bool { return true }

	// nprobe 2: sound, possibly incomplete
	d, l, err := idx.SearchWithoutIDs(q, 10, nil, nil)
	if err != nil {
		t.Fatal(err)
	}
	if n := checkSound(t, x, ids, q, d, l, all); n == 0 {
		t.Fatalf("no result")
	}

	// with excludes
	excl := []int64{1000 + 7*20 + 7, 1000 + 7*20 + 8}
	d, l, err = idx.SearchWithoutIDs(q, 10, excl, nil)
	if err != nil {
		t.Fatal(err)
	}
	checkSound(t, x, ids, q, d, l, func(id int64) bool { return id != excl[0] && id != excl[1] })

	// probing everything = exact
	d, l, err = idx.SearchWithoutIDs(q, 5, nil, json.RawMessage(`{"ivf_nprobe_pct": 100}`))
	if err != nil {
		t.Fatal(err)
	}
	checkSound(t, x, ids, q, d, l, all)
	if !reflect.DeepEqual(d, []float32{0, 1, 1, 1, 1}) || l[0] != 1000+7*20+7 {
		t.Fatalf("exhaustive IVF search: %v %v", d, l)
	}
	if _, _, err = idx.SearchWithoutIDs(q, 5, nil, json.RawMessage(`{"ivf_nprobe_pct": 101}`)); err == nil {
		t.Fatalf("expected params validation error")
	}
	if _, _, err = idx.SearchWithoutIDs(q, 5, nil, json.RawMessage(`{`)); err == nil {
		t.Fatalf("expected params parse error")
	}

	// cluster counts: every id is in exactly one cluster
	counts, err := idx.ObtainClusterVectorCountsFromIVFIndex(ids)
	if err != nil {
		t.Fatal(err)
	}
	var total int64
	var clusters []int64
	for c, n := range counts {
		if c < 0 || c >= 8 || n <= 0 {
			t.Fatalf("bad counts %v", counts)
		}
		total += n
		clusters = append(clusters, c)
	}
	if total != 400 {
		t.Fatalf("counts sum to %d", total)
	}
	if _, err = idx.ObtainClusterVectorCountsFromIVFIndex([]int64{1}); err == nil {
		t.Fatalf("expected unknown id error")
	}

	// clusters by distance
	cids, cdist, err := idx.ObtainClustersWithDistancesFromIVFIndex(q, clusters)
	if err != nil {
		t.Fatal(err)
	}
	if len(cids) != len(clusters) || len(cdist) != len(clusters) {
		t.Fatalf("lengths")
	}
	seen := map[int64]bool{}
	for i, c := range cids {
		if seen[c] || counts[c] == 0 {
			t.Fatalf("bad cluster list %v", cids)
		}
		seen[c] = true
		if i > 0 && cdist[i] < cdist[i-1] {
			t.Fatalf("clusters not sorted %v", cdist)
		}
	}

	// search in given clusters with selectors
	include := []int64{1000, 1001, 1000 + 7*20 + 7, 1000 + 19*20 + 19, 1000 + 8*20 + 7}
	sel, err := NewIDSelectorBatch(include)
	if err != nil {
		t.Fatal(err)
	}
	inSet := func(id int64) bool {
		for _, v := range include {
			if v == id {
				return true
			}
		}
		return false
	}
	d, l, err = idx.SearchClustersFromIVFIndex(sel, cids, len(cids), 3, q, cdist, nil)
	if err != nil {
		t.Fatal(err)
	}
	if n := checkSound(t, x, ids, q, d, l, inSet); n != 3 {
		t.Fatalf("all clusters probed: want 3 hits, got %v", l)
	}
	if !reflect.DeepEqual(l, []int64{1000 + 7*20 + 7, 1000 + 8*20 + 7, 1001}) {
		t.Fatalf("got %v %v", l, d)
	}
	// only the closest cluster
	d, l, err = idx.SearchClustersFromIVFIndex(sel, cids, 1, 3, q, cdist, nil)
	if err != nil {
		t.Fatal(err)
	}
	checkSound(t, x, ids, q, d, l, inSet)
	sel.Delete()

	not, err := NewIDSelectorNot(include)
	if err != nil {
		t.Fatal(err)
	}
	d, l, err = idx.SearchClustersFromIVFIndex(not, cids, 2, 50, q, cdist, json.RawMessage(`{"ivf_max_codes_pct": 1}`))
	if err != nil {
		t.Fatal(err)
	}
	checkSound(t, x, ids, q, d, l, func(id int64) bool { return !inSet(id) })
	not.Delete()
	not.Delete()
	_, _, _ = idx.SearchClustersFromIVFIndex(not, cids, 2, 5, q, cdist, nil)
	c := VerifCounters()
	if c.SelectorsCreated != 2 || c.SelectorsDeleted != 2 || c.SelectorsDoubleDeleted != 1 ||
		c.SelectorsUseAfterDelete != 1 || c.SelectorsLive != 0 {
		t.Fatalf("selector counters %+v", c)
	}

	// reconstruction through the direct map
	out, err := idx.ReconstructBatch([]int64{1000 + 3*20 + 4}, make([]float32, 2))
	if err != nil || !reflect.DeepEqual(out, []float32{3, 4}) {
		t.Fatalf("got %v %v", out, err)
	}
}

func TestIVFTrainTooFew(t *testing.T) {
	resetAll()
	idx, err := IndexFactory(2, "IVF4,Flat", MetricL2)
	if err != nil {
		t.Fatal(err)
	}
	defer idx.Close()
	if err = idx.Train([]float32{1, 2, 3, 4}); err == nil {
		t.Fatalf("expected too few training points")
	}
	// duplicates only: trains, everything lands in one cluster
	if err = idx.Train([]float32{1, 1, 1, 1, 1, 1, 1, 1}); err != nil {
		t.Fatal(err)
	}
	_ = idx.SetDirectMap(2)
	if err = idx.AddWithIDs([]float32{1, 1, 5, 5}, []int64{1, 2}); err != nil {
		t.Fatal(err)
	}
	counts, err := idx.ObtainClusterVectorCountsFromIVFIndex([]int64{1, 2})
	if err != nil || len(counts) != 1 || counts[0] != 2 {
		t.Fatalf("got %v %v", counts, err)
	}
	for _, bad := range []string{"IVF,Flat", "IVF0,Flat", "IVFx,Flat", ""} {
		if _, err := IndexFactory(2, bad, MetricL2); err == nil {
			t.Fatalf("description %q must be rejected", bad)
		}
	}
	if _, err := IndexFactory(0, "Flat", MetricL2); err == nil {
		t.Fatalf("d=0 must be rejected")
	}
}

func TestSerialisation(t *testing.T) {
	resetAll()
	f := flat(t, MetricInnerProduct, smallVecs, smallIDs)
	defer f.Close()
	iv, x, ids := ivf(t, 8, 3)
	defer iv.Close()

	for _, idx := range []*IndexImpl{f, iv} {
		buf, err := WriteIndexIntoBuffer(idx)
		if err != nil {
			t.Fatal(err)
		}
		buf2, _ := WriteIndexIntoBuffer(idx)
		if !reflect.DeepEqual(buf, buf2) {
			t.Fatalf("serialisation is not deterministic")
		}
		back, err := ReadIndexFromBuffer(buf, IOFlagReadMmap|IOFlagSkipPrefetch)
		if err != nil {
			t.Fatal(err)
		}
		for i := range buf { // the index must not alias the buffer
			buf[i] = 0xff
		}
		if back.D() != idx.D() || back.MetricType() != idx.MetricType() || back.Ntotal() != idx.Ntotal() ||
			back.IsIVFIndex() != idx.IsIVFIndex() || back.GetNProbe() != idx.GetNProbe() || back.Size() != idx.Size() {
			t.Fatalf("round trip changed the basic properties")
		}
		q := []float32{2, 1}
		d1, l1, err1 := idx.SearchWithoutIDs(q, 7, []int64{11, 1003}, nil)
		d2, l2, err2 := back.SearchWithoutIDs(q, 7, []int64{11, 1003}, nil)
		if err1 != nil || err2 != nil || !reflect.DeepEqual(d1, d2) || !reflect.DeepEqual(l1, l2) {
			t.Fatalf("round trip changed search results: %v %v / %v %v", d1, l1, d2, l2)
		}
		buf3, _ := WriteIndexIntoBuffer(back)
		if !reflect.DeepEqual(buf2, buf3) {
			t.Fatalf("write(read(write(x))) != write(x)")
		}
		back.Close()
	}
	back, err := func() (*IndexImpl, error) {
		buf, _ := WriteIndexIntoBuffer(iv)
		return ReadIndexFromBuffer(buf, 0)
	}()
	if err != nil {
		t.Fatal(err)
	}
	out, err := back.ReconstructBatch(ids[:3], make([]float32, 6))
	if err != nil || !reflect.DeepEqual(out, x[:6]) {
		t.Fatalf("reconstruct after round trip: %v %v", out, err)
	}
	back.Close()

	// same content => same size (zapx's own test relies on it)
	f2 := flat(t, MetricInnerProduct, smallVecs, []int64{0, 1, 2, 3, 4, 5})
	b1, _ := WriteIndexIntoBuffer(f)
	b2, _ := WriteIndexIntoBuffer(f2)
	if len(b1) != len(b2) {
		t.Fatalf("size depends on ids")
	}
	f2.Close()

	// garbage
	before := VerifCounters().Created
	good, _ := WriteIndexIntoBuffer(f)
	bads := [][]byte{nil, {}, []byte("x"), []byte("garbage garbage garbage garbage"), good[:len(good)-1], good[:20]}
	flipped := append([]byte(nil), good...)
	flipped[len(flipped)/2] ^= 1
	bads = append(bads, flipped, append(append([]byte(nil), good...), 0))
	for i, b := range bads {
		if idx, err := ReadIndexFromBuffer(b, 0); err == nil || idx != nil {
			t.Fatalf("garbage %d accepted", i)
		}
	}
	if VerifCounters().Created != before {
		t.Fatalf("failed reads must not create indexes")
	}
}

func TestCounters(t *testing.T) {
	resetAll()
	a := flat(t, MetricL2, smallVecs, smallIDs)
	b := flat(t, MetricL2, smallVecs, smallIDs)
	if VerifSerial(b) != VerifSerial(a)+1 || VerifSerial(nil) != 0 {
		t.Fatalf("serials")
	}
	c := VerifCounters()
	if c.Created != 2 || c.Live != 2 || c.Closed != 0 {
		t.Fatalf("%+v", c)
	}
	if !reflect.DeepEqual(VerifLiveIndexIDs(), []int64{VerifSerial(a), VerifSerial(b)}) {
		t.Fatalf("live ids %v", VerifLiveIndexIDs())
	}
	a.Close()
	a.Close()
	if a.D() != 2 { // use after close: counted, still sane
		t.Fatalf("D after close")
	}
	if _, _, err := a.SearchWithoutIDs([]float32{0, 0}, 1, nil, nil); err != nil {
		t.Fatal(err)
	}
	c = VerifCounters()
	want := Counters{Created: 2, Closed: 1, DoubleClosed: 1, UseAfterClose: 2, Live: 1}
	if c != want {
		t.Fatalf("got %+v want %+v", c, want)
	}
	if !reflect.DeepEqual(VerifLiveIndexIDs(), []int64{VerifSerial(b)}) {
		t.Fatalf("live ids %v", VerifLiveIndexIDs())
	}

	// a reset forgets b
	VerifResetCounters()
	b.Close()
	b.Close()
	_ = b.Ntotal()
	if c = VerifCounters(); c != (Counters{}) || len(VerifLiveIndexIDs()) != 0 {
		t.Fatalf("forgotten index still counted: %+v", c)
	}

	// call counts
	VerifResetCallCounts()
	d := flat(t, MetricL2, smallVecs, smallIDs)
	_, _, _ = d.SearchWithIDs([]float32{0, 0}, 1, []int64{10}, nil)
	_, _, _ = d.SearchWithIDs([]float32{0, 0}, 1, []int64{10}, nil)
	d.Close()
	got := VerifCallCounts()
	wantCalls := map[string]int{"IndexFactory": 1, "AddWithIDs": 1, "SearchWithIDs": 2}
	if !reflect.DeepEqual(got, wantCalls) {
		t.Fatalf("call counts %v", got)
	}
}

func TestFaultInjection(t *testing.T) {
	resetAll()
	VerifFailNth("IndexFactory", 2)
	a, err := IndexFactory(2, "IDMap2,Flat", MetricL2)
	if err != nil {
		t.Fatal(err)
	}
	b, err := IndexFactory(2, "IDMap2,Flat", MetricL2)
	if b != nil || err == nil || err.Error() != "fakefaiss: injected fault in IndexFactory" {
		t.Fatalf("got %v %v", b, err)
	}
	b, err = IndexFactory(2, "IDMap2,Flat", MetricL2) // fires once
	if err != nil {
		t.Fatal(err)
	}
	if c := VerifCounters(); c.Created != 2 || c.Live != 2 {
		t.Fatalf("a failed IndexFactory must not create: %+v", c)
	}
	b.Close()

	VerifFailNth("AddWithIDs", 1)
	if err = a.AddWithIDs([]float32{1, 2}, []int64{1}); err == nil || a.Ntotal() != 0 {
		t.Fatalf("failed add: %v, ntotal %d", err, a.Ntotal())
	}
	if err = a.AddWithIDs([]float32{1, 2}, []int64{1}); err != nil || a.Ntotal() != 1 {
		t.Fatalf("add after fault: %v", err)
	}

	VerifFailNth("WriteIndexIntoBuffer", 1)
	if buf, err := WriteIndexIntoBuffer(a); err == nil || buf != nil {
		t.Fatalf("write fault")
	}
	buf, err := WriteIndexIntoBuffer(a)
	if err != nil {
		t.Fatal(err)
	}
	VerifFailNth("ReadIndexFromBuffer", 1)
	if idx, err := ReadIndexFromBuffer(buf, 0); err == nil || idx != nil {
		t.Fatalf("read fault")
	}
	if c := VerifCounters(); c.Created != 2 {
		t.Fatalf("a failed ReadIndexFromBuffer must not create: %+v", c)
	}

	for _, op := range []string{"ReconstructBatch", "SearchWithoutIDs", "SearchWithIDs", "NewIDSelectorBatch",
		"NewIDSelectorNot", "SetDirectMap", "Train", "ObtainClusterVectorCounts", "ObtainClustersWithDistances",
		"SearchClusters"} {
		VerifFailNth(op, 1)
	}
	if _, err = a.ReconstructBatch([]int64{1}, make([]float32, 2)); err == nil {
		t.Fatalf("ReconstructBatch fault")
	}
	if _, _, err = a.SearchWithoutIDs([]float32{0, 0}, 1, nil, nil); err == nil {
		t.Fatalf("SearchWithoutIDs fault")
	}
	if _, _, err = a.SearchWithIDs([]float32{0, 0}, 1, []int64{1}, nil); err == nil {
		t.Fatalf("SearchWithIDs fault")
	}
	if s, err := NewIDSelectorBatch([]int64{1}); err == nil || s != nil {
		t.Fatalf("NewIDSelectorBatch fault")
	}
	if s, err := NewIDSelectorNot([]int64{1}); err == nil || s != nil {
		t.Fatalf("NewIDSelectorNot fault")
	}
	if c := VerifCounters(); c.SelectorsCreated != 0 {
		t.Fatalf("failed selector constructors must not create: %+v", c)
	}
	iv, err := IndexFactory(2, "IVF2,Flat", MetricL2)
	if err != nil {
		t.Fatal(err)
	}
	if err = iv.SetDirectMap(2); err == nil || !strings.Contains(err.Error(), "injected fault in SetDirectMap") {
		t.Fatalf("SetDirectMap fault: %v", err)
	}
	if err = iv.Train([]float32{0, 0, 9, 9}); err == nil || iv.IsTrained() {
		t.Fatalf("Train fault")
	}
	if err = iv.Train([]float32{0, 0, 9, 9}); err != nil || !iv.IsTrained() {
		t.Fatalf("Train after fault: %v", err)
	}
	// no direct map (SetDirectMap failed): the index cannot locate ids
	if err = iv.AddWithIDs([]float32{1, 1, 8, 8}, []int64{5, 6}); err != nil {
		t.Fatal(err)
	}
	if _, err = iv.ObtainClusterVectorCountsFromIVFIndex([]int64{5}); err == nil {
		t.Fatalf("ObtainClusterVectorCounts fault")
	}
	if _, err = iv.ObtainClusterVectorCountsFromIVFIndex([]int64{5}); err == nil ||
		!strings.Contains(err.Error(), "direct map") {
		t.Fatalf("expected direct map error, got %v", err)
	}
	if err = iv.SetDirectMap(2); err != nil {
		t.Fatal(err)
	}
	if m, err := iv.ObtainClusterVectorCountsFromIVFIndex([]int64{5, 6}); err != nil || len(m) != 2 {
		t.Fatalf("got %v %v", m, err)
	}
	if _, _, err = iv.ObtainClustersWithDistancesFromIVFIndex([]float32{0, 0}, []int64{0, 1}); err == nil {
		t.Fatalf("ObtainClustersWithDistances fault")
	}
	cids, cd, err := iv.ObtainClustersWithDistancesFromIVFIndex([]float32{0, 0}, []int64{1, 0, 7})
	if err != nil || !reflect.DeepEqual(cids, []int64{0, 1, -1}) || cd[0] != 0 || cd[1] != 162 {
		t.Fatalf("got %v %v %v", cids, cd, err)
	}
	sel, _ := NewIDSelectorBatch([]int64{6})
	if _, _, err = iv.SearchClustersFromIVFIndex(sel, cids[:2], 2, 1, []float32{0, 0}, cd[:2], nil); err == nil {
		t.Fatalf("SearchClusters fault")
	}
	d, l, err := iv.SearchClustersFromIVFIndex(sel, cids[:2], 2, 2, []float32{0, 0}, cd[:2], nil)
	if err != nil || !reflect.DeepEqual(l, []int64{6, -1}) || d[0] != 128 {
		t.Fatalf("got %v %v %v", d, l, err)
	}
	sel.Delete()
	iv.Close()
	a.Close()

	// n-th call, and clearing
	VerifFailNth("Search", 3)
	VerifFailNth("Add", 1)
	VerifClearFaults()
	VerifFailNth("Search", 3)
	p, _ := IndexFactory(1, "Flat", MetricL2)
	if err = p.Add([]float32{1, 2, 3}); err != nil {
		t.Fatal(err)
	}
	for i := 1; i <= 4; i++ {
		_, l, err := p.Search([]float32{2}, 1)
		if (err != nil) != (i == 3) {
			t.Fatalf("call %d: %v", i, err)
		}
		if err == nil && l[0] != 1 {
			t.Fatalf("sequential ids: %v", l)
		}
	}
	p.Close()
	if c := VerifCounters(); c.Live != 0 || c.SelectorsLive != 0 {
		t.Fatalf("leak in the test itself: %+v", c)
	}
}

// zapx closes cached indexes from a goroutine while others may still search.
func TestConcurrentCloseAndUse(t *testing.T) {
	resetAll()
	idx := flat(t, MetricL2, smallVecs, smallIDs)
	var wg sync.WaitGroup
	for i := 0; i < 8; i++ {
		wg.Add(1)
		go func(i int) {
			defer wg.Done()
			for j := 0; j < 50; j++ {
				if i == 0 && j == 25 {
					idx.Close()
				}
				_, _, _ = idx.SearchWithoutIDs([]float32{0, 0}, 2, []int64{10}, nil)
				_ = idx.Size()
				_ = idx.D()
				_, _ = WriteIndexIntoBuffer(idx)
				_ = VerifCounters()
				_ = VerifLiveIndexIDs()
			}
		}(i)
	}
	wg.Wait()
	idx.Close()
	c := VerifCounters()
	if c.Created != 1 || c.Closed != 1 || c.DoubleClosed != 1 || c.Live != 0 || c.UseAfterClose == 0 {
		t.Fatalf("%+v", c)
	}
}
