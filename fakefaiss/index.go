package faiss

import (
	"encoding/json"
	"errors"
	"fmt"
	"math"
	"sort"
	"strings"
	"sync"
)

// Index is a (fake) Faiss index.  The method set mirrors go-faiss' Index minus
// MergeFrom, RangeSearch and RemoveIDs, which zapx does not use.
type Index interface {
	// D returns the dimension of the indexed vectors.
	D() int

	// IsTrained returns true if the index has been trained or does not require
	// training.
	IsTrained() bool

	// Ntotal returns the number of indexed vectors.
	Ntotal() int64

	// MetricType returns the metric type of the index.
	MetricType() int

	// Train trains the index on a representative set of vectors.
	Train(x []float32) error

	// Add adds vectors to the index (sequential ids).
	Add(x []float32) error

	// AddWithIDs is like Add, but stores xids instead of sequential IDs.
	AddWithIDs(x []float32, xids []int64) error

	// Returns true if the index is an IVF index.
	IsIVFIndex() bool

	// Applicable only to IVF indexes: cluster id -> number of the given vecIDs
	// that live in that cluster.
	ObtainClusterVectorCountsFromIVFIndex(vecIDs []int64) (map[int64]int64, error)

	// Applicable only to IVF indexes: the given centroid ids ordered by
	// increasing distance to x, with those distances.
	ObtainClustersWithDistancesFromIVFIndex(x []float32, centroidIDs []int64) (
		[]int64, []float32, error)

	Search(x []float32, k int64) (distances []float32, labels []int64, err error)

	SearchWithoutIDs(x []float32, k int64, exclude []int64, params json.RawMessage) (distances []float32,
		labels []int64, err error)

	SearchWithIDs(x []float32, k int64, include []int64, params json.RawMessage) (distances []float32,
		labels []int64, err error)

	// Applicable only to IVF indexes: Search clusters whose IDs are in eligibleCentroidIDs
	SearchClustersFromIVFIndex(selector Selector, eligibleCentroidIDs []int64,
		minEligibleCentroids int, k int64, x, centroidDis []float32,
		params json.RawMessage) ([]float32, []int64, error)

	Reconstruct(key int64) ([]float32, error)

	ReconstructBatch(keys []int64, recons []float32) ([]float32, error)

	// Reset removes all vectors from the index.
	Reset() error

	// Close frees the memory used by the index.
	Close()

	// Size is a deterministic estimate of the memory footprint in bytes.
	Size() uint64

	fake() *fakeIndex
}

// IndexImpl is an abstract structure for an index.
type IndexImpl struct {
	Index
}

// fakeIndex is the only implementation of Index.
type fakeIndex struct {
	mu     sync.RWMutex
	serial int64
	gen    int64
	closed bool

	desc   string
	ivf    bool
	idmap  bool // description starts with "IDMap": Add (without ids) is refused
	d      int
	metric int

	// IVF only
	nlist     int
	nprobe    int32
	directMap int
	trained   bool
	centroids []float32 // nlist*d once trained
	assign    []int32   // entry -> cluster
	lists     [][]int   // cluster -> entries, insertion order

	// entries, insertion order
	ids  []int64
	vecs []float32
	byID map[int64]int // id -> latest entry carrying it
}

func (ix *fakeIndex) fake() *fakeIndex { return ix }

func parseDescription(d int, description string, metric int) (*fakeIndex, error) {
	if d <= 0 {
		return nil, fmt.Errorf("fakefaiss: invalid dimension %d", d)
	}
	desc := strings.TrimSpace(description)
	if desc == "" {
		return nil, errors.New("fakefaiss: could not parse index description \"\"")
	}
	ix := &fakeIndex{desc: description, d: d, metric: metric, byID: map[int64]int{}}
	if strings.HasPrefix(desc, "IVF") {
		head := desc[3:]
		if i := strings.IndexByte(head, ','); i >= 0 {
			head = head[:i]
		}
		n := 0
		if head == "" {
			return nil, fmt.Errorf("fakefaiss: could not parse index description %q", description)
		}
		for _, c := range head {
			if c < '0' || c > '9' || n > 1<<24 {
				return nil, fmt.Errorf("fakefaiss: could not parse index description %q", description)
			}
			n = n*10 + int(c-'0')
		}
		if n <= 0 {
			return nil, fmt.Errorf("fakefaiss: invalid nlist in index description %q", description)
		}
		ix.ivf = true
		ix.nlist = n
		ix.nprobe = 1
		ix.lists = make([][]int, n)
	} else {
		ix.idmap = strings.HasPrefix(desc, "IDMap")
	}
	return ix, nil
}

// IndexFactory builds a composite index.  A description starting with "IVF<n>"
// gives an IVF index with n lists, anything else an exact flat index.
func IndexFactory(d int, description string, metric int) (*IndexImpl, error) {
	if err := enter("IndexFactory"); err != nil {
		return nil, err
	}
	ix, err := parseDescription(d, description, metric)
	if err != nil {
		return nil, err
	}
	registerIndex(ix)
	return &IndexImpl{ix}, nil
}

// ---------------------------------------------------------------------------
// locking / lifetime

func (ix *fakeIndex) rlock() {
	ix.mu.RLock()
	if ix.closed {
		noteUseAfterClose(ix)
	}
}

func (ix *fakeIndex) wlock() {
	ix.mu.Lock()
	if ix.closed {
		noteUseAfterClose(ix)
	}
}

// Close marks the index closed.  The content is kept, so that a (counted)
// use after close still behaves like a use before close instead of crashing.
func (ix *fakeIndex) Close() {
	ix.mu.Lock()
	first := !ix.closed
	ix.closed = true
	noteClose(ix, first)
	ix.mu.Unlock()
}

// ---------------------------------------------------------------------------
// simple accessors

func (ix *fakeIndex) D() int {
	ix.rlock()
	defer ix.mu.RUnlock()
	return ix.d
}

func (ix *fakeIndex) IsTrained() bool {
	ix.rlock()
	defer ix.mu.RUnlock()
	return !ix.ivf || ix.trained
}

func (ix *fakeIndex) Ntotal() int64 {
	ix.rlock()
	defer ix.mu.RUnlock()
	return int64(len(ix.ids))
}

func (ix *fakeIndex) MetricType() int {
	ix.rlock()
	defer ix.mu.RUnlock()
	return ix.metric
}

func (ix *fakeIndex) IsIVFIndex() bool {
	ix.rlock()
	defer ix.mu.RUnlock()
	return ix.ivf
}

func (ix *fakeIndex) Size() uint64 {
	ix.rlock()
	defer ix.mu.RUnlock()
	n := uint64(len(ix.ids))
	sz := 64 + uint64(len(ix.desc)) + n*(8+4*uint64(ix.d))
	if ix.ivf {
		sz += 4*n + 24*uint64(ix.nlist) + 4*uint64(len(ix.centroids))
		if ix.directMap != directMapNone {
			sz += 16 * n
		}
	} else {
		sz += 16 * n // id map
	}
	return sz
}

// ---------------------------------------------------------------------------
// distances

// l2 is the squared euclidean distance, accumulated in float32 (the explicit
// conversions forbid fused multiply-add, so the result is what a plain
// float32 loop gives on every architecture).
func l2(a, b []float32) float32 {
	var s float32
	for i := range a {
		diff := a[i] - b[i]
		s += float32(diff * diff)
	}
	return s
}

func dot(a, b []float32) float32 {
	var s float32
	for i := range a {
		s += float32(a[i] * b[i])
	}
	return s
}

func (ix *fakeIndex) vec(e int) []float32 {
	return ix.vecs[e*ix.d : (e+1)*ix.d]
}

func (ix *fakeIndex) score(q []float32, e int) float32 {
	if ix.metric == MetricInnerProduct {
		return dot(q, ix.vec(e))
	}
	return l2(q, ix.vec(e))
}

// worst is what faiss leaves in the distance slot of a missing result.
func (ix *fakeIndex) worst() float32 {
	if ix.metric == MetricInnerProduct {
		return -math.MaxFloat32
	}
	return math.MaxFloat32
}

type cand struct {
	score float32
	id    int64
	e     int
}

// better: strictly better score first, then smaller id, then older entry.
func (ix *fakeIndex) better(a, b cand) bool {
	if a.score != b.score {
		if ix.metric == MetricInnerProduct {
			return a.score > b.score
		}
		return a.score < b.score
	}
	if a.id != b.id {
		return a.id < b.id
	}
	return a.e < b.e
}

// ---------------------------------------------------------------------------
// training / adding

func (ix *fakeIndex) vectors(op string, x []float32) (int, error) {
	if len(x) == 0 {
		noteWouldPanic(op) // &x[0]
		return 0, fmt.Errorf("fakefaiss: %s: no vectors given", op)
	}
	if len(x)%ix.d != 0 {
		return 0, fmt.Errorf("fakefaiss: %s: %d floats is not a multiple of the dimension %d", op, len(x), ix.d)
	}
	return len(x) / ix.d, nil
}

func vecKey(v []float32, buf []byte) string {
	buf = buf[:0]
	for _, f := range v {
		b := math.Float32bits(f)
		buf = append(buf, byte(b), byte(b>>8), byte(b>>16), byte(b>>24))
	}
	return string(buf)
}

// Train picks the centroids of an IVF index: the distinct training vectors
// are listed in order of first occurrence; with m >= nlist of them centroid j
// is the (j*m/nlist)-th one, otherwise centroid j is the (j mod m)-th one
// (duplicate centroids never receive vectors).  No k-means.  Training an
// already trained index, or a flat index, is a no-op.
func (ix *fakeIndex) Train(x []float32) error {
	if err := enter("Train"); err != nil {
		return err
	}
	ix.wlock()
	defer ix.mu.Unlock()
	n, err := ix.vectors("Train", x)
	if err != nil {
		return err
	}
	if !ix.ivf || ix.trained {
		return nil
	}
	if n < ix.nlist {
		return fmt.Errorf("fakefaiss: Train: number of training points (%d) should be at least "+
			"as large as number of clusters (%d)", n, ix.nlist)
	}
	d := ix.d
	seen := make(map[string]struct{}, n)
	distinct := make([]int, 0, n)
	buf := make([]byte, 0, 4*d)
	for i := 0; i < n; i++ {
		k := vecKey(x[i*d:(i+1)*d], buf)
		if _, ok := seen[k]; !ok {
			seen[k] = struct{}{}
			distinct = append(distinct, i)
		}
	}
	m := len(distinct)
	cent := make([]float32, 0, ix.nlist*d)
	for j := 0; j < ix.nlist; j++ {
		var src int
		if m >= ix.nlist {
			src = distinct[j*m/ix.nlist]
		} else {
			src = distinct[j%m]
		}
		cent = append(cent, x[src*d:(src+1)*d]...)
	}
	ix.centroids = cent
	ix.trained = true
	return nil
}

func (ix *fakeIndex) centroid(c int) []float32 {
	return ix.centroids[c*ix.d : (c+1)*ix.d]
}

// nearestCentroid: smallest squared L2 distance, ties to the smaller cluster id.
func (ix *fakeIndex) nearestCentroid(v []float32) int {
	best, bestD := 0, float32(0)
	for c := 0; c < ix.nlist; c++ {
		dist := l2(v, ix.centroid(c))
		if c == 0 || dist < bestD {
			best, bestD = c, dist
		}
	}
	return best
}

func (ix *fakeIndex) addLocked(op string, x []float32, xids []int64) error {
	n, err := ix.vectors(op, x)
	if err != nil {
		return err
	}
	if xids != nil && len(xids) != n {
		return fmt.Errorf("fakefaiss: %s: %d vectors but %d ids", op, n, len(xids))
	}
	var assign []int32
	if ix.ivf {
		if !ix.trained {
			return fmt.Errorf("fakefaiss: %s: index is not trained", op)
		}
		if xids != nil && ix.directMap == directMapArray {
			return fmt.Errorf("fakefaiss: %s: cannot have array direct map and add_with_ids", op)
		}
		assign = make([]int32, n)
		for i := 0; i < n; i++ {
			assign[i] = int32(ix.nearestCentroid(x[i*ix.d : (i+1)*ix.d]))
		}
	}
	base := len(ix.ids)
	for i := 0; i < n; i++ {
		id := int64(base + i)
		if xids != nil {
			id = xids[i]
		}
		e := base + i
		ix.ids = append(ix.ids, id)
		ix.byID[id] = e
		if ix.ivf {
			ix.assign = append(ix.assign, assign[i])
			ix.lists[assign[i]] = append(ix.lists[assign[i]], e)
		}
	}
	ix.vecs = append(ix.vecs, x...)
	return nil
}

func (ix *fakeIndex) Add(x []float32) error {
	if err := enter("Add"); err != nil {
		return err
	}
	ix.wlock()
	defer ix.mu.Unlock()
	if ix.idmap {
		return errors.New("fakefaiss: Add: add does not make sense with IndexIDMap, use AddWithIDs")
	}
	return ix.addLocked("Add", x, nil)
}

func (ix *fakeIndex) AddWithIDs(x []float32, xids []int64) error {
	if err := enter("AddWithIDs"); err != nil {
		return err
	}
	ix.wlock()
	defer ix.mu.Unlock()
	if xids == nil {
		xids = []int64{}
	}
	return ix.addLocked("AddWithIDs", x, xids)
}

func (ix *fakeIndex) Reset() error {
	if err := enter("Reset"); err != nil {
		return err
	}
	ix.wlock()
	defer ix.mu.Unlock()
	ix.ids, ix.vecs, ix.assign = nil, nil, nil
	ix.byID = map[int64]int{}
	if ix.ivf {
		ix.lists = make([][]int, ix.nlist)
	}
	return nil
}

// ---------------------------------------------------------------------------
// reconstruction

func (ix *fakeIndex) lookup(op string, key int64) (int, error) {
	if ix.ivf && ix.directMap == directMapNone {
		return 0, fmt.Errorf("fakefaiss: %s: direct map not initialized", op)
	}
	e, ok := ix.byID[key]
	if !ok {
		return 0, fmt.Errorf("fakefaiss: %s: key %d not found", op, key)
	}
	return e, nil
}

func (ix *fakeIndex) Reconstruct(key int64) ([]float32, error) {
	if err := enter("Reconstruct"); err != nil {
		return nil, err
	}
	ix.rlock()
	defer ix.mu.RUnlock()
	rv := make([]float32, ix.d)
	e, err := ix.lookup("Reconstruct", key)
	if err != nil {
		return rv, err
	}
	copy(rv, ix.vec(e))
	return rv, nil
}

// ReconstructBatch writes the vectors stored under keys, in order, into
// recons[:len(keys)*d] and returns recons.  Nothing is written on error.
func (ix *fakeIndex) ReconstructBatch(keys []int64, recons []float32) ([]float32, error) {
	if err := enter("ReconstructBatch"); err != nil {
		return recons, err
	}
	ix.rlock()
	defer ix.mu.RUnlock()
	if len(keys) == 0 {
		noteWouldPanic("ReconstructBatch") // &keys[0]
		return recons, nil
	}
	if len(recons) == 0 {
		noteWouldPanic("ReconstructBatch") // &recons[0]
	}
	if len(recons) < len(keys)*ix.d {
		return recons, fmt.Errorf("fakefaiss: ReconstructBatch: buffer of %d floats is too small for %d vectors "+
			"of dimension %d", len(recons), len(keys), ix.d)
	}
	es := make([]int, len(keys))
	for i, key := range keys {
		e, err := ix.lookup("ReconstructBatch", key)
		if err != nil {
			return recons, err
		}
		es[i] = e
	}
	for i, e := range es {
		copy(recons[i*ix.d:(i+1)*ix.d], ix.vec(e))
	}
	return recons, nil
}

// ---------------------------------------------------------------------------
// searching

// queries validates the arguments common to all searches.  done is true when
// the (empty) answer is already known.
func (ix *fakeIndex) queries(op string, x []float32, k int64) (nq int, done bool, err error) {
	if len(x) < ix.d {
		noteWouldPanic(op) // &x[0] or &distances[0]
		return 0, true, fmt.Errorf("fakefaiss: %s: query of %d floats, dimension is %d", op, len(x), ix.d)
	}
	if k < 0 {
		noteWouldPanic(op) // make([]float32, negative)
		return 0, true, fmt.Errorf("fakefaiss: %s: negative k", op)
	}
	if k == 0 {
		noteWouldPanic(op) // &distances[0]
		return 0, true, nil
	}
	// like the real wrapper, a trailing partial vector is ignored
	return len(x) / ix.d, false, nil
}

type centroidDist struct {
	c    int
	dist float32
}

// rankCentroids orders the given clusters (all when nil) by increasing
// squared L2 distance to q, ties by cluster id.
func (ix *fakeIndex) rankCentroids(q []float32, among []int) []centroidDist {
	var rv []centroidDist
	if among == nil {
		rv = make([]centroidDist, 0, ix.nlist)
		for c := 0; c < ix.nlist; c++ {
			rv = append(rv, centroidDist{c, l2(q, ix.centroid(c))})
		}
	} else {
		rv = make([]centroidDist, 0, len(among))
		for _, c := range among {
			rv = append(rv, centroidDist{c, l2(q, ix.centroid(c))})
		}
	}
	sort.Slice(rv, func(i, j int) bool {
		if rv[i].dist != rv[j].dist {
			return rv[i].dist < rv[j].dist
		}
		return rv[i].c < rv[j].c
	})
	return rv
}

// scan runs one query.  lists == nil means "every entry" (flat index);
// otherwise the given clusters are scanned in order, stopping after the list
// that brings the number of scanned entries to maxCodes (when maxCodes > 0).
func (ix *fakeIndex) scan(q []float32, k int64, admit func(int64) bool, lists []int, maxCodes int,
	dist []float32, labels []int64) {
	var cands []cand
	consider := func(e int) {
		id := ix.ids[e]
		if admit != nil && !admit(id) {
			return
		}
		cands = append(cands, cand{ix.score(q, e), id, e})
	}
	if lists == nil {
		for e := range ix.ids {
			consider(e)
		}
	} else {
		nscan := 0
		for _, c := range lists {
			for _, e := range ix.lists[c] {
				consider(e)
			}
			nscan += len(ix.lists[c])
			if maxCodes > 0 && nscan >= maxCodes {
				break
			}
		}
	}
	sort.Slice(cands, func(i, j int) bool { return ix.better(cands[i], cands[j]) })
	for i := range labels {
		if i < len(cands) {
			dist[i], labels[i] = cands[i].score, cands[i].id
		} else {
			dist[i], labels[i] = ix.worst(), -1
		}
	}
}

// ivfPlan mirrors go-faiss' NewSearchParams: which nprobe / max_codes a search
// runs with.  defNlist / defNprobe <= 0 mean "those of the index".
func (ix *fakeIndex) ivfPlan(params json.RawMessage, hasSel bool, defNlist, defNprobe int) (
	nprobe, maxCodes int, err error) {
	nlist := ix.nlist
	nprobe = int(ix.nprobe)
	if ix.nprobe < 0 { // size_t(negative) is huge
		nprobe = math.MaxInt32
	}
	if len(params) == 0 && !hasSel {
		return nprobe, 0, nil
	}
	if defNlist > 0 {
		nlist = defNlist
	}
	if defNprobe > 0 {
		nprobe = defNprobe
	}
	var p searchParamsIVF
	if len(params) > 0 {
		if err := json.Unmarshal(params, &p); err != nil {
			return 0, 0, fmt.Errorf("failed to unmarshal IVF search params, err:%v", err)
		}
		if err := p.Validate(); err != nil {
			return 0, 0, err
		}
	}
	if p.NprobePct > 0 {
		nprobe = max(int(float32(nlist)*(p.NprobePct/100)), 1)
	}
	if p.MaxCodesPct > 0 {
		maxCodes = int(float32(len(ix.ids)) * (p.MaxCodesPct / 100))
	}
	return nprobe, maxCodes, nil
}

// searchLocked answers nq queries.  sel == nil admits every id.
func (ix *fakeIndex) searchLocked(op string, x []float32, k int64, admit func(int64) bool,
	params json.RawMessage) ([]float32, []int64, error) {
	nq, done, err := ix.queries(op, x, k)
	if done {
		return []float32{}, []int64{}, err
	}
	nprobe, maxCodes := 0, 0
	if ix.ivf {
		// (the flat index never looks at params, like the real one)
		nprobe, maxCodes, err = ix.ivfPlan(params, admit != nil, 0, 0)
		if err != nil {
			return nil, nil, err
		}
		if !ix.trained {
			return nil, nil, fmt.Errorf("fakefaiss: %s: index is not trained", op)
		}
		if nprobe <= 0 {
			return nil, nil, fmt.Errorf("fakefaiss: %s: nprobe must be > 0", op)
		}
		nprobe = min(nprobe, ix.nlist)
	}
	dist := make([]float32, int64(nq)*k)
	labels := make([]int64, int64(nq)*k)
	for i := 0; i < nq; i++ {
		q := x[i*ix.d : (i+1)*ix.d]
		var lists []int
		if ix.ivf {
			ranked := ix.rankCentroids(q, nil)[:nprobe]
			lists = make([]int, nprobe)
			for j, r := range ranked {
				lists[j] = r.c
			}
		}
		ix.scan(q, k, admit, lists, maxCodes, dist[int64(i)*k:int64(i+1)*k], labels[int64(i)*k:int64(i+1)*k])
	}
	return dist, labels, nil
}

// Search returns, per query, the k best ids (best first).  Missing results
// have label -1 (and distance +/-MaxFloat32).
func (ix *fakeIndex) Search(x []float32, k int64) ([]float32, []int64, error) {
	if err := enter("Search"); err != nil {
		return nil, nil, err
	}
	ix.rlock()
	defer ix.mu.RUnlock()
	return ix.searchLocked("Search", x, k, nil, nil)
}

// SearchWithoutIDs searches among the ids not in exclude.
func (ix *fakeIndex) SearchWithoutIDs(x []float32, k int64, exclude []int64, params json.RawMessage) (
	[]float32, []int64, error) {
	if err := enter("SearchWithoutIDs"); err != nil {
		return nil, nil, err
	}
	ix.rlock()
	defer ix.mu.RUnlock()
	var admit func(int64) bool
	if len(exclude) > 0 {
		set := newSet(exclude)
		admit = func(id int64) bool { _, ex := set[id]; return !ex }
	}
	return ix.searchLocked("SearchWithoutIDs", x, k, admit, params)
}

// SearchWithIDs searches among the ids in include.
func (ix *fakeIndex) SearchWithIDs(x []float32, k int64, include []int64, params json.RawMessage) (
	[]float32, []int64, error) {
	if err := enter("SearchWithIDs"); err != nil {
		return nil, nil, err
	}
	ix.rlock()
	defer ix.mu.RUnlock()
	if len(include) == 0 {
		noteWouldPanic("SearchWithIDs") // NewIDSelectorBatch: &indices[0]
	}
	set := newSet(include)
	admit := func(id int64) bool { _, in := set[id]; return in }
	return ix.searchLocked("SearchWithIDs", x, k, admit, params)
}

// ---------------------------------------------------------------------------
// IVF-only operations

var errNotIVF = errors.New("index is not an IVF index")

// ObtainClusterVectorCountsFromIVFIndex maps cluster id -> how many of vecIDs
// (counted with multiplicity) live in it.
func (ix *fakeIndex) ObtainClusterVectorCountsFromIVFIndex(vecIDs []int64) (map[int64]int64, error) {
	if err := enter("ObtainClusterVectorCounts"); err != nil {
		return nil, err
	}
	ix.rlock()
	defer ix.mu.RUnlock()
	if !ix.ivf {
		return nil, errNotIVF
	}
	if len(vecIDs) == 0 {
		noteWouldPanic("ObtainClusterVectorCounts") // &vecIDs[0]
		return map[int64]int64{}, nil
	}
	rv := make(map[int64]int64, len(vecIDs))
	for _, id := range vecIDs {
		e, err := ix.lookup("ObtainClusterVectorCounts", id)
		if err != nil {
			return nil, err
		}
		rv[int64(ix.assign[e])]++
	}
	return rv, nil
}

// ObtainClustersWithDistancesFromIVFIndex returns the valid, distinct ids of
// centroidIDs ordered by increasing squared L2 distance between their centroid
// and x (ties by id), with these distances.  Like faiss, both results have
// len(centroidIDs) elements: missing ones are (-1, MaxFloat32).
func (ix *fakeIndex) ObtainClustersWithDistancesFromIVFIndex(x []float32, centroidIDs []int64) (
	[]int64, []float32, error) {
	if err := enter("ObtainClustersWithDistances"); err != nil {
		return nil, nil, err
	}
	ix.rlock()
	defer ix.mu.RUnlock()
	if !ix.ivf {
		return nil, nil, errNotIVF
	}
	if len(centroidIDs) == 0 {
		noteWouldPanic("ObtainClustersWithDistances") // &indices[0]
		return []int64{}, []float32{}, nil
	}
	if len(x) < ix.d {
		noteWouldPanic("ObtainClustersWithDistances") // &x[0]
		return nil, nil, fmt.Errorf("fakefaiss: ObtainClustersWithDistances: query of %d floats, dimension is %d",
			len(x), ix.d)
	}
	if !ix.trained {
		return nil, nil, errors.New("fakefaiss: ObtainClustersWithDistances: index is not trained")
	}
	seen := make(map[int64]struct{}, len(centroidIDs))
	among := make([]int, 0, len(centroidIDs))
	for _, c := range centroidIDs {
		if _, dup := seen[c]; dup || c < 0 || c >= int64(ix.nlist) {
			continue
		}
		seen[c] = struct{}{}
		among = append(among, int(c))
	}
	ranked := ix.rankCentroids(x[:ix.d], among)
	ids := make([]int64, len(centroidIDs))
	dists := make([]float32, len(centroidIDs))
	for i := range ids {
		if i < len(ranked) {
			ids[i], dists[i] = int64(ranked[i].c), ranked[i].dist
		} else {
			ids[i], dists[i] = -1, math.MaxFloat32
		}
	}
	return ids, dists, nil
}

// SearchClustersFromIVFIndex scans, in the given order, the first nprobe of
// eligibleCentroidIDs for ids admitted by selector, where (as in go-faiss)
// nprobe = minEligibleCentroids when positive, else the index's nprobe, unless
// params carries ivf_nprobe_pct (then that percentage of
// len(eligibleCentroidIDs), at least 1); ivf_max_codes_pct bounds the number
// of scanned entries.  nprobe is clamped to len(eligibleCentroidIDs) (the real
// wrapper would slice out of range).  Negative cluster ids are skipped, ids
// >= nlist are an error.  centroidDis is not used: vectors are stored exactly.
func (ix *fakeIndex) SearchClustersFromIVFIndex(selector Selector, eligibleCentroidIDs []int64,
	minEligibleCentroids int, k int64, x, centroidDis []float32, params json.RawMessage) (
	[]float32, []int64, error) {
	const op = "SearchClusters"
	if err := enter(op); err != nil {
		return nil, nil, err
	}
	ix.rlock()
	defer ix.mu.RUnlock()
	if !ix.ivf {
		return nil, nil, errNotIVF
	}
	var sel *FaissIDSelector
	if selector != nil {
		sel = selector.Get()
	} else {
		noteWouldPanic(op) // selector.Get() on a nil interface
	}
	var admit func(int64) bool
	if sel != nil {
		useSelector(sel)
		admit = sel.admits
	}
	nprobe, maxCodes, err := ix.ivfPlan(params, sel != nil, len(eligibleCentroidIDs), minEligibleCentroids)
	if err != nil {
		return nil, nil, err
	}
	nq, done, err := ix.queries(op, x, k)
	if done {
		return []float32{}, []int64{}, err
	}
	if !ix.trained {
		return nil, nil, fmt.Errorf("fakefaiss: %s: index is not trained", op)
	}
	if nprobe <= 0 {
		return nil, nil, fmt.Errorf("fakefaiss: %s: nprobe must be > 0", op)
	}
	if len(eligibleCentroidIDs) == 0 {
		noteWouldPanic(op) // &eligibleCentroidIDs[0]
	}
	if nprobe > len(eligibleCentroidIDs) {
		if nprobe > cap(eligibleCentroidIDs) {
			noteWouldPanic(op) // eligibleCentroidIDs[:effectiveNprobe]
		}
		nprobe = len(eligibleCentroidIDs)
	}
	if len(centroidDis) < nprobe {
		noteWouldPanic(op) // centroidDis[:effectiveNprobe] / &centroidDis[0]
	}
	if nq > 1 {
		// search_preassigned wants nprobe clusters per query; the wrapper hands
		// over nprobe in total.  Only the first query is meaningful.
		return nil, nil, fmt.Errorf("fakefaiss: %s: a single query vector is expected, got %d", op, nq)
	}
	lists := make([]int, 0, nprobe)
	seen := make(map[int64]struct{}, nprobe)
	for _, c := range eligibleCentroidIDs[:nprobe] {
		if _, dup := seen[c]; dup || c < 0 {
			continue // (a repeated cluster is scanned once)
		}
		seen[c] = struct{}{}
		if c >= int64(ix.nlist) {
			return nil, nil, fmt.Errorf("fakefaiss: %s: invalid cluster id %d, nlist is %d", op, c, ix.nlist)
		}
		lists = append(lists, int(c))
	}
	dist := make([]float32, k)
	labels := make([]int64, k)
	ix.scan(x[:ix.d], k, admit, lists, maxCodes, dist, labels)
	return dist, labels, nil
}
