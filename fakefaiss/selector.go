package faiss

// FaissIDSelector stands for the C object behind a selector.  It is opaque to
// callers (zapx never looks inside; it only Delete()s selectors and hands them
// back to the engine).
type FaissIDSelector struct {
	serial  int64
	gen     int64
	deleted bool // guarded by verif.mu

	// immutable after construction
	not      bool
	isRange  bool
	min, max int64
	set      map[int64]struct{}
}

// admits reports whether id is selected.
func (s *FaissIDSelector) admits(id int64) bool {
	var in bool
	if s.isRange {
		in = id >= s.min && id < s.max
	} else {
		_, in = s.set[id]
	}
	return in != s.not
}

// Selector mirrors go-faiss' Selector (Get returns the opaque engine object).
type Selector interface {
	Get() *FaissIDSelector
	Delete()
}

// IDSelector represents a set of IDs.
type IDSelector struct {
	sel *FaissIDSelector
}

// Delete frees the selector.
func (s *IDSelector) Delete() {
	if s == nil || s.sel == nil {
		return
	}
	deleteSelector(s.sel)
}

func (s *IDSelector) Get() *FaissIDSelector {
	return s.sel
}

// IDSelectorNot is the complement of a batch selector.
type IDSelectorNot struct {
	sel *FaissIDSelector
}

// Delete frees the selector.
func (s *IDSelectorNot) Delete() {
	if s == nil || s.sel == nil {
		return
	}
	deleteSelector(s.sel)
}

func (s *IDSelectorNot) Get() *FaissIDSelector {
	return s.sel
}

func newSet(ids []int64) map[int64]struct{} {
	set := make(map[int64]struct{}, len(ids))
	for _, id := range ids {
		set[id] = struct{}{}
	}
	return set
}

// NewIDSelectorRange creates a selector of the IDs in [imin, imax).
func NewIDSelectorRange(imin, imax int64) (Selector, error) {
	if err := enter("NewIDSelectorRange"); err != nil {
		return nil, err
	}
	s := &FaissIDSelector{isRange: true, min: imin, max: imax}
	registerSelector(s)
	return &IDSelector{s}, nil
}

// NewIDSelectorBatch creates a new batch selector (selects exactly indices).
func NewIDSelectorBatch(indices []int64) (Selector, error) {
	if err := enter("NewIDSelectorBatch"); err != nil {
		return nil, err
	}
	if len(indices) == 0 {
		// real wrapper: &indices[0] -> index out of range
		noteWouldPanic("NewIDSelectorBatch")
	}
	s := &FaissIDSelector{set: newSet(indices)}
	registerSelector(s)
	return &IDSelector{s}, nil
}

// NewIDSelectorNot creates a new Not selector, wrapped around a batch
// selector, with the IDs in 'exclude' (selects everything but exclude).
func NewIDSelectorNot(exclude []int64) (Selector, error) {
	if err := enter("NewIDSelectorNot"); err != nil {
		return nil, err
	}
	if len(exclude) == 0 {
		// real wrapper: NewIDSelectorBatch(exclude) -> &indices[0] -> index out of range
		noteWouldPanic("NewIDSelectorNot")
	}
	s := &FaissIDSelector{not: true, set: newSet(exclude)}
	registerSelector(s)
	return &IDSelectorNot{s}, nil
}
