package faiss

import (
	"encoding/binary"
	"errors"
	"fmt"
	"hash/crc32"
	"math"
	"strings"
)

// Serialised form (little endian; the size depends only on the description,
// d, nlist, trained and the number of vectors):
//
//	magic     8 bytes "FKFAISS1"
//	kind      u8   0 flat, 1 ivf
//	directMap u8
//	trained   u8
//	reserved  u8   0
//	d         u32
//	metric    u32  (int32)
//	nlist     u32
//	nprobe    u32  (int32)
//	desc      u32 length + bytes
//	centroids u64 count of floats (0 or nlist*d) + float32s
//	n         u64
//	ids       n * i64
//	vectors   n * d * float32
//	assign    n * u32 (ivf only)
//	crc       u32 IEEE crc32 of everything before
const ioMagic = "FKFAISS1"

// WriteIndexIntoBuffer serialises idx.
func WriteIndexIntoBuffer(idx Index) ([]byte, error) {
	if err := enter("WriteIndexIntoBuffer"); err != nil {
		return nil, err
	}
	if idx == nil {
		return nil, errors.New("fakefaiss: WriteIndexIntoBuffer: nil index")
	}
	if impl, ok := idx.(*IndexImpl); ok && (impl == nil || impl.Index == nil) {
		return nil, errors.New("fakefaiss: WriteIndexIntoBuffer: nil index")
	}
	ix := idx.fake()
	ix.rlock()
	defer ix.mu.RUnlock()

	n := len(ix.ids)
	size := 8 + 4 + 16 + 4 + len(ix.desc) + 8 + 4*len(ix.centroids) + 8 + 8*n + 4*len(ix.vecs) + 4
	if ix.ivf {
		size += 4 * n
	}
	buf := make([]byte, 0, size)
	le := binary.LittleEndian
	buf = append(buf, ioMagic...)
	kind, trained := byte(0), byte(0)
	if ix.ivf {
		kind = 1
	}
	if ix.trained {
		trained = 1
	}
	buf = append(buf, kind, byte(ix.directMap), trained, 0)
	buf = le.AppendUint32(buf, uint32(ix.d))
	buf = le.AppendUint32(buf, uint32(int32(ix.metric)))
	buf = le.AppendUint32(buf, uint32(ix.nlist))
	buf = le.AppendUint32(buf, uint32(ix.nprobe))
	buf = le.AppendUint32(buf, uint32(len(ix.desc)))
	buf = append(buf, ix.desc...)
	buf = le.AppendUint64(buf, uint64(len(ix.centroids)))
	for _, f := range ix.centroids {
		buf = le.AppendUint32(buf, math.Float32bits(f))
	}
	buf = le.AppendUint64(buf, uint64(n))
	for _, id := range ix.ids {
		buf = le.AppendUint64(buf, uint64(id))
	}
	for _, f := range ix.vecs {
		buf = le.AppendUint32(buf, math.Float32bits(f))
	}
	if ix.ivf {
		for _, a := range ix.assign {
			buf = le.AppendUint32(buf, uint32(a))
		}
	}
	buf = le.AppendUint32(buf, crc32.ChecksumIEEE(buf))
	return buf, nil
}

type reader struct {
	buf []byte
	pos int
	err error
}

func (r *reader) take(n uint64) []byte {
	if r.err != nil {
		return nil
	}
	if n > uint64(len(r.buf)-r.pos) {
		r.err = errors.New("fakefaiss: ReadIndexFromBuffer: truncated index")
		return nil
	}
	b := r.buf[r.pos : r.pos+int(n)]
	r.pos += int(n)
	return b
}

func (r *reader) u8() byte {
	if b := r.take(1); b != nil {
		return b[0]
	}
	return 0
}

func (r *reader) u32() uint32 {
	if b := r.take(4); b != nil {
		return binary.LittleEndian.Uint32(b)
	}
	return 0
}

func (r *reader) u64() uint64 {
	if b := r.take(8); b != nil {
		return binary.LittleEndian.Uint64(b)
	}
	return 0
}

func (r *reader) floats(n uint64) []float32 {
	if n > uint64(len(r.buf))/4 {
		r.take(math.MaxUint64) // sets the error
		return nil
	}
	b := r.take(4 * n)
	if b == nil {
		return nil
	}
	rv := make([]float32, n)
	for i := range rv {
		rv[i] = math.Float32frombits(binary.LittleEndian.Uint32(b[4*i:]))
	}
	return rv
}

// ReadIndexFromBuffer rebuilds an index written by WriteIndexIntoBuffer.  The
// buffer is copied (never referenced afterwards), whatever ioflags says.
func ReadIndexFromBuffer(buf []byte, ioflags int) (*IndexImpl, error) {
	if err := enter("ReadIndexFromBuffer"); err != nil {
		return nil, err
	}
	_ = ioflags
	if len(buf) == 0 {
		noteWouldPanic("ReadIndexFromBuffer") // &buf[0]
		return nil, errors.New("fakefaiss: ReadIndexFromBuffer: empty buffer")
	}
	if len(buf) < len(ioMagic)+4 || string(buf[:len(ioMagic)]) != ioMagic {
		return nil, errors.New("fakefaiss: ReadIndexFromBuffer: not a fakefaiss index (bad magic)")
	}
	body, tail := buf[:len(buf)-4], buf[len(buf)-4:]
	if crc32.ChecksumIEEE(body) != binary.LittleEndian.Uint32(tail) {
		return nil, errors.New("fakefaiss: ReadIndexFromBuffer: checksum mismatch")
	}
	r := &reader{buf: body, pos: len(ioMagic)}
	kind, directMap, trained, reserved := r.u8(), r.u8(), r.u8(), r.u8()
	d := r.u32()
	metric := int32(r.u32())
	nlist := r.u32()
	nprobe := int32(r.u32())
	desc := string(r.take(uint64(r.u32())))
	centroids := r.floats(r.u64())
	n := r.u64()
	if r.err == nil && n > uint64(len(body))/8 {
		r.take(math.MaxUint64)
	}
	var ids []int64
	if b := r.take(8 * n); b != nil {
		ids = make([]int64, n)
		for i := range ids {
			ids[i] = int64(binary.LittleEndian.Uint64(b[8*i:]))
		}
	}
	var vecs []float32
	if r.err == nil {
		if d != 0 && n > math.MaxUint64/uint64(d) {
			r.take(math.MaxUint64)
		} else {
			vecs = r.floats(n * uint64(d))
		}
	}
	var assign []int32
	if kind == 1 {
		if b := r.take(4 * n); b != nil {
			assign = make([]int32, n)
			for i := range assign {
				assign[i] = int32(binary.LittleEndian.Uint32(b[4*i:]))
			}
		}
	}
	if r.err != nil {
		return nil, r.err
	}
	if r.pos != len(body) {
		return nil, errors.New("fakefaiss: ReadIndexFromBuffer: trailing bytes")
	}

	bad := func(what string) (*IndexImpl, error) {
		return nil, fmt.Errorf("fakefaiss: ReadIndexFromBuffer: inconsistent index (%s)", what)
	}
	if kind > 1 || trained > 1 || reserved != 0 || directMap > directMapHashtable {
		return bad("header")
	}
	if d == 0 || d > math.MaxInt32 {
		return bad("dimension")
	}
	ix := &fakeIndex{
		desc:      desc,
		d:         int(d),
		metric:    int(metric),
		ids:       ids,
		vecs:      vecs,
		byID:      make(map[int64]int, len(ids)),
		directMap: int(directMap),
	}
	for e, id := range ids {
		ix.byID[id] = e
	}
	if kind == 1 {
		if nlist == 0 || nlist > 1<<25 {
			return bad("nlist")
		}
		ix.ivf = true
		ix.nlist = int(nlist)
		ix.nprobe = nprobe
		ix.trained = trained == 1
		ix.centroids = centroids
		ix.assign = assign
		want := 0
		if ix.trained {
			want = ix.nlist * ix.d
		}
		if len(centroids) != want {
			return bad("centroids")
		}
		if !ix.trained && n != 0 {
			return bad("vectors in an untrained index")
		}
		ix.lists = make([][]int, ix.nlist)
		for e, a := range assign {
			if a < 0 || int(a) >= ix.nlist {
				return bad("cluster assignment")
			}
			ix.lists[a] = append(ix.lists[a], e)
		}
	} else {
		if nlist != 0 || nprobe != 0 || len(centroids) != 0 || trained != 0 || directMap != 0 {
			return bad("ivf fields in a flat index")
		}
		ix.idmap = strings.HasPrefix(strings.TrimSpace(desc), "IDMap")
	}
	registerIndex(ix)
	return &IndexImpl{ix}, nil
}
