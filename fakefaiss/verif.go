package faiss

import (
	"sort"
	"sync"
)

// This file is the verification side of the fake engine: accounting of the
// objects it hands out and fault injection.  Nothing here exists in the real
// go-faiss.

// Counters are the engine-side counters.  They describe the objects created
// since the last VerifResetCounters (objects created before a reset are
// forgotten: later calls on them change no counter).
type Counters struct {
	// Indexes (IndexFactory / ReadIndexFromBuffer that succeeded).
	Created       int64 // indexes handed out
	Closed        int64 // first Close of an index
	DoubleClosed  int64 // Close of an already closed index
	UseAfterClose int64 // any method other than Close on a closed index
	Live          int64 // Created - Closed

	// Selectors (NewIDSelectorBatch / NewIDSelectorNot / NewIDSelectorRange that succeeded).
	SelectorsCreated        int64
	SelectorsDeleted        int64 // first Delete of a selector
	SelectorsDoubleDeleted  int64 // Delete of an already deleted selector
	SelectorsUseAfterDelete int64 // deleted selector passed to a search
	SelectorsLive           int64 // SelectorsCreated - SelectorsDeleted

	// Calls on which the real cgo wrapper would have crashed the process
	// (typically &x[0] on an empty slice).  The fake carries on (or returns an
	// error) and counts.
	RealWouldPanic int64
}

type fault struct {
	n     int // fail when seen reaches n
	seen  int
	armed bool
	hook  func() // when set: run instead of failing
}

type verifState struct {
	mu         sync.Mutex
	gen        int64 // bumped by VerifResetCounters
	nextSerial int64
	c          Counters
	liveIdx    map[int64]struct{}
	faults     map[string]*fault
	calls      map[string]int
	wouldPanic []string
}

var verif = &verifState{
	liveIdx: map[int64]struct{}{},
	faults:  map[string]*fault{},
	calls:   map[string]int{},
}

// VerifCounters returns a snapshot of the counters.
func VerifCounters() Counters {
	verif.mu.Lock()
	defer verif.mu.Unlock()
	c := verif.c
	c.Live = c.Created - c.Closed
	c.SelectorsLive = c.SelectorsCreated - c.SelectorsDeleted
	return c
}

// VerifResetCounters zeroes all counters and forgets every index and selector
// created so far (they keep working, but no longer influence any counter, nor
// VerifLiveIndexIDs).  Serial numbers keep increasing across resets.
func VerifResetCounters() {
	verif.mu.Lock()
	defer verif.mu.Unlock()
	verif.gen++
	verif.c = Counters{}
	verif.liveIdx = map[int64]struct{}{}
	verif.wouldPanic = nil
}

// VerifLiveIndexIDs returns the serial numbers (ascending) of the indexes
// created since the last reset and not closed yet.
func VerifLiveIndexIDs() []int64 {
	verif.mu.Lock()
	defer verif.mu.Unlock()
	rv := make([]int64, 0, len(verif.liveIdx))
	for id := range verif.liveIdx {
		rv = append(rv, id)
	}
	sort.Slice(rv, func(i, j int) bool { return rv[i] < rv[j] })
	return rv
}

// VerifWouldPanicOps returns, in order, the operations counted in
// Counters.RealWouldPanic since the last reset.
func VerifWouldPanicOps() []string {
	verif.mu.Lock()
	defer verif.mu.Unlock()
	return append([]string(nil), verif.wouldPanic...)
}

// VerifFailNth arms a fault: the n-th call (1-based, counted from now) of
// operation op fails with errors.New("fakefaiss: injected fault in <op>").
// The fault fires once.  Re-arming an op replaces its previous fault.  n <= 0
// disarms op.
//
// Operation names: "IndexFactory", "Train", "AddWithIDs",
// "WriteIndexIntoBuffer", "ReadIndexFromBuffer", "ReconstructBatch",
// "SetDirectMap", "SearchWithoutIDs", "SearchWithIDs",
// "ObtainClusterVectorCounts", "ObtainClustersWithDistances",
// "SearchClusters", "NewIDSelectorBatch", "NewIDSelectorNot"
// (also, outside zapx's surface: "Search", "Add", "Reconstruct", "Reset",
// "NewIDSelectorRange").  Only calls through the exported API count; calls
// the fake makes internally do not.
func VerifFailNth(op string, n int) {
	verif.mu.Lock()
	defer verif.mu.Unlock()
	if n <= 0 {
		delete(verif.faults, op)
		return
	}
	verif.faults[op] = &fault{n: n, armed: true}
}

// VerifOnNth arms a callback instead of a fault: the n-th call (1-based,
// counted from now) of operation op runs f before it proceeds normally (the
// call itself does not fail).  f runs without the package lock held.
func VerifOnNth(op string, n int, f func()) {
	verif.mu.Lock()
	defer verif.mu.Unlock()
	if n <= 0 {
		delete(verif.faults, op)
		return
	}
	verif.faults[op] = &fault{n: n, armed: true, hook: f}
}

// VerifClearFaults disarms every fault.
func VerifClearFaults() {
	verif.mu.Lock()
	defer verif.mu.Unlock()
	verif.faults = map[string]*fault{}
}

// VerifCallCounts returns how many times each operation was called (failed
// calls included) since the last VerifResetCallCounts.
func VerifCallCounts() map[string]int {
	verif.mu.Lock()
	defer verif.mu.Unlock()
	rv := make(map[string]int, len(verif.calls))
	for k, v := range verif.calls {
		rv[k] = v
	}
	return rv
}

// VerifResetCallCounts zeroes the call counts.
func VerifResetCallCounts() {
	verif.mu.Lock()
	defer verif.mu.Unlock()
	verif.calls = map[string]int{}
}

// VerifSerial returns the serial number of an index handed out by this
// package (0 if idx is nil or not one of ours).
func VerifSerial(idx *IndexImpl) int64 {
	if idx == nil {
		return 0
	}
	if f, ok := idx.Index.(*fakeIndex); ok && f != nil {
		return f.serial
	}
	return 0
}

// ---------------------------------------------------------------------------
// internal hooks

// enter counts a call of op and reports whether an armed fault fires.
func enter(op string) error {
	verif.mu.Lock()
	verif.calls[op]++
	if f := verif.faults[op]; f != nil && f.armed {
		f.seen++
		if f.seen == f.n {
			f.armed = false
			delete(verif.faults, op)
			verif.mu.Unlock()
			if f.hook != nil {
				f.hook()
				return nil
			}
			return injected(op)
		}
	}
	verif.mu.Unlock()
	return nil
}

func noteWouldPanic(op string) {
	verif.mu.Lock()
	verif.c.RealWouldPanic++
	verif.wouldPanic = append(verif.wouldPanic, op)
	verif.mu.Unlock()
}

func registerIndex(ix *fakeIndex) {
	verif.mu.Lock()
	verif.nextSerial++
	ix.serial = verif.nextSerial
	ix.gen = verif.gen
	verif.c.Created++
	verif.liveIdx[ix.serial] = struct{}{}
	verif.mu.Unlock()
}

// noteClose is called with ix.mu held; first tells whether this is the first Close.
func noteClose(ix *fakeIndex, first bool) {
	verif.mu.Lock()
	if ix.gen == verif.gen {
		if first {
			verif.c.Closed++
			delete(verif.liveIdx, ix.serial)
		} else {
			verif.c.DoubleClosed++
		}
	}
	verif.mu.Unlock()
}

func noteUseAfterClose(ix *fakeIndex) {
	verif.mu.Lock()
	if ix.gen == verif.gen {
		verif.c.UseAfterClose++
	}
	verif.mu.Unlock()
}

func registerSelector(s *FaissIDSelector) {
	verif.mu.Lock()
	verif.nextSerial++
	s.serial = verif.nextSerial
	s.gen = verif.gen
	verif.c.SelectorsCreated++
	verif.mu.Unlock()
}

func deleteSelector(s *FaissIDSelector) {
	verif.mu.Lock()
	first := !s.deleted
	s.deleted = true
	if s.gen == verif.gen {
		if first {
			verif.c.SelectorsDeleted++
		} else {
			verif.c.SelectorsDoubleDeleted++
		}
	}
	verif.mu.Unlock()
}

// useSelector counts a use-after-delete if s was deleted.
func useSelector(s *FaissIDSelector) {
	verif.mu.Lock()
	if s.deleted && s.gen == verif.gen {
		verif.c.SelectorsUseAfterDelete++
	}
	verif.mu.Unlock()
}
