#!/bin/bash
# coverage.sh [seed]: which statements of /repo do the generators of all 20 properties execute?
# Builds the harness with -cover (vectors tag on and off) in a scratch directory outside /verif,
# runs every quick-tier generator, and prints the blocks of /repo that were never executed, error
# returns and statistics getters left out.  A generator-quality measurement, not a check.
set -e
export GOFLAGS=-mod=mod GOPROXY=off GOSUMDB=off GOTOOLCHAIN=local GOMEMLIMIT=6GiB
SEED=${1:-1}
V=$(cd "$(dirname "$0")/.." && pwd)
T=$(mktemp -d /root/zxcov.XXXXXX)
trap 'rm -rf "$T"' EXIT
cd "$V/harness"
go build -cover -coverpkg=github.com/blevesearch/zapx/v16,zxh -tags "verif vectors" -o "$T/zxh-vec" .
go build -cover -coverpkg=github.com/blevesearch/zapx/v16,zxh -tags "verif" -o "$T/zxh" .
mkdir "$T/d1" "$T/d2"
cd "$T"
for i in $(seq -w 1 20); do
  ( GOCOVERDIR=$T/d1 ./zxh-vec gen -prop C$i -seed $SEED -tier quick 2>/dev/null | GOCOVERDIR=$T/d1 ./zxh-vec run >/dev/null 2>&1 ) &
done; wait
for i in $(seq -w 1 13) 17 18 20; do
  ( GOCOVERDIR=$T/d2 ./zxh gen -prop C$i -seed $SEED -tier quick 2>/dev/null | GOCOVERDIR=$T/d2 ./zxh run >/dev/null 2>&1 ) &
done; wait
go tool covdata textfmt -i=d1 -o vec.txt
go tool covdata textfmt -i=d2 -o nov.txt
grep -h -v "^mode:" vec.txt nov.txt | grep "zapx/v16" | grep -v zz_verif | awk '{split($1,a,":"); k=$1; n[k]=$2; if ($3>0) c[k]=1} END {t=0;h=0; for (k in n) {t+=n[k]; if (c[k]) h+=n[k]} printf "statements of /repo executed by the generators: %d of %d (%.1f%%)\n", h, t, 100*h/t}'
python3 "$V/tools/uncovered.py" | awk 'BEGIN{RS="--- "} !/err != nil/ && !/BytesRead|BytesWritten|Size\(\)|incrementBytes|func .* (Size|size)\(/ && NF {printf "--- %s", $0}'
