#!/bin/bash
# tools/recheck_own.sh <seed-id>: re-run only the quick check of the property a seeded change was
# written against (the change is already validated: seeded/<id>/meta.json exists) and update
# `detected_by_own_property_check` / `detected_by_checks` in its meta.json.  The other checks' earlier
# verdicts are kept.  Works on $VERIF_REPO (a copy of the repository, never /repo itself).
set -u
ID="$1"
export GOFLAGS=-mod=mod GOPROXY=off GOSUMDB=off GOTOOLCHAIN=local
VERIF="$(cd "$(dirname "${BASH_SOURCE[0]}")/.." && pwd)"
REPO="${VERIF_REPO:?set VERIF_REPO to a copy of the repository}"
D=$VERIF/seeded/$ID
P=${ID%%-*}
git -C $REPO apply "$D/patch.diff" || { echo "$ID APPLYFAIL"; exit 2; }
out=$(cd $VERIF && VERIF_REPO=$REPO timeout 3000 bin/check $P --tier quick 2>/dev/null | grep -m1 "^VIOLATION")
git -C $REPO checkout -- .
python3 - "$D" "$P" "$out" <<'PY'
import json,sys,os
d,p,out=sys.argv[1:4]
f=os.path.join(d,'meta.json')
m=json.load(open(f))
det=[c for c in m.get("detected_by_checks",[]) if c!=p]
if out: det=[p]+det
m["detected_by_checks"]=sorted(det)
m["detected_by_own_property_check"]=bool(out)
m["own_check_rerun_with_final_machinery"]=True
m["own_check_verdict"]=out
json.dump(m,open(f,'w'),indent=1)
print(m["seed_id"], "own:", "yes" if out else "NO", out[-60:])
PY
