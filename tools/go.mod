module veriftools

go 1.21
