#!/usr/bin/env python3
"""seeded/MATRIX.md from seeded/*/meta.json: which seeded change is caught by which check."""
import json, os, glob
root = os.path.join(os.path.dirname(os.path.dirname(os.path.abspath(__file__))), "seeded")
rows = []
for m in sorted(glob.glob(os.path.join(root, "*", "meta.json"))):
    d = json.load(open(m))
    rows.append(d)
out = ["# Seeded changes and the checks that report them", "",
       "Each change was written by an independent sub-agent that saw only the property text; `valid` = applies, builds, the",
       "existing tests pass with it, its demonstration fails with it and passes without it (re-validated by tools/trymutant.sh).",
       "`checks run` = the quick checks that were executed against it (`all` = every check in MANIFEST.json).", "",
       "| id | breaks | valid | caught by own check | caught by | checks run | what it needs |", "|---|---|---|---|---|---|---|"]
for d in rows:
    need = " ".join(d.get("needs_to_manifest", "").split())[:160].replace("|", "/")
    out.append("| %s | %s | %s | %s | %s | %s | %s |" % (d["seed_id"], d["breaks_property"], "yes" if d["valid"] else "NO",
               "yes" if d["detected_by_own_property_check"] else "**no**", " ".join(d["detected_by_checks"]) or "-",
               d.get("checks_run", "all"), need))
n = len(rows); v = [d for d in rows if d["valid"]]; c = [d for d in v if d["detected_by_own_property_check"]]
a = [d for d in v if d["detected_by_checks"]]
out += ["", f"{n} changes, {len(v)} valid; {len(c)} caught by the check of the property they were written against, "
        f"{len(a)} caught by at least one check."]
open(os.path.join(root, "MATRIX.md"), "w").write("\n".join(out) + "\n")
print(out[-1])
