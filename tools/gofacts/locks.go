package main

import (
	"fmt"
	"go/ast"
	"go/token"
	"sort"
	"strings"

	"veriftools/internal/gosrc"
)

// ---------------------------------------------------------------------------
// item 8: isClosed poll sites

type pollSite struct {
	fn             string
	returnsClosed  bool
	releasesBefore int
}

func pollSites(p *gosrc.Pkg) []pollSite {
	var out []pollSite
	for _, fd := range p.FuncList {
		if fd.Body == nil || fd.Name.Name == "isClosed" && fd.Recv == nil {
			continue
		}
		key := gosrc.FuncKey(fd)
		matched := map[*ast.CallExpr]bool{}
		ast.Inspect(fd.Body, func(n ast.Node) bool {
			ifs, ok := n.(*ast.IfStmt)
			if !ok {
				return true
			}
			c, ok := stripParens(ifs.Cond).(*ast.CallExpr)
			if !ok || !isIdent(c.Fun, "isClosed") || ifs.Init != nil {
				return true
			}
			matched[c] = true
			site := pollSite{fn: key}
			for _, s := range ifs.Body.List {
				if e, ok := s.(*ast.ExprStmt); ok {
					if cc, ok := e.X.(*ast.CallExpr); ok && isIdent(cc.Fun, "freeReconstructedIndexes") {
						site.releasesBefore++
					}
				}
				if r, ok := s.(*ast.ReturnStmt); ok {
					for _, res := range r.Results {
						if sel, ok := stripParens(res).(*ast.SelectorExpr); ok && sel.Sel.Name == "ErrClosed" {
							site.returnsClosed = true
						}
					}
					break
				}
			}
			out = append(out, site)
			return true
		})
		ast.Inspect(fd.Body, func(n ast.Node) bool {
			if c, ok := n.(*ast.CallExpr); ok && isIdent(c.Fun, "isClosed") && !matched[c] {
				out = append(out, pollSite{fn: key + " " + unrec})
			}
			return true
		})
	}
	sort.SliceStable(out, func(i, j int) bool { return out[i].fn < out[j].fn })
	if len(out) == 0 {
		// an empty list would satisfy every "all sites ..." obligation vacuously
		out = append(out, pollSite{fn: unrec + ":no isClosed poll site in the package"})
	}
	return out
}

// ---------------------------------------------------------------------------
// item 9: lock sets at accesses to shared locations

type lockLoc struct{ structName, field string }

var lockLocs = []lockLoc{
	{"SegmentBase", "fieldFSTs"},
	{"synonymIndexCache", "cache"},
	{"vectorIndexCache", "cache"},
	{"Segment", "refs"},
}

type lockFact struct {
	fn, location, access string
	held                 []string
}

type lockSet map[string]bool

func (s lockSet) copy() lockSet {
	c := lockSet{}
	for k := range s {
		c[k] = true
	}
	return c
}

func intersect(sets []lockSet) lockSet {
	if len(sets) == 0 {
		return lockSet{}
	}
	out := sets[0].copy()
	for _, s := range sets[1:] {
		for k := range out {
			if !s[k] {
				delete(out, k)
			}
		}
	}
	return out
}

type lockWalker struct {
	p      *gosrc.Pkg
	key    string
	env    gosrc.TypeEnv
	locked bool // *LOCKED naming convention
	out    []lockFact
	exits  [][]lockSet // per enclosing breakable statement: states at break/continue
}

func (w *lockWalker) matchLoc(sel *ast.SelectorExpr) (label string, ok bool) {
	field := sel.Sel.Name
	var cands []lockLoc
	for _, l := range lockLocs {
		if l.field == field {
			cands = append(cands, l)
		}
	}
	if len(cands) == 0 {
		return "", false
	}
	if bt := w.p.TypeOf(sel.X, w.env); bt != nil {
		n := gosrc.BaseTypeName(bt)
		for _, l := range cands {
			if n == l.structName {
				return l.structName + "." + l.field, true
			}
		}
		for _, l := range cands {
			// promoted through embedding, unless the outer struct declares the field itself
			if w.p.Embeds(n, l.structName) && !declares(w.p, n, field) {
				return l.structName + "." + l.field, true
			}
		}
		if n != "" {
			return "", false
		}
	}
	// base type unknown: decide by uniqueness of the field name in the package
	decl := w.p.StructsDeclaring(field)
	if len(decl) == 1 {
		for _, l := range cands {
			if l.structName == decl[0] {
				return l.structName + "." + l.field, true
			}
		}
		return "", false
	}
	return unrec + ":cannot tell which struct owns " + w.p.Text(sel), true
}

func declares(p *gosrc.Pkg, structName, field string) bool {
	for _, s := range p.StructsDeclaring(field) {
		if s == structName {
			return true
		}
	}
	return false
}

func (w *lockWalker) heldFor(base string, st lockSet) []string {
	if w.locked {
		return []string{"m(LOCKED-convention)"}
	}
	var out []string
	for k := range st {
		if strings.HasPrefix(k, base+".") {
			out = append(out, strings.TrimPrefix(k, base+"."))
		}
	}
	sort.Strings(out)
	return out
}

// record notes every access to a watched location inside n.
func (w *lockWalker) record(n ast.Node, st lockSet) {
	if n == nil {
		return
	}
	writes := map[ast.Expr]bool{}
	reads := map[ast.Expr]bool{} // explicit read-only uses of &x.f
	markTarget := func(e ast.Expr) {
		e = stripParens(e)
		for {
			ix, ok := e.(*ast.IndexExpr)
			if !ok {
				break
			}
			e = stripParens(ix.X)
		}
		writes[e] = true
	}
	ast.Inspect(n, func(m ast.Node) bool {
		switch x := m.(type) {
		case *ast.AssignStmt:
			for _, l := range x.Lhs {
				markTarget(l)
			}
		case *ast.IncDecStmt:
			markTarget(x.X)
		case *ast.CallExpr:
			if isIdent(x.Fun, "delete") && len(x.Args) == 2 {
				markTarget(x.Args[0])
			}
			if sel, ok := x.Fun.(*ast.SelectorExpr); ok && isIdent(sel.X, "atomic") && len(x.Args) >= 1 {
				if u, ok := stripParens(x.Args[0]).(*ast.UnaryExpr); ok && u.Op == token.AND {
					if strings.HasPrefix(sel.Sel.Name, "Load") {
						reads[stripParens(u.X)] = true
					} else {
						writes[stripParens(u.X)] = true
					}
				}
			}
		case *ast.UnaryExpr:
			if x.Op == token.AND {
				if _, isSel := stripParens(x.X).(*ast.SelectorExpr); isSel && !reads[stripParens(x.X)] {
					// address taken: assume it may be written through
					if _, seen := writes[stripParens(x.X)]; !seen {
						writes[stripParens(x.X)] = true
					}
				}
			}
		}
		return true
	})
	ast.Inspect(n, func(m ast.Node) bool {
		sel, ok := m.(*ast.SelectorExpr)
		if !ok {
			return true
		}
		label, ok := w.matchLoc(sel)
		if !ok {
			return true
		}
		access := "read"
		if writes[sel] && !reads[sel] {
			access = "write"
		}
		w.out = append(w.out, lockFact{w.key, label, access, w.heldFor(w.p.Text(sel.X), st)})
		return true
	})
}

// lockOp recognises A.B.Lock() etc.; returns the key "A.B" and the op.
func (w *lockWalker) lockOp(c *ast.CallExpr) (key, op string) {
	sel, ok := c.Fun.(*ast.SelectorExpr)
	if !ok || len(c.Args) != 0 {
		return "", ""
	}
	switch sel.Sel.Name {
	case "Lock", "Unlock", "RLock", "RUnlock":
	default:
		return "", ""
	}
	if _, ok := sel.X.(*ast.SelectorExpr); !ok {
		return "", ""
	}
	return w.p.Text(sel.X), sel.Sel.Name
}

func applyLock(st lockSet, key, op string) {
	switch op {
	case "Lock":
		st[key] = true
	case "Unlock":
		delete(st, key)
	case "RLock":
		st[key+".R"] = true
	case "RUnlock":
		delete(st, key+".R")
	}
}

func (w *lockWalker) block(list []ast.Stmt, st lockSet) (lockSet, bool) {
	for _, s := range list {
		var term bool
		st, term = w.stmt(s, st)
		if term {
			return st, true
		}
	}
	return st, false
}

func (w *lockWalker) stmt(s ast.Stmt, st lockSet) (lockSet, bool) {
	switch x := s.(type) {
	case nil:
		return st, false
	case *ast.ExprStmt:
		if c, ok := x.X.(*ast.CallExpr); ok {
			if key, op := w.lockOp(c); op != "" {
				st = st.copy()
				applyLock(st, key, op)
				return st, false
			}
			if isIdent(c.Fun, "panic") {
				w.record(x, st)
				return st, true
			}
		}
		w.record(x, st)
		return st, false
	case *ast.DeferStmt:
		if _, op := w.lockOp(x.Call); op != "" {
			return st, false // released only when the function returns
		}
		w.record(x, st)
		return st, false
	case *ast.ReturnStmt:
		w.record(x, st)
		return st, true
	case *ast.BranchStmt:
		if len(w.exits) > 0 && (x.Tok == token.BREAK || x.Tok == token.CONTINUE) {
			w.exits[len(w.exits)-1] = append(w.exits[len(w.exits)-1], st)
		}
		return st, true
	case *ast.BlockStmt:
		return w.block(x.List, st)
	case *ast.LabeledStmt:
		return w.stmt(x.Stmt, st)
	case *ast.IfStmt:
		st, _ = w.stmt(x.Init, st)
		w.record(x.Cond, st)
		var live []lockSet
		if a, term := w.block(x.Body.List, st.copy()); !term {
			live = append(live, a)
		}
		if x.Else != nil {
			if b, term := w.stmt(x.Else, st.copy()); !term {
				live = append(live, b)
			}
		} else {
			live = append(live, st)
		}
		if len(live) == 0 {
			return st, true
		}
		return intersect(live), false
	case *ast.ForStmt:
		st, _ = w.stmt(x.Init, st)
		w.record(x.Cond, st)
		return w.loopBody(x.Body, x.Post, st), false
	case *ast.RangeStmt:
		w.record(x.X, st)
		return w.loopBody(x.Body, nil, st), false
	case *ast.SwitchStmt:
		st, _ = w.stmt(x.Init, st)
		w.record(x.Tag, st)
		return w.clauses(x.Body, st)
	case *ast.TypeSwitchStmt:
		st, _ = w.stmt(x.Init, st)
		w.record(x.Assign, st)
		return w.clauses(x.Body, st)
	case *ast.SelectStmt:
		return w.clauses(x.Body, st)
	default:
		w.record(s, st)
		return st, false
	}
}

func (w *lockWalker) loopBody(body *ast.BlockStmt, post ast.Stmt, st lockSet) lockSet {
	w.exits = append(w.exits, nil)
	live := []lockSet{st}
	if end, term := w.block(body.List, st.copy()); !term {
		end, _ = w.stmt(post, end)
		live = append(live, end)
	}
	live = append(live, w.exits[len(w.exits)-1]...)
	w.exits = w.exits[:len(w.exits)-1]
	return intersect(live)
}

func (w *lockWalker) clauses(body *ast.BlockStmt, st lockSet) (lockSet, bool) {
	w.exits = append(w.exits, nil)
	var live []lockSet
	hasDefault := false
	for _, cl := range body.List {
		var list []ast.Stmt
		in := st.copy()
		switch cc := cl.(type) {
		case *ast.CaseClause:
			if cc.List == nil {
				hasDefault = true
			}
			for _, e := range cc.List {
				w.record(e, st)
			}
			list = cc.Body
		case *ast.CommClause:
			if cc.Comm == nil {
				hasDefault = true
			} else {
				in, _ = w.stmt(cc.Comm, in)
			}
			list = cc.Body
		}
		if end, term := w.block(list, in); !term {
			live = append(live, end)
		}
	}
	live = append(live, w.exits[len(w.exits)-1]...)
	w.exits = w.exits[:len(w.exits)-1]
	if !hasDefault {
		live = append(live, st)
	}
	if len(live) == 0 {
		return st, true
	}
	return intersect(live), false
}

func lockFacts(p *gosrc.Pkg) []lockFact {
	watched := map[string]bool{}
	for _, l := range lockLocs {
		watched[l.field] = true
	}
	var out []lockFact
	for _, key := range sortedFuncKeys(p) {
		fd := p.Funcs[key]
		if fd.Body == nil {
			continue
		}
		any := false
		ast.Inspect(fd.Body, func(n ast.Node) bool {
			if s, ok := n.(*ast.SelectorExpr); ok && watched[s.Sel.Name] {
				any = true
			}
			return !any
		})
		if !any {
			continue
		}
		w := &lockWalker{p: p, key: key, env: p.LocalTypes(fd), locked: strings.HasSuffix(fd.Name.Name, "LOCKED")}
		w.block(fd.Body.List, lockSet{})
		out = append(out, w.out...)
	}
	// dedupe + sort
	seen := map[string]bool{}
	var uniq []lockFact
	for _, f := range out {
		k := f.fn + "\x00" + f.location + "\x00" + f.access + "\x00" + strings.Join(f.held, ",")
		if !seen[k] {
			seen[k] = true
			uniq = append(uniq, f)
		}
	}
	sort.SliceStable(uniq, func(i, j int) bool {
		a, b := uniq[i], uniq[j]
		if a.fn != b.fn {
			return a.fn < b.fn
		}
		if a.location != b.location {
			return a.location < b.location
		}
		if a.access != b.access {
			return a.access < b.access
		}
		return strings.Join(a.held, ",") < strings.Join(b.held, ",")
	})
	// every watched location must be seen at least once
	for _, l := range lockLocs {
		label := l.structName + "." + l.field
		found := false
		for _, f := range uniq {
			if f.location == label {
				found = true
			}
		}
		if !found {
			uniq = append(uniq, lockFact{unrec + ":no access found", label, "read", nil})
		}
	}
	return uniq
}

// ---------------------------------------------------------------------------
// item 10: reference counting bodies

var refTargets = []string{"Segment.AddRef", "Segment.DecRef", "Segment.Close", "ZapPlugin.Open"}

type refBody struct {
	fn    string
	shape []string
}

func refBodies(p *gosrc.Pkg) []refBody {
	var out []refBody
	for _, key := range refTargets {
		fd, ok := p.Funcs[key]
		if !ok || fd.Body == nil {
			out = append(out, refBody{key, []string{unrec + ":" + key + " not found"}})
			continue
		}
		recv := gosrc.RecvName(fd)
		var shape []string
		for _, s := range fd.Body.List {
			shape = append(shape, normStmt(p, s, recv))
		}
		if len(shape) == 0 {
			shape = []string{unrec + ":empty body"}
		}
		out = append(out, refBody{key, shape})
	}
	return out
}

func other(p *gosrc.Pkg, n ast.Node) string { return "other:" + truncateText(p.Text(n), 80) }

func mutexOp(p *gosrc.Pkg, c *ast.CallExpr, recv string) string {
	sel, ok := c.Fun.(*ast.SelectorExpr)
	if !ok || len(c.Args) != 0 {
		return ""
	}
	if _, ok := selOn(sel.X, recv); !ok || recv == "" {
		return ""
	}
	switch sel.Sel.Name {
	case "Lock":
		return "lock"
	case "Unlock":
		return "unlock"
	case "RLock":
		return "rlock"
	case "RUnlock":
		return "runlock"
	}
	return ""
}

func isRefs(e ast.Expr, recv string) bool {
	f, ok := selOn(e, recv)
	return ok && recv != "" && f == "refs"
}

// recvCall matches recv.M() with no arguments; returns M.
func recvCall(e ast.Expr, recv string) string {
	c, ok := stripParens(e).(*ast.CallExpr)
	if !ok || len(c.Args) != 0 || recv == "" {
		return ""
	}
	sel, ok := c.Fun.(*ast.SelectorExpr)
	if !ok || !isIdent(sel.X, recv) {
		return ""
	}
	return sel.Sel.Name
}

func normValue(p *gosrc.Pkg, e ast.Expr, recv string) (string, bool) {
	e = stripParens(e)
	if id, ok := e.(*ast.Ident); ok {
		return id.Name, true
	}
	if m := recvCall(e, recv); m != "" {
		return m, true
	}
	return "", false
}

func normStmt(p *gosrc.Pkg, s ast.Stmt, recv string) string {
	switch x := s.(type) {
	case *ast.ExprStmt:
		if c, ok := x.X.(*ast.CallExpr); ok {
			if op := mutexOp(p, c, recv); op != "" {
				return op
			}
		}
	case *ast.DeferStmt:
		if op := mutexOp(p, x.Call, recv); op != "" {
			return "defer " + op
		}
	case *ast.IncDecStmt:
		if isRefs(x.X, recv) {
			if x.Tok == token.INC {
				return "refs++"
			}
			return "refs--"
		}
	case *ast.AssignStmt:
		if len(x.Lhs) == 1 && len(x.Rhs) == 1 {
			if isRefs(x.Lhs[0], recv) {
				return "refs" + x.Tok.String() + p.Text(x.Rhs[0])
			}
			if isIdent(x.Lhs[0], "err") && x.Tok == token.ASSIGN && recvCall(x.Rhs[0], recv) == "closeActual" {
				return "closeActual"
			}
			// rv := &Segment{ ..., refs: N, ... }
			r := stripParens(x.Rhs[0])
			if u, ok := r.(*ast.UnaryExpr); ok && u.Op == token.AND {
				r = u.X
			}
			if cl, ok := r.(*ast.CompositeLit); ok && gosrc.BaseTypeName(cl.Type) == "Segment" {
				for _, el := range cl.Elts {
					if kv, ok := el.(*ast.KeyValueExpr); ok && isIdent(kv.Key, "refs") {
						return "refs=" + p.Text(kv.Value)
					}
				}
				return "Segment literal without refs"
			}
		}
	case *ast.IfStmt:
		if x.Init == nil {
			if b, ok := stripParens(x.Cond).(*ast.BinaryExpr); ok && isRefs(b.X, recv) {
				var parts []string
				for _, t := range x.Body.List {
					parts = append(parts, normStmt(p, t, recv))
				}
				r := fmt.Sprintf("if refs%s%s {%s}", b.Op.String(), p.Text(b.Y), strings.Join(parts, "; "))
				if x.Else != nil {
					r += " else {" + truncateText(p.Text(x.Else), 60) + "}"
				}
				return r
			}
		}
	case *ast.ReturnStmt:
		if len(x.Results) == 0 {
			return "return"
		}
		var parts []string
		for _, r := range x.Results {
			v, ok := normValue(p, r, recv)
			if !ok {
				return other(p, s)
			}
			parts = append(parts, v)
		}
		return "return " + strings.Join(parts, ", ")
	}
	return other(p, s)
}
