package main

import (
	"go/ast"
	"regexp"
	"sort"
	"strings"

	"veriftools/internal/gosrc"
)

// narrowFact: a conversion T(expr) with T one of the 8/16-bit integer types whose operand
// mentions a document number (an identifier, selector or index expression whose text matches
// doc|Doc).  Document numbers are 32 bits wide in the file format and 64 bits wide in the API;
// nothing may squeeze one through 16 bits.
type narrowFact struct {
	fn, typ, expr string
}

var docNumRe = regexp.MustCompile(`(?i)doc`)

func narrowFacts(p *gosrc.Pkg) []narrowFact {
	narrow := map[string]bool{"uint16": true, "uint8": true, "int16": true, "int8": true, "byte": true}
	var out []narrowFact
	for _, fd := range p.FuncList {
		if fd.Body == nil {
			continue
		}
		name := fd.Name.Name
		if fd.Recv != nil && len(fd.Recv.List) > 0 {
			name = strings.TrimPrefix(p.Text(fd.Recv.List[0].Type), "*") + "." + name
		}
		ast.Inspect(fd.Body, func(n ast.Node) bool {
			c, ok := n.(*ast.CallExpr)
			if !ok || len(c.Args) != 1 {
				return true
			}
			id, ok := c.Fun.(*ast.Ident)
			if !ok || !narrow[id.Name] {
				return true
			}
			arg := p.Text(c.Args[0])
			if docNumRe.MatchString(arg) {
				out = append(out, narrowFact{name, id.Name, arg})
			}
			return true
		})
	}
	sort.Slice(out, func(i, j int) bool {
		if out[i].fn != out[j].fn {
			return out[i].fn < out[j].fn
		}
		return out[i].expr < out[j].expr
	})
	return out
}
