package main

import (
	"go/ast"
	"go/token"
	"sort"

	"veriftools/internal/gosrc"
)

// assignedFields lists, in order of first occurrence, the fields of the
// receiver `recv` that the statements assign (`recv.F = ..`, `recv.F, x = ..`,
// `recv.F++`, `recv.F op= ..`). When follow is true, calls `recv.M(..)` of a
// package method on recvType contribute the fields that M assigns directly
// (one level only).
func assignedFields(p *gosrc.Pkg, stmts []ast.Stmt, recv, recvType string, follow bool) []string {
	var out []string
	for _, s := range stmts {
		ast.Inspect(s, func(n ast.Node) bool {
			switch x := n.(type) {
			case *ast.AssignStmt:
				for _, l := range x.Lhs {
					if f, ok := selOn(l, recv); ok {
						out = appendOnce(out, f)
					}
				}
			case *ast.IncDecStmt:
				if f, ok := selOn(x.X, recv); ok {
					out = appendOnce(out, f)
				}
			case *ast.CallExpr:
				if !follow {
					return true
				}
				sel, ok := x.Fun.(*ast.SelectorExpr)
				if !ok || !isIdent(sel.X, recv) {
					return true
				}
				if m := p.FindMethod(recvType, sel.Sel.Name); m != nil && m.Body != nil {
					for _, f := range assignedFields(p, m.Body.List, gosrc.RecvName(m), recvType, false) {
						out = appendOnce(out, f)
					}
					// atomic stores / adds through the receiver inside the callee
					for _, f := range atomicWrites(p, m.Body, gosrc.RecvName(m)) {
						out = appendOnce(out, f)
					}
				}
			}
			return true
		})
	}
	return out
}

// atomicWrites: fields F with atomic.StoreX(&recv.F, ..) / atomic.AddX(&recv.F, ..).
func atomicWrites(p *gosrc.Pkg, body ast.Node, recv string) []string {
	var out []string
	ast.Inspect(body, func(n ast.Node) bool {
		c, ok := n.(*ast.CallExpr)
		if !ok || len(c.Args) < 1 {
			return true
		}
		sel, ok := c.Fun.(*ast.SelectorExpr)
		if !ok || !isIdent(sel.X, "atomic") {
			return true
		}
		name := sel.Sel.Name
		if len(name) < 3 || !(name[:3] == "Sto" || name[:3] == "Add" || name[:3] == "Swa" || name[:3] == "Com") {
			return true
		}
		if u, ok := stripParens(c.Args[0]).(*ast.UnaryExpr); ok && u.Op == token.AND {
			if f, ok := selOn(u.X, recv); ok {
				out = appendOnce(out, f)
			}
		}
		return true
	})
	return out
}

// readFacts returns (general, oneHit) for (*PostingsList).read.
func readFacts(p *gosrc.Pkg) (general, oneHit []string) {
	fd, ok := p.Funcs["PostingsList.read"]
	if !ok || fd.Body == nil {
		m := []string{unrec + ":PostingsList.read not found"}
		return m, m
	}
	recv := gosrc.RecvName(fd)
	idx := -1
	var test *ast.IfStmt
	for i, s := range fd.Body.List {
		ifs, ok := s.(*ast.IfStmt)
		if !ok || ifs.Init != nil || ifs.Else != nil {
			continue
		}
		b, ok := stripParens(ifs.Cond).(*ast.BinaryExpr)
		if !ok || b.Op != token.EQL {
			continue
		}
		l, r := p.Text(b.X), p.Text(b.Y)
		if !(containsWord(l, "FSTValEncodingMask") && r == "FSTValEncoding1Hit" ||
			containsWord(r, "FSTValEncodingMask") && l == "FSTValEncoding1Hit") {
			continue
		}
		// body must end by returning
		if n := len(ifs.Body.List); n == 0 {
			continue
		} else if _, isRet := ifs.Body.List[n-1].(*ast.ReturnStmt); !isRet {
			continue
		}
		idx, test = i, ifs
		break
	}
	if test == nil {
		m := []string{unrec + ":1-hit test `..&FSTValEncodingMask == FSTValEncoding1Hit` not found in PostingsList.read"}
		return m, m
	}
	before := fd.Body.List[:idx]
	after := fd.Body.List[idx+1:]
	var g, h []ast.Stmt
	g = append(append(g, before...), after...)
	h = append(append(h, before...), test.Body.List...)
	general = assignedFields(p, g, recv, "PostingsList", true)
	oneHit = assignedFields(p, h, recv, "PostingsList", true)
	if len(general) == 0 {
		general = []string{unrec + ":no assignment on the general path"}
	}
	if len(oneHit) == 0 {
		oneHit = []string{unrec + ":no assignment on the 1-hit path"}
	}
	return
}

func containsWord(s, w string) bool {
	for i := 0; i+len(w) <= len(s); i++ {
		if s[i:i+len(w)] != w {
			continue
		}
		okL := i == 0 || !isWordByte(s[i-1])
		okR := i+len(w) == len(s) || !isWordByte(s[i+len(w)])
		if okL && okR {
			return true
		}
	}
	return false
}

func isWordByte(b byte) bool {
	return b == '_' || b >= '0' && b <= '9' || b >= 'a' && b <= 'z' || b >= 'A' && b <= 'Z'
}

// countReads: struct fields of PostingsList read through the receiver in
// (*PostingsList).Count (sorted).
func countReads(p *gosrc.Pkg) []string {
	fd, ok := p.Funcs["PostingsList.Count"]
	if !ok || fd.Body == nil {
		return []string{unrec + ":PostingsList.Count not found"}
	}
	fields, ok := p.FieldNames("PostingsList")
	if !ok {
		return []string{unrec + ":struct PostingsList not found"}
	}
	isField := map[string]bool{}
	for _, f := range fields {
		isField[f] = true
	}
	recv := gosrc.RecvName(fd)
	// pure assignment targets are not reads
	target := map[ast.Expr]bool{}
	ast.Inspect(fd.Body, func(n ast.Node) bool {
		if a, ok := n.(*ast.AssignStmt); ok && (a.Tok == token.ASSIGN || a.Tok == token.DEFINE) {
			for _, l := range a.Lhs {
				target[stripParens(l)] = true
			}
		}
		return true
	})
	var out []string
	ast.Inspect(fd.Body, func(n ast.Node) bool {
		s, ok := n.(*ast.SelectorExpr)
		if !ok || target[s] {
			return true
		}
		if isIdent(s.X, recv) && isField[s.Sel.Name] {
			out = appendOnce(out, s.Sel.Name)
		}
		return true
	})
	// a method call on the receiver may read more fields than we list
	ast.Inspect(fd.Body, func(n ast.Node) bool {
		c, ok := n.(*ast.CallExpr)
		if !ok {
			return true
		}
		if s, ok := c.Fun.(*ast.SelectorExpr); ok && isIdent(s.X, recv) && !isField[s.Sel.Name] {
			out = appendOnce(out, unrec+":reads via method "+s.Sel.Name)
		}
		for _, a := range c.Args {
			if isIdent(stripParens(a), recv) {
				out = appendOnce(out, unrec+":receiver passed to "+truncateText(p.Text(c.Fun), 40))
			}
		}
		return true
	})
	sort.Strings(out)
	if len(out) == 0 {
		out = []string{unrec + ":no field read in PostingsList.Count"}
	}
	return out
}

// ---------------------------------------------------------------------------
// item 6: fields kept across `*rv = T{}`

type preservedFn struct {
	key    string   // "Recv.method"
	fields []string // restored fields, in order
	clear  []bool   // parallel: cleared/reset before being saved
}

var preservedTargets = []string{"Dictionary.postingsListInit", "PostingsList.iterator", "Thesaurus.synonymsListInit"}

func preservedFacts(p *gosrc.Pkg) []preservedFn {
	var out []preservedFn
	for _, key := range preservedTargets {
		out = append(out, preservedFor(p, key))
	}
	return out
}

func preservedFor(p *gosrc.Pkg, key string) preservedFn {
	res := preservedFn{key: key}
	fail := func(msg string) preservedFn {
		res.fields = []string{unrec + ":" + msg}
		res.clear = []bool{false}
		return res
	}
	fd, ok := p.Funcs[key]
	if !ok || fd.Body == nil {
		return fail(key + " not found")
	}
	// find the block holding `*x = T{}`
	var block []ast.Stmt
	idx := -1
	target := ""
	ast.Inspect(fd.Body, func(n ast.Node) bool {
		b, ok := n.(*ast.BlockStmt)
		if !ok || idx >= 0 {
			return idx < 0
		}
		for i, s := range b.List {
			a, ok := s.(*ast.AssignStmt)
			if !ok || a.Tok != token.ASSIGN || len(a.Lhs) != 1 || len(a.Rhs) != 1 {
				continue
			}
			st, ok := a.Lhs[0].(*ast.StarExpr)
			if !ok {
				continue
			}
			id, ok := st.X.(*ast.Ident)
			if !ok || !isEmptyComposite(a.Rhs[0]) {
				continue
			}
			block, idx, target = b.List, i, id.Name
			return false
		}
		return true
	})
	if idx < 0 {
		return fail("no `*rv = T{}` statement in " + key)
	}
	pre, post := block[:idx], block[idx+1:]
	// saved locals: local := rv.F | rv.F[:0]
	type saved struct {
		field   string
		cleared bool
	}
	locals := map[string]*saved{}
	for _, s := range pre {
		ast.Inspect(s, func(n ast.Node) bool {
			switch x := n.(type) {
			case *ast.AssignStmt:
				if len(x.Lhs) != len(x.Rhs) {
					return true
				}
				for i, l := range x.Lhs {
					id, ok := l.(*ast.Ident)
					if !ok {
						continue
					}
					r := stripParens(x.Rhs[i])
					if f, ok := selOn(r, target); ok {
						locals[id.Name] = &saved{field: f}
					} else if sl, ok := r.(*ast.SliceExpr); ok {
						if f, ok := selOn(sl.X, target); ok {
							empty := sl.Low == nil && sl.High != nil && isZeroLit(sl.High)
							locals[id.Name] = &saved{field: f, cleared: empty}
						}
					}
				}
			case *ast.CallExpr:
				// local.Clear() / local.reset() / local.Reset(..)
				sel, ok := x.Fun.(*ast.SelectorExpr)
				if !ok {
					return true
				}
				id, ok := sel.X.(*ast.Ident)
				if !ok {
					return true
				}
				switch sel.Sel.Name {
				case "Clear", "reset", "Reset", "Truncate":
					if sv, ok := locals[id.Name]; ok {
						sv.cleared = true
					}
				}
			}
			return true
		})
	}
	// restored fields: the run of `rv.F = local` right after the clear
	for _, s := range post {
		a, ok := s.(*ast.AssignStmt)
		if !ok || a.Tok != token.ASSIGN || len(a.Lhs) != 1 || len(a.Rhs) != 1 {
			break
		}
		f, ok := selOn(a.Lhs[0], target)
		if !ok {
			break
		}
		id, ok := stripParens(a.Rhs[0]).(*ast.Ident)
		if !ok {
			res.fields = append(res.fields, unrec+":"+f+" restored from "+truncateText(p.Text(a.Rhs[0]), 40))
			res.clear = append(res.clear, false)
			continue
		}
		sv, ok := locals[id.Name]
		switch {
		case !ok:
			res.fields = append(res.fields, unrec+":"+f+" restored from unsaved "+id.Name)
			res.clear = append(res.clear, false)
		case sv.field != f:
			res.fields = append(res.fields, unrec+":"+f+" restored from saved "+sv.field)
			res.clear = append(res.clear, false)
		default:
			res.fields = append(res.fields, f)
			res.clear = append(res.clear, sv.cleared)
		}
	}
	if len(res.fields) == 0 {
		return fail("nothing restored after the clear in " + key)
	}
	return res
}
