package main

import (
	"go/ast"
	"go/token"
	"sort"
	"strings"

	"veriftools/internal/gosrc"
)

var errTargets = []string{
	"PersistSegmentBase", "persistSegmentBaseToWriter", "mergeSegmentBases", "mergeToWriter",
	"interim.convert", "ZapPlugin.newWithChunkMode",
	"invertedTextIndexSection.Persist", "synonymIndexSection.Persist", "faissVectorIndexSection.Persist",
	"invertedTextIndexSection.Merge", "synonymIndexSection.Merge", "faissVectorIndexSection.Merge",
	"vectorIndexOpaque.writeVectorIndexes", "vectorIndexOpaque.mergeAndWriteVectorIndexes",
	"persistFieldsSection", "persistFooter",
}

type errFact struct {
	fn, callee, disp string
	pos              token.Pos
}

// external functions known to return an error as their last result
var extErrFuncs = map[string]bool{
	"binary.Write": true, "binary.Read": true, "binary.ReadUvarint": true, "binary.ReadVarint": true,
	"os.OpenFile": true, "os.Open": true, "os.Create": true, "os.Remove": true, "os.RemoveAll": true,
	"os.Rename": true, "os.Truncate": true, "os.MkdirAll": true, "os.Mkdir": true, "os.WriteFile": true,
	"io.Copy": true, "io.CopyN": true, "io.ReadFull": true, "io.WriteString": true,
	"snappy.Decode": true, "vellum.New": true, "vellum.Load": true, "mmap.Map": true,
	"fmt.Fprintf": true, "fmt.Fprint": true, "fmt.Fprintln": true,
}

// faiss.* functions that do NOT return an error
var faissNoErr = map[string]bool{"SetOMPThreads": true, "NormalizeVector": true}

// method names that return an error on every receiver type zapx uses them on
var extErrMethods = map[string]bool{
	"Write": true, "WriteString": true, "WriteByte": true, "WriteTo": true, "ReadFrom": true,
	"Sync": true, "Flush": true, "Persist": true, "Merge": true, "Unmap": true,
	"SetDirectMap": true, "Train": true, "AddWithIDs": true, "ReconstructBatch": true, "Reconstruct": true,
	"MergeFrom": true, "Insert": true, "FromBuffer": true, "FromUnsafeBytes": true,
}

// method names too generic to resolve by name alone
var genericMethods = map[string]bool{
	"Close": true, "Reset": true, "Read": true, "Next": true, "Advance": true, "Add": true, "Set": true,
	"Get": true, "Put": true, "Size": true, "Count": true, "Clear": true, "Load": true, "Len": true,
}

type errScan struct {
	p       *gosrc.Pkg
	fd      *ast.FuncDecl
	key     string
	env     gosrc.TypeEnv
	files   map[string]bool         // locals holding an *os.File
	closure map[string]*ast.FuncLit // local := func(..) ..
	done    map[*ast.CallExpr]bool  // calls already classified
	out     []errFact
	named   map[string]bool // named error results
}

func errFacts(p *gosrc.Pkg) []errFact {
	var out []errFact
	for _, key := range errTargets {
		fd, ok := p.Funcs[key]
		if !ok || fd.Body == nil {
			out = append(out, errFact{key + " " + unrec, unrec + ":function not found", "ignored", 0})
			continue
		}
		s := &errScan{p: p, fd: fd, key: key, env: p.LocalTypes(fd), files: map[string]bool{},
			closure: map[string]*ast.FuncLit{}, done: map[*ast.CallExpr]bool{}, named: map[string]bool{}}
		if fd.Type.Results != nil {
			for _, f := range fd.Type.Results.List {
				if id, ok := f.Type.(*ast.Ident); ok && id.Name == "error" {
					for _, n := range f.Names {
						s.named[n.Name] = true
					}
				}
			}
		}
		s.prescan()
		s.block(fd.Body.List, nil)
		s.leftovers()
		sort.SliceStable(s.out, func(i, j int) bool { return s.out[i].pos < s.out[j].pos })
		out = append(out, s.out...)
	}
	return out
}

func (s *errScan) prescan() {
	ast.Inspect(s.fd.Body, func(n ast.Node) bool {
		a, ok := n.(*ast.AssignStmt)
		if !ok || len(a.Rhs) != 1 {
			return true
		}
		if fl, ok := a.Rhs[0].(*ast.FuncLit); ok && len(a.Lhs) == 1 {
			if id, ok := a.Lhs[0].(*ast.Ident); ok {
				s.closure[id.Name] = fl
			}
		}
		if c, ok := a.Rhs[0].(*ast.CallExpr); ok {
			switch s.p.Text(c.Fun) {
			case "os.OpenFile", "os.Open", "os.Create":
				if id, ok := a.Lhs[0].(*ast.Ident); ok {
					s.files[id.Name] = true
				}
			}
		}
		return true
	})
}

func isErrName(n string) bool { return strings.HasPrefix(n, "err") }

// returnsError decides whether the call yields an error (as last result).
func (s *errScan) returnsError(c *ast.CallExpr) bool {
	switch f := c.Fun.(type) {
	case *ast.Ident:
		if fl, ok := s.closure[f.Name]; ok {
			return gosrc.ResultsEndInError(fl.Type)
		}
		if _, local := s.env[f.Name]; local {
			return false
		}
		if fd, ok := s.p.Funcs[f.Name]; ok && fd.Recv == nil {
			return gosrc.ResultsEndInError(fd.Type)
		}
		return false
	case *ast.SelectorExpr:
		name := s.p.Text(f)
		if id, ok := f.X.(*ast.Ident); ok && s.p.IsImport(c.Pos(), id.Name) {
			if _, shadow := s.env[id.Name]; !shadow {
				if id.Name == "faiss" {
					return !faissNoErr[f.Sel.Name]
				}
				return extErrFuncs[name]
			}
		}
		// receiver of a known package type: exact answer
		if bt := s.p.TypeOf(f.X, s.env); bt != nil {
			if n := gosrc.BaseTypeName(bt); n != "" {
				if m := s.p.FindMethod(n, f.Sel.Name); m != nil {
					return gosrc.ResultsEndInError(m.Type)
				}
				if _, isStruct := s.p.Structs[n]; isStruct {
					// e.g. a func-typed or embedded-interface field; fall through to names
				}
			}
		}
		if f.Sel.Name == "Close" {
			return s.files[rootIdent(f.X)]
		}
		if extErrMethods[f.Sel.Name] {
			return true
		}
		if genericMethods[f.Sel.Name] {
			return false
		}
		ms := s.p.MethodsByName[f.Sel.Name]
		if len(ms) == 0 {
			return false
		}
		for _, m := range ms {
			if !gosrc.ResultsEndInError(m.Type) {
				return false
			}
		}
		return true
	}
	return false
}

func (s *errScan) emit(c *ast.CallExpr, disp string) {
	s.done[c] = true
	s.out = append(s.out, errFact{s.key, s.p.Text(c.Fun), disp, c.Pos()})
}

// block walks statements in source order; cont is the stack of statement
// lists that follow the current block (innermost last).
func (s *errScan) block(list []ast.Stmt, cont [][]ast.Stmt) {
	for i, st := range list {
		s.stmt(st, append(cont, list[i+1:]))
	}
}

func (s *errScan) stmt(st ast.Stmt, cont [][]ast.Stmt) {
	switch x := st.(type) {
	case *ast.AssignStmt:
		s.assign(x, cont)
		s.nested(x)
	case *ast.ExprStmt:
		if c, ok := x.X.(*ast.CallExpr); ok && s.returnsError(c) {
			s.emit(c, s.uncheckedDisp(c))
		}
		s.nested(x)
	case *ast.DeferStmt:
		if s.returnsError(x.Call) {
			s.emit(x.Call, "ignored")
		}
		s.nested(x)
	case *ast.GoStmt:
		if s.returnsError(x.Call) {
			s.emit(x.Call, "ignored")
		}
		s.nested(x)
	case *ast.ReturnStmt:
		for _, r := range x.Results {
			if c, ok := stripParens(r).(*ast.CallExpr); ok && s.returnsError(c) {
				s.emit(c, "returned")
			}
		}
		s.nested(x)
	case *ast.DeclStmt:
		// var x, err = f()
		if gd, ok := x.Decl.(*ast.GenDecl); ok {
			for _, sp := range gd.Specs {
				vs, ok := sp.(*ast.ValueSpec)
				if !ok || len(vs.Values) != 1 {
					continue
				}
				if c, ok := vs.Values[0].(*ast.CallExpr); ok {
					last := vs.Names[len(vs.Names)-1].Name
					if isErrName(last) || s.returnsError(c) {
						if last == "_" {
							s.emit(c, "ignored")
						} else {
							s.emit(c, s.follow(last, cont))
						}
					}
				}
			}
		}
		s.nested(x)
	case *ast.IfStmt:
		if x.Init != nil {
			// the if itself is the first statement that follows its init
			s.stmt(x.Init, append(cont, []ast.Stmt{withoutInit(x)}))
		}
		s.nestedExpr(x.Cond)
		s.block(x.Body.List, cont)
		switch e := x.Else.(type) {
		case *ast.BlockStmt:
			s.block(e.List, cont)
		case *ast.IfStmt:
			s.stmt(e, cont)
		}
	case *ast.ForStmt:
		if x.Init != nil {
			s.stmt(x.Init, cont)
		}
		s.nestedExpr(x.Cond)
		s.block(x.Body.List, cont)
		if x.Post != nil {
			s.stmt(x.Post, cont)
		}
	case *ast.RangeStmt:
		s.nestedExpr(x.X)
		s.block(x.Body.List, cont)
	case *ast.BlockStmt:
		s.block(x.List, cont)
	case *ast.LabeledStmt:
		s.stmt(x.Stmt, cont)
	case *ast.SwitchStmt:
		if x.Init != nil {
			s.stmt(x.Init, cont)
		}
		s.nestedExpr(x.Tag)
		s.clauses(x.Body, cont)
	case *ast.TypeSwitchStmt:
		if x.Init != nil {
			s.stmt(x.Init, cont)
		}
		s.stmt(x.Assign, cont)
		s.clauses(x.Body, cont)
	case *ast.SelectStmt:
		s.clauses(x.Body, cont)
	default:
		s.nested(st)
	}
}

func withoutInit(x *ast.IfStmt) *ast.IfStmt {
	cp := *x
	cp.Init = nil
	return &cp
}

func (s *errScan) clauses(body *ast.BlockStmt, cont [][]ast.Stmt) {
	for _, cl := range body.List {
		switch cc := cl.(type) {
		case *ast.CaseClause:
			for _, e := range cc.List {
				s.nestedExpr(e)
			}
			s.block(cc.Body, cont)
		case *ast.CommClause:
			if cc.Comm != nil {
				s.stmt(cc.Comm, cont)
			}
			s.block(cc.Body, cont)
		}
	}
}

// nested handles function literals inside a simple statement (their bodies
// are scanned like blocks with no continuation) and leaves other nested
// calls to leftovers().
func (s *errScan) nested(n ast.Node) {
	ast.Inspect(n, func(m ast.Node) bool {
		if fl, ok := m.(*ast.FuncLit); ok {
			saved := s.named
			s.named = map[string]bool{}
			if fl.Type.Results != nil {
				for _, f := range fl.Type.Results.List {
					if id, ok := f.Type.(*ast.Ident); ok && id.Name == "error" {
						for _, nm := range f.Names {
							s.named[nm.Name] = true
						}
					}
				}
			}
			s.block(fl.Body.List, nil)
			s.named = saved
			return false
		}
		return true
	})
}

func (s *errScan) nestedExpr(e ast.Expr) {
	if e != nil {
		s.nested(e)
	}
}

func (s *errScan) assign(x *ast.AssignStmt, cont [][]ast.Stmt) {
	if len(x.Rhs) != 1 {
		return
	}
	c, ok := stripParens(x.Rhs[0]).(*ast.CallExpr)
	if !ok {
		return
	}
	last, ok := x.Lhs[len(x.Lhs)-1].(*ast.Ident)
	lastName := ""
	if ok {
		lastName = last.Name
	}
	switch {
	case lastName != "" && lastName != "_" && isErrName(lastName):
		s.emit(c, s.follow(lastName, cont))
	case s.returnsError(c):
		if lastName == "_" || lastName == "" {
			s.emit(c, "ignored")
		} else {
			// error stored under an unusual name
			s.emit(c, s.follow(lastName, cont))
		}
	}
}

// uncheckedDisp: disposition of an error-returning call whose result is dropped.
func (s *errScan) uncheckedDisp(c *ast.CallExpr) string {
	if s.key == "persistFieldsSection" {
		switch name := s.p.Text(c.Fun); {
		case name == "binary.Write", strings.HasSuffix(name, ".Write"):
			return "sticky"
		}
	}
	return "ignored"
}

// follow decides what happens to the error variable e after the statement
// that assigned it: scan forward through the continuation.
func (s *errScan) follow(e string, cont [][]ast.Stmt) string {
	for lvl := len(cont) - 1; lvl >= 0; lvl-- {
		for _, st := range cont[lvl] {
			switch x := st.(type) {
			case *ast.IfStmt:
				if x.Init != nil && assigns(x.Init, e) {
					return "ignored"
				}
				if testsNonNil(x.Cond, e) {
					if d := s.bodyDisp(x.Body, e); d != "" {
						return d
					}
					// tested, but the body neither returns it nor overwrites it: keep scanning
					continue
				}
				if mentions(x.Cond, e) {
					// e.g. `if err == nil && ... {` : used in a condition only
					if d := s.returnedIn(x, e); d != "" {
						return d
					}
					continue
				}
				if d := s.returnedIn(x, e); d != "" {
					return d
				}
				if assignsAnywhere(x, e) {
					return "ignored"
				}
			case *ast.ReturnStmt:
				if len(x.Results) == 0 {
					if s.named[e] {
						return "returned"
					}
					return "ignored"
				}
				for _, r := range x.Results {
					if mentions(r, e) {
						return "returned"
					}
				}
				return "ignored"
			case *ast.AssignStmt:
				rhsUses := false
				for _, r := range x.Rhs {
					if mentions(r, e) {
						rhsUses = true
					}
				}
				if assigns(x, e) && !rhsUses {
					return "ignored" // overwritten before being looked at
				}
			default:
				if d := s.returnedIn(st, e); d != "" {
					return d
				}
				if assignsAnywhere(st, e) {
					return "ignored"
				}
			}
		}
	}
	// fell off the end of the function
	if s.named[e] {
		return "returned"
	}
	return "ignored"
}

// bodyDisp: the body of `if e != nil {..}`.
func (s *errScan) bodyDisp(body *ast.BlockStmt, e string) string {
	cleanup := false
	for _, st := range body.List {
		switch x := st.(type) {
		case *ast.ExprStmt:
			if c, ok := x.X.(*ast.CallExpr); ok {
				switch s.p.Text(c.Fun) {
				case "cleanup", "freeReconstructedIndexes":
					cleanup = true
				}
			}
		case *ast.ReturnStmt:
			ok := len(x.Results) == 0 && s.named[e]
			for _, r := range x.Results {
				if mentions(r, e) {
					ok = true
				}
			}
			if !ok {
				return "ignored" // returns without the error
			}
			if cleanup {
				return "cleanupReturned"
			}
			return "returned"
		}
	}
	return ""
}

// returnedIn: some return statement inside n mentions e.
func (s *errScan) returnedIn(n ast.Node, e string) string {
	found := false
	ast.Inspect(n, func(m ast.Node) bool {
		switch x := m.(type) {
		case *ast.FuncLit:
			return false
		case *ast.ReturnStmt:
			for _, r := range x.Results {
				if mentions(r, e) {
					found = true
				}
			}
		}
		return !found
	})
	if found {
		return "returned"
	}
	return ""
}

func assigns(st ast.Stmt, e string) bool {
	a, ok := st.(*ast.AssignStmt)
	if !ok {
		return false
	}
	for _, l := range a.Lhs {
		if isIdent(l, e) {
			return true
		}
	}
	return false
}

func assignsAnywhere(n ast.Node, e string) bool {
	found := false
	ast.Inspect(n, func(m ast.Node) bool {
		if _, ok := m.(*ast.FuncLit); ok {
			return false
		}
		if a, ok := m.(*ast.AssignStmt); ok && assigns(a, e) {
			found = true
		}
		return !found
	})
	return found
}

// testsNonNil: the condition contains `e != nil`.
func testsNonNil(cond ast.Expr, e string) bool {
	found := false
	ast.Inspect(cond, func(m ast.Node) bool {
		if b, ok := m.(*ast.BinaryExpr); ok && b.Op == token.NEQ {
			if isIdent(stripParens(b.X), e) && isNil(b.Y) || isIdent(stripParens(b.Y), e) && isNil(b.X) {
				found = true
			}
		}
		return !found
	})
	return found
}

// leftovers: error-returning calls that sit inside larger expressions
// (conditions, arguments) and so were not classified above: their error is
// not propagated by any of the recognised shapes.
func (s *errScan) leftovers() {
	var extra []errFact
	ast.Inspect(s.fd.Body, func(m ast.Node) bool {
		c, ok := m.(*ast.CallExpr)
		if !ok || s.done[c] {
			return true
		}
		if s.returnsError(c) {
			s.done[c] = true
			extra = append(extra, errFact{s.key, s.p.Text(c.Fun), "ignored", c.Pos()})
		}
		return true
	})
	s.out = append(s.out, extra...)
}
