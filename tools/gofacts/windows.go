package main

import (
	"go/ast"
	"strings"

	"veriftools/internal/gosrc"
)

// windowFact: one `binary.Uvarint(x[lo:hi])` call: the window of bytes a varint is decoded from.
// A varint of the file format is up to binary.MaxVarintLen64 bytes long; a window that is shorter
// (a wrong constant, a start offset that was not added to the end) silently decodes (0, 0) for
// values that need more bytes - which only happens for large files.
type windowFact struct {
	fn, lo, hi string
}

func windowFacts(p *gosrc.Pkg) []windowFact {
	var out []windowFact
	for _, fd := range p.FuncList {
		if fd.Body == nil {
			continue
		}
		name := fd.Name.Name
		if fd.Recv != nil && len(fd.Recv.List) > 0 {
			name = strings.TrimPrefix(p.Text(fd.Recv.List[0].Type), "*") + "." + name
		}
		ast.Inspect(fd.Body, func(n ast.Node) bool {
			c, ok := n.(*ast.CallExpr)
			if !ok || len(c.Args) != 1 {
				return true
			}
			sel, ok := c.Fun.(*ast.SelectorExpr)
			if !ok || sel.Sel.Name != "Uvarint" {
				return true
			}
			if x, ok := sel.X.(*ast.Ident); !ok || x.Name != "binary" {
				return true
			}
			sl, ok := c.Args[0].(*ast.SliceExpr)
			if !ok {
				out = append(out, windowFact{name, "UNRECOGNISED:" + p.Text(c.Args[0]), ""})
				return true
			}
			lo, hi := "", ""
			if sl.Low != nil {
				lo = strings.ReplaceAll(p.Text(sl.Low), " ", "")
			}
			if sl.High != nil {
				hi = strings.ReplaceAll(p.Text(sl.High), " ", "")
			}
			out = append(out, windowFact{name, lo, hi})
			return true
		})
	}
	return out
}
