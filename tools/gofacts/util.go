package main

import (
	"go/ast"
	"go/token"
	"sort"
	"strings"

	"veriftools/internal/gosrc"
)

const unrec = "UNRECOGNISED"

func q(s string) string { return gosrc.LeanString(s) }

func leanStrList(xs []string) string {
	var parts []string
	for _, x := range xs {
		parts = append(parts, q(x))
	}
	return "[" + strings.Join(parts, ", ") + "]"
}

// wrapList renders items as a Lean list, one item per line.
func wrapList(items []string, indent string) string {
	if len(items) == 0 {
		return "[]"
	}
	return "[\n" + indent + strings.Join(items, ",\n"+indent) + "\n]"
}

// walk is ast.Inspect that does not visit the Sel identifier of selector
// expressions nor the keys of struct-literal key/value pairs.
func walk(n ast.Node, f func(ast.Node) bool) {
	if n == nil {
		return
	}
	ast.Inspect(n, func(m ast.Node) bool {
		switch x := m.(type) {
		case nil:
			return false
		case *ast.SelectorExpr:
			if !f(x) {
				return false
			}
			walk(x.X, f)
			return false
		case *ast.KeyValueExpr:
			if !f(x) {
				return false
			}
			if _, isIdent := x.Key.(*ast.Ident); !isIdent {
				walk(x.Key, f)
			}
			walk(x.Value, f)
			return false
		}
		return f(m)
	})
}

// mentions reports whether identifier name occurs (as a variable reference)
// anywhere inside n, closures included.
func mentions(n ast.Node, name string) bool {
	if n == nil || name == "" {
		return false
	}
	found := false
	walk(n, func(m ast.Node) bool {
		if id, ok := m.(*ast.Ident); ok && id.Name == name {
			found = true
		}
		return !found
	})
	return found
}

func isIdent(e ast.Expr, name string) bool {
	id, ok := e.(*ast.Ident)
	return ok && id.Name == name
}

func stripParens(e ast.Expr) ast.Expr {
	for {
		p, ok := e.(*ast.ParenExpr)
		if !ok {
			return e
		}
		e = p.X
	}
}

// selOn matches `<base>.<field>` with base an identifier; returns the field.
func selOn(e ast.Expr, base string) (string, bool) {
	s, ok := stripParens(e).(*ast.SelectorExpr)
	if !ok {
		return "", false
	}
	if !isIdent(s.X, base) {
		return "", false
	}
	return s.Sel.Name, true
}

// isZeroLit: 0, 0.0, false, "", '\x00'
func isZeroLit(e ast.Expr) bool {
	switch x := stripParens(e).(type) {
	case *ast.BasicLit:
		switch x.Kind {
		case token.INT, token.FLOAT:
			return strings.Trim(x.Value, "0.xX_") == "" || x.Value == "0"
		case token.STRING:
			return x.Value == `""` || x.Value == "``"
		}
	case *ast.Ident:
		return x.Name == "false"
	case *ast.CallExpr: // uint64(0)
		if id, ok := x.Fun.(*ast.Ident); ok && gosrc.IsIntType(id.Name) && len(x.Args) == 1 {
			return isZeroLit(x.Args[0])
		}
	}
	return false
}

func isNil(e ast.Expr) bool { return isIdent(stripParens(e), "nil") }

// isEmptyComposite: T{} / map[..]..{} / []T{}
func isEmptyComposite(e ast.Expr) bool {
	cl, ok := stripParens(e).(*ast.CompositeLit)
	return ok && len(cl.Elts) == 0
}

func isMake(e ast.Expr) bool {
	c, ok := stripParens(e).(*ast.CallExpr)
	return ok && isIdent(c.Fun, "make")
}

// callName: text of the called function expression ("pkg.F", "x.M", "f").
func callName(p *gosrc.Pkg, c *ast.CallExpr) string { return p.Text(c.Fun) }

// rootIdent returns the leftmost identifier of a selector/index/call chain.
func rootIdent(e ast.Expr) string {
	for {
		switch x := e.(type) {
		case *ast.Ident:
			return x.Name
		case *ast.SelectorExpr:
			e = x.X
		case *ast.IndexExpr:
			e = x.X
		case *ast.CallExpr:
			e = x.Fun
		case *ast.ParenExpr:
			e = x.X
		case *ast.StarExpr:
			e = x.X
		case *ast.UnaryExpr:
			e = x.X
		case *ast.TypeAssertExpr:
			e = x.X
		case *ast.SliceExpr:
			e = x.X
		default:
			return ""
		}
	}
}

func uniqueSorted(xs []string) []string {
	set := map[string]bool{}
	for _, x := range xs {
		set[x] = true
	}
	var out []string
	for k := range set {
		out = append(out, k)
	}
	sort.Strings(out)
	return out
}

func appendOnce(xs []string, x string) []string {
	for _, y := range xs {
		if y == x {
			return xs
		}
	}
	return append(xs, x)
}

func truncateText(s string, n int) string {
	r := []rune(s)
	if len(r) > n {
		return string(r[:n]) + "…"
	}
	return s
}

// funcBodies iterates the package functions in a deterministic order.
func sortedFuncKeys(p *gosrc.Pkg) []string {
	var ks []string
	for k := range p.Funcs {
		ks = append(ks, k)
	}
	sort.Strings(ks)
	return ks
}
