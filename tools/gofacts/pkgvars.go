package main

import (
	"go/ast"
	"go/token"
	"sort"
	"strings"

	"veriftools/internal/gosrc"
)

// pkgVarFact: a package-level variable and the kind of thing it holds.  Package-level state is
// shared by every build, merge and reader of the process; a scratch buffer hoisted there "to save
// an allocation" is a data race and a history dependence at once.  The kinds:
//
//	scalar     numbers, strings, booleans, durations (tunables and sizes computed once in init)
//	error      a sentinel made by errors.New / fmt.Errorf
//	func       a hook (function value)
//	pool       sync.Pool
//	empty:<T>  &T{} - one of the shared "empty" objects
//	slice / map / array / ptr / struct / call:<f> / other   - everything else: mutable shared data
type pkgVarFact struct {
	name, kind string
}

func kindOfType(p *gosrc.Pkg, t ast.Expr) string {
	switch x := t.(type) {
	case *ast.ArrayType:
		if x.Len == nil {
			return "slice"
		}
		return "array"
	case *ast.MapType:
		return "map"
	case *ast.StarExpr:
		return "ptr"
	case *ast.FuncType:
		return "func"
	case *ast.Ident:
		switch x.Name {
		case "int", "int8", "int16", "int32", "int64", "uint", "uint8", "uint16", "uint32", "uint64",
			"float32", "float64", "bool", "string", "byte", "rune", "uintptr":
			return "scalar"
		case "error":
			return "error"
		}
		return "struct"
	case *ast.SelectorExpr:
		s := p.Text(x)
		switch s {
		case "sync.Pool":
			return "pool"
		case "time.Duration":
			return "scalar"
		}
		return "struct"
	}
	return "other"
}

func kindOfValue(p *gosrc.Pkg, v ast.Expr) string {
	switch x := v.(type) {
	case *ast.BasicLit:
		return "scalar"
	case *ast.FuncLit:
		return "func"
	case *ast.BinaryExpr:
		return "scalar"
	case *ast.UnaryExpr:
		if x.Op == token.AND {
			if cl, ok := x.X.(*ast.CompositeLit); ok && len(cl.Elts) == 0 {
				return "empty:" + p.Text(cl.Type)
			}
			return "ptr"
		}
		return "scalar"
	case *ast.CompositeLit:
		k := kindOfType(p, x.Type)
		return k
	case *ast.CallExpr:
		fn := p.Text(x.Fun)
		switch fn {
		case "make":
			if len(x.Args) > 0 {
				return kindOfType(p, x.Args[0])
			}
		case "errors.New", "fmt.Errorf":
			return "error"
		case "uint64", "uint32", "int", "int64", "uint16", "float64":
			return "scalar"
		}
		return "call:" + fn
	}
	return "other"
}

func pkgVarFacts(p *gosrc.Pkg) []pkgVarFact {
	var out []pkgVarFact
	for _, f := range p.Files {
		for _, d := range f.Decls {
			gd, ok := d.(*ast.GenDecl)
			if !ok || gd.Tok != token.VAR {
				continue
			}
			for _, s := range gd.Specs {
				vs := s.(*ast.ValueSpec)
				for i, n := range vs.Names {
					if n.Name == "_" {
						continue
					}
					kind := "other"
					if vs.Type != nil {
						kind = kindOfType(p, vs.Type)
					} else if i < len(vs.Values) {
						kind = kindOfValue(p, vs.Values[i])
					}
					out = append(out, pkgVarFact{n.Name, strings.ReplaceAll(kind, " ", "")})
				}
			}
		}
	}
	sort.Slice(out, func(i, j int) bool { return out[i].name < out[j].name })
	return out
}
