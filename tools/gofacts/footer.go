package main

import (
	"fmt"
	"go/ast"
	"go/constant"
	"go/token"
	"strings"

	"veriftools/internal/gosrc"
)

var typeWidth = map[string]int{
	"uint64": 8, "int64": 8, "uint32": 4, "int32": 4, "uint16": 2, "int16": 2, "uint8": 1, "int8": 1, "byte": 1,
}

type footerWrite struct {
	name  string
	width int
}

// footerWrites: the binary.Write(w, binary.BigEndian, X) calls of
// persistFooter, in source order. Only calls that sit directly in the
// function's top-level statement list count as unconditional.
func footerWrites(p *gosrc.Pkg) []footerWrite {
	fd, ok := p.Funcs["persistFooter"]
	if !ok || fd.Body == nil {
		return []footerWrite{{unrec + ":persistFooter not found", 0}}
	}
	env := p.LocalTypes(fd)
	var out []footerWrite
	writer := ""
	seen := map[*ast.CallExpr]bool{}
	handle := func(c *ast.CallExpr, conditional bool) {
		seen[c] = true
		if len(c.Args) != 3 {
			out = append(out, footerWrite{unrec + ":" + p.Text(c), 0})
			return
		}
		if writer == "" {
			writer = rootIdent(c.Args[0])
		}
		x := stripParens(c.Args[2])
		// look through integer conversions for the name, keep them for the width
		inner := x
		for {
			cc, ok := inner.(*ast.CallExpr)
			if !ok || len(cc.Args) != 1 {
				break
			}
			if id, ok := cc.Fun.(*ast.Ident); !ok || !gosrc.IsIntType(id.Name) {
				break
			}
			inner = stripParens(cc.Args[0])
		}
		var name string
		switch v := inner.(type) {
		case *ast.Ident:
			name = v.Name
		case *ast.SelectorExpr:
			name = v.Sel.Name
		default:
			name = unrec + ":value " + p.Text(x)
		}
		w := 0
		if t := p.TypeOf(x, env); t != nil {
			w = typeWidth[gosrc.BaseTypeName(t)]
		}
		switch {
		case p.Text(c.Args[1]) != "binary.BigEndian":
			name = unrec + ":byte order " + p.Text(c.Args[1]) + " for " + name
		case conditional:
			name = unrec + ":conditional or repeated write of " + name
		case w == 0:
			name = unrec + ":width of " + name
		}
		out = append(out, footerWrite{name, w})
	}
	var topCall func(s ast.Stmt) *ast.CallExpr
	topCall = func(s ast.Stmt) *ast.CallExpr {
		var e ast.Expr
		switch x := s.(type) {
		case *ast.AssignStmt:
			if len(x.Rhs) == 1 {
				e = x.Rhs[0]
			}
		case *ast.ExprStmt:
			e = x.X
		case *ast.IfStmt:
			if x.Init != nil {
				return topCall(x.Init)
			}
		case *ast.ReturnStmt:
			if len(x.Results) == 1 {
				e = x.Results[0]
			}
		}
		if c, ok := e.(*ast.CallExpr); ok && p.Text(c.Fun) == "binary.Write" {
			return c
		}
		return nil
	}
	// top-level (unconditional) writes in order, interleaved with nested ones
	for _, s := range fd.Body.List {
		if c := topCall(s); c != nil {
			handle(c, false)
		}
		ast.Inspect(s, func(n ast.Node) bool {
			if c, ok := n.(*ast.CallExpr); ok && !seen[c] && p.Text(c.Fun) == "binary.Write" {
				handle(c, true)
			}
			return true
		})
	}
	// any other call that is handed the writer would be an unmodelled write
	if writer != "" {
		ast.Inspect(fd.Body, func(n ast.Node) bool {
			c, ok := n.(*ast.CallExpr)
			if !ok || seen[c] {
				return true
			}
			uses := rootIdent(c.Fun) == writer && c.Fun != nil
			if _, isSel := c.Fun.(*ast.SelectorExpr); !isSel {
				uses = false
			}
			for _, a := range c.Args {
				if isIdent(stripParens(a), writer) {
					uses = true
				}
			}
			if uses {
				out = append(out, footerWrite{unrec + ":other use of the writer: " + truncateText(p.Text(c), 60), 0})
			}
			return true
		})
	}
	if len(out) == 0 {
		out = append(out, footerWrite{unrec + ":no binary.Write in persistFooter", 0})
	}
	return out
}

type footerRead struct {
	field string
	dist  int
	width int
}

// footerReads symbolically evaluates (*Segment).loadConfig: offsets are
// tracked as distances from len(s.mm).
func footerReads(p *gosrc.Pkg) []footerRead {
	fd, ok := p.Funcs["Segment.loadConfig"]
	if !ok || fd.Body == nil {
		return []footerRead{{unrec + ":Segment.loadConfig not found", 0, 0}}
	}
	recv := gosrc.RecvName(fd)
	var out []footerRead
	mark := func(format string, a ...interface{}) {
		out = append(out, footerRead{unrec + ":" + fmt.Sprintf(format, a...), 0, 0})
	}
	dist := map[string]int{} // offset variable -> distance from len(s.mm); -1 = unknown
	known := func(v string) (int, bool) {
		d, ok := dist[v]
		return d, ok && d >= 0
	}
	constInt := func(e ast.Expr) (int, bool) {
		v, err := p.EvalConst(e, 0)
		if err != nil || v.Kind() != constant.Int {
			return 0, false
		}
		n, ok := constant.Int64Val(v)
		if !ok || n < 0 || n > 1<<20 {
			return 0, false
		}
		return int(n), true
	}
	isLenMM := func(e ast.Expr) bool {
		c, ok := stripParens(e).(*ast.CallExpr)
		if !ok || !isIdent(c.Fun, "len") || len(c.Args) != 1 {
			return false
		}
		f, ok := selOn(c.Args[0], recv)
		return ok && f == "mm"
	}
	// offsetExpr: len(s.mm) - N  |  v - N  |  v
	offsetExpr := func(e ast.Expr) (int, bool) {
		e = stripParens(e)
		if id, ok := e.(*ast.Ident); ok {
			return known(id.Name)
		}
		if isLenMM(e) {
			return 0, true
		}
		b, ok := e.(*ast.BinaryExpr)
		if !ok || b.Op != token.SUB {
			return 0, false
		}
		n, ok := constInt(b.Y)
		if !ok {
			return 0, false
		}
		x := stripParens(b.X)
		if isLenMM(x) {
			return n, true
		}
		if id, ok := x.(*ast.Ident); ok {
			if d, ok := known(id.Name); ok {
				return d + n, true
			}
		}
		return 0, false
	}
	// readExpr: binary.BigEndian.UintNN(s.mm[off : off+w])
	readExpr := func(e ast.Expr) (d, w int, isRead bool, problem string) {
		c, ok := stripParens(e).(*ast.CallExpr)
		if !ok {
			return
		}
		fn := p.Text(c.Fun)
		if !strings.HasPrefix(fn, "binary.") || !strings.Contains(fn, ".Uint") {
			return
		}
		isRead = true
		bits := 0
		switch {
		case strings.HasSuffix(fn, "Uint64"):
			bits = 64
		case strings.HasSuffix(fn, "Uint32"):
			bits = 32
		case strings.HasSuffix(fn, "Uint16"):
			bits = 16
		}
		if !strings.HasPrefix(fn, "binary.BigEndian.") || bits == 0 || len(c.Args) != 1 {
			problem = "decoder " + fn
			return
		}
		sl, ok := stripParens(c.Args[0]).(*ast.SliceExpr)
		if !ok || sl.Low == nil || sl.High == nil {
			problem = "argument " + p.Text(c.Args[0])
			return
		}
		if f, ok := selOn(sl.X, recv); !ok || f != "mm" {
			problem = "source " + p.Text(sl.X)
			return
		}
		d, ok = offsetExpr(sl.Low)
		if !ok {
			problem = "offset " + p.Text(sl.Low)
			return
		}
		hb, ok := stripParens(sl.High).(*ast.BinaryExpr)
		if !ok || hb.Op != token.ADD || p.Text(hb.X) != p.Text(sl.Low) {
			problem = "upper bound " + p.Text(sl.High)
			return
		}
		w, ok = constInt(hb.Y)
		if !ok || w*8 != bits {
			problem = fmt.Sprintf("width %s vs Uint%d", p.Text(hb.Y), bits)
			return
		}
		return
	}
	touchesOffsets := func(n ast.Node) bool {
		t := false
		ast.Inspect(n, func(m ast.Node) bool {
			switch x := m.(type) {
			case *ast.AssignStmt:
				for _, l := range x.Lhs {
					if id, ok := l.(*ast.Ident); ok {
						if _, tracked := dist[id.Name]; tracked {
							t = true
						}
					}
				}
				for _, r := range x.Rhs {
					if _, _, isRead, _ := readExpr(r); isRead {
						t = true
					}
				}
			case *ast.IncDecStmt:
				if id, ok := x.X.(*ast.Ident); ok {
					if _, tracked := dist[id.Name]; tracked {
						t = true
					}
				}
			}
			return !t
		})
		return t
	}
	var run func(list []ast.Stmt)
	run = func(list []ast.Stmt) {
		for _, s := range list {
			switch x := s.(type) {
			case *ast.AssignStmt:
				if len(x.Lhs) != 1 || len(x.Rhs) != 1 {
					if touchesOffsets(x) {
						mark("statement %s", truncateText(p.Text(x), 60))
					}
					continue
				}
				lhs, rhs := stripParens(x.Lhs[0]), x.Rhs[0]
				if d, w, isRead, problem := readExpr(rhs); isRead {
					f, ok := selOn(lhs, recv)
					switch {
					case problem != "":
						mark("read with %s", problem)
					case !ok:
						mark("read into %s", p.Text(lhs))
					default:
						out = append(out, footerRead{f, d, w})
					}
					continue
				}
				id, ok := lhs.(*ast.Ident)
				if !ok {
					continue
				}
				switch x.Tok {
				case token.DEFINE, token.ASSIGN:
					if d, ok := offsetExpr(rhs); ok {
						dist[id.Name] = d
					} else if _, tracked := dist[id.Name]; tracked {
						dist[id.Name] = -1
					}
				case token.SUB_ASSIGN:
					if d, ok := known(id.Name); ok {
						if n, ok := constInt(rhs); ok {
							dist[id.Name] = d + n
						} else {
							dist[id.Name] = -1
						}
					}
				default:
					if _, tracked := dist[id.Name]; tracked {
						dist[id.Name] = -1
					}
				}
			case *ast.IfStmt:
				if isVersionTest(p, x.Cond, recv) && x.Init == nil {
					run(x.Body.List) // the sections-index (v16) branch
					continue
				}
				if touchesOffsets(x) {
					mark("offsets changed or read under condition %s", truncateText(p.Text(x.Cond), 60))
				}
			case *ast.DeclStmt, *ast.ExprStmt, *ast.ReturnStmt, *ast.EmptyStmt:
				if touchesOffsets(x) {
					mark("statement %s", truncateText(p.Text(x), 60))
				}
			default:
				if touchesOffsets(x) {
					mark("offsets changed or read inside %T", x)
				}
			}
		}
	}
	run(fd.Body.List)
	if len(out) == 0 {
		mark("no reads found in loadConfig")
	}
	return out
}

// isVersionTest matches `s.version >= IndexSectionsVersion`.
func isVersionTest(p *gosrc.Pkg, cond ast.Expr, recv string) bool {
	b, ok := stripParens(cond).(*ast.BinaryExpr)
	if !ok || b.Op != token.GEQ {
		return false
	}
	f, ok := selOn(b.X, recv)
	return ok && f == "version" && isIdent(stripParens(b.Y), "IndexSectionsVersion")
}
