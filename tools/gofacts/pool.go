package main

import (
	"go/ast"
	"go/token"
	"sort"
	"strings"

	"veriftools/internal/gosrc"
)

// Events are encoded as bytes: g(et) u(se) p(ut) r(et).

type pstate struct {
	evs    string
	defers string // deferred items, oldest first, separated by ';'; each item is a '|' list of alternative event strings
	term   int    // 0 running, 1 returned, 2 break, 3 continue
	label  string
}

const (
	tRun = iota
	tRet
	tBreak
	tCont
)

func appendEv(evs, add string) string {
	for i := 0; i < len(add); i++ {
		c := add[i]
		if c == 'u' && len(evs) > 0 && evs[len(evs)-1] == 'u' {
			continue
		}
		evs += string(c)
	}
	return evs
}

func dedupe(ss []pstate) []pstate {
	seen := map[pstate]bool{}
	var out []pstate
	for _, s := range ss {
		if !seen[s] {
			seen[s] = true
			out = append(out, s)
		}
	}
	return out
}

type poolAnalysis struct {
	p        *gosrc.Pkg
	pools    map[string]bool
	relevant map[string]bool     // function keys that may (transitively, by name) Get/Put
	memo     map[string][]string // callee projections
}

type poolCtx struct {
	a     *poolAnalysis
	pool  string
	v     string
	fd    *ast.FuncDecl
	env   gosrc.TypeEnv
	stack []string
	bad   string
}

func newPoolAnalysis(p *gosrc.Pkg) *poolAnalysis {
	a := &poolAnalysis{p: p, pools: map[string]bool{}, relevant: map[string]bool{}, memo: map[string][]string{}}
	for _, name := range p.VarNames() {
		if t := p.VarType(name); t != nil && strings.TrimPrefix(p.Text(t), "*") == "sync.Pool" {
			a.pools[name] = true
		}
	}
	// name-based call graph closure of "touches a pool"
	calls := map[string]map[string]bool{} // func key -> called simple names
	for k, fd := range p.Funcs {
		if fd.Body == nil {
			continue
		}
		set := map[string]bool{}
		ast.Inspect(fd.Body, func(n ast.Node) bool {
			c, ok := n.(*ast.CallExpr)
			if !ok {
				return true
			}
			switch f := c.Fun.(type) {
			case *ast.Ident:
				set[f.Name] = true
			case *ast.SelectorExpr:
				set[f.Sel.Name] = true
				if id, ok := f.X.(*ast.Ident); ok && a.pools[id.Name] && (f.Sel.Name == "Get" || f.Sel.Name == "Put") {
					a.relevant[k] = true
				}
			}
			return true
		})
		calls[k] = set
	}
	for changed := true; changed; {
		changed = false
		relNames := map[string]bool{}
		for k := range a.relevant {
			relNames[p.Funcs[k].Name.Name] = true
		}
		for k, set := range calls {
			if a.relevant[k] {
				continue
			}
			for n := range set {
				if relNames[n] {
					a.relevant[k] = true
					changed = true
					break
				}
			}
		}
	}
	return a
}

// poolCall matches `<pool>.<method>(args)` on a package-level sync.Pool.
func (a *poolAnalysis) poolCall(e ast.Expr, method string) (pool string, call *ast.CallExpr) {
	c, ok := stripParens(e).(*ast.CallExpr)
	if !ok {
		return "", nil
	}
	s, ok := c.Fun.(*ast.SelectorExpr)
	if !ok || s.Sel.Name != method {
		return "", nil
	}
	id, ok := s.X.(*ast.Ident)
	if !ok || !a.pools[id.Name] {
		return "", nil
	}
	return id.Name, c
}

// getExpr matches pool.Get() or pool.Get().(*T)
func (a *poolAnalysis) getExpr(e ast.Expr) string {
	e = stripParens(e)
	if ta, ok := e.(*ast.TypeAssertExpr); ok {
		e = stripParens(ta.X)
	}
	pool, _ := a.poolCall(e, "Get")
	return pool
}

// ---------------------------------------------------------------------------

func (c *poolCtx) isPut(e ast.Expr) bool {
	pool, call := c.a.poolCall(e, "Put")
	return call != nil && pool == c.pool && len(call.Args) == 1 && isIdent(stripParens(call.Args[0]), c.v)
}

// exprAlts returns the alternative event strings produced by evaluating the
// node (an expression or a simple statement).
func (c *poolCtx) exprAlts(n ast.Node) []string {
	if n == nil || c.v == "" || !mentions(n, c.v) {
		return []string{""}
	}
	// collect the calls that hand the object to a package function
	type inl struct {
		call  *ast.CallExpr
		alts  []string
		isPut bool
	}
	var inls []inl
	direct := map[ast.Node]bool{} // identifier occurrences consumed by an inlined call
	walk(n, func(m ast.Node) bool {
		call, ok := m.(*ast.CallExpr)
		if !ok {
			return true
		}
		if c.isPut(call) {
			inls = append(inls, inl{call: call, alts: []string{"p"}, isPut: true})
			direct[stripParens(call.Args[0])] = true
			return true
		}
		if alts, used, ok := c.inlineCall(call); ok {
			inls = append(inls, inl{call: call, alts: alts})
			for _, u := range used {
				direct[u] = true
			}
		}
		return true
	})
	other := false
	walk(n, func(m ast.Node) bool {
		if id, ok := m.(*ast.Ident); ok && id.Name == c.v && !direct[id] {
			other = true
		}
		return true
	})
	alts := []string{""}
	if other {
		alts = []string{"u"}
	}
	for _, in := range inls {
		var next []string
		for _, a := range alts {
			for _, b := range in.alts {
				next = append(next, appendEv(a, b))
			}
		}
		alts = uniqueSorted(next)
	}
	return alts
}

// inlineCall: the call passes the object as a plain argument (or is a method
// call on it) and the callee is a package function. Returns the callee's
// projected event strings and the identifier nodes consumed.
func (c *poolCtx) inlineCall(call *ast.CallExpr) (alts []string, used []ast.Node, ok bool) {
	argIdx := -1
	for i, a := range call.Args {
		if isIdent(stripParens(a), c.v) {
			if argIdx >= 0 {
				return nil, nil, false // passed twice: treat as opaque use
			}
			argIdx = i
		}
	}
	onRecv := false
	if sel, isSel := call.Fun.(*ast.SelectorExpr); isSel && isIdent(sel.X, c.v) {
		onRecv = true
	}
	if argIdx < 0 && !onRecv {
		return nil, nil, false
	}
	if argIdx >= 0 && onRecv {
		return nil, nil, false
	}
	var cands []*ast.FuncDecl
	if fd := c.a.p.Callee(call, c.env); fd != nil {
		cands = []*ast.FuncDecl{fd}
	} else if sel, isSel := call.Fun.(*ast.SelectorExpr); isSel && !onRecv {
		if id, isId := sel.X.(*ast.Ident); !isId || !c.a.p.IsImport(call.Pos(), id.Name) {
			if c.a.p.TypeOf(sel.X, c.env) == nil {
				cands = c.a.p.MethodsByName[sel.Sel.Name]
			}
		}
	}
	if len(cands) == 0 {
		return nil, nil, false
	}
	set := map[string]bool{}
	for _, fd := range cands {
		if fd.Body == nil {
			return nil, nil, false
		}
		key := gosrc.FuncKey(fd)
		var param string
		if onRecv {
			// method on the pooled object: only worth expanding if it may touch a pool
			if !c.a.relevant[key] {
				return nil, nil, false
			}
			param = gosrc.RecvName(fd)
		} else {
			names := paramNames(fd)
			if argIdx >= len(names) {
				return nil, nil, false
			}
			param = names[argIdx]
		}
		if param == "" || param == "_" {
			set[""] = true
			continue
		}
		for _, s := range c.stack {
			if s == key {
				return nil, nil, false // recursion: opaque use
			}
		}
		if len(c.stack) >= 4 {
			return nil, nil, false
		}
		for _, e := range c.projection(fd, param) {
			set[e] = true
		}
	}
	for k := range set {
		alts = append(alts, k)
	}
	sort.Strings(alts)
	if onRecv {
		used = append(used, call.Fun.(*ast.SelectorExpr).X)
	} else {
		used = append(used, stripParens(call.Args[argIdx]))
	}
	return alts, used, true
}

func paramNames(fd *ast.FuncDecl) []string {
	var out []string
	if fd.Type.Params == nil {
		return out
	}
	for _, f := range fd.Type.Params.List {
		if len(f.Names) == 0 {
			out = append(out, "_")
			continue
		}
		for _, n := range f.Names {
			out = append(out, n.Name)
		}
	}
	return out
}

// projection: event strings (without the final ret) of all paths of fd's body
// with respect to its parameter param.
func (c *poolCtx) projection(fd *ast.FuncDecl, param string) []string {
	key := gosrc.FuncKey(fd) + "|" + param + "|" + c.pool
	if r, ok := c.a.memo[key]; ok {
		return r
	}
	sub := &poolCtx{a: c.a, pool: c.pool, v: param, fd: fd, env: c.a.p.LocalTypes(fd),
		stack: append(append([]string{}, c.stack...), gosrc.FuncKey(fd))}
	paths := sub.funcPaths(fd.Body)
	if sub.bad != "" && c.bad == "" {
		c.bad = sub.bad + " (in " + gosrc.FuncKey(fd) + ")"
	}
	var out []string
	for _, p := range paths {
		out = append(out, strings.TrimSuffix(p, "r"))
	}
	out = uniqueSorted(out)
	c.a.memo[key] = out
	return out
}

// funcPaths enumerates complete paths (each ending in 'r').
func (c *poolCtx) funcPaths(body *ast.BlockStmt) []string {
	final := c.stmtList(body.List, []pstate{{}})
	var out []string
	for _, s := range final {
		switch s.term {
		case tRun:
			for _, r := range c.doReturn(s) {
				out = append(out, r.evs)
			}
		case tRet:
			out = append(out, s.evs)
		}
	}
	return uniqueSorted(out)
}

func (c *poolCtx) doReturn(s pstate) []pstate {
	cur := []string{s.evs}
	if s.defers != "" {
		items := strings.Split(s.defers, ";")
		for i := len(items) - 1; i >= 0; i-- {
			alts := strings.Split(items[i], "|")
			var next []string
			for _, e := range cur {
				for _, a := range alts {
					next = append(next, appendEv(e, a))
				}
			}
			cur = uniqueSorted(next)
		}
	}
	var out []pstate
	for _, e := range cur {
		out = append(out, pstate{evs: e + "r", term: tRet})
	}
	return out
}

func (c *poolCtx) stmtList(list []ast.Stmt, in []pstate) []pstate {
	cur := in
	for _, s := range list {
		var next []pstate
		for _, st := range cur {
			if st.term != tRun {
				next = append(next, st)
				continue
			}
			next = append(next, c.stmt(s, st, "")...)
		}
		cur = dedupe(next)
		if len(cur) > 20000 {
			c.bad = "path explosion"
			return cur[:1]
		}
	}
	return cur
}

func (c *poolCtx) applyAlts(st pstate, alts []string) []pstate {
	var out []pstate
	for _, a := range alts {
		n := st
		n.evs = appendEv(st.evs, a)
		out = append(out, n)
	}
	return out
}

func (c *poolCtx) applyNode(sts []pstate, n ast.Node) []pstate {
	if n == nil {
		return sts
	}
	alts := c.exprAlts(n)
	var out []pstate
	for _, s := range sts {
		if s.term != tRun {
			out = append(out, s)
			continue
		}
		out = append(out, c.applyAlts(s, alts)...)
	}
	return dedupe(out)
}

func (c *poolCtx) simple(s ast.Stmt, st pstate) []pstate {
	if s == nil {
		return []pstate{st}
	}
	// v := pool.Get().(*T)
	if a, ok := s.(*ast.AssignStmt); ok && len(a.Rhs) == 1 && len(a.Lhs) >= 1 {
		if pool := c.a.getExpr(a.Rhs[0]); pool != "" && pool == c.pool && isIdent(a.Lhs[0], c.v) {
			n := st
			n.evs = appendEv(st.evs, "g")
			return []pstate{n}
		}
	}
	if d, ok := s.(*ast.DeclStmt); ok {
		if gd, ok := d.Decl.(*ast.GenDecl); ok {
			for _, sp := range gd.Specs {
				if vs, ok := sp.(*ast.ValueSpec); ok && len(vs.Values) == 1 && len(vs.Names) >= 1 {
					if pool := c.a.getExpr(vs.Values[0]); pool == c.pool && pool != "" && vs.Names[0].Name == c.v {
						n := st
						n.evs = appendEv(st.evs, "g")
						return []pstate{n}
					}
				}
			}
		}
	}
	return c.applyAlts(st, c.exprAlts(s))
}

func (c *poolCtx) stmt(s ast.Stmt, st pstate, label string) []pstate {
	switch x := s.(type) {
	case *ast.BlockStmt:
		return c.stmtList(x.List, []pstate{st})
	case *ast.LabeledStmt:
		return c.stmt(x.Stmt, st, x.Label.Name)
	case *ast.ReturnStmt:
		var out []pstate
		for _, s2 := range c.applyAlts(st, c.exprAlts(x)) {
			out = append(out, c.doReturn(s2)...)
		}
		return out
	case *ast.DeferStmt:
		item := ""
		switch {
		case c.isPut(x.Call):
			item = "p"
		default:
			if fl, ok := x.Call.Fun.(*ast.FuncLit); ok && mentions(fl, c.v) {
				sub := &poolCtx{a: c.a, pool: c.pool, v: c.v, fd: c.fd, env: c.env, stack: c.stack}
				var alts []string
				for _, p := range sub.funcPaths(fl.Body) {
					alts = append(alts, strings.TrimSuffix(p, "r"))
				}
				if sub.bad != "" {
					c.bad = sub.bad
				}
				item = strings.Join(uniqueSorted(alts), "|")
				if item == "" {
					item = "u"
				}
			} else if mentions(x.Call, c.v) {
				item = "u"
			}
		}
		if item == "" {
			return []pstate{st}
		}
		n := st
		if n.defers == "" {
			n.defers = item
		} else {
			n.defers += ";" + item
		}
		return []pstate{n}
	case *ast.BranchStmt:
		n := st
		if x.Label != nil {
			n.label = x.Label.Name
		}
		switch x.Tok {
		case token.BREAK:
			n.term = tBreak
		case token.CONTINUE:
			n.term = tCont
		default:
			c.bad = x.Tok.String() + " statement"
		}
		return []pstate{n}
	case *ast.IfStmt:
		sts := c.simple(x.Init, st)
		sts = c.applyNode(sts, x.Cond)
		var out []pstate
		out = append(out, c.stmtList(x.Body.List, sts)...)
		if x.Else != nil {
			for _, s2 := range sts {
				out = append(out, c.stmt(x.Else, s2, "")...)
			}
		} else {
			out = append(out, sts...)
		}
		return dedupe(out)
	case *ast.ForStmt:
		sts := c.simple(x.Init, st)
		return c.loop(label, sts, x.Cond, x.Post, x.Body, x.Cond != nil)
	case *ast.RangeStmt:
		sts := c.applyNode([]pstate{st}, x.X)
		return c.loop(label, sts, nil, nil, x.Body, true)
	case *ast.SwitchStmt:
		sts := c.simple(x.Init, st)
		sts = c.applyNode(sts, x.Tag)
		return c.clauses(label, sts, x.Body, false)
	case *ast.TypeSwitchStmt:
		sts := c.simple(x.Init, st)
		sts2 := []pstate{}
		for _, s2 := range sts {
			sts2 = append(sts2, c.simple(x.Assign, s2)...)
		}
		return c.clauses(label, sts2, x.Body, false)
	case *ast.SelectStmt:
		return c.clauses(label, []pstate{st}, x.Body, true)
	case *ast.GoStmt:
		if mentions(x, c.v) {
			return c.applyAlts(st, []string{"u"})
		}
		return []pstate{st}
	default:
		return c.simple(s, st)
	}
}

// clauses handles switch / type switch / select bodies.
func (c *poolCtx) clauses(label string, sts []pstate, body *ast.BlockStmt, isSelect bool) []pstate {
	hasDefault := false
	// case expressions are evaluated before a clause is chosen (approximation:
	// all of them)
	for _, cl := range body.List {
		if cc, ok := cl.(*ast.CaseClause); ok {
			for _, e := range cc.List {
				sts = c.applyNode(sts, e)
			}
		}
	}
	var out []pstate
	for _, cl := range body.List {
		var list []ast.Stmt
		in := sts
		switch cc := cl.(type) {
		case *ast.CaseClause:
			if cc.List == nil {
				hasDefault = true
			}
			list = cc.Body
		case *ast.CommClause:
			if cc.Comm == nil {
				hasDefault = true
			} else {
				var n []pstate
				for _, s := range sts {
					n = append(n, c.simple(cc.Comm, s)...)
				}
				in = n
			}
			list = cc.Body
		}
		for _, r := range c.stmtList(list, in) {
			if r.term == tBreak && (r.label == "" || r.label == label) {
				r.term, r.label = tRun, ""
			}
			out = append(out, r)
		}
	}
	if !isSelect && !hasDefault {
		// no clause taken (switch without default); a select without default
		// blocks until one clause fires, which the clause paths already cover
		out = append(out, sts...)
	}
	return dedupe(out)
}

func (c *poolCtx) loop(label string, sts []pstate, cond ast.Expr, post ast.Stmt, body *ast.BlockStmt, exitByCond bool) []pstate {
	maxIter := 1
	if mentions(body, c.v) || mentions(cond, c.v) || mentions(post, c.v) {
		maxIter = 2
	}
	var out []pstate
	cur := sts
	for it := 0; ; it++ {
		cur = c.applyNode(cur, cond)
		if exitByCond {
			out = append(out, cur...)
		}
		if it == maxIter {
			break
		}
		var next []pstate
		for _, r := range c.stmtList(body.List, cur) {
			mine := r.label == "" || r.label == label
			switch {
			case r.term == tRun || (r.term == tCont && mine):
				r.term, r.label = tRun, ""
				next = append(next, c.simple(post, r)...)
			case r.term == tBreak && mine:
				r.term, r.label = tRun, ""
				out = append(out, r)
			default:
				out = append(out, r)
			}
		}
		cur = dedupe(next)
		if len(cur) == 0 {
			break
		}
	}
	return dedupe(out)
}

// ---------------------------------------------------------------------------

type poolFn struct {
	fn    string
	pool  string
	paths []string
	note  string
}

var expectedPoolFns = []string{"SegmentBase.VisitStoredFields", "SegmentBase.DocID", "mergeStoredAndRemap", "ZapPlugin.newWithChunkMode"}

func poolFacts(p *gosrc.Pkg) []poolFn {
	a := newPoolAnalysis(p)
	var out []poolFn
	found := map[string]bool{}
	for _, key := range sortedFuncKeys(p) {
		fd := p.Funcs[key]
		if fd.Body == nil {
			continue
		}
		// which pools does it Get from, and into which variable?
		type getSite struct{ pool, v string }
		var sites []getSite
		odd := ""
		ast.Inspect(fd.Body, func(n ast.Node) bool {
			switch x := n.(type) {
			case *ast.AssignStmt:
				if len(x.Rhs) == 1 {
					if pool := a.getExpr(x.Rhs[0]); pool != "" {
						if id, ok := x.Lhs[0].(*ast.Ident); ok && id.Name != "_" {
							sites = append(sites, getSite{pool, id.Name})
						} else {
							odd = "Get() result not stored in a plain variable"
						}
						return false
					}
				}
			case *ast.ValueSpec:
				if len(x.Values) == 1 {
					if pool := a.getExpr(x.Values[0]); pool != "" {
						sites = append(sites, getSite{pool, x.Names[0].Name})
						return false
					}
				}
			case *ast.CallExpr:
				if pool, c := a.poolCall(x, "Get"); c != nil {
					odd = "Get() on " + pool + " used inside an expression"
				}
			}
			return true
		})
		if len(sites) == 0 && odd == "" {
			continue
		}
		found[key] = true
		byPool := map[string]map[string]bool{}
		for _, s := range sites {
			if byPool[s.pool] == nil {
				byPool[s.pool] = map[string]bool{}
			}
			byPool[s.pool][s.v] = true
		}
		if odd != "" {
			out = append(out, poolFn{fn: key + " " + unrec, pool: "", note: odd})
			continue
		}
		var pools []string
		for k := range byPool {
			pools = append(pools, k)
		}
		sort.Strings(pools)
		for _, pool := range pools {
			if len(byPool[pool]) != 1 {
				out = append(out, poolFn{fn: key + " " + unrec, pool: pool, note: "several variables hold objects of this pool"})
				continue
			}
			var v string
			for k := range byPool[pool] {
				v = k
			}
			c := &poolCtx{a: a, pool: pool, v: v, fd: fd, env: p.LocalTypes(fd), stack: []string{key}}
			paths := c.funcPaths(fd.Body)
			if c.bad != "" || len(paths) == 0 {
				note := c.bad
				if note == "" {
					note = "no path found"
				}
				out = append(out, poolFn{fn: key + " " + unrec, pool: pool, note: note})
				continue
			}
			sort.Slice(paths, func(i, j int) bool { return pathLess(paths[i], paths[j]) })
			out = append(out, poolFn{fn: key, pool: pool, paths: paths})
		}
	}
	for _, e := range expectedPoolFns {
		if !found[e] {
			out = append(out, poolFn{fn: e + " " + unrec, pool: "", note: "function missing or no longer takes an object from a pool"})
		}
	}
	sort.SliceStable(out, func(i, j int) bool { return out[i].fn < out[j].fn })
	return out
}

var evRank = map[byte]int{'g': 0, 'u': 1, 'p': 2, 'r': 3}

func pathLess(a, b string) bool {
	if len(a) != len(b) {
		return len(a) < len(b)
	}
	for i := 0; i < len(a); i++ {
		if a[i] != b[i] {
			return evRank[a[i]] < evRank[b[i]]
		}
	}
	return false
}

var evName = map[byte]string{'g': "get", 'u': "use", 'p': "put", 'r': "ret"}

func leanPath(s string) string {
	var parts []string
	for i := 0; i < len(s); i++ {
		parts = append(parts, evName[s[i]])
	}
	return "[" + strings.Join(parts, ", ") + "]"
}
