package main

import (
	"go/ast"
	"go/token"
	"strings"

	"veriftools/internal/gosrc"
)

type resetTarget struct{ structName, method string }

var resetTargets = []resetTarget{
	{"interim", "reset"},
	{"invertedIndexOpaque", "Reset"},
	{"synonymIndexOpaque", "Reset"},
	{"vectorIndexOpaque", "Reset"},
	{"chunkedIntCoder", "Reset"},
	{"chunkedContentCoder", "Reset"},
}

type resetFact struct {
	structName, field, kind string
	note                    string
}

type structFieldsFact struct {
	name   string
	fields []string
}

// per-field events found in the Reset body, in source order
const (
	evSetNil     = "setNil"
	evTruncate   = "truncate"
	evZeroLoop   = "zeroLoop"
	evClearLoop  = "clearLoop"
	evDeleteKeys = "deleteAllKeys"
	evBufReset   = "bufferReset"
	evScalarZero = "scalarZero"
	evOther      = "other"
)

func resetFacts(p *gosrc.Pkg) ([]resetFact, []structFieldsFact) {
	var facts []resetFact
	var sfs []structFieldsFact
	for _, t := range resetTargets {
		fields, ok := p.FieldNames(t.structName)
		if !ok {
			sfs = append(sfs, structFieldsFact{t.structName, []string{unrec + ":struct " + t.structName + " not found"}})
			facts = append(facts, resetFact{t.structName, unrec + ":struct not found", "notReset", ""})
			continue
		}
		sfs = append(sfs, structFieldsFact{t.structName, fields})
		fd, ok := p.Funcs[t.structName+"."+t.method]
		if !ok || fd.Body == nil {
			facts = append(facts, resetFact{t.structName, unrec + ":method " + t.method + " not found", "notReset", ""})
			continue
		}
		recv := gosrc.RecvName(fd)
		events := map[string][]string{}
		notes := map[string][]string{}
		add := func(f, ev, note string) {
			events[f] = append(events[f], ev)
			if note != "" {
				notes[f] = append(notes[f], note)
			}
		}
		scanReset(p, fd.Body.List, recv, t.structName, add)
		isField := map[string]bool{}
		for _, f := range fields {
			isField[f] = true
			kind, note := classify(events[f])
			if len(notes[f]) > 0 {
				if kind == "notReset" {
					note = strings.Join(notes[f], "; ")
				} else {
					note = strings.TrimSpace(note + " " + strings.Join(notes[f], "; "))
				}
			}
			facts = append(facts, resetFact{t.structName, f, kind, note})
		}
		// events on names that are not declared fields (promoted fields etc.)
		for f := range events {
			if !isField[f] {
				facts = append(facts, resetFact{t.structName, unrec + ":reset touches undeclared field " + f, "notReset", ""})
			}
		}
	}
	return facts, sfs
}

func classify(evs []string) (kind, note string) {
	if len(evs) == 0 {
		return "notReset", ""
	}
	if len(evs) > 1 {
		note = "events: " + strings.Join(evs, ",")
	}
	first := evs[0]
	switch first {
	case evSetNil:
		return "setNil", note
	case evTruncate:
		return "truncate", note
	case evZeroLoop:
		return "zeroThenTruncate", note
	case evClearLoop:
		return "clearEachThenTruncate", note
	case evDeleteKeys:
		return "deleteAllKeys", note
	case evBufReset:
		return "bufferReset", note
	case evScalarZero:
		return "scalarZero", note
	}
	if note == "" {
		note = "assigned, but not to a recognised empty value"
	}
	return "notReset", note
}

// elemOf matches recv.F[i] and returns F.
func elemOf(e ast.Expr, recv string) (string, bool) {
	ix, ok := stripParens(e).(*ast.IndexExpr)
	if !ok {
		return "", false
	}
	return selOn(ix.X, recv)
}

func scanReset(p *gosrc.Pkg, list []ast.Stmt, recv, structName string, add func(f, ev, note string)) {
	for _, s := range list {
		switch x := s.(type) {
		case *ast.AssignStmt:
			scanResetAssign(p, x, recv, structName, add)
		case *ast.ExprStmt:
			if c, ok := x.X.(*ast.CallExpr); ok {
				scanResetCall(p, c, recv, structName, add)
			}
		case *ast.IncDecStmt:
			if f, ok := selOn(x.X, recv); ok {
				add(f, evOther, "")
			}
		case *ast.IfStmt:
			// guards such as `if x.builder != nil { .. }`; both branches are scanned
			scanReset(p, x.Body.List, recv, structName, add)
			switch e := x.Else.(type) {
			case *ast.BlockStmt:
				scanReset(p, e.List, recv, structName, add)
			case *ast.IfStmt:
				scanReset(p, []ast.Stmt{e}, recv, structName, add)
			}
		case *ast.BlockStmt:
			scanReset(p, x.List, recv, structName, add)
		case *ast.RangeStmt:
			f, ok := selOn(x.X, recv)
			if !ok {
				// a loop over something else: look inside for plain statements
				scanReset(p, x.Body.List, recv, structName, add)
				continue
			}
			add(f, rangeKind(p, x, recv, f), "")
		case *ast.ForStmt:
			// for i := 0; i < len(recv.F); i++ { recv.F[i] = zero }
			f := ""
			if b, ok := x.Cond.(*ast.BinaryExpr); ok {
				if c, ok := stripParens(b.Y).(*ast.CallExpr); ok && isIdent(c.Fun, "len") && len(c.Args) == 1 {
					f, _ = selOn(c.Args[0], recv)
				}
			}
			if f == "" {
				scanReset(p, x.Body.List, recv, structName, add)
				continue
			}
			add(f, loopBodyKind(p, x.Body.List, recv, f, "", ""), "")
		}
	}
}

func scanResetAssign(p *gosrc.Pkg, x *ast.AssignStmt, recv, structName string, add func(f, ev, note string)) {
	// err = recv.F.Reset(..)
	if len(x.Rhs) == 1 {
		if c, ok := x.Rhs[0].(*ast.CallExpr); ok {
			anyField := false
			for _, l := range x.Lhs {
				if _, ok := selOn(l, recv); ok {
					anyField = true
				}
			}
			if !anyField {
				scanResetCall(p, c, recv, structName, add)
				return
			}
		}
	}
	if len(x.Lhs) != len(x.Rhs) {
		for _, l := range x.Lhs {
			if f, ok := selOn(l, recv); ok {
				add(f, evOther, "")
			}
		}
		return
	}
	for i, l := range x.Lhs {
		f, ok := selOn(l, recv)
		if !ok {
			continue
		}
		if x.Tok != token.ASSIGN {
			add(f, evOther, "")
			continue
		}
		r := stripParens(x.Rhs[i])
		switch {
		case isNil(r), isEmptyComposite(r), isMake(r):
			add(f, evSetNil, "")
		case isZeroLit(r):
			add(f, evScalarZero, "")
		default:
			if sl, ok := r.(*ast.SliceExpr); ok && sl.Low == nil && sl.High != nil && isZeroLit(sl.High) {
				if g, ok := selOn(sl.X, recv); ok && g == f {
					add(f, evTruncate, "")
					continue
				}
			}
			add(f, evOther, "assigned "+truncateText(p.Text(r), 40))
		}
	}
}

func scanResetCall(p *gosrc.Pkg, c *ast.CallExpr, recv, structName string, add func(f, ev, note string)) {
	sel, ok := c.Fun.(*ast.SelectorExpr)
	if !ok {
		return
	}
	// atomic.StoreUint64(&recv.F, 0)
	if isIdent(sel.X, "atomic") && strings.HasPrefix(sel.Sel.Name, "Store") && len(c.Args) == 2 {
		if u, ok := stripParens(c.Args[0]).(*ast.UnaryExpr); ok && u.Op == token.AND {
			if f, ok := selOn(u.X, recv); ok {
				if isZeroLit(c.Args[1]) {
					add(f, evScalarZero, "")
				} else {
					add(f, evOther, "atomic store of a non-zero value")
				}
			}
		}
		return
	}
	// recv.F.Reset(..)
	if f, ok := selOn(sel.X, recv); ok {
		switch sel.Sel.Name {
		case "Reset", "Truncate":
			if sel.Sel.Name == "Truncate" && !(len(c.Args) == 1 && isZeroLit(c.Args[0])) {
				add(f, evOther, "Truncate to non-zero")
				return
			}
			add(f, evBufReset, "")
		case "Clear":
			add(f, evClearLoop, "cleared via "+sel.Sel.Name+"()")
		}
		return
	}
	// recv.setX(0): a one-statement setter of the struct
	if isIdent(sel.X, recv) && len(c.Args) == 1 {
		if m := p.FindMethod(structName, sel.Sel.Name); m != nil && m.Body != nil {
			if f := setterField(m); f != "" {
				if isZeroLit(c.Args[0]) {
					add(f, evScalarZero, "")
				} else {
					add(f, evOther, "set to a non-zero value via "+sel.Sel.Name)
				}
			}
		}
	}
}

// setterField: method body is exactly `recv.F = param` or
// `atomic.StoreX(&recv.F, param)`; returns F.
func setterField(m *ast.FuncDecl) string {
	names := paramNames(m)
	if len(names) != 1 || len(m.Body.List) != 1 {
		return ""
	}
	recv := gosrc.RecvName(m)
	switch x := m.Body.List[0].(type) {
	case *ast.AssignStmt:
		if len(x.Lhs) == 1 && len(x.Rhs) == 1 && x.Tok == token.ASSIGN && isIdent(stripParens(x.Rhs[0]), names[0]) {
			if f, ok := selOn(x.Lhs[0], recv); ok {
				return f
			}
		}
	case *ast.ExprStmt:
		c, ok := x.X.(*ast.CallExpr)
		if !ok || len(c.Args) != 2 {
			return ""
		}
		sel, ok := c.Fun.(*ast.SelectorExpr)
		if !ok || !isIdent(sel.X, "atomic") || !strings.HasPrefix(sel.Sel.Name, "Store") {
			return ""
		}
		if !isIdent(stripParens(c.Args[1]), names[0]) {
			return ""
		}
		if u, ok := stripParens(c.Args[0]).(*ast.UnaryExpr); ok && u.Op == token.AND {
			if f, ok := selOn(u.X, recv); ok {
				return f
			}
		}
	}
	return ""
}

func rangeKind(p *gosrc.Pkg, x *ast.RangeStmt, recv, f string) string {
	key, val := "", ""
	if id, ok := x.Key.(*ast.Ident); ok {
		key = id.Name
	}
	if id, ok := x.Value.(*ast.Ident); ok {
		val = id.Name
	}
	return loopBodyKind(p, x.Body.List, recv, f, key, val)
}

// loopBodyKind classifies the body of a loop over recv.F.
func loopBodyKind(p *gosrc.Pkg, body []ast.Stmt, recv, f, key, val string) string {
	if len(body) != 1 {
		return evOther
	}
	switch s := body[0].(type) {
	case *ast.ExprStmt:
		c, ok := s.X.(*ast.CallExpr)
		if !ok {
			return evOther
		}
		// delete(recv.F, k)
		if isIdent(c.Fun, "delete") && len(c.Args) == 2 {
			if g, ok := selOn(c.Args[0], recv); ok && g == f && key != "" && isIdent(stripParens(c.Args[1]), key) {
				return evDeleteKeys
			}
			return evOther
		}
		// e.Clear() / e.Reset()
		if sel, ok := c.Fun.(*ast.SelectorExpr); ok && val != "" && isIdent(sel.X, val) {
			switch sel.Sel.Name {
			case "Clear", "Reset", "reset":
				return evClearLoop
			}
		}
		return evOther
	case *ast.AssignStmt:
		if len(s.Lhs) != 1 || len(s.Rhs) != 1 {
			return evOther
		}
		r := stripParens(s.Rhs[0])
		// err = e.Reset()
		if c, ok := r.(*ast.CallExpr); ok {
			if sel, ok := c.Fun.(*ast.SelectorExpr); ok && val != "" && isIdent(sel.X, val) {
				if _, isFieldTarget := selOn(s.Lhs[0], recv); !isFieldTarget {
					switch sel.Sel.Name {
					case "Clear", "Reset", "reset":
						return evClearLoop
					}
				}
			}
			return evOther
		}
		g, ok := elemOf(s.Lhs[0], recv)
		if !ok || g != f || s.Tok != token.ASSIGN {
			return evOther
		}
		switch {
		case isZeroLit(r), isEmptyComposite(r):
			return evZeroLoop
		case isNil(r):
			return evClearLoop
		}
		if sl, ok := r.(*ast.SliceExpr); ok && sl.Low == nil && sl.High != nil && isZeroLit(sl.High) {
			if h, ok := elemOf(sl.X, recv); ok && h == f {
				return evClearLoop
			}
		}
	}
	return evOther
}
