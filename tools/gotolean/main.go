// gotolean regenerates ZapModel/Gen/Pure.lean: Lean 4 definitions over Nat
// of a fixed list of pure integer functions and constants of zapx, read from
// the Go source with go/parser only.
//
// Anything outside the small expression/statement subset documented in
// tools/README.md is NOT translated: the definition is omitted and a
// `-- UNTRANSLATED <name>: <reason>` comment is written instead, so that the
// Lean build (not this tool) reports the problem.
package main

import (
	"flag"
	"fmt"
	"go/ast"
	"go/constant"
	"go/token"
	"os"
	"regexp"
	"sort"
	"strings"

	"veriftools/internal/gosrc"
)

// ---------------------------------------------------------------------------
// what to translate

type constSpec struct {
	goName   string
	leanName string
	isVar    bool // package var with literal initialiser
	file     string
}

var constList = []constSpec{
	{"FSTValEncodingMask", "FSTValEncodingMask", false, "posting.go"},
	{"FSTValEncodingGeneral", "FSTValEncodingGeneral", false, "posting.go"},
	{"FSTValEncoding1Hit", "FSTValEncoding1Hit", false, "posting.go"},
	{"mask31Bits", "mask31Bits", false, "posting.go"},
	{"DocNum1HitFinished", "DocNum1HitFinished", false, "posting.go"},
	{"termNotEncoded", "termNotEncoded", false, "intcoder.go"},
	{"termSeparator", "termSeparator", true, "contentcoder.go"},
	{"Version", "Version", false, "build.go"},
	{"IndexSectionsVersion", "IndexSectionsVersion", false, "build.go"},
	{"FooterSize", "FooterSize", false, "write.go"},
	{"fieldNotUninverted", "fieldNotUninverted", false, "build.go"},
	{"docDropped", "docDropped", false, "merge.go"},
	{"SectionInvertedTextIndex", "SectionInvertedTextIndex", false, "section.go"},
	{"SectionFaissVectorIndex", "SectionFaissVectorIndex", false, "section.go"},
	{"SectionSynonymIndex", "SectionSynonymIndex", false, "section.go"},
	{"LegacyChunkMode", "LegacyChunkModeDefault", true, "chunk.go"},
	{"DefaultChunkMode", "DefaultChunkModeDefault", true, "chunk.go"},
}

type fnSpec struct {
	goName   string
	leanName string
	file     string
	// optionMode: result is Option Nat; a branch that cannot be translated
	// becomes `none`.
	optionMode bool
	// project >= 0: keep only that result of a multi-value return.
	project int
	// dropParams are Go parameters that do not become Lean parameters; any
	// use of them in a translated expression makes the function UNTRANSLATED.
	dropParams []string
	// condSubst maps the Go source text of a boolean expression to the name
	// of an extra Bool parameter (added at the position of substParamAfter).
	condSubst  map[string]string
	extraBools []string
}

var fnList = []fnSpec{
	{goName: "getChunkSize", leanName: "getChunkSize", file: "chunk.go", project: -1},
	{goName: "FSTValEncode1Hit", leanName: "FSTValEncode1Hit", file: "posting.go", project: -1},
	{goName: "FSTValDecode1Hit", leanName: "FSTValDecode1Hit", file: "posting.go", project: -1},
	{goName: "under32Bits", leanName: "under32Bits", file: "posting.go", project: -1},
	{goName: "encodeFreqHasLocs", leanName: "encodeFreqHasLocs", file: "posting.go", project: -1},
	{goName: "decodeFreqHasLocs", leanName: "decodeFreqHasLocs", file: "posting.go", project: -1},
	{goName: "encodeSynonym", leanName: "encodeSynonym", file: "section_synonym_index.go", project: -1},
	{goName: "decodeSynonym", leanName: "decodeSynonym", file: "synonym_posting.go", project: -1},
	{goName: "getVectorCode", leanName: "getVectorCode", file: "faiss_vector_posting.go", project: -1},
	{goName: "determineCentroids", leanName: "determineCentroidsSmall", file: "section_faiss_vector_index.go",
		optionMode: true, project: -1},
	{goName: "determineIndexToUse", leanName: "determineIndexClass", file: "section_faiss_vector_index.go",
		project: 1, dropParams: []string{"nlist", "indexOptimizedFor"},
		condSubst:  map[string]string{"indexOptimizedFor == index.IndexOptimizedForMemoryEfficient": "memoryEfficient"},
		extraBools: []string{"memoryEfficient"}},
}

// ---------------------------------------------------------------------------
// output tree

type node interface{}

type letNode struct {
	name, val string
	body      node
}
type ifNode struct {
	cond       string
	then, els_ node
}
type leaf struct {
	text    string
	comment string
}

func render(b *strings.Builder, n node, indent int, inlineFirst bool) {
	pad := strings.Repeat(" ", indent)
	first := pad
	if inlineFirst {
		first = ""
	}
	switch x := n.(type) {
	case leaf:
		b.WriteString(first + x.text)
		if x.comment != "" {
			b.WriteString("  -- " + x.comment)
		}
		b.WriteString("\n")
	case letNode:
		b.WriteString(first + "let " + x.name + " := " + x.val + "\n")
		render(b, x.body, indent, false)
	case ifNode:
		b.WriteString(first + "if " + x.cond + " then")
		if l, ok := x.then.(leaf); ok && l.comment == "" {
			b.WriteString(" " + l.text + "\n")
		} else {
			b.WriteString("\n")
			render(b, x.then, indent+2, false)
		}
		switch e := x.els_.(type) {
		case ifNode:
			b.WriteString(pad + "else ")
			render(b, e, indent, true)
		case leaf:
			b.WriteString(pad + "else " + e.text)
			if e.comment != "" {
				b.WriteString("  -- " + e.comment)
			}
			b.WriteString("\n")
		default:
			b.WriteString(pad + "else\n")
			render(b, e, indent+2, false)
		}
	}
}

// simplify removes administrative lets, which keeps the output close to what
// one would write by hand and is semantics-preserving (all values are pure):
//   - `let x := v` whose value is atomic (a literal or a name) is substituted;
//   - `let x := v` whose body is a single result expression using x at most
//     once is substituted.
func simplify(n node) node {
	switch x := n.(type) {
	case letNode:
		body := simplify(x.body)
		atomic := !strings.ContainsAny(x.val, " ")
		_, bodyIsLeaf := body.(leaf)
		if atomic || (bodyIsLeaf && countOcc(body, x.name) <= 1) {
			return substNode(body, x.name, x.val)
		}
		return letNode{x.name, x.val, body}
	case ifNode:
		return ifNode{x.cond, simplify(x.then), simplify(x.els_)}
	}
	return n
}

func wordRe(name string) *regexp.Regexp {
	return regexp.MustCompile(`(^|[^A-Za-z0-9_.])(` + regexp.QuoteMeta(name) + `)($|[^A-Za-z0-9_])`)
}

func countText(s, name string) int {
	re := wordRe(name)
	n := 0
	for {
		loc := re.FindStringSubmatchIndex(s)
		if loc == nil {
			return n
		}
		n++
		s = s[loc[5]:]
	}
}

func countOcc(n node, name string) int {
	switch x := n.(type) {
	case leaf:
		return countText(x.text, name)
	case letNode:
		c := countText(x.val, name)
		if x.name == name {
			return c
		}
		return c + countOcc(x.body, name)
	case ifNode:
		return countText(x.cond, name) + countOcc(x.then, name) + countOcc(x.els_, name)
	}
	return 0
}

func substText(s, name, val string) string {
	re := wordRe(name)
	var out strings.Builder
	for {
		loc := re.FindStringSubmatchIndex(s)
		if loc == nil {
			out.WriteString(s)
			return out.String()
		}
		before, after := s[:loc[4]], s[loc[5]:]
		v := atom(val)
		// no parentheses needed when the occurrence is a whole tuple component,
		// a whole parenthesised term or the whole text
		lb := strings.TrimRight(before, " ")
		ra := strings.TrimLeft(after, " ")
		open := lb == "" || strings.HasSuffix(lb, "(") || strings.HasSuffix(lb, ",")
		close_ := ra == "" || strings.HasPrefix(ra, ")") || strings.HasPrefix(ra, ",")
		if open && close_ {
			v = val
		}
		out.WriteString(before)
		out.WriteString(v)
		s = after
	}
}

func substNode(n node, name, val string) node {
	switch x := n.(type) {
	case leaf:
		return leaf{substText(x.text, name, val), x.comment}
	case letNode:
		v := substText(x.val, name, val)
		if x.name == name {
			return letNode{x.name, v, x.body}
		}
		return letNode{x.name, v, substNode(x.body, name, val)}
	case ifNode:
		return ifNode{substText(x.cond, name, val), substNode(x.then, name, val), substNode(x.els_, name, val)}
	}
	return n
}

// names that a Go local must not have, because they mean something in the
// generated Lean text
var reservedNames = map[string]bool{
	"decide": true, "some": true, "none": true, "u64": true, "u32": true, "ok": true, "error": true,
	"if": true, "then": true, "else": true, "let": true, "fun": true, "do": true, "in": true, "at": true,
	"from": true, "end": true, "open": true, "by": true, "have": true, "show": true, "with": true,
	"match": true, "def": true, "theorem": true, "instance": true, "where": true, "namespace": true,
	"section": true, "import": true, "True": true, "False": true, "true": true, "false": true,
	"Nat": true, "Bool": true, "String": true, "Except": true, "Option": true, "Type": true, "Prop": true,
	"Sort": true, "structure": true, "inductive": true, "class": true, "deriving": true, "mutual": true,
	"private": true, "protected": true, "variable": true, "universe": true, "example": true, "axiom": true,
	"return": true, "for": true, "unless": true, "try": true, "catch": true, "finally": true, "mut": true,
	"using": true, "calc": true, "nomatch": true, "nofun": true, "macro": true, "syntax": true,
}

func (t *tr) checkName(name string) error {
	for _, r := range name {
		if !(r == '_' || r >= '0' && r <= '9' || r >= 'a' && r <= 'z' || r >= 'A' && r <= 'Z') {
			return bad("identifier %s is not plain ASCII", name)
		}
	}
	if reservedNames[name] {
		return bad("identifier %s clashes with a Lean keyword or a name used by the generator", name)
	}
	for _, ln := range t.emitted {
		if ln == name {
			return bad("local %s shadows a generated constant", name)
		}
	}
	if t.p.HasConst(name) {
		return bad("local %s shadows a package constant", name)
	}
	return nil
}

// ---------------------------------------------------------------------------
// translator

type untranslatable struct{ msg string }

func (u *untranslatable) Error() string { return u.msg }

func bad(format string, a ...interface{}) error {
	return &untranslatable{fmt.Sprintf(format, a...)}
}

type tr struct {
	p        *gosrc.Pkg
	spec     *fnSpec
	emitted  map[string]string // Go const/var name -> Lean name (those with a def)
	results  []string          // declared result types (normalised)
	inlined  map[string]string // constants inlined by value (name -> value)
	dropped  map[string]bool
	floatPar map[string]string // float32 parameter -> Lean name of its bits
}

type env map[string]string // local -> normalised Go type

func (e env) copy() env {
	c := env{}
	for k, v := range e {
		c[k] = v
	}
	return c
}

func normType(t ast.Expr) string {
	id, ok := t.(*ast.Ident)
	if !ok {
		return "?"
	}
	switch id.Name {
	case "uint64", "uint", "uintptr":
		return "uint64"
	case "uint32":
		return "uint32"
	case "uint16":
		return "uint16"
	case "uint8", "byte":
		return "uint8"
	case "int", "int64", "int32", "int16", "int8":
		return "int"
	case "bool":
		return "bool"
	case "float32":
		return "float32"
	case "string":
		return "string"
	case "error":
		return "error"
	}
	return "?"
}

func width(t string) int {
	switch t {
	case "uint64":
		return 64
	case "uint32":
		return 32
	case "uint16":
		return 16
	case "uint8":
		return 8
	}
	return 0
}

func modulus(t string) string {
	switch t {
	case "uint64":
		return "u64"
	case "uint32":
		return "u32"
	case "uint16":
		return "65536"
	case "uint8":
		return "256"
	}
	return ""
}

func isUnsigned(t string) bool { return width(t) > 0 }

// unparen strips one pair of parentheses enclosing the whole string.
func unparen(s string) string {
	if len(s) < 2 || s[0] != '(' || s[len(s)-1] != ')' {
		return s
	}
	depth := 0
	for i, c := range s {
		switch c {
		case '(':
			depth++
		case ')':
			depth--
			if depth == 0 && i != len(s)-1 {
				return s
			}
		}
	}
	return s[1 : len(s)-1]
}

func atom(s string) string {
	if strings.ContainsAny(s, " ") && !(strings.HasPrefix(s, "(") && unparen(s) != s) {
		return "(" + s + ")"
	}
	return s
}

func (t *tr) isBoolExpr(e ast.Expr, ev env) bool {
	if _, ok := t.spec.condSubst[t.p.Text(e)]; ok {
		return true
	}
	switch x := e.(type) {
	case *ast.ParenExpr:
		return t.isBoolExpr(x.X, ev)
	case *ast.Ident:
		return x.Name == "true" || x.Name == "false" || ev[x.Name] == "bool"
	case *ast.UnaryExpr:
		return x.Op == token.NOT
	case *ast.BinaryExpr:
		switch x.Op {
		case token.EQL, token.NEQ, token.LSS, token.LEQ, token.GTR, token.GEQ, token.LAND, token.LOR:
			return true
		}
	}
	return false
}

// prop translates a Go boolean expression to a Lean Prop (decidable).
func (t *tr) prop(e ast.Expr, ev env, top bool) (string, error) {
	if name, ok := t.spec.condSubst[t.p.Text(e)]; ok {
		if top {
			return name, nil
		}
		return "(" + name + " = true)", nil
	}
	switch x := e.(type) {
	case *ast.ParenExpr:
		return t.prop(x.X, ev, top)
	case *ast.Ident:
		switch {
		case x.Name == "true":
			return "True", nil
		case x.Name == "false":
			return "False", nil
		case ev[x.Name] == "bool":
			if top {
				return x.Name, nil
			}
			return "(" + x.Name + " = true)", nil
		}
		return "", bad("%s is not a boolean", x.Name)
	case *ast.UnaryExpr:
		if x.Op == token.NOT {
			s, err := t.prop(x.X, ev, false)
			if err != nil {
				return "", err
			}
			r := "¬ " + s
			if !top {
				r = "(" + r + ")"
			}
			return r, nil
		}
	case *ast.BinaryExpr:
		var op string
		switch x.Op {
		case token.LAND, token.LOR:
			a, err := t.prop(x.X, ev, false)
			if err != nil {
				return "", err
			}
			b, err := t.prop(x.Y, ev, false)
			if err != nil {
				return "", err
			}
			op = " ∧ "
			if x.Op == token.LOR {
				op = " ∨ "
			}
			r := a + op + b
			if !top {
				r = "(" + r + ")"
			}
			return r, nil
		case token.EQL:
			op = "="
		case token.NEQ:
			op = "≠"
		case token.LSS:
			op = "<"
		case token.LEQ:
			op = "≤"
		case token.GTR:
			op = ">"
		case token.GEQ:
			op = "≥"
		default:
			return "", bad("operator %s does not yield a boolean", x.Op)
		}
		if t.isBoolExpr(x.X, ev) || t.isBoolExpr(x.Y, ev) {
			return "", bad("comparison of booleans: %s", t.p.Text(e))
		}
		a, ta, err := t.expr(x.X, ev)
		if err != nil {
			return "", err
		}
		b, tb, err := t.expr(x.Y, ev)
		if err != nil {
			return "", err
		}
		if _, err := unify(ta, tb, t.p.Text(e)); err != nil {
			return "", err
		}
		r := a + " " + op + " " + b
		if !top {
			r = "(" + r + ")"
		}
		return r, nil
	}
	return "", bad("unsupported boolean expression: %s", t.p.Text(e))
}

// boolv translates a Go boolean expression to a Lean Bool.
func (t *tr) boolv(e ast.Expr, ev env) (string, error) {
	if name, ok := t.spec.condSubst[t.p.Text(e)]; ok {
		return name, nil
	}
	if p, ok := e.(*ast.ParenExpr); ok {
		return t.boolv(p.X, ev)
	}
	if id, ok := e.(*ast.Ident); ok {
		switch {
		case id.Name == "true" || id.Name == "false":
			return id.Name, nil
		case ev[id.Name] == "bool":
			return id.Name, nil
		}
	}
	s, err := t.prop(e, ev, true)
	if err != nil {
		return "", err
	}
	return "decide (" + s + ")", nil
}

func unify(a, b, ctx string) (string, error) {
	switch {
	case a == "untyped":
		return b, nil
	case b == "untyped":
		return a, nil
	case a == b:
		return a, nil
	}
	return "", bad("mixed operand types %s/%s in %s", a, b, ctx)
}

func constText(v constant.Value) (string, error) {
	if v.Kind() != constant.Int {
		return "", bad("non-integer constant")
	}
	if constant.Sign(v) < 0 {
		return "", bad("negative constant %s cannot be a Nat", v.ExactString())
	}
	return v.ExactString(), nil
}

func constNorm(typ string) string {
	if typ == "" {
		return "untyped"
	}
	return normType(ast.NewIdent(typ))
}

// expr translates an integer-valued Go expression; returns Lean text and the
// normalised Go type.
func (t *tr) expr(e ast.Expr, ev env) (string, string, error) {
	switch x := e.(type) {
	case *ast.ParenExpr:
		return t.expr(x.X, ev)
	case *ast.BasicLit:
		v, err := t.p.EvalConst(x, 0)
		if err != nil {
			return "", "", bad("%v", err)
		}
		s, err := constText(v)
		return s, "untyped", err
	case *ast.Ident:
		if t.dropped[x.Name] {
			return "", "", bad("uses parameter %s, which the Lean signature drops", x.Name)
		}
		if _, ok := t.floatPar[x.Name]; ok {
			return "", "", bad("float parameter %s used outside math.Float32bits", x.Name)
		}
		if ty, ok := ev[x.Name]; ok {
			switch ty {
			case "uint64", "uint32", "uint16", "uint8", "int":
				return x.Name, ty, nil
			}
			return "", "", bad("%s has non-integer type %s", x.Name, ty)
		}
		if ln, ok := t.emitted[x.Name]; ok && t.p.HasConst(x.Name) {
			_, ty, err := t.p.ConstValue(x.Name)
			if err != nil {
				return "", "", bad("%v", err)
			}
			return ln, constNorm(ty), nil
		}
		if t.p.HasConst(x.Name) {
			v, ty, err := t.p.ConstValue(x.Name)
			if err != nil {
				return "", "", bad("%v", err)
			}
			s, err := constText(v)
			if err != nil {
				return "", "", err
			}
			t.inlined[x.Name] = s
			return s, constNorm(ty), nil
		}
		return "", "", bad("identifier %s is not a local or an integer constant", x.Name)
	case *ast.SelectorExpr:
		v, err := t.p.EvalConst(x, 0)
		if err != nil {
			return "", "", bad("%v", err)
		}
		s, err := constText(v)
		return s, "untyped", err
	case *ast.CallExpr:
		return t.call(x, ev)
	case *ast.UnaryExpr:
		switch x.Op {
		case token.ADD:
			return t.expr(x.X, ev)
		case token.XOR:
			a, ty, err := t.expr(x.X, ev)
			if err != nil {
				return "", "", err
			}
			if !isUnsigned(ty) {
				return "", "", bad("bitwise complement of %s operand", ty)
			}
			return "(" + modulus(ty) + " - 1 - " + a + ")", ty, nil
		}
		return "", "", bad("unsupported unary operator %s", x.Op)
	case *ast.BinaryExpr:
		return t.binary(x, ev)
	}
	return "", "", bad("unsupported expression: %s", t.p.Text(e))
}

func (t *tr) call(x *ast.CallExpr, ev env) (string, string, error) {
	// math.Float32bits(<float32 parameter>)
	if sel, ok := x.Fun.(*ast.SelectorExpr); ok {
		if pk, ok := sel.X.(*ast.Ident); ok && pk.Name == "math" && sel.Sel.Name == "Float32bits" && len(x.Args) == 1 {
			if id, ok := x.Args[0].(*ast.Ident); ok {
				if ln, ok := t.floatPar[id.Name]; ok {
					return ln, "uint32", nil
				}
			}
			return "", "", bad("math.Float32bits of something other than a float32 parameter")
		}
	}
	id, ok := x.Fun.(*ast.Ident)
	if !ok || len(x.Args) != 1 {
		return "", "", bad("call outside the subset: %s", t.p.Text(x.Fun))
	}
	if _, shadow := ev[id.Name]; shadow {
		return "", "", bad("call of local %s", id.Name)
	}
	target := normType(id)
	if !gosrc.IsIntType(id.Name) {
		return "", "", bad("call outside the subset: %s", id.Name)
	}
	a, src, err := t.expr(x.Args[0], ev)
	if err != nil {
		return "", "", err
	}
	switch {
	case src == "untyped":
		// constant operand: it must fit (the Go compiler checks), value unchanged
		return a, target, nil
	case isUnsigned(src) && isUnsigned(target):
		if width(target) >= width(src) {
			return a, target, nil
		}
		return "(" + a + " % " + modulus(target) + ")", target, nil
	case src == "int" && target == "int":
		return a, target, nil
	}
	return "", "", bad("conversion %s(%s) between signed and unsigned is outside the subset", id.Name, src)
}

func (t *tr) binary(x *ast.BinaryExpr, ev env) (string, string, error) {
	a, ta, err := t.expr(x.X, ev)
	if err != nil {
		return "", "", err
	}
	b, tb, err := t.expr(x.Y, ev)
	if err != nil {
		return "", "", err
	}
	ctx := t.p.Text(x)
	if ta == "untyped" && tb == "untyped" {
		v, err := t.p.EvalConst(x, 0)
		if err != nil {
			return "", "", bad("%v", err)
		}
		s, err := constText(v)
		return s, "untyped", err
	}
	var ty string
	if x.Op == token.SHL || x.Op == token.SHR {
		if ta == "untyped" {
			return "", "", bad("shift of an untyped constant by a variable: %s", ctx)
		}
		if tb == "int" {
			return "", "", bad("signed shift count: %s", ctx)
		}
		ty = ta
	} else {
		ty, err = unify(ta, tb, ctx)
		if err != nil {
			return "", "", err
		}
	}
	signed := ty == "int"
	m := modulus(ty)
	switch x.Op {
	case token.ADD:
		if signed {
			return "", "", bad("signed addition is outside the subset: %s", ctx)
		}
		return "((" + a + " + " + b + ") % " + m + ")", ty, nil
	case token.MUL:
		if signed {
			return "", "", bad("signed multiplication is outside the subset: %s", ctx)
		}
		return "((" + a + " * " + b + ") % " + m + ")", ty, nil
	case token.SUB:
		if signed {
			return "", "", bad("signed subtraction is outside the subset: %s", ctx)
		}
		return "((" + a + " + " + m + " - " + b + ") % " + m + ")", ty, nil
	case token.SHL:
		if signed {
			return "", "", bad("signed left shift is outside the subset: %s", ctx)
		}
		return "((" + a + " <<< " + b + ") % " + m + ")", ty, nil
	case token.SHR:
		return "(" + a + " >>> " + b + ")", ty, nil
	case token.QUO:
		return "(" + a + " / " + b + ")", ty, nil
	case token.REM:
		return "(" + a + " % " + b + ")", ty, nil
	case token.AND:
		return "(" + a + " &&& " + b + ")", ty, nil
	case token.OR:
		return "(" + a + " ||| " + b + ")", ty, nil
	case token.XOR:
		return "(" + a + " ^^^ " + b + ")", ty, nil
	}
	return "", "", bad("unsupported operator %s in %s", x.Op, ctx)
}

// value translates an expression of either integer or boolean kind.
func (t *tr) value(e ast.Expr, ev env) (string, string, error) {
	if t.isBoolExpr(e, ev) {
		s, err := t.boolv(e, ev)
		return s, "bool", err
	}
	s, ty, err := t.expr(e, ev)
	return unparen(s), ty, err
}

func assignable(declared, got string) bool {
	if declared == got || got == "untyped" && declared != "bool" {
		return true
	}
	return false
}

func zeroOf(ty string) (string, error) {
	switch ty {
	case "uint64", "uint32", "uint16", "uint8", "int":
		return "0", nil
	case "bool":
		return "false", nil
	}
	return "", bad("variable of unsupported type %s", ty)
}

// stmts translates a statement list that must return on every path.
func (t *tr) stmts(list []ast.Stmt, ev env) (node, error) {
	if len(list) == 0 {
		return nil, bad("a path reaches the end of the function without a return statement")
	}
	s, rest := list[0], list[1:]
	switch x := s.(type) {
	case *ast.EmptyStmt:
		return t.stmts(rest, ev)
	case *ast.ReturnStmt:
		return t.ret(x, ev)
	case *ast.BlockStmt:
		return t.stmts(concat(x.List, rest), ev)
	case *ast.DeclStmt:
		gd, ok := x.Decl.(*ast.GenDecl)
		if !ok || gd.Tok != token.VAR {
			return nil, bad("unsupported declaration: %s", t.p.Text(x))
		}
		type binding struct{ name, val string }
		var bs []binding
		ev = ev.copy()
		for _, sp := range gd.Specs {
			vs, ok := sp.(*ast.ValueSpec)
			if !ok {
				return nil, bad("unsupported declaration: %s", t.p.Text(x))
			}
			if len(vs.Values) != 0 && len(vs.Values) != len(vs.Names) {
				return nil, bad("unsupported declaration: %s", t.p.Text(x))
			}
			for i, n := range vs.Names {
				if _, dup := ev[n.Name]; dup {
					return nil, bad("redeclaration (shadowing) of %s", n.Name)
				}
				if err := t.checkName(n.Name); err != nil {
					return nil, err
				}
				var val, ty string
				if vs.Type != nil {
					ty = normType(vs.Type)
				}
				if len(vs.Values) == 0 {
					z, err := zeroOf(ty)
					if err != nil {
						return nil, err
					}
					val = z
				} else {
					v, vt, err := t.value(vs.Values[i], ev)
					if err != nil {
						return nil, err
					}
					if ty == "" {
						ty = vt
						if ty == "untyped" {
							ty = "int"
						}
					} else if !assignable(ty, vt) {
						return nil, bad("type mismatch in %s", t.p.Text(x))
					}
					val = v
				}
				bs = append(bs, binding{n.Name, val})
				ev[n.Name] = ty
			}
		}
		body, err := t.stmts(rest, ev)
		if err != nil {
			return nil, err
		}
		for i := len(bs) - 1; i >= 0; i-- {
			body = letNode{bs[i].name, bs[i].val, body}
		}
		return body, nil
	case *ast.AssignStmt:
		if len(x.Lhs) != 1 || len(x.Rhs) != 1 {
			return nil, bad("multi-value assignment is outside the subset: %s", t.p.Text(x))
		}
		id, ok := x.Lhs[0].(*ast.Ident)
		if !ok || id.Name == "_" {
			return nil, bad("assignment target is not a local variable: %s", t.p.Text(x))
		}
		rhs := x.Rhs[0]
		switch x.Tok {
		case token.DEFINE, token.ASSIGN:
		default:
			op, ok := assignOps[x.Tok]
			if !ok {
				return nil, bad("unsupported assignment operator in %s", t.p.Text(x))
			}
			rhs = &ast.BinaryExpr{X: id, Op: op, Y: &ast.ParenExpr{X: rhs}}
		}
		val, vt, err := t.value(rhs, ev)
		if err != nil {
			return nil, err
		}
		old, exists := ev[id.Name]
		if t.dropped[id.Name] || t.floatPar[id.Name] != "" {
			return nil, bad("assignment to parameter %s", id.Name)
		}
		ev = ev.copy()
		if x.Tok == token.DEFINE {
			if exists {
				return nil, bad("redeclaration (shadowing) of %s", id.Name)
			}
			if err := t.checkName(id.Name); err != nil {
				return nil, err
			}
			if vt == "untyped" {
				vt = "int"
			}
			ev[id.Name] = vt
		} else {
			if !exists {
				return nil, bad("assignment to non-local %s", id.Name)
			}
			if !assignable(old, vt) {
				return nil, bad("type mismatch in %s", t.p.Text(x))
			}
		}
		body, err := t.stmts(rest, ev)
		if err != nil {
			return nil, err
		}
		return letNode{id.Name, val, body}, nil
	case *ast.IfStmt:
		if x.Init != nil {
			cp := *x
			cp.Init = nil
			return t.stmts(concat([]ast.Stmt{x.Init, &cp}, rest), ev)
		}
		cond, err := t.prop(x.Cond, ev, true)
		if err != nil {
			return nil, err
		}
		th, err := t.branch(concat(x.Body.List, rest), ev)
		if err != nil {
			return nil, err
		}
		var elseList []ast.Stmt
		switch e := x.Else.(type) {
		case nil:
			elseList = rest
		case *ast.BlockStmt:
			elseList = concat(e.List, rest)
		default:
			elseList = concat([]ast.Stmt{e}, rest)
		}
		el, err := t.branch(elseList, ev)
		if err != nil {
			return nil, err
		}
		return ifNode{cond, th, el}, nil
	case *ast.SwitchStmt:
		if x.Init != nil {
			cp := *x
			cp.Init = nil
			return t.stmts(concat([]ast.Stmt{x.Init, &cp}, rest), ev)
		}
		var tag, tagTy string
		if x.Tag != nil {
			var err error
			tag, tagTy, err = t.expr(x.Tag, ev)
			if err != nil {
				return nil, err
			}
		}
		type clause struct {
			cond string
			body []ast.Stmt
		}
		var clauses []clause
		var deflt []ast.Stmt
		haveDefault := false
		for _, c := range x.Body.List {
			cc, ok := c.(*ast.CaseClause)
			if !ok {
				return nil, bad("malformed switch")
			}
			body := cc.Body
			if n := len(body); n > 0 {
				if br, ok := body[n-1].(*ast.BranchStmt); ok {
					if br.Tok == token.BREAK && br.Label == nil {
						body = body[:n-1]
					} else {
						return nil, bad("%s in switch is outside the subset", br.Tok)
					}
				}
			}
			if containsBranch(body) {
				return nil, bad("break/fallthrough/goto inside a switch case is outside the subset")
			}
			if cc.List == nil {
				deflt, haveDefault = body, true
				continue
			}
			var parts []string
			for _, ce := range cc.List {
				if x.Tag == nil {
					s, err := t.prop(ce, ev, len(cc.List) == 1)
					if err != nil {
						return nil, err
					}
					parts = append(parts, s)
				} else {
					v, vt, err := t.expr(ce, ev)
					if err != nil {
						return nil, err
					}
					if _, err := unify(tagTy, vt, t.p.Text(ce)); err != nil {
						return nil, err
					}
					s := tag + " = " + v
					if len(cc.List) > 1 {
						s = "(" + s + ")"
					}
					parts = append(parts, s)
				}
			}
			clauses = append(clauses, clause{strings.Join(parts, " ∨ "), body})
		}
		var tail node
		var err error
		if haveDefault {
			tail, err = t.branch(concat(deflt, rest), ev)
		} else {
			tail, err = t.branch(rest, ev)
		}
		if err != nil {
			return nil, err
		}
		for i := len(clauses) - 1; i >= 0; i-- {
			th, err := t.branch(concat(clauses[i].body, rest), ev)
			if err != nil {
				return nil, err
			}
			tail = ifNode{clauses[i].cond, th, tail}
		}
		return tail, nil
	}
	return nil, bad("statement outside the subset: %s", truncate(t.p.Text(s), 60))
}

var assignOps = map[token.Token]token.Token{
	token.ADD_ASSIGN: token.ADD, token.SUB_ASSIGN: token.SUB, token.MUL_ASSIGN: token.MUL,
	token.QUO_ASSIGN: token.QUO, token.REM_ASSIGN: token.REM, token.AND_ASSIGN: token.AND,
	token.OR_ASSIGN: token.OR, token.XOR_ASSIGN: token.XOR, token.SHL_ASSIGN: token.SHL,
	token.SHR_ASSIGN: token.SHR,
}

func containsBranch(list []ast.Stmt) bool {
	found := false
	for _, s := range list {
		ast.Inspect(s, func(n ast.Node) bool {
			switch n.(type) {
			case *ast.BranchStmt:
				found = true
			case *ast.FuncLit:
				return false
			}
			return !found
		})
	}
	return found
}

func truncate(s string, n int) string {
	if len(s) > n {
		return s[:n] + "…"
	}
	return s
}

func concat(a, b []ast.Stmt) []ast.Stmt {
	out := make([]ast.Stmt, 0, len(a)+len(b))
	out = append(out, a...)
	return append(out, b...)
}

// branch is stmts, except that in option mode an untranslatable branch
// becomes `none` instead of failing the whole function.
func (t *tr) branch(list []ast.Stmt, ev env) (node, error) {
	n, err := t.stmts(list, ev)
	if err != nil && t.spec.optionMode {
		if u, ok := err.(*untranslatable); ok {
			return leaf{"none", "not translated: " + u.msg}, nil
		}
	}
	return n, err
}

func (t *tr) ret(x *ast.ReturnStmt, ev env) (node, error) {
	if len(x.Results) == 0 {
		return nil, bad("bare return (named results) is outside the subset")
	}
	if len(x.Results) != len(t.results) {
		return nil, bad("return of a multi-value call is outside the subset")
	}
	// (T, error) -> Except String Nat
	if len(t.results) == 2 && t.results[1] == "error" {
		if id, ok := x.Results[1].(*ast.Ident); ok && id.Name == "nil" {
			v, vt, err := t.value(x.Results[0], ev)
			if err != nil {
				return nil, err
			}
			if !assignable(t.results[0], vt) {
				return nil, bad("result type mismatch in %s", t.p.Text(x))
			}
			return leaf{".ok " + atom(v), ""}, nil
		}
		msg, err := t.errText(x.Results[1], ev)
		if err != nil {
			return nil, err
		}
		return leaf{".error " + gosrc.LeanString(msg), ""}, nil
	}
	var parts []string
	for i, r := range x.Results {
		if t.spec.project >= 0 && i != t.spec.project {
			continue
		}
		v, vt, err := t.value(r, ev)
		if err != nil {
			return nil, err
		}
		if !assignable(t.results[i], vt) {
			return nil, bad("result type mismatch in %s", t.p.Text(x))
		}
		parts = append(parts, v)
	}
	var s string
	if len(parts) == 1 {
		s = parts[0]
	} else {
		s = "(" + strings.Join(parts, ", ") + ")"
	}
	if t.spec.optionMode {
		s = "some " + atom(s)
	}
	return leaf{s, ""}, nil
}

func (t *tr) errText(e ast.Expr, ev env) (string, error) {
	switch x := e.(type) {
	case *ast.Ident:
		if _, local := ev[x.Name]; local {
			return "", bad("returns a local error value %s", x.Name)
		}
		for _, v := range t.p.VarNames() {
			if v == x.Name {
				return x.Name, nil
			}
		}
		return "", bad("error value %s is not a package variable", x.Name)
	case *ast.CallExpr:
		fn := t.p.Text(x.Fun)
		if (fn == "fmt.Errorf" || fn == "errors.New") && len(x.Args) >= 1 {
			if lit, ok := x.Args[0].(*ast.BasicLit); ok && lit.Kind == token.STRING {
				v := constant.MakeFromLiteral(lit.Value, token.STRING, 0)
				s := constant.StringVal(v)
				if i := strings.Index(s, "%"); i >= 0 {
					s = s[:i]
				}
				return strings.TrimSpace(s), nil
			}
		}
	}
	return "", bad("unsupported error expression %s", t.p.Text(e))
}

// ---------------------------------------------------------------------------

func leanType(ty string) (string, error) {
	switch ty {
	case "uint64", "uint32", "uint16", "uint8", "int":
		return "Nat", nil
	case "bool":
		return "Bool", nil
	}
	return "", bad("unsupported type %s", ty)
}

func translateFn(p *gosrc.Pkg, spec *fnSpec, emitted map[string]string) (string, error) {
	fd, ok := p.Funcs[spec.goName]
	if !ok || fd.Recv != nil {
		return "", bad("function not found in the package")
	}
	if fd.Body == nil {
		return "", bad("function has no body")
	}
	t := &tr{p: p, spec: spec, emitted: emitted, inlined: map[string]string{},
		dropped: map[string]bool{}, floatPar: map[string]string{}}
	for _, d := range spec.dropParams {
		t.dropped[d] = true
	}
	ev := env{}
	type par struct{ name, ty string }
	var pars []par
	seenDrop := map[string]bool{}
	if fd.Type.Params != nil {
		for _, f := range fd.Type.Params.List {
			ty := normType(f.Type)
			if len(f.Names) == 0 {
				return "", bad("unnamed parameter")
			}
			for _, n := range f.Names {
				if t.dropped[n.Name] {
					seenDrop[n.Name] = true
					continue
				}
				if err := t.checkName(n.Name); err != nil {
					return "", err
				}
				if ty == "float32" {
					ln := n.Name + "Bits"
					t.floatPar[n.Name] = ln
					pars = append(pars, par{ln, "Nat"})
					continue
				}
				lt, err := leanType(ty)
				if err != nil {
					return "", bad("parameter %s: %v", n.Name, err)
				}
				ev[n.Name] = ty
				pars = append(pars, par{n.Name, lt})
			}
		}
	}
	for _, d := range spec.dropParams {
		if !seenDrop[d] {
			return "", bad("expected parameter %s is missing", d)
		}
	}
	for _, b := range spec.extraBools {
		pars = append(pars, par{b, "Bool"})
	}
	if fd.Type.Results == nil {
		return "", bad("function has no results")
	}
	for _, f := range fd.Type.Results.List {
		n := len(f.Names)
		if n == 0 {
			n = 1
		}
		for i := 0; i < n; i++ {
			t.results = append(t.results, normType(f.Type))
		}
		for _, nm := range f.Names {
			// named results are ordinary (zero-initialised) locals in Go; we only
			// accept functions that never read them (explicit returns only).
			t.dropped[nm.Name] = true
		}
	}
	// result type
	var rty string
	switch {
	case len(t.results) == 2 && t.results[1] == "error":
		lt, err := leanType(t.results[0])
		if err != nil || lt != "Nat" {
			return "", bad("unsupported result type")
		}
		rty = "Except String Nat"
	default:
		var parts []string
		for i, r := range t.results {
			if spec.project >= 0 && i != spec.project {
				continue
			}
			lt, err := leanType(r)
			if err != nil {
				return "", bad("result %d: %v", i, err)
			}
			parts = append(parts, lt)
		}
		if len(parts) == 0 {
			return "", bad("projected result %d does not exist", spec.project)
		}
		rty = strings.Join(parts, " × ")
		if spec.optionMode {
			if rty != "Nat" {
				return "", bad("option mode needs a single integer result")
			}
			rty = "Option Nat"
		}
	}
	body, err := t.stmts(fd.Body.List, ev)
	if err != nil {
		return "", err
	}
	body = simplify(body)
	var b strings.Builder
	fmt.Fprintf(&b, "-- %s: %s", p.FileOf(fd.Pos()), spec.goName)
	if spec.leanName != spec.goName {
		fmt.Fprintf(&b, " (as %s)", spec.leanName)
	}
	b.WriteString("\n")
	if len(t.inlined) > 0 {
		var ks []string
		for k := range t.inlined {
			ks = append(ks, k)
		}
		sort.Strings(ks)
		var parts []string
		for _, k := range ks {
			parts = append(parts, k+" = "+t.inlined[k])
		}
		fmt.Fprintf(&b, "-- constants inlined by value: %s\n", strings.Join(parts, ", "))
	}
	for go_, ln := range t.floatPar {
		fmt.Fprintf(&b, "-- parameter %s stands for math.Float32bits(%s)\n", ln, go_)
	}
	b.WriteString("def " + spec.leanName)
	// group consecutive parameters of equal type
	for i := 0; i < len(pars); {
		j := i
		var names []string
		for j < len(pars) && pars[j].ty == pars[i].ty {
			names = append(names, pars[j].name)
			j++
		}
		fmt.Fprintf(&b, " (%s : %s)", strings.Join(names, " "), pars[i].ty)
		i = j
	}
	fmt.Fprintf(&b, " : %s :=\n", rty)
	render(&b, body, 2, false)
	return b.String(), nil
}

func main() {
	repo := flag.String("repo", "/repo", "zapx source directory")
	out := flag.String("out", "", "output Lean file")
	flag.Parse()
	if *out == "" {
		fmt.Fprintln(os.Stderr, "gotolean: -out is required")
		os.Exit(2)
	}
	p, err := gosrc.Load(*repo)
	if err != nil {
		fmt.Fprintln(os.Stderr, "gotolean:", err)
		os.Exit(1)
	}

	var b strings.Builder
	b.WriteString("/-\n  GENERATED by tools/gotolean from the Go source of zapx — do not edit.\n")
	b.WriteString("  Source files: " + strings.Join(sourceFiles(), ", ") + ".\n")
	b.WriteString("  Go unsigned arithmetic is made explicit: `+`, `*`, `-`, `<<` are reduced modulo\n")
	b.WriteString("  2^width (u64 / u32); `/`, `>>`, `&`, `|` cannot overflow. A function or constant\n")
	b.WriteString("  that falls outside the translated subset has NO definition here, only an\n")
	b.WriteString("  `-- UNTRANSLATED` comment.\n-/\n")
	b.WriteString("namespace Zap.Gen\n\n")
	b.WriteString("def u64 : Nat := 18446744073709551616\n")
	b.WriteString("def u32 : Nat := 4294967296\n\n")
	b.WriteString("-- constants\n")

	emitted := map[string]string{}
	for _, c := range constList {
		var v constant.Value
		var err error
		if c.isVar {
			v, _, err = p.VarLiteral(c.goName)
		} else {
			v, _, err = p.ConstValue(c.goName)
		}
		var s string
		if err == nil {
			s, err = constText(v)
		}
		if err != nil {
			fmt.Fprintf(&b, "-- UNTRANSLATED %s: %v\n", c.leanName, err)
			continue
		}
		fmt.Fprintf(&b, "def %s : Nat := %s\n", c.leanName, s)
		if !c.isVar {
			emitted[c.goName] = c.leanName
		}
	}
	b.WriteString("\n")
	for i := range fnList {
		spec := &fnList[i]
		txt, err := translateFn(p, spec, emitted)
		if err != nil {
			fmt.Fprintf(&b, "-- UNTRANSLATED %s: %v\n\n", spec.leanName, err)
			continue
		}
		b.WriteString(txt)
		b.WriteString("\n")
	}
	b.WriteString("end Zap.Gen\n")
	if err := os.WriteFile(*out, []byte(b.String()), 0o644); err != nil {
		fmt.Fprintln(os.Stderr, "gotolean:", err)
		os.Exit(1)
	}
}

func sourceFiles() []string {
	set := map[string]bool{}
	for _, c := range constList {
		set[c.file] = true
	}
	for _, f := range fnList {
		set[f.file] = true
	}
	var out []string
	for k := range set {
		out = append(out, k)
	}
	sort.Strings(out)
	return out
}
