// Package gosrc loads the non-test Go files of one package directory with
// go/parser (no type checking) and offers the few lookups the generators
// need: functions by "Recv.Name", struct declarations, integer constants
// evaluated with go/constant, source text of nodes and a very light local
// type inference.
package gosrc

import (
	"bytes"
	"fmt"
	"go/ast"
	"go/build/constraint"
	"go/constant"
	"go/parser"
	"go/printer"
	"go/token"
	"os"
	"path/filepath"
	"sort"
	"strings"
)

// Pkg is the parsed package.
type Pkg struct {
	Dir       string
	Fset      *token.FileSet
	Files     []*ast.File // sorted by file name
	FileNames []string    // base names, parallel to Files

	FuncList      []*ast.FuncDecl // file order, then source order
	Funcs         map[string]*ast.FuncDecl
	MethodsByName map[string][]*ast.FuncDecl
	Structs       map[string]*ast.StructType
	StructOrder   []string

	consts map[string]*constInfo
	vars   map[string]*varInfo
	// in-progress set for cycle detection in constant evaluation
	evaluating map[string]bool
}

type constInfo struct {
	name string
	expr ast.Expr // may be nil only when malformed
	typ  ast.Expr // declared type, possibly inherited through implicit repetition
	iota int
	val  constant.Value
	err  error
	done bool
}

type varInfo struct {
	typ  ast.Expr
	expr ast.Expr
}

// buildTags are the tags considered true when a file's //go:build line is
// evaluated: we want the `vectors` variant of the package on a unix box.
var buildTags = map[string]bool{
	"vectors": true, "linux": true, "unix": true, "amd64": true, "cgo": true,
	"go1.18": true, "go1.19": true, "go1.20": true, "go1.21": true,
}

func fileSelected(f *ast.File) bool {
	for _, cg := range f.Comments {
		if cg.Pos() >= f.Package {
			break
		}
		for _, c := range cg.List {
			if !constraint.IsGoBuild(c.Text) {
				continue
			}
			e, err := constraint.Parse(c.Text)
			if err != nil {
				return true
			}
			return e.Eval(func(tag string) bool { return buildTags[tag] })
		}
	}
	return true
}

// Load parses every *.go file in dir that is not a test, not a
// zz_verif_hooks*.go file and whose build constraint holds for
// {vectors, linux, unix, amd64}.
func Load(dir string) (*Pkg, error) {
	ents, err := os.ReadDir(dir)
	if err != nil {
		return nil, err
	}
	var names []string
	for _, e := range ents {
		n := e.Name()
		if e.IsDir() || !strings.HasSuffix(n, ".go") || strings.HasSuffix(n, "_test.go") ||
			strings.HasPrefix(n, "zz_verif_hooks") {
			continue
		}
		names = append(names, n)
	}
	sort.Strings(names)
	if len(names) == 0 {
		return nil, fmt.Errorf("no Go files in %s", dir)
	}
	p := &Pkg{
		Dir:           dir,
		Fset:          token.NewFileSet(),
		Funcs:         map[string]*ast.FuncDecl{},
		MethodsByName: map[string][]*ast.FuncDecl{},
		Structs:       map[string]*ast.StructType{},
		consts:        map[string]*constInfo{},
		vars:          map[string]*varInfo{},
		evaluating:    map[string]bool{},
	}
	type parsed struct {
		name string
		f    *ast.File
	}
	var all []parsed
	pkgCount := map[string]int{}
	for _, n := range names {
		f, err := parser.ParseFile(p.Fset, filepath.Join(dir, n), nil, parser.ParseComments|parser.SkipObjectResolution)
		if err != nil {
			return nil, err
		}
		if !fileSelected(f) {
			continue
		}
		all = append(all, parsed{n, f})
		pkgCount[f.Name.Name]++
	}
	// keep the dominant package name (guards against a stray `package main`)
	best, bestN := "", 0
	var pn []string
	for k := range pkgCount {
		pn = append(pn, k)
	}
	sort.Strings(pn)
	for _, k := range pn {
		if pkgCount[k] > bestN {
			best, bestN = k, pkgCount[k]
		}
	}
	for _, pf := range all {
		if pf.f.Name.Name != best {
			continue
		}
		p.Files = append(p.Files, pf.f)
		p.FileNames = append(p.FileNames, pf.name)
	}
	for _, f := range p.Files {
		p.indexFile(f)
	}
	return p, nil
}

func (p *Pkg) indexFile(f *ast.File) {
	for _, d := range f.Decls {
		switch d := d.(type) {
		case *ast.FuncDecl:
			p.FuncList = append(p.FuncList, d)
			k := FuncKey(d)
			if _, dup := p.Funcs[k]; !dup {
				p.Funcs[k] = d
			}
			if d.Recv != nil {
				p.MethodsByName[d.Name.Name] = append(p.MethodsByName[d.Name.Name], d)
			}
		case *ast.GenDecl:
			switch d.Tok {
			case token.TYPE:
				for _, s := range d.Specs {
					ts, ok := s.(*ast.TypeSpec)
					if !ok {
						continue
					}
					if st, ok := ts.Type.(*ast.StructType); ok {
						if _, dup := p.Structs[ts.Name.Name]; !dup {
							p.Structs[ts.Name.Name] = st
							p.StructOrder = append(p.StructOrder, ts.Name.Name)
						}
					}
				}
			case token.CONST:
				var lastExprs []ast.Expr
				var lastTyp ast.Expr
				for i, s := range d.Specs {
					vs, ok := s.(*ast.ValueSpec)
					if !ok {
						continue
					}
					exprs, typ := vs.Values, vs.Type
					if len(exprs) == 0 {
						exprs, typ = lastExprs, lastTyp
					} else {
						lastExprs, lastTyp = exprs, typ
					}
					for j, n := range vs.Names {
						ci := &constInfo{name: n.Name, typ: typ, iota: i}
						if j < len(exprs) {
							ci.expr = exprs[j]
						}
						if _, dup := p.consts[n.Name]; !dup {
							p.consts[n.Name] = ci
						}
					}
				}
			case token.VAR:
				for _, s := range d.Specs {
					vs, ok := s.(*ast.ValueSpec)
					if !ok {
						continue
					}
					for j, n := range vs.Names {
						vi := &varInfo{typ: vs.Type}
						if len(vs.Values) == len(vs.Names) {
							vi.expr = vs.Values[j]
						}
						if _, dup := p.vars[n.Name]; !dup {
							p.vars[n.Name] = vi
						}
					}
				}
			}
		}
	}
}

// RecvTypeName returns the receiver's base type name ("" for functions).
func RecvTypeName(fd *ast.FuncDecl) string {
	if fd.Recv == nil || len(fd.Recv.List) == 0 {
		return ""
	}
	return BaseTypeName(fd.Recv.List[0].Type)
}

// RecvName returns the receiver variable name ("" if none or unnamed).
func RecvName(fd *ast.FuncDecl) string {
	if fd.Recv == nil || len(fd.Recv.List) == 0 || len(fd.Recv.List[0].Names) == 0 {
		return ""
	}
	return fd.Recv.List[0].Names[0].Name
}

// BaseTypeName strips pointers, parens and type arguments from a type
// expression and returns the identifier ("" when it is not a plain named type).
func BaseTypeName(t ast.Expr) string {
	for {
		switch x := t.(type) {
		case *ast.StarExpr:
			t = x.X
		case *ast.ParenExpr:
			t = x.X
		case *ast.IndexExpr:
			t = x.X
		case *ast.Ident:
			return x.Name
		default:
			return ""
		}
	}
}

// FuncKey is "Recv.Method" (no star) or the plain function name.
func FuncKey(fd *ast.FuncDecl) string {
	if r := RecvTypeName(fd); r != "" {
		return r + "." + fd.Name.Name
	}
	return fd.Name.Name
}

// FileOf returns the base file name holding pos.
func (p *Pkg) FileOf(pos token.Pos) string {
	return filepath.Base(p.Fset.Position(pos).Filename)
}

// Line returns the line of pos.
func (p *Pkg) Line(pos token.Pos) int { return p.Fset.Position(pos).Line }

// Text prints a node as Go source on one line (whitespace collapsed).
func (p *Pkg) Text(n ast.Node) string {
	if n == nil {
		return ""
	}
	var b bytes.Buffer
	if err := printer.Fprint(&b, p.Fset, n); err != nil {
		return "?"
	}
	return strings.Join(strings.Fields(b.String()), " ")
}

// ---------------------------------------------------------------------------
// constants

var mathConsts = map[string]string{
	"MaxUint64": "18446744073709551615", "MaxUint32": "4294967295", "MaxUint16": "65535", "MaxUint8": "255",
	"MaxInt64": "9223372036854775807", "MaxInt32": "2147483647", "MaxInt16": "32767", "MaxInt8": "127",
	"MinInt64": "-9223372036854775808", "MinInt32": "-2147483648", "MinInt16": "-32768", "MinInt8": "-128",
	"MaxInt": "9223372036854775807", "MinInt": "-9223372036854775808", "MaxUint": "18446744073709551615",
}

var binaryConsts = map[string]string{"MaxVarintLen16": "3", "MaxVarintLen32": "5", "MaxVarintLen64": "10"}

var intTypes = map[string]bool{
	"uint64": true, "uint32": true, "uint16": true, "uint8": true, "byte": true, "uint": true, "uintptr": true,
	"int64": true, "int32": true, "int16": true, "int8": true, "int": true, "rune": true,
}

// IsIntType reports whether name is a predeclared integer type.
func IsIntType(name string) bool { return intTypes[name] }

// HasConst reports whether a package-level constant of that name exists.
func (p *Pkg) HasConst(name string) bool { _, ok := p.consts[name]; return ok }

// ConstValue evaluates a package-level constant. typ is the declared (or
// conversion-implied) Go type name, "" for untyped.
func (p *Pkg) ConstValue(name string) (val constant.Value, typ string, err error) {
	ci, ok := p.consts[name]
	if !ok {
		return nil, "", fmt.Errorf("no constant %s", name)
	}
	if !ci.done {
		if p.evaluating[name] {
			return nil, "", fmt.Errorf("constant cycle at %s", name)
		}
		p.evaluating[name] = true
		if ci.expr == nil {
			ci.err = fmt.Errorf("constant %s has no value", name)
		} else {
			ci.val, ci.err = p.EvalConst(ci.expr, ci.iota)
		}
		delete(p.evaluating, name)
		ci.done = true
	}
	if ci.err != nil {
		return nil, "", ci.err
	}
	return ci.val, p.constType(ci), nil
}

func (p *Pkg) constType(ci *constInfo) string {
	if ci.typ != nil {
		return BaseTypeName(ci.typ)
	}
	return p.exprConstType(ci.expr)
}

// exprConstType: type of a constant expression as far as conversions and
// typed constant references reveal it ("" = untyped).
func (p *Pkg) exprConstType(e ast.Expr) string {
	switch x := e.(type) {
	case *ast.ParenExpr:
		return p.exprConstType(x.X)
	case *ast.CallExpr:
		if id, ok := x.Fun.(*ast.Ident); ok && intTypes[id.Name] {
			return id.Name
		}
	case *ast.Ident:
		if ci, ok := p.consts[x.Name]; ok && !p.evaluating[x.Name] {
			p.evaluating[x.Name] = true
			t := p.constType(ci)
			delete(p.evaluating, x.Name)
			return t
		}
	case *ast.BinaryExpr:
		if x.Op == token.SHL || x.Op == token.SHR {
			return p.exprConstType(x.X)
		}
		if t := p.exprConstType(x.X); t != "" {
			return t
		}
		return p.exprConstType(x.Y)
	case *ast.UnaryExpr:
		return p.exprConstType(x.X)
	}
	return ""
}

// VarLiteral evaluates a package-level `var X T = <constant expr>`.
func (p *Pkg) VarLiteral(name string) (val constant.Value, typ string, err error) {
	vi, ok := p.vars[name]
	if !ok {
		return nil, "", fmt.Errorf("no package variable %s", name)
	}
	if vi.expr == nil {
		return nil, "", fmt.Errorf("variable %s has no literal initialiser", name)
	}
	v, err := p.EvalConst(vi.expr, 0)
	if err != nil {
		return nil, "", err
	}
	t := ""
	if vi.typ != nil {
		t = BaseTypeName(vi.typ)
	} else {
		t = p.exprConstType(vi.expr)
	}
	return v, t, nil
}

// VarType returns the declared type expression of a package variable (or
// the composite-literal type of its initialiser), nil if unknown.
func (p *Pkg) VarType(name string) ast.Expr {
	vi, ok := p.vars[name]
	if !ok {
		return nil
	}
	if vi.typ != nil {
		return vi.typ
	}
	if cl, ok := vi.expr.(*ast.CompositeLit); ok {
		return cl.Type
	}
	if ue, ok := vi.expr.(*ast.UnaryExpr); ok && ue.Op == token.AND {
		if cl, ok := ue.X.(*ast.CompositeLit); ok {
			return cl.Type
		}
	}
	return nil
}

// VarNames returns the package-level variable names, sorted.
func (p *Pkg) VarNames() []string {
	var out []string
	for k := range p.vars {
		out = append(out, k)
	}
	sort.Strings(out)
	return out
}

// EvalConst evaluates an integer constant expression (literals, package
// constants, iota, math.MaxXxx, binary.MaxVarintLenNN, integer conversions,
// unary and binary operators). Anything else is an error.
func (p *Pkg) EvalConst(e ast.Expr, iota int) (constant.Value, error) {
	switch x := e.(type) {
	case *ast.BasicLit:
		if x.Kind != token.INT && x.Kind != token.CHAR {
			return nil, fmt.Errorf("non-integer literal %s", x.Value)
		}
		v := constant.MakeFromLiteral(x.Value, x.Kind, 0)
		if v.Kind() == constant.Unknown {
			return nil, fmt.Errorf("bad literal %s", x.Value)
		}
		return constant.ToInt(v), nil
	case *ast.ParenExpr:
		return p.EvalConst(x.X, iota)
	case *ast.Ident:
		if x.Name == "iota" {
			return constant.MakeInt64(int64(iota)), nil
		}
		if _, ok := p.consts[x.Name]; ok {
			v, _, err := p.ConstValue(x.Name)
			if err != nil {
				return nil, err
			}
			if v.Kind() != constant.Int {
				return nil, fmt.Errorf("constant %s is not an integer", x.Name)
			}
			return v, nil
		}
		return nil, fmt.Errorf("%s is not a constant", x.Name)
	case *ast.SelectorExpr:
		if pk, ok := x.X.(*ast.Ident); ok {
			var tab map[string]string
			switch pk.Name {
			case "math":
				tab = mathConsts
			case "binary":
				tab = binaryConsts
			}
			if s, ok := tab[x.Sel.Name]; ok {
				return constant.MakeFromLiteral(s, token.INT, 0), nil
			}
		}
		return nil, fmt.Errorf("unknown constant %s", p.Text(x))
	case *ast.CallExpr:
		if id, ok := x.Fun.(*ast.Ident); ok && intTypes[id.Name] && len(x.Args) == 1 {
			v, err := p.EvalConst(x.Args[0], iota)
			if err != nil {
				return nil, err
			}
			if !fitsType(v, id.Name) {
				return nil, fmt.Errorf("constant %s overflows %s", v.ExactString(), id.Name)
			}
			return v, nil
		}
		return nil, fmt.Errorf("non-constant call %s", p.Text(x))
	case *ast.UnaryExpr:
		v, err := p.EvalConst(x.X, iota)
		if err != nil {
			return nil, err
		}
		switch x.Op {
		case token.SUB, token.ADD:
			return constant.UnaryOp(x.Op, v, 0), nil
		}
		return nil, fmt.Errorf("unsupported constant operator %s", x.Op)
	case *ast.BinaryExpr:
		a, err := p.EvalConst(x.X, iota)
		if err != nil {
			return nil, err
		}
		b, err := p.EvalConst(x.Y, iota)
		if err != nil {
			return nil, err
		}
		switch x.Op {
		case token.SHL, token.SHR:
			n, ok := constant.Uint64Val(b)
			if !ok || n > 4096 {
				return nil, fmt.Errorf("bad shift count")
			}
			return constant.Shift(a, x.Op, uint(n)), nil
		case token.QUO:
			if constant.Sign(b) == 0 {
				return nil, fmt.Errorf("constant division by zero")
			}
			return constant.BinaryOp(a, token.QUO_ASSIGN, b), nil // integer division
		case token.REM:
			if constant.Sign(b) == 0 {
				return nil, fmt.Errorf("constant division by zero")
			}
			return constant.BinaryOp(a, token.REM, b), nil
		case token.ADD, token.SUB, token.MUL, token.AND, token.OR, token.XOR, token.AND_NOT:
			return constant.BinaryOp(a, x.Op, b), nil
		}
		return nil, fmt.Errorf("unsupported constant operator %s", x.Op)
	}
	return nil, fmt.Errorf("not a constant expression: %s", p.Text(e))
}

func fitsType(v constant.Value, typ string) bool {
	lim := map[string][2]string{
		"uint64": {"0", "18446744073709551615"}, "uint": {"0", "18446744073709551615"}, "uintptr": {"0", "18446744073709551615"},
		"uint32": {"0", "4294967295"}, "uint16": {"0", "65535"}, "uint8": {"0", "255"}, "byte": {"0", "255"},
		"int64": {"-9223372036854775808", "9223372036854775807"}, "int": {"-9223372036854775808", "9223372036854775807"},
		"int32": {"-2147483648", "2147483647"}, "rune": {"-2147483648", "2147483647"},
		"int16": {"-32768", "32767"}, "int8": {"-128", "127"},
	}
	l, ok := lim[typ]
	if !ok {
		return false
	}
	lo := constant.MakeFromLiteral(l[0], token.INT, 0)
	hi := constant.MakeFromLiteral(l[1], token.INT, 0)
	return constant.Compare(lo, token.LEQ, v) && constant.Compare(v, token.LEQ, hi)
}

// ---------------------------------------------------------------------------
// struct helpers

// FieldNames lists the fields of a struct in declaration order (embedded
// fields are named after their type).
func (p *Pkg) FieldNames(structName string) ([]string, bool) {
	st, ok := p.Structs[structName]
	if !ok {
		return nil, false
	}
	var out []string
	for _, f := range st.Fields.List {
		if len(f.Names) == 0 {
			out = append(out, embeddedName(f.Type))
			continue
		}
		for _, n := range f.Names {
			out = append(out, n.Name)
		}
	}
	return out, true
}

func embeddedName(t ast.Expr) string {
	switch x := t.(type) {
	case *ast.StarExpr:
		return embeddedName(x.X)
	case *ast.SelectorExpr:
		return x.Sel.Name
	case *ast.Ident:
		return x.Name
	case *ast.IndexExpr:
		return embeddedName(x.X)
	}
	return "?"
}

// FieldType returns the declared type of structName.field, following
// embedded package structs one level deep.
func (p *Pkg) FieldType(structName, field string) ast.Expr {
	return p.fieldType(structName, field, 0)
}

func (p *Pkg) fieldType(structName, field string, depth int) ast.Expr {
	st, ok := p.Structs[structName]
	if !ok || depth > 3 {
		return nil
	}
	for _, f := range st.Fields.List {
		for _, n := range f.Names {
			if n.Name == field {
				return f.Type
			}
		}
	}
	for _, f := range st.Fields.List {
		if len(f.Names) == 0 {
			if embeddedName(f.Type) == field {
				return f.Type
			}
			if t := p.fieldType(BaseTypeName(f.Type), field, depth+1); t != nil {
				return t
			}
		}
	}
	return nil
}

// StructsDeclaring returns the names of the structs that declare a field of
// that name directly (sorted).
func (p *Pkg) StructsDeclaring(field string) []string {
	var out []string
	for name, st := range p.Structs {
		for _, f := range st.Fields.List {
			for _, n := range f.Names {
				if n.Name == field {
					out = append(out, name)
				}
			}
		}
	}
	sort.Strings(out)
	return out
}

// Embeds reports whether struct outer embeds (directly) struct inner.
func (p *Pkg) Embeds(outer, inner string) bool {
	st, ok := p.Structs[outer]
	if !ok {
		return false
	}
	for _, f := range st.Fields.List {
		if len(f.Names) == 0 && BaseTypeName(f.Type) == inner {
			return true
		}
	}
	return false
}

// FindMethod resolves method name on receiver type recv (following embedded
// structs), nil if absent.
func (p *Pkg) FindMethod(recv, name string) *ast.FuncDecl {
	return p.findMethod(recv, name, 0)
}

func (p *Pkg) findMethod(recv, name string, depth int) *ast.FuncDecl {
	if fd, ok := p.Funcs[recv+"."+name]; ok {
		return fd
	}
	if depth > 3 {
		return nil
	}
	if st, ok := p.Structs[recv]; ok {
		for _, f := range st.Fields.List {
			if len(f.Names) == 0 {
				if fd := p.findMethod(BaseTypeName(f.Type), name, depth+1); fd != nil {
					return fd
				}
			}
		}
	}
	return nil
}

// ---------------------------------------------------------------------------
// light local type inference

// TypeEnv maps local identifiers (receiver, parameters, named results, and
// locals whose initialiser reveals a package type) to a Go type expression.
type TypeEnv map[string]ast.Expr

// LocalTypes builds a TypeEnv for fd by one pass in source order. Scopes are
// ignored: a later declaration of the same name overwrites an earlier one
// only if its type can be inferred.
func (p *Pkg) LocalTypes(fd *ast.FuncDecl) TypeEnv {
	env := TypeEnv{}
	addFields := func(fl *ast.FieldList) {
		if fl == nil {
			return
		}
		for _, f := range fl.List {
			for _, n := range f.Names {
				env[n.Name] = f.Type
			}
		}
	}
	addFields(fd.Recv)
	addFields(fd.Type.Params)
	addFields(fd.Type.Results)
	if fd.Body == nil {
		return env
	}
	ast.Inspect(fd.Body, func(n ast.Node) bool {
		switch s := n.(type) {
		case *ast.FuncLit:
			addFields(s.Type.Params)
		case *ast.AssignStmt:
			if s.Tok != token.DEFINE {
				return true
			}
			if len(s.Lhs) == len(s.Rhs) {
				for i, l := range s.Lhs {
					if id, ok := l.(*ast.Ident); ok && id.Name != "_" {
						if t := p.TypeOf(s.Rhs[i], env); t != nil {
							env[id.Name] = t
						}
					}
				}
			} else if len(s.Rhs) == 1 {
				switch s.Rhs[0].(type) {
				case *ast.IndexExpr, *ast.TypeAssertExpr:
					// v, ok := m[k]  /  v, ok := x.(T)
					if id, ok := s.Lhs[0].(*ast.Ident); ok && id.Name != "_" {
						if t := p.TypeOf(s.Rhs[0], env); t != nil {
							env[id.Name] = t
						}
					}
				}
				if call, ok := s.Rhs[0].(*ast.CallExpr); ok {
					if res := p.CallResults(call, env); res != nil {
						ts := flattenTypes(res)
						for i, l := range s.Lhs {
							if id, ok := l.(*ast.Ident); ok && id.Name != "_" && i < len(ts) {
								env[id.Name] = ts[i]
							}
						}
					}
				}
			}
		case *ast.RangeStmt:
			if s.Tok != token.DEFINE {
				return true
			}
			xt := p.TypeOf(s.X, env)
			var kt, vt ast.Expr
			switch t := xt.(type) {
			case *ast.ArrayType:
				kt, vt = ast.NewIdent("int"), t.Elt
			case *ast.MapType:
				kt, vt = t.Key, t.Value
			}
			if id, ok := s.Key.(*ast.Ident); ok && id.Name != "_" && kt != nil {
				env[id.Name] = kt
			}
			if id, ok := s.Value.(*ast.Ident); ok && id.Name != "_" && vt != nil {
				env[id.Name] = vt
			}
		case *ast.DeclStmt:
			if gd, ok := s.Decl.(*ast.GenDecl); ok && gd.Tok == token.VAR {
				for _, sp := range gd.Specs {
					if vs, ok := sp.(*ast.ValueSpec); ok && vs.Type != nil {
						for _, n := range vs.Names {
							env[n.Name] = vs.Type
						}
					}
				}
			}
		}
		return true
	})
	return env
}

func flattenTypes(fl *ast.FieldList) []ast.Expr {
	var out []ast.Expr
	if fl == nil {
		return out
	}
	for _, f := range fl.List {
		n := len(f.Names)
		if n == 0 {
			n = 1
		}
		for i := 0; i < n; i++ {
			out = append(out, f.Type)
		}
	}
	return out
}

// TypeOf infers a type expression for e, nil when unknown.
func (p *Pkg) TypeOf(e ast.Expr, env TypeEnv) ast.Expr {
	switch x := e.(type) {
	case *ast.ParenExpr:
		return p.TypeOf(x.X, env)
	case *ast.Ident:
		if t, ok := env[x.Name]; ok {
			return t
		}
		if t := p.VarType(x.Name); t != nil {
			return t
		}
		if ci, ok := p.consts[x.Name]; ok {
			if t := p.constType(ci); t != "" {
				return ast.NewIdent(t)
			}
		}
	case *ast.UnaryExpr:
		if x.Op == token.AND {
			if t := p.TypeOf(x.X, env); t != nil {
				return &ast.StarExpr{X: t}
			}
		}
	case *ast.StarExpr:
		if t := p.TypeOf(x.X, env); t != nil {
			if st, ok := t.(*ast.StarExpr); ok {
				return st.X
			}
		}
	case *ast.CompositeLit:
		return x.Type
	case *ast.SelectorExpr:
		if bt := p.TypeOf(x.X, env); bt != nil {
			if n := BaseTypeName(bt); n != "" {
				if ft := p.FieldType(n, x.Sel.Name); ft != nil {
					return ft
				}
			}
		}
	case *ast.TypeAssertExpr:
		return x.Type
	case *ast.IndexExpr:
		switch t := p.TypeOf(x.X, env).(type) {
		case *ast.ArrayType:
			return t.Elt
		case *ast.MapType:
			return t.Value
		}
	case *ast.CallExpr:
		if id, ok := x.Fun.(*ast.Ident); ok && intTypes[id.Name] {
			return id
		}
		if res := p.CallResults(x, env); res != nil {
			ts := flattenTypes(res)
			if len(ts) >= 1 {
				return ts[0]
			}
		}
	}
	return nil
}

// Callee resolves a call to a function or method declared in the package.
// For method calls the receiver's inferred type is used; if it is unknown
// and exactly one package method has that name, that one is returned.
func (p *Pkg) Callee(call *ast.CallExpr, env TypeEnv) *ast.FuncDecl {
	switch f := call.Fun.(type) {
	case *ast.Ident:
		if _, shadow := env[f.Name]; shadow {
			return nil
		}
		if fd, ok := p.Funcs[f.Name]; ok && fd.Recv == nil {
			return fd
		}
	case *ast.SelectorExpr:
		if bt := p.TypeOf(f.X, env); bt != nil {
			if n := BaseTypeName(bt); n != "" {
				if _, isPkgType := p.Structs[n]; isPkgType {
					return p.FindMethod(n, f.Sel.Name)
				}
				if fd := p.FindMethod(n, f.Sel.Name); fd != nil {
					return fd
				}
			}
			return nil
		}
		if id, ok := f.X.(*ast.Ident); ok && p.isImport(call.Pos(), id.Name) {
			return nil
		}
		if ms := p.MethodsByName[f.Sel.Name]; len(ms) == 1 {
			return ms[0]
		}
	}
	return nil
}

// CallResults returns the declared result list of a package callee.
func (p *Pkg) CallResults(call *ast.CallExpr, env TypeEnv) *ast.FieldList {
	if fd := p.Callee(call, env); fd != nil {
		return fd.Type.Results
	}
	return nil
}

// isImport reports whether name is an import name in the file holding pos.
func (p *Pkg) isImport(pos token.Pos, name string) bool {
	for _, f := range p.Files {
		if f.Pos() <= pos && pos <= f.End() {
			for _, im := range f.Imports {
				if ImportName(im) == name {
					return true
				}
			}
			return false
		}
	}
	return false
}

// IsImport is the exported form of isImport.
func (p *Pkg) IsImport(pos token.Pos, name string) bool { return p.isImport(pos, name) }

// ImportName returns the local name an import is referred to by.
func ImportName(im *ast.ImportSpec) string {
	if im.Name != nil {
		return im.Name.Name
	}
	path := strings.Trim(im.Path.Value, "\"`")
	parts := strings.Split(path, "/")
	last := parts[len(parts)-1]
	// .../v2 style suffix
	if len(parts) >= 2 && len(last) >= 2 && last[0] == 'v' && strings.Trim(last[1:], "0123456789") == "" {
		last = parts[len(parts)-2]
	}
	last = strings.TrimPrefix(last, "go-")
	last = strings.TrimSuffix(last, "-go")
	if i := strings.Index(last, "."); i >= 0 {
		last = last[:i]
	}
	return last
}

// ResultsEndInError reports whether the last declared result is `error`.
func ResultsEndInError(ft *ast.FuncType) bool {
	if ft == nil || ft.Results == nil || len(ft.Results.List) == 0 {
		return false
	}
	last := ft.Results.List[len(ft.Results.List)-1]
	id, ok := last.Type.(*ast.Ident)
	return ok && id.Name == "error"
}

// LeanString quotes s as a Lean string literal.
func LeanString(s string) string {
	var b strings.Builder
	b.WriteByte('"')
	for _, r := range s {
		switch r {
		case '"':
			b.WriteString("\\\"")
		case '\\':
			b.WriteString("\\\\")
		case '\n':
			b.WriteString("\\n")
		case '\t':
			b.WriteString("\\t")
		default:
			if r < 0x20 {
				fmt.Fprintf(&b, "\\x%02x", r)
			} else {
				b.WriteRune(r)
			}
		}
	}
	b.WriteByte('"')
	return b.String()
}
