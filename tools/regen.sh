#!/usr/bin/env bash
# Rebuild tools/gotolean and tools/gofacts into /verif/.cache and regenerate
#   lean/ZapModel/Gen/Pure.lean   (gotolean)
#   lean/ZapModel/Gen/Facts.lean  (gofacts)
# from the Go source in $VERIF_REPO (default /repo).  No arguments.
# Exit status is non-zero iff building or running a tool failed; source shapes
# the tools do not recognise are NOT failures (they surface in the Lean build).
set -euo pipefail

VERIF="$(cd "$(dirname "${BASH_SOURCE[0]}")/.." && pwd)"
REPO="${VERIF_REPO:-/repo}"
CACHE="$VERIF/.cache"
GEN="$VERIF/lean/ZapModel/Gen"

export GOFLAGS=-mod=mod GOPROXY=off GOSUMDB=off GOTOOLCHAIN=local CGO_ENABLED=0

mkdir -p "$CACHE" "$GEN"
(cd "$VERIF/tools" && go build -o "$CACHE/gotolean" ./gotolean && go build -o "$CACHE/gofacts" ./gofacts)

tmp="$(mktemp -d "$CACHE/regen.XXXXXX")"
trap 'rm -rf "$tmp"' EXIT

"$CACHE/gotolean" -repo "$REPO" -out "$tmp/Pure.lean"
"$CACHE/gofacts"  -repo "$REPO" -out "$tmp/Facts.lean"

# install only when the content changed (keeps lake's traces valid)
for f in Pure.lean Facts.lean; do
  if ! cmp -s "$tmp/$f" "$GEN/$f"; then
    mv "$tmp/$f" "$GEN/$f"
    echo "regen: updated $GEN/$f"
  fi
done
