#!/bin/bash
# tools/trymutant.sh <mutant-dir> <seed-id> <property>
#   <mutant-dir> contains patch.diff, demo_test.go, notes.md (written by an independent sub-agent).
# 1. validates the mutant in a scratch worktree outside /repo and /verif (builds, existing tests pass,
#    demo fails with the change and passes without), with a private /tmp so that the repo's tests
#    (fixed /tmp/scorch*.zap paths) do not collide with anything else;
# 2. applies it to /repo, runs every registered quick check, records which ones report a violation,
#    and restores /repo;
# 3. stores patch, demo and meta.json under /verif/seeded/<seed-id>/.
set -u
MD="$1"; ID="$2"; PROP="$3"
export GOFLAGS=-mod=mod GOPROXY=off GOSUMDB=off GOTOOLCHAIN=local
VERIF="$(cd "$(dirname "${BASH_SOURCE[0]}")/.." && pwd)"
REPO="${VERIF_REPO:-/repo}"
OUT=$VERIF/seeded/$ID
mkdir -p "$OUT"
cp "$MD/patch.diff" "$OUT/patch.diff"; cp "$MD/demo_test.go" "$OUT/demo_test.go"; cp "$MD/notes.md" "$OUT/notes.md" 2>/dev/null
WT=/root/mv-$ID
rm -rf "$WT"; git -C $REPO worktree prune
git -C $REPO worktree add -q --detach "$WT" HEAD || exit 2
iso() { unshare -m bash -c "mount -t tmpfs tmpfs /tmp && cd $WT && $1"; }
TAGS=""
if head -3 "$OUT/demo_test.go" | grep -q "go:build vectors"; then
  TAGS="-tags vectors"
  echo "replace github.com/blevesearch/go-faiss => $VERIF/fakefaiss" >> "$WT/go.mod"
fi
res_apply=fail; res_build=fail; res_tests=fail; demo_with=unknown; demo_without=unknown
if git -C "$WT" apply --check "$OUT/patch.diff" 2>/dev/null; then
  res_apply=ok
  cp "$OUT/demo_test.go" "$WT/zz_demo_seed_test.go"
  iso "go test $TAGS -vet=off -count=1 -run 'Demo' . > $OUT/demo_without.log 2>&1" && demo_without=pass || demo_without=fail
  git -C "$WT" apply "$OUT/patch.diff"
  iso "go build ./... > $OUT/build.log 2>&1" && res_build=ok
  iso "go test $TAGS -vet=off -count=1 -run 'Demo' . > $OUT/demo_with.log 2>&1" && demo_with=pass || demo_with=fail
  rm -f "$WT/zz_demo_seed_test.go"
  git -C "$WT" checkout -q -- go.mod 2>/dev/null
  iso "go test -vet=off -count=1 ./... > $OUT/tests.log 2>&1" && res_tests=ok
fi
git -C $REPO worktree remove --force "$WT"
detected=""; missed=""
if [ "$res_apply" = ok ] && [ "$res_build" = ok ]; then
  git -C $REPO apply "$OUT/patch.diff"
  ALL=$(python3 -c "import json;print(' '.join(x['property_id'] for x in json.load(open('$VERIF/MANIFEST.json'))['checks']))")
  for c in ${CHECKS:-$ALL}; do
    out=$(cd $VERIF && VERIF_REPO=$REPO timeout 1200 bin/check $c --tier quick 2>/dev/null | grep -m3 "^VIOLATION")
    if [ -n "$out" ]; then detected="$detected $c"; echo "$c: $out" >> "$OUT/checks.log"; else missed="$missed $c"; fi
  done
  git -C $REPO checkout -- .
  git -C $REPO status --short | grep -v '^??' && echo "WARNING: /repo not clean" >&2
fi
python3 - "$OUT" "$ID" "$PROP" "$res_apply" "$res_build" "$res_tests" "$demo_with" "$demo_without" "$detected" <<'PY'
import json,sys,os
out,id_,prop,ap,bu,te,dw,dwo,det=sys.argv[1:10]
notes=open(os.path.join(out,'notes.md')).read() if os.path.exists(os.path.join(out,'notes.md')) else ''
meta={"seed_id":id_,"breaks_property":prop,"valid": ap=="ok" and bu=="ok" and te=="ok" and dw=="fail" and dwo=="pass",
 "applies":ap,"builds":bu,"existing_tests_pass_with_change":te,"demo_with_change":dw,"demo_without_change":dwo,
 "detected_by_checks":det.split(),"checks_run":os.environ.get("CHECKS","all"),"detected_by_own_property_check": prop in det.split(),
 "needs_to_manifest":notes[:1500],
 "what_was_run":"tools/trymutant.sh: scratch worktree validation (private /tmp), then git -C $REPO apply; every MANIFEST quick check; git -C $REPO checkout -- ."}
json.dump(meta,open(os.path.join(out,'meta.json'),'w'),indent=1)
print(id_, "valid" if meta["valid"] else "INVALID", "detected_by:", det)
PY
