"""uncovered.py [file.go ...]: blocks of /repo never executed by the harness (run by tools/coverage.sh in its scratch directory)."""
import sys,collections,re
cov=collections.defaultdict(int)
import os
REPO=os.environ.get("VERIF_REPO","/repo")
for fn in ("vec.txt","nov.txt"):
    for line in open(fn):
        if line.startswith("mode:"): continue
        m=re.match(r"(.*):(\d+)\.(\d+),(\d+)\.(\d+) (\d+) (\d+)",line)
        f,l1,c1,l2,c2,ns,cnt=m.groups()
        if "zapx/v16" not in f or "zz_verif" in f: continue
        cov[(f.split("/")[-1],int(l1),int(c1),int(l2),int(c2))]+=int(cnt)
unc=sorted(k for k,v in cov.items() if v==0)
want=set(sys.argv[1:])
src={}
for (f,l1,c1,l2,c2) in unc:
    if want and f not in want: continue
    if f not in src: src[f]=open(REPO+"/"+f).read().split("\n")
    print(f"--- {f}:{l1}-{l2}")
    for i in range(l1,min(l2,l1+6)+1):
        print(f"    {i}: {src[f][i-1]}")
