"""Registry: what bin/check runs and audits for each property."""
import re

COMMON_ASSUME = [
    "Lean model of zapx algorithms is hand-written; its agreement with /repo is established by differential execution "
    "(harness vs Lean driver) on generated scripts and by regenerated definitions/facts (Gen/*.lean), not proved",
    "vellum FST = sorted finite map, roaring = ascending set, snappy = round-trip codec: modelled by contract",
]

PROPS = {
    "C01": {
        "runs": [{"gen": "C01"}, {"gen": "ENC", "seed_offset": 7}],
        "lean_modules": [], "theorems": [], "lean_imports": [], "lean_files": [],
        "assumptions": COMMON_ASSUME,
    },
    "C02": {"runs": [{"gen": "C02"}], "assumptions": COMMON_ASSUME},
    "C03": {"runs": [{"gen": "C03"}], "assumptions": COMMON_ASSUME},
    "C04": {"runs": [{"gen": "C04"}], "assumptions": COMMON_ASSUME},
    "C05": {"runs": [{"gen": "C05"}], "assumptions": COMMON_ASSUME},
    "C06": {"runs": [{"gen": "C06"}], "assumptions": COMMON_ASSUME},
    "C07": {"runs": [{"gen": "C07"}], "assumptions": COMMON_ASSUME},
    "C08": {"runs": [{"gen": "C08"}], "assumptions": COMMON_ASSUME},
}


def load_known_findings(path):
    out = []
    try:
        for line in open(path):
            line = line.strip()
            if not line or line.startswith("#"):
                continue
            m = re.match(r"known:\s+property=(\S+)\s+match=(\S+)\s+(.*)", line)
            if m:
                out.append({"prop": m.group(1), "match": m.group(2), "text": m.group(3)})
    except FileNotFoundError:
        pass
    return out


def match_known(kf, prop, text):
    """a known finding matches a reported deviation only through its specific `match` token
    (a regex over the deviation line), never by property id alone."""
    for k in kf:
        if k["prop"] == prop and re.search(k["match"], text):
            return k["text"]
    return None
