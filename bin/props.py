"""Registry: what bin/check runs and audits for each property."""
import re

COMMON_ASSUME = [
    "Lean model of zapx algorithms is hand-written; its agreement with /repo is established by differential execution "
    "(harness vs Lean driver) on generated scripts and by regenerated definitions/facts (Gen/*.lean), not proved",
    "vellum FST = sorted finite map, roaring = ascending set, snappy = round-trip codec: modelled by contract",
]

def _p(runs, modules, theorems, files=None, **kw):
    d = {"runs": runs, "lean_modules": modules, "lean_imports": modules, "theorems": theorems,
         "lean_files": files or [], "assumptions": COMMON_ASSUME}
    d.update(kw)
    return d


CODEC = ["ZapProofs.Props.Codec"]
CODEC_FILES = ["ZapProofs/Props/Codec.lean", "ZapProofs/CodecLemmas.lean", "ZapProofs/CodecLemmasGen.lean",
               "ZapProofs/CodecLemmasCrc.lean", "ZapProofs/CodecLemmasInt.lean"]
BUILD_FILES = ["ZapProofs/Props/C01Build.lean", "ZapProofs/BuildLemmas.lean", "ZapProofs/BuildLemmas2.lean",
               "ZapProofs/BuildLemmas3.lean", "ZapProofs/BuildLemmas4.lean"]
POST_FILES = ["ZapProofs/Props/C07.lean", "ZapProofs/PostingLemmas.lean"]
STORED_FILES = ["ZapProofs/Props/C02.lean", "ZapProofs/StoredLemmas.lean"]
DV_FILES = ["ZapProofs/Props/C03.lean", "ZapProofs/DvLemmas.lean"]
MERGE_FILES = ["ZapProofs/Props/C05.lean", "ZapProofs/Props/C06.lean", "ZapProofs/Props/C08.lean",
               "ZapProofs/MergeLemmas.lean", "ZapProofs/DictLemmas.lean"]

PROPS = {
    "C01": _p([{"gen": "C01"}, {"gen": "ENC", "seed_offset": 7}, {"gen": "C01", "vectors": True, "seed_offset": 13}],
              ["ZapProofs.Props.C01", "ZapProofs.Props.C01Build", "ZapProofs.Props.C07", "ZapProofs.Props.Codec"],
              ["Zap.C01_postings", "Zap.C01_modes", "Zap.C01_postings_all_modes", "Zap.C01_absent_field", "Zap.C01_absent_term",
               "Zap.C01_postings_ascending", "Zap.C01_postings_docs",
               "Zap.C01_fieldTable", "Zap.C01_entries_all", "Zap.C01_termsSorted", "Zap.C01_empty", "Zap.C07_run",
               "Zap.Props.Codec.uvarint_putUvarint", "Zap.Props.Codec.uvarints_putUvarints", "Zap.Props.Codec.numUvarintBytes_eq",
               "Zap.Props.Codec.intcoder_roundtrip", "Zap.Props.Codec.intcoder_reuse", "Zap.Props.Codec.chunk_slice",
               "Zap.Props.Codec.freqHasLocs_roundtrip", "Zap.Props.Codec.getChunkSize_pos", "Zap.Props.Codec.getChunkSize_ok_of_valid",
               "Zap.Props.Codec.chunk_index_lt", "Zap.Props.Codec.memRead_put", "Zap.Props.Codec.memSkip_put"],
              BUILD_FILES + POST_FILES + CODEC_FILES + ["ZapProofs/Props/C01.lean", "ZapProofs/ComposeLemmas.lean"]),
    "C02": _p([{"gen": "C02"}], ["ZapProofs.Props.C02", "ZapProofs.Props.C02Full", "ZapProofs.Props.C01Build"],
              ["Zap.C02_stored", "Zap.C02_beyond", "Zap.C02_stop", "Zap.C02_docID", "Zap.C02_docID_id", "Zap.C02_count",
               "Zap.C02_docNumbers_full", "Zap.C02_docNumbers_full_spec", "Zap.C02_maxkey_shortcut_sound", "Zap.C01_fieldTable"],
              STORED_FILES + ["ZapProofs/Props/C02Full.lean", "ZapProofs/ComposeLemmas.lean"]),
    "C03": _p([{"gen": "C03"}], ["ZapProofs.Props.C03", "ZapProofs.Props.C03Full", "ZapProofs.Props.Codec"],
              ["Zap.C03_fresh_visit", "Zap.C03_visit_any_order", "Zap.C03_visit_sequence", "Zap.C03_reader_invariant",
               "Zap.C03_dvFieldNames", "Zap.C03_content_full", "Zap.C03_visit_built_full", "Zap.Props.Codec.content_roundtrip"],
              DV_FILES + STORED_FILES + ["ZapProofs/Props/C03Full.lean", "ZapProofs/CodecLemmasContent.lean"]),
    "C04": _p([{"gen": "C04"}, {"gen": "C04", "vectors": True, "seed_offset": 13}],
              ["ZapProofs.Props.C04", "ZapProofs.Props.Codec"],
              ["Zap.C04.open_recovers_init_args", "Zap.C04.footer_crc_is_crc_of_all_preceding_bytes", "Zap.C04.persistFooter_crc",
               "Zap.C04.mem_recovered", "Zap.C04.persist_eq_writeTo", "Zap.C04.persist_is_persistBytes",
               "Zap.C04.persistSegmentBase_calls_toWriter", "Zap.C04.toWriter_shape", "Zap.C04.persistFooter_shape",
               "Zap.Props.Codec.footer_roundtrip", "Zap.Props.Codec.footer_layout", "Zap.Props.Codec.footer_size",
               "Zap.Props.Codec.crcUpdate_append"],
              CODEC_FILES + ["ZapProofs/Props/C04.lean"]),
    "C05": _p([{"regress": "d3_zero_survivors.script"}, {"gen": "C05"}], ["ZapProofs.Props.C05"],
              ["Zap.remapSeg_spec", "Zap.remapAll_spec", "Zap.newDocCount_eq", "Zap.C05_consecutive", "Zap.C05_bijection",
               "Zap.C05_count", "Zap.C05_maps", "Zap.C05_zero", "Zap.C05_stored", "Zap.mergedFieldNames_spec",
               "Zap.fieldsSame_sound"], MERGE_FILES),
    "C06": _p([{"gen": "C06"}], ["ZapProofs.Props.C06"],
              ["Zap.enumerate_spec", "Zap.C06_dict", "Zap.C06_sorted", "Zap.C06_term", "Zap.C06_same_unchanged"], MERGE_FILES),
    "C07": _p([{"gen": "C07"}], ["ZapProofs.Props.C07"],
              ["Zap.C07_run", "Zap.C07_count", "Zap.C07_live", "Zap.C07_replace"], POST_FILES),
    "C08": _p([{"regress": "d1_stale_1hit.script"}, {"gen": "C08"}], ["ZapProofs.Props.C08"],
              ["Zap.C08_dict", "Zap.C08_stale_1hit_counterexample", "Zap.C08_merge_writes_wf"], MERGE_FILES),
    "C10": _p([{"gen": "C10"}, {"gen": "C10", "vectors": True, "seed_offset": 13},
               {"gen": "C10", "race": True, "seed_offset": 29, "n": {"quick": 12, "thorough": 200}}], [], []),
    "C11": _p([{"regress": "d2_pool_double_put.script"}, {"gen": "C11"}, {"gen": "C11", "race": True, "seed_offset": 29, "n": {"quick": 12, "thorough": 200}}], [], []),
    "C12": _p([{"gen": "C12"}, {"gen": "C12", "vectors": True, "seed_offset": 13}], [], []),
    "C13": _p([{"regress": "d4_syn_empty_lhs.script"}, {"gen": "C13"}], [], []),
    "C17": _p([{"gen": "C17"}], [], []),
    "C18": _p([{"gen": "C18"}], [], []),
    "C20": _p([{"gen": "C20"}, {"gen": "C20", "race": True, "seed_offset": 29, "n": {"quick": 5, "thorough": 9}}], [], []),
    "C09": _p([{"frozen": "default"}, {"frozen": "vectors", "vectors": True}], [], []),
    "C14": _p([{"gen": "C14", "vectors": True}], [], [], replay_vectors=True),
    "C15": _p([{"gen": "C15", "vectors": True}], [], [], replay_vectors=True),
    "C16": _p([{"regress": "d5_vec_cache_except.script", "vectors": True}, {"gen": "C16", "vectors": True},
               {"gen": "C16", "vectors": True, "race": True, "seed_offset": 29, "n": {"quick": 20, "thorough": 300}}], [], [], replay_vectors=True),
    "C19": _p([{"regress": "d6_vec_build_error.script", "vectors": True}, {"gen": "C19", "vectors": True}], [], [], replay_vectors=True),
}


def load_known_findings(path):
    out = []
    try:
        for line in open(path):
            line = line.strip()
            if not line or line.startswith("#"):
                continue
            m = re.match(r"known:\s+property=(\S+)\s+match=(\S+)\s+(.*)", line)
            if m:
                out.append({"prop": m.group(1), "match": m.group(2), "text": m.group(3)})
    except FileNotFoundError:
        pass
    return out


def match_known(kf, prop, text):
    """a known finding matches a reported deviation only through its specific `match` token
    (a regex over the deviation line), never by property id alone."""
    for k in kf:
        if k["prop"] == prop and re.search(k["match"], text):
            return k["text"]
    return None
