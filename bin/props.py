"""Registry: what bin/check runs and audits for each property."""
import re

COMMON_ASSUME = [
    "Lean model of zapx algorithms is hand-written; its agreement with /repo is established by differential execution "
    "(harness vs Lean driver) on generated scripts and by regenerated definitions/facts (Gen/*.lean), not proved",
    "vellum FST = sorted finite map, roaring = ascending set, snappy = round-trip codec: modelled by contract",
]

def _p(runs, modules, theorems, files=None, **kw):
    d = {"runs": runs, "lean_modules": modules, "lean_imports": modules, "theorems": theorems,
         "lean_files": files or [], "assumptions": COMMON_ASSUME}
    d.update(kw)
    return d


CODEC = ["ZapProofs.Props.Codec"]
CODEC_FILES = ["ZapProofs/Props/Codec.lean", "ZapProofs/CodecLemmas.lean", "ZapProofs/CodecLemmasGen.lean",
               "ZapProofs/CodecLemmasCrc.lean", "ZapProofs/CodecLemmasInt.lean"]
BUILD_FILES = ["ZapProofs/Props/C01Build.lean", "ZapProofs/BuildLemmas.lean", "ZapProofs/BuildLemmas2.lean",
               "ZapProofs/BuildLemmas3.lean", "ZapProofs/BuildLemmas4.lean"]
POST_FILES = ["ZapProofs/Props/C07.lean", "ZapProofs/PostingLemmas.lean"]
STORED_FILES = ["ZapProofs/Props/C02.lean", "ZapProofs/StoredLemmas.lean"]
DV_FILES = ["ZapProofs/Props/C03.lean", "ZapProofs/DvLemmas.lean"]
THEORY_FILES = ['ZapModel/Theory/Str.lean', 'ZapModel/Theory/Pool.lean', 'ZapModel/Theory/RefCount.lean', 'ZapModel/Theory/Lock.lean', 'ZapModel/Theory/Persist.lean', 'ZapModel/Theory/Reset.lean', 'ZapProofs/TheoryLemmasPool.lean', 'ZapProofs/TheoryLemmasRef.lean', 'ZapProofs/TheoryLemmasLock.lean', 'ZapProofs/TheoryLemmasCrit.lean', 'ZapProofs/TheoryLemmasPersist.lean', 'ZapProofs/TheoryLemmasReset.lean']
SYN_FILES = ["ZapModel/SpecSyn.lean", "ZapProofs/SynLemmas.lean", "ZapProofs/SynMergeLemmas.lean", "ZapProofs/Props/C12.lean", "ZapProofs/Props/C13.lean"]
VEC_FILES = ["ZapModel/VecSearch.lean", "ZapProofs/VecLemmas.lean", "ZapProofs/Props/C14.lean", "ZapProofs/Props/C15.lean", "ZapProofs/Props/C16.lean"]
MERGE_FILES = ["ZapProofs/Props/C05.lean", "ZapProofs/Props/C06.lean", "ZapProofs/Props/C08.lean",
               "ZapProofs/MergeLemmas.lean", "ZapProofs/DictLemmas.lean"]

PROPS = {
    "C01": _p([{"gen": "C01"}, {"gen": "ENC", "seed_offset": 7}, {"gen": "C01", "vectors": True, "seed_offset": 13}],
              ["ZapProofs.Props.C01", "ZapProofs.Props.C01Build", "ZapProofs.Props.C01Arrays", "ZapProofs.Props.C07", "ZapProofs.Props.Codec"],
              ["Zap.C01_postings", "Zap.C01_modes", "Zap.C01_postings_all_modes", "Zap.C01_absent_field", "Zap.C01_absent_term",
               "Zap.C01_postings_ascending", "Zap.C01_postings_docs",
               "Zap.C01_arrays_refine", "Zap.C01_arrays_refine_reused", "Zap.C01_counted_ge_appended", "Zap.C01_fill_regions_exact",
               "Zap.C01_windows_disjoint", "Zap.C01_arraysAgree", "Zap.undercount_overwrites",
               "Zap.C01_fieldTable", "Zap.C01_entries_all", "Zap.C01_termsSorted", "Zap.C01_empty", "Zap.C07_run",
               "Zap.Props.Codec.uvarint_putUvarint", "Zap.Props.Codec.uvarints_putUvarints", "Zap.Props.Codec.numUvarintBytes_eq",
               "Zap.Props.Codec.intcoder_roundtrip", "Zap.Props.Codec.intcoder_reuse", "Zap.Props.Codec.chunk_slice",
               "Zap.Props.Codec.freqHasLocs_roundtrip", "Zap.Props.Codec.getChunkSize_pos", "Zap.Props.Codec.getChunkSize_ok_of_valid",
               "Zap.Props.Codec.chunk_index_lt", "Zap.Props.Codec.memRead_put", "Zap.Props.Codec.memSkip_put"],
              BUILD_FILES + POST_FILES + CODEC_FILES + ["ZapProofs/Props/C01.lean", "ZapProofs/ComposeLemmas.lean", "ZapModel/BuildArrays.lean",
                                                         "ZapProofs/Props/C01Arrays.lean", "ZapProofs/ArraysLemmas1.lean", "ZapProofs/ArraysLemmas2.lean",
                                                         "ZapProofs/ArraysLemmas3.lean", "ZapProofs/ArraysLemmas4.lean"]),
    "C02": _p([{"gen": "C02"}], ["ZapProofs.Props.C02", "ZapProofs.Props.C02Full", "ZapProofs.Props.C01Build"],
              ["Zap.C02_stored", "Zap.C02_beyond", "Zap.C02_stop", "Zap.C02_docID", "Zap.C02_docID_id", "Zap.C02_count",
               "Zap.C02_docNumbers_full", "Zap.C02_docNumbers_full_spec", "Zap.C02_maxkey_shortcut_sound", "Zap.C01_fieldTable"],
              STORED_FILES + ["ZapProofs/Props/C02Full.lean", "ZapProofs/ComposeLemmas.lean"]),
    "C03": _p([{"gen": "C03"}], ["ZapProofs.Props.C03", "ZapProofs.Props.C03Full", "ZapProofs.Props.Codec", "ZapProofs.Props.ReadWindows"],
              ["Zap.ReadWindows.windows_full_width", "Zap.ReadWindows.windows_recognised", "Zap.C03_fresh_visit", "Zap.C03_visit_any_order", "Zap.C03_visit_sequence", "Zap.C03_reader_invariant",
               "Zap.C03_dvFieldNames", "Zap.C03_content_full", "Zap.C03_visit_built_full", "Zap.Props.Codec.content_roundtrip"],
              DV_FILES + STORED_FILES + ["ZapProofs/Props/C03Full.lean", "ZapProofs/CodecLemmasContent.lean"]),
    "C04": _p([{"gen": "C04"}, {"gen": "C04", "vectors": True, "seed_offset": 13}],
              ["ZapProofs.Props.C04", "ZapProofs.Props.Codec", "ZapProofs.Props.C04Loaders", "ZapProofs.Props.ReadWindows"],
              ["Zap.ReadWindows.windows_full_width", "Zap.ReadWindows.windows_recognised", "Zap.C04.open_recovers_init_args", "Zap.C04.footer_crc_is_crc_of_all_preceding_bytes", "Zap.C04.persistFooter_crc",
               "Zap.C04.mem_recovered", "Zap.C04.persist_eq_writeTo", "Zap.C04.persist_is_persistBytes",
               "Zap.C04.persistSegmentBase_calls_toWriter", "Zap.C04.toWriter_shape", "Zap.C04.persistFooter_shape",
               "Zap.Props.Codec.footer_roundtrip", "Zap.Props.Codec.footer_layout", "Zap.Props.Codec.footer_size",
               "Zap.Props.Codec.crcUpdate_append",
               "Zap.Props.C04Loaders.base_loader_spec", "Zap.Props.C04Loaders.file_loader_spec",
               "Zap.Props.C04Loaders.base_loader_names", "Zap.Props.C04Loaders.file_loader_names",
               "Zap.Props.C04Loaders.loaders_agree", "Zap.Props.C04Loaders.loaders_contain_id"],
              CODEC_FILES + ["ZapProofs/Props/C04.lean", "ZapModel/Loaders.lean", "ZapProofs/WriterLemmasLoaders.lean",
                             "ZapProofs/Props/C04Loaders.lean"]),
    "C05": _p([{"regress": "d15_zero_survivor_maps.script"}, {"regress": "d3_zero_survivors.script"}, {"gen": "C05"}], ["ZapProofs.Props.C05", "ZapProofs.Props.DocNumWidth"],
              ["Zap.DocNumWidth.no_narrow_docnum", "Zap.remapSeg_spec", "Zap.remapAll_spec", "Zap.newDocCount_eq", "Zap.C05_consecutive", "Zap.C05_bijection",
               "Zap.C05_count", "Zap.C05_maps", "Zap.C05_zero", "Zap.C05_stored", "Zap.mergedFieldNames_spec",
               "Zap.fieldsSame_sound"], MERGE_FILES),
    "C06": _p([{"regress": "d14_single_hit_zero_norm.script"}, {"regress": "k1_shape_only_field_merge.script"}, {"gen": "C06"}], ["ZapProofs.Props.C06", "ZapProofs.Props.C06Dv"],
              ["Zap.enumerate_spec", "Zap.C06_dict", "Zap.C06_sorted", "Zap.C06_term", "Zap.C06_same_unchanged", "Zap.C06_D14_counterexample",
               "Zap.C06_dv", "Zap.C06_dv_newNum", "Zap.C06_dv_visit", "Zap.C06_dv_ascending", "Zap.C06_dv_entries",
               "Zap.C06_dvfields", "Zap.C06_dvFieldNames", "Zap.C06_dv_fix_D11"],
              MERGE_FILES + ["ZapProofs/Props/C06Dv.lean", "ZapProofs/MergeDvLemmas.lean"]),
    "C07": _p([{"regress": "d13_advance_beyond_32_bits.script"}, {"regress": "d8_prealloc_missing_field.script"}, {"gen": "C07"}], ["ZapProofs.Props.C07", "ZapProofs.Props.C07Reuse"],
              ["Zap.C07_run", "Zap.C07_count", "Zap.C07_live", "Zap.C07_replace",
               "Zap.C07_reuse", "Zap.C07_reuse_spec", "Zap.C07_reuse_absent", "Zap.C07_reuse_source", "Zap.C07_flags_extracted",
               "Zap.C07_preserved_ok"],
              POST_FILES + ["ZapModel/Reuse.lean", "ZapProofs/ReuseLemmas.lean", "ZapProofs/Props/C07Reuse.lean"]),
    "C08": _p([{"regress": "d14_single_hit_zero_norm.script"}, {"regress": "d10_empty_key_range.script"}, {"regress": "d1_stale_1hit.script"}, {"gen": "C08"}], ["ZapProofs.Props.C08", "ZapProofs.Props.C08Range", "ZapProofs.Props.C08Facts", "ZapProofs.Props.ReadWindows"],
              ["Zap.ReadWindows.windows_full_width", "Zap.ReadWindows.windows_recognised", "Zap.C08_dict", "Zap.C08_empty_range", "Zap.C08_end_exclusive", "Zap.C08_stale_1hit_counterexample", "Zap.C08_merge_writes_wf", "Zap.C08_D14_counterexample",
               "Zap.C08Facts.sideCondition_holds", "Zap.C08Facts.read_clears_1hit", "Zap.C08Facts.count_reads_reinitialised"],
              MERGE_FILES + ["ZapProofs/Props/C08Facts.lean"]),
    "C10": _p([{"regress": "d9_empty_after_nonempty.script"}, {"gen": "C10"}, {"gen": "C10", "vectors": True, "seed_offset": 13},
               {"gen": "C10", "race": True, "seed_offset": 29, "n": {"quick": 12, "thorough": 200}}],
              ["ZapProofs.Props.C10", "ZapProofs.Props.C11", "ZapProofs.Props.Codec", "ZapProofs.Props.PackageState"],
              ["Zap.PackageState.package_state_known", "Zap.PackageState.package_state_classified", "Zap.C10.c10SideCondition_holds", "Zap.C10.C10_complete", "Zap.C10.C10_resetSafe", "Zap.C10.C10_no_stale",
               "Zap.C10.C10_builder_pool_shape", "Zap.C10.C10_builder_pool", "Zap.C11.C11_pool",
               "Zap.Props.Codec.intcoder_reuse"],
              THEORY_FILES + ["ZapProofs/Props/C10.lean", "ZapProofs/Props/PackageState.lean"],
              partial="data races in the Go memory-model sense are outside the Lean model (probed by the -race runs)"),
    "C11": _p([{"regress": "d2_pool_double_put.script"}, {"gen": "C11"},
               {"gen": "C11", "race": True, "seed_offset": 29, "n": {"quick": 12, "thorough": 200}}],
              ["ZapProofs.Props.C11", "ZapProofs.Props.PackageState"],
              ["Zap.PackageState.package_state_known", "Zap.PackageState.package_state_classified", "Zap.C11.poolSideCondition_holds", "Zap.C11.C11_pool", "Zap.C11.Lockset.lockSideCondition_holds", "Zap.C11.Lockset.C11_lockset"],
              THEORY_FILES + ["ZapProofs/Props/C11.lean", "ZapProofs/Props/PackageState.lean"],
              partial="atomic steps at the granularity of extracted pool/lock events; Go memory model outside (probed by -race runs)"),
    "C12": _p([{"regress": "d16_empty_synonym.script"}, {"gen": "C12"}, {"gen": "C12", "vectors": True, "seed_offset": 13}], ["ZapProofs.Props.C12", "ZapProofs.Props.Codec"],
              ["Zap.C12_spec_meaning", "Zap.C12_synonyms", "Zap.C12_terms", "Zap.C12_unknown", "Zap.C12_not_in_dictionaries",
               "Zap.C12_ids_consistent", "Zap.C12_wellformed", "Zap.Props.Codec.synonym_roundtrip", "Zap.Props.Codec.synonym_order"],
              SYN_FILES),
    "C13": _p([{"regress": "d16_empty_synonym.script"}, {"regress": "d4_syn_empty_lhs.script"}, {"gen": "C13"}], ["ZapProofs.Props.C13", "ZapProofs.Props.C06"],
              ["Zap.C13_merged", "Zap.C13_closed", "Zap.C13_nodup_sorted", "Zap.C13_terms_vanish", "Zap.C13_thesaurus_preserved",
               "Zap.C13_observational", "Zap.C13_id_independent", "Zap.enumerate_spec"],
              SYN_FILES + MERGE_FILES),
    "C17": _p([{"regress": "d7_overwrite_longer_file.script"}, {"gen": "C17"}], ["ZapProofs.Props.C17", "ZapProofs.Props.C04"],
              ["Zap.C17.c17SideCondition_holds", "Zap.C17.C17_persist_fault", "Zap.C17.C17_merge_fault", "Zap.C17.C17_no_fault",
               "Zap.C17.C17_merge_outcomes", "Zap.C17.C17_writeTo_fault", "Zap.C04.footer_crc_is_crc_of_all_preceding_bytes"],
              THEORY_FILES + ["ZapProofs/Props/C17.lean"],
              partial="Sync/Close failures and OS write semantics are outside the model (observed through RLIMIT_FSIZE faults)"),
    "C18": _p([{"gen": "C18"}, {"gen": "C18", "vectors": True, "seed_offset": 17, "n": {"quick": 12, "thorough": 60}}], ["ZapProofs.Props.C18"],
              ["Zap.C18.c18SideCondition_holds", "Zap.C18.C18_cancel_outcomes", "Zap.C18.C18_closed_before_call",
               "Zap.C18.C18_cancel_and_fault", "Zap.C18.C18_vector_sites_release"],
              THEORY_FILES + ["ZapProofs/Props/C18.lean"]),
    "C20": _p([{"gen": "C20"}, {"gen": "C20", "race": True, "seed_offset": 29, "n": {"quick": 5, "thorough": 9}}],
              ["ZapProofs.Props.C20"],
              ["Zap.C20.refSideCondition_holds", "Zap.C20.refs_always_under_m", "Zap.C20.C20_release_once", "Zap.C20.C20_concurrent",
               "Zap.C20.C20_concurrent_release"],
              THEORY_FILES + ["ZapProofs/Props/C20.lean"],
              partial="munmap / close(fd) are OS behaviour: observed through /proc, not modelled"),
    "C09": _p([{"regress": "d9_empty_after_nonempty.script"}, {"frozen": "default"}, {"frozen": "big"}, {"frozen": "vectors", "vectors": True}, {"gen": "C09"}, {"gen": "C09", "vectors": True, "seed_offset": 13}],
              ["ZapProofs.Props.Codec", "ZapProofs.Props.C04", "ZapProofs.Props.C09Bytes", "ZapProofs.Props.ReadWindows"],
              ["Zap.ReadWindows.windows_full_width", "Zap.ReadWindows.windows_recognised"] + ["Zap.Props.C09Bytes." + t for t in (
                  "C09_postings_roundtrip", "C09_numLocsBytes", "C09_skipBytes", "C09_decLocs_block", "C09_empty_loc_stream",
                  "C09_postings_roundtrip_writeAt", "C09_postings_record", "C09_layout_simulates_postings",
                  "C09_postings_roundtrip_layout", "C09_postings_roundtrip_file", "C09_stored_roundtrip",
                  "C09_layout_simulates_stored", "C09_stored_roundtrip_layout", "C09_fastDecodes_snappyLit",
                  "C09_stored_roundtrip_layout_lit", "C09_stored_roundtrip_layout_full_false",
                  "C09_stored_roundtrip_layout_partial")] +
              ["Zap.Props.Codec.footer_layout", "Zap.Props.Codec.footer_size", "Zap.Props.Codec.footer_roundtrip",
               "Zap.Props.Codec.uvarint_putUvarint", "Zap.Props.Codec.readN_putUvarints", "Zap.Props.Codec.chunk_slice",
               "Zap.Props.Codec.intcoder_roundtrip", "Zap.Props.Codec.content_roundtrip", "Zap.Props.Codec.onehit_roundtrip",
               "Zap.Props.Codec.onehit_tagged", "Zap.Props.Codec.general_not_onehit", "Zap.Props.Codec.freqHasLocs_roundtrip",
               "Zap.Props.Codec.synonym_roundtrip", "Zap.Props.Codec.vectorCode_order", "Zap.Props.Codec.crc32_check",
               "Zap.C04.footer_crc_is_crc_of_all_preceding_bytes", "Zap.C04.mem_recovered"],
              CODEC_FILES + ["ZapProofs/CodecLemmasContent.lean", "ZapModel/Writer.lean", "ZapModel/Layout.lean",
                             "ZapProofs/Props/C09Bytes.lean"] +
              ["ZapProofs/WriterLemmas%s.lean" % x for x in ("Uv", "Walk", "Post", "Stored", "BA", "LayoutDefs", "LayoutPost",
                                                           "LayoutFinal", "LayoutStored", "LayoutStoredCex")],
              partial="FST (vellum) and roaring blobs are decoded by the real libraries and handed to the Lean decoder as an oracle table; snappy, varints, chunk tables, stored/doc-value/thesaurus/vector records and the footer+CRC are decoded natively in Lean"),
    "C14": _p([{"regress": "d12_eligible_excluded.script", "vectors": True}, {"gen": "C14", "vectors": True}], ["ZapProofs.Props.C14", "ZapProofs.Props.Codec"],
              ["Zap.C14.C14_sound", "Zap.C14.C14_no_excluded", "Zap.C14.C14_only_eligible", "Zap.C14.C14_at_most_k",
               "Zap.C14.C14_topk_exact", "Zap.C14.C14_topk_exact_filtered", "Zap.C14.C14_filtered_no_excluded", "Zap.C14.C14_ivf_selector",
               "Zap.C14.C14_D12_counterexample", "Zap.C14.C14_wrong_dim_empty", "Zap.C14.C14_no_vectors_empty",
               "Zap.C14.C14_contract_satisfiable", "Zap.C14.C14_code_order", "Zap.Props.Codec.vectorCode_order"],
              VEC_FILES, replay_vectors=True,
              partial="the vector engine is a pure-Go stand-in (fakefaiss) with a stated contract; FAISS itself and the clustered (IVF) class beyond soundness are not verified"),
    "C15": _p([{"gen": "C15", "vectors": True}], ["ZapProofs.Props.C15", "ZapProofs.Props.DocNumWidth"],
              ["Zap.DocNumWidth.no_narrow_docnum", "Zap.C15.C15_vecs", "Zap.C15.C15_none_iff", "Zap.C15.C15_closure_identity", "Zap.C15.C15_closure_compose",
               "Zap.C15.C15_admissible_union", "Zap.C15.C15_search_merged"],
              VEC_FILES, replay_vectors=True, partial="engine stand-in; vector ids assumed distinct across inputs"),
    "C16": _p([{"regress": "d5_vec_cache_except.script", "vectors": True}, {"gen": "C16", "vectors": True},
               {"gen": "C16", "vectors": True, "race": True, "seed_offset": 29, "n": {"quick": 20, "thorough": 300}}],
              ["ZapProofs.Props.C16", "ZapProofs.Props.C11"],
              ["Zap.C16.C16_refs_eq_open_handles", "Zap.C16.C16_handle_entry_cached", "Zap.C16.C16_not_released_while_open",
               "Zap.C16.C16_released_exactly_once", "Zap.C16.C16_released_exactly_once_ghost", "Zap.C16.C16_cached_map_independent",
               "Zap.C16.C16_result_history_independent", "Zap.C16.C16_first_except_counterexample", "Zap.C11.Lockset.C11_lockset"],
              VEC_FILES, replay_vectors=True,
              partial="eviction timing (EWMA in floats) abstracted: a tick may evict any unreferenced subset; engine stand-in"),
    "C19": _p([{"regress": "d6_vec_build_error.script", "vectors": True}, {"gen": "C19", "vectors": True}],
              ["ZapProofs.Props.C19"],
              ["Zap.C19.c19SideCondition_holds", "Zap.C19.C19_engine_fault_surfaces_build", "Zap.C19.C19_engine_fault_surfaces_merge",
               "Zap.C19.C19_indexes_released"],
              THEORY_FILES + ["ZapProofs/Props/C19.lean", "ZapProofs/Props/C19Pre.lean"], replay_vectors=True,
              partial="engine stand-in with fault injection; real FAISS failure modes are not exercised"),
}


def load_known_findings(path):
    out = []
    try:
        for line in open(path):
            line = line.strip()
            if not line or line.startswith("#"):
                continue
            m = re.match(r"known:\s+property=(\S+)\s+match=(\S+)\s+(.*)", line)
            if m:
                out.append({"prop": m.group(1), "match": m.group(2), "text": m.group(3)})
    except FileNotFoundError:
        pass
    return out


def match_known(kf, prop, text):
    """a known finding matches a reported deviation only through its specific `match` token
    (a regex over the deviation line), never by property id alone."""
    for k in kf:
        if k["prop"] == prop and re.search(k["match"], text):
            return k["text"]
    return None
