-- Root of the proof library: importing every property file makes `lake build ZapProofs` check them all.
import ZapProofs.Props.C01Build
import ZapProofs.Props.C02
import ZapProofs.Props.C03
import ZapProofs.Props.C05
import ZapProofs.Props.C06
import ZapProofs.Props.C07
import ZapProofs.Props.C08
import ZapProofs.Props.Codec
import ZapProofs.Props.C01
import ZapProofs.Props.C02Full
import ZapProofs.Props.C03Full
import ZapProofs.Props.C04
