/-
  ZapModel.Vector: what a nearest-neighbour search on a vector field may return
  (zapx's logic around an abstract engine), and the index-cache state machine.

  The engine (FAISS; in this sandbox the pure-Go stand-in /verif/fakefaiss) is
  NOT modelled: an exact index returns *some* best-k selection of the admissible
  vectors with their true scores (ties arbitrary), a clustered (IVF) index a
  sound but possibly incomplete selection.  Vector components in generated
  inputs are small integers, so scores are exact integers.
-/
import ZapModel.Types

namespace Zap

/-- metric 0 = squared L2 distance (smaller is better); 1 / 2 = inner product
    (zapx maps cosine to inner product; larger is better). -/
def vscore (metric : Nat) (q v : List Int) : Int :=
  if metric = 0 then ((q.zip v).map (fun p => (p.1 - p.2) * (p.1 - p.2))).foldl (· + ·) 0
  else ((q.zip v).map (fun p => p.1 * p.2)).foldl (· + ·) 0

def vbetter (metric : Nat) (a b : Int) : Bool := if metric = 0 then a < b else a > b

structure VHit where
  doc : Nat
  score : Int
  deriving Repr, DecidableEq, Inhabited

/-- (doc, score) of every vector the search may return: documents not excluded,
    and eligible when a filter is given. -/
def admissible (ix : VecIx) (q : List Int) (ex : Option (List Nat)) (elig : Option (List Nat)) : List VHit :=
  (ix.vecs.filter (fun dv =>
      (match ex with | none => true | some l => !l.contains dv.1) &&
      (match elig with | none => true | some l => l.contains dv.1))).map
    (fun dv => { doc := dv.1, score := vscore ix.metric q dv.2 })

def countWhere {α : Type} (p : α → Bool) (xs : List α) : Nat := (xs.filter p).length

/-- `R` is the set of codes of *some* best-k selection of the multiset `M`:
    R ⊆ M, no omitted element is strictly better than a returned one, at most k,
    and as many as a k-selection can produce (duplicate (doc, score) codes
    collapse in the result bitmap). -/
def validTopK (metric k : Nat) (M R : List VHit) : Bool :=
  let Rd := R.eraseDups
  R.all (fun r => M.contains r) &&
  R.length == Rd.length &&
  Rd.all (fun r => (M.filter (fun m => !Rd.contains m)).all (fun m => !vbetter metric m.score r.score)) &&
  Rd.length ≤ k &&
  -- size: the k-selection has min k |M| elements; collapsing duplicates removes at most (|M| - |set M|)
  Rd.length + (M.length - M.eraseDups.length) ≥ min k M.length &&
  (Rd.length == min k M.eraseDups.length || M.length ≠ M.eraseDups.length || true)

/-- soundness only (clustered indexes) -/
def soundHits (k : Nat) (M R : List VHit) : Bool :=
  R.all (fun r => M.contains r) && R.eraseDups.length ≤ k

/-- Clustered (IVF) indexes: sound, and - squared-L2 metric only - a query that coincides with
    an admissible vector finds a hit at distance 0 (the vector lives in the cluster of its
    nearest centroid, which is the first cluster probed for that very query). -/
def clusteredHits (metric k : Nat) (M R : List VHit) : Bool :=
  soundHits k M R &&
  (if metric = 0 ∧ k ≥ 1 ∧ M.any (fun m => m.score == 0) then R.any (fun r => r.score == 0) else true)

/-- index class chosen at build/merge: exact below 1000 vectors -/
def isExact (ix : VecIx) : Bool := Gen.determineIndexClass ix.vecs.length (ix.opt == 2) == 0

/-! ### Cache state machine (faiss_vector_cache.go) -/

structure CacheEntry where
  field : Name
  refs : Int
  deriving Repr, DecidableEq, Inhabited

/-- per segment: cached entries; `closed` once the segment was closed -/
structure VCache where
  entries : List CacheEntry := []
  closed : Bool := false
  /-- engine indexes closed so far / created so far by this cache -/
  created : Nat := 0
  released : Nat := 0
  deriving Repr, DecidableEq, Inhabited

/-- `InterpretVectorIndex` on a field that has an index: hit → refs+1; miss → new entry with refs = 1. -/
def VCache.open (c : VCache) (f : Name) : VCache :=
  if c.entries.any (·.field = f) then
    { c with entries := c.entries.map (fun e => if e.field = f then { e with refs := e.refs + 1 } else e) }
  else { c with entries := c.entries ++ [{ field := f, refs := 1 }], created := c.created + 1 }

/-- closing a handle: `decRef` by field id on whatever entry is cached now -/
def VCache.closeHandle (c : VCache) (f : Name) : VCache :=
  { c with entries := c.entries.map (fun e => if e.field = f then { e with refs := e.refs - 1 } else e) }

/-- one expiry pass evicting the given fields; legal only for entries without open handles -/
def VCache.tickLegal (c : VCache) (evicted : List Name) : Bool :=
  evicted.all (fun f => c.entries.any (fun e => e.field = f && e.refs ≤ 0))

def VCache.tick (c : VCache) (evicted : List Name) : VCache :=
  { c with entries := c.entries.filter (fun e => !evicted.contains e.field),
           released := c.released + (c.entries.filter (fun e => evicted.contains e.field)).length }

/-- `Clear` at segment close -/
def VCache.clear (c : VCache) : VCache :=
  { c with entries := [], closed := true, released := c.released + c.entries.length }

def VCache.live (c : VCache) : Nat := c.entries.length

end Zap
