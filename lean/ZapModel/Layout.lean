/-
  ZapModel.Layout: an INDEPENDENT decoder of real .zap (v16) segment files, written from
  the documented layout (/repo/zap.md, /repo/README.md) and used by the `dumpfile`
  command (property C09: every file produced by Persist or Merge can be decoded by a
  reader written only from the documented layout and decodes to exactly the content
  that went in).

  What is decoded here, natively, from the bytes of the file:
    footer, CRC-32, sections index, field records, section records, postings records,
    chunk tables, freq/norm entries, location entries, doc-value framing + snappy,
    stored-field index / meta / snappy data, 1-hit FST values, synonym codes, the
    synonym term table, the vector id -> doc map.  (snappy and the doc-value framing
    are decoded by linear array-based decoders below and, on blocks up to
    `crossCheckMax` bytes, cross-checked against `Codec.snappyDecode` /
    `Codec.contentDecode`, the list-based ones the codec proofs are about.)
  What is taken from an oracle (the harness decodes it with the real library and offers
  it as a `Blob`; this decoder computes the blob's offset and length itself and looks it
  up - a miss is a failure, so the harness cannot steer the result):
    vellum FSTs (`fst`: key/value pairs), roaring bitmaps (`r32`), roaring64 bitmaps
    (`r64`), the vector engine's index bytes (`faiss`, opaque: presence only).

  ------------------------------------------------------------------------------------
  LAYOUT FACTS NOT STATED IN zap.md (each resolved by reading the pinned WRITER code;
  the reader code - segment.go load*, posting.go, docvalues.go - was not consulted for
  the layout).  "README" = /repo/README.md.
  ------------------------------------------------------------------------------------
   F1  Footer is 52 bytes, big-endian: D# u64 | SF u64 | F u64 | S u64 | FDV u64 | CF u32 |
       V u32 | CC u32.  zap.md draws S; README's footer list omits it.  In v16 the
       writer always stores F = S and FDV = 0 (write.go persistFooter callers:
       merge.go:84, build.go InitSegmentBase).  CC = CRC-32/IEEE of all preceding bytes.
   F2  CF ("chunk factor") is a chunk MODE, not a size: the chunk size of a postings
       list is getChunkSize(CF, cardinality of the list, D#) (chunk.go): CF <= 1024
       literal; 1025: D# if cardinality <= 1024 else 1024; 1026: D# / (cardinality/1024+1).
   F3  Sections index at S: uvarint NF FIRST, then NF u64 addresses (zap.md draws NF
       last); it ends exactly at the footer (write.go persistFieldsSection).
   F4  Field record (at an address of the sections index): uvarint nameLen, name,
       uvarint NS, then NS x (u16 type, u64 address).  zap.md draws the parts in the
       opposite order and the address before the type.  Address 0 = section absent.
       Types: 0 inverted text, 1 vector, 2 synonym (section.go iota).  The pairs come in
       Go map order.  NS is 2 without the `vectors` build tag, 3 with it.
   F5  Inverted section record: uvarint dvStart, uvarint dvEnd, uvarint dictLoc - the
       third uvarint is the ADDRESS of the dictionary (zap.md draws "DV Start | DV End |
       Length | VELLUM" as if contiguous).  At dictLoc: uvarint length + vellum bytes.
       Not uninverted: dvStart = dvEnd = 2^64-1 (section_inverted_text_index.go writeDicts,
       mergeAndPersistInvertedSection).
   F6  FST values: top two bits 00 = offset of a postings record; 10 = "1-hit": the term
       occurs in one document with frequency 1 and no locations; doc = low 31 bits, norm
       bits = next 31 bits.  Not documented at all (merge.go writePostings,
       use1HitEncoding; only Merge produces it).
   F7  Postings record: uvarint freqOffset, uvarint locOffset, uvarint roaringLen,
       roaring bytes (README has this; zap.md's picture agrees).  An offset of 0 means
       "stream not written" (intcoder.go writeAt: empty stream); the freq/norm stream is
       never empty for a non-empty list.  The writer emits freq/norm stream, location
       stream and record back to back (merge.go writePostings) - checked here.
   F8  Chunked stream: uvarint numChunks, numChunks uvarint END offsets (README says
       "length of each chunk"; intcoder.go modifyLengthsToEndOffsets), then the data.
       Chunk c holds the entries of the documents with doc / chunkSize = c, chunks
       without documents are empty.
   F9  Freq/norm entry: uvarint (freq << 1 | hasLocs); then uvarint norm (float32 bits)
       ONLY IF freq != 0 (README: "encode term frequency, encode norm factor").
   F10 Location entries of one document (only documents with hasLocs): uvarint
       numLocsBytes (zap.md "Size"), then locations until that many bytes are consumed:
       fieldID, pos, start, end, numArrayPos, arrayPos... (zap.md omits fieldID, README
       has it).
   F11 Stored document record: uvarint metaLen, uvarint dataLen, meta, data.  Meta is a
       uvarint stream that STARTS WITH idLen (undocumented), then per value: fieldID,
       type, offset, length, numArrayPos, arrayPos...  Data = the raw `_id` bytes
       (idLen, NOT compressed, no meta entry) ++ snappy(all other values); dataLen
       covers both; offsets index the uncompressed non-id data (new.go writeStoredFields,
       build.go persistStoredFieldValues, merge.go mergeStoredAndRemap).
   F12 Doc values [dvStart, dvEnd): chunk data ++ uvarint chunk END offsets ++ u64
       byte length of those offsets ++ u64 number of chunks (contentcoder.go Write).
       Chunk: uvarint numDocs, numDocs x (uvarint doc, uvarint END offset), snappy data.
       A document's value is its terms, each FOLLOWED by 0xff.  The doc-value chunk
       size (zap.LegacyChunkMode, 1024) is not recorded in the file, so chunk membership
       cannot be checked for doc values (ascending docs < D# is).
   F13 Synonym section record: uvarint 2^64-1, uvarint 2^64-1, uvarint thesLoc.  At
       thesLoc: uvarint length + vellum; FST value = offset of (uvarint length +
       roaring64 bytes); code = synonymID << 32 | doc.  The term table (uvarint count,
       then (uvarint id, uvarint len, bytes)* in Go map order) follows the vellum bytes
       and is OMITTED ENTIRELY (zero bytes, no count) when it is empty
       (section_synonym_index.go writeSynTermMap); the section record follows the table
       immediately, which is how "absent" is told from "present" here.
   F14 Vector section record: uvarint 2^64-1, uvarint 2^64-1, uvarint optimisation type
       (0 recall, 1 latency, 2 memory-efficient), uvarint numVecs, numVecs x (zig-zag
       varint vecID, uvarint docID), uvarint indexSize, index bytes.  zap.md has no
       picture of it (section_faiss_vector_index.go writeVectorIndexes,
       flushSectionMetadata, flushVectorIndex).
   F15 README's "fields section", "fields idx", "fields DocValue" and "dictionary address
       in the fields section" describe the pre-sections (v15) layout; nothing of it is
       written in v16.
   F16 Quirk: a segment with D# = 0 and nothing written before the fields section has
       its first field record at file offset 0 (which the shipped reader takes for
       "absent").  This decoder decodes what the bytes say (all NF records).
   F17 Found with this decoder (defect D9, fixed in /repo): in a segment BUILT from an empty
       batch the record at offset 0 (`_id`) carried a non-zero, dangling inverted-section
       address (e.g. 0x125 in an 86-byte file): `invertedIndexOpaque.Reset` did not clear
       `fieldAddrs`, `writeDicts` returns early for an empty batch, so `AddrForField` handed
       out the address left behind by the previous build that used the pooled `interim`.  The
       shipped reader never follows it (F16); a reader written from the documented layout
       does.  This decoder follows every non-zero section address.
   F18 Synonym ids are file-local names: one counter per batch over ALL thesauri in New
       (`sidNext`), one per field in Merge.  The comparison with the model is therefore
       modulo renaming (codes are resolved to (synonym term, doc) through the file's own
       table; ids must be unique in a table).
   F19 Normalisation (decided with the model's owner): Merge skips every input thesaurus
       whose FST is empty (vellum hands out no iterator for an empty FST), so re-merging
       a segment whose thesaurus lost all its terms DROPS the synonym section, while the
       model (`mergeThes`) keeps an empty thesaurus record.  Same content: a thesaurus
       with no LHS terms is treated as absent on BOTH sides before comparing.
   F20 Vector sections are compared on `opt` and the multiset of documents only (metric,
       dimension, vectors live in the opaque engine blob).  For a MERGED section the file
       records the optimisation type of the FIRST input (flushSectionMetadata:
       indexes[0]) although the index is built for the LAST one; the model records the
       last.  They differ only if inputs disagree on `opt` for one field, which no
       generator produces (zapx assumes it cannot happen).
-/
import ZapModel.Writer
import ZapModel.Types
import ZapModel.Codec
import ZapModel.Gen.Pure
import Std.Data.HashMap

namespace Zap.Layout
open Zap

/-- An external-library structure located in the file by the harness. -/
structure Blob where
  off : Nat
  len : Nat
  kind : String                       -- fst | r32 | r64 | faiss
  fst : List (Bytes × Nat) := []      -- kind = fst: (key, value) in FST order
  nums : List Nat := []               -- kind = r32 / r64: members in iteration order
  deriving Repr, Inhabited

abbrev R := Except String

def u64max : Nat := 2 ^ 64 - 1

/-! ### small helpers (local: this module must not import Script / Driver) -/

def hexDigit (n : Nat) : Char := if n < 10 then Char.ofNat (48 + n) else Char.ofNat (87 + n)

def hx (b : Bytes) : String :=
  if b.isEmpty then "." else String.ofList (b.flatMap (fun x => [hexDigit (x / 16), hexDigit (x % 16)]))

def toBA (bs : Bytes) : ByteArray := ByteArray.mk (bs.toArray.map (fun x => UInt8.ofNat x))

def ofBA (b : ByteArray) : Bytes := b.toList.map (·.toNat)

def ascNat : List Nat → Bool
  | a :: b :: rest => a < b && ascNat (b :: rest)
  | _ => true

def ascKeys : List Bytes → Bool
  | a :: b :: rest => Bytes.lt a b && ascKeys (b :: rest)
  | _ => true

/-! ### byte-level readers -/

/-- uvarint at `pos` that must end before `lim` (Go's `binary.Uvarint`: at most 10 bytes,
    the 10th at most 1).  Returns (value, next position). -/
def uvLim (b : ByteArray) (pos lim : Nat) : R (Nat × Nat) :=
  let rec go (fuel pos sh acc : Nat) : R (Nat × Nat) :=
    match fuel with
    | 0 => throw s!"uvarint longer than 10 bytes at offset {pos}"
    | fuel + 1 =>
      if pos ≥ lim ∨ pos ≥ b.size then throw s!"uvarint runs past the end of its region at offset {pos}"
      else
        let x := (b.get! pos).toNat
        if x < 128 then
          if fuel = 0 ∧ x > 1 then throw s!"uvarint overflows 64 bits at offset {pos}"
          else pure (acc + (x <<< sh), pos + 1)
        else go fuel (pos + 1) (sh + 7) (acc + ((x - 128) <<< sh))
  go 10 pos 0 0

def uv (b : ByteArray) (pos : Nat) : R (Nat × Nat) := uvLim b pos b.size

/-- Big-endian unsigned integer of `n` bytes. -/
def be (b : ByteArray) (pos n : Nat) : R Nat :=
  if pos + n > b.size then throw s!"{n}-byte integer at offset {pos} runs past the end of the file"
  else pure ((List.range n).foldl (fun a i => a * 256 + (b.get! (pos + i)).toNat) 0)

def slice (b : ByteArray) (pos len : Nat) : R Bytes :=
  if pos + len > b.size then throw s!"{len} bytes at offset {pos} run past the end of the file"
  else pure (ofBA (b.extract pos (pos + len)))

/-- All uvarints of a byte string; a truncated tail is an error. -/
def uvAll (what : String) (bs : Bytes) : R (List Nat) :=
  let rec go (fuel : Nat) (bs : Bytes) (acc : Array Nat) : R (List Nat) :=
    match fuel with
    | 0 => pure acc.toList
    | fuel + 1 =>
      match bs with
      | [] => pure acc.toList
      | _ => match Codec.uvarint bs with
        | none => throw s!"{what}: truncated uvarint"
        | some (v, rest) => go fuel rest (acc.push v)
  go (bs.length + 1) bs #[]

/-! ### snappy and the doc-value framing, array based

`Codec.snappyDecode` / `Codec.contentDecode` are list based and quadratic in the size of
the uncompressed block (fine for the proofs, too slow for 1024-document doc-value
chunks).  The decoders below are linear; on small inputs (`crossCheckMax`) their result
is compared with the `Codec` ones, so that every small test file also ties the two. -/

def crossCheckMax : Nat := 512

def leAt (b : ByteArray) (pos n : Nat) : Nat :=
  (List.range n).foldr (fun i a => (b.get! (pos + i)).toNat + 256 * a) 0

/-- Snappy block format (https://github.com/google/snappy/blob/main/format_description.txt)
    in [pos, lim): uvarint uncompressed length, then literal / copy elements. -/
def snappyFast (b : ByteArray) (pos lim : Nat) : R ByteArray := do
  if lim > b.size then throw s!"snappy block [{pos},{lim}) runs past the end of the file"
  let (n, p0) ← uvLim b pos lim
  if n > 2 ^ 32 then throw s!"snappy block at {pos}: uncompressed length {n} too large"
  let mut out := ByteArray.emptyWithCapacity n
  let mut p := p0
  for _ in [0:lim - pos] do
    if p ≥ lim then break
    let tag := (b.get! p).toNat
    if tag % 4 = 0 then
      let l := tag / 4
      let mut len := l + 1
      let mut q := p + 1
      if l ≥ 60 then
        let nb := l - 59
        if p + 1 + nb > lim then throw s!"snappy block at {pos}: literal length runs past the block"
        len := leAt b (p + 1) nb + 1
        q := p + 1 + nb
      if q + len > lim then throw s!"snappy block at {pos}: literal runs past the block"
      for k in [0:len] do
        out := out.push (b.get! (q + k))
      p := q + len
    else
      let mut len := 0
      let mut off := 0
      let mut q := p
      if tag % 4 = 1 then
        if p + 2 > lim then throw s!"snappy block at {pos}: copy element runs past the block"
        len := 4 + (tag / 4) % 8
        off := (tag / 32) * 256 + (b.get! (p + 1)).toNat
        q := p + 2
      else if tag % 4 = 2 then
        if p + 3 > lim then throw s!"snappy block at {pos}: copy element runs past the block"
        len := tag / 4 + 1
        off := leAt b (p + 1) 2
        q := p + 3
      else
        if p + 5 > lim then throw s!"snappy block at {pos}: copy element runs past the block"
        len := tag / 4 + 1
        off := leAt b (p + 1) 4
        q := p + 5
      if off = 0 ∨ off > out.size then throw s!"snappy block at {pos}: copy offset {off} outside the {out.size} bytes produced"
      for _ in [0:len] do
        out := out.push (out.get! (out.size - off))
      p := q
  if out.size ≠ n then throw s!"snappy block at {pos}: produced {out.size} bytes, header says {n}"
  if lim - pos ≤ crossCheckMax then
    match Codec.snappyDecode (ofBA (b.extract pos lim)) with
    | some r => if r ≠ ofBA out then throw s!"snappy block at {pos}: Codec.snappyDecode disagrees with the array decoder"
    | none => throw s!"snappy block at {pos}: Codec.snappyDecode rejects what the array decoder accepts"
  return out

/-- Doc-value region [s, e) (F12): per chunk the (doc, value) pairs. -/
def contentFast (b : ByteArray) (s e : Nat) : R (List (List (Nat × Bytes))) := do
  if e < s ∨ e > b.size then throw s!"doc values [{s},{e}) outside the file"
  if e - s < 16 then throw s!"doc values [{s},{e}): shorter than the 16-byte trailer"
  let nChunks ← be b (e - 8) 8
  let offLen ← be b (e - 16) 8
  if offLen + 16 > e - s then throw s!"doc values [{s},{e}): chunk offsets ({offLen} bytes) do not fit"
  if nChunks > offLen then throw s!"doc values [{s},{e}): {nChunks} chunks cannot have {offLen} bytes of offsets"
  let offsStart := e - 16 - offLen
  let mut p := offsStart
  let mut offs : Array Nat := Array.mkEmpty nChunks
  let mut prev := 0
  for _ in [0:nChunks] do
    let (o, p') ← uvLim b p (e - 16)
    if o < prev then throw s!"doc values [{s},{e}): chunk end offsets decrease"
    offs := offs.push o
    prev := o
    p := p'
  if p ≠ e - 16 then throw s!"doc values [{s},{e}): chunk offsets do not fill their declared {offLen} bytes"
  if prev ≠ offsStart - s then throw s!"doc values [{s},{e}): chunks end at {prev}, data is {offsStart - s} bytes"
  let mut out : Array (List (Nat × Bytes)) := Array.mkEmpty nChunks
  for ci in [0:nChunks] do
    let st := if ci = 0 then 0 else offs[ci - 1]!
    let en := offs[ci]!
    if st ≥ en then
      out := out.push []
    else
      let lim := s + en
      let (nd, q0) ← uvLim b (s + st) lim
      if nd > en - st then throw s!"doc values [{s},{e}): chunk {ci}: {nd} documents do not fit"
      let mut q := q0
      let mut metas : Array (Nat × Nat) := Array.mkEmpty nd
      for _ in [0:nd] do
        let (d, q1) ← uvLim b q lim
        let (o, q2) ← uvLim b q1 lim
        metas := metas.push (d, o)
        q := q2
      let raw ← snappyFast b q lim
      let mut start := 0
      let mut vals : Array (Nat × Bytes) := Array.mkEmpty nd
      for m in metas do
        if m.2 < start ∨ m.2 > raw.size then throw s!"doc values [{s},{e}): chunk {ci}: value of doc {m.1} ends at {m.2}, outside [{start},{raw.size}]"
        vals := vals.push (m.1, ofBA (raw.extract start m.2))
        start := m.2
      if start ≠ raw.size then throw s!"doc values [{s},{e}): chunk {ci}: {raw.size - start} bytes belong to no document"
      out := out.push vals.toList
  if e - s ≤ crossCheckMax then
    match Codec.contentDecode (ofBA (b.extract s e)) with
    | some r => if r ≠ out.toList then throw s!"doc values [{s},{e}): Codec.contentDecode disagrees with the array decoder"
    | none => throw s!"doc values [{s},{e}): Codec.contentDecode rejects what the array decoder accepts"
  return out.toList

/-! ### decoding context -/

structure Ctx where
  b : ByteArray
  blobs : Std.HashMap (Nat × Nat × String) Blob
  numDocs : Nat
  chunkMode : Nat
  /-- second pass only: read on past finding K1 (missing NST) so that the rest of the file is still judged -/
  pastK1 : Bool := false

def Ctx.blob (c : Ctx) (off len : Nat) (kind : String) : R Blob :=
  match c.blobs.get? (off, len, kind) with
  | some bl => pure bl
  | none => throw s!"the layout puts a {kind} structure at [{off},{off + len}) but the library found none there"

/-! ### chunked streams (F8) -/

structure Chunks where
  n : Nat
  offs : Array Nat       -- END offsets
  data : Nat             -- absolute offset of the data

def Chunks.start (c : Chunks) (k : Nat) : Nat := if k = 0 then 0 else c.offs[k - 1]!
def Chunks.stop (c : Chunks) (k : Nat) : Nat := c.offs[k]!
def Chunks.total (c : Chunks) : Nat := if c.n = 0 then 0 else c.offs[c.n - 1]!
def Chunks.endAbs (c : Chunks) : Nat := c.data + c.total

def readChunks (what : String) (b : ByteArray) (pos : Nat) : R Chunks := do
  let (n, p) ← uv b pos
  if n > b.size then throw s!"{what}: chunk count {n} exceeds the file size"
  let mut p := p
  let mut offs : Array Nat := Array.mkEmpty n
  let mut prev := 0
  for _ in [0:n] do
    let (o, p') ← uv b p
    if o < prev then throw s!"{what}: chunk end offsets decrease"
    offs := offs.push o
    prev := o
    p := p'
  if p + prev > b.size then throw s!"{what}: chunk data runs past the end of the file"
  return { n := n, offs := offs, data := p }

/-- Decode one item per document of `docs` (ascending) from the chunks: every item
    must lie in the chunk `doc / cs`, every chunk must be consumed exactly by the items
    of its documents, chunks without documents must be empty. -/
def walkChunks {α : Type} (what : String) (ch : Chunks) (cs : Nat) (docs : List Nat)
    (dec : Nat → Nat → Nat → R (α × Nat)) : R (List α) := do
  if cs = 0 then throw s!"{what}: chunk size 0"
  let mut ci := 0
  let mut cur := ch.data
  let mut lim := ch.data + (if ch.n = 0 then 0 else ch.stop 0)
  let mut out : Array α := #[]
  for d in docs do
    let c := d / cs
    if c ≥ ch.n then throw s!"{what}: doc {d} belongs to chunk {c} but the table has {ch.n} chunks"
    if c ≠ ci then
      if c < ci then throw s!"{what}: documents not ascending at doc {d}"
      if cur ≠ lim then throw s!"{what}: chunk {ci} holds {lim - cur} bytes that belong to none of its documents"
      if ch.start c ≠ ch.stop ci then throw s!"{what}: a chunk without documents between {ci} and {c} is not empty"
      ci := c
      cur := ch.data + ch.start c
      lim := ch.data + ch.stop c
    let (a, cur') ← dec d cur lim
    out := out.push a
    cur := cur'
  if cur ≠ lim then throw s!"{what}: chunk {ci} holds {lim - cur} bytes beyond the entries of its documents (entries ≠ cardinality)"
  if ch.n > 0 ∧ ch.total ≠ ch.stop ci then throw s!"{what}: chunks after {ci} have no documents but are not empty"
  return out.toList

/-! ### postings (F6, F7, F9, F10) -/

structure FreqItem where
  doc : Nat
  freq : Nat
  norm : Nat
  hasLocs : Bool

def decFreq (b : ByteArray) (doc cur lim : Nat) : R (FreqItem × Nat) := do
  let (v, p) ← uvLim b cur lim
  let freq := v / 2
  let hasLocs := v % 2 == 1
  if freq ≠ 0 then
    let (nb, p) ← uvLim b p lim
    return ({ doc := doc, freq := freq, norm := nb, hasLocs := hasLocs }, p)
  else
    return ({ doc := doc, freq := 0, norm := 0, hasLocs := hasLocs }, p)

def decLocs (b : ByteArray) (doc cur lim : Nat) : R (List MLoc × Nat) := do
  let (nbytes, p0) ← uvLim b cur lim
  let fin := p0 + nbytes
  if fin > lim then throw s!"locations of doc {doc} ({nbytes} bytes) overrun their chunk"
  let mut p := p0
  let mut out : Array MLoc := #[]
  for _ in [0:nbytes] do
    if p ≥ fin then break
    let (fid, p1) ← uvLim b p fin
    let (pos, p2) ← uvLim b p1 fin
    let (st, p3) ← uvLim b p2 fin
    let (en, p4) ← uvLim b p3 fin
    let (nap, p5) ← uvLim b p4 fin
    if nap > nbytes then throw s!"locations of doc {doc}: {nap} array positions do not fit"
    let mut q := p5
    let mut aps : Array Nat := #[]
    for _ in [0:nap] do
      let (a, q') ← uvLim b q fin
      aps := aps.push a
      q := q'
    out := out.push { fid := fid, pos := pos, start := st, stop := en, ap := aps.toList }
    p := q
  if p ≠ fin then throw s!"locations of doc {doc} do not end at their declared size"
  return (out.toList, fin)

def firstByteDiff : List Nat → List Nat → Nat → Nat
  | x :: xs, y :: ys, i => if x = y then firstByteDiff xs ys (i + 1) else i
  | _, _, i => i

def decPostings (c : Ctx) (off : Nat) : R (List Entry) := do
  let b := c.b
  let (fo, p) ← uv b off
  let (lo, p) ← uv b p
  let (rl, p) ← uv b p
  let bm ← c.blob p rl "r32"
  let docs := bm.nums
  if !ascNat docs then throw s!"postings record {off}: roaring members not strictly ascending"
  let card := docs.length
  if card = 0 then throw s!"postings record {off}: empty bitmap"
  let cs ← match Gen.getChunkSize c.chunkMode card c.numDocs with
    | .ok cs => pure cs
    | .error e => throw s!"postings record {off}: chunk size: {e}"
  if fo = 0 then throw s!"postings record {off}: freq/norm stream absent for {card} documents"
  let fch ← readChunks s!"freq/norm stream {fo}" b fo
  let fs ← walkChunks s!"freq/norm stream {fo} (record {off}, chunk size {cs})" fch cs docs (decFreq b)
  let locDocs := (fs.filter (·.hasLocs)).map (·.doc)
  let ls ←
    if lo = 0 then
      if !locDocs.isEmpty then throw s!"postings record {off}: documents flagged hasLocs but no location stream"
      if fch.endAbs ≠ off then throw s!"postings record {off}: freq/norm stream ends at {fch.endAbs}, not at the record"
      pure []
    else do
      let lch ← readChunks s!"location stream {lo}" b lo
      if fch.endAbs ≠ lo then throw s!"postings record {off}: freq/norm stream ends at {fch.endAbs}, location stream starts at {lo}"
      if lch.endAbs ≠ off then throw s!"postings record {off}: location stream ends at {lch.endAbs}, not at the record"
      walkChunks s!"location stream {lo} (record {off}, chunk size {cs})" lch cs locDocs (decLocs b)
  let mut rest := ls
  let mut out : Array Entry := #[]
  for f in fs do
    if f.hasLocs then
      match rest with
      | l :: r =>
        out := out.push { doc := f.doc, freq := f.freq, norm := f.norm, locs := l }
        rest := r
      | [] => throw s!"postings record {off}: missing locations for doc {f.doc}"
    else
      out := out.push { doc := f.doc, freq := f.freq, norm := f.norm, locs := [] }
  -- writer model tie: the bytes of the two streams and of the record are exactly what
  -- `Writer.writePostings` (the model of the Go writers the round-trip theorems are about)
  -- emits for the decoded entries at this position of the file
  let es := out.toList
  let roaring ← slice b p rl
  let w := Writer.writePostings fo cs (c.numDocs - 1) es roaring
  let got ← slice b fo (p + rl - fo)
  if w.postingsOffset ≠ off ∨ w.tfOffset ≠ fo ∨ w.locOffset ≠ lo then
    throw s!"postings record {off}: the writer model puts the record at {w.postingsOffset} with streams at {w.tfOffset}/{w.locOffset}, the file has {off} with {fo}/{lo}"
  if w.bytes ≠ got then
    throw s!"postings record {off}: the bytes [{fo},{p + rl}) differ from what the writer model emits for the decoded entries (first difference at +{(firstByteDiff w.bytes got 0)})"
  return es

def decDict (c : Ctx) (dictLoc : Nat) : R (List (Bytes × PostRep)) := do
  let (vl, p) ← uv c.b dictLoc
  let f ← c.blob p vl "fst"
  if !ascKeys (f.fst.map (·.1)) then throw s!"dictionary at {dictLoc}: FST keys not strictly ascending"
  f.fst.mapM (fun kv => do
    let v := kv.2
    let top := v >>> 62
    if top = 2 then
      pure (kv.1, PostRep.oneHit (v % 2 ^ 31) ((v >>> 31) % 2 ^ 31))
    else if top = 0 then
      let es ← decPostings c v
      pure (kv.1, PostRep.general es)
    else throw s!"dictionary at {dictLoc}: term {hx kv.1}: FST value {v} has unknown encoding bits")

/-! ### doc values (F12) -/

/-- Terms each followed by 0xff. -/
def splitFF (bs : Bytes) : Option (List Bytes) :=
  let r := bs.foldl (fun (acc : Array Bytes × Array Nat) x =>
    if x = 255 then (acc.1.push acc.2.toList, #[]) else (acc.1, acc.2.push x)) (#[], #[])
  if r.2.isEmpty then some r.1.toList else none

def joinFF (ts : List Bytes) : Bytes := ts.flatMap (fun t => t ++ [255])

def decDV (c : Ctx) (s e : Nat) : R (List (Nat × List Bytes)) := do
  if e < s then throw s!"doc values: end {e} before start {s}"
  let chunks ← contentFast c.b s e
  let all := chunks.flatten
  if !ascNat (all.map (·.1)) then throw s!"doc values [{s},{e}): documents not strictly ascending"
  if all.any (fun p => p.1 ≥ c.numDocs) then throw s!"doc values [{s},{e}): document number ≥ numDocs"
  all.mapM (fun p => match splitFF p.2 with
    | some ts => pure (p.1, ts)
    | none => throw s!"doc values [{s},{e}): value of doc {p.1} does not end with the 0xff separator")

def decInverted (c : Ctx) (addr : Nat) : R (List (Bytes × PostRep) × Option (List (Nat × List Bytes))) := do
  let (dvs, p) ← uv c.b addr
  let (dve, p) ← uv c.b p
  let (dl, _) ← uv c.b p
  let terms ← decDict c dl
  if dvs = u64max ∧ dve = u64max then return (terms, none)
  if dvs = u64max ∨ dve = u64max then throw s!"inverted section {addr}: only one doc-value offset is 'not uninverted'"
  let dv ← decDV c dvs dve
  return (terms, some dv)

/-! ### stored fields (F11) -/

def decStoredDoc (c : Ctx) (doc off : Nat) : R StoredDoc := do
  let b := c.b
  let (ml, p) ← uv b off
  let (dl, p) ← uv b p
  let metaBytes ← slice b p ml
  if p + ml + dl > b.size then throw s!"stored doc {doc}: data runs past the end of the file"
  let ms ← uvAll s!"stored doc {doc} meta" metaBytes
  match ms with
  | [] => throw s!"stored doc {doc}: empty meta (no id length)"
  | idLen :: groups =>
    if idLen > dl then throw s!"stored doc {doc}: id length {idLen} exceeds data length {dl}"
    let id ← slice b (p + ml) idLen
    let rawB ← snappyFast b (p + ml + idLen) (p + ml + dl)
    let rawA := (ofBA rawB).toArray
    let rec go (fuel : Nat) (g : List Nat) (acc : Array StoredVal) : R (List StoredVal) :=
      match fuel with
      | 0 => pure acc.toList
      | fuel + 1 =>
        match g with
        | [] => pure acc.toList
        | fid :: typ :: o :: l :: nap :: rest =>
          if rest.length < nap then throw s!"stored doc {doc}: meta truncated inside array positions"
          else if o + l > rawA.size then throw s!"stored doc {doc}: value [{o},{o + l}) outside the {rawA.size} uncompressed bytes"
          else go fuel (rest.drop nap)
                 (acc.push { fid := fid, typ := typ, val := (rawA.extract o (o + l)).toList, ap := rest.take nap })
        | _ => throw s!"stored doc {doc}: meta truncated"
    let vals ← go (groups.length + 1) groups #[]
    return { id := id, vals := vals }

/-- `decStoredDoc` plus the writer model tie: with the compressed block taken from the file,
    `Writer.encodeStoredDoc` reproduces the document's bytes (both lengths, meta, id), and the
    uncompressed block is exactly the concatenation of the values. -/
def decStoredDocTied (c : Ctx) (doc off : Nat) : R StoredDoc := do
  let sd ← decStoredDoc c doc off
  let b := c.b
  let (ml, p) ← uv b off
  let (dl, p) ← uv b p
  let idLen := sd.id.length
  let comp ← slice b (p + ml + idLen) (dl - idLen)
  let got ← slice b off (p + ml + dl - off)
  if Writer.encodeStoredDoc (fun _ => comp) sd ≠ got then
    throw s!"stored doc {doc}: the bytes [{off},{p + ml + dl}) differ from what the writer model emits for the decoded document"
  let rawB ← snappyFast b (p + ml + idLen) (p + ml + dl)
  if Writer.storedData sd.vals ≠ ofBA rawB then
    throw s!"stored doc {doc}: the uncompressed block is not the concatenation of the values"
  return sd

def decStored (c : Ctx) (sio : Nat) : R (List StoredDoc) := do
  let mut out : Array StoredDoc := #[]
  for i in [0:c.numDocs] do
    let off ← be c.b (sio + 8 * i) 8
    let d ← decStoredDocTied c i off
    out := out.push d
  return out.toList

/-! ### synonyms (F13) -/

def decThes (c : Ctx) (addr : Nat) : R Thes := do
  let b := c.b
  let (a1, p) ← uv b addr
  let (a2, p) ← uv b p
  if a1 ≠ u64max ∨ a2 ≠ u64max then throw s!"synonym section {addr}: doc-value offsets are not 2^64-1"
  let (tl, _) ← uv b p
  let (vl, p) ← uv b tl
  let f ← c.blob p vl "fst"
  if !ascKeys (f.fst.map (·.1)) then throw s!"thesaurus at {tl}: FST keys not strictly ascending"
  let terms ← f.fst.mapM (fun kv => do
    let (rl, q) ← uv b kv.2
    let bm ← c.blob q rl "r64"
    if !ascNat bm.nums then throw s!"thesaurus at {tl}: term {hx kv.1}: roaring64 members not strictly ascending"
    if bm.nums.isEmpty then throw s!"thesaurus at {tl}: term {hx kv.1}: empty bitmap"
    pure (kv.1, bm.nums.map (fun code => (code >>> 32, code % 2 ^ 32))))
  let tpos := p + vl
  if tpos > addr then throw s!"thesaurus at {tl}: FST ends at {tpos}, after its section record {addr}"
  -- the documented layout shows the count NST of the id table in every thesaurus; the writer emits
  -- nothing at all for an EMPTY table (finding K1: listed in KNOWN_FINDINGS.txt, not repaired)
  if tpos = addr then
    if c.pastK1 then return { terms := terms, table := [] }
    else throw s!"K1-NST-MISSING thesaurus at {tl}: the id-to-term table is empty and its count field (NST) is not written"

  let (cnt, q0) ← uv b tpos
  if cnt > b.size then throw s!"thesaurus at {tl}: term table count {cnt} exceeds the file size"
  let mut q := q0
  let mut tab : Array (Nat × Bytes) := #[]
  for _ in [0:cnt] do
    let (id, q1) ← uv b q
    let (l, q2) ← uv b q1
    let t ← slice b q2 l
    tab := tab.push (id, t)
    q := q2 + l
  if q ≠ addr then throw s!"thesaurus at {tl}: term table ends at {q}, its section record is at {addr}"
  if !ascNat ((tab.toList.map (·.1)).mergeSort (· ≤ ·)) then throw s!"thesaurus at {tl}: term table lists a synonym id twice"
  return { terms := terms, table := tab.toList }

/-! ### vectors (F14) -/

def decVec (c : Ctx) (addr : Nat) : R VecIx := do
  let b := c.b
  let (a1, p) ← uv b addr
  let (a2, p) ← uv b p
  if a1 ≠ u64max ∨ a2 ≠ u64max then throw s!"vector section {addr}: doc-value offsets are not 2^64-1"
  let (opt, p) ← uv b p
  let (nv, p0) ← uv b p
  if nv > b.size then throw s!"vector section {addr}: vector count {nv} exceeds the file size"
  let mut p := p0
  let mut docs : Array Nat := #[]
  for _ in [0:nv] do
    let (_zz, p1) ← uv b p          -- zig-zag varint vector id: opaque, framing = uvarint
    let (d, p2) ← uv b p1
    if d ≥ c.numDocs then throw s!"vector section {addr}: doc {d} ≥ numDocs"
    docs := docs.push d
    p := p2
  let (sz, pIdx) ← uv b p
  let _ ← c.blob pIdx sz "faiss"
  return { dim := 0, metric := 0, opt := opt, vecs := docs.toList.map (fun d => (d, [])) }

/-! ### field records, footer (F1, F3, F4) -/

def decField (c : Ctx) (addr : Nat) : R FieldM := do
  let b := c.b
  let (nl, p) ← uv b addr
  let name ← slice b p nl
  let (ns, p) ← uv b (p + nl)
  if ns > b.size then throw s!"field record {addr}: section count {ns} exceeds the file size"
  let mut fm : FieldM := { name := name }
  let mut seen : List Nat := []
  for j in [0:ns] do
    let typ ← be b (p + 10 * j) 2
    let sa ← be b (p + 10 * j + 2) 8
    if seen.contains typ then throw s!"field record {addr}: section type {typ} listed twice"
    seen := typ :: seen
    if sa ≠ 0 then
      if typ = 0 then
        let (terms, dv) ← decInverted c sa
        fm := { fm with terms := terms, dv := dv }
      else if typ = 1 then
        let v ← decVec c sa
        fm := { fm with vec := some v }
      else if typ = 2 then
        let t ← decThes c sa
        fm := { fm with thes := some t }
      else throw s!"field record {addr}: unknown section type {typ}"
  return fm

def footerSize : Nat := 52

def decodeBA (b : ByteArray) (blobs : List Blob) (pastK1 : Bool := false) : R Seg := do
  let n := b.size
  if n < footerSize then throw s!"file of {n} bytes is shorter than the footer"
  let f := n - footerSize
  let numDocs ← be b f 8
  let sio ← be b (f + 8) 8
  let fio ← be b (f + 16) 8
  let secio ← be b (f + 24) 8
  let dvo ← be b (f + 32) 8
  let cm ← be b (f + 40) 4
  let ver ← be b (f + 44) 4
  let crc ← be b (f + 48) 4
  if ver ≠ 16 then throw s!"footer: version {ver}, expected 16"
  let crcWant := Codec.crc32 (ofBA (b.extract 0 (n - 4)))
  if crcWant ≠ crc then throw s!"footer: CRC {crc} but the preceding bytes have CRC-32 {crcWant}"
  if fio ≠ secio then throw s!"footer: fields index offset {fio} differs from sections index offset {secio}"
  if dvo ≠ 0 then throw s!"footer: doc value offset {dvo}, expected 0"
  if numDocs > n then throw s!"footer: {numDocs} documents cannot fit in {n} bytes"
  if sio + 8 * numDocs > f then throw s!"footer: stored index [{sio},{sio + 8 * numDocs}) overlaps the footer"
  let c : Ctx := { b := b, numDocs := numDocs, chunkMode := cm, pastK1 := pastK1,
                   blobs := blobs.foldl (fun m bl => m.insert (bl.off, bl.len, bl.kind) bl) {} }
  let (nf, p) ← uv b secio
  if p + 8 * nf ≠ f then throw s!"sections index at {secio} with {nf} fields does not end at the footer ({f})"
  let mut fields : Array FieldM := #[]
  for i in [0:nf] do
    let addr ← be b (p + 8 * i) 8
    let fm ← decField c addr
    fields := fields.push fm
  let stored ← decStored c sio
  return { chunkMode := cm, numDocs := numDocs, fields := fields.toList, stored := stored }

/-- Decode a whole segment file from its bytes and the external-library blobs. -/
def decodeFile (bs : Bytes) (blobs : List Blob) : Except String Seg := decodeBA (toBA bs) blobs

/-! ### comparison with the model content -/

def firstIdx {α : Type} (xs ys : List α) (eq : α → α → Bool) : Option Nat :=
  let rec go (i : Nat) : List α → List α → Option Nat
    | [], [] => none
    | x :: xs, y :: ys => if eq x y then go (i + 1) xs ys else some i
    | _, _ => some i
  go 0 xs ys

def locStr (l : MLoc) : String := s!"{l.fid}/{l.pos}/{l.start}/{l.stop}/{l.ap}"

def entryStr (e : Entry) : String :=
  s!"doc {e.doc} freq {e.freq} norm {e.norm} locs [{", ".intercalate (e.locs.map locStr)}]"

def repStr : PostRep → String
  | .general es => s!"general({es.length} entries)"
  | .oneHit d n => s!"1-hit(doc {d}, norm {n})"

def diffRep (want got : PostRep) : Option String :=
  if want = got then none else
  match want, got with
  | .general ws, .general gs =>
    match firstIdx ws gs (· == ·) with
    | none => none
    | some i =>
      match ws[i]?, gs[i]? with
      | some w, some g => some s!"entry {i}: model has {entryStr w}, file has {entryStr g}"
      | some w, none => some s!"entry {i}: model has {entryStr w}, file has no more entries"
      | none, some g => some s!"entry {i}: model has no more entries, file has {entryStr g}"
      | none, none => none
  | _, _ => some s!"model has {repStr want}, file has {repStr got}"

def diffTerms (want got : List (Bytes × PostRep)) : Option String :=
  match want, got with
  | [], [] => none
  | (t, _) :: _, [] => some s!"term {hx t}: in the model, missing in the file"
  | [], (t, _) :: _ => some s!"term {hx t}: in the file, not in the model"
  | (tw, rw) :: ws, (tg, rg) :: gs =>
    if tw ≠ tg then
      if Bytes.lt tw tg then some s!"term {hx tw}: in the model, missing in the file"
      else some s!"term {hx tg}: in the file, not in the model"
    else match diffRep rw rg with
      | some m => some s!"term {hx tw}: {m}"
      | none => diffTerms ws gs

def dvCanon (dv : List (Nat × List Bytes)) : List (Nat × Bytes) := dv.map (fun p => (p.1, joinFF p.2))

def diffDV (want got : Option (List (Nat × List Bytes))) : Option String :=
  match want, got with
  | none, none => none
  | some _, none => some "doc values: model has them, file says 'not uninverted'"
  | none, some _ => some "doc values: file has them, model says 'not uninverted'"
  | some w, some g =>
    let w := dvCanon w
    let g := dvCanon g
    match firstIdx w g (· == ·) with
    | none => none
    | some i =>
      let sh := fun (o : Option (Nat × Bytes)) => match o with
        | some p => s!"doc {p.1} = {hx p.2}"
        | none => "nothing more"
      some s!"doc values: position {i}: model has {sh w[i]?}, file has {sh g[i]?}"

/-- Synonym ids are names local to one file (the writer numbers them with one counter
    per batch, the model per thesaurus; Merge renumbers): compare thesauri modulo the
    renaming, i.e. after resolving every code (id, doc) to (synonym term, doc) through
    the file's own table.  An id without table entry resolves to `none`. -/
def codeLe (a b : Option Bytes × Nat) : Bool :=
  match a.1, b.1 with
  | none, none => a.2 ≤ b.2
  | none, some _ => true
  | some _, none => false
  | some x, some y => Bytes.lt x y || (x == y && a.2 ≤ b.2)

def resolveThes (t : Thes) : List (Bytes × List (Option Bytes × Nat)) :=
  t.terms.map (fun p => (p.1, (p.2.map (fun c => (lookup c.1 t.table, c.2))).mergeSort codeLe))

def tableTerms (t : Thes) : List Bytes := (t.table.map (·.2)).mergeSort (fun a b => !Bytes.lt b a)

def codeStr (c : Option Bytes × Nat) : String :=
  match c.1 with
  | some t => s!"({hx t}, doc {c.2})"
  | none => s!"(unknown id, doc {c.2})"

/-- F19: a thesaurus without LHS terms is the same content as no thesaurus. -/
def normThes : Option Thes → Option Thes
  | some t => if t.terms.isEmpty then none else some t
  | none => none

def diffThes (want got : Option Thes) : Option String :=
  match normThes want, normThes got with
  | none, none => none
  | some _, none => some "thesaurus: in the model, no synonym section in the file"
  | none, some _ => some "thesaurus: synonym section in the file, none in the model"
  | some w, some g =>
    let wr := resolveThes w
    let gr := resolveThes g
    match firstIdx wr gr (· == ·) with
    | some i =>
      let sh := fun (o : Option (Bytes × List (Option Bytes × Nat))) => match o with
        | some p => s!"{hx p.1} -> [{", ".intercalate (p.2.map codeStr)}]"
        | none => "nothing more"
      some s!"thesaurus: term {i}: model has {sh wr[i]?}, file has {sh gr[i]?}"
    | none =>
      let wt := tableTerms w
      let gt := tableTerms g
      match firstIdx wt gt (· == ·) with
      | none => none
      | some i =>
        let sh := fun (o : Option Bytes) => match o with
          | some t => hx t
          | none => "nothing more"
        some s!"thesaurus: synonym table term {i} (sorted): model has {sh wt[i]?}, file has {sh gt[i]?}"

def diffVec (want got : Option VecIx) : Option String :=
  match want, got with
  | none, none => none
  | some _, none => some "vector index: in the model, no vector section in the file"
  | none, some _ => some "vector index: vector section in the file, none in the model"
  | some w, some g =>
    if w.opt ≠ g.opt then some s!"vector index: optimisation type: model {w.opt}, file {g.opt}"
    else
      let wd := (w.vecs.map (·.1)).mergeSort (· ≤ ·)
      let gd := (g.vecs.map (·.1)).mergeSort (· ≤ ·)
      if wd = gd then none
      else some s!"vector index: documents of the vectors: model {wd}, file {gd}"

def diffField (i : Nat) (w g : FieldM) : Option String :=
  let pre := fun (m : String) => s!"field {i} ({hx w.name}): {m}"
  if w.name ≠ g.name then some s!"field {i}: model name {hx w.name}, file name {hx g.name}"
  else match diffTerms w.terms g.terms with
    | some m => some (pre m)
    | none => match diffDV w.dv g.dv with
      | some m => some (pre m)
      | none => match diffThes w.thes g.thes with
        | some m => some (pre m)
        | none => (diffVec w.vec g.vec).map pre

def valStr (v : StoredVal) : String := s!"field {v.fid} type {v.typ} value {hx v.val} arraypos {v.ap}"

def diffStored (i : Nat) (w g : StoredDoc) : Option String :=
  if w.id ≠ g.id then some s!"stored doc {i}: model id {hx w.id}, file id {hx g.id}"
  else match firstIdx w.vals g.vals (· == ·) with
    | none => none
    | some j =>
      let sh := fun (o : Option StoredVal) => match o with
        | some v => valStr v
        | none => "nothing more"
      some s!"stored doc {i}: value {j}: model has {sh w.vals[j]?}, file has {sh g.vals[j]?}"

/-- First difference between the model content `want` and the decoded file `got`. -/
def firstDiff (want got : Seg) : Option String :=
  if want.chunkMode ≠ got.chunkMode then some s!"chunk mode: model {want.chunkMode}, file {got.chunkMode}"
  else if want.numDocs ≠ got.numDocs then some s!"numDocs: model {want.numDocs}, file {got.numDocs}"
  else if want.fields.length ≠ got.fields.length then
    some s!"number of fields: model {want.fields.length} {want.fields.map (hx ·.name)}, file {got.fields.length} {got.fields.map (hx ·.name)}"
  else
    match ((want.fields.zip got.fields).zipIdx).findSome? (fun p => diffField p.2 p.1.1 p.1.2) with
    | some m => some m
    | none =>
      if want.stored.length ≠ got.stored.length then
        some s!"stored docs: model {want.stored.length}, file {got.stored.length}"
      else ((want.stored.zip got.stored).zipIdx).findSome? (fun p => diffStored p.2 p.1.1 p.1.2)

/-! ### the observation `file=<hex> blobs=<blob>;...` -/

def isDigitB (x : UInt8) : Bool := 48 ≤ x && x ≤ 57

def hexValB (x : UInt8) : Option Nat :=
  if 48 ≤ x && x ≤ 57 then some (x.toNat - 48)
  else if 97 ≤ x && x ≤ 102 then some (x.toNat - 87)
  else none

/-- Decimal number at `i` (before `lim`): (value, next position); no digit = error. -/
def scanNat (g : ByteArray) (i lim : Nat) : R (Nat × Nat) := do
  let mut v := 0
  let mut j := i
  for _ in [i:lim] do
    if isDigitB (g.get! j) then
      v := v * 10 + ((g.get! j).toNat - 48)
      j := j + 1
    else break
  if j = i then throw s!"number expected at column {i}"
  return (v, j)

/-- Position of the first byte `x` in [i, lim), or `lim`. -/
def findB (g : ByteArray) (x : UInt8) (i lim : Nat) : Nat := Id.run do
  let mut j := i
  for _ in [i:lim] do
    if g.get! j == x then break
    j := j + 1
  return j

/-- Hex string in [i, lim) ("." = empty). -/
def scanHex (g : ByteArray) (i lim : Nat) : R ByteArray := do
  if lim = i + 1 ∧ g.get! i == 46 then return ByteArray.empty
  if (lim - i) % 2 ≠ 0 then throw s!"odd number of hex digits at column {i}"
  let mut out := ByteArray.emptyWithCapacity ((lim - i) / 2)
  for k in [0:(lim - i) / 2] do
    match hexValB (g.get! (i + 2 * k)), hexValB (g.get! (i + 2 * k + 1)) with
    | some a, some b => out := out.push (UInt8.ofNat (a * 16 + b))
    | _, _ => throw s!"bad hex digit at column {i + 2 * k}"
  return out

def expectB (g : ByteArray) (i : Nat) (x : UInt8) : R Unit :=
  if i < g.size ∧ g.get! i == x then pure () else throw s!"'{Char.ofNat x.toNat}' expected at column {i}"

def scanNatList (g : ByteArray) (i lim : Nat) : R (List Nat) := do
  if lim = i + 1 ∧ g.get! i == 45 then return []
  let mut out : Array Nat := #[]
  let mut j := i
  for _ in [i:lim + 1] do
    let (v, j') ← scanNat g j lim
    out := out.push v
    if j' ≥ lim then
      j := j'
      break
    expectB g j' 44
    j := j' + 1
  if j ≠ lim then throw s!"number list does not end at column {lim}"
  return out.toList

def scanFstPairs (g : ByteArray) (i lim : Nat) : R (List (Bytes × Nat)) := do
  if lim = i + 1 ∧ g.get! i == 45 then return []
  let mut out : Array (Bytes × Nat) := #[]
  let mut j := i
  for _ in [i:lim + 1] do
    let eq := findB g 61 j lim
    if eq ≥ lim then throw s!"'=' expected after column {j}"
    let k ← scanHex g j eq
    let (v, j') ← scanNat g (eq + 1) lim
    out := out.push (ofBA k, v)
    if j' ≥ lim then
      j := j'
      break
    expectB g j' 44
    j := j' + 1
  if j ≠ lim then throw s!"FST pair list does not end at column {lim}"
  return out.toList

def scanBlobs (g : ByteArray) (i : Nat) : R (List Blob) := do
  let n := g.size
  if n = i + 1 ∧ g.get! i == 45 then return []
  let mut out : Array Blob := #[]
  let mut j := i
  for _ in [i:n + 1] do
    if j ≥ n then break
    let (off, j1) ← scanNat g j n
    expectB g j1 58
    let (len, j2) ← scanNat g (j1 + 1) n
    expectB g j2 58
    let kEnd := findB g 58 (j2 + 1) n
    if kEnd ≥ n then throw s!"blob kind not terminated at column {j2}"
    let kind := String.ofList ((ofBA (g.extract (j2 + 1) kEnd)).map Char.ofNat)
    let pEnd := findB g 59 (kEnd + 1) n
    let bl ←
      if kind == "fst" then do
        let ps ← scanFstPairs g (kEnd + 1) pEnd
        pure ({ off := off, len := len, kind := kind, fst := ps } : Blob)
      else if kind == "r32" ∨ kind == "r64" then do
        let xs ← scanNatList g (kEnd + 1) pEnd
        pure ({ off := off, len := len, kind := kind, nums := xs } : Blob)
      else pure ({ off := off, len := len, kind := kind } : Blob)
    out := out.push bl
    j := pEnd + 1
  return out.toList

def startsWithB (g : ByteArray) (i : Nat) (s : String) : Bool :=
  let p := s.toUTF8
  i + p.size ≤ g.size && (List.range p.size).all (fun k => g.get! (i + k) == p.get! k)

/-- Parse `file=<hex> blobs=<blob>;...` into the file bytes and the blobs. -/
def parseObs (got : String) : R (ByteArray × List Blob) := do
  let g := got.toUTF8
  if !startsWithB g 0 "file=" then throw "observation does not start with file="
  let sp := findB g 32 5 g.size
  let file ← scanHex g 5 sp
  if !startsWithB g sp " blobs=" then throw "observation has no blobs= part"
  let blobs ← scanBlobs g (sp + 7)
  return (file, blobs)

/-- `none` = the file decodes to exactly the model content; `some reason` otherwise. -/
def analyze (s : Seg) (got : String) : Option String :=
  if got.startsWith "toolarge" then none else
  match parseObs got with
  | .error e => some s!"observation not parseable: {e}"
  | .ok (file, blobs) =>
    match decodeBA file blobs with
    | .error e =>
      if (e.splitOn "K1-NST-MISSING").length > 1 then
        -- finding K1 and nothing else?  Read on past it: any other deviation is reported instead
        match decodeBA file blobs true with
        | .error e2 => some s!"file not decodable by the documented layout: {e2}"
        | .ok dec => match firstDiff s dec with
          | none => some s!"file not decodable by the documented layout: {e}"
          | some d => some d
      else some s!"file not decodable by the documented layout: {e}"
    | .ok dec => firstDiff s dec

/-- `got` is the harness's observation for `dumpfile`; `s` the model's content of that file. -/
def checkDump (s : Seg) (got : String) : Bool := (analyze s got).isNone

/-- A short human-readable reason for a mismatch ("ok" if there is none). -/
def explainDump (s : Seg) (got : String) : String := (analyze s got).getD "ok"

end Zap.Layout
