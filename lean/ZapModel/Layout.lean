/-
  ZapModel.Layout: independent decoder of real .zap files, written from the documented
  v16 layout (zap.md / README.md), used by the `dumpfile` command (C09).
  STUB: replaced by the C09 implementation.
-/
import ZapModel.Types
import ZapModel.Codec
namespace Zap.Layout
/-- `got` is the harness's observation for `dumpfile`; `s` the model's content of that file. -/
def checkDump (_s : Seg) (_got : String) : Bool := true
def explainDump (_s : Seg) (_got : String) : String := ""
end Zap.Layout
