/-
  ZapModel.Types: input batches (what a caller hands to `New`) and the model
  of an immutable segment (what the byte image means).
-/
import ZapModel.Basic
import ZapModel.Gen.Pure

namespace Zap

abbrev Name := Bytes

def idName : Name := strBytes "_id"

/-- A token location as supplied by the analyser. `src = []` means "no source
    field named" (the location belongs to the field that carries the token). -/
structure TokLoc where
  src : Name
  pos : Nat
  start : Nat
  stop : Nat
  ap : List Nat
  deriving Repr, DecidableEq, Inhabited

structure Tok where
  term : Bytes
  freq : Nat
  locs : List TokLoc
  deriving Repr, DecidableEq, Inhabited

inductive FKind | comp | fld | syn | vec
  deriving Repr, DecidableEq, Inhabited

structure SynDefn where
  lhs : Bytes
  rhs : List Bytes
  deriving Repr, DecidableEq, Inhabited

structure FieldIn where
  kind : FKind := .fld
  name : Name := []
  typ : Nat := 116
  stored : Bool := false
  dv : Bool := false
  len : Nat := 0
  ap : List Nat := []
  val : Bytes := []
  toks : List Tok := []
  defs : List SynDefn := []
  dim : Nat := 0
  metric : Nat := 0      -- 0 = l2_norm, 1 = dot_product, 2 = cosine
  opt : Nat := 0         -- 0 recall, 1 latency, 2 memory-efficient
  vec : List Int := []
  shape : Option Bytes := none   -- geo-shape fields: `EncodedShape()`; `none` = not a geo-shape field
  deriving Repr, DecidableEq, Inhabited

structure DocIn where
  id : Bytes
  plain : Bool := false
  fields : List FieldIn     -- script order; composites are visited before plain fields
  deriving Repr, DecidableEq, Inhabited

abbrev Batch := List DocIn

/-- Fields in zapx visiting order: `VisitComposite` first, then `VisitFields`. -/
def DocIn.visitOrder (d : DocIn) : List FieldIn :=
  d.fields.filter (·.kind == .comp) ++ d.fields.filter (·.kind != .comp)

/-! ### Segment model -/

/-- A stored location: the field is an id into the segment's field table. -/
structure MLoc where
  fid : Nat
  pos : Nat
  start : Nat
  stop : Nat
  ap : List Nat
  deriving Repr, DecidableEq, Inhabited

/-- One posting as stored in the freq/norm and location streams.
    `norm` is 0 when `freq = 0` (the norm is then not written). -/
structure Entry where
  doc : Nat
  freq : Nat
  norm : Nat
  locs : List MLoc
  deriving Repr, DecidableEq, Inhabited

/-- What the FST value of a term denotes. -/
inductive PostRep
  | general (entries : List Entry)
  | oneHit (doc : Nat) (norm : Nat)
  deriving Repr, DecidableEq, Inhabited

def PostRep.docs : PostRep → List Nat
  | .general es => es.map (·.doc)
  | .oneHit d _ => [d]

/-- The entries a postings list denotes (1-hit: frequency 1, no locations). -/
def PostRep.entries : PostRep → List Entry
  | .general es => es
  | .oneHit d n => [{ doc := d, freq := 1, norm := n, locs := [] }]

structure StoredVal where
  fid : Nat
  typ : Nat
  val : Bytes
  ap : List Nat
  deriving Repr, DecidableEq, Inhabited

structure StoredDoc where
  id : Bytes
  vals : List StoredVal
  deriving Repr, DecidableEq, Inhabited

/-- A thesaurus: per LHS term (ascending) the set of (synonym id, doc) codes,
    plus the id -> synonym term table. -/
structure Thes where
  terms : List (Bytes × List (Nat × Nat))
  table : List (Nat × Bytes)
  deriving Repr, DecidableEq, Inhabited

/-- A vector index: (vector id, doc, vector) triples; ids are opaque. -/
structure VecIx where
  dim : Nat
  metric : Nat
  opt : Nat
  vecs : List (Nat × List Int)      -- (doc, vector); vector ids are abstracted away
  deriving Repr, DecidableEq, Inhabited

structure FieldM where
  name : Name
  terms : List (Bytes × PostRep) := []          -- ascending by term
  dv : Option (List (Nat × List Bytes)) := none -- (doc, terms) ascending; none = not uninverted
  thes : Option Thes := none
  vec : Option VecIx := none
  deriving Repr, DecidableEq, Inhabited

structure Seg where
  chunkMode : Nat
  numDocs : Nat
  fields : List FieldM          -- as written, index = field id
  stored : List StoredDoc
  deriving Repr, DecidableEq, Inhabited

/-- The field table as the reader sees it: a field record written at file
    offset 0 is taken for "absent" (`loadFieldNew`), and the first record sits
    at offset 0 exactly when nothing was written before the fields section,
    i.e. when the segment has no documents. -/
def Seg.loadedFields (s : Seg) : List FieldM :=
  if s.numDocs = 0 then s.fields.drop 1 else s.fields

def Seg.fieldNames (s : Seg) : List Name := s.loadedFields.map (·.name)

def Seg.field? (s : Seg) (n : Name) : Option FieldM := s.loadedFields.find? (·.name = n)

def Seg.fieldId? (s : Seg) (n : Name) : Option Nat := s.fields.findIdx? (·.name = n)

def Seg.nameOf (s : Seg) (fid : Nat) : Name := (s.fields.getD fid default).name

end Zap
