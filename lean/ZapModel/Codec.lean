/-
  ZapModel.Codec: byte-level models of the zapx-owned codecs:
  uvarints (`encoding/binary`, memuvarint.go), chunk offset tables
  (intcoder.go), the chunked int coder / decoder, the doc-value content coder
  framing (contentcoder.go) with a snappy *decoder*, CRC-32 (count.go / footer).
-/
import ZapModel.Basic
import ZapModel.Gen.Pure

namespace Zap.Codec
open Zap

/-! ### uvarint -/

/-- `binary.PutUvarint`. -/
def putUvarint (x : Nat) : Bytes :=
  if h : x < 128 then [x] else (x % 128 + 128) :: putUvarint (x / 128)
termination_by x
decreasing_by omega

/-- `numUvarintBytes` (new.go): the loop `for x >= 0x80 { x >>= 7; n++ }; n+1`. -/
def numUvarintBytes (x : Nat) : Nat :=
  if h : x < 128 then 1 else numUvarintBytes (x / 128) + 1
termination_by x
decreasing_by omega

/-- Decode one uvarint from the front of a byte list (no 64-bit overflow
    check: see `readUvarint64` for the reader with Go's overflow rule).
    Returns the value and the remaining bytes, `none` if the list ends first. -/
def uvarint : Bytes → Option (Nat × Bytes)
  | [] => none
  | b :: rest =>
    if b < 128 then some (b, rest)
    else match uvarint rest with
      | none => none
      | some (v, rest') => some ((b - 128) + 128 * v, rest')

/-- Decode uvarints until the list is exhausted. -/
def uvarints (bs : Bytes) : List Nat :=
  let rec go (fuel : Nat) (bs : Bytes) : List Nat :=
    match fuel with
    | 0 => []
    | fuel + 1 =>
      match bs with
      | [] => []
      | _ => match uvarint bs with
        | none => []
        | some (v, rest) => v :: go fuel rest
  go bs.length bs

def putUvarints (xs : List Nat) : Bytes := xs.flatMap putUvarint

/-- `memUvarintReader.ReadUvarint` with Go's exact 64-bit behaviour:
    returns (value, error?, new position). Reading at the end yields (0, ok).
    Running off the end inside a varint is a Go panic: modelled as `none`. -/
def memRead (s : Bytes) (c : Nat) : Option (Nat × Bool × Nat) :=
  if c ≥ s.length then some (0, false, c) else
  let rec go (fuel : Nat) (c x sh : Nat) : Option (Nat × Bool × Nat) :=
    match fuel with
    | 0 => none
    | fuel + 1 =>
      match s[c]? with
      | none => none
      | some b =>
        if b < 128 then
          if sh ≥ 63 ∧ (sh > 63 ∨ b > 1) then some (0, true, c + 1)
          else some ((x ||| ((b <<< sh) % Gen.u64)) % Gen.u64, false, c + 1)
        else go fuel (c + 1) (x ||| (((b % 128) <<< sh) % Gen.u64)) (sh + 7)
  go (s.length + 1) c 0 0

/-- `SkipUvarint`: new position. -/
def memSkip (s : Bytes) (c : Nat) : Nat :=
  let rec go (fuel c : Nat) : Nat :=
    match fuel with
    | 0 => c
    | fuel + 1 =>
      match s[c]? with
      | none => c
      | some b => if b < 128 then c + 1 else go fuel (c + 1)
  go (s.length + 1) c

/-! ### chunk tables (`modifyLengthsToEndOffsets`, `readChunkBoundary`) -/

def endOffsets (lens : List Nat) : List Nat :=
  (lens.foldl (fun (acc : List Nat × Nat) l => (acc.1 ++ [acc.2 + l], acc.2 + l)) ([], 0)).1

def chunkBoundary (offs : List Nat) (c : Nat) : Nat × Nat :=
  (if c = 0 then 0 else offs.getD (c - 1) 0, offs.getD c 0)

/-! ### chunked int coder -/

structure IntCoder where
  chunkSize : Nat
  lens : List Nat
  curr : Nat
  buf : Bytes
  final : Bytes
  deriving Repr, DecidableEq

def IntCoder.new (cs maxDoc : Nat) : IntCoder :=
  { chunkSize := cs, lens := List.replicate (maxDoc / cs + 1) 0, curr := 0, buf := [], final := [] }

/-- `Close`: record the chunk length, append to `final`. -/
def IntCoder.close (c : IntCoder) : IntCoder :=
  { c with lens := c.lens.set c.curr c.buf.length, final := c.final ++ c.buf }

/-- `Add(docNum, vals...)`. -/
def IntCoder.add (c : IntCoder) (doc : Nat) (vals : List Nat) : IntCoder :=
  let chunk := doc / c.chunkSize
  let c := if chunk ≠ c.curr then { c.close with buf := [], curr := chunk } else c
  { c with buf := c.buf ++ putUvarints vals }

/-- `Write`: number of chunks, end offsets, data. -/
def IntCoder.write (c : IntCoder) : Bytes :=
  putUvarint c.lens.length ++ putUvarints (endOffsets c.lens) ++ c.final

def intCoderEncode (cs maxDoc : Nat) (adds : List (Nat × List Nat)) : Bytes :=
  ((adds.foldl (fun c a => c.add a.1 a.2) (IntCoder.new cs maxDoc)).close).write

/-- Decoder (`newChunkedIntDecoder` + `loadChunk`): the uvarints of chunk `c`. -/
def readN (n : Nat) (bs : Bytes) : Option (List Nat × Bytes) :=
  match n with
  | 0 => some ([], bs)
  | n + 1 => match uvarint bs with
    | none => none
    | some (v, rest) => match readN n rest with
      | none => none
      | some (vs, rest') => some (v :: vs, rest')

def intDecodeChunks (stream : Bytes) : Option (List (List Nat)) :=
  match uvarint stream with
  | none => none
  | some (n, rest) =>
    match readN n rest with
    | none => none
    | some (offs, data) =>
      some ((List.range n).map (fun c =>
        let (s, e) := chunkBoundary offs c
        uvarints ((data.drop s).take (e - s))))

/-! ### snappy (decoder only) -/

def le (bs : Bytes) : Nat := bs.foldr (fun b acc => b + 256 * acc) 0

def copyBack (out : Bytes) (off len : Nat) : Bytes :=
  match len with
  | 0 => out
  | len + 1 => copyBack (out ++ [out.getD (out.length - off) 0]) off len

def snappyDecode (bs : Bytes) : Option Bytes :=
  match uvarint bs with
  | none => none
  | some (n, rest) =>
    let rec go (fuel : Nat) (bs out : Bytes) : Option Bytes :=
      match fuel with
      | 0 => none
      | fuel + 1 =>
        match bs with
        | [] => some out
        | tag :: rest =>
          match tag % 4 with
          | 0 =>
            let l := tag / 4
            if l < 60 then go fuel (rest.drop (l + 1)) (out ++ rest.take (l + 1))
            else
              let nb := l - 59
              let len := le (rest.take nb) + 1
              go fuel ((rest.drop nb).drop len) (out ++ (rest.drop nb).take len)
          | 1 =>
            let len := 4 + (tag / 4) % 8
            let off := (tag / 32) * 256 + rest.headD 0
            go fuel (rest.drop 1) (copyBack out off len)
          | 2 =>
            let len := tag / 4 + 1
            go fuel (rest.drop 2) (copyBack out (le (rest.take 2)) len)
          | _ =>
            let len := tag / 4 + 1
            go fuel (rest.drop 4) (copyBack out (le (rest.take 4)) len)
    match go (rest.length + 1) rest [] with
    | none => none
    | some out => if out.length = n then some out else none

/-! ### content coder framing (doc values) -/

def be64 (bs : Bytes) : Nat := bs.foldl (fun a b => a * 256 + b) 0

/-- Decode the bytes a `chunkedContentCoder` emitted (data then trailer) into
    per-chunk lists of (docNum, value). -/
def contentDecode (bs : Bytes) : Option (List (List (Nat × Bytes))) :=
  if bs.length < 16 then none else
  let n := be64 (bs.drop (bs.length - 8))
  let offLen := be64 ((bs.drop (bs.length - 16)).take 8)
  if offLen + 16 > bs.length then none else
  let dataLen := bs.length - 16 - offLen
  let data := bs.take dataLen
  match readN n ((bs.drop dataLen).take offLen) with
  | none => none
  | some (offs, _) =>
    (List.range n).foldr (fun c acc =>
      match acc with
      | none => none
      | some acc =>
        let (s, e) := chunkBoundary offs c
        if s ≥ e then some ([] :: acc) else
        let chunk := (data.drop s).take (e - s)
        match uvarint chunk with
        | none => none
        | some (nd, rest) =>
          match readN (2 * nd) rest with
          | none => none
          | some (metaVals, comp) =>
            match snappyDecode comp with
            | none => none
            | some raw =>
              let rec pairs (m : List Nat) (start : Nat) : List (Nat × Bytes) :=
                match m with
                | d :: off :: m' => (d, (raw.drop start).take (off - start)) :: pairs m' off
                | _ => []
              some (pairs metaVals 0 :: acc)) (some [])

/-! ### CRC-32 (IEEE), bitwise -/

def crcStep (crc : Nat) (b : Nat) : Nat :=
  let rec bits (k : Nat) (c : Nat) : Nat :=
    match k with
    | 0 => c
    | k + 1 => bits k (if c % 2 = 1 then (c / 2) ^^^ 0xEDB88320 else c / 2)
  bits 8 (crc ^^^ b)

/-- Raw update on the internal (inverted) state. -/
def crcUpdateRaw (state : Nat) (bs : Bytes) : Nat := bs.foldl crcStep state

/-- `crc32.Update(crc, IEEETable, p)`. -/
def crcUpdate (crc : Nat) (bs : Bytes) : Nat := (crcUpdateRaw (crc ^^^ 0xFFFFFFFF) bs) ^^^ 0xFFFFFFFF

def crc32 (bs : Bytes) : Nat := crcUpdate 0 bs

/-! ### footer (write.go `persistFooter`, segment.go `loadConfig`) -/

def beBytes (width : Nat) (x : Nat) : Bytes :=
  (List.range width).map (fun i => (x / 256 ^ (width - 1 - i)) % 256)

structure Footer where
  numDocs : Nat
  storedIndexOffset : Nat
  fieldsIndexOffset : Nat
  sectionsIndexOffset : Nat
  docValueOffset : Nat
  chunkMode : Nat
  version : Nat
  crc : Nat
  deriving Repr, DecidableEq

end Zap.Codec
