/-
  ZapModel.Query: the read API of a segment on the model: dictionary lookups
  and enumeration (dict.go), stored fields (segment.go:540-681), DocNumbers,
  doc values (docvalues.go) with the visit-state machine.
-/
import ZapModel.Posting

namespace Zap

/-! ### Dictionary -/

def Seg.postingsList (s : Seg) (field : Name) (term : Bytes) (ex : Option (List Nat)) : Except String PList :=
  let names := s.fields.map (·.name)
  match s.field? field with
  | none => .ok { rep := none, except := ex, chunkSize := 0, names := names }
  | some f =>
    match lookup term f.terms with
    | none => .ok { rep := none, except := ex, chunkSize := 0, names := names }
    | some (.oneHit d n) => .ok { rep := some (.oneHit d n), except := ex, chunkSize := 0, names := names }
    | some (.general es) =>
      match Gen.getChunkSize s.chunkMode es.length s.numDocs with
      | .ok cs => .ok { rep := some (.general es), except := ex, chunkSize := cs, names := names }
      | .error e => .error e

/-- The scratch `PostingsList` (`DictionaryIterator.tmp`) reused across entries:
    only the fields `Count` reads. -/
structure Scratch where
  normBits1Hit : Nat := 0
  docNum1Hit : Nat := 0
  card : Nat := 0          -- cardinality of `postings`
  hasPostings : Bool := false
  deriving Repr, DecidableEq, Inhabited

/-- `PostingsList.read` on the scratch list.  `clears1Hit` is the generated fact
    "the general path of `read` resets `normBits1Hit` / `docNum1Hit`"
    (true after fix D1; false on the pinned tree). -/
def Scratch.read (clears1Hit : Bool) (sc : Scratch) : PostRep → Scratch
  | .oneHit d n => { sc with docNum1Hit := d, normBits1Hit := n }
  | .general es =>
    let sc := if clears1Hit then { sc with docNum1Hit := 0, normBits1Hit := 0 } else sc
    { sc with card := es.length, hasPostings := true }

/-- `PostingsList.Count` with `except = nil`. -/
def Scratch.count (sc : Scratch) : Nat :=
  if sc.normBits1Hit ≠ 0 then 1 else if sc.hasPostings then sc.card else 0

def inRange (lo hi : Option Bytes) (t : Bytes) : Bool :=
  (match lo with | none => true | some l => Bytes.le l t) &&
  (match hi with | none => true | some h => Bytes.lt t h)

/-- `DictionaryIterator.Next` run to exhaustion over the FST entries selected by
    the automaton and the key range, threading the scratch list. -/
def dictIterate (clears1Hit : Bool) (accept : Bytes → Bool) (lo hi : Option Bytes) :
    Scratch → List (Bytes × PostRep) → List (Bytes × Nat)
  | _, [] => []
  | sc, (t, r) :: rest =>
    if accept t && inRange lo hi t then
      let sc' := sc.read clears1Hit r
      (t, sc'.count) :: dictIterate clears1Hit accept lo hi sc' rest
    else dictIterate clears1Hit accept lo hi sc rest

def Seg.dictTerms (s : Seg) (field : Name) : List (Bytes × PostRep) :=
  match s.field? field with
  | none => []
  | some f => f.terms

/-! ### Stored fields -/

structure StoredOut where
  name : Name
  typ : Nat
  val : Bytes
  ap : List Nat
  deriving Repr, DecidableEq, Inhabited

def Seg.storedAll (s : Seg) (d : Nat) : List StoredOut :=
  if d < s.numDocs then
    match s.stored[d]? with
    | none => []
    | some sd => { name := idName, typ := 116, val := sd.id, ap := [] } ::
        sd.vals.map (fun v => { name := s.nameOf v.fid, typ := v.typ % 256, val := v.val, ap := v.ap })
  else []

/-- The visitor protocol: callbacks are delivered until one returns false; a
    visitor "stop after k callbacks" receives `min k n` (at least one). -/
def visitWithStop {α : Type} (xs : List α) (stop : Option Nat) : List α :=
  match stop with
  | none => xs
  | some k => xs.take (max k 1)

def Seg.docID (s : Seg) (d : Nat) : Option Bytes :=
  if d < s.numDocs then (s.stored[d]?).map (·.id) else none

/-- `DocNumbers`: uses the `_id` dictionary; ids greater than the maximal key
    are skipped without a lookup. -/
def Seg.docNumbers (s : Seg) (ids : List Bytes) : List Nat :=
  if s.fieldNames.isEmpty then [] else
  let terms := s.dictTerms idName
  match terms.getLast? with
  | none => []
  | some (mx, _) =>
    let hits := ids.flatMap (fun id =>
      if Bytes.le id mx then
        match lookup id terms with
        | none => []
        | some r => r.docs
      else [])
    (hits.foldl (fun acc d => if acc.contains d then acc else acc ++ [d]) []).mergeSort (· ≤ ·)

/-! ### Doc values -/

/-- Per-field reader state: the loaded chunk number (`none` = math.MaxUint64,
    nothing loaded) and the chunk's header+data as (doc, terms) entries. -/
structure DvReader where
  fid : Nat
  curChunk : Option Nat
  cache : List (Nat × List Bytes)
  deriving Repr, DecidableEq, Inhabited

structure DvState where
  segTag : Option Nat           -- identity of the segment the state belongs to
  readers : Option (List DvReader)
  deriving Repr, DecidableEq, Inhabited

def DvState.fresh : DvState := { segTag := none, readers := none }

def dvChunk (data : List (Nat × List Bytes)) (cs c : Nat) : List (Nat × List Bytes) :=
  data.filter (fun p => p.1 / cs = c)

/-- `VisitDocValues`: one call. `tag` identifies the segment (pointer identity
    in Go); `cs` is the doc-value chunk size (`LegacyChunkMode`). -/
def Seg.visitDocValues (s : Seg) (tag : Nat) (cs : Nat) (st : Option DvState) (fields : List Name) (doc : Nat) :
    DvState × List (Name × Bytes) :=
  let st0 : DvState := match st with
    | none => DvState.fresh
    | some st => if st.segTag ≠ some tag then { segTag := some tag, readers := none } else st
  let readers : List DvReader := match st0.readers with
    | some rs => rs
    | none =>
      -- one reader per distinct known field that has doc values
      fields.foldl (fun acc n =>
        match s.fieldId? n with
        | none => acc
        | some fid =>
          match (s.fields.getD fid default).dv with
          | none => acc
          | some _ => if acc.any (·.fid = fid) then
                        acc.map (fun r => if r.fid = fid then { r with curChunk := none, cache := [] } else r)
                      else acc ++ [{ fid := fid, curChunk := none, cache := [] }]) []
  let c := doc / cs
  -- visit in the order of `fields`
  let (readers, out) := fields.foldl (fun (acc : List DvReader × List (Name × Bytes)) n =>
    match s.fieldId? n with
    | none => acc
    | some fid =>
      match acc.1.find? (·.fid = fid) with
      | none => acc
      | some r =>
        let data := ((s.fields.getD fid default).dv).getD []
        let r' := if r.curChunk ≠ some c then { r with curChunk := some c, cache := dvChunk data cs c } else r
        let terms := match r'.cache.find? (·.1 = doc) with
          | none => []
          | some p => p.2
        (acc.1.map (fun x => if x.fid = fid then r' else x), acc.2 ++ terms.map (fun t => (n, t)))) (readers, [])
  ({ st0 with readers := some readers }, out)

def Seg.dvFieldNames (s : Seg) : List Name :=
  if s.numDocs = 0 then [] else (s.loadedFields.filter (·.dv.isSome)).map (·.name)

/-! ### Thesaurus -/

def Seg.thes? (s : Seg) (n : Name) : Option Thes :=
  match s.field? n with
  | none => none
  | some f => f.thes

def Seg.thesTerms (s : Seg) (n : Name) : List Bytes :=
  match s.thes? n with
  | none => []
  | some t => t.terms.map (·.1)

def Seg.synonyms (s : Seg) (n : Name) (term : Bytes) (ex : Option (List Nat)) : List (Bytes × Nat) :=
  match s.thes? n with
  | none => []
  | some t =>
    match lookup term t.terms with
    | none => []
    | some codes =>
      (codes.filter (fun c => !excluded ex c.2)).map (fun c => ((lookup c.1 t.table).getD [], c.2))

end Zap
