/-
  ZapModel.Posting: model of `PostingsList` / `PostingsIterator` (posting.go).

  Cursors are "remaining suffix" lists:
    * `all`, `actual`  : docs not yet returned by the two roaring iterators;
    * `fn`             : entries of the loaded chunk not yet consumed by the
                         freq/norm reader;
    * `loc`            : entries *with locations* of the loaded chunk whose
                         location block has not been consumed by the loc reader.
  The byte level (varints, `SkipBytes(numLocsBytes)`) is settled by the codec
  lemmas in ZapModel.Codec; here one stream item = one entry.
-/
import ZapModel.Types

namespace Zap

/-- A resolved location as returned to the caller. -/
structure Loc where
  field : Name
  pos : Nat
  start : Nat
  stop : Nat
  ap : List Nat
  deriving Repr, DecidableEq, Inhabited

structure Hit where
  doc : Nat
  freq : Nat
  norm : Nat
  locs : List Loc
  deriving Repr, DecidableEq, Inhabited

inductive Op
  | next
  | advance (t : Nat)
  deriving Repr, DecidableEq, Inhabited

/-- `PostingsList` after `read`: the representation, the exclusion set (`none`
    = nil bitmap) and the chunk size computed from (mode, cardinality, numDocs). -/
structure PList where
  rep : Option PostRep        -- none: term absent (empty postings list)
  except : Option (List Nat)
  chunkSize : Nat
  names : List Name           -- the segment's field table (for locations)
  deriving Repr, Inhabited

def excluded (ex : Option (List Nat)) (d : Nat) : Bool :=
  match ex with
  | none => false
  | some l => l.contains d

/-- `PostingsList.Count`. -/
def PList.count (p : PList) : Nat :=
  match p.rep with
  | none => 0
  | some (.oneHit d _) => if excluded p.except d then 0 else 1
  | some (.general es) => es.length - (es.filter (fun e => excluded p.except e.doc)).length

structure It where
  pl : PList
  incFN : Bool
  incLocs : Bool
  /-- 1-hit state: `some d` while unconsumed, `none` when finished / not 1-hit -/
  oneHit : Option Nat
  isOneHit : Bool
  all : List Nat
  actual : List Nat
  /-- `i.postings.postings == i.ActualBM` (pointer equality): true only when
      there is no exclusion bitmap and the actual bitmap was not replaced -/
  clean : Bool
  hasActual : Bool            -- `i.Actual != nil`
  currChunk : Nat
  loaded : Bool               -- `!freqNormReader.isNil()`
  fn : List Entry
  loc : List Entry
  deriving Repr, Inhabited

def chunkOf (cs d : Nat) : Nat := d / cs

def chunkEntries (es : List Entry) (cs c : Nat) : List Entry := es.filter (fun e => chunkOf cs e.doc = c)

def PList.entries (p : PList) : List Entry :=
  match p.rep with
  | some (.general es) => es
  | _ => []

/-- `PostingsList.Iterator` / `iterator` (fresh or reused object: the reuse
    branch re-initialises every field read below, see `C07_reuse`). -/
def It.create (p : PList) (f n l : Bool) : It :=
  let incFN := f || n || l
  match p.rep with
  | none =>
    { pl := p, incFN := incFN, incLocs := l, oneHit := none, isOneHit := false, all := [], actual := [],
      clean := false, hasActual := false, currChunk := 0, loaded := false, fn := [], loc := [] }
  | some (.oneHit d _) =>
    { pl := p, incFN := incFN, incLocs := l, isOneHit := true,
      oneHit := if excluded p.except d then none else some d,
      all := [], actual := [], clean := false, hasActual := false, currChunk := 0, loaded := false, fn := [], loc := [] }
  | some (.general es) =>
    let docs := es.map (·.doc)
    { pl := p, incFN := incFN, incLocs := l, oneHit := none, isOneHit := false,
      all := docs,
      actual := docs.filter (fun d => !excluded p.except d),
      clean := p.except.isNone, hasActual := true,
      currChunk := 0, loaded := false, fn := [], loc := [] }

/-- What `ActualBitmap()` / `DocNum1Hit()` describe at creation. -/
def It.repKind (i : It) : String :=
  if i.isOneHit then (if i.oneHit.isSome then "1hit" else "none")
  else if i.hasActual then "bm" else "none"

def It.live (i : It) : List Nat :=
  if i.isOneHit then i.oneHit.toList else i.actual

/-- `ReplaceActual` (only meaningful on iterators that have an actual bitmap). -/
def It.replaceActual (i : It) (a : List Nat) : It :=
  { i with actual := a, clean := false, hasActual := true }

def It.loadChunk (i : It) (c : Nat) : It :=
  let es := chunkEntries i.pl.entries i.pl.chunkSize c
  { i with currChunk := c, loaded := !es.isEmpty,
           fn := if i.incFN then es else i.fn,
           loc := if i.incLocs then es.filter (fun e => !e.locs.isEmpty) else i.loc }

/-- `currChunkNext`: skip one entry of chunk `c` in both readers. -/
def It.currChunkNext (i : It) (c : Nat) : It :=
  let i := if i.currChunk ≠ c ∨ !i.loaded then i.loadChunk c else i
  match i.fn with
  | [] => i
  | e :: rest =>
    let i := { i with fn := rest }
    if i.incLocs ∧ !e.locs.isEmpty then { i with loc := i.loc.drop 1 } else i

def It.ensureChunk (i : It) (c : Nat) : It :=
  if i.currChunk ≠ c ∨ !i.loaded then i.loadChunk c else i

/-- The catch-up loop of the filtered path: advance `all` until it yields `n`,
    skipping the stream entries of docs in `n`'s chunk. `allN` is the doc just
    taken from `all`.  Returns `none` if `all` runs out first. -/
def It.catchUp (i : It) (n nChunk reach : Nat) : Nat → List Nat → Option It
  | allN, rest =>
    if allN = n then some { i with all := rest }
    else
      let i := if i.incFN ∧ allN ≥ reach then i.currChunkNext nChunk else i
      match rest with
      | [] => none
      | a :: rest' => It.catchUp i n nChunk reach a rest'
termination_by _ rest => rest.length

/-- The skip loop of the clean path: returns (n, chunk of n, sameChunkNexts, remaining). -/
def cleanLoop (cs t : Nat) : Nat → Nat → Nat → List Nat → Nat × Nat × Nat × List Nat
  | n, nChunk, same, rest =>
    match rest with
    | [] => (n, nChunk, same, [])
    | m :: rest' =>
      if n < t then
        let c := chunkOf cs m
        cleanLoop cs t m c (if c ≠ nChunk then 0 else same + 1) rest'
      else (n, nChunk, same, rest)

def iterN {α : Type} (f : α → α) : Nat → α → α
  | 0, a => a
  | k + 1, a => iterN f k (f a)

/-- `nextDocNumAtOrAfter`. Returns the new state and the doc number, if any. -/
def It.nextDoc (i : It) (t : Nat) : It × Option Nat :=
  if i.isOneHit then
    match i.oneHit with
    | none => (i, none)
    | some d => if d < t then ({ i with oneHit := none }, none) else ({ i with oneHit := none }, some d)
  else if !i.hasActual ∨ i.actual.isEmpty then (i, none)
  else if i.pl.rep.isNone then (i, none)
  else if i.clean then
    if !i.incFN then
      match i.actual.dropWhile (· < t) with
      | [] => ({ i with actual := [], all := [] }, none)
      | n :: rest => ({ i with actual := rest, all := rest }, some n)
    else
      match i.actual with
      | [] => (i, none)
      | n0 :: rest0 =>
        let (n, nChunk, same, rest) := cleanLoop i.pl.chunkSize t n0 (chunkOf i.pl.chunkSize n0) 0 rest0
        let i := { i with actual := rest, all := rest }
        if n < t then (i, none)
        else
          let i := iterN (fun j => j.currChunkNext nChunk) same i
          (i.ensureChunk nChunk, some n)
  else
    let act := i.actual.dropWhile (· < t)
    match act, i.all with
    | [], _ => ({ i with actual := [] }, none)
    | _ :: _, [] => ({ i with actual := act }, none)
    | n :: arest, allN :: allRest =>
      let nChunk := chunkOf i.pl.chunkSize n
      let reach := nChunk * i.pl.chunkSize
      let i := { i with actual := arest }
      match It.catchUp i n nChunk reach allN allRest with
      | none => ({ i with all := [] }, none)
      | some i => ((if i.incFN then i.ensureChunk nChunk else i), some n)

def resolveMLoc (names : List Name) (l : MLoc) : Loc :=
  { field := names.getD l.fid [], pos := l.pos, start := l.start, stop := l.stop, ap := l.ap }

/-- `nextAtOrAfter`: position, then read the entry under the readers. -/
def It.step (i : It) (op : Op) : It × Option Hit :=
  let t := match op with | .next => 0 | .advance t => t
  match i.nextDoc t with
  | (i, none) => (i, none)
  | (i, some d) =>
    if !i.incFN then (i, some { doc := d, freq := 0, norm := 0, locs := [] })
    else if i.isOneHit then
      let nb := match i.pl.rep with | some (.oneHit _ nb) => nb | _ => 0
      (i, some { doc := d, freq := 1, norm := nb, locs := [] })
    else
      match i.fn with
      | [] => (i, some { doc := d, freq := 0, norm := 0, locs := [] })
      | e :: rest =>
        let i := { i with fn := rest }
        if i.incLocs ∧ !e.locs.isEmpty then
          match i.loc with
          | [] => (i, some { doc := d, freq := e.freq, norm := e.norm, locs := [] })
          | le :: lrest =>
            ({ i with loc := lrest }, some { doc := d, freq := e.freq, norm := e.norm,
                                             locs := le.locs.map (resolveMLoc i.pl.names) })
        else (i, some { doc := d, freq := e.freq, norm := e.norm, locs := [] })

def It.run (i : It) : List Op → List (Option Hit)
  | [] => []
  | op :: ops => let (i', h) := i.step op; h :: It.run i' ops

end Zap
