/-
  ZapModel.Loaders: the TWO doc-value reader loaders of zapx (/repo/segment.go), modelled
  over an abstract field table.

    `(*SegmentBase).loadDvReaders`  (segment.go:910, called by `InitSegmentBase`, in-memory
        segments): `for fieldID, sections := range s.fieldsSectionsMap` (a slice: field id
        order) `for secID, secOffset := range sections` (a Go map: ANY order), only
        sections with `secOffset > 0`.
    `(*Segment).loadDvReaders`      (segment.go:887, called by `Open`, mmapped files):
        `for fieldID := range s.fieldsInv` (field id order) `for secID := range
        segmentSections` (the registered sections, a Go map: ANY order)
        `s.loadDvReader(fieldID, secID)`, which looks the address up in
        `s.fieldsSectionsMap[fieldID][secID]` (0 when absent = nothing read).

  Both read, at a non-zero address, uvarint dvStart, uvarint dvEnd and call
  `loadFieldDocValueReader(name, dvStart, dvEnd)`, which returns nil iff
  `dvStart == fieldNotUninverted`; a non-nil reader is registered:
      s.fieldDvReaders[secID][fieldID] = reader;  s.fieldDvNames = append(..., name)
  Both return at once when `numDocs == 0`.

  The field table abstracts what the bytes say: per field (index = field id) its name and,
  per section id, the address of the section record and - if the record's dvStart is not
  `fieldNotUninverted` - the reader that `loadFieldDocValueReader` builds from it.
-/
import ZapModel.Types

namespace Zap.Loaders
open Zap

/-- What a `docValueReader` is built from (`loadFieldDocValueReader(field, start, end)`). -/
structure DvInfo where
  dvStart : Nat
  dvEnd : Nat
  deriving Repr, DecidableEq, Inhabited

/-- (section id, address of the section record, reader info if dvStart ≠ fieldNotUninverted). -/
abbrev SecRec := Nat × Nat × Option DvInfo

/-- Per field (index = field id): name and `fieldsSectionsMap[fieldID]`. -/
abbrev FieldTable := List (Name × List SecRec)

/-- `fieldDvReaders` (newest registration first: a later assignment to the same key wins
    in `get?`) and `fieldDvNames`. -/
structure DvState where
  readers : List ((Nat × Nat) × DvInfo) := []     -- ((section, field id), reader)
  names : List Name := []
  deriving Repr, DecidableEq, Inhabited

/-- `s.fieldDvReaders[secID][fieldID]`. -/
def DvState.get? (st : DvState) (sec fid : Nat) : Option DvInfo := lookup (sec, fid) st.readers

/-- `if fieldDvReader != nil { s.fieldDvReaders[secID][fieldID] = ...; append name }`. -/
def register (st : DvState) (sec fid : Nat) (name : Name) (rd : Option DvInfo) : DvState :=
  match rd with
  | none => st
  | some i => { readers := ((sec, fid), i) :: st.readers, names := st.names ++ [name] }

/-- `(*SegmentBase).loadDvReaders`; `ord fid` is the order in which Go happens to range
    over the map `fieldsSectionsMap[fid]`. -/
def loadBase (numDocs : Nat) (tbl : FieldTable) (ord : Nat → List SecRec → List SecRec) : DvState :=
  if numDocs = 0 then {} else
  tbl.zipIdx.foldl (fun st p =>
    (ord p.2 p.1.2).foldl (fun st r =>
      if r.2.1 > 0 then register st r.1 p.2 p.1.1 r.2.2 else st) st) {}

/-- `s.fieldsSectionsMap[fieldID][secID]` with Go's map semantics (0 when absent), and the
    record found there. -/
def sectionAt (secs : List SecRec) (sec : Nat) : Nat × Option DvInfo :=
  match secs.find? (fun r => r.1 = sec) with
  | some r => (r.2.1, r.2.2)
  | none => (0, none)

/-- `getSectionDvOffsets` + `loadFieldDocValueReader`: nothing is read at address 0
    (dvStart stays `fieldNotUninverted`, the reader is nil). -/
def readerAt (secs : List SecRec) (sec : Nat) : Option DvInfo :=
  let a := sectionAt secs sec
  if a.1 > 0 then a.2 else none

/-- `(*Segment).loadDvReaders` over the registered sections `segmentSections`; `ordS fid`
    is the order in which Go happens to range over that map for field `fid`. -/
def loadFile (numDocs : Nat) (tbl : FieldTable) (ordS : Nat → List Nat) : DvState :=
  if numDocs = 0 then {} else
  tbl.zipIdx.foldl (fun st p =>
    (ordS p.2).foldl (fun st sec => register st sec p.2 p.1.1 (readerAt p.1.2 sec)) st) {}

/-- A (hypothetical, wrong) file loader that starts at field id 1. -/
def loadFileSkip0 (numDocs : Nat) (tbl : FieldTable) (ordS : Nat → List Nat) : DvState :=
  if numDocs = 0 then {} else
  (tbl.zipIdx.drop 1).foldl (fun st p =>
    (ordS p.2).foldl (fun st sec => register st sec p.2 p.1.1 (readerAt p.1.2 sec)) st) {}

/-- `VisitableDocValueFields` as a set. -/
def DvState.visitable (st : DvState) (n : Name) : Bool := st.names.contains n

end Zap.Loaders
