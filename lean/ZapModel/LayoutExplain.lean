/-
  ZapModel.LayoutExplain: a scratch runner around the driver that, for every `dumpfile`
  observation of a transcript on stdin, prints `Layout.explainDump` (why the file does
  not decode to the model content, or "ok").  Not part of any library target; run with

      cd /verif/lean && zxh run < script | lake env lean --run ZapModel/LayoutExplain.lean

  Lines: `DUMP <line> <file> <bytes> | <reason>`; the last line is a summary.
-/
import ZapModel.Driver
open Zap Zap.Script Zap.Driver

/-- Feed one transcript line to the driver state (same as Main.processLine without the
    verdict bookkeeping). -/
def stepLine (st : St) (no : Nat) (line : String) : St :=
  if line.startsWith "r " ∨ line == "r" then
    match st.pending with
    | none => st
    | some c =>
      let got := (line.drop 2).trimAscii.toString
      let st := { st with pending := none }
      let (st, _) := commandObs st c
      applyTick st c got
  else
    let st := match st.pending with
      | none => st
      | some c => (commandObs { st with pending := none } c).1
    match parseLine no line with
    | none => st
    | some c =>
      match st.batchName with
      | some bn =>
        if c.op == "endbatch" then
          { st with batches := st.batches.insert bn (parseBatchLines st.batchLines.reverse), batchName := none, batchLines := [] }
        else { st with batchLines := c :: st.batchLines }
      | none =>
        if c.op == "batch" then { st with batchName := some (c.arg 0), batchLines := [] }
        else { st with pending := some c }

partial def loop (h : IO.FS.Stream) (st : St) (no ok bad : Nat) : IO (Nat × Nat) := do
  let line ← h.getLine
  if line.isEmpty then return (ok, bad)
  let line := (line.dropEndWhile (fun ch => ch == '\n' || ch == '\r')).toString
  let mut ok := ok
  let mut bad := bad
  if line.startsWith "r " then
    match st.pending with
    | some c =>
      if c.op == "dumpfile" then
        let got := (line.drop 2).trimAscii.toString
        match st.files.get? (c.arg 0) with
        | none => IO.println s!"DUMP {c.lineNo} {c.arg 0} | model has no such file"
        | some s =>
          let why := Layout.explainDump s got
          if why == "ok" then ok := ok + 1 else bad := bad + 1
          IO.println s!"DUMP {c.lineNo} {c.arg 0} {(got.length - 13) / 2} | {why}"
    | none => pure ()
  loop h (stepLine st no line) (no + 1) ok bad

def main (args : List String) : IO UInt32 := do
  let stdin ← IO.getStdin
  let st0 : St := { clears1Hit := !(args.contains "--pinned-read") }
  let (ok, bad) ← loop stdin st0 1 0 0
  IO.println s!"DUMPSUMMARY ok={ok} bad={bad}"
  return (if bad == 0 then 0 else 1)
