/-
  ZapModel.BuildArrays: the builder's two shared backing arrays
  (`freqNormsBacking`, `locsBacking`) as they are really used by
  `invertedIndexOpaque.realloc` (count pass + carving) and
  `invertedIndexOpaque.process` (fill pass), section_inverted_text_index.go:672-900,
  and read by `writeDicts` (section_inverted_text_index.go:460-545).

  What the frozen entry-level model (`ZapModel.Build.processDocs`) does NOT
  capture and this one does:

  * `processDocs` gives every (field, term) its own private, unbounded list
    (`appendEntry`).  The Go code gives every postings list a *window* of one
    shared array: `FreqNorms[pid] = freqNormsBacking[0:0]` after
    `freqNormsBacking = freqNormsBacking[numTerms:]`, i.e. a slice of LENGTH 0
    whose CAPACITY runs to the END of the array, not to the end of its own
    share.  `append` on such a slice writes in place as long as `len < cap`,
    so a list that receives more elements than were counted for it silently
    overwrites the first cells of the NEXT list.  Here `Arena.push` writes at
    `start + len` whatever the list's own share is; only when the end of the
    array is reached does the slice detach (`Slice.own`, Go's reallocation).
  * the shares come from a separate COUNT pass that walks every field
    *instance* of every document (composites, then fields; no exclusion of
    synonym / vector fields), whereas the FILL pass appends once per *merged*
    field (instances of one name within a document are merged by
    `TokenFrequencies.MergeAll`) and only for fields the section processes.
    Correctness needs `appended ≤ counted` for every list at every moment.
  * a reused opaque keeps the previous arrays when their capacity suffices
    (`i.freqNormsBacking[:totTFs]`): cells start with STALE content and the
    capacity can exceed the new total.  `mkBacking stale tot` models this.
  * a term that was counted but never filled (a token of a field the section
    excludes) has an empty postings list; `writePostings` returns offset 0 and
    the term is not inserted into the FST (`if postingsOffset > 0`).
  * the postings-list id of a (field, term) is looked up through the per-field
    map `Dicts[fid][term]` filled by the count pass; a miss would be pid
    `2^64-1` (index out of range): `Fill.bad`.

  Deliberate simplifications (each argued in the file):
  * the roaring bitmap `Postings[pid]` is folded into the freq/norm cell (`FN.doc`):
    `writeDicts` pairs the k-th document of the bitmap with `freqNorms[k]`; documents are
    added in increasing order, one per list per document, so bitmap order is
    append order (`C01_arrays_docs_asc` in ZapProofs/Props/C01Arrays.lean);
  * Go's map iteration order over a field's terms is a permutation parameter:
    the count pass takes the instance's `toks` order, the fill pass the order
    of the merged `docAcc` (the theorem holds for the orders given; different
    (field, term) pairs go to different lists, so the order is immaterial).
-/
import ZapModel.Build

namespace Zap.Arr
open Zap

/-! ### Cells, slices, arenas -/

/-- `interimFreqNorm` plus the document number (the bitmap position it is paired with).
    `normLen` is `uint32(reusableFieldLens[fid])`, stored whatever the frequency;
    the writer drops it when `freq = 0` (`normOf` at read-back). -/
structure FN where
  doc : Nat
  freq : Nat
  normLen : Nat
  numLocs : Nat
  deriving Repr, DecidableEq, Inhabited

/-- A Go slice header over the shared array (`view start len`, capacity = to the
    end of the array) or, after `append` had to reallocate, a private array. -/
inductive Slice (α : Type) where
  | view (start len : Nat)
  | own (cells : List α)
  deriving Repr, DecidableEq

/-- One backing array with its per-pid slice headers.  `none` = a cell of a
    freshly `make`d array (zero value); `bad` = an index-out-of-range panic. -/
structure Arena (α : Type) where
  back : Array (Option α)
  sl : List (Slice α)
  bad : Bool := false
  deriving Repr

def readCells {α : Type} [Inhabited α] (back : Array (Option α)) (st len : Nat) : List α :=
  (back.extract st (st + len)).toList.map (fun c => c.getD default)

/-- `FreqNorms[pid] = append(FreqNorms[pid], x)`: in place at `start + len` while
    `len < cap` (cap = to the END of the backing array, whoever owns that cell). -/
def Arena.push {α : Type} [Inhabited α] (A : Arena α) (pid : Nat) (x : α) : Arena α :=
  match A.sl[pid]? with
  | none => { A with bad := true }
  | some (.view st len) =>
    if st + len < A.back.size then
      { A with back := A.back.setIfInBounds (st + len) (some x), sl := A.sl.set pid (.view st (len + 1)) }
    else { A with sl := A.sl.set pid (.own (readCells A.back st len ++ [x])) }
  | some (.own cs) => { A with sl := A.sl.set pid (.own (cs ++ [x])) }

def Arena.pushAll {α : Type} [Inhabited α] (A : Arena α) (pid : Nat) (xs : List α) : Arena α :=
  xs.foldl (fun A x => A.push pid x) A

/-- the elements of slice `pid` (`len` of them) -/
def Arena.read {α : Type} [Inhabited α] (A : Arena α) (pid : Nat) : List α :=
  match A.sl[pid]? with
  | none => []
  | some (.view st len) => readCells A.back st len
  | some (.own cs) => cs

/-- `for pid, n := range counts { S[pid] = backing[0:0]; backing = backing[n:] }` -/
def carve {α : Type} : Nat → List Nat → List (Slice α)
  | _, [] => []
  | off, n :: ns => .view off 0 :: carve (off + n) ns

/-- `if cap(backing) >= tot { backing = backing[:tot] } else { backing = make(tot) }`:
    `stale` is the old array up to its capacity; reslicing keeps content and capacity. -/
def mkBacking {α : Type} (stale : List α) (tot : Nat) : Array (Option α) :=
  if tot ≤ stale.length then (stale.map some).toArray else Array.replicate tot none

/-! ### Count pass (`realloc`, `visitField`) -/

structure Counts where
  /-- `Dicts[fid][term] = pid` (Go stores `pid + 1`); insertion order = `DictKeys[fid]` before the sort -/
  dicts : List (List (Bytes × Nat))
  /-- `numTermsPerPostingsList`; its length is `pidNext` -/
  nT : List Nat
  /-- `numLocsPerPostingsList` -/
  nL : List Nat
  totTFs : Nat
  totLocs : Nat
  deriving Repr

/-- one iteration of `for term, tf := range tfs` in `visitField` -/
def countTok (fid : Nat) (c : Counts) (tok : Tok) : Counts :=
  let (c1, pid) :=
    match lookup tok.term (c.dicts.getD fid []) with
    | some pid => (c, pid)
    | none =>
      ({ c with dicts := c.dicts.modify fid (· ++ [(tok.term, c.nT.length)]),
                nT := c.nT ++ [0], nL := c.nL ++ [0] }, c.nT.length)
  { c1 with nT := c1.nT.modify pid (· + 1),
            nL := c1.nL.modify pid (· + tok.locs.length),
            totLocs := c1.totLocs + tok.locs.length }

/-- `visitField(field, docNum)`: every instance, no exclusion check -/
def countField (tbl : List Name) (c : Counts) (f : FieldIn) : Counts :=
  let c1 := f.toks.foldl (countTok (fieldIdOf tbl f.name)) c
  { c1 with totTFs := c1.totTFs + f.toks.length }

/-- `result.VisitComposite(visitField); result.VisitFields(visitField)` -/
def countDoc (tbl : List Name) (c : Counts) (d : DocIn) : Counts :=
  d.visitOrder.foldl (countField tbl) c

def countPass (tbl : List Name) (b : Batch) : Counts :=
  b.foldl (countDoc tbl) { dicts := tbl.map (fun _ => []), nT := [], nL := [], totTFs := 0, totLocs := 0 }

/-! ### Fill pass (`process` with `fieldID == MaxUint16`) -/

/-- One `(fid, term)` iteration of the end-of-document loop. -/
structure Ev where
  fid : Nat
  term : Bytes
  doc : Nat
  freq : Nat
  len : Nat
  locs : List MLoc
  deriving Repr, DecidableEq

def Ev.cell (e : Ev) : FN := { doc := e.doc, freq := e.freq, normLen := e.len, numLocs := e.locs.length }

/-- what the writer makes of the cell and its locations -/
def Ev.entry (e : Ev) : Entry := { doc := e.doc, freq := e.freq, norm := normOf e.len e.freq, locs := e.locs }

def mkEv (tbl : List Name) (doc : Nat) (a : FieldAcc) (tf : TF) : Ev :=
  { fid := fieldIdOf tbl a.name, term := tf.term, doc := doc, freq := tf.freq, len := a.len,
    locs := tf.locs.map (resolveLoc tbl (fieldIdOf tbl a.name)) }

structure Fill where
  fn : Arena FN
  loc : Arena MLoc
  bad : Bool := false
  deriving Repr

/-- `pid := dict[term] - 1; FreqNorms[pid] = append(...); if len(tf.Locations) > 0 { locs := Locs[pid];
    for ... { locs = append(locs, ...) }; Locs[pid] = locs }` -/
def fillEv (c : Counts) (S : Fill) (ev : Ev) : Fill :=
  match lookup ev.term (c.dicts.getD ev.fid []) with
  | none => { S with bad := true }
  | some pid =>
    { S with fn := S.fn.push pid ev.cell,
             loc := if ev.locs.length > 0 then S.loc.pushAll pid ev.locs else S.loc }

def fillDoc (vectors : Bool) (tbl : List Name) (c : Counts) (S : Fill) (doc : Nat) (d : DocIn) : Fill :=
  (docAcc vectors d).foldl (fun S a => a.tfs.foldl (fun S tf => fillEv c S (mkEv tbl doc a tf)) S) S

def fillPass (vectors : Bool) (tbl : List Name) (c : Counts) (S : Fill) (b : Batch) : Fill :=
  (b.zipIdx).foldl (fun S p => fillDoc vectors tbl c S p.2 p.1) S

/-- the arrays as `realloc` leaves them -/
def initFill (c : Counts) (staleFN : List FN) (staleLoc : List MLoc) : Fill :=
  { fn := { back := mkBacking staleFN c.totTFs, sl := carve 0 c.nT },
    loc := { back := mkBacking staleLoc c.totLocs, sl := carve 0 c.nL } }

/-! ### Reading back (`writeDicts`) -/

/-- `locs[locOffset : locOffset+numLocs]; locOffset += numLocs` per freq/norm cell -/
def splitLocs : List MLoc → List FN → List Entry
  | _, [] => []
  | ls, c :: cs =>
    { doc := c.doc, freq := c.freq, norm := normOf c.normLen c.freq, locs := ls.take c.numLocs } ::
      splitLocs (ls.drop c.numLocs) cs

def readBack (S : Fill) (pid : Nat) : List Entry := splitLocs (S.loc.read pid) (S.fn.read pid)

/-- per field: terms ascending (`sort.Strings(DictKeys[fid])`), `pid := dict[term] - 1`, the entries
    read back; an empty list is not inserted (`if postingsOffset > 0`). -/
def dictOf (S : Fill) (d : List (Bytes × Nat)) : List (Bytes × List Entry) :=
  (sortNames (d.map (·.1))).filterMap (fun t =>
    ((lookup t d).bind (fun pid => let es := readBack S pid; if es.isEmpty then none else some es)).map
      (fun es => (t, es)))

def dictsOf (c : Counts) (S : Fill) : Dicts :=
  if S.bad || S.fn.bad || S.loc.bad then [] else c.dicts.map (dictOf S)

/-- the whole pipeline with given counts (the counts are a parameter so that the effect of a wrong
    count can be exhibited) -/
def buildWith (vectors : Bool) (b : Batch) (c : Counts) (staleFN : List FN) (staleLoc : List MLoc) : Dicts :=
  dictsOf c (fillPass vectors (fieldTable b) c (initFill c staleFN staleLoc) b)

/-- build on a reused opaque whose old arrays hold `staleFN` / `staleLoc` -/
def buildDictsArraysFrom (staleFN : List FN) (staleLoc : List MLoc) (vectors : Bool) (b : Batch) : Dicts :=
  buildWith vectors b (countPass (fieldTable b) b) staleFN staleLoc

/-- build on a fresh opaque -/
def buildDictsArrays (vectors : Bool) (b : Batch) : Dicts := buildDictsArraysFrom [] [] vectors b

/-! ### Executable cross-check against the entry-level model -/

def dictsAgree (A D : Dicts) : Bool :=
  A.length == D.length &&
  (List.range D.length).all (fun fid =>
    let a := A.getD fid []
    let d := D.getD fid []
    (a.map (·.1) ++ d.map (·.1)).all (fun t => decide (lookup t a = lookup t d)))

def junkFN : FN := { doc := 4242, freq := 77, normLen := 99, numLocs := 3 }
def junkLoc : MLoc := { fid := 4242, pos := 7, start := 8, stop := 9, ap := [1, 2] }

/-- compares the array-level build with `processDocs` on every (field, term) either of them has;
    run once on fresh arrays and once on reused arrays full of junk with spare capacity. -/
def arraysAgree (vectors : Bool) (b : Batch) : Bool :=
  let D := processDocs vectors (fieldTable b) b
  let c := countPass (fieldTable b) b
  dictsAgree (buildDictsArrays vectors b) D &&
  dictsAgree (buildDictsArraysFrom (List.replicate (c.totTFs + 2) junkFN)
    (List.replicate (c.totLocs + 2) junkLoc) vectors b) D

end Zap.Arr
