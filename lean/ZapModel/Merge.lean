/-
  ZapModel.Merge: model of `mergeToWriter` (merge.go), the k-way enumerator
  (enumerator.go) and the inverted / synonym / vector section merges.
-/
import ZapModel.Query
import ZapModel.Build

namespace Zap

/-! ### Field union (`mergeFields`) -/

/-- `fieldsSame` exactly as coded: the comparison happens only inside the loop
    over each segment's fields, position by position against segment 0. -/
def fieldsSameAsCoded (segs : List Seg) : Bool :=
  match segs with
  | [] => true
  | s0 :: _ =>
    let f0 := s0.fieldNames
    segs.all (fun s =>
      let fs := s.fieldNames
      (fs.zipIdx).all (fun p => f0.length = fs.length && f0.getD p.2 [] = p.1))

def mergedFieldNames (segs : List Seg) : List Name :=
  let all := segs.flatMap (·.fieldNames)
  idName :: sortNames ((all.foldl getOrDefine []).filter (· ≠ idName))

/-! ### Renumbering (`mergeStoredAndRemap`, `computeNewDocCount`) -/

def isDropped (drops : Option (List Nat)) (d : Nat) : Bool :=
  match drops with
  | none => false
  | some l => l.contains d

/-- New numbers for one segment starting at `start`: `none` = dropped sentinel. -/
def remapSeg (numDocs : Nat) (drops : Option (List Nat)) (start : Nat) : List (Option Nat) × Nat :=
  (List.range numDocs).foldl (fun (acc : List (Option Nat) × Nat) d =>
    if isDropped drops d then (acc.1 ++ [none], acc.2) else (acc.1 ++ [some acc.2], acc.2 + 1)) ([], start)

def remapAll : List Seg → List (Option (List Nat)) → Nat → List (List (Option Nat))
  | [], _, _ => []
  | s :: ss, ds, start =>
    let d := ds.headD none
    let (m, next) := remapSeg s.numDocs d start
    m :: remapAll ss ds.tail next

/-- `computeNewDocCount`: Σ numDocs − Σ |drops| (cardinalities, as coded). -/
def newDocCount (segs : List Seg) (drops : List (Option (List Nat))) : Nat :=
  (segs.zip (drops ++ List.replicate segs.length none)).foldl (fun acc p =>
    acc + p.1.numDocs - (match p.2 with | none => 0 | some l => l.eraseDups.length)) 0

/-! ### Enumerator -/

/-- State: per iterator the remaining (key, value) list. One step of
    `updateMatches`: lowest key among current heads (skipping empty keys when
    `skipEmpty`), and the indices that carry it. -/
def enumLow (skipEmpty : Bool) (its : List (List (Bytes × Nat))) : Option (Bytes × List Nat) :=
  (its.zipIdx).foldl (fun (acc : Option (Bytes × List Nat)) p =>
    match p.1 with
    | [] => acc
    | (k, _) :: _ =>
      if k.isEmpty && skipEmpty then acc else
      match acc with
      | none => some (k, [p.2])
      | some (lowK, idxs) =>
        if Bytes.lt k lowK then some (k, [p.2])
        else if k = lowK then some (lowK, idxs ++ [p.2])
        else acc) none

/-- All (key, iterator index, value) triples the enumerator yields. -/
def enumerate (its : List (List (Bytes × Nat))) : List (Bytes × Nat × Nat) :=
  let fuel := (its.map List.length).foldl (· + ·) 0 + 1
  let rec go (fuel : Nat) (first : Bool) (its : List (List (Bytes × Nat))) : List (Bytes × Nat × Nat) :=
    match fuel with
    | 0 => []
    | fuel + 1 =>
      match enumLow (!first) its with
      | none => []
      | some (k, idxs) =>
        let out := idxs.map (fun i => (k, i, ((its.getD i []).headD ([], 0)).2))
        let its' := (its.zipIdx).map (fun p => if idxs.contains p.2 then p.1.tail else p.1)
        out ++ go fuel false its'
  go fuel true its

/-! ### Inverted section merge -/

/-- Survivors of one input postings list, renumbered. -/
def survivors (m : List (Option Nat)) (es : List Entry) : List Entry :=
  es.filterMap (fun e => match m.getD e.doc none with
    | none => none
    | some d => some { e with doc := d })

/-- Field-id translation of the re-encode path (`fieldsMap[loc.Field()]-1`):
    through the *name* of the source field. -/
def translateLocs (srcNames dstNames : List Name) (ls : List MLoc) : List MLoc :=
  ls.map (fun l => { l with fid := fieldIdOf dstNames (srcNames.getD l.fid []) })

/-- One term of one field merged over the inputs that carry it, in iterator
    order: per input the surviving entries.  `same` = the byte-copy path (ids
    untouched). -/
def mergeTermParts (same : Bool) (dstNames : List Name)
    (parts : List (List Name × List (Option Nat) × PostRep)) : List (List Entry) :=
  parts.map (fun p =>
    let es := survivors p.2.1 p.2.2.entries
    if same then es else es.map (fun e => { e with locs := translateLocs p.1 dstNames e.locs }))

/-- `use1HitEncoding` + `writePostings`: the representation chosen for a term.
    `lastDocNum/lastFreq/lastNorm` are those returned by the merge of the *last*
    input carrying the term (zero when that input contributed no survivor). -/
def chooseRep (parts : List (List Entry)) : Option PostRep :=
  let es := parts.flatMap id
  match es with
  | [] => none                                    -- empty postings: term not inserted
  | [e] =>
    let last := (parts.getLast?.getD []).getLast?
    let (lastDoc, lastFreq, lastNorm) := match last with
      | none => (0, 0, 0)
      | some l => (l.doc, l.freq, l.norm)
    -- the 1-hit form keeps 31 norm bits and is recognised by the reader through those bits being
    -- non-zero (`normBits1Hit != 0`): norm bits that are zero or need the 32nd bit take the general
    -- form (the repair of defect D14; `chooseRepD14` below is the choice as it was)
    if e.locs.isEmpty ∧ Gen.under32Bits e.doc = true ∧ e.doc = lastDoc ∧ lastFreq = 1 ∧
        lastNorm ≠ 0 ∧ Gen.under32Bits lastNorm = true then
      let dn := Gen.FSTValDecode1Hit (Gen.FSTValEncode1Hit e.doc lastNorm)
      some (.oneHit dn.1 dn.2)
    else some (.general [e])
  | es => some (.general es)

/-- `use1HitEncoding` as it was before the repair of D14: no condition on the norm bits. -/
def chooseRepD14 (parts : List (List Entry)) : Option PostRep :=
  let es := parts.flatMap id
  match es with
  | [] => none
  | [e] =>
    let last := (parts.getLast?.getD []).getLast?
    let (lastDoc, lastFreq, lastNorm) := match last with
      | none => (0, 0, 0)
      | some l => (l.doc, l.freq, l.norm)
    if e.locs.isEmpty ∧ Gen.under32Bits e.doc = true ∧ e.doc = lastDoc ∧ lastFreq = 1 then
      let dn := Gen.FSTValDecode1Hit (Gen.FSTValEncode1Hit e.doc lastNorm)
      some (.oneHit dn.1 dn.2)
    else some (.general [e])
  | es => some (.general es)

def dvMerge (m : List (Option Nat)) (dv : List (Nat × List Bytes)) : List (Nat × List Bytes) :=
  dv.filterMap (fun p => match m.getD p.1 none with
    | none => none
    | some d => some (d, p.2))


/-- Synonym merge for one field (thesaurus).  `emptyLhsBug` mirrors the
    `prevTerm != nil` test (true on the pinned tree): the empty LHS term is
    never finished and its pairs fold into the next term. -/
def mergeThes (parts : List (List (Option Nat) × Thes)) : Option Thes :=
  if parts.isEmpty then none else
  let its := parts.map (fun p => p.2.terms.map (fun t => (t.1, 0)))
  let keys := (enumerate its).map (·.1) |>.eraseDups
  -- walk terms ascending, inputs in order, codes ascending: assign new ids by first appearance
  let walk := keys.foldl (fun (acc : List Bytes × List (Bytes × List (Nat × Nat))) k =>
    let (ids, out) := acc
    let (ids, codes) := parts.foldl (fun (a : List Bytes × List (Nat × Nat)) p =>
      match lookup k p.2.terms with
      | none => a
      | some cs => cs.foldl (fun (a : List Bytes × List (Nat × Nat)) c =>
          match p.1.getD c.2 none with
          | none => a
          | some nd =>
            let syn := (lookup c.1 p.2.table).getD []
            let ids := getOrDefine a.1 syn
            (ids, insertCode (synIdOf ids syn, nd) a.2)) a) (ids, [])
    (ids, out ++ [(k, codes)])) ([], [])
  some { terms := walk.2.filter (fun p => !p.2.isEmpty),
         table := (walk.1.zipIdx).map (fun p => (p.2, p.1)) }

def mergeVec (parts : List (List (Option Nat) × VecIx)) : Option VecIx :=
  match parts with
  | [] => none
  | (_, v0) :: _ =>
    let vecs := parts.flatMap (fun p => p.2.vecs.filterMap (fun dv =>
      match p.1.getD dv.1 none with
      | none => none
      | some nd => some (nd, dv.2)))
    if vecs.isEmpty then none
    else some { dim := v0.dim, metric := v0.metric, opt := (parts.getLast?.map (·.2.opt)).getD v0.opt, vecs := vecs }

/-- `mergeToWriter`. -/
def mergeSegs (vectors : Bool) (mode : Nat) (segs : List Seg) (drops : List (Option (List Nat))) :
    Seg × List (List (Option Nat)) :=
  let names := mergedFieldNames segs
  let same := fieldsSameAsCoded segs
  let n := newDocCount segs drops
  if n = 0 then
    -- nothing survives: an empty segment carries only the `_id` record (as one built from an empty batch)
    -- (the maps are returned all the same: every document of every input is marked as dropped - the
    -- repair of defect D15; before it no map at all came back)
    ({ chunkMode := mode, numDocs := 0, fields := (names.take 1).map (fun nm => { name := nm }), stored := [] },
     remapAll segs drops 0)
  else
  let maps := remapAll segs drops 0
  let stored := (segs.zip maps).flatMap (fun p =>
    ((p.1.stored.zipIdx).filterMap (fun sd =>
      match p.2.getD sd.2 none with
      | none => none
      | some _ => some { sd.1 with vals := sd.1.vals.map (fun v =>
          { v with fid := fieldIdOf names (p.1.nameOf v.fid) }) })))
  let fields := names.map (fun nm =>
    -- segments "in focus": those whose dictionary for this field has at least one key
    let focus := (segs.zip maps).filter (fun p => !(p.1.dictTerms nm).isEmpty)
    let its := focus.map (fun p => (p.1.dictTerms nm).map (fun t => (t.1, 0)))
    let keys := ((enumerate its).map (·.1)).eraseDups
    let terms := keys.filterMap (fun k =>
      let parts := focus.filterMap (fun p => (lookup k (p.1.dictTerms nm)).map (fun r => (p.1.fields.map (·.name), p.2, r)))
      (chooseRep (mergeTermParts same names parts)).map (fun r => (k, r)))
    -- doc values are copied from EVERY input that has them for this field, in focus or not (a field
    -- may carry doc values - encoded shapes - without a single term; before fix D11 those were lost)
    let dvParts := (segs.zip maps).filterMap (fun p => match p.1.field? nm with
      | none => none
      | some f => f.dv.map (fun dv => dvMerge p.2 dv))
    let thesParts := (segs.zip maps).filterMap (fun p => (p.1.thes? nm).map (fun t => (p.2, t)))
    let vecParts := (segs.zip maps).filterMap (fun p => match p.1.field? nm with
      | none => none
      | some f => f.vec.map (fun v => (p.2, v)))
    ({ name := nm, terms := terms,
       dv := if dvParts.isEmpty then none else some (dvParts.flatMap id),
       thes := mergeThes thesParts,
       vec := if vectors then mergeVec vecParts else none } : FieldM))
  ({ chunkMode := mode, numDocs := n, fields := fields, stored := stored }, maps)

end Zap
