/-
  ZapModel.SpecSyn: what a user may rely on for the synonym (thesaurus) section
  — stated per query on the input batch, never by accumulating state — and the
  domain on which the model of `synonymIndexOpaque.realloc` / `process` /
  `writeThesauri` / `mergeAndPersistSynonymSection` is proved against it
  (ZapProofs/Props/C12.lean, C13.lean).  Core-only.
-/
import ZapModel.Merge

namespace Zap.Spec
open Zap

/-! ### A batch's synonym definitions -/

/-- The definitions document `d` contributes to thesaurus `n`: those of its
    fields of kind `.syn` named `n`, in field order. -/
def synDefs (d : DocIn) (n : Name) : List SynDefn :=
  (d.fields.filter (fun f => f.kind == .syn && f.name = n)).flatMap (·.defs)

/-- All `(syn, d)` pairs such that document number `d` (index in the batch)
    defines `term → syn` in thesaurus `n`.  A *set*: only membership matters
    (a pair defined twice is listed twice here). -/
def synPairs (b : Batch) (n : Name) (term : Bytes) : List (Bytes × Nat) :=
  b.zipIdx.flatMap (fun p =>
    ((synDefs p.1 n).filter (fun df => df.lhs = term)).flatMap (fun df => df.rhs.map (fun s => (s, p.2))))

/-- The pairs whose document is not excluded. -/
def synonyms (b : Batch) (n : Name) (term : Bytes) (ex : Option (List Nat)) : List (Bytes × Nat) :=
  (synPairs b n term).filter (fun p => !excluded ex p.2)

/-- The LHS terms of thesaurus `n` having at least one pair (a set). -/
def thesTermsSet (b : Batch) (n : Name) : List Bytes :=
  b.flatMap (fun d => ((synDefs d n).filter (fun df => !df.rhs.isEmpty)).map (·.lhs))

/-- Some document of the batch has a synonym field named `n`. -/
def hasSynField (b : Batch) (n : Name) : Prop :=
  ∃ d ∈ b, ∃ f ∈ d.fields, f.kind = .syn ∧ f.name = n

/-! ### Domain -/

/-- Well-formed synonym input.  One clause per guard of the real code:

    * `plain = false` — synonym fields occur only in documents implementing
      `index.SynonymDocument`.  `synonymIndexOpaque.realloc`
      (section_synonym_index.go:184, 193: `if synDoc, ok := result.(index.SynonymDocument)`)
      visits only such documents, while `synonymIndexSection.Process` (line 416:
      `if sf, ok := field.(index.SynonymField)`) is called for every synonym
      field of every document.  For a synonym field in a plain document
      `so.FieldIDtoThesaurusID[fieldID]` (line 154), `thesaurus[term] - 1` (line 162) and
      `termSynMap[syn]` (line 167) would be read without having been defined.
      USED by the Lean proofs (C12_* are false without it: ids missing, and
      `hasThes` false while pass 2 still sees the field).
    * `rhs ≠ []` — a thesaurus none of whose definitions has a synonym gets an
      empty `SynonymIDtoTerm`; `writeSynTermMap` (line 524 `if len(synTermMap) == 0
      { return nil }`) then writes nothing and the loader
      (synonym_cache.go:84-88) reads the next bytes as the count.  Not used by
      the Lean proofs (the model drops such definitions, as `writeSynonyms`
      returning offset 0 at lines 495-497 does).  The weaker "every thesaurus has
      some synonym" would do for the loader; the per-definition form is what the
      generators guarantee.
    * synonym terms `≠ []` — the loader rejects a zero-length synonym term
      (synonym_cache.go:95 `if termLen == 0 { return ... "term length is 0" }`).
      Not used by the Lean proofs.

    NOT a clause: LHS terms may be empty.  The pinned tree lost the empty LHS
    term in `mergeAndPersistSynonymSection` (`prevTerm != nil` took the empty
    previous term for "no previous term"; finding D4); that defect is fixed in
    /repo ("fix: synonym merge lost the empty left-hand term", a `seenTerm`
    flag), the model's `mergeThes` / `enumerate` keep the empty key, and the
    differential generators produce it. -/
def SynWF (b : Batch) : Prop :=
  ∀ d ∈ b, ∀ f ∈ d.fields, f.kind = .syn →
    d.plain = false ∧
    ∀ df ∈ f.defs, df.rhs ≠ [] ∧ ∀ s ∈ df.rhs, s ≠ []

instance (b : Batch) : Decidable (SynWF b) := by unfold SynWF; infer_instance

/-- The only clause the model proofs need. -/
def SynPlainOK (b : Batch) : Prop :=
  ∀ d ∈ b, ∀ f ∈ d.fields, f.kind = .syn → d.plain = false

instance (b : Batch) : Decidable (SynPlainOK b) := by unfold SynPlainOK; infer_instance

theorem SynWF.plainOK {b : Batch} (h : SynWF b) : SynPlainOK b :=
  fun d hd f hf hk => (h d hd f hf hk).1

/-! ### Well-formed thesauri (what `writeThesauri` and the synonym merge produce) -/

/-- Order of the 64-bit codes `synonymID << 32 | docNum` (roaring64 iteration order). -/
def CodeLt (a b : Nat × Nat) : Prop := a.1 < b.1 ∨ (a.1 = b.1 ∧ a.2 < b.2)

instance : DecidableRel CodeLt := fun a b => by unfold CodeLt; infer_instance

/-- * terms strictly ascending by key (vellum FST);
    * every term has a non-empty (only non-empty postings are inserted),
      strictly ascending (bitmap) code list;
    * every code's synonym id has an entry in the id → term table;
    * table ids distinct (it is a map), table terms distinct (ids are assigned
      through the inverse map `termSynMap`). -/
structure ThesWF (t : Thes) : Prop where
  sorted : SortedLt (t.terms.map (·.1))
  codesAsc : ∀ p ∈ t.terms, p.2 ≠ [] ∧ p.2.Pairwise CodeLt
  idKnown : ∀ p ∈ t.terms, ∀ c ∈ p.2, (lookup c.1 t.table).isSome = true
  idsDistinct : (t.table.map (·.1)).Nodup
  synsDistinct : (t.table.map (·.2)).Nodup

/-- Every thesaurus of a segment is well formed. -/
def SegThesWF (s : Seg) : Prop := ∀ n t, s.thes? n = some t → ThesWF t

/-! ### Renaming internal synonym ids -/

/-- The same thesaurus with synonym ids renamed by `f` (codes re-sorted, as a
    bitmap would hold them). -/
def renameThes (f : Nat → Nat) (t : Thes) : Thes :=
  { terms := t.terms.map (fun p => (p.1, (p.2.map (fun c => (f c.1, c.2))).foldl (fun l c => insertCode c l) [])),
    table := t.table.map (fun e => (f e.1, e.2)) }

/-- Rename the ids of every thesaurus of a segment (per field a renaming). -/
def renameSegThes (f : Name → Nat → Nat) (s : Seg) : Seg :=
  { s with fields := s.fields.map (fun fm => { fm with thes := fm.thes.map (renameThes (f fm.name)) }) }

end Zap.Spec
