/-
  ZapModel.Writer: BYTE-LEVEL models of the zapx v16 WRITERS (the counterpart of
  `ZapModel.Layout`, the independent decoder), plus list-level twins of Layout's
  array-based decoders (same reads, same checks, same order; `Bytes` instead of
  `ByteArray` + cursor; Layout's 10-byte / 64-bit uvarint rule: `uv64`).

  Writers modelled (Go source, read-only /repo):
    A  new.go `writeStoredFields` + build.go `persistStoredFieldValues`
         -> `encodeStoredDoc`
    B  section_inverted_text_index.go `writeDicts` (per-term loop) through
       intcoder.go `chunkedIntCoder` (`Codec.intCoderEncode`)
         -> `encodeFreqNorm`, `encodeLocs`;  merge.go `writePostings` (general encoding) +
       intcoder.go `writeAt` -> `writePostings`, `locStream?`

  Theorems (ZapProofs/WriterLemmas*.lean, ZapProofs/Props/C09Bytes.lean):
    - the twins invert the writers (`decodeEntriesL`, `decodeStoredDocL`);
    - for EVERY `ByteArray`, what a twin accepts Layout's own function accepts with the
      same result (simulation), hence
    - Layout's own functions invert the writers.
-/
import ZapModel.Types
import ZapModel.Codec
import ZapModel.Gen.Pure

namespace Zap.Writer
open Zap Zap.Codec

/-! ## B. posting streams (writer) -/

/-- `freqNorm.numLocs > 0`. -/
def hasLocs (e : Entry) : Bool := !e.locs.isEmpty

/-- The values of the `tfEncoder.Add(docNum, ...)` call for one posting: the norm is
    left out when `freq = 0`. -/
def freqVals (e : Entry) : List Nat :=
  if e.freq = 0 then [Gen.encodeFreqHasLocs e.freq (hasLocs e)]
  else [Gen.encodeFreqHasLocs e.freq (hasLocs e), e.norm]

def freqAdds (es : List Entry) : List (Nat × List Nat) := es.map (fun e => (e.doc, freqVals e))

/-- `locEncoder.Add(docNum, fieldID, pos, start, end, len(arrayposs))`. -/
def locHead (l : MLoc) : List Nat := [l.fid, l.pos, l.start, l.stop, l.ap.length]

/-- new.go `totalUvarintBytes`. -/
def totalUvarintBytes (vs : List Nat) : Nat := (vs.map numUvarintBytes).sum

/-- `numBytesLocs` of the writer loop. -/
def numLocsBytes (ls : List MLoc) : Nat :=
  (ls.map (fun l => totalUvarintBytes (locHead l ++ l.ap))).sum

/-- The `locEncoder.Add` calls for one posting (none when it has no locations). -/
def locAddsOf (e : Entry) : List (Nat × List Nat) :=
  if e.locs.isEmpty then []
  else (e.doc, [numLocsBytes e.locs]) ::
    e.locs.flatMap (fun l => [(e.doc, locHead l), (e.doc, l.ap)])

def locAdds (es : List Entry) : List (Nat × List Nat) := es.flatMap locAddsOf

/-- The freq/norm stream of a postings list (`tfEncoder` after `Close`, `Write`). -/
def encodeFreqNorm (cs maxDoc : Nat) (es : List Entry) : Bytes :=
  intCoderEncode cs maxDoc (freqAdds es)

/-- The location stream (`locEncoder` after `Close`, `Write`). -/
def encodeLocs (cs maxDoc : Nat) (es : List Entry) : Bytes :=
  intCoderEncode cs maxDoc (locAdds es)

/-- `chunkedIntCoder.final` after the adds and `Close`. -/
def coderFinal (cs maxDoc : Nat) (adds : List (Nat × List Nat)) : Bytes :=
  ((adds.foldl (fun c a => c.add a.1 a.2) (IntCoder.new cs maxDoc)).close).final

/-- intcoder.go `writeAt`: nothing is written and offset 0 (`termNotEncoded`) is returned
    when `final` is empty; otherwise the stream is written at the current count. -/
def writeAt (count cs maxDoc : Nat) (adds : List (Nat × List Nat)) : Nat × Bytes :=
  if coderFinal cs maxDoc adds = [] then (0, []) else (count, intCoderEncode cs maxDoc adds)

/-- The location stream as `writeAt` leaves it: `none` = offset 0 = not written. -/
def locStream? (cs maxDoc : Nat) (es : List Entry) : Option Bytes :=
  if coderFinal cs maxDoc (locAdds es) = [] then none else some (encodeLocs cs maxDoc es)

structure PostingsOut where
  bytes : Bytes          -- everything appended to the file
  tfOffset : Nat
  locOffset : Nat
  postingsOffset : Nat   -- the FST value (general encoding)
  deriving Repr, DecidableEq

/-- merge.go `writePostings` (general encoding) with `count` bytes already written:
    freq/norm stream, location stream, then the record
    uvarint tfOffset, uvarint locOffset, uvarint len(roaring), roaring bytes. -/
def writePostings (count cs maxDoc : Nat) (es : List Entry) (roaring : Bytes) : PostingsOut :=
  let tf := writeAt count cs maxDoc (freqAdds es)
  let lc := writeAt (count + tf.2.length) cs maxDoc (locAdds es)
  let po := count + tf.2.length + lc.2.length
  { bytes := tf.2 ++ lc.2 ++ putUvarint tf.1 ++ putUvarint lc.1 ++ putUvarint roaring.length ++ roaring,
    tfOffset := tf.1, locOffset := lc.1, postingsOffset := po }

/-! ## uvarints as Layout reads them -/

/-- Twin of `Layout.uvLim.go`: at most `fuel` more bytes, the 10th at most 1 (Go's
    `binary.Uvarint` overflow rule). -/
def uv64Go : Nat → Bytes → Nat → Nat → Option (Nat × Bytes)
  | 0, _, _, _ => none
  | _ + 1, [], _, _ => none
  | fuel + 1, x :: r, sh, acc =>
    if x < 128 then
      if fuel = 0 ∧ x > 1 then none else some (acc + (x <<< sh), r)
    else uv64Go fuel r (sh + 7) (acc + ((x - 128) <<< sh))

/-- Twin of `Layout.uvLim` on the bytes of the region: value and remaining bytes. -/
def uv64 (bs : Bytes) : Option (Nat × Bytes) := uv64Go 10 bs 0 0

/-- `n` uvarints in a row. -/
def readN64 : Nat → Bytes → Option (List Nat × Bytes)
  | 0, bs => some ([], bs)
  | n + 1, bs =>
    match uv64 bs with
    | none => none
    | some (v, r) =>
      match readN64 n r with
      | none => none
      | some (vs, r') => some (v :: vs, r')

/-! ## B. posting streams (list-level twin of Layout's `readChunks`, `walkChunks`,
    `decFreq`, `decLocs`, and of the zipping loop of `decPostings`) -/

def nondec : List Nat → Bool
  | a :: b :: rest => a ≤ b && nondec (b :: rest)
  | _ => true

/-- Twin of `Layout.readChunks`: (END offsets, the bytes after the table). -/
def readChunksL (stream : Bytes) : Option (List Nat × Bytes) :=
  match uv64 stream with
  | none => none
  | some (n, rest) =>
    match readN64 n rest with
    | none => none
    | some (offs, data) =>
      if !nondec offs then none
      else if offs.getLastD 0 > data.length then none
      else some (offs, data)

def cstart (offs : List Nat) (k : Nat) : Nat := (chunkBoundary offs k).1
def cstop (offs : List Nat) (k : Nat) : Nat := (chunkBoundary offs k).2

/-- The bytes of chunk `k`. -/
def chunkBytes (offs : List Nat) (data : Bytes) (k : Nat) : Bytes :=
  (data.drop (cstart offs k)).take (cstop offs k - cstart offs k)

/-- Twin of the loop of `Layout.walkChunks`: `ci` the current chunk, `cur` what is left
    of it. -/
def walkL {α : Type} (offs : List Nat) (data : Bytes) (cs : Nat)
    (dec : Nat → Bytes → Option (α × Bytes)) : List Nat → Nat → Bytes → Option (List α)
  | [], ci, cur =>
    if cur = [] ∧ (offs.length = 0 ∨ cstop offs (offs.length - 1) = cstop offs ci) then some []
    else none
  | d :: ds, ci, cur =>
    let c := d / cs
    if c ≥ offs.length then none
    else if c = ci then
      match dec d cur with
      | none => none
      | some (a, cur') => (walkL offs data cs dec ds ci cur').map (a :: ·)
    else if c < ci ∨ cur ≠ [] ∨ cstart offs c ≠ cstop offs ci then none
    else
      match dec d (chunkBytes offs data c) with
      | none => none
      | some (a, cur') => (walkL offs data cs dec ds c cur').map (a :: ·)

/-- Twin of `Layout.readChunks` + `Layout.walkChunks`. -/
def walkChunksL {α : Type} (cs : Nat) (stream : Bytes) (docs : List Nat)
    (dec : Nat → Bytes → Option (α × Bytes)) : Option (List α) :=
  if cs = 0 then none else
  match readChunksL stream with
  | none => none
  | some (offs, data) => walkL offs data cs dec docs 0 (chunkBytes offs data 0)

/-- Twin of `Layout.decFreq`: (freq, norm, hasLocs). -/
def decFreqL (_doc : Nat) (cur : Bytes) : Option ((Nat × Nat × Bool) × Bytes) :=
  match uv64 cur with
  | none => none
  | some (v, r) =>
    let fh := Gen.decodeFreqHasLocs v
    if fh.1 ≠ 0 then
      match uv64 r with
      | none => none
      | some (nb, r') => some ((fh.1, nb, fh.2), r')
    else some ((0, 0, fh.2), r)

/-- One location: fieldID, pos, start, end, numArrayPos, arrayPos... -/
def readLoc (maxAp : Nat) (bs : Bytes) : Option (MLoc × Bytes) :=
  match readN64 5 bs with
  | some ([fid, pos, st, en, nap], r) =>
    if nap > maxAp then none else
    match readN64 nap r with
    | none => none
    | some (aps, r') => some ({ fid := fid, pos := pos, start := st, stop := en, ap := aps }, r')
  | _ => none

/-- Locations until the block is used up (at most `fuel` of them). -/
def parseLocs (maxAp : Nat) : Nat → Bytes → Option (List MLoc)
  | 0, bs => if bs = [] then some [] else none
  | fuel + 1, bs =>
    if bs = [] then some [] else
    match readLoc maxAp bs with
    | none => none
    | some (l, r) => (parseLocs maxAp fuel r).map (l :: ·)

/-- Twin of `Layout.decLocs`: uvarint numLocsBytes, then exactly that many bytes of
    locations.  The remainder is what `SkipBytes(numLocsBytes)` leaves. -/
def decLocsL (_doc : Nat) (cur : Bytes) : Option (List MLoc × Bytes) :=
  match uv64 cur with
  | none => none
  | some (nbytes, r) =>
    if nbytes > r.length then none else
    match parseLocs nbytes nbytes (r.take nbytes) with
    | none => none
    | some ls => some (ls, r.drop nbytes)

/-- Twin of the last loop of `Layout.decPostings`. -/
def zipLocs : List (Nat × (Nat × Nat × Bool)) → List (List MLoc) → Option (List Entry)
  | [], _ => some []
  | (d, f, n, true) :: fs, l :: rest =>
    (zipLocs fs rest).map ({ doc := d, freq := f, norm := n, locs := l } :: ·)
  | (_, _, _, true) :: _, [] => none
  | (d, f, n, false) :: fs, rest =>
    (zipLocs fs rest).map ({ doc := d, freq := f, norm := n, locs := [] } :: ·)

/-- Twin of `Layout.decPostings` after the record header and the bitmap: decode the
    entries of the documents `docs` from the freq/norm stream and the location stream
    (`none` = location offset 0). -/
def decodeEntriesL (cs : Nat) (docs : List Nat) (fstream : Bytes) (lstream : Option Bytes) :
    Option (List Entry) :=
  match walkChunksL cs fstream docs decFreqL with
  | none => none
  | some fs =>
    let items := docs.zip fs
    let locDocs := (items.filter (·.2.2.2)).map (·.1)
    match lstream with
    | none => if locDocs.isEmpty then zipLocs items [] else none
    | some ls =>
      match walkChunksL cs ls locDocs decLocsL with
      | none => none
      | some lss => zipLocs items lss

/-! ## A. stored documents (writer) -/

/-- Meta entry of one stored value: fieldID, type, offset, length, numArrayPos, arrayPos... -/
def valMeta (curr : Nat) (v : StoredVal) : List Nat :=
  [v.fid, v.typ, curr, v.val.length, v.ap.length] ++ v.ap

/-- `persistStoredFieldValues` over all values of the document; `curr` runs over ALL
    values. -/
def metaVals : Nat → List StoredVal → List Nat
  | _, [] => []
  | curr, v :: vs => valMeta curr v ++ metaVals (curr + v.val.length) vs

def storedData (vals : List StoredVal) : Bytes := vals.flatMap (·.val)

def storedMeta (sd : StoredDoc) : Bytes :=
  putUvarint sd.id.length ++ putUvarints (metaVals 0 sd.vals)

/-- new.go `writeStoredFields`, one document. -/
def encodeStoredDoc (compress : Bytes → Bytes) (sd : StoredDoc) : Bytes :=
  let comp := compress (storedData sd.vals)
  putUvarint (storedMeta sd).length ++ putUvarint (sd.id.length + comp.length) ++
    storedMeta sd ++ sd.id ++ comp

/-! ## A. stored documents (list-level twin of `Layout.decStoredDoc`) -/

/-- Twin of `Layout.uvAll`: all uvarints of a byte string, a truncated tail is an error. -/
def uvAllL : Nat → Bytes → Option (List Nat)
  | 0, _ => some []
  | fuel + 1, bs =>
    match bs with
    | [] => some []
    | _ => match uvarint bs with
      | none => none
      | some (v, rest) => (uvAllL fuel rest).map (v :: ·)

/-- Twin of `Layout.decStoredDoc.go`. -/
def storedGroups (raw : Bytes) : Nat → List Nat → Option (List StoredVal)
  | 0, _ => some []
  | fuel + 1, g =>
    match g with
    | [] => some []
    | fid :: typ :: o :: l :: nap :: rest =>
      if rest.length < nap then none
      else if o + l > raw.length then none
      else (storedGroups raw fuel (rest.drop nap)).map
        ({ fid := fid, typ := typ, val := (raw.drop o).take l, ap := rest.take nap } :: ·)
    | _ => none

/-- Twin of `Layout.decStoredDoc`: the record at offset `off` of the file `bs`. -/
def decodeStoredDocL (bs : Bytes) (off : Nat) : Option StoredDoc :=
  match uv64 (bs.drop off) with
  | none => none
  | some (ml, r1) =>
    match uv64 r1 with
    | none => none
    | some (dl, r2) =>
      if ml + dl > r2.length then none else
      match uvAllL (ml + 1) (r2.take ml) with
      | none => none
      | some [] => none
      | some (idLen :: groups) =>
        if idLen > dl then none else
        let dat := (r2.drop ml).take dl
        match snappyDecode (dat.drop idLen) with
        | none => none
        | some raw =>
          match storedGroups raw (groups.length + 1) groups with
          | none => none
          | some vals => some { id := dat.take idLen, vals := vals }

/-- Where the record at `off` keeps its snappy block: (start, end) file offsets (the same
    reads as `decodeStoredDocL`). -/
def storedBlockL (bs : Bytes) (off : Nat) : Option (Nat × Nat) :=
  match uv64 (bs.drop off) with
  | none => none
  | some (ml, r1) =>
    match uv64 r1 with
    | none => none
    | some (dl, r2) =>
      match uvAllL (ml + 1) (r2.take ml) with
      | some (idLen :: _) =>
        some (bs.length - r2.length + ml + idLen, bs.length - r2.length + ml + dl)
      | _ => none

end Zap.Writer
