/-
  ZapModel.Life: small state machines for object lifetimes.
  * `RefSt`: reference counting of an opened segment (segment.go AddRef / DecRef / Close / closeActual).
-/
namespace Zap

inductive RefOp | addRef | decRef | close
  deriving Repr, DecidableEq, Inhabited

/-- `refs` as in `Segment.refs` (starts at 1 in `Open`); `releases` counts how
    often `closeActual` (unmap + close fd) ran. -/
structure RefSt where
  refs : Int := 1
  releases : Nat := 0
  deriving Repr, DecidableEq, Inhabited

def RefSt.step (s : RefSt) : RefOp → RefSt
  | .addRef => { s with refs := s.refs + 1 }
  | .decRef | .close =>
    let r := s.refs - 1
    { refs := r, releases := if r = 0 then s.releases + 1 else s.releases }

def RefSt.run (s : RefSt) (ops : List RefOp) : RefSt := ops.foldl RefSt.step s

end Zap
