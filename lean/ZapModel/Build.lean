/-
  ZapModel.Build: model of `interim.convert` + the inverted-index opaque
  (`realloc` / `process` / `writeDicts`) + `writeStoredFields`, at entry level.

  Mirrors new.go and section_inverted_text_index.go:433-1063.  The builder
  walks the documents in order and *accumulates* per-field, per-term posting
  lists (append per document), exactly as the Go code does; nothing here is
  defined "per query".  The byte level (varints, chunk tables) is factored
  out into ZapModel.Codec and tied separately.
-/
import ZapModel.Types

namespace Zap

/-! ### Field table (`getOrDefineField`, then `sort.Strings(FieldsInv[1:])`) -/

def getOrDefine (fs : List Name) (n : Name) : List Name :=
  if fs.contains n then fs else fs ++ [n]

def docNames (d : DocIn) : List Name := d.visitOrder.map (·.name)

/-- Names in order of first appearance, `_id` first (as `convert`/`realloc` do). -/
def firstAppearance (b : Batch) : List Name :=
  b.foldl (fun acc d => (docNames d).foldl getOrDefine acc) [idName]

def insertName (x : Name) : List Name → List Name
  | [] => [x]
  | y :: ys => if Bytes.lt y x then y :: insertName x ys else x :: y :: ys

def sortNames (xs : List Name) : List Name := xs.foldr insertName []

/-- `FieldsInv` after the sort: `_id` stays first. -/
def fieldTable (b : Batch) : List Name :=
  match firstAppearance b with
  | [] => []
  | h :: t => h :: sortNames t

def fieldIdOf (tbl : List Name) (n : Name) : Nat := (tbl.findIdx? (· = n)).getD tbl.length

/-! ### Per-document accumulation (`process`) -/

/-- Which fields the inverted-index section processes: synonym fields are
    always excluded (the synonym section registers an exclusion check); vector
    fields are excluded only when the `vectors` tag is compiled in. -/
def invProcessed (vectors : Bool) (f : FieldIn) : Bool :=
  match f.kind with
  | .syn => false
  | .vec => !vectors
  | _ => true

/-- Merged token frequencies of one field name within one document
    (`reusableFieldTFs[fieldID]`): the first instance is taken as is; later
    instances go through `MergeAll(fieldName, other)`, which renames every
    location of `other` to the field's own name, adds frequencies and appends
    locations. -/
structure TF where
  term : Bytes
  freq : Nat
  locs : List TokLoc
  deriving Repr, DecidableEq, Inhabited

def renameLocs (n : Name) (ls : List TokLoc) : List TokLoc := ls.map (fun l => { l with src := n })

def mergeTok (n : Name) (acc : List TF) (t : Tok) : List TF :=
  if acc.any (·.term = t.term) then
    acc.map (fun e => if e.term = t.term then
      { e with freq := e.freq + t.freq, locs := e.locs ++ renameLocs n t.locs } else e)
  else acc ++ [{ term := t.term, freq := t.freq, locs := renameLocs n t.locs }]

def mergeAll (n : Name) (acc : List TF) (toks : List Tok) : List TF := toks.foldl (mergeTok n) acc

def firstTFs (toks : List Tok) : List TF := toks.map (fun t => { term := t.term, freq := t.freq, locs := t.locs })

/-- Per-document, per-field accumulator: analysed length and merged TFs. -/
structure FieldAcc where
  name : Name
  len : Nat
  tfs : List TF
  deriving Repr, Inhabited

def accField (acc : List FieldAcc) (f : FieldIn) : List FieldAcc :=
  if acc.any (·.name = f.name) then
    acc.map (fun a => if a.name = f.name then
      { a with len := a.len + f.len, tfs := mergeAll f.name a.tfs f.toks } else a)
  else acc ++ [{ name := f.name, len := f.len, tfs := firstTFs f.toks }]

def docAcc (vectors : Bool) (d : DocIn) : List FieldAcc :=
  (d.visitOrder.filter (invProcessed vectors)).foldl accField []

/-- Dictionary under construction: field id -> term -> entries (doc order). -/
abbrev Dicts := List (List (Bytes × List Entry))

def resolveLoc (tbl : List Name) (own : Nat) (l : TokLoc) : MLoc :=
  { fid := if l.src = [] then own else fieldIdOf tbl l.src,
    pos := l.pos, start := l.start, stop := l.stop, ap := l.ap }

def appendEntry (d : List (Bytes × List Entry)) (term : Bytes) (e : Entry) : List (Bytes × List Entry) :=
  if d.any (·.1 = term) then d.map (fun p => if p.1 = term then (p.1, p.2 ++ [e]) else p)
  else d ++ [(term, [e])]

/-- Norm bits as stored: `Float32frombits(uint32(len))` written as
    `uint64(Float32bits(norm))`, and not written at all when `freq = 0`. -/
def normOf (len freq : Nat) : Nat := if freq = 0 then 0 else len % Gen.u32

def commitField (tbl : List Name) (doc : Nat) (ds : Dicts) (a : FieldAcc) : Dicts :=
  let fid := fieldIdOf tbl a.name
  ds.modify fid (fun d => a.tfs.foldl (fun d tf =>
    appendEntry d tf.term { doc := doc, freq := tf.freq, norm := normOf a.len tf.freq,
                            locs := tf.locs.map (resolveLoc tbl fid) }) d)

def processDoc (vectors : Bool) (tbl : List Name) (ds : Dicts) (doc : Nat) (d : DocIn) : Dicts :=
  (docAcc vectors d).foldl (commitField tbl doc) ds

def processDocs (vectors : Bool) (tbl : List Name) (b : Batch) : Dicts :=
  (b.zipIdx).foldl (fun ds p => processDoc vectors tbl ds p.2 p.1) (tbl.map (fun _ => []))

/-! ### `writeDicts`: terms ascending; doc values from the term walk, then the
    extra doc values (encoded geo shapes) -/

def insertTerm (x : Bytes × List Entry) : List (Bytes × List Entry) → List (Bytes × List Entry)
  | [] => [x]
  | y :: ys => if Bytes.lt y.1 x.1 then y :: insertTerm x ys else x :: y :: ys

def sortTerms (d : List (Bytes × List Entry)) : List (Bytes × List Entry) := d.foldr insertTerm []

/-- `docTermMap`: walking terms ascending and each term's docs, append the term
    to the document's list. -/
def docTermMap (numDocs : Nat) (terms : List (Bytes × List Entry)) : List (Nat × List Bytes) :=
  ((List.range numDocs).map (fun n =>
      (n, (terms.filter (fun p => p.2.any (·.doc = n))).map (·.1)))).filter (fun p => !p.2.isEmpty)

def includeDocValues (b : Batch) (n : Name) : Bool :=
  b.any (fun d => d.fields.any (fun f => f.name = n && f.dv))

/-- One step of `realloc`'s `visitField` on `extraDocValues[docNum][fieldID]`
    (`n` = the field's name): an instance of the field that is a geo-shape field
    overwrites the entry with its encoded shape.  Only ordinary fields can be
    geo-shape fields. -/
def shapeStep (n : Name) (acc : Option Bytes) (f : FieldIn) : Option Bytes :=
  if f.kind = .fld ∧ f.name = n then
    match f.shape with
    | some s => some s      -- `extraDocValues[docNum][fieldID] = f.EncodedShape()`
    | none => acc           -- not a geo-shape field
  else acc

/-- `extraDocValues[docNum][fieldID]` after `realloc`: the instances of the
    document are visited in order (composites first, then the ordinary fields),
    so the last geo-shape instance of the field wins. -/
def extraDocValue (d : DocIn) (n : Name) : Option Bytes := d.visitOrder.foldl (shapeStep n) none

/-- The extra doc value of document number `k` for field `n`, as a list of values. -/
def extraAt (b : Batch) (n : Name) (k : Nat) : List Bytes :=
  match b[k]? with
  | none => []
  | some d => (extraDocValue d n).toList

/-- The doc-value loop of `writeDicts`: for EVERY document number of the batch,
    the document's terms (`docTermMap[docNum]`, possibly none) followed by the
    field's extra doc value of that document, if there is one; the document gets
    an entry when the result is not empty. -/
def addShapes (b : Batch) (n : Name) (dtm : List (Nat × List Bytes)) : List (Nat × List Bytes) :=
  ((List.range b.length).map (fun k =>
      (k, ((dtm.find? (·.1 = k)).map (·.2)).getD [] ++ extraAt b n k))).filter (fun p => !p.2.isEmpty)

/-! ### Stored fields (`writeStoredFields`) -/

def storedInsts (d : DocIn) (n : Name) : List FieldIn :=
  (d.fields.filter (·.kind != .comp)).filter (fun f => f.name = n && f.stored)

def storedDoc (tbl : List Name) (d : DocIn) : StoredDoc :=
  { id := ((storedInsts d idName).head?.map (·.val)).getD [],
    vals := ((tbl.zipIdx).drop 1).flatMap (fun p =>
      (storedInsts d p.1).map (fun f => { fid := p.2, typ := f.typ, val := f.val, ap := f.ap })) }

/-! ### Synonym section (`synonymIndexOpaque.realloc` / `process` / `writeThesauri`) -/

def synFields (d : DocIn) : List FieldIn :=
  if d.plain then [] else (d.fields.filter (·.kind == .syn))

/-- Pass 1 (`realloc`): assign ids to synonym terms of thesaurus `n` in order of
    first appearance over the whole batch. -/
def synIds (b : Batch) (n : Name) : List Bytes :=
  b.foldl (fun acc d => (synFields d).foldl (fun acc f =>
    if f.name = n then f.defs.foldl (fun acc df => df.rhs.foldl getOrDefine acc) acc else acc) acc) []

def synIdOf (ids : List Bytes) (s : Bytes) : Nat := (ids.findIdx? (· = s)).getD ids.length

def insertCode (x : Nat × Nat) : List (Nat × Nat) → List (Nat × Nat)
  | [] => [x]
  | y :: ys =>
    if x = y then y :: ys
    else if x.1 < y.1 ∨ (x.1 = y.1 ∧ x.2 < y.2) then x :: y :: ys
    else y :: insertCode x ys

def addCodes (d : List (Bytes × List (Nat × Nat))) (lhs : Bytes) (codes : List (Nat × Nat)) :
    List (Bytes × List (Nat × Nat)) :=
  if d.any (·.1 = lhs) then d.map (fun p => if p.1 = lhs then (p.1, codes.foldl (fun l c => insertCode c l) p.2) else p)
  else d ++ [(lhs, codes.foldl (fun l c => insertCode c l) [])]

def insertLhs (x : Bytes × List (Nat × Nat)) : List (Bytes × List (Nat × Nat)) → List (Bytes × List (Nat × Nat))
  | [] => [x]
  | y :: ys => if Bytes.lt y.1 x.1 then y :: insertLhs x ys else x :: y :: ys

/-- Pass 2 (`process`): for every definition add the codes (synonym id, doc).
    Note: a synonym field in a `plain` document (one that does not implement
    `SynonymDocument`) is seen by pass 2 but not by pass 1 — see `SynWF`. -/
def buildThes (b : Batch) (n : Name) : Thes :=
  let ids := synIds b n
  let d := (b.zipIdx).foldl (fun acc p =>
    ((p.1.fields.filter (fun f => f.kind == .syn && f.name = n))).foldl (fun acc f =>
      f.defs.foldl (fun acc df => addCodes acc df.lhs (df.rhs.map (fun s => (synIdOf ids s, p.2)))) acc) acc) []
  { terms := (d.foldr insertLhs []).filter (fun p => !p.2.isEmpty),
    table := (ids.zipIdx).map (fun p => (p.2, p.1)) }

def hasThes (b : Batch) (n : Name) : Bool :=
  b.any (fun d => (synFields d).any (fun f => f.name = n))

/-! ### Vector section (`vectorIndexOpaque.process`) -/

def splitVec (dim : Nat) (v : List Int) (fuel : Nat) : List (List Int) :=
  match fuel with
  | 0 => []
  | fuel + 1 => if dim = 0 ∨ v.length < dim then [] else v.take dim :: splitVec dim (v.drop dim) fuel

def buildVec (b : Batch) (n : Name) : Option VecIx :=
  let insts := (b.zipIdx).flatMap (fun p => (p.1.fields.filter (fun f => f.kind == .vec && f.name = n)).map (fun f => (p.2, f)))
  match insts with
  | [] => none
  | (_, f0) :: _ =>
    some { dim := f0.dim, metric := f0.metric, opt := f0.opt,
           vecs := insts.flatMap (fun p => (splitVec p.2.dim p.2.vec p.2.vec.length).map (fun v => (p.1, v))) }

/-! ### The whole build -/

def buildSeg (vectors : Bool) (mode : Nat) (b : Batch) : Seg :=
  let tbl := fieldTable b
  let ds := processDocs vectors tbl b
  let n := b.length
  { chunkMode := mode, numDocs := n,
    fields := (tbl.zip ds).map (fun p =>
      let terms := sortTerms p.2
      { name := p.1,
        terms := terms.map (fun t => (t.1, PostRep.general t.2)),
        dv := if n ≠ 0 ∧ includeDocValues b p.1 then some (addShapes b p.1 (docTermMap n terms)) else none,
        thes := if n ≠ 0 ∧ hasThes b p.1 then some (buildThes b p.1) else none,
        vec := if vectors ∧ n ≠ 0 then buildVec b p.1 else none }),
    stored := b.map (storedDoc tbl) }

/-- The guard the real build applies before anything else can go wrong:
    `getChunkSize` must not fail for any term's cardinality. -/
def modeOK (mode : Nat) (s : Seg) : Bool :=
  s.fields.all (fun f => f.terms.all (fun t =>
    match Gen.getChunkSize mode t.2.docs.length s.numDocs with
    | .ok _ => true
    | .error _ => false))

end Zap
