/-
  ZapModel.Gen.FactsTypes: the (hand-written, stable) Lean types of the
  structural facts that tools/gofacts extracts from /repo on every run.
  The generated instance is ZapModel/Gen/Facts.lean.
-/
namespace Zap.Gen

/-- Events on a pooled object along one control-flow path of a function
    (callees that receive the object are inlined; `defer` is expanded before
    every return). -/
inductive PoolEv
  | get      -- pool.Get()
  | use      -- any read/write through the object
  | put      -- pool.Put(obj)
  | ret      -- function returns
  deriving Repr, DecidableEq, Inhabited

structure PoolFn where
  fn : String
  pool : String
  paths : List (List PoolEv)
  deriving Repr, DecidableEq, Inhabited

/-- How `Reset()` (or a reuse branch) treats one field of a reusable struct. -/
inductive ResetKind
  | setNil            -- x = nil / zero value / new empty map
  | truncate          -- x = x[:0]  (capacity keeps old content)
  | zeroThenTruncate  -- every element zeroed (or cleared) over the full length, then x = x[:0]
  | clearEachThenTruncate -- for each element: elem = elem[:0] / elem.Clear() / elem = nil; then x = x[:0]
  | deleteAllKeys     -- for k := range m { delete(m, k) }
  | bufferReset       -- bytes.Buffer.Reset() / builder.Reset(..)
  | scalarZero        -- numeric / bool set to zero value
  | notReset          -- not mentioned in Reset
  deriving Repr, DecidableEq, Inhabited

structure ResetFact where
  struct : String
  field : String
  kind : ResetKind
  deriving Repr, DecidableEq, Inhabited

/-- How the error result of a call is treated by its caller. -/
inductive ErrDisp
  | returned          -- if err != nil { return ..., err }
  | cleanupReturned   -- if err != nil { cleanup(); return ..., err }
  | ignored           -- result dropped / not checked
  | sticky            -- unchecked write into a writer whose error is sticky and whose final Flush is checked
  deriving Repr, DecidableEq, Inhabited

structure ErrFact where
  fn : String
  callee : String
  disp : ErrDisp
  deriving Repr, DecidableEq, Inhabited

structure PollSite where
  fn : String
  /-- the statement following `if isClosed(closeCh)` returns `seg.ErrClosed` -/
  returnsErrClosed : Bool
  /-- number of resource-release calls (e.g. freeReconstructedIndexes) executed before that return -/
  releasesBefore : Nat
  deriving Repr, DecidableEq, Inhabited

structure LockFact where
  fn : String
  location : String       -- e.g. "SegmentBase.fieldFSTs", "synonymIndexCache.cache", "Segment.refs"
  access : String         -- "read" | "write"
  held : List String      -- locks held at the access: "m", "m.R" (read lock)
  deriving Repr, DecidableEq, Inhabited

end Zap.Gen
