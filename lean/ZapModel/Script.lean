/-
  ZapModel.Script: parser / printer for the transcript language shared with
  the Go harness (harness/script.go).
-/
import ZapModel.Merge

namespace Zap.Script
open Zap

structure Cmd where
  lineNo : Nat
  raw : String
  op : String
  pos : List String
  kv : List (String × String)
  deriving Inhabited

def Cmd.get? (c : Cmd) (k : String) : Option String := (c.kv.find? (·.1 == k)).map (·.2)
def Cmd.getD (c : Cmd) (k d : String) : String := (c.get? k).getD d
def Cmd.multi (c : Cmd) (k : String) : List String := (c.kv.filter (·.1 == k)).map (·.2)
def Cmd.nat (c : Cmd) (k : String) (d : Nat) : Nat := ((c.get? k).bind String.toNat?).getD d
def Cmd.arg (c : Cmd) (i : Nat) : String := c.pos.getD i ""

def parseLine (no : Nat) (line : String) : Option Cmd :=
  let line := (line.splitOn "#").headD ""
  let toks := (line.splitOn " ").filter (fun t => !t.isEmpty)
  match toks with
  | [] => none
  | op :: rest =>
    let (pos, kv) := rest.foldl (fun (acc : List String × List (String × String)) t =>
      match t.splitOn "=" with
      | [_] => (acc.1 ++ [t], acc.2)
      | k :: vs => if k.isEmpty then (acc.1 ++ [t], acc.2) else (acc.1, acc.2 ++ [(k, "=".intercalate vs)])
      | [] => acc) ([], [])
    some { lineNo := no, raw := " ".intercalate toks, op := op, pos := pos, kv := kv }

def hexVal (c : Char) : Nat :=
  if c.isDigit then c.toNat - '0'.toNat
  else if 'a' ≤ c ∧ c ≤ 'f' then c.toNat - 'a'.toNat + 10
  else 0

def unhx (s : String) : Bytes :=
  if s == "." then [] else
  let rec go : List Char → Bytes
    | a :: b :: rest => (hexVal a * 16 + hexVal b) :: go rest
    | _ => []
  go s.toList

/-- The pseudo-random byte string both sides of a transcript agree on (`val=rnd:<seed>:<len>`):
    x' = (x * 1103515245 + 12345) mod 2^31, byte = (x' / 2^16) mod 256. -/
def rndBytes (seed n : Nat) : Bytes :=
  let rec go (k : Nat) (x : Nat) (acc : Array Nat) : Array Nat :=
    match k with
    | 0 => acc
    | k + 1 =>
      let x' := (x * 1103515245 + 12345) % 2147483648
      go k x' (acc.push ((x' / 65536) % 256))
  (go n (seed % 2147483648) (Array.mkEmpty n)).toList

/-- a field value: hex, `.` (empty) or `rnd:<seed>:<len>` -/
def parseVal (s : String) : Bytes :=
  if s.startsWith "rnd:" then
    match ((s.drop 4).toString).splitOn ":" with
    | [a, b] => rndBytes (a.toNat?.getD 0) (b.toNat?.getD 0)
    | _ => []
  else unhx s

def hexDigit (n : Nat) : Char := if n < 10 then Char.ofNat (48 + n) else Char.ofNat (87 + n)

def hx (b : Bytes) : String :=
  if b.isEmpty then "." else String.ofList (b.flatMap (fun x => [hexDigit (x / 16), hexDigit (x % 16)]))

def hxList (bs : List Bytes) : String := if bs.isEmpty then "-" else ",".intercalate (bs.map hx)

def unhxList (s : String) : List Bytes := if s == "-" then [] else (s.splitOn ",").map unhx

def natList (sep : String) (xs : List Nat) : String :=
  if xs.isEmpty then "-" else sep.intercalate (xs.map toString)

def parseNatList (sep : String) (s : String) : List Nat :=
  if s == "-" then [] else (s.splitOn sep).map (fun t => t.toNat?.getD 0)

def parseIntList (s : String) : List Int :=
  if s == "-" then [] else (s.splitOn ",").map (fun t => t.toInt?.getD 0)

def strList (xs : List String) : String := if xs.isEmpty then "-" else ",".intercalate xs
def parseStrList (s : String) : List String := if s == "-" then [] else s.splitOn ","

def nameStr (n : Name) : String := String.ofList (n.map (fun b => Char.ofNat b))

def b01 (b : Bool) : String := if b then "1" else "0"

/-- bitmap spec: "nil" → none, "-" → some [], "1,2" → some [1,2] -/
def parseBitmap (s : String) : Option (List Nat) :=
  if s == "nil" then none else some (parseNatList "," s)

def parseLoc (s : String) : TokLoc :=
  match s.splitOn "/" with
  | [src, p, st, en, ap] =>
    let srcB : Name := if src == "~" then [] else strBytes src
    let pN := p.toNat?.getD 0
    let stN := st.toNat?.getD 0
    let enN := en.toNat?.getD 0
    { src := srcB, pos := pN, start := stN, stop := enN, ap := parseNatList "." ap }
  | _ => default

def metricCode (s : String) : Nat := if s == "dot_product" then 1 else if s == "cosine" then 2 else 0
def optCode (s : String) : Nat := if s == "latency" then 1 else if s == "memory-efficient" then 2 else 0

/-- bleve's compose step for a composite field (`TokenFrequencies.MergeAll` over the document's
    ordinary fields other than `_id`, in document order): per term the frequencies add up and the
    locations are concatenated, every location naming the field it comes from. -/
def composeToks (fields : List FieldIn) : List Tok :=
  let src := fields.filter (fun f => f.kind == FKind.fld && f.name != strBytes "_id")
  let all : List Tok := src.flatMap (fun f => f.toks.map (fun t =>
    { t with locs := t.locs.map (fun l => { l with src := f.name }) }))
  let terms := (all.map (·.term)).eraseDups
  terms.map (fun tm =>
    let same := all.filter (fun t => t.term == tm)
    { term := tm, freq := (same.map (·.freq)).foldl (· + ·) 0, locs := same.flatMap (·.locs) })

/-- Parse the lines of one batch (after the `batch` line, up to `endbatch`). -/
def parseBatchLines (cmds : List Cmd) : Batch :=
  let step := fun (acc : Batch) (c : Cmd) =>
    let updLastDoc := fun (f : DocIn → DocIn) => match acc.reverse with
      | [] => acc
      | d :: rest => (f d :: rest).reverse
    let updLastField := fun (f : FieldIn → FieldIn) => updLastDoc (fun d => match d.fields.reverse with
      | [] => d
      | x :: rest => { d with fields := (f x :: rest).reverse })
    match c.op with
    | "doc" => acc ++ [({ id := unhx (c.arg 0), plain := c.getD "plain" "0" == "1", fields := [] } : DocIn)]
    | "comp" => updLastDoc (fun d => { d with fields := d.fields ++ [({ kind := FKind.comp, name := strBytes (c.arg 0), typ := 99, len := c.nat "len" 0, dv := c.getD "dv" "0" == "1", toks := (if c.getD "compose" "0" == "1" then composeToks d.fields else []) } : FieldIn)] })
    | "fld" => updLastDoc (fun d => { d with fields := d.fields ++ [({ kind := FKind.fld, name := strBytes (c.arg 0), typ := c.nat "typ" 116, stored := c.getD "st" "0" == "1", dv := c.getD "dv" "0" == "1", len := c.nat "len" 0, ap := parseNatList "," (c.getD "ap" "-"), val := parseVal (c.getD "val" "."), shape := (c.get? "shape").bind (fun v => if v.isEmpty then none else some (unhx v)) } : FieldIn)] })
    | "syn" => updLastDoc (fun d => { d with fields := d.fields ++ [({ kind := FKind.syn, name := strBytes (c.arg 0) } : FieldIn)] })
    | "def" => updLastField (fun f => { f with defs := f.defs ++ [({ lhs := unhx (c.arg 0), rhs := unhxList (c.getD "rhs" "-") } : SynDefn)] })
    | "vec" => updLastDoc (fun d => { d with fields := d.fields ++ [({ kind := FKind.vec, name := strBytes (c.arg 0), dim := c.nat "dim" 1, metric := metricCode (c.getD "metric" "l2_norm"), opt := optCode (c.getD "opt" "recall"), vec := parseIntList (c.getD "x" "-") } : FieldIn)] })
    | "tok" => updLastField (fun f => { f with toks := f.toks ++ [({ term := unhx (c.arg 0), freq := c.nat "f" 1, locs := (c.multi "l").map parseLoc } : Tok)] })
    | _ => acc
  cmds.foldl step []

def locStr (l : Loc) : String :=
  let src := if l.field.isEmpty then "~" else nameStr l.field
  s!"{src}/{l.pos}/{l.start}/{l.stop}/{natList "." l.ap}"

def hitStr : Option Hit → String
  | none => "nil"
  | some h =>
    let ls := if h.locs.isEmpty then "-" else ";".intercalate (h.locs.map locStr)
    s!"{h.doc}:{h.freq}:{h.norm}:{ls}"

def parseOps (s : String) : List Op :=
  (parseStrList s).map (fun t => if t == "N" then Op.next else Op.advance ((t.drop 1).toNat?.getD 0))

end Zap.Script
