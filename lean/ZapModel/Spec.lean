/-
  ZapModel.Spec: what a user may rely on — the abstract meaning of a batch,
  stated per query (never by accumulating state), against which the model of
  the algorithms (Build / Posting / Query / Merge) is proved.
-/
import ZapModel.Merge

namespace Zap.Spec
open Zap

/-! ### Batches -/

/-- Instances of field `n` in document `d` that the inverted index sees, in
    visiting order (composites first). -/
def insts (vectors : Bool) (d : DocIn) (n : Name) : List FieldIn :=
  (d.visitOrder.filter (invProcessed vectors)).filter (fun f => f.name = n)

/-- All field names of a batch (set). -/
def names (b : Batch) : List Name := b.flatMap docNames

/-- `Fields()` of a non-empty batch: `_id` first, then the other names ascending,
    each once. -/
def IsFieldTable (b : Batch) (tbl : List Name) : Prop :=
  tbl.head? = some idName ∧
  SortedLt tbl.tail ∧
  (∀ n, n ∈ tbl ↔ n = idName ∨ n ∈ names b) ∧
  idName ∉ tbl.tail

/-- The location list of term `t` in field `n` of one document: occurrences in
    instance order; the first instance of the field keeps the source-field names
    its locations carry (its own name when none), later instances are attributed
    to the field itself. -/
def locsOf (n : Name) (t : Bytes) (is : List FieldIn) : List Loc :=
  (is.zipIdx).flatMap (fun p =>
    match p.1.toks.find? (fun tok => tok.term = t) with
    | none => []
    | some tok => tok.locs.map (fun l =>
        { field := if p.2 = 0 then (if l.src = [] then n else l.src) else n,
          pos := l.pos, start := l.start, stop := l.stop, ap := l.ap }))

def freqOf (t : Bytes) (is : List FieldIn) : Nat :=
  sumList (is.map (fun f => match f.toks.find? (fun tok => tok.term = t) with
    | none => 0
    | some tok => tok.freq))

def hasTerm (t : Bytes) (is : List FieldIn) : Bool :=
  is.any (fun f => f.toks.any (fun tok => tok.term = t))

/-- The hit of document number `doc` for (field, term), if the document has
    the term in that field. -/
def hitOf (vectors : Bool) (n : Name) (t : Bytes) (doc : Nat) (d : DocIn) : Option Hit :=
  let is := insts vectors d n
  if hasTerm t is then
    let freq := freqOf t is
    some { doc := doc, freq := freq,
           norm := normOf (sumList (is.map (·.len))) freq,
           locs := locsOf n t is }
  else none

/-- C01: the postings of (field, term): documents in increasing number order. -/
def postings (vectors : Bool) (b : Batch) (n : Name) (t : Bytes) : List Hit :=
  (b.zipIdx).filterMap (fun p => hitOf vectors n t p.2 p.1)

/-- Well-formed batches: what the real `New` requires of its input (each clause is
    the code's own guard or a documented domain fact, see DESIGN.md). -/
structure WF (b : Batch) : Prop where
  /-- a `TokenFrequencies` value is a map: one entry per term per field instance -/
  termsDistinct : ∀ d ∈ b, ∀ f ∈ d.fields, (f.toks.map (·.term)).Nodup
  /-- a location that names a source field names a field of the batch -/
  srcKnown : ∀ d ∈ b, ∀ f ∈ d.fields, ∀ tok ∈ f.toks, ∀ l ∈ tok.locs, l.src = [] ∨ l.src ∈ names b
  /-- every document has a stored `_id` -/
  hasId : ∀ d ∈ b, ∃ f ∈ d.fields, f.kind = .fld ∧ f.name = idName ∧ f.stored = true

/-! ### Reading a whole postings list through the iterator -/

def hitOfEntry (names : List Name) (e : Entry) : Hit :=
  { doc := e.doc, freq := e.freq, norm := e.norm, locs := e.locs.map (resolveMLoc names) }

/-- Full iteration (all flags, no exclusion) with `Next` until nil. -/
def readAll (s : Seg) (n : Name) (t : Bytes) : Except String (List Hit) :=
  match s.postingsList n t none with
  | .error e => .error e
  | .ok pl => .ok (((It.create pl true true true).run (List.replicate (s.numDocs + 1) Op.next)).filterMap id)

/-! ### Postings iteration (C07) -/

def target : Op → Nat
  | .next => 0
  | .advance t => t

/-- The non-excluded entries of a postings list. -/
def live (pl : PList) : List Entry :=
  match pl.rep with
  | none => []
  | some r => r.entries.filter (fun e => !excluded pl.except e.doc)

/-- What a hit must look like under the requested detail flags. -/
def mkHit (pl : PList) (f n l : Bool) (e : Entry) : Hit :=
  if f || n || l then
    { doc := e.doc, freq := e.freq, norm := e.norm,
      locs := if l then e.locs.map (resolveMLoc pl.names) else [] }
  else { doc := e.doc, freq := 0, norm := 0, locs := [] }

/-- Each call returns the first not-yet-returned live hit at or after the
    target, then nil for ever. -/
def run (mk : Entry → Hit) : List Entry → List Op → List (Option Hit)
  | _, [] => []
  | lv, op :: ops =>
    match lv.dropWhile (fun e => e.doc < target op) with
    | [] => none :: run mk [] ops
    | e :: rest => some (mk e) :: run mk rest ops

/-! ### Stored fields (C02) -/

/-- Stored values of a document: `_id` first, then by field-table order, within
    a field in input order. -/
def stored (tbl : List Name) (d : DocIn) : List StoredOut :=
  { name := idName, typ := 116, val := ((storedInsts d idName).head?.map (·.val)).getD [], ap := [] } ::
  (tbl.drop 1).flatMap (fun n => (storedInsts d n).map (fun f =>
    { name := n, typ := f.typ % 256, val := f.val, ap := f.ap }))

def docNumbers (b : Batch) (ids : List Bytes) : List Nat :=
  ((b.zipIdx).filter (fun p => ids.contains p.1.id)).map (·.2)

/-! ### Doc values (C03) -/

/-- The encoded shape document `d` carries for field `n`: that of its last
    ordinary (non-composite) instance of `n` that is a geo-shape field. -/
def shapeOf (d : DocIn) (n : Name) : Option Bytes :=
  ((d.fields.filter (fun f => f.kind == .fld && f.name = n)).filterMap (·.shape)).getLast?

/-- Doc values of document `doc` in field `n`, if the field is indexed with doc
    values in this batch: the terms the document has in the field (ascending,
    each once), then - for a geo-shape field - the encoded shape as one more
    value (also when the document has no terms in the field). -/
def docValues (vectors : Bool) (b : Batch) (n : Name) (doc : Nat) : List Bytes :=
  if includeDocValues b n then
    match b[doc]? with
    | none => []
    | some d => sortDedup ((insts vectors d n).flatMap (fun f => f.toks.map (·.term))) ++ (shapeOf d n).toList
  else []

/-! ### Merge (C05 / C06) -/

/-- New number of surviving document `d` of segment `i`: survivors are numbered
    consecutively in segment order, then document order. -/
def newNum (sizes : List Nat) (drops : List (Option (List Nat))) (i d : Nat) : Option Nat :=
  if isDropped (drops.getD i none) d then none else
  some (sumList ((List.range i).map (fun j =>
          ((List.range (sizes.getD j 0)).filter (fun x => !isDropped (drops.getD j none) x)).length))
        + ((List.range d).filter (fun x => !isDropped (drops.getD i none) x)).length)

def survivorCount (sizes : List Nat) (drops : List (Option (List Nat))) : Nat :=
  sumList ((List.range sizes.length).map (fun j =>
    ((List.range (sizes.getD j 0)).filter (fun x => !isDropped (drops.getD j none) x)).length))

end Zap.Spec
