/-
  ZapModel.Theory.Reset: a reusable Go slice as (backing array, length), the ways a `Reset()`
  treats it (`ResetKind`), and what a later "re-slice within capacity, then read" can observe.

  Elements are natural numbers, 0 being the zero value (false / nil / 0 / empty element).
  `data.length` is the capacity.  Go only lets a program read or write below `len`; `x[:n]` with
  `n <= cap` changes `len` and nothing else - which is how content beyond `len` survives.
-/
import ZapModel.Gen.FactsTypes

namespace Zap.Theory.Reset
open Zap.Gen

structure Slice where
  data : List Nat := []
  len : Nat := 0
  deriving Repr, DecidableEq, Inhabited

/-- `make([]T, n)` -/
def Slice.fresh (n : Nat) : Slice := ⟨List.replicate n 0, n⟩

/-- `x[i] = v` (out of range: panic, modelled as no-op) -/
def Slice.write (s : Slice) (i v : Nat) : Slice :=
  if i < s.len then { s with data := s.data.set i v } else s

/-- `x[i]` (out of range: panic, modelled as 0) -/
def Slice.read (s : Slice) (i : Nat) : Nat := if i < s.len then s.data.getD i 0 else 0

/-- `if cap(x) >= n { x = x[:n] } else { x = make([]T, n) }` - the idiom of `realloc` and
    `SetChunkSize`. -/
def Slice.reslice (s : Slice) (n : Nat) : Slice :=
  if n ≤ s.data.length then { s with len := n } else Slice.fresh n

/-- `x = append(x, v)` within capacity overwrites the slot, else reallocates. -/
def Slice.append (s : Slice) (v : Nat) : Slice :=
  if s.len < s.data.length then ⟨s.data.set s.len v, s.len + 1⟩
  else ⟨s.data.take s.len ++ [v], s.len + 1⟩

/-- `for i := range x { x[i] = zero }` (over `len`, as Go's `range` does). -/
def zeroPrefix : Nat → List Nat → List Nat
  | 0, l => l
  | _ + 1, [] => []
  | n + 1, _ :: l => 0 :: zeroPrefix n l

/-- The effect of each reset kind on a slice-like field. -/
def applyReset : ResetKind → Slice → Slice
  | .setNil, _ => ⟨[], 0⟩
  | .truncate, s => { s with len := 0 }
  | .zeroThenTruncate, s => ⟨zeroPrefix s.len s.data, 0⟩
  | .clearEachThenTruncate, s => ⟨zeroPrefix s.len s.data, 0⟩
  | .deleteAllKeys, _ => ⟨[], 0⟩        -- an emptied map has no hidden capacity content
  | .bufferReset, s => { s with len := 0 }  -- bytes.Buffer: see `bufferReset` note in C10.lean
  | .scalarZero, _ => ⟨[], 0⟩
  | .notReset, s => s

/-- Kinds after which no earlier content can be observed through the field, whatever happens
    next (proved in `TheoryLemmasReset`, for slices all of whose hidden capacity is zero -
    `TailZero` - which every slice built by make / write / append / grow is). -/
def leavesNoStale : ResetKind → Bool
  | .setNil | .zeroThenTruncate | .clearEachThenTruncate | .deleteAllKeys | .scalarZero => true
  | .bufferReset => true
  | .truncate | .notReset => false

/-- Everything beyond `len` is zero. -/
def TailZero (s : Slice) : Prop := ∀ i, s.len ≤ i → s.data.getD i 0 = 0

/-- Everything is zero. -/
def AllZero (s : Slice) : Prop := ∀ i, s.data.getD i 0 = 0

/-- Operations of a build on one slice field. -/
inductive SOp
  | write (i v : Nat)
  | append (v : Nat)
  | grow (n : Nat)      -- reslice to n >= len (or reallocate)
  deriving Repr, DecidableEq

def SOp.apply (s : Slice) : SOp → Slice
  | .write i v => s.write i v
  | .append v => s.append v
  | .grow n => if s.len ≤ n then s.reslice n else s

def runOps (s : Slice) (ops : List SOp) : Slice := ops.foldl SOp.apply s

/-! ### The decidable side condition on extracted reset facts -/

/-- `ResetSafe`: every field's reset kind leaves nothing stale, except `truncate` fields on the
    first allow-list and `notReset` fields on the second. -/
def ResetSafe (facts : List ResetFact) (allowTruncate allowNotReset : List (String × String)) :
    Bool :=
  facts.all fun f =>
    match f.kind with
    | .truncate => allowTruncate.contains (f.struct, f.field)
    | .notReset => allowNotReset.contains (f.struct, f.field)
    | k => leavesNoStale k

/-- Completeness: the facts are exactly one per declared field, in declaration order. -/
def Complete (fields : List (String × List String)) (facts : List ResetFact) : Bool :=
  (facts.map fun f => (f.struct, f.field))
    == (fields.map fun p => p.2.map fun fld => (p.1, fld)).flatten

end Zap.Theory.Reset
