/-
  ZapModel.Theory.Lock: two small transition systems about mutual exclusion.

  (1) `Lock`: threads run words over lock / unlock / rlock / runlock / read x / write x.
      Mutexes are `sync.RWMutex`-like: `lock` is exclusive, `rlock` is shared among readers and
      exclusive against `lock`.  An access is NOT atomic: it takes two steps (enter, leave), so
      "two threads inside conflicting accesses at the same time" is a state of the system.
  (2) `Crit`: threads run sequences of operations on a shared state, each operation a list of
      micro-steps (with a thread-local scratch value) executed inside a critical section of ONE
      mutex.  Used to show that such operations are atomic: every interleaving is a
      sequentialisation.
-/
namespace Zap.Theory.Lock

abbrev Mutex := String
abbrev Loc := String

inductive Ev
  | lock (m : Mutex) | unlock (m : Mutex)
  | rlock (m : Mutex) | runlock (m : Mutex)
  | read (x : Loc) | write (x : Loc)
  deriving Repr, DecidableEq, Inhabited

/-- State of one RW mutex: the thread holding it exclusively, the threads holding it shared. -/
structure LockSt where
  w : Option Nat := none
  r : List Nat := []
  deriving Repr, DecidableEq, Inhabited

structure Thread where
  rest : List Ev := []
  /-- the thread has entered, and not yet left, the access at the head of `rest` -/
  inside : Bool := false
  deriving Repr, DecidableEq, Inhabited

structure State where
  lk : Mutex → LockSt
  thr : Nat → Thread

def setLk (f : Mutex → LockSt) (m : Mutex) (l : LockSt) : Mutex → LockSt :=
  fun m' => if m' = m then l else f m'

def setThr (f : Nat → Thread) (i : Nat) (t : Thread) : Nat → Thread :=
  fun j => if j = i then t else f j

/-- One step of thread `i`.  A blocked thread (lock not available) and a finished thread
    stutter.  Unlocking a mutex one does not hold is a no-op here; the static discipline
    (`disciplined`) excludes it. -/
def step (s : State) (i : Nat) : State :=
  let t := s.thr i
  match t.rest with
  | [] => s
  | .lock m :: r =>
    if (s.lk m).w = none ∧ (s.lk m).r = [] then
      { lk := setLk s.lk m { s.lk m with w := some i }, thr := setThr s.thr i ⟨r, false⟩ }
    else s
  | .unlock m :: r =>
    { lk := if (s.lk m).w = some i then setLk s.lk m { s.lk m with w := none } else s.lk,
      thr := setThr s.thr i ⟨r, false⟩ }
  | .rlock m :: r =>
    if (s.lk m).w = none then
      { lk := setLk s.lk m { s.lk m with r := i :: (s.lk m).r }, thr := setThr s.thr i ⟨r, false⟩ }
    else s
  | .runlock m :: r =>
    { lk := setLk s.lk m { s.lk m with r := (s.lk m).r.filter (· ≠ i) },
      thr := setThr s.thr i ⟨r, false⟩ }
  | .read x :: r =>
    if t.inside then { s with thr := setThr s.thr i ⟨r, false⟩ }
    else { s with thr := setThr s.thr i ⟨.read x :: r, true⟩ }
  | .write x :: r =>
    if t.inside then { s with thr := setThr s.thr i ⟨r, false⟩ }
    else { s with thr := setThr s.thr i ⟨.write x :: r, true⟩ }

def exec (s : State) (sched : List Nat) : State := sched.foldl step s

def init (progs : Nat → List Ev) : State :=
  { lk := fun _ => {}, thr := fun i => ⟨progs i, false⟩ }

def initL (progs : List (List Ev)) : State := init (fun i => progs.getD i [])

def insideWrite (t : Thread) (x : Loc) : Prop := t.inside = true ∧ ∃ r, t.rest = .write x :: r
def insideRead (t : Thread) (x : Loc) : Prop := t.inside = true ∧ ∃ r, t.rest = .read x :: r

/-- Executable versions for concrete examples. -/
def insideWriteB (t : Thread) (x : Loc) : Bool :=
  t.inside && match t.rest with | .write y :: _ => x == y | _ => false
def insideReadB (t : Thread) (x : Loc) : Bool :=
  t.inside && match t.rest with | .read y :: _ => x == y | _ => false

/-- A write to `x` overlaps another access to `x` by a different thread. -/
def Conflict (s : State) (x : Loc) : Prop :=
  ∃ i j, i ≠ j ∧ insideWrite (s.thr i) x ∧ (insideWrite (s.thr j) x ∨ insideRead (s.thr j) x)

/-- Static lock discipline of one word with respect to location `x` and mutex `m`, given
    whether the thread currently holds `m` exclusively (`hw`) / shared (`hr`):
    every write to `x` happens with `m` held exclusively, every read of `x` with `m` held
    exclusively or shared; `m` is only released when held and only acquired when not held. -/
def disciplined (x : Loc) (m : Mutex) : Bool → Bool → List Ev → Bool
  | _, _, [] => true
  | hw, hr, .lock m' :: w =>
    if m' = m then !hw && !hr && disciplined x m true hr w else disciplined x m hw hr w
  | hw, hr, .unlock m' :: w =>
    if m' = m then hw && disciplined x m false hr w else disciplined x m hw hr w
  | hw, hr, .rlock m' :: w =>
    if m' = m then !hw && !hr && disciplined x m hw true w else disciplined x m hw hr w
  | hw, hr, .runlock m' :: w =>
    if m' = m then hr && disciplined x m hw false w else disciplined x m hw hr w
  | hw, hr, .read x' :: w => (x' != x || hw || hr) && disciplined x m hw hr w
  | hw, hr, .write x' :: w => (x' != x || hw) && disciplined x m hw hr w

/-- Whether the thread holds `m` exclusively / shared after the word (only `m` is tracked). -/
def endState (m : Mutex) : Bool → Bool → List Ev → Bool × Bool
  | hw, hr, [] => (hw, hr)
  | hw, hr, .lock m' :: w => if m' = m then endState m true hr w else endState m hw hr w
  | hw, hr, .unlock m' :: w => if m' = m then endState m false hr w else endState m hw hr w
  | hw, hr, .rlock m' :: w => if m' = m then endState m hw true w else endState m hw hr w
  | hw, hr, .runlock m' :: w => if m' = m then endState m hw false w else endState m hw hr w
  | hw, hr, .read _ :: w => endState m hw hr w
  | hw, hr, .write _ :: w => endState m hw hr w

/-- A call's word is fine on its own: disciplined when entered without `m`, and `m` is
    released again at the end. -/
def callOK (x : Loc) (m : Mutex) (w : List Ev) : Bool :=
  disciplined x m false false w && endState m false false w == (false, false)

end Zap.Theory.Lock

namespace Zap.Theory.Crit

/-- A micro-step: shared state and thread-local scratch in, both out. -/
abbrev Micro (σ τ : Type) := σ → τ → σ × τ

/-- Run micro-steps sequentially. -/
def runMicro {σ τ : Type} : List (Micro σ τ) → σ → τ → σ × τ
  | [], s, l => (s, l)
  | μ :: r, s, l => let p := μ s l; runMicro r p.1 p.2

/-- The meaning of an operation executed alone: its micro-steps from the initial scratch. -/
def opSem {σ τ : Type} (l0 : τ) (op : List (Micro σ τ)) (s : σ) : σ := (runMicro op s l0).1

structure Thread (α σ τ : Type) where
  /-- operations (named by labels of type `α`) not yet started -/
  todo : List α := []
  /-- remaining micro-steps of the operation in progress (meaningful when `busy`) -/
  cur : List (Micro σ τ) := []
  busy : Bool := false
  scratch : τ

structure State (α σ τ : Type) where
  shared : σ
  /-- owner of the mutex -/
  owner : Option Nat := none
  thr : Nat → Thread α σ τ
  /-- ghost: (thread, operation) in the order in which the operations entered their critical
      section -/
  log : List (Nat × α) := []

def setThr {α σ τ : Type} (f : Nat → Thread α σ τ) (i : Nat) (t : Thread α σ τ) :
    Nat → Thread α σ τ :=
  fun j => if j = i then t else f j

/-- One step of thread `i`; `impl` gives each operation's micro-steps.  With `locked = true`
    an operation starts by acquiring the mutex (blocks while it is taken) and ends by
    releasing it; with `locked = false` (used only to show that the mutex matters) operations
    start and end without synchronisation. -/
def step {α σ τ : Type} (impl : α → List (Micro σ τ)) (locked : Bool) (l0 : τ)
    (s : State α σ τ) (i : Nat) : State α σ τ :=
  let t := s.thr i
  if t.busy then
    match t.cur with
    | μ :: r =>
      let p := μ s.shared t.scratch
      { s with shared := p.1, thr := setThr s.thr i { t with cur := r, scratch := p.2 } }
    | [] =>
      { s with owner := if locked then none else s.owner,
               thr := setThr s.thr i { t with busy := false } }
  else
    match t.todo with
    | [] => s
    | op :: rest =>
      if locked && s.owner.isSome then s
      else
        { s with owner := if locked then some i else s.owner,
                 thr := setThr s.thr i { todo := rest, cur := impl op, busy := true, scratch := l0 },
                 log := s.log ++ [(i, op)] }

def exec {α σ τ : Type} (impl : α → List (Micro σ τ)) (locked : Bool) (l0 : τ)
    (s : State α σ τ) (sched : List Nat) : State α σ τ :=
  sched.foldl (step impl locked l0) s

def init {α σ τ : Type} (s0 : σ) (l0 : τ) (progs : Nat → List α) : State α σ τ :=
  { shared := s0, owner := none, thr := fun i => { todo := progs i, scratch := l0 }, log := [] }

/-- The shared state obtained by running the given operations one after the other, each with
    its sequential meaning. -/
def seqRun {α σ τ : Type} (impl : α → List (Micro σ τ)) (l0 : τ) (s0 : σ) (ops : List α) : σ :=
  ops.foldl (fun s o => opSem l0 (impl o) s) s0

/-- The operations of thread `i` in the log, in order. -/
def logOf {α : Type} (log : List (Nat × α)) (i : Nat) : List α :=
  (log.filter (fun e => e.1 == i)).map (·.2)

end Zap.Theory.Crit
