/-
  ZapModel.Theory.Pool: a `sync.Pool` and any number of threads, each running a sequence
  of calls whose pool behaviour is a word over `PoolEv` (one word per call = one extracted
  control-flow path).

  Granularity: one `PoolEv` = one atomic step.  Objects are natural numbers.  `Get` takes ANY
  object of the pool (chosen by the schedule) or makes a fresh one; `Put` pushes whatever
  the thread's pointer variable refers to (the variable is NOT cleared by `Put` - which is
  exactly how a second `Put` of the same object becomes possible); `ret` ends the call and
  drops the variable.
-/
import ZapModel.Gen.FactsTypes

namespace Zap.Theory.Pool
open Zap.Gen PoolEv

/-- `use* ret` or `use* put ret`. -/
def usesThenEnd : List PoolEv → Bool
  | .use :: w => usesThenEnd w
  | .put :: w => w == [.ret]
  | .ret :: w => w.isEmpty
  | _ => false

/-- A call's word is balanced: `ret` | `get use* ret` | `get use* put ret`.  At most one
    put, nothing touches the object after the put, nothing before the get.  A missing put
    is allowed (the object is garbage collected). -/
def Balanced : List PoolEv → Bool
  | .ret :: w => w.isEmpty
  | .get :: w => usesThenEnd w
  | _ => false

/-- What a thread last did with the pool in its current call. -/
inductive Phase
  | idle      -- no Get yet in this call
  | holding   -- between Get and Put
  | done      -- after Put
  deriving Repr, DecidableEq, Inhabited

structure Thread where
  /-- the local pointer variable -/
  ptr : Option Nat := none
  ph : Phase := .idle
  /-- the events still to execute (all remaining calls, concatenated) -/
  rest : List PoolEv := []
  deriving Repr, DecidableEq, Inhabited

structure State where
  pool : List Nat := []
  /-- next fresh object id -/
  fresh : Nat := 0
  thr : Nat → Thread

/-- Thread `t` holds object `o`: it took it and has not put it back. -/
def holds (t : Thread) (o : Nat) : Prop := t.ph = .holding ∧ t.ptr = some o

instance (t : Thread) (o : Nat) : Decidable (holds t o) := by unfold holds; infer_instance

def setThr (f : Nat → Thread) (i : Nat) (t : Thread) : Nat → Thread :=
  fun j => if j = i then t else f j

/-- One step of thread `i`.  `c` is the scheduler's choice for a `get`: `some o` with `o` in
    the pool takes that object, anything else allocates a fresh one.  A thread with nothing
    left to do stutters. -/
def step (s : State) (i : Nat) (c : Option Nat) : State :=
  let t := s.thr i
  match t.rest with
  | [] => s
  | .get :: r =>
    match c.filter (fun o => s.pool.contains o) with
    | some o => { s with pool := s.pool.erase o, thr := setThr s.thr i ⟨some o, .holding, r⟩ }
    | none => { pool := s.pool, fresh := s.fresh + 1,
                thr := setThr s.thr i ⟨some s.fresh, .holding, r⟩ }
  | .use :: r => { s with thr := setThr s.thr i { t with rest := r } }
  | .put :: r =>
    match t.ptr with
    | some o => { s with pool := o :: s.pool, thr := setThr s.thr i ⟨some o, .done, r⟩ }
    | none => { s with thr := setThr s.thr i ⟨none, .done, r⟩ }
  | .ret :: r => { s with thr := setThr s.thr i ⟨none, .idle, r⟩ }

/-- A schedule: which thread moves, and its choice if the move is a `get`. -/
abbrev Sched := List (Nat × Option Nat)

def exec (s : State) (sched : Sched) : State :=
  sched.foldl (fun s x => step s x.1 x.2) s

/-- Initial state: empty pool, thread `i` is about to run the calls `progs i`. -/
def init (progs : Nat → List (List PoolEv)) : State :=
  { pool := [], fresh := 0, thr := fun i => ⟨none, .idle, (progs i).flatten⟩ }

/-- Finitely many threads given as a list. -/
def initL (progs : List (List (List PoolEv))) : State := init (fun i => progs.getD i [])

/-- The safety property. -/
structure Safe (s : State) : Prop where
  /-- no object is held by two threads -/
  no_two_holders : ∀ i j o, holds (s.thr i) o → holds (s.thr j) o → i = j
  /-- no object is in the pool twice -/
  pool_nodup : s.pool.Nodup
  /-- no object is both held and in the pool -/
  not_held_and_pooled : ∀ i o, holds (s.thr i) o → o ∉ s.pool
  /-- every `use` is by the unique holder of an object that is not in the pool -/
  use_by_unique_holder : ∀ i r, (s.thr i).rest = .use :: r →
    ∃ o, holds (s.thr i) o ∧ (∀ j, holds (s.thr j) o → j = i) ∧ o ∉ s.pool

end Zap.Theory.Pool
