/-
  ZapModel.Theory.Persist: an abstract persist / merge run, for write faults (C17),
  cancellation (C18) and engine faults (C19).

  A run is a list of operations.  Each operation has a kind and a CHAIN: the dispositions
  (`ErrDisp`, as extracted by tools/gofacts) of its error along the static call chain, from the
  operation's own call site outward up to and including the driver (`PersistSegmentBase`,
  `mergeSegmentBases`).  When an operation fails its error climbs the chain: links `returned`
  / `cleanupReturned` pass it on; a link `ignored` / `sticky` swallows it and the run goes on.
  An error that climbs the whole chain ends the run; the driver's cleanup (close + remove the
  file) ran iff the LAST link is `cleanupReturned`.

  Kinds:
  * `write`  - a write into the buffered writer.  `bufio.Writer` semantics: once a write has
               failed, every later write and the final Flush fail (the error is latched),
               whatever the caller did with the error.
  * `flush`  - `Flush` of that writer: fails if an error is latched (or by its own fault).
  * `other`  - any other error source (Sync, Close, engine call, ...): fails only by a fault.
  * `poll`   - `if isClosed(closeCh) { return ErrClosed }`: "fails" iff the channel is closed
               when the poll is executed.

  Fault at position `p`: operation number `p` fails (a write possibly after an arbitrary short
  write: `bytes` lists only the writes that were accepted completely).  Closing instant `c`: the
  channel is closed from step `c` on (monotone); `none` = never; `some 0` = before the call.
-/
import ZapModel.Gen.FactsTypes

namespace Zap.Theory.Persist
open Zap.Gen

inductive OpKind | write | flush | other | poll
  deriving Repr, DecidableEq, Inhabited

structure Op where
  kind : OpKind
  chain : List ErrDisp
  deriving Repr, DecidableEq, Inhabited

inductive Err | io | closed
  deriving Repr, DecidableEq, Inhabited

structure Outcome where
  /-- the error returned by the driver, if any -/
  err : Option Err
  /-- the driver's cleanup ran: file closed and removed -/
  cleaned : Bool
  /-- indices of the write operations accepted completely, in order -/
  bytes : List Nat
  deriving Repr, DecidableEq, Inhabited

/-- A link that passes the error on. -/
def passes (d : ErrDisp) : Bool := d == .returned || d == .cleanupReturned

/-- The error climbs the whole chain. -/
def propagates (chain : List ErrDisp) : Bool := chain.all passes

/-- The driver (outermost link) runs its cleanup before returning the error. -/
def cleans (chain : List ErrDisp) : Bool := chain.getLast? == some .cleanupReturned

def closedAt (c : Option Nat) (i : Nat) : Bool :=
  match c with
  | some k => decide (k ≤ i)
  | none => false

def latches (k : OpKind) : Bool := k == .write || k == .flush

/-- Does operation `op`, executed as step `i` with latch state `bad`, fail? -/
def fails (fault closing : Option Nat) (i : Nat) (bad : Bool) (op : Op) : Bool :=
  fault == some i || (bad && latches op.kind) || (op.kind == .poll && closedAt closing i)

def errKind (fault : Option Nat) (i : Nat) (op : Op) : Err :=
  if op.kind == .poll && fault != some i then .closed else .io

/-- The run from step `i`, latch state `bad`, accepted writes `acc`. -/
def go (fault closing : Option Nat) : Nat → Bool → List Nat → List Op → Outcome
  | _, _, acc, [] => ⟨none, false, acc⟩
  | i, bad, acc, op :: rest =>
    if fails fault closing i bad op then
      if propagates op.chain then ⟨some (errKind fault i op), cleans op.chain, acc⟩
      else go fault closing (i + 1) (bad || latches op.kind) acc rest
    else
      go fault closing (i + 1) bad (if op.kind == .write then acc ++ [i] else acc) rest

def run (fault closing : Option Nat) (ops : List Op) : Outcome := go fault closing 0 false [] ops

/-- Indices (from `i`) of the write operations. -/
def writeIdx : Nat → List Op → List Nat
  | _, [] => []
  | i, op :: rest => if op.kind == .write then i :: writeIdx (i + 1) rest else writeIdx (i + 1) rest

/-- The operation's error reaches the caller of the driver, after cleanup when `nc`
    ("needs cleanup": the path-based operations). -/
def strict (nc : Bool) (op : Op) : Bool := propagates op.chain && (!nc || cleans op.chain)

def hasCheckedFlush (nc : Bool) (ops : List Op) : Bool :=
  ops.any fun o => o.kind == .flush && strict nc o

/-- Decidable side condition on a run shape: every operation is `strict`, except that a WRITE
    may have its error swallowed provided a strict Flush comes later. -/
def wellChecked (nc : Bool) : List Op → Bool
  | [] => true
  | op :: rest =>
    (strict nc op || (op.kind == .write && !propagates op.chain && hasCheckedFlush nc rest))
    && wellChecked nc rest

/-- A body of operations whose chains stop below the driver, completed with the driver link `d`
    and followed by the driver's own tail (flush / sync / close ...). -/
def mkRun (d : ErrDisp) (body tail : List Op) : List Op :=
  body.map (fun op => { op with chain := op.chain ++ [d] }) ++ tail

/-- Inner chains admissible below a cleaning driver: every link passes, or - for writes only -
    is `sticky`. -/
def innerOK (op : Op) : Bool :=
  op.chain.all fun d => passes d || (d == .sticky && op.kind == .write)

end Zap.Theory.Persist
