/-
  ZapModel.Theory.Str: kernel-reducible substring test, used by every side condition to
  reject extracted facts that carry the extractor's failure marker "UNRECOGNISED"
  (`String.splitOn` & co. do not reduce under `decide`).
-/
namespace Zap.Theory

def isPrefixChars : List Char → List Char → Bool
  | [], _ => true
  | _ :: _, [] => false
  | a :: as, b :: bs => a == b && isPrefixChars as bs

def hasSubChars (p : List Char) : List Char → Bool
  | [] => p.isEmpty
  | c :: cs => isPrefixChars p (c :: cs) || hasSubChars p cs

/-- `s` contains `p` as a substring. -/
def hasSub (p s : String) : Bool := hasSubChars p.toList s.toList

/-- The string is an extraction-failure marker (tools/README.md, "Failure policy"). -/
def unrec (s : String) : Bool := hasSub "UNRECOGNISED" s

/-- None of the strings is an extraction-failure marker. -/
def allRecognised (l : List String) : Bool := l.all (fun s => !unrec s)

example : unrec "SegmentBase.DocID UNRECOGNISED" = true := by decide
example : unrec "SegmentBase.DocID" = false := by decide

end Zap.Theory
