/-
  ZapModel.Theory.Str: kernel-reducible substring test, used by every side condition to
  reject extracted facts that carry the extractor's failure marker "UNRECOGNISED"
  (`String.splitOn` & co. do not reduce under `decide`).  The test runs on the UTF-8 bytes
  (substring of the byte sequence = substring of the string, UTF-8 being self-synchronising);
  this is several times faster in the kernel than decoding to `Char`s.
-/
namespace Zap.Theory

def isPrefixBytes : List UInt8 → List UInt8 → Bool
  | [], _ => true
  | _ :: _, [] => false
  | a :: as, b :: bs => a == b && isPrefixBytes as bs

def hasSubBytes (p : List UInt8) : List UInt8 → Bool
  | [] => p.isEmpty
  | c :: cs => isPrefixBytes p (c :: cs) || hasSubBytes p cs

/-- `s` contains `p` as a substring. -/
def hasSub (p s : String) : Bool :=
  hasSubBytes p.toByteArray.data.toList s.toByteArray.data.toList

/-- The string is an extraction-failure marker (tools/README.md, "Failure policy"). -/
def unrec (s : String) : Bool := hasSub "UNRECOGNISED" s

/-- None of the strings is an extraction-failure marker. -/
def allRecognised (l : List String) : Bool := l.all (fun s => !unrec s)

example : unrec "SegmentBase.DocID UNRECOGNISED" = true := by decide
example : unrec "SegmentBase.DocID" = false := by decide
example : hasSub "refs" "if refs==0 {closeActual}" = true := by decide
example : hasSub "" "" = true := by decide

end Zap.Theory
