/-
  ZapModel.Theory.RefCount: the bookkeeping view of a reference-counted object, to be related
  to `Zap.RefSt` (ZapModel/Life.lean): the number of references a history leaves outstanding.
-/
import ZapModel.Life

namespace Zap.Theory.RefCount
open Zap

/-- Effect of an operation on the number of outstanding references. -/
def delta : RefOp → Int
  | .addRef => 1
  | .decRef => -1
  | .close => -1

/-- Outstanding references after `ops`, starting from `c` (`Open` starts at 1). -/
def count (c : Int) : List RefOp → Int
  | [] => c
  | op :: rest => count (c + delta op) rest

/-- Executable form of "the count stays ≥ 1 on every proper prefix and the full list brings it
    to 0", starting from `c`. -/
def lastRefAtEnd (c : Int) : List RefOp → Bool
  | [] => false
  | [op] => c + delta op == 0
  | op :: rest => decide (1 ≤ c + delta op) && lastRefAtEnd (c + delta op) rest

end Zap.Theory.RefCount
