/-
  ZapModel.EncCheck: expected observations for the component-level `enc`
  commands (pure functions and byte codecs reached through the verif hooks).
-/
import ZapModel.Script
import ZapModel.Codec

namespace Zap.Codec
open Zap Zap.Script

def parseAdds (s : String) : List (Nat × List Nat) :=
  if s == "-" then [] else (s.splitOn ";").map (fun p =>
    match p.splitOn ":" with
    | [d, vs] => (d.toNat?.getD 0, parseNatList "." vs)
    | _ => (0, []))

def parseByteAdds (s : String) : List (Nat × Bytes) :=
  if s == "-" then [] else (s.splitOn ";").map (fun p =>
    match p.splitOn ":" with
    | [d, v] => (d.toNat?.getD 0, unhx v)
    | _ => (0, []))

def kvOf' (obs : String) (k : String) : Option String :=
  ((obs.splitOn " ").filterMap (fun t => match t.splitOn "=" with
    | k' :: v => if k' == k ∧ !v.isEmpty then some ("=".intercalate v) else none
    | _ => none)).head?

def memOps (s : Bytes) (ops : List Char) : List Nat × List Nat × List Bool :=
  let r := ops.foldl (fun (acc : Nat × List Nat × List Nat × List Bool) op =>
    let (c, vals, pos, errs) := acc
    if op == 'r' then
      match memRead s c with
      | some (v, e, c') => (c', vals ++ [v], pos ++ [c'], errs ++ [e])
      | none => (c, vals ++ [0], pos ++ [c], errs ++ [true])
    else
      let c' := memSkip s c
      (c', vals ++ [0], pos ++ [c'], errs ++ [false])) (0, [], [], [])
  (r.2.1, r.2.2.1, r.2.2.2)

def encVerdict (c : Cmd) : Sum String ((String → Bool) × String) :=
  let n := fun k => c.nat k 0
  match c.arg 0 with
  | "chunksize" =>
    .inl (match Gen.getChunkSize (n "mode") (n "card") (n "max") with
      | .ok v => toString v
      | .error e => if e == "ErrChunkSizeZero" then "err:chunkzero" else "err:other")
  | "uvarint" => .inl s!"bytes={hx (putUvarint (n "x"))} n={numUvarintBytes (n "x")}"
  | "fhl" =>
    let v := Gen.encodeFreqHasLocs (n "freq") (c.getD "locs" "0" == "1")
    let d := Gen.decodeFreqHasLocs v
    .inl s!"enc={v} dec={d.1}/{b01 d.2}"
  | "fhldec" => let d := Gen.decodeFreqHasLocs (n "v"); .inl s!"dec={d.1}/{b01 d.2}"
  | "onehit" =>
    let v := Gen.FSTValEncode1Hit (n "doc") (n "norm")
    let d := Gen.FSTValDecode1Hit v
    .inl s!"enc={v} dec={d.1}/{d.2} u32={b01 (Gen.under32Bits (n "doc"))}"
  | "onehitdec" => let d := Gen.FSTValDecode1Hit (n "v"); .inl s!"dec={d.1}/{d.2}"
  | "syncode" =>
    let v := Gen.encodeSynonym (n "sid") (n "doc")
    let d := Gen.decodeSynonym v
    .inl s!"enc={v} dec={d.1}/{d.2}"
  | "syndec" => let d := Gen.decodeSynonym (n "v"); .inl s!"dec={d.1}/{d.2}"
  | "offsets" =>
    let lens := parseNatList "," (c.getD "lens" "-")
    let offs := endOffsets lens
    let bs := (List.range offs.length).map (fun i => let b := chunkBoundary offs i; s!"{b.1}.{b.2}")
    .inl s!"offs={natList "," offs} bounds={if bs.isEmpty then "-" else ",".intercalate bs}"
  | "intcoder" =>
    let adds := parseAdds (c.getD "adds" "-")
    let bytes := intCoderEncode (n "cs") (n "max") adds
    let chunks := (intDecodeChunks bytes).getD []
    let cs := if chunks.isEmpty then "-" else "|".intercalate (chunks.map (natList "."))
    .inl s!"bytes={hx bytes} chunks={cs}"
  | "memreader" =>
    let (vals, pos, errs) := memOps (unhx (c.getD "buf" ".")) (c.getD "ops" "").toList
    .inl s!"vals={natList "," vals} pos={natList "," pos} errs={String.join (errs.map b01)}"
  | "content" =>
    -- the real writer's bytes are decoded (framing + snappy) and must give back the adds, chunk by chunk
    let adds := parseByteAdds (c.getD "adds" "-")
    let cs := n "cs"
    let nchunks := n "max" / cs + 1
    let want := (List.range nchunks).map (fun ch => adds.filter (fun a => a.1 / cs = ch))
    .inr (fun got => match kvOf' got "bytes" with
      | none => false
      | some h => contentDecode (unhx h) == some want, "bytes decoding (framing+snappy) to the added (doc, value) pairs per chunk")
  | "enum" =>
    let its := ((c.getD "its" "").splitOn "|").map (fun it =>
      if it == "-" ∨ it.isEmpty then [] else (it.splitOn ",").map (fun kv =>
        match kv.splitOn ":" with
        | [k, v] => (unhx k, v.toNat?.getD 0)
        | _ => ([], 0)))
    let tr := enumerate its
    .inl (if tr.isEmpty then "-" else ",".intercalate (tr.map (fun t => s!"{hx t.1}:{t.2.1}:{t.2.2}")))
  | _ => .inl "scripterror:enc"

end Zap.Codec
