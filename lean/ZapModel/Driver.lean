/-
  ZapModel.Driver: validates a transcript produced by the Go harness against
  the executable model.  For every command that yields an observation the
  harness printed an `r ...` line right after it; the driver recomputes the
  observation from the model and reports each difference as

      MISMATCH <line> | <command> | want <model> | got <implementation>

  Relational observations (cancelled / faulted operations, whose outcome the
  property allows to be one of several) are validated, not predicted.
-/
import ZapModel.Script
import ZapModel.Spec
import ZapModel.Life
import ZapModel.Vector
import ZapModel.Layout
import ZapModel.BuildArrays
import ZapModel.EncCheck
import Std.Data.HashMap

namespace Zap.Driver
open Zap Zap.Script

structure St where
  vectors : Bool := false
  mode : Nat := 1026
  dvChunk : Nat := 1024
  clears1Hit : Bool := true
  validator : Option Name := none
  batches : Std.HashMap String Batch := {}
  segs : Std.HashMap String (Seg × Nat) := {}
  files : Std.HashMap String Seg := {}
  dvs : Std.HashMap String DvState := {}
  d3 : Std.HashMap String Bool := {}          -- segments / files that are zero-survivor merges (finding D3)
  nextTag : Nat := 1
  checked : Nat := 0
  mismatches : Nat := 0
  known : Nat := 0
  batchName : Option String := none
  batchLines : List Cmd := []
  pending : Option Cmd := none
  kinds : Std.HashMap String Nat := {}
  segBatch : Std.HashMap String Batch := {}     -- built segments (and their reopened copies): the source batch
  fileBatch : Std.HashMap String Batch := {}
  specChecked : Nat := 0
  specDiffs : List String := []
  refs : Std.HashMap String RefSt := {}
  kept : Std.HashMap String String := {}           -- field-name lists kept by `q keepfields`
  plSlots : Std.HashMap String Cmd := {}           -- the lookup a postings-list slot was last filled by
  sabotaged : Std.HashMap String Bool := {}        -- opened segments whose mapping was taken away (`ref sabotage`)
  mergeMemo : Std.HashMap String (Seg × List (List (Option Nat))) := {}
  pinned : Bool := false                           -- transcript of files written by the pinned release (frozen corpus)
  parMul : Nat := 1                                -- inside `par k`: each command of the body runs k times
  digests : Std.HashMap String String := {}      -- reference content digest per merge output name
  vcaches : Std.HashMap String VCache := {}
  handles : Std.HashMap String (String × Name × Option (List Nat) × Bool × Bool) := {}   -- seg, field, except, filtering, has index
  sameObs : Std.HashMap String String := {}         -- first observation per `same=<tag>`
  badDictFile : Std.HashMap String (List Name) := {}   -- files whose term dictionary of these fields no longer loads (`corruptdict`)
  badDictSeg : Std.HashMap String (List Name) := {}    -- the segments opened from them

def St.seg? (st : St) (n : String) : Option Seg := (st.segs.get? n).map (·.1)

inductive Verdict
  | exact (want : String)
  | pred (ok : String → Bool) (descr : String)
  /-- like `pred`, with the reason for a rejection (`none` = accepted) -/
  | explain (why : String → Option String) (descr : String)
  | none

def kvOf (obs : String) (k : String) : Option String :=
  ((obs.splitOn " ").filterMap (fun t => match t.splitOn "=" with
    | k' :: v => if k' == k ∧ !v.isEmpty then some ("=".intercalate v) else none
    | _ => none)).head?

def mapsStr (maps : List (List (Option Nat))) : String :=
  if maps.isEmpty then "none" else
  "|".intercalate (maps.map (fun m => if m.isEmpty then "-" else
    ".".intercalate (m.map (fun o => match o with | none => "x" | some d => toString d))))

/-- The pinned release's merge (before fix D11) copied doc values only from the inputs whose
    dictionary for the field is non-empty.  Used for the frozen corpus only: what those files hold
    is what that release wrote. -/
def pinnedDv (segs : List Seg) (maps : List (List (Option Nat))) (m : Seg) : Seg :=
  if m.numDocs = 0 then m else
  { m with fields := m.fields.map (fun f =>
      let focus := (segs.zip maps).filter (fun p => !(p.1.dictTerms f.name).isEmpty)
      let parts := focus.filterMap (fun p => match p.1.field? f.name with
        | none => none
        | some g => g.dv.map (fun dv => dvMerge p.2 dv))
      { f with dv := if parts.isEmpty then none else some (parts.flatMap id) }) }

def dropsOf (c : Cmd) (k : Nat) : List (Option (List Nat)) :=
  let parts := (c.getD "drops" "").splitOn "|"
  (List.range k).map (fun i =>
    let sp := parts.getD i "nil"
    parseBitmap (if sp.isEmpty then "nil" else sp))

def postObs (st : St) (s : Seg) (c : Cmd) : String :=
  let field := strBytes (c.arg 2)
  let term := unhx (c.arg 3)
  let ex := parseBitmap (c.getD "ex" "nil")
  let fl := (c.getD "fl" "111").toList
  let f := fl.getD 0 '1' == '1'
  let n := fl.getD 1 '1' == '1'
  let l := fl.getD 2 '1' == '1'
  match s.postingsList field term ex with
  | .error _ => "err:other"
  | .ok pl =>
    let it := It.create pl f n l
    let rep := it.repKind
    let live := it.live
    let it := match c.get? "replace" with
      | some rs =>
        if rep == "bm" then
          let sub := if rs == "*" then live else
            let mask := ((rs.drop 4).toString.toNat?).getD 0
            ((live.zipIdx).filter (fun (p : Nat × Nat) => (mask >>> (p.2 % 16)) % 2 == 1)).map (fun (p : Nat × Nat) => p.1)
          it.replaceActual sub
        else it
      | none => it
    let hits := it.run (parseOps (c.getD "ops" "-"))
    let hs := if hits.isEmpty then "-" else ",".intercalate (hits.map hitStr)
    let _ := st
    let rep := if live.isEmpty then "none" else rep
    s!"cnt={pl.count} rep={rep} live={natList "," live} hits={hs}"

def dictObs (st : St) (s : Seg) (c : Cmd) : String :=
  let field := strBytes (c.arg 2)
  let terms := s.dictTerms field
  let aut := c.getD "aut" "all"
  let accList := unhxList (c.getD "accept" "-")
  let accept : Bytes → Bool := if aut == "all" then fun _ => true else fun t => accList.contains t
  let lo := let v := c.getD "lo" "*"; if v == "*" then none else some (unhx v)
  let hi := let v := c.getD "hi" "*"; if v == "*" then none else some (unhx v)
  let ents := dictIterate st.clears1Hit accept lo hi {} terms
  let es := if ents.isEmpty then "-" else ",".intercalate (ents.map (fun p => s!"{hx p.1}:{p.2}"))
  let probe := unhxList (c.getD "probe" "-")
  let bits := if probe.isEmpty then "-" else String.join (probe.map (fun p => b01 ((lookup p terms).isSome)))
  s!"ents={es} contains={bits} card={terms.length}"

/-- two iterators of one dictionary alive together: each answers as if alone -/
def dictPairObs (st : St) (s : Seg) (c : Cmd) : String :=
  let terms := s.dictTerms (strBytes (c.arg 2))
  let bound := fun (k : String) => let v := c.getD k "*"; if v == "*" then none else some (unhx v)
  let one := fun (lo hi : Option Bytes) =>
    let ents := dictIterate st.clears1Hit (fun _ => true) lo hi {} terms
    if ents.isEmpty then "-" else ",".intercalate (ents.map (fun p => s!"{hx p.1}:{p.2}"))
  s!"a={one (bound "lo1") (bound "hi1")} b={one (bound "lo2") (bound "hi2")}"

def storedObs (s : Seg) (c : Cmd) : String :=
  let d := (c.arg 2).toNat?.getD 0
  let stop := let v := c.getD "stop" "*"; if v == "*" then none else v.toNat?
  let outs := visitWithStop (s.storedAll d) stop
  if outs.isEmpty then "-" else
  ";".intercalate (outs.map (fun o => s!"{nameStr o.name}:{o.typ}:{hx o.val}:{natList "." o.ap}"))

def insertStr (x : String) : List String → List String
  | [] => [x]
  | y :: ys => if x ≤ y then x :: y :: ys else y :: insertStr x ys

def sortStrs (xs : List String) : List String := xs.foldr insertStr []

def dvObs (st : St) (s : Seg) (tag : Nat) (c : Cmd) : St × String :=
  let slot := c.arg 2
  let fields := (parseStrList (c.getD "fields" "-")).map strBytes
  let doc := c.nat "doc" 0
  let st0 := if slot == "-" then none else st.dvs.get? slot
  let (st', out) := s.visitDocValues tag st.dvChunk st0 fields doc
  let st := if slot == "-" then st else { st with dvs := st.dvs.insert slot st' }
  -- canonical form: fields sorted by name, terms sorted (hex strings) within a field
  let names := sortStrs ((out.map (fun p => nameStr p.1)).eraseDups)
  let parts := names.map (fun n =>
    n ++ "=" ++ ",".intercalate (sortStrs ((out.filter (fun p => nameStr p.1 == n)).map (fun p => hx p.2))))
  (st, if parts.isEmpty then "-" else ";".intercalate parts)

def thesObs (s : Seg) (c : Cmd) : String :=
  let pairs := s.synonyms (strBytes (c.arg 2)) (unhx (c.arg 3)) (parseBitmap (c.getD "ex" "nil"))
  let strs := sortStrs (pairs.map (fun p => s!"{hx p.1}:{p.2}"))
  match c.get? "take" with
  | some k => s!"n={min (k.toNat?.getD 0) strs.eraseDups.length}"   -- an iteration abandoned after k pairs
  | none => if strs.isEmpty then "-" else ",".intercalate strs

/-- Three-way check: where the segment was built directly from a batch, the
    model's answer is also compared with `Spec` (the right-hand sides of the
    theorems), so that a wrong statement is noticed before it is proved. -/
def specCheck (st : St) (s : Seg) (c : Cmd) : St :=
  match st.segBatch.get? (c.arg 1) with
  | none => st
  | some b =>
    let bump := fun (st : St) (ok : Bool) (what : String) =>
      if ok then { st with specChecked := st.specChecked + 1 }
      else { st with specChecked := st.specChecked + 1, specDiffs := st.specDiffs ++ [s!"SPECDIFF {c.lineNo} | {c.raw} | {what}"] }
    match c.arg 0 with
    | "post" =>
      if c.getD "ex" "nil" == "nil" ∧ c.getD "fl" "111" == "111" ∧ (c.get? "replace").isNone
         ∧ (parseOps (c.getD "ops" "-")).all (· == Op.next) ∧ (parseOps (c.getD "ops" "-")).length > s.numDocs then
        let want := Spec.postings st.vectors b (strBytes (c.arg 2)) (unhx (c.arg 3))
        match Spec.readAll s (strBytes (c.arg 2)) (unhx (c.arg 3)) with
        | Except.ok got => bump st (got == want) s!"model {got.map (fun h => hitStr (some h))} spec {want.map (fun h => hitStr (some h))}"
        | Except.error _ => st
      else st
    | "stored" =>
      let d := (c.arg 2).toNat?.getD 0
      if c.getD "stop" "*" == "*" then
        match b[d]? with
        | some doc => bump st (s.storedAll d == Spec.stored (fieldTable b) doc) "stored"
        | none => bump st (s.storedAll d == []) "stored beyond count"
      else st
    | "docnums" =>
      let ids := unhxList (c.getD "ids" "-")
      bump st (s.docNumbers ids == Spec.docNumbers b ids) "docnums"
    | "dv" =>
      let fields := (parseStrList (c.getD "fields" "-")).map strBytes
      let doc := c.nat "doc" 0
      let (_, out) := s.visitDocValues 0 st.dvChunk none fields doc
      let want := fields.eraseDups.flatMap (fun n => (Spec.docValues st.vectors b n doc).map (fun t => (n, t)))
      bump st (out == want) s!"dv model {out.map (fun p => (nameStr p.1, hx p.2))} spec {want.map (fun p => (nameStr p.1, hx p.2))}"
    | _ => st

/-- Expected observation for a `q` command. -/
def queryObs (st : St) (c : Cmd) : St × Verdict :=
  match st.segs.get? (c.arg 1) with
  | none => (st, .exact "scripterror:noseg")
  | some (s, tag) =>
    let st := specCheck st s c
    -- a field whose dictionary no longer loads: term-level calls on it fail, everything else answers
    if (c.arg 0 == "post" || c.arg 0 == "dict" || c.arg 0 == "dictpair") &&
        ((st.badDictSeg.getD (c.arg 1) []).contains (strBytes (c.arg 2))) then (st, .exact "err:other") else
    match c.arg 0 with
    | "count" => (st, .exact (toString s.numDocs))
    | "fields" => (st, .exact (strList (s.fieldNames.map nameStr)))
    | "dvfields" => (st, .exact (strList (s.dvFieldNames.map nameStr)))
    | "post" => (st, .exact (postObs st s c))
    | "dict" => (st, .exact (dictObs st s c))
    | "dictpair" => (st, .exact (dictPairObs st s c))
    | "keepfields" => ({ st with kept := st.kept.insert (c.arg 2) (strList (s.fieldNames.map nameStr)) }, .exact "ok")
    | "thesaddr" =>
      -- `ThesaurusAddr(name)`: an error unless the segment has a thesaurus of that name
      if (st.refs.get? (c.arg 1)).isNone then (st, .exact "inmem")
      else (st, .exact (if (s.thes? (strBytes (c.arg 2))).isSome then "ok" else "err"))
    | "header" =>
      -- opened segments report their file's footer; segments in memory have none
      if (st.refs.get? (c.arg 1)).isSome then (st, .exact s!"mode={s.chunkMode} ver=16 docs={s.numDocs} crcok=1")
      else (st, .exact "inmem")
    | "byteswritten" =>
      -- a statistic of the build: nothing was written for an empty batch, whatever was built before
      if s.numDocs = 0 ∧ (st.segBatch.get? (c.arg 1)).isSome then (st, .exact "0") else (st, .pred (fun _ => true) "any")
    | "stored" => (st, .exact (storedObs s c))
    | "docid" => (st, .exact (match s.docID ((c.arg 2).toNat?.getD 0) with | none => "nil" | some b => hx b))
    | "docnums" => (st, .exact (natList "," (s.docNumbers (unhxList (c.getD "ids" "-")))))
    | "dv" => let (st, o) := dvObs st s tag c; (st, .exact o)
    | "dvspec" =>
      -- the property itself (C06), not the model of the merge: a survivor's doc values are those of
      -- its source document `src=<segment>:<doc>` in the input it came from
      match (c.getD "src" "").splitOn ":" with
      | [sn, sd] =>
        match st.segs.get? sn with
        | some (src, stag) =>
          let c' : Cmd := { c with kv := c.kv.map (fun p => if p.1 == "doc" then ("doc", sd) else p),
                                   pos := c.pos.set 2 "-" }
          let (_, o) := dvObs st src stag c'
          (st, .exact o)
        | none => (st, .exact "scripterror:nosrc")
      | _ => (st, .exact "scripterror:src")
    | "thesterms" =>
      let terms := s.thesTerms (strBytes (c.arg 2))
      let probe := unhxList (c.getD "probe" "-")
      let bits := if probe.isEmpty then "-" else String.join (probe.map (fun p => b01 (terms.contains p)))
      -- listing through a key range [lo, hi) (only non-empty, well-formed ranges are generated) and
      -- through the automaton that accepts nothing
      let lo := let v := c.getD "lo" "*"; if v == "*" then none else some (unhx v)
      let hi := let v := c.getD "hi" "*"; if v == "*" then none else some (unhx v)
      let sel := terms.filter (fun t =>
        (match lo with | none => true | some l => !Bytes.lt t l) &&
        (match hi with | none => true | some h => Bytes.lt t h) &&
        c.getD "aut" "all" == "all")
      (st, .exact s!"terms={hxList sel} contains={bits}")
    | "samesize" => (st, .exact "1")   -- the generator's premise (two images of the same length) holds
    | "docids" =>
      let n := c.nat "n" 0
      (st, .exact (strList ((List.range n).map (fun d => match s.docID d with | none => "nil" | some b => hx b))))
    | "thes" => (st, .exact (thesObs s c))
    | _ => (st, .none)

def rejects (v : Option Name) (b : Batch) : Bool :=
  match v with
  | none => false
  | some n => b.any (fun d => d.fields.any (fun f => f.kind != .comp && f.name = n))

def footerCheck (c : Cmd) (got : String) : Bool :=
  match kvOf got "len", kvOf got "gocrc", kvOf got "foot" with
  | some len, some gocrc, some foot =>
    let fb := unhx foot
    let be := fun (off n : Nat) => ((fb.drop off).take n).foldl (fun a b => a * 256 + b) 0
    let lenN := len.toNat?.getD 0
    -- numDocs@0 stored@8 fieldsIndex@16 sectionsIndex@24 docValue@32 chunkMode@40 version@44 crc@48
    let ok1 := fb.length == Gen.FooterSize && be 0 8 == c.nat "docs" 0 && be 40 4 == c.nat "mode" 0 && be 44 4 == Gen.Version
      && be 48 4 == gocrc.toNat?.getD 1 && be 16 8 == be 24 8 && be 24 8 < lenN && be 8 8 ≤ be 24 8
    match kvOf got "body" with
    | none => ok1
    | some body =>
      -- the model's own CRC-32 over all preceding bytes (body ++ footer without the CRC itself)
      ok1 && Codec.crc32 (unhx body ++ fb.take 48) == be 48 4
  | _, _, _ => false


/-! ### vector commands -/

def parseVHits (s : String) : List VHit :=
  if s == "-" then [] else (s.splitOn ",").map (fun t =>
    match t.splitOn ":" with
    | [d, sc] => { doc := d.toNat?.getD 0, score := sc.toInt?.getD 0 }
    | _ => default)

def St.vecIx? (st : St) (seg : String) (f : Name) : Option VecIx :=
  match st.seg? seg with
  | none => none
  | some s => match s.field? f with
    | none => none
    | some fm => fm.vec

def St.totalLive (st : St) : Nat := st.vcaches.fold (fun acc _ c => acc + c.live) 0

def countersOk (st : St) (g : String) : Bool :=
  kvOf g "live" == some (toString st.totalLive) ∧ kvOf g "dclose" == some "0" ∧ kvOf g "uac" == some "0"

def vecObs (st : St) (c : Cmd) : St × Verdict :=
  match c.op with
  | "vreset" => ({ st with vcaches := {}, handles := {} }, .none)
  | "vopen" =>
    let seg := c.arg 1
    let f := strBytes (c.arg 2)
    let has := (st.vecIx? seg f).isSome
    let cache := st.vcaches.getD seg {}
    if (c.get? "engfail").isSome then
      -- the engine fails while the index is loaded: the caller gets the error, nothing is cached and
      -- nothing stays alive; when the armed call is never reached the open succeeds as usual
      let stOk := { st with handles := st.handles.insert (c.arg 0) (seg, f, parseBitmap (c.getD "ex" "nil"), c.getD "filt" "0" == "1", has),
                            vcaches := if has then st.vcaches.insert seg (cache.open f) else st.vcaches }
      (st, .pred (fun g => if kvOf g "fired" == some "1" then g.startsWith "err:engine" else g.startsWith "ok")
            "err:engine when the armed engine call was reached, ok otherwise")
      |> fun r => if has ∧ !(cache.entries.any (·.field = f)) then r else (stOk, .pred (fun g => g.startsWith "ok") "ok (index already cached or no vectors: the engine is not called)")
    else
    -- inside `par k` every goroutine opens its own handle under this name
    let st := { st with handles := st.handles.insert (c.arg 0) (seg, f, parseBitmap (c.getD "ex" "nil"), c.getD "filt" "0" == "1", has),
                        vcaches := if has then st.vcaches.insert seg (iterN (fun x => x.open f) st.parMul cache) else st.vcaches }
    (st, .exact "ok")
  | "vclose" =>
    match st.handles.get? (c.arg 0) with
    | none => (st, .exact "scripterror:nohandle")
    | some (seg, f, _, _, has) =>
      let cache := st.vcaches.getD seg {}
      ({ st with handles := st.handles.erase (c.arg 0),
                 vcaches := if has then st.vcaches.insert seg (iterN (fun x => x.closeHandle f) st.parMul cache) else st.vcaches }, .exact "ok")
  | "vsearch" =>
    -- `engfail=<op>:<n>`: the engine fails inside this search: the caller gets the error (and the
    -- handle, the cache entry and every other handle stay as they were); if the armed call was not
    -- reached (` fired=0` is appended to the observation), the ordinary answer is due
    let withFault : St × Verdict → St × Verdict := fun r =>
      if (c.get? "engfail").isNone then r else
      let strip : String → String := fun g => ((g.replace " fired=0" "").replace " fired=1" "")
      match r with
      | (st, .exact w) => (st, .pred (fun g => if kvOf g "fired" == some "1" then g.startsWith "err:engine" else strip g == w)
                                 ("err:engine when the armed engine call was reached, otherwise " ++ w))
      | (st, .pred ok d) => (st, .pred (fun g => if kvOf g "fired" == some "1" then g.startsWith "err:engine" else ok (strip g))
                                 ("err:engine when the armed engine call was reached, otherwise " ++ d))
      | r => r
    withFault <|
    match st.handles.get? (c.arg 0) with
    | none => (st, .exact "scripterror:nohandle")
    | some (seg, f, ex, _, _) =>
      let q := parseIntList (c.getD "q" "-")
      let k := c.nat "k" 1
      let numDocs := ((st.seg? seg).map (·.numDocs)).getD 0
      match st.vecIx? seg f with
      | none => (st, .exact "cnt=0 hits=-")
      | some ix =>
        if ix.dim ≠ q.length then (st, .exact "cnt=0 hits=-") else
        let eligRaw := (c.get? "elig").map (parseNatList ",")
        match eligRaw with
        | some [] => (st, .exact "cnt=0 hits=-")
        | _ =>
          -- a filter naming as many ids as the segment has documents takes the unfiltered path
          let elig := match eligRaw with
            | some l => if l.length = numDocs then none else some l
            | none => none
          let M := admissible ix q ex elig
          let exact := isExact ix
          let okHits : String → Bool := fun g =>
              let R := parseVHits ((kvOf g "hits").getD "-")
              kvOf g "cnt" == some (toString R.length) &&
              (if exact then validTopK ix.metric k M R else clusteredHits ix.metric k M R)
          (st, .pred okHits
            (if exact then s!"a best-{k} selection of {M.length} admissible vectors with true scores"
             else s!"at most {k} admissible vectors with true scores"))
  | "vtick" =>
    let seg := c.arg 0
    let cache := st.vcaches.getD seg {}
    (st, .pred (fun g =>
        let ev := (parseStrList ((kvOf g "evicted").getD "-")).map strBytes
        cache.tickLegal ev &&
        (let st' := { st with vcaches := st.vcaches.insert seg (cache.tick ev) }
         countersOk st' g))
      "only entries without open handles evicted; engine live = cached entries; no double close / use after close")
  | "vcounters" => (st, .pred (countersOk st) s!"live={st.totalLive} dclose=0 uac=0")
  | "vrefs" =>
    let cache := st.vcaches.getD (c.arg 0) {}
    let parts := sortStrs (cache.entries.map (fun e => s!"{nameStr e.field}:{e.refs}"))
    (st, .exact (strList parts))
  | "vstats" =>
    match st.seg? (c.arg 0) with
    | none => (st, .exact "scripterror:noseg")
    | some s =>
      let parts := s.loadedFields.filterMap (fun f => f.vec.map (fun ix => s!"{nameStr f.name}:{ix.vecs.length}"))
      (st, .exact (strList (sortStrs parts)))
  | "buildfault" =>
    (st, .pred (fun g => if kvOf g "fired" == some "1" then g.startsWith "err:engine" ∧ kvOf g "englive" == some "0"
                         else g.startsWith "ok") "engine fault => err:engine and no live index; no fault => ok")
  | _ => (st, .none)

/-- the eviction reported by a tick is applied to the model after validation -/
def applyTick (st : St) (c : Cmd) (got : String) : St :=
  if c.op == "vtick" then
    let seg := c.arg 0
    let cache := st.vcaches.getD seg {}
    let ev := (parseStrList ((kvOf got "evicted").getD "-")).map strBytes
    { st with vcaches := st.vcaches.insert seg (cache.tick ev) }
  else st

/-- Expected outcome of a non-query command; also updates the model state. -/
def commandObs (st : St) (c : Cmd) : St × Verdict :=
  match c.op with
  | "env" => ({ st with vectors := c.getD "vectors" "0" == "1" }, .none)
  | "cfg" =>
    let st := match c.get? "chunkmode" with | some v => { st with mode := v.toNat?.getD st.mode } | none => st
    let st := match c.get? "dvchunk" with | some v => { st with dvChunk := v.toNat?.getD st.dvChunk } | none => st
    let st := match c.get? "pinned" with | some v => { st with pinned := v == "1" } | none => st
    (st, .none)
  | "validator" =>
    let a := c.arg 0
    ({ st with validator := if a == "none" then none else some (strBytes ((a.splitOn ":").getD 1 "")) }, .none)
  | "build" =>
    match st.batches.get? (c.arg 1) with
    | none => (st, .exact "scripterror:nobatch")
    | some b =>
      let mode := c.nat "mode" st.mode
      if rejects st.validator b then (st, .exact "err:validate") else
      let s := buildSeg st.vectors mode b
      if mode = 0 ∧ !b.isEmpty then (st, .exact "err:chunkzero") else
      if !modeOK mode s then (st, .exact (if mode ≤ 1026 then "err:chunkzero" else "err:other")) else
      -- the array-level model of realloc/process (shared backing arrays) must agree with the entry-level one
      if !Zap.Arr.arraysAgree st.vectors b then (st, .exact "model-inconsistency:backing-arrays") else
      ({ st with segs := st.segs.insert (c.arg 0) (s, st.nextTag), nextTag := st.nextTag + 1,
                 segBatch := st.segBatch.insert (c.arg 0) b }, .exact "ok")
  | "persist" =>
    match st.seg? (c.arg 0) with
    | none => (st, .exact "scripterror:noseg")
    | some s =>
      match c.get? "fsize" with
      | some lim =>
        let limit := lim.toNat?.getD 0
        let full := c.nat "full" 0
        if limit < full then (st, .pred (fun g => g.startsWith "err:io file=0") "err:io file=0 (limit < full size)")
        else ({ st with files := st.files.insert (c.arg 1) s }, .pred (fun g => g.startsWith "ok") "ok (limit >= full size)")
      | none => ({ st with files := st.files.insert (c.arg 1) s,
                           fileBatch := (match st.segBatch.get? (c.arg 0) with | some b => st.fileBatch.insert (c.arg 1) b | none => st.fileBatch.erase (c.arg 1)),
                           d3 := if st.d3.contains (c.arg 0) then st.d3.insert (c.arg 1) true else st.d3 },
                 .pred (fun g => g.startsWith "ok size=") "ok size=<n>")
  | "writeto" =>
    if c.getD "nilw" "0" == "1" then (st, .pred (fun g => g.startsWith "err:other") "an error (no writer)") else
    match c.get? "fail" with
    | some f =>
      let limit := f.toNat?.getD 0
      let full := c.nat "full" 0
      if limit < full then (st, .pred (fun g => g.startsWith "err:io") "err:io (fail < full size)")
      else (st, .pred (fun g => g.startsWith "ok" ∧ kvOf g "n" == some (toString full) ∧ kvOf g "len" == some (toString full)) "ok n=len=full")
    | none => (st, .pred (fun g => g.startsWith "ok" ∧ kvOf g "n" == kvOf g "len") "ok n=len")
  | "cmpfile" => (st, .exact "same=1")
  | "dumpfile" =>
    match st.files.get? (c.arg 0) with
    | none => (st, .exact "scripterror:nofile")
    | some s => (st, .explain (fun g => Layout.analyze s g)
        ("file decodes, by the documented v16 layout, to exactly the model content " ++ "(Layout.analyze)"))
  | "footer" =>
    -- document count and chunk mode are the model's own when it knows the file (the generator's
    -- `docs=` / `mode=` only serve for buffers and files the model has no segment for)
    let c' : Cmd := match st.files.get? (c.arg 0) with
      | some s => { c with kv := [("docs", toString s.numDocs), ("mode", toString s.chunkMode)] ++ c.kv.filter (fun p => p.1 != "docs" && p.1 != "mode") }
      | none => c
    (st, .pred (footerCheck c') "footer: docs, chunk mode, version 16, CRC-32 of all preceding bytes")
  | "corruptdict" =>
    match st.files.get? (c.arg 1) with
    | none => (st, .exact "scripterror:nofile")
    | some s =>
      let fld := strBytes (c.arg 2)
      match s.field? fld with
      | none => (st, .exact "nodict")
      | some f =>
        if f.terms.isEmpty then (st, .exact "scripterror:notermsinfield") else
        ({ st with files := st.files.insert (c.arg 0) s,
                   fileBatch := (match st.fileBatch.get? (c.arg 1) with | some b => st.fileBatch.insert (c.arg 0) b | none => st.fileBatch.erase (c.arg 0)),
                   badDictFile := st.badDictFile.insert (c.arg 0) (fld :: st.badDictFile.getD (c.arg 1) []) }, .exact "ok")
  | "open" =>
    match st.files.get? (c.arg 1) with
    | none => (st, .exact "scripterror:nofile")
    | some s => ({ st with segs := st.segs.insert (c.arg 0) (s, st.nextTag), nextTag := st.nextTag + 1,
                           badDictSeg := (match st.badDictFile.get? (c.arg 1) with | some l => st.badDictSeg.insert (c.arg 0) l | none => st.badDictSeg.erase (c.arg 0)),
                           refs := st.refs.insert (c.arg 0) {},
                           segBatch := (match st.fileBatch.get? (c.arg 1) with | some b => st.segBatch.insert (c.arg 0) b | none => st.segBatch.erase (c.arg 0)),
                           d3 := if st.d3.contains (c.arg 1) then st.d3.insert (c.arg 0) true else st.d3 }, .exact "ok")
  | "close" =>
    let cache := st.vcaches.getD (c.arg 0) {}
    ({ st with vcaches := st.vcaches.insert (c.arg 0) cache.clear }, .exact "ok")
  | "merge" =>
    let names := parseStrList (c.getD "segs" "-")
    let segs := names.filterMap st.seg?
    if segs.length ≠ names.length then (st, .exact "scripterror:noseg") else
    let drops := dropsOf c names.length
    -- an input with a dictionary that does not load: the merge fails and leaves nothing
    if names.any (fun n => !(st.badDictSeg.getD n []).isEmpty) then
      (st, .pred (fun g => g.startsWith "err:other file=0") "err:other file=0 (an input's dictionary does not load)") else
    let mode := c.nat "mode" st.mode
    -- the same merge repeated under faults or cancellation is computed once
    let memoKey := s!"{c.getD "segs" "-"}|{c.getD "drops" ""}|{mode}|{names.map (fun n => ((st.segs.get? n).map (·.2)).getD 0)}"
    let (m, maps) := match st.mergeMemo.get? memoKey with
      | some r => r
      | none => mergeSegs st.vectors mode segs drops
    let st := { st with mergeMemo := st.mergeMemo.insert memoKey (m, maps) }
    -- files of the frozen corpus were MERGED by the pinned release, i.e. before fix D11
    let m := if st.pinned then pinnedDv segs maps m else m
    -- files of the frozen corpus aside (never re-merged), a merge hands back its maps also when nothing survives (D15)
    let okStr := s!"ok maps={mapsStr maps} szeq=1"
    let st' := { st with files := st.files.insert (c.arg 0) m, fileBatch := st.fileBatch.erase (c.arg 0),
                         d3 := if m.numDocs = 0 ∧ (mergedFieldNames segs).length ≥ 2 then st.d3.insert (c.arg 0) true else st.d3 }
    let cl := c.getD "close" "never"
    -- every successful run of the same merge must reproduce the content digest of the first one
    let digestOk : String → Bool := fun g => match kvOf g "digest", st.digests.get? (c.arg 0) with
      | some d, some ref => d == ref
      | _, _ => true
    let okPred : String → Bool := fun g => g.startsWith okStr && digestOk g
    if cl == "before" ∨ cl.startsWith "beforebuf:" then (st, .pred (fun g => g.startsWith "err:closed file=0") "err:closed file=0")
    else if cl.startsWith "engine:" then
      -- the channel is closed from inside an engine call of the vector merge: the merge either notices
      -- (nothing at the path) or completes with the reference content; either way no engine index survives
      (st', .pred (fun g => (g.startsWith "err:closed file=0" || okPred g) && kvOf g "englive" == some "0")
            ("(err:closed file=0 or " ++ okStr ++ ") and englive=0"))
    else if cl.startsWith "report:" ∧ (c.get? "fsize").isSome then
      -- a size limit far below the output AND a cancellation: an error of either kind, nothing left
      (st', .pred (fun g => g.startsWith "err:closed file=0" || g.startsWith "err:io file=0" || okPred g)
            ("err:closed file=0 or err:io file=0 (write fault and cancellation in one merge), or - the output fits the limit and the closure came too late - " ++ okStr))
    else if cl.startsWith "report:" then
      (st', .pred (fun g => g.startsWith "err:closed file=0" || okPred g) ("err:closed file=0 or " ++ okStr ++ " with the reference content digest"))
    else if (c.get? "engfail").isSome then
      (st', .pred (fun g => if kvOf g "fired" == some "0" then g.startsWith okStr
                            else g.startsWith "err:engine file=0" ∧ kvOf g "fired" == some "1" ∧ kvOf g "englive" == some "0")
            ("err:engine file=0 englive=0 (or, if the fault did not fire, " ++ okStr ++ ")"))
    else match c.get? "fsize" with
      | some lim =>
        -- the size of a merge output varies by a few bytes from run to run (sections are written in Go map
        -- order, which changes varint widths of offsets), so the fault-free size `full` is only approximate:
        -- clearly below => must fail; clearly above => must succeed; in between either, but always consistent
        let limit := lim.toNat?.getD 0
        let full := c.nat "full" 0
        -- a transient fault (the limit is lifted once the file has reached it) may or may not have cut a
        -- write short: either the merge fails and leaves nothing, or it succeeds with the complete file
        if c.getD "transient" "0" == "1" then
          (st', .pred (fun g => g.startsWith "err:io file=0" || okPred g) ("err:io file=0 or " ++ okStr ++ " with the reference content digest"))
        else
        if limit + 16 < full then (st, .pred (fun g => g.startsWith "err:io file=0") "err:io file=0")
        else if limit ≥ full + 16 then (st', .pred okPred okStr)
        else (st', .pred (fun g => g.startsWith "err:io file=0" || okPred g) ("err:io file=0 or " ++ okStr))
      | none => (st', .pred okPred okStr)
  | "q" => queryObs st c
  | "enc" => (st, Codec.encVerdict c |> fun v => match v with
      | .inl s => .exact s
      | .inr (p, d) => .pred p d)
  | "showkept" => (st, .exact ((st.kept.get? (c.arg 0)).getD "scripterror:nokept"))
  | "poolprobe" => (st, .exact "doubled=0")
  | "par" => ({ st with parMul := (c.arg 0).toNat?.getD 4 }, .none)
  | "endpar" => ({ st with parMul := 1 }, .none)
  | "ref" =>
    let name := c.arg 1
    match st.refs.get? name with
    | none =>  -- in-memory segment: AddRef / DecRef / Close are harmless no-ops
      (st, match c.arg 0 with
        | "refs" => .exact "refs=na"
        | "mapped" => .none
        | "sabotage" => .exact "inmem"
        | _ => .exact "ok")
    | some r =>
      -- the release that finds the mapping already gone (`ref sabotage`) reports the failed munmap,
      -- and still closes the file
      -- `n=<k>`: the operation repeated k times by one caller
      let r' := fun (op : RefOp) => iterN (fun x => x.step op) (st.parMul * c.nat "n" 1) r
      let releasing := fun (op : RefOp) => (r' op).releases > r.releases
      let relObs := fun (op : RefOp) =>
        if st.sabotaged.contains name ∧ releasing op then Verdict.pred (fun g => g.startsWith "err") "an error (the mapping was taken away before the release)"
        else Verdict.exact "ok"
      match c.arg 0 with
      | "addref" => ({ st with refs := st.refs.insert name (r' .addRef) }, .exact "ok")
      | "decref" => ({ st with refs := st.refs.insert name (r' .decRef) }, relObs .decRef)
      | "close" => ({ st with refs := st.refs.insert name (r' .close) }, relObs .close)
      | "sabotage" => ({ st with sabotaged := st.sabotaged.insert name true }, .exact "ok")
      | "refs" => (st, .exact s!"refs={r.refs}")
      | "mapped" =>
        if r.releases = 0 ∧ st.sabotaged.contains name then
          (st, .pred (fun g => (kvOf g "fds") == some "1") "descriptor still held (the mapping was taken away)")
        else
        if r.releases = 0 then
          (st, .pred (fun g => (kvOf g "fds") == some "1" ∧ ((kvOf g "maps").bind String.toNat?).getD 0 ≥ 1) "mapping and descriptor still held (maps>=1 fds=1)")
        else (st, .exact "maps=0 fds=0")
      | _ => (st, .none)
  | _ => vecObs st c

end Zap.Driver
