/-
  ZapModel.VecSearch: zapx's own logic around the (abstract) nearest-neighbour engine.

    faiss_vector_posting.go   InterpretVectorIndex: `search`, `searchWithFilter`,
                              `addIDsToPostingsList`, `getVectorCode`, `VecPostingsIterator`
    faiss_vector_cache.go     `createAndCacheLOCKED` (the id -> doc table), `getVecIDsToExclude`,
                              `cacheEntry.load` / `decRef`, `cleanup`, `Clear`

  The engine (FAISS) is a PARAMETER: `Engine` is two functions, `EngineOK` their contract
  ("exact index": a best-k selection of the selected ids with their true scores).  `refEngine`
  is an executable engine which satisfies the contract (proved in ZapProofs.VecLemmas), so
  the contract is satisfiable and the examples compute.

  NOT MODELLED
  * the clustered (IVF) branch of `searchWithFilter` (cluster selection, nprobe, include /
    exclude selector choice): a clustered index is only sound, not exact; the differential
    run checks it with `soundHits` only;
  * `float32`: scores are exact integers (generated vector components are small integers);
    `bits : Int → Nat` stands for `math.Float32bits(float32 score)`;
  * engine errors (`err != nil` returns);
  * eviction timing of the cache monitor (an EWMA in floats): a `tick` may evict ANY set of
    fields that is legal per `VCache.tickLegal` (refs ≤ 0).  The harness reports what the
    real tick evicted, the model checks legality.
-/
import ZapModel.Vector
import ZapModel.Gen.Pure

namespace Zap.VecSearch

/-! ### Index content and the two id tables -/

/-- (vector id, document, vector); vector ids are distinct (a side condition of the theorems) -/
abbrev Content := List (Nat × Nat × List Int)

structure VIndex where
  dim : Nat
  metric : Nat
  content : Content
  deriving Repr, DecidableEq, Inhabited

/-- the id-free view used by `admissible` / `validTopK` (ZapModel.Vector) -/
def VIndex.toVecIx (ix : VIndex) (opt : Nat := 0) : VecIx :=
  { dim := ix.dim, metric := ix.metric, opt := opt, vecs := ix.content.map (·.2) }

/-- number the vectors of an id-free index by position (any assignment of distinct ids would
    do; the engine's ids are not observable through `search`) -/
def VIndex.ofVecIx (v : VecIx) : VIndex :=
  { dim := v.dim, metric := v.metric, content := v.vecs.zipIdx.map (fun p => (p.2, p.1)) }

/-- The engine, contract only: -/
structure Engine where
  /-- exact search among all ids not in `excl`: returns (id, score) pairs -/
  searchExcl : (q : List Int) → (k : Nat) → (excl : List Nat) → List (Nat × Int)
  /-- exact search among the ids in `incl` -/
  searchIncl : (q : List Int) → (k : Nat) → (incl : List Nat) → List (Nat × Int)

/-- `vecDocIDMap` as an association list (vector id, doc) -/
abbrev VMap := List (Nat × Nat)

/-- `createAndCacheLOCKED` after the fix: EVERY vector of the field, whatever `except` the
    creating call had. -/
def vecDocIDMap (c : Content) : VMap := c.map (fun t => (t.1, t.2.1))

/-- the table as built BEFORE the fix: vectors of documents in the creating call's
    `except` bitmap are left out (and the table is then shared with later callers) -/
def vecDocIDMapDefect (c : Content) (ex : List Nat) : VMap :=
  (c.filter (fun t => !ex.contains t.2.1)).map (fun t => (t.1, t.2.1))

/-- `vecDocIDMap[vecID]` -/
def lookupDoc : VMap → Nat → Option Nat
  | [], _ => none
  | (i, d) :: r, id => if i = id then some d else lookupDoc r id

/-- `docVecIDMap[doc]` (built from `vecDocIDMap` by `addDocVecIDMapToCacheLOCKED`, or by the
    same loop at creation) -/
def docVecIDs (m : VMap) (doc : Nat) : List Nat := (m.filter (fun p => p.2 == doc)).map (·.1)

/-- `getVecIDsToExclude` -/
def vecIDsToExclude (m : VMap) (ex : List Nat) : List Nat :=
  (m.filter (fun p => ex.contains p.2)).map (·.1)

/-! ### The engine contract -/

/-- `res` is an exact best-`k` selection among the vectors of `c` whose id satisfies `adm`. -/
structure ExactSel (c : Content) (metric : Nat) (q : List Int) (k : Nat) (adm : Nat → Bool)
    (res : List (Nat × Int)) : Prop where
  /-- each pair is (id, true score) of a selected vector -/
  sound : ∀ p ∈ res, ∃ d v, (p.1, d, v) ∈ c ∧ adm p.1 = true ∧ p.2 = vscore metric q v
  /-- no id twice -/
  nodup : (res.map (·.1)).Nodup
  /-- at most k -/
  atMost : res.length ≤ k
  /-- no omitted selected vector is strictly better than a returned one -/
  exact : ∀ p ∈ res, ∀ t ∈ c, adm t.1 = true → t.1 ∉ res.map (·.1) →
            vbetter metric (vscore metric q t.2.2) p.2 = false
  /-- as many as there are, up to k -/
  count : res.length = min k (c.filter (fun t => adm t.1)).length

/-- Contract of an engine holding the vectors of `ix` (only queries of the index dimension
    ever reach the engine). -/
def EngineOK (E : Engine) (ix : VIndex) : Prop :=
  ∀ q k, q.length = ix.dim →
    (∀ excl, ExactSel ix.content ix.metric q k (fun id => !excl.contains id) (E.searchExcl q k excl)) ∧
    (∀ incl, ExactSel ix.content ix.metric q k (fun id => incl.contains id) (E.searchIncl q k incl))

/-! ### A reference engine (exhaustive scan, stable insertion sort, first k) -/

def insertRes (metric : Nat) (p : Nat × Int) : List (Nat × Int) → List (Nat × Int)
  | [] => [p]
  | a :: r => if vbetter metric a.2 p.2 then a :: insertRes metric p r else p :: a :: r

def sortRes (metric : Nat) (l : List (Nat × Int)) : List (Nat × Int) :=
  l.foldr (insertRes metric) []

def refSelect (ix : VIndex) (q : List Int) (k : Nat) (adm : Nat → Bool) : List (Nat × Int) :=
  (sortRes ix.metric ((ix.content.filter (fun t => adm t.1)).map
    (fun t => (t.1, vscore ix.metric q t.2.2)))).take k

def refEngine (ix : VIndex) : Engine where
  searchExcl q k excl := refSelect ix q k (fun id => !excl.contains id)
  searchIncl q k incl := refSelect ix q k (fun id => incl.contains id)

/-! ### `search` / `searchWithFilter` -/

/-- `addIDsToPostingsList`: ids unknown to the table are skipped; the postings are a SET of
    codes (doc, score) - here in order of first insertion, `postingsCodes` sorts. -/
def addIDsToPostingsList (m : VMap) (res : List (Nat × Int)) : List VHit :=
  (res.filterMap (fun p => (lookupDoc m p.1).map (fun d => ({ doc := d, score := p.2 } : VHit)))).eraseDups

/-- the `search` closure over what `InterpretVectorIndex` captured: engine, dimension, the
    id table and the exclusion list -/
def searchCore (E : Engine) (dim : Nat) (m : VMap) (excl : List Nat) (q : List Int) (k : Nat) :
    List VHit :=
  if dim ≠ q.length then [] else addIDsToPostingsList m (E.searchExcl q k excl)

/-- the eligible documents that are not excluded (the fix of defect D12: the eligible set is the
    caller's and may name documents of the handle's exclusion bitmap; those stay excluded) -/
def liveEligible (exDocs eligible : List Nat) : List Nat :=
  eligible.filter (fun d => !exDocs.contains d)

/-- the `searchWithFilter` closure (flat index).  The two shortcuts (`len(eligible) == 0`,
    `len(eligible) == numDocs`) look at the caller's list, before excluded documents are dropped. -/
def searchWithFilterCore (E : Engine) (dim : Nat) (m : VMap) (excl exDocs : List Nat) (numDocs : Nat)
    (q : List Int) (k : Nat) (eligible : List Nat) : List VHit :=
  if dim ≠ q.length then [] else
  if eligible.isEmpty then [] else
  if eligible.length = numDocs then addIDsToPostingsList m (E.searchExcl q k excl) else
  let incl := (liveEligible exDocs eligible).flatMap (docVecIDs m)
  if incl.isEmpty then [] else addIDsToPostingsList m (E.searchIncl q k incl)

/-- the closure as it was before the fix of D12: the include list is built from the caller's
    eligible set as it is -/
def searchWithFilterCoreD12 (E : Engine) (dim : Nat) (m : VMap) (excl : List Nat) (numDocs : Nat)
    (q : List Int) (k : Nat) (eligible : List Nat) : List VHit :=
  if dim ≠ q.length then [] else
  if eligible.isEmpty then [] else
  if eligible.length = numDocs then addIDsToPostingsList m (E.searchExcl q k excl) else
  let incl := eligible.flatMap (docVecIDs m)
  if incl.isEmpty then [] else addIDsToPostingsList m (E.searchIncl q k incl)

/-! #### clustered (IVF) index: the id selector of a filtered search

After the live eligible documents are known, the clustered branch hands the engine an id
selector: with more than half of the vector-owning documents eligible an EXCLUSION selector
(`NewIDSelectorNot`) over the vectors of every document of `docVecIDMap` that is not in the
eligible bitset, otherwise an INCLUSION selector (`NewIDSelectorBatch`) over
`vectorIDsToInclude`.  Which vectors the engine then looks at inside the probed clusters is the
engine's business (not modelled); which ids the selector admits is zapx's. -/

/-- the `ineligibleVectorIDs` loop over `docVecIDMap` -/
def ineligibleVecIDs (m : VMap) (live : List Nat) : List Nat :=
  (m.filter (fun p => !live.contains p.2)).map (·.1)

/-- does the selector admit vector `id`?  (`useNot` = the ratio test came out above 0.5) -/
def ivfSelects (useNot : Bool) (m : VMap) (live : List Nat) (id : Nat) : Bool :=
  if useNot then !(ineligibleVecIDs m live).contains id
  else (live.flatMap (docVecIDs m)).contains id

/-- search with the complete table: a function of (index, q, k, ex) -/
def search (E : Engine) (ix : VIndex) (q : List Int) (k : Nat) (ex : List Nat) : List VHit :=
  searchCore E ix.dim (vecDocIDMap ix.content) (vecIDsToExclude (vecDocIDMap ix.content) ex) q k

def searchWithFilter (E : Engine) (ix : VIndex) (numDocs : Nat) (q : List Int) (k : Nat)
    (ex eligible : List Nat) : List VHit :=
  searchWithFilterCore E ix.dim (vecDocIDMap ix.content)
    (vecIDsToExclude (vecDocIDMap ix.content) ex) ex numDocs q k eligible

/-- a field may have no vector index at all (`vecIndex == nil`): empty result -/
def searchField (f : Option (Engine × VIndex)) (q : List Int) (k : Nat) (ex : List Nat) : List VHit :=
  match f with
  | none => []
  | some (E, ix) => search E ix q k ex

def searchWithFilterField (f : Option (Engine × VIndex)) (numDocs : Nat) (q : List Int) (k : Nat)
    (ex eligible : List Nat) : List VHit :=
  match f with
  | none => []
  | some (E, ix) => searchWithFilter E ix numDocs q k ex eligible

/-- the `admissible` filter argument the differential driver uses for a filtered search:
    a filter naming as many ids as the segment has documents takes the unfiltered path -/
def eligArg (numDocs : Nat) (eligible : List Nat) : Option (List Nat) :=
  if eligible.length = numDocs then none else some eligible

/-! ### The postings list as the iterator sees it (roaring64 of codes, ascending) -/

def insCode (c : Nat) : List Nat → List Nat
  | [] => [c]
  | a :: r => if c < a then c :: a :: r else if c = a then a :: r else a :: insCode c r

/-- the bitmap's content in iteration order; `bits` = `Float32bits` of the score -/
def postingsCodes (bits : Int → Nat) (hits : List VHit) : List Nat :=
  hits.foldr (fun h acc => insCode (Gen.getVectorCode h.doc (bits h.score)) acc) []

/-- `nextAtOrAfter` on the remaining codes: `AdvanceIfNeeded(getVectorCode(target, 0))`, then
    `Next()`.  Returns the posting and the codes still ahead. -/
def nextAtOrAfter (rest : List Nat) (target : Nat) : Option Nat × List Nat :=
  match rest.dropWhile (fun c => decide (c < Gen.getVectorCode target 0)) with
  | [] => (none, [])
  | c :: r => (some c, r)

/-- `rv.docNum = code >> 32`, `rv.score = Float32frombits(uint32(code))` -/
def decodeCode (c : Nat) : Nat × Nat := (c >>> 32, c % 2 ^ 32)

/-! ### Cache histories (instrumented `VCache`)

  The entries carry ghost data: `gen` (the creation number = identity of the engine index)
  and the id table built by the creating call.  A handle remembers which engine index and
  which table its closures captured.  `HCache.toVCache` forgets the ghost data and gives
  the `VCache` of ZapModel.Vector (the one the differential driver steps). -/

structure IEntry where
  field : Name
  refs : Int
  gen : Nat
  vmap : VMap
  deriving Repr, DecidableEq, Inhabited

/-- what the closures returned by `InterpretVectorIndex(field, _, except)` captured -/
structure Handle where
  field : Name
  gen : Nat
  ex : List Nat
  vmap : VMap
  excl : List Nat
  deriving Repr, DecidableEq, Inhabited

structure HCache where
  entries : List IEntry := []
  closed : Bool := false
  created : Nat := 0
  /-- engine indexes closed so far, by creation number, in order of release -/
  released : List Nat := []
  /-- handles obtained and not yet closed -/
  handles : List Handle := []
  deriving Repr, DecidableEq, Inhabited

def HCache.toVCache (s : HCache) : VCache :=
  { entries := s.entries.map (fun e => { field := e.field, refs := e.refs }),
    closed := s.closed, created := s.created, released := s.released.length }

inductive Ev where
  | open (f : Name) (ex : List Nat)
  | close (h : Handle)
  | tick (evicted : List Name)
  | clear
  deriving Repr, DecidableEq, Inhabited

/-- the segment: the vectors of each field; `mkMap` = how a cache miss builds the id table from
    the field's content and the creating call's `except` -/
structure Setup where
  seg : Name → Content
  mkMap : Content → List Nat → VMap

def Setup.fixed (seg : Name → Content) : Setup := { seg := seg, mkMap := fun c _ => vecDocIDMap c }
def Setup.defect (seg : Name → Content) : Setup := { seg := seg, mkMap := vecDocIDMapDefect }

/-- `loadFromCache` -/
def HCache.open (S : Setup) (s : HCache) (f : Name) (ex : List Nat) : HCache :=
  match s.entries.find? (fun e => e.field = f) with
  | some e =>
    -- hit: `entry.load()` (refs+1), `getVecIDsToExclude(cached table, except)`
    { s with entries := s.entries.map (fun e' => if e'.field = f then { e' with refs := e'.refs + 1 } else e'),
             handles := s.handles ++ [{ field := f, gen := e.gen, ex := ex, vmap := e.vmap,
                                         excl := vecIDsToExclude e.vmap ex }] }
  | none =>
    -- miss: `createAndCacheLOCKED`; the exclusion list is collected in the same loop over ALL vectors
    let m := S.mkMap (S.seg f) ex
    { s with entries := s.entries ++ [{ field := f, refs := 1, gen := s.created, vmap := m }],
             created := s.created + 1,
             handles := s.handles ++ [{ field := f, gen := s.created, ex := ex, vmap := m,
                                         excl := vecIDsToExclude (vecDocIDMap (S.seg f)) ex }] }

/-- the wrapper's `close`: `decRef` by field id on whatever entry is cached now -/
def HCache.closeHandle (s : HCache) (h : Handle) : HCache :=
  { s with entries := s.entries.map (fun e => if e.field = h.field then { e with refs := e.refs - 1 } else e),
           handles := s.handles.erase h }

/-- `cleanup` evicting the given fields -/
def HCache.tick (s : HCache) (evicted : List Name) : HCache :=
  { s with entries := s.entries.filter (fun e => !evicted.contains e.field),
           released := s.released ++ (s.entries.filter (fun e => evicted.contains e.field)).map (·.gen) }

/-- `Clear` -/
def HCache.clear (s : HCache) : HCache :=
  { s with entries := [], closed := true, released := s.released ++ s.entries.map (·.gen) }

def HCache.step (S : Setup) (s : HCache) : Ev → HCache
  | .open f ex => s.open S f ex
  | .close h => s.closeHandle h
  | .tick ev => s.tick ev
  | .clear => s.clear

/-- which events may happen: a segment is opened for searching only while not closed and is
    closed once; only a handle that is open can be closed; a tick evicts only what
    `tickLegal` allows (refs ≤ 0). -/
def HCache.legal (s : HCache) : Ev → Bool
  | .open _ _ => !s.closed
  | .close h => s.handles.contains h
  | .tick ev => s.toVCache.tickLegal ev
  | .clear => !s.closed

/-- run a history; `none` = some event was not legal -/
def run (S : Setup) : HCache → List Ev → Option HCache
  | s, [] => some s
  | s, e :: es => if s.legal e then run S (s.step S e) es else none

/-- the same history on the plain `VCache` -/
def vstep (c : VCache) : Ev → VCache
  | .open f _ => c.open f
  | .close h => c.closeHandle h.field
  | .tick ev => c.tick ev
  | .clear => c.clear

/-- open handles of a field -/
def HCache.openHandles (s : HCache) (f : Name) : Nat := (s.handles.filter (fun h => h.field = f)).length

/-- engine indexes released by an event -/
def HCache.releasedBy (s : HCache) : Ev → List Nat
  | .tick ev => (s.entries.filter (fun e => ev.contains e.field)).map (·.gen)
  | .clear => s.entries.map (·.gen)
  | _ => []

/-- a search through a handle: the closure uses what it captured -/
def Handle.search (h : Handle) (E : Engine) (dim : Nat) (q : List Int) (k : Nat) : List VHit :=
  searchCore E dim h.vmap h.excl q k

def Handle.searchWithFilter (h : Handle) (E : Engine) (dim numDocs : Nat) (q : List Int) (k : Nat)
    (eligible : List Nat) : List VHit :=
  searchWithFilterCore E dim h.vmap h.excl h.ex numDocs q k eligible

end Zap.VecSearch
