/-
  ZapModel.Reuse: preallocation reuse of `PostingsList` / `PostingsIterator`
  (and, lightly, `SynonymsList`) objects.

  A caller may pass a previously returned object back in (`prealloc`) when it
  asks for the postings list of a *different* term, field or segment
  (dict.go `postingsList` → `postingsListInit`, posting.go `PostingsList.Iterator`
  → `iterator`, thesaurus.go `synonymsListInit`).  The Go code clears the
  struct (`*rv = PostingsList{}`) but keeps a few heap objects to avoid
  re-allocation.  Here a reusable object is

        (observable state)  ×  (retained buffers, whose content persists
                                unless the reuse branch clears them)

  and the reuse branches are parametrised by `Flags`: one boolean per retained
  buffer saying whether the branch clears it.  The booleans of the real source
  are GENERATED (`Zap.Gen.Facts.preservedCleared`, read by `flagsOf`); the
  proofs (ZapProofs/Props/C07Reuse.lean) show which of them the observable
  behaviour depends on, by theorem for the extracted values and by
  counterexample for the others.

  Retained, per object (this is `Zap.Gen.Facts.preserved`):
  * `PostingsList`: the roaring bitmap object `postings` (content persists unless `Clear()`);
  * `PostingsIterator`: the two `*chunkedIntDecoder`s (`chunkOffsets`, `curChunkBytes`, `data`,
    the position of `r`, `bytesRead`; persist unless `reset()`), the slices `nextLocs`,
    `nextSegmentLocs` (truncated to length 0: capacity and content persist) and `buf`
    (kept as is);
  * `SynonymsList`: the roaring64 bitmap `synonyms` and the `bytes.Reader` `buffer`.
-/
import ZapModel.Posting
import ZapModel.Gen.Facts
import ZapModel.Theory.Str

namespace Zap.Reuse
open Zap

/-! ### Which retained buffer does the reuse branch clear? -/

structure Flags where
  /-- `Dictionary.postingsListInit`: `postings.Clear()` -/
  postings : Bool
  /-- `PostingsList.iterator`: `freqNormReader.reset()` -/
  freqNormReader : Bool
  /-- `PostingsList.iterator`: `locReader.reset()` -/
  locReader : Bool
  /-- `PostingsList.iterator`: `rv.nextLocs[:0]` -/
  nextLocs : Bool
  /-- `PostingsList.iterator`: `rv.nextSegmentLocs[:0]` -/
  nextSegmentLocs : Bool
  /-- `PostingsList.iterator`: `buf := rv.buf` (not cleared in the source) -/
  buf : Bool
  /-- `Thesaurus.synonymsListInit`: `synonyms.Clear()` -/
  synonyms : Bool
  /-- `Thesaurus.synonymsListInit`: `buf.Reset(nil)` -/
  synBuffer : Bool
  deriving Repr, DecidableEq, Inhabited

/-- what the source does (asserted against the generated facts in C07Reuse.lean) -/
def Flags.source : Flags :=
  { postings := true, freqNormReader := true, locReader := true, nextLocs := true,
    nextSegmentLocs := true, buf := false, synonyms := true, synBuffer := true }

/-- the unique entry (function, field, cleared?) of the generated table -/
def flagOf (pc : List (String × String × Bool)) (fn field : String) : Option Bool :=
  match pc.filter (fun e => e.1 == fn && e.2.1 == field) with
  | [e] => some e.2.2
  | _ => none

/-- read the flags from `Gen.Facts.preservedCleared`; `none` if an entry is missing or duplicated -/
def flagsOf (pc : List (String × String × Bool)) : Option Flags := do
  let a ← flagOf pc "Dictionary.postingsListInit" "postings"
  let b ← flagOf pc "PostingsList.iterator" "freqNormReader"
  let c ← flagOf pc "PostingsList.iterator" "locReader"
  let d ← flagOf pc "PostingsList.iterator" "nextLocs"
  let e ← flagOf pc "PostingsList.iterator" "nextSegmentLocs"
  let f ← flagOf pc "PostingsList.iterator" "buf"
  let g ← flagOf pc "Thesaurus.synonymsListInit" "synonyms"
  let h ← flagOf pc "Thesaurus.synonymsListInit" "buffer"
  pure { postings := a, freqNormReader := b, locReader := c, nextLocs := d, nextSegmentLocs := e,
         buf := f, synonyms := g, synBuffer := h }

/-- The fields that survive `*rv = T{}` in the three reuse branches are exactly the retained
    buffers of this model (nothing else can carry state over), every one of them has an entry in
    the cleared-table, and no string is an extraction-failure marker. -/
def preservedOK (pv : List (String × List String)) (pc : List (String × String × Bool)) : Bool :=
  decide (pv = [ ("Dictionary.postingsListInit", ["postings"]),
                 ("PostingsList.iterator", ["freqNormReader", "locReader", "nextLocs", "nextSegmentLocs", "buf"]),
                 ("Thesaurus.synonymsListInit", ["synonyms", "buffer"]) ])
  && decide (pc.map (fun e => (e.1, e.2.1)) = pv.flatMap (fun p => p.2.map (fun f => (p.1, f))))
  && pv.all (fun p => !Theory.unrec p.1 && Theory.allRecognised p.2)
  && pc.all (fun e => !Theory.unrec e.1 && !Theory.unrec e.2.1)

/-! ### The postings list object -/

/-- A `*PostingsList`.  `postings` is the roaring bitmap object (`none` = nil pointer);
    `stream` is what `freqOffset` / `locOffset` address (nothing when they are 0). -/
structure PLObj where
  postings : Option (List Nat)
  oneHit : Option (Nat × Nat)       -- `normBits1Hit != 0`: (docNum1Hit, normBits1Hit)
  stream : List Entry
  except : Option (List Nat)
  chunkSize : Nat
  names : List Name                 -- `sb` (the field table, for locations)
  deriving Repr, DecidableEq, Inhabited

/-- `&PostingsList{}`, and also the immutable `emptyPostingsList` -/
def PLObj.zero : PLObj :=
  { postings := none, oneHit := none, stream := [], except := none, chunkSize := 0, names := [] }

/-- `postingsListInit(rv, except)`; `old = none` stands for `rv == nil || rv == emptyPostingsList`.
    The target `tgt : PList` is what a fresh lookup of (segment, field, term, except) yields. -/
def PLObj.init (fl : Flags) (old : Option PLObj) (tgt : PList) : PLObj :=
  let rv : PLObj :=
    match old with
    | none => PLObj.zero
    | some o =>
      -- postings := rv.postings; if postings != nil { postings.Clear() }; *rv = PostingsList{}; rv.postings = postings
      { PLObj.zero with postings := o.postings.map (fun docs => if fl.postings then [] else docs) }
  { rv with names := tgt.names, except := tgt.except }

/-- `rv.read(postingsOffset, d)` -/
def PLObj.read (rv : PLObj) (r : PostRep) (cs : Nat) : PLObj :=
  match r with
  | .oneHit d nb => { rv with oneHit := some (d, nb) }                   -- `init1Hit`; `postings` untouched
  | .general es =>
    -- docNum1Hit = normBits1Hit = 0; freqOffset, locOffset; `postings.FromBuffer` REPLACES the content
    { rv with oneHit := none, stream := es, postings := some (es.map (·.doc)), chunkSize := cs }

/-- `Dictionary.postingsList(term, except, rv)` -/
def PLObj.lookup (fl : Flags) (old : Option PLObj) (tgt : PList) : PLObj :=
  match tgt.rep with
  | none =>
    -- `!exists` (or no FST): the list is returned WITHOUT `read`
    match old with
    | none => PLObj.zero                       -- `return emptyPostingsList`
    | some _ => PLObj.init fl old tgt
  | some r => (PLObj.init fl old tgt).read r tgt.chunkSize

/-- the k-th document of the bitmap is paired with the k-th item of the streams; where the streams
    have nothing (offset 0) whatever is read is not the term's data: a zero entry stands for it -/
def alignStream : List Nat → List Entry → List Entry
  | [], _ => []
  | d :: ds, [] => { doc := d, freq := 0, norm := 0, locs := [] } :: alignStream ds []
  | d :: ds, e :: es => { e with doc := d } :: alignStream ds es

/-- what the object denotes, in the terms of ZapModel.Posting -/
def PLObj.view (o : PLObj) : PList :=
  { rep := match o.oneHit with
      | some (d, nb) => some (.oneHit d nb)         -- every accessor tests `normBits1Hit != 0` first
      | none =>
        match o.postings with
        | none => none
        | some docs => some (.general (alignStream docs o.stream)),
    except := o.except, chunkSize := o.chunkSize, names := o.names }

/-! ### The iterator object -/

/-- The parts of a `*chunkedIntDecoder` that `It` does not already carry (`It.loaded` / `It.fn` /
    `It.loc` are `curChunkBytes` and the position of `r`). -/
structure Reader where
  data : Nat                 -- which memory `data` aliases (0: `data[:0]`)
  chunkOffsets : List Nat
  bytesRead : Nat
  deriving Repr, DecidableEq, Inhabited

/-- `chunkedIntDecoder.reset` (the chunk bytes are reset in `ItObj.recycle`) -/
def Reader.reset (_r : Reader) : Reader := { data := 0, chunkOffsets := [], bytesRead := 0 }

/-- `newChunkedIntDecoder(buf, offset, rv)`: `startOffset`, `data`, `chunkOffsets`, `dataStartOffset`
    are assigned; `curChunkBytes` and `r` are NOT touched; `bytesRead` is incremented by the header
    size (one unit per varint here). -/
def newDecoder (data : Nat) (offsets : List Nat) (rv : Option Reader) : Reader :=
  { data := data, chunkOffsets := offsets,
    bytesRead := (match rv with | none => 0 | some r => r.bytesRead) + 1 + offsets.length }

/-- a Go slice seen with its capacity: `cells` is the backing array, `len ≤ cells.length` -/
structure Slots (α : Type) where
  len : Nat
  cells : List α
  deriving Repr, DecidableEq, Inhabited

/-- where the term's two streams live (what `p.sb.mem`, `p.freqOffset`, `p.locOffset` give) -/
structure Src where
  data : Nat
  fnOffsets : List Nat
  locOffsets : List Nat
  deriving Repr, DecidableEq, Inhabited

structure ItObj where
  /-- the struct fields, plus the chunk state of the two readers (`loaded`, `fn`, `loc`) -/
  it : It
  fnR : Option Reader
  locR : Option Reader
  nextLocs : Slots Loc
  nextSegmentLocs : Slots Loc
  buf : Option (List Nat)
  bytesRead : Nat
  deriving Repr, Inhabited

/-- `PostingsList.Iterator(includeFreq, includeNorm, includeLocs, prealloc)`; `old = none` stands
    for a nil or `emptyPostingsIterator` prealloc. -/
def ItObj.recycle (fl : Flags) (old : Option ItObj) (src : Src) (p : PList) (f n l : Bool) : ItObj :=
  let fresh := It.create p f n l
  match p.rep with
  | none =>
    -- `p.normBits1Hit == 0 && p.postings == nil`: `return emptyPostingsIterator` (prealloc untouched)
    { it := fresh, fnR := none, locR := none, nextLocs := ⟨0, []⟩, nextSegmentLocs := ⟨0, []⟩,
      buf := none, bytesRead := 0 }
  | some r =>
    let rv : ItObj :=
      match old with
      | none =>
        { it := fresh, fnR := none, locR := none, nextLocs := ⟨0, []⟩, nextSegmentLocs := ⟨0, []⟩,
          buf := none, bytesRead := 0 }
      | some o =>
        -- the two readers are kept; `reset()` empties `curChunkBytes` (so `isNil()`) and `r`
        let keepFn := o.fnR.isSome && !fl.freqNormReader
        let keepLoc := o.locR.isSome && !fl.locReader
        { it := { fresh with loaded := if keepFn then o.it.loaded else false,
                             fn := if keepFn then o.it.fn else [],
                             loc := if keepLoc then o.it.loc else [] },
          fnR := o.fnR.map (fun rd => if fl.freqNormReader then rd.reset else rd),
          locR := o.locR.map (fun rd => if fl.locReader then rd.reset else rd),
          nextLocs := if fl.nextLocs then { o.nextLocs with len := 0 } else o.nextLocs,
          nextSegmentLocs := if fl.nextSegmentLocs then { o.nextSegmentLocs with len := 0 } else o.nextSegmentLocs,
          buf := if fl.buf then none else o.buf,
          bytesRead := 0 }
    match r with
    | .oneHit _ _ => rv                       -- "1-hit" encoding: returns before the readers are set up
    | .general _ =>
      let fnR := if f || n || l then some (newDecoder src.data src.fnOffsets rv.fnR) else rv.fnR
      let locR := if l then some (newDecoder src.data src.locOffsets rv.locR) else rv.locR
      { rv with fnR := fnR, locR := locR,
                bytesRead := (if f || n || l then (fnR.map (·.bytesRead)).getD 0 else 0) +
                             (if l then (locR.map (·.bytesRead)).getD 0 else 0) }

/-- `nextLocs` / `nextSegmentLocs` during one `nextAtOrAfter`: the slots below `len` are OVERWRITTEN
    (every field of a `Location` is assigned by `readLocation`), further locations get fresh objects;
    the posting then points at the slots just written.  Returns the new backing array and what the
    returned posting shows. -/
def fillLocs (s : Slots Loc) (new : List Loc) : Slots Loc × List Loc :=
  let n := min s.len s.cells.length
  let cells := new.take n ++ s.cells.drop (min n new.length)
  ({ s with cells := cells }, cells.take (min n new.length) ++ new.drop n)

/-- `if cap(i.nextLocs) >= freq { i.nextLocs = i.nextLocs[0:freq] } else { make(freq, 2*freq) }` -/
def prepareLocs (s : Slots Loc) (freq : Nat) : Slots Loc :=
  if freq = 0 then s
  else if freq ≤ s.cells.length then { s with len := freq }
  else { len := freq, cells := List.replicate (2 * freq) default }

def ItObj.step (o : ItObj) (op : Op) : ItObj × Option Hit :=
  match o.it.step op with
  | (i, none) => ({ o with it := i }, none)
  | (i, some h) =>
    if i.incLocs && !h.locs.isEmpty then
      let (s1, shown1) := fillLocs (prepareLocs o.nextLocs h.freq) h.locs
      -- rv.locs = i.nextSegmentLocs[:0]; rv.locs = append(rv.locs, nextLoc)
      let (s2, shown2) := fillLocs { (prepareLocs o.nextSegmentLocs h.freq) with len := (prepareLocs o.nextSegmentLocs h.freq).cells.length } shown1
      ({ o with it := i, nextLocs := s1, nextSegmentLocs := s2 }, some { h with locs := shown2 })
    else ({ o with it := i }, some h)

def ItObj.run (o : ItObj) : List Op → List (Option Hit)
  | [] => []
  | op :: ops => let (o', h) := o.step op; h :: ItObj.run o' ops

def ItObj.live (o : ItObj) : List Nat := o.it.live

/-- `nextBytes` on a 1-hit list: `if i.buf == nil { i.buf = make(20) }; n := PutUvarint(i.buf, ..);
    n += PutUvarint(i.buf[n:], ..); return i.buf[:n]` — written before it is read. -/
def bytes1Hit (buf : Option (List Nat)) (enc : List Nat) : Option (List Nat) × List Nat :=
  let b := buf.getD (List.replicate 20 0)
  let b' := enc ++ b.drop enc.length
  (some b', b'.take enc.length)

/-! ### The synonyms list object (thesaurus.go `synonymsListInit`, synonym_posting.go `read`) -/

structure SLObj where
  synonyms : Option (List Nat)      -- the roaring64 bitmap object (codes), `none` = nil
  buffer : List Nat                 -- what the `bytes.Reader` currently wraps
  except : Option (List Nat)
  deriving Repr, DecidableEq, Inhabited

/-- `tgt = none`: term absent; `some codes`: the serialized bitmap found at the term's offset -/
def SLObj.lookup (fl : Flags) (old : Option SLObj) (tgt : Option (List Nat)) (except : Option (List Nat)) : SLObj :=
  let init : SLObj :=
    match old with
    | none => { synonyms := none, buffer := [], except := except }
    | some o =>
      { synonyms := o.synonyms.map (fun cs => if fl.synonyms then [] else cs),
        buffer := if fl.synBuffer then [] else o.buffer, except := except }
  match tgt with
  | none => match old with
    | none => { synonyms := none, buffer := [], except := none }       -- `emptySynonymsList`
    | some _ => init
  | some bytes =>
    -- rv.buffer.Reset(roaringBytes); rv.synonyms.ReadFrom(rv.buffer)  (ReadFrom REPLACES the content)
    let i1 := { init with buffer := bytes }
    { i1 with synonyms := some i1.buffer }

/-- the codes a synonyms list denotes -/
def SLObj.codes (o : SLObj) : List Nat := o.synonyms.getD []

end Zap.Reuse
