/-
  ZapModel.Basic: byte strings, their order, small list helpers.
  Core-only Lean (no Mathlib) so that the driver links as a `lean_exe`.
-/
namespace Zap

/-- A byte string; every element is `< 256` for well-formed values. -/
abbrev Bytes := List Nat

/-- Lexicographic "strictly less" on byte strings (Go's `bytes.Compare < 0`,
    and `sort.Strings` order on the UTF-8 bytes of names). -/
def Bytes.lt : Bytes → Bytes → Bool
  | [], [] => false
  | [], _ :: _ => true
  | _ :: _, [] => false
  | a :: as, b :: bs => if a < b then true else if b < a then false else Bytes.lt as bs

def Bytes.le (a b : Bytes) : Bool := !(Bytes.lt b a)

/-- Three-way comparison as used by the enumerator. -/
def Bytes.cmp (a b : Bytes) : Ordering :=
  if Bytes.lt a b then .lt else if Bytes.lt b a then .gt else .eq

/-- Insert into a list kept ascending by `Bytes.lt`, without duplicates. -/
def insertSorted (x : Bytes) : List Bytes → List Bytes
  | [] => [x]
  | y :: ys =>
    if Bytes.lt x y then x :: y :: ys
    else if x = y then y :: ys
    else y :: insertSorted x ys

def sortDedup (xs : List Bytes) : List Bytes := xs.foldr insertSorted []

/-- Strictly ascending (hence duplicate free). -/
def SortedLt : List Bytes → Prop
  | [] => True
  | [_] => True
  | a :: b :: rest => Bytes.lt a b = true ∧ SortedLt (b :: rest)

/-- Strictly ascending naturals (the contract of a roaring iterator). -/
def AscNat : List Nat → Prop
  | [] => True
  | [_] => True
  | a :: b :: rest => a < b ∧ AscNat (b :: rest)

def sumList : List Nat → Nat
  | [] => 0
  | x :: xs => x + sumList xs

/-- Association-list lookup. -/
def lookup {α β : Type} [DecidableEq α] (k : α) : List (α × β) → Option β
  | [] => none
  | (k', v) :: rest => if k = k' then some v else lookup k rest

def strBytes (s : String) : Bytes := s.toUTF8.toList.map (·.toNat)

end Zap
