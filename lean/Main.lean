import ZapModel.Driver
open Zap Zap.Script Zap.Driver

/-- Process one transcript line. -/
def processLine (st : St) (no : Nat) (line : String) : St × List String :=
  if line.startsWith "r " ∨ line == "r" then
    match st.pending with
    | none => (st, [])
    | some c =>
      let got := (line.drop 2).trimAscii.toString
      let st := { st with pending := none }
      let (st, verdict) := commandObs st c
      let st := applyTick st c got
      let st := if c.op == "merge" ∧ got.startsWith "ok" ∧ !(st.digests.contains (c.arg 0)) then
          match kvOf got "digest" with
          | some d => { st with digests := st.digests.insert (c.arg 0) d }
          | none => st
        else st
      let kind := if c.op == "q" then "q." ++ c.arg 0 else if c.op == "enc" then "enc." ++ c.arg 0 else c.op
      let st := { st with kinds := st.kinds.insert kind (st.kinds.getD kind 0 + 1) }
      -- `same=<tag>`: every command carrying the tag must produce the observation of the first one
      -- (answers that the model leaves open - a clustered index - must still not depend on history)
      let (st, sameOuts) : St × List String := match c.get? "same" with
        | none => (st, [])
        | some tag =>
          match st.sameObs.get? tag with
          | none => ({ st with sameObs := st.sameObs.insert tag got }, [])
          | some first =>
            if first == got then ({ st with checked := st.checked + 1 }, [])
            else ({ st with checked := st.checked + 1, mismatches := st.mismatches + 1 },
                  [s!"MISMATCH {c.lineNo} | {c.raw} | want the observation of the first command tagged same={tag}: {first} | got {got}"])
      match verdict with
      | .none => (st, sameOuts)
      | .exact want =>
        if want == got then ({ st with checked := st.checked + 1 }, sameOuts)
        else ({ st with checked := st.checked + 1, mismatches := st.mismatches + 1 },
              [s!"MISMATCH {c.lineNo} | {c.raw} | want {want} | got {got}"] ++ sameOuts)
      | .pred ok descr =>
        if ok got then ({ st with checked := st.checked + 1 }, sameOuts)
        else ({ st with checked := st.checked + 1, mismatches := st.mismatches + 1 },
              [s!"MISMATCH {c.lineNo} | {c.raw} | want {descr} | got {got}"] ++ sameOuts)
      | .explain why descr =>
        match why got with
        | none => ({ st with checked := st.checked + 1 }, sameOuts)
        | some reason => ({ st with checked := st.checked + 1, mismatches := st.mismatches + 1 },
              [s!"MISMATCH {c.lineNo} | {c.raw} | want {descr} | REASON {reason} | got {got.take 600}"] ++ sameOuts)
  else
    -- a command without observation that is still pending takes effect now
    let (st, outs) := match st.pending with
      | none => (st, ([] : List String))
      | some c => let (st, _) := commandObs { st with pending := none } c; (st, [])
    match parseLine no line with
    | none => (st, outs)
    | some c =>
      match st.batchName with
      | some bn =>
        if c.op == "endbatch" then
          ({ st with batches := st.batches.insert bn (parseBatchLines st.batchLines.reverse), batchName := none, batchLines := [] }, outs)
        else ({ st with batchLines := c :: st.batchLines }, outs)
      | none =>
        if c.op == "batch" then ({ st with batchName := some (c.arg 0), batchLines := [] }, outs)
        else ({ st with pending := some c }, outs)

partial def loop (h : IO.FS.Stream) (st : St) (no : Nat) : IO St := do
  let line ← h.getLine
  if line.isEmpty then
    -- flush a pending command
    match st.pending with
    | none => return st
    | some c => let (st, _) := commandObs { st with pending := none } c; return st
  else
    let (st, outs) := processLine st no (line.dropEndWhile (fun ch => ch == '\n' || ch == '\r')).toString
    for o in outs do IO.println o
    loop h st (no + 1)

def main (args : List String) : IO UInt32 := do
  let stdin ← IO.getStdin
  let st0 : St := { clears1Hit := !(args.contains "--pinned-read") }
  let st ← loop stdin st0 1
  let kinds := ",".intercalate (st.kinds.toList.map (fun p => s!"\"{p.1}\":{p.2}"))
  for d in st.specDiffs do IO.println d
  IO.println s!"SUMMARY specchecked={st.specChecked} specdiffs={st.specDiffs.length} checked={st.checked} mismatches={st.mismatches} known={st.known} kinds=\{{kinds}}"
  return (if st.mismatches == 0 ∧ st.specDiffs.isEmpty then 0 else 1)
