/-
  ZapProofs.MergeLemmas: helper lemmas for C05 / C06 / C13:
  order facts for `Bytes.lt`, renumbering, field union, enumerator.
-/
import ZapProofs.DictLemmas
import ZapModel.Spec

namespace Zap.MergeL
open Zap.DictL

/-! ## Renumbering -/

/-- Number of surviving documents among `0 .. n-1`. -/
def surv (n : Nat) (dr : Option (List Nat)) : Nat :=
  ((List.range n).filter (fun x => !isDropped dr x)).length

theorem surv_succ (n : Nat) (dr : Option (List Nat)) :
    surv (n + 1) dr = surv n dr + (if isDropped dr n then 0 else 1) := by
  unfold surv
  rw [List.range_succ, List.filter_append, List.length_append]
  cases h : isDropped dr n <;> simp [h]

theorem surv_zero (dr : Option (List Nat)) : surv 0 dr = 0 := rfl

theorem surv_le (n : Nat) (dr : Option (List Nat)) : surv n dr ≤ n := by
  induction n with
  | zero => simp [surv_zero]
  | succ n ih => rw [surv_succ]; split <;> omega

theorem surv_mono {a b : Nat} (h : a ≤ b) (dr : Option (List Nat)) : surv a dr ≤ surv b dr := by
  induction h with
  | refl => exact Nat.le_refl _
  | step _ ih => rw [surv_succ]; omega

/-- A surviving document strictly increases the count. -/
theorem surv_lt {d n : Nat} (hd : d < n) (dr : Option (List Nat)) (hs : isDropped dr d = false) :
    surv d dr < surv n dr := by
  have h1 : surv (d + 1) dr = surv d dr + 1 := by rw [surv_succ, hs]; rfl
  have h2 := surv_mono (show d + 1 ≤ n from hd) dr
  omega

/-- The renumbering function of one segment. -/
def remapFn (drops : Option (List Nat)) (start : Nat) (d : Nat) : Option Nat :=
  if isDropped drops d then none else some (start + surv d drops)

theorem remapSeg_eq (n : Nat) (drops : Option (List Nat)) (start : Nat) :
    remapSeg n drops start = ((List.range n).map (remapFn drops start), start + surv n drops) := by
  induction n with
  | zero => rfl
  | succ n ih =>
    have : remapSeg (n + 1) drops start =
        (fun (acc : List (Option Nat) × Nat) d =>
          if isDropped drops d then (acc.1 ++ [none], acc.2) else (acc.1 ++ [some acc.2], acc.2 + 1))
          (remapSeg n drops start) n := by
      unfold remapSeg
      rw [List.range_succ, List.foldl_append]
      rfl
    rw [this, ih, List.range_succ, List.map_append, surv_succ]
    cases h : isDropped drops n <;> simp [remapFn, h, Nat.add_assoc]

/-- Survivors before segment `i`. -/
def offset (sizes : List Nat) (drops : List (Option (List Nat))) (i : Nat) : Nat :=
  sumList ((List.range i).map (fun j => surv (sizes.getD j 0) (drops.getD j none)))

theorem sumList_append (a b : List Nat) : sumList (a ++ b) = sumList a + sumList b := by
  induction a with
  | nil => simp [sumList]
  | cons x xs ih => simp [sumList, ih, Nat.add_assoc]

theorem offset_zero (sizes : List Nat) (drops : List (Option (List Nat))) : offset sizes drops 0 = 0 := rfl

theorem offset_succ (sizes : List Nat) (drops : List (Option (List Nat))) (i : Nat) :
    offset sizes drops (i + 1) = offset sizes drops i + surv (sizes.getD i 0) (drops.getD i none) := by
  unfold offset
  rw [List.range_succ, List.map_append, sumList_append]
  simp [sumList]

theorem offset_mono (sizes : List Nat) (drops : List (Option (List Nat))) {i j : Nat} (h : i ≤ j) :
    offset sizes drops i ≤ offset sizes drops j := by
  induction h with
  | refl => exact Nat.le_refl _
  | step _ ih => rw [offset_succ]; omega

theorem offset_cons (s : Nat) (sizes : List Nat) (drops : List (Option (List Nat))) (i : Nat) :
    offset (s :: sizes) drops (i + 1) = surv s (drops.headD none) + offset sizes drops.tail i := by
  induction i with
  | zero =>
    rw [offset_succ, offset_zero, offset_zero]
    cases drops <;> simp
  | succ i ih =>
    rw [offset_succ, ih, offset_succ]
    have : (s :: sizes).getD (i + 1) 0 = sizes.getD i 0 := by simp
    have h2 : drops.getD (i + 1) none = drops.tail.getD i none := by cases drops <;> simp
    rw [this, h2, Nat.add_assoc]

theorem newNum_eq (sizes : List Nat) (drops : List (Option (List Nat))) (i d : Nat) :
    Spec.newNum sizes drops i d = remapFn (drops.getD i none) (offset sizes drops i) d := rfl

theorem survivorCount_eq (sizes : List Nat) (drops : List (Option (List Nat))) :
    Spec.survivorCount sizes drops = offset sizes drops sizes.length := rfl

theorem remapAll_cons (s : Seg) (ss : List Seg) (drops : List (Option (List Nat))) (start : Nat) :
    remapAll (s :: ss) drops start =
      (List.range s.numDocs).map (remapFn (drops.headD none) start) ::
        remapAll ss drops.tail (start + surv s.numDocs (drops.headD none)) := by
  simp only [remapAll, remapSeg_eq]

/-- `remapAll`, entry by entry. -/
theorem remapAll_getD (segs : List Seg) (drops : List (Option (List Nat))) (start i : Nat)
    (hi : i < segs.length) :
    (remapAll segs drops start).getD i [] =
      (List.range (segs[i].numDocs)).map
        (remapFn (drops.getD i none) (start + offset (segs.map (·.numDocs)) drops i)) := by
  induction segs generalizing drops start i with
  | nil => simp at hi
  | cons s ss ih =>
    rw [remapAll_cons]
    cases i with
    | zero =>
      simp only [List.getD_cons_zero, List.getElem_cons_zero, offset_zero, Nat.add_zero]
      cases drops <;> simp
    | succ i =>
      have hi' : i < ss.length := by simpa using hi
      simp only [List.getD_cons_succ, List.getElem_cons_succ, List.map_cons]
      rw [ih drops.tail _ i hi', offset_cons]
      have h2 : drops.getD (i + 1) none = drops.tail.getD i none := by cases drops <;> simp
      rw [h2, Nat.add_assoc]

theorem remapAll_length (segs : List Seg) (drops : List (Option (List Nat))) (start : Nat) :
    (remapAll segs drops start).length = segs.length := by
  induction segs generalizing drops start with
  | nil => rfl
  | cons s ss ih => rw [remapAll_cons]; simp [ih]

/-! ### `computeNewDocCount` -/

theorem countP_or_split {α : Type} (p q : α → Bool) (l : List α) :
    l.countP (fun x => p x || q x) = l.countP p + l.countP (fun x => !p x && q x) := by
  induction l with
  | nil => rfl
  | cons x xs ih =>
    simp only [List.countP_cons, ih]
    cases p x <;> cases q x <;> simp <;> omega

theorem countP_contains_range (n : Nat) (l : List Nat) (h : ∀ x ∈ l, x < n) :
    (List.range n).countP (fun x => l.contains x) = l.eraseDups.length := by
  generalize hk : l.length = k
  induction k using Nat.strongRecOn generalizing l with
  | _ k ih =>
    cases l with
    | nil => simp
    | cons a as =>
      rw [List.eraseDups_cons, List.length_cons]
      have hlen : (as.filter (fun b => !b == a)).length < k := by
        have := List.length_filter_le (fun b => !b == a) as
        simp at hk; omega
      have hmem : ∀ x ∈ as.filter (fun b => !b == a), x < n := fun x hx =>
        h x (List.mem_cons_of_mem _ (List.mem_filter.1 hx).1)
      rw [← ih _ hlen _ hmem rfl]
      have e1 : (List.range n).countP (fun x => (a :: as).contains x)
          = (List.range n).countP (fun x => (x == a) || as.contains x) := by
        apply List.countP_congr; intro x _; simp
      rw [e1, countP_or_split]
      have e2 : (List.range n).countP (fun x => x == a) = 1 := by
        have := @List.count_range a n
        rw [List.count] at this
        rw [if_pos (h a List.mem_cons_self)] at this
        rw [← this]
      have e3 : (List.range n).countP (fun x => !(x == a) && as.contains x)
          = (List.range n).countP (fun x => (as.filter (fun b => !b == a)).contains x) := by
        apply List.countP_congr; intro x _
        simp [List.mem_filter]; constructor <;> intro h <;> exact ⟨h.2, h.1⟩
      rw [e2, e3]; omega

theorem surv_add_dropped (n : Nat) (dr : Option (List Nat)) :
    surv n dr + (List.range n).countP (isDropped dr) = n := by
  induction n with
  | zero => rfl
  | succ n ih =>
    rw [surv_succ, List.range_succ, List.countP_append]
    cases h : isDropped dr n <;> simp [h] <;> omega

/-- Drop lists name only documents that exist (`drops[i] ⊆ [0, numDocs_i)`);
    missing entries of `drops` count as nil. -/
def dropsInRange : List Seg → List (Option (List Nat)) → Bool
  | [], _ => true
  | s :: ss, ds =>
    (match ds.headD none with
     | none => true
     | some l => l.all (fun x => decide (x < s.numDocs))) && dropsInRange ss ds.tail

/-- Cardinality of a drop bitmap (`nil` = 0). -/
def dropCard : Option (List Nat) → Nat
  | none => 0
  | some l => l.eraseDups.length

def DropOk (n : Nat) : Option (List Nat) → Prop
  | none => True
  | some l => ∀ x ∈ l, x < n

theorem surv_eq_sub (n : Nat) (dr : Option (List Nat)) (h : DropOk n dr) :
    surv n dr = n - dropCard dr ∧ dropCard dr ≤ n := by
  have h1 := surv_add_dropped n dr
  cases dr with
  | none =>
    have : (List.range n).countP (isDropped none) = 0 := by simp [isDropped]
    simp only [dropCard]; omega
  | some l =>
    have h2 := countP_contains_range n l h
    have : (List.range n).countP (isDropped (some l)) = l.eraseDups.length := h2
    simp only [dropCard]; omega

theorem dropsInRange_cons (s : Seg) (ss : List Seg) (ds : List (Option (List Nat))) :
    dropsInRange (s :: ss) ds = true ↔ DropOk s.numDocs (ds.headD none) ∧ dropsInRange ss ds.tail = true := by
  simp only [dropsInRange, Bool.and_eq_true]
  cases ds.headD none <;> simp [DropOk]

theorem newDocCount_fold (ss : List Seg) (ds : List (Option (List Nat))) (acc k : Nat)
    (hk : ss.length ≤ k) (hr : dropsInRange ss ds = true) :
    (ss.zip (ds ++ List.replicate k none)).foldl (fun acc p =>
      acc + p.1.numDocs - dropCard p.2) acc
      = acc + offset (ss.map (·.numDocs)) ds ss.length := by
  induction ss generalizing ds acc k with
  | nil => simp [offset_zero]
  | cons s ss ih =>
    have hk' : ss.length ≤ k - 1 := by simp at hk; omega
    have hkk : k = (k - 1) + 1 := by simp at hk; omega
    rw [dropsInRange_cons] at hr
    have hs := surv_eq_sub s.numDocs (ds.headD none) hr.1
    simp only [List.map_cons, List.length_cons]
    rw [offset_cons]
    cases ds with
    | nil =>
      rw [hkk, List.nil_append, List.replicate_succ, List.zip_cons_cons, List.foldl_cons]
      have := ih [] (acc + s.numDocs - dropCard none) (k - 1) hk' (by simpa using hr.2)
      rw [List.nil_append] at this
      rw [this]
      simp only [List.headD_nil, List.tail_nil] at hs ⊢
      omega
    | cons d ds' =>
      rw [List.cons_append, List.zip_cons_cons, List.foldl_cons]
      rw [ih ds' _ k (by omega) (by simpa using hr.2)]
      simp only [List.headD_cons, List.tail_cons] at hs ⊢
      omega

theorem newDocCount_eq_offset (segs : List Seg) (drops : List (Option (List Nat)))
    (hr : dropsInRange segs drops = true) :
    newDocCount segs drops = offset (segs.map (·.numDocs)) drops segs.length := by
  have : newDocCount segs drops = (segs.zip (drops ++ List.replicate segs.length none)).foldl
      (fun acc p => acc + p.1.numDocs - dropCard p.2) 0 := by
    unfold newDocCount
    congr 1
  rw [this]
  rw [newDocCount_fold segs drops 0 segs.length (Nat.le_refl _) hr, Nat.zero_add]

/-! ### Consecutive numbering -/

theorem filterMap_remapFn_range (dr : Option (List Nat)) (start n : Nat) :
    (List.range n).filterMap (remapFn dr start) = List.range' start (surv n dr) := by
  induction n with
  | zero => rfl
  | succ n ih =>
    rw [List.range_succ, List.filterMap_append, ih, surv_succ]
    cases h : isDropped dr n
    · simp [remapFn, h, List.range'_1_concat]
    · simp [remapFn, h]

/-- Survivors get consecutive new numbers, in segment-then-document order. -/
theorem consecutive_upto (sizes : List Nat) (drops : List (Option (List Nat))) (m : Nat) :
    (List.range m).flatMap (fun i => (List.range (sizes.getD i 0)).filterMap
        (fun d => Spec.newNum sizes drops i d)) = List.range (offset sizes drops m) := by
  induction m with
  | zero => rfl
  | succ m ih =>
    rw [List.range_succ, List.flatMap_append, ih, offset_succ]
    simp only [List.flatMap_cons, List.flatMap_nil, List.append_nil]
    have : (fun d => Spec.newNum sizes drops m d) = remapFn (drops.getD m none) (offset sizes drops m) := by
      funext d; rfl
    rw [this, filterMap_remapFn_range, List.range_eq_range', List.range_eq_range']
    have := @List.range'_append 0 (offset sizes drops m) (surv (sizes.getD m 0) (drops.getD m none)) 1
    simpa using this

theorem newNum_none_iff (sizes : List Nat) (drops : List (Option (List Nat))) (i d : Nat) :
    Spec.newNum sizes drops i d = none ↔ isDropped (drops.getD i none) d = true := by
  rw [newNum_eq]; unfold remapFn
  generalize drops.getD i none = dr
  cases isDropped dr d <;> simp

theorem newNum_some {sizes : List Nat} {drops : List (Option (List Nat))} {i d k : Nat}
    (h : Spec.newNum sizes drops i d = some k) :
    isDropped (drops.getD i none) d = false ∧ k = offset sizes drops i + surv d (drops.getD i none) := by
  rw [newNum_eq] at h; unfold remapFn at h
  generalize drops.getD i none = dr at h ⊢
  cases hd : isDropped dr d
  · rw [hd] at h
    simp only [Bool.false_eq_true, if_false, Option.some.injEq] at h
    exact ⟨rfl, h.symm⟩
  · rw [hd] at h; simp at h

theorem newNum_lt_next {sizes : List Nat} {drops : List (Option (List Nat))} {i d k : Nat}
    (hd : d < sizes.getD i 0) (h : Spec.newNum sizes drops i d = some k) :
    k < offset sizes drops (i + 1) := by
  obtain ⟨h1, h2⟩ := newNum_some h
  have := surv_lt hd _ h1
  rw [offset_succ]; omega

theorem newNum_lt_count {sizes : List Nat} {drops : List (Option (List Nat))} {i d k : Nat}
    (hi : i < sizes.length) (hd : d < sizes.getD i 0) (h : Spec.newNum sizes drops i d = some k) :
    k < Spec.survivorCount sizes drops := by
  have h1 := newNum_lt_next hd h
  have h2 := offset_mono sizes drops (show i + 1 ≤ sizes.length from hi)
  rw [survivorCount_eq]; omega

theorem newNum_strictMono {sizes : List Nat} {drops : List (Option (List Nat))} {i d k i' d' k' : Nat}
    (hd : d < sizes.getD i 0)
    (h : Spec.newNum sizes drops i d = some k) (h' : Spec.newNum sizes drops i' d' = some k')
    (hlt : i < i' ∨ (i = i' ∧ d < d')) : k < k' := by
  rcases hlt with hlt | ⟨rfl, hlt⟩
  · have h1 := newNum_lt_next hd h
    have h2 := offset_mono sizes drops (show i + 1 ≤ i' from hlt)
    have h3 := (newNum_some h').2
    omega
  · obtain ⟨hs, hk⟩ := newNum_some h
    have h3 := (newNum_some h').2
    have := surv_lt hlt _ hs
    omega

theorem newNum_surj {sizes : List Nat} {drops : List (Option (List Nat))} {k : Nat}
    (hk : k < Spec.survivorCount sizes drops) :
    ∃ i d, i < sizes.length ∧ d < sizes.getD i 0 ∧ Spec.newNum sizes drops i d = some k := by
  rw [survivorCount_eq] at hk
  have hm : k ∈ List.range (offset sizes drops sizes.length) := List.mem_range.2 hk
  rw [← consecutive_upto] at hm
  obtain ⟨i, hi, hmem⟩ := List.mem_flatMap.1 hm
  obtain ⟨d, hd, hN⟩ := List.mem_filterMap.1 hmem
  exact ⟨i, d, List.mem_range.1 hi, List.mem_range.1 hd, hN⟩

/-! ## Order on byte strings -/

theorem Bytes.lt_irrefl (a : Bytes) : Bytes.lt a a = false := by
  induction a with
  | nil => rfl
  | cons x xs ih => simp [Bytes.lt, ih]

theorem Bytes.lt_trans {a b c : Bytes} (h1 : Bytes.lt a b = true) (h2 : Bytes.lt b c = true) :
    Bytes.lt a c = true := by
  induction a generalizing b c with
  | nil =>
    cases b with
    | nil => simp [Bytes.lt] at h1
    | cons y ys => cases c with
      | nil => simp [Bytes.lt] at h2
      | cons z zs => rfl
  | cons x xs ih =>
    cases b with
    | nil => simp [Bytes.lt] at h1
    | cons y ys =>
      cases c with
      | nil => simp [Bytes.lt] at h2
      | cons z zs =>
        simp only [Bytes.lt] at h1 h2 ⊢
        split at h1
        · split at h2
          · rw [if_pos (by omega)]
          · split at h2
            · simp at h2
            · rw [if_pos (by omega)]
        · split at h1
          · simp at h1
          · split at h2
            · rw [if_pos (by omega)]
            · split at h2
              · simp at h2
              · have : x = z := by omega
                subst this
                simp [ih h1 h2]

theorem Bytes.lt_asymm {a b : Bytes} (h : Bytes.lt a b = true) : Bytes.lt b a = false := by
  cases h2 : Bytes.lt b a with
  | false => rfl
  | true => have := Bytes.lt_trans h h2; rw [Bytes.lt_irrefl] at this; exact this.symm

theorem Bytes.eq_of_not_lt {a b : Bytes} (h1 : Bytes.lt a b = false) (h2 : Bytes.lt b a = false) : a = b := by
  induction a generalizing b with
  | nil => cases b with
    | nil => rfl
    | cons y ys => simp [Bytes.lt] at h1
  | cons x xs ih => cases b with
    | nil => simp [Bytes.lt] at h2
    | cons y ys =>
      simp only [Bytes.lt] at h1 h2
      split at h1
      · simp at h1
      · split at h1
        · split at h2
          · simp at h2
          · omega
        · have : x = y := by omega
          subst this
          simp only [Nat.lt_irrefl, if_false] at h2
          rw [ih h1 h2]

theorem Bytes.lt_ne {a b : Bytes} (h : Bytes.lt a b = true) : a ≠ b := by
  intro e; subst e; rw [Bytes.lt_irrefl] at h; exact absurd h (by simp)

theorem Bytes.nil_lt_iff (b : Bytes) : Bytes.lt [] b = true ↔ b ≠ [] := by
  cases b <;> simp [Bytes.lt]

theorem Bytes.not_lt_nil (a : Bytes) : Bytes.lt a [] = false := by
  cases a <;> rfl
/-! ### Sorted lists -/

theorem sortedLt_cons_iff (a : Bytes) (l : List Bytes) :
    SortedLt (a :: l) ↔ (∀ b ∈ l, Bytes.lt a b = true) ∧ SortedLt l := by
  induction l generalizing a with
  | nil => simp [SortedLt]
  | cons b r ih =>
    simp only [SortedLt]
    constructor
    · intro ⟨h1, h2⟩
      refine ⟨?_, h2⟩
      intro c hc
      rcases List.mem_cons.1 hc with rfl | hc
      · exact h1
      · exact Bytes.lt_trans h1 (((ih b).1 h2).1 c hc)
    · intro ⟨h1, h2⟩
      exact ⟨h1 b List.mem_cons_self, h2⟩

theorem sortedLt_tail {a : Bytes} {l : List Bytes} (h : SortedLt (a :: l)) : SortedLt l :=
  ((sortedLt_cons_iff a l).1 h).2

theorem mem_insertName (x z : Name) (ys : List Name) : z ∈ insertName x ys ↔ z = x ∨ z ∈ ys := by
  induction ys with
  | nil => simp [insertName]
  | cons y ys ih =>
    unfold insertName
    split
    · simp only [List.mem_cons, ih]
      constructor
      · rintro (h | h | h) <;> simp [h]
      · rintro (h | h | h) <;> simp [h]
    · simp

theorem sortedLt_insertName (x : Name) (ys : List Name) (hs : SortedLt ys) (hx : x ∉ ys) :
    SortedLt (insertName x ys) := by
  induction ys with
  | nil => simp [insertName, SortedLt]
  | cons y ys ih =>
    have hxy : x ≠ y := fun e => hx (e ▸ List.mem_cons_self)
    have hx' : x ∉ ys := fun h => hx (List.mem_cons_of_mem _ h)
    obtain ⟨h1, h2⟩ := (sortedLt_cons_iff y ys).1 hs
    unfold insertName
    split
    · rename_i hlt
      rw [sortedLt_cons_iff]
      refine ⟨?_, ih h2 hx'⟩
      intro b hb
      rcases (mem_insertName x b ys).1 hb with rfl | hb
      · exact hlt
      · exact h1 b hb
    · rename_i hlt
      have hlt' : Bytes.lt y x = false := by simpa using hlt
      have : Bytes.lt x y = true := by
        cases h : Bytes.lt x y with
        | true => rfl
        | false => exact absurd (Bytes.eq_of_not_lt h hlt') hxy
      exact ⟨this, hs⟩

theorem mem_sortNames (z : Name) (xs : List Name) : z ∈ sortNames xs ↔ z ∈ xs := by
  induction xs with
  | nil => simp [sortNames]
  | cons x xs ih =>
    have : sortNames (x :: xs) = insertName x (sortNames xs) := rfl
    rw [this, mem_insertName, ih]; simp

theorem sortedLt_sortNames (xs : List Name) (h : xs.Nodup) : SortedLt (sortNames xs) := by
  induction xs with
  | nil => simp [sortNames, SortedLt]
  | cons x xs ih =>
    have : sortNames (x :: xs) = insertName x (sortNames xs) := rfl
    rw [this]
    rw [List.nodup_cons] at h
    exact sortedLt_insertName x _ (ih h.2) (fun hm => h.1 ((mem_sortNames x xs).1 hm))

/-! ### `getOrDefine` -/

theorem mem_foldl_getOrDefine (l acc : List Name) (z : Name) :
    z ∈ l.foldl getOrDefine acc ↔ z ∈ acc ∨ z ∈ l := by
  induction l generalizing acc with
  | nil => simp
  | cons x xs ih =>
    rw [List.foldl_cons, ih]
    unfold getOrDefine
    split
    · rename_i h
      have hx : x ∈ acc := by simpa using h
      constructor
      · rintro (h | h) <;> simp [h]
      · rintro (h | h)
        · exact Or.inl h
        · rcases List.mem_cons.1 h with rfl | h
          · exact Or.inl hx
          · exact Or.inr h
    · simp only [List.mem_append, List.mem_cons, List.not_mem_nil, or_false]
      constructor
      · rintro ((h | h) | h)
        · exact Or.inl h
        · exact Or.inr (Or.inl h)
        · exact Or.inr (Or.inr h)
      · rintro (h | h | h)
        · exact Or.inl (Or.inl h)
        · exact Or.inl (Or.inr h)
        · exact Or.inr h

theorem nodup_foldl_getOrDefine (l acc : List Name) (h : acc.Nodup) :
    (l.foldl getOrDefine acc).Nodup := by
  induction l generalizing acc with
  | nil => simpa
  | cons x xs ih =>
    rw [List.foldl_cons]
    apply ih
    unfold getOrDefine
    split
    · exact h
    · rename_i hx
      have hx : x ∉ acc := by simpa using hx
      rw [List.nodup_append]
      refine ⟨h, by simp, ?_⟩
      intro a ha b hb
      simp at hb; subst hb
      intro e; subst e; exact hx ha

/-! ### `mergeFields` -/

theorem mergedFieldNames_props (segs : List Seg) :
    (mergedFieldNames segs).head? = some idName ∧
    SortedLt (mergedFieldNames segs).tail ∧
    (∀ n, n ∈ mergedFieldNames segs ↔ n = idName ∨ ∃ s ∈ segs, n ∈ s.fieldNames) ∧
    idName ∉ (mergedFieldNames segs).tail := by
  unfold mergedFieldNames
  refine ⟨rfl, ?_, ?_, ?_⟩
  · apply sortedLt_sortNames
    exact (nodup_foldl_getOrDefine _ [] List.nodup_nil).filter _
  · intro n
    simp only [List.mem_cons, mem_sortNames, List.mem_filter, mem_foldl_getOrDefine,
      List.mem_flatMap, List.not_mem_nil, false_or, decide_eq_true_eq]
    by_cases h : n = idName <;> simp [h]
  · simp only [List.tail_cons, mem_sortNames, List.mem_filter, decide_eq_true_eq]
    intro h; exact h.2 rfl

/-! ## `fieldsSame` -/
/-- `fieldsSame` as coded: every segment that has at least one field has
    exactly segment 0's field list. (A segment with no fields is never compared.) -/
theorem fieldsSame_sound_aux (s0 : Seg) (rest : List Seg)
    (h : fieldsSameAsCoded (s0 :: rest) = true) :
    ∀ s ∈ s0 :: rest, s.fieldNames ≠ [] → s.fieldNames = s0.fieldNames := by
  intro s hs hne
  simp only [fieldsSameAsCoded, List.all_eq_true] at h
  have hs' := h s hs
  have hlen : s0.fieldNames.length = s.fieldNames.length := by
    cases hf : s.fieldNames with
    | nil => exact absurd hf hne
    | cons a t =>
      have := hs' (a, 0) (by rw [hf]; simp [List.zipIdx_cons])
      simp only [Bool.and_eq_true, decide_eq_true_eq] at this
      rw [← hf]; exact this.1
  apply List.ext_getElem hlen.symm
  intro i h1 h2
  have hm : (s.fieldNames[i], i) ∈ s.fieldNames.zipIdx := by
    rw [List.mem_iff_getElem?]
    exact ⟨i, by simp [h1]⟩
  have := hs' _ hm
  simp only [Bool.and_eq_true, decide_eq_true_eq] at this
  rw [← this.2, List.getD_eq_getElem?_getD, List.getElem?_eq_getElem h2]
  rfl
/-! ## Stored documents of the merge -/

theorem zipIdx_eq_map_range {α : Type} [Inhabited α] (xs : List α) :
    xs.zipIdx = (List.range xs.length).map (fun d => (xs.getD d default, d)) := by
  apply List.ext_getElem?
  intro j
  rw [List.getElem?_zipIdx, List.getElem?_map]
  by_cases h : j < xs.length
  · simp [h, List.getD_eq_getElem?_getD]
  · rw [List.getElem?_eq_none (Nat.le_of_not_lt h),
      List.getElem?_eq_none (by simpa using Nat.le_of_not_lt h)]
    rfl

/-- Position of a kept element in a `filterMap` over `range n`. -/
theorem filterMap_range_pos {β : Type} (dr : Option (List Nat)) (f : Nat → β) (n : Nat) :
    ((List.range n).filterMap (fun d => if isDropped dr d then none else some (f d))).length = surv n dr ∧
    ∀ d, d < n → isDropped dr d = false →
      ((List.range n).filterMap (fun d => if isDropped dr d then none else some (f d)))[surv d dr]? = some (f d) := by
  induction n with
  | zero => exact ⟨rfl, fun d hd => absurd hd (Nat.not_lt_zero _)⟩
  | succ n ih =>
    obtain ⟨ihl, ihp⟩ := ih
    rw [List.range_succ, List.filterMap_append]
    refine ⟨?_, ?_⟩
    · rw [List.length_append, ihl, surv_succ]
      cases h : isDropped dr n <;> simp [h]
    · intro d hd hs
      by_cases hdn : d < n
      · rw [List.getElem?_append_left (by rw [ihl]; exact surv_lt hdn dr hs)]
        exact ihp d hdn hs
      · have : d = n := by omega
        subst this
        rw [List.getElem?_append_right (by rw [ihl]; exact Nat.le_refl _), ihl]
        simp [hs]
/-- Field-id translation of a stored document (`fieldsMap[name]-1`). -/
def trDoc (names : List Name) (s : Seg) (sd : StoredDoc) : StoredDoc :=
  { sd with vals := sd.vals.map (fun v => { v with fid := fieldIdOf names (s.nameOf v.fid) }) }

/-- The stored part of `mergeSegs` (same term as in the model). -/
def mergedStored (names : List Name) (segs : List Seg) (maps : List (List (Option Nat))) : List StoredDoc :=
  (segs.zip maps).flatMap (fun p =>
    ((p.1.stored.zipIdx).filterMap (fun sd =>
      match p.2.getD sd.2 none with
      | none => none
      | some _ => some (trDoc names p.1 sd.1))))

theorem filterMap_congr_mem {α β : Type} {f g : α → Option β} {l : List α}
    (h : ∀ x ∈ l, f x = g x) : l.filterMap f = l.filterMap g := by
  induction l with
  | nil => rfl
  | cons x xs ih =>
    rw [List.filterMap_cons, List.filterMap_cons, h x List.mem_cons_self,
      ih (fun y hy => h y (List.mem_cons_of_mem _ hy))]

theorem getD_map_range {β : Type} (f : Nat → β) (n d : Nat) (b : β) (h : d < n) :
    ((List.range n).map f).getD d b = f d := by
  simp [List.getD_eq_getElem?_getD, h]

theorem headStored_eq (names : List Name) (s : Seg) (dr : Option (List Nat)) (start : Nat)
    (hlen : s.stored.length = s.numDocs) :
    (s.stored.zipIdx).filterMap (fun sd =>
      match ((List.range s.numDocs).map (remapFn dr start)).getD sd.2 none with
      | none => none
      | some _ => some (trDoc names s sd.1))
    = (List.range s.numDocs).filterMap (fun d =>
        if isDropped dr d then none else some (trDoc names s (s.stored.getD d default))) := by
  rw [zipIdx_eq_map_range, List.filterMap_map, hlen]
  apply filterMap_congr_mem
  intro d hd
  simp only [Function.comp]
  rw [getD_map_range _ _ _ _ (List.mem_range.1 hd)]
  unfold remapFn
  cases isDropped dr d <;> rfl

theorem mergedStored_get (names : List Name) (segs : List Seg) (drops : List (Option (List Nat)))
    (start : Nat) (hlen : ∀ s ∈ segs, s.stored.length = s.numDocs)
    (i d : Nat) (hi : i < segs.length) (hd : d < segs[i].numDocs)
    (hs : isDropped (drops.getD i none) d = false) :
    (mergedStored names segs (remapAll segs drops start))[
        offset (segs.map (·.numDocs)) drops i + surv d (drops.getD i none)]?
      = some (trDoc names segs[i] (segs[i].stored.getD d default)) := by
  induction segs generalizing drops start i with
  | nil => simp at hi
  | cons s ss ih =>
    rw [remapAll_cons]
    unfold mergedStored
    rw [List.zip_cons_cons, List.flatMap_cons]
    simp only []
    rw [headStored_eq names s _ start (hlen s List.mem_cons_self)]
    obtain ⟨hl, hp⟩ := filterMap_range_pos (drops.headD none)
      (fun d => trDoc names s (s.stored.getD d default)) s.numDocs
    cases i with
    | zero =>
      have h0 : drops.getD 0 none = drops.headD none := by cases drops <;> rfl
      rw [h0] at hs ⊢
      simp only [List.getElem_cons_zero] at hd ⊢
      rw [offset_zero, Nat.zero_add, List.getElem?_append_left (by rw [hl]; exact surv_lt hd _ hs)]
      exact hp d hd hs
    | succ i =>
      have hi' : i < ss.length := by simpa using hi
      have h2 : drops.getD (i + 1) none = drops.tail.getD i none := by cases drops <;> simp
      rw [h2] at hs ⊢
      simp only [List.getElem_cons_succ, List.map_cons] at hd ⊢
      rw [offset_cons, List.getElem?_append_right (by rw [hl]; omega), hl]
      have := ih drops.tail (start + surv s.numDocs (drops.headD none))
        (fun s hs => hlen s (List.mem_cons_of_mem _ hs)) i hi' hd hs
      unfold mergedStored at this
      rw [← this]
      congr 1
      omega

theorem findIdx?_of_mem (names : List Name) (n : Name) (h : n ∈ names) :
    ∃ j, names.findIdx? (· = n) = some j ∧ names[j]? = some n := by
  induction names with
  | nil => simp at h
  | cons x xs ih =>
    rw [List.findIdx?_cons]
    by_cases hx : x = n
    · exact ⟨0, by simp [hx], by simp [hx]⟩
    · have : n ∈ xs := by
        rcases List.mem_cons.1 h with h | h
        · exact absurd h.symm hx
        · exact h
      obtain ⟨j, h1, h2⟩ := ih this
      exact ⟨j + 1, by simp [hx, h1], by simpa using h2⟩

theorem getD_fieldIdOf (names : List Name) (n : Name) (h : n ∈ names) :
    names[fieldIdOf names n]? = some n := by
  obtain ⟨j, h1, h2⟩ := findIdx?_of_mem names n h
  unfold fieldIdOf; rw [h1]; exact h2

/-- Looking a translated field id up in a table built from `names` gives the name back. -/
theorem nameOf_fieldIdOf (names : List Name) (F : Name → FieldM) (hF : ∀ nm, (F nm).name = nm)
    (n : Name) (h : n ∈ names) :
    ((names.map F).getD (fieldIdOf names n) default).name = n := by
  rw [List.getD_eq_getElem?_getD, List.getElem?_map, getD_fieldIdOf names n h]
  exact hF n
/-! ## Shape of `mergeSegs` -/

theorem mergeSegs_numDocs (v : Bool) (m : Nat) (segs : List Seg) (drops : List (Option (List Nat))) :
    (mergeSegs v m segs drops).1.numDocs = newDocCount segs drops := by
  unfold mergeSegs
  simp only []
  split
  · rename_i h; simp [h]
  · rfl

theorem mergeSegs_zero (v : Bool) (m : Nat) (segs : List Seg) (drops : List (Option (List Nat)))
    (h : newDocCount segs drops = 0) :
    mergeSegs v m segs drops =
      ({ chunkMode := m, numDocs := 0,
         fields := ((mergedFieldNames segs).take 1).map (fun nm => { name := nm }), stored := [] },
       remapAll segs drops 0) := by
  unfold mergeSegs
  simp only [h, if_true]

/-- the maps are those of `remapAll` whether or not anything survives -/
theorem mergeSegs_maps (v : Bool) (m : Nat) (segs : List Seg) (drops : List (Option (List Nat))) :
    (mergeSegs v m segs drops).2 = remapAll segs drops 0 := by
  unfold mergeSegs
  by_cases h : newDocCount segs drops = 0
  · simp only [h, if_true]
  · simp only [h, if_false]

theorem mergeSegs_stored (v : Bool) (m : Nat) (segs : List Seg) (drops : List (Option (List Nat)))
    (h : newDocCount segs drops ≠ 0) :
    (mergeSegs v m segs drops).1.stored =
      mergedStored (mergedFieldNames segs) segs (remapAll segs drops 0) := by
  unfold mergeSegs
  simp only [h, if_false]
  rfl

theorem mergeSegs_fields (v : Bool) (m : Nat) (segs : List Seg) (drops : List (Option (List Nat)))
    (h : newDocCount segs drops ≠ 0) :
    ∃ F : Name → FieldM, (∀ nm, (F nm).name = nm) ∧
      (mergeSegs v m segs drops).1.fields = (mergedFieldNames segs).map F := by
  unfold mergeSegs
  simp only [h, if_false]
  exact ⟨_, fun nm => rfl, rfl⟩

/-! ### `sortDedup` and uniqueness of sorted lists -/

theorem mem_insertSorted (x z : Bytes) (ys : List Bytes) : z ∈ insertSorted x ys ↔ z = x ∨ z ∈ ys := by
  induction ys with
  | nil => simp [insertSorted]
  | cons y ys ih =>
    unfold insertSorted
    split
    · simp
    · split
      · rename_i _ h; subst h; simp
      · simp only [List.mem_cons, ih]
        constructor
        · rintro (h | h | h)
          · exact Or.inr (Or.inl h)
          · exact Or.inl h
          · exact Or.inr (Or.inr h)
        · rintro (h | h | h)
          · exact Or.inr (Or.inl h)
          · exact Or.inl h
          · exact Or.inr (Or.inr h)

theorem sortedLt_insertSorted (x : Bytes) (ys : List Bytes) (hs : SortedLt ys) :
    SortedLt (insertSorted x ys) := by
  induction ys with
  | nil => simp [insertSorted, SortedLt]
  | cons y ys ih =>
    obtain ⟨h1, h2⟩ := (sortedLt_cons_iff y ys).1 hs
    unfold insertSorted
    split
    · rename_i hlt; exact ⟨hlt, hs⟩
    · split
      · exact hs
      · rename_i hlt hne
        have hlt' : Bytes.lt x y = false := by simpa using hlt
        have hyx : Bytes.lt y x = true := by
          cases h : Bytes.lt y x with
          | true => rfl
          | false => exact absurd (Bytes.eq_of_not_lt hlt' h) hne
        rw [sortedLt_cons_iff]
        refine ⟨?_, ih h2⟩
        intro b hb
        rcases (mem_insertSorted x b ys).1 hb with rfl | hb
        · exact hyx
        · exact h1 b hb

theorem mem_sortDedup (z : Bytes) (xs : List Bytes) : z ∈ sortDedup xs ↔ z ∈ xs := by
  induction xs with
  | nil => simp [sortDedup]
  | cons x xs ih =>
    have : sortDedup (x :: xs) = insertSorted x (sortDedup xs) := rfl
    rw [this, mem_insertSorted, ih]; simp

theorem sortedLt_sortDedup (xs : List Bytes) : SortedLt (sortDedup xs) := by
  induction xs with
  | nil => simp [sortDedup, SortedLt]
  | cons x xs ih =>
    have : sortDedup (x :: xs) = insertSorted x (sortDedup xs) := rfl
    rw [this]; exact sortedLt_insertSorted x _ ih

/-- A strictly ascending list is determined by its elements. -/
theorem sortedLt_ext {a b : List Bytes} (ha : SortedLt a) (hb : SortedLt b)
    (h : ∀ x, x ∈ a ↔ x ∈ b) : a = b := by
  induction a generalizing b with
  | nil =>
    cases b with
    | nil => rfl
    | cons y ys => exact absurd ((h y).2 List.mem_cons_self) (by simp)
  | cons x xs ih =>
    cases b with
    | nil => exact absurd ((h x).1 List.mem_cons_self) (by simp)
    | cons y ys =>
      obtain ⟨hx1, hx2⟩ := (sortedLt_cons_iff x xs).1 ha
      obtain ⟨hy1, hy2⟩ := (sortedLt_cons_iff y ys).1 hb
      have hxy : x = y := by
        rcases List.mem_cons.1 ((h x).1 List.mem_cons_self) with e | hxin
        · exact e
        · rcases List.mem_cons.1 ((h y).2 List.mem_cons_self) with e | hyin
          · exact e.symm
          · have h1 := hy1 x hxin
            have h2 := hx1 y hyin
            rw [Bytes.lt_asymm h1] at h2; cases h2
      subst hxy
      congr 1
      apply ih hx2 hy2
      intro z
      constructor
      · intro hz
        rcases List.mem_cons.1 ((h z).1 (List.mem_cons_of_mem _ hz)) with e | hz'
        · subst e; have := hx1 z hz; rw [Bytes.lt_irrefl] at this; cases this
        · exact hz'
      · intro hz
        rcases List.mem_cons.1 ((h z).2 (List.mem_cons_of_mem _ hz)) with e | hz'
        · subst e; have := hy1 z hz; rw [Bytes.lt_irrefl] at this; cases this
        · exact hz'

theorem sortedLt_nodup {l : List Bytes} (h : SortedLt l) : l.Nodup := by
  induction l with
  | nil => exact List.nodup_nil
  | cons a l ih =>
    obtain ⟨h1, h2⟩ := (sortedLt_cons_iff a l).1 h
    rw [List.nodup_cons]
    refine ⟨?_, ih h2⟩
    intro hm; have := h1 a hm; rw [Bytes.lt_irrefl] at this; cases this
/-! ## Enumerator -/

theorem list_rev_induction {α : Type} {P : List α → Prop} (hnil : P [])
    (hsnoc : ∀ l a, P l → P (l ++ [a])) : ∀ l, P l := by
  intro l
  rw [← List.reverse_reverse l]
  induction l.reverse with
  | nil => exact hnil
  | cons a t ih => rw [List.reverse_cons]; exact hsnoc _ _ ih

theorem foldl_congr_mem {α β : Type} {f g : β → α → β} {l : List α}
    (h : ∀ b, ∀ a ∈ l, f b a = g b a) (b : β) : l.foldl f b = l.foldl g b := by
  induction l generalizing b with
  | nil => rfl
  | cons x xs ih =>
    rw [List.foldl_cons, List.foldl_cons, h b x List.mem_cons_self]
    exact ih (fun b a ha => h b a (List.mem_cons_of_mem _ ha)) _

abbrev Iter := List (Bytes × Nat)

def headKey (it : Iter) : Option Bytes := it.head?.map (·.1)

/-- One step of `updateMatches`. -/
def enumStep (skipEmpty : Bool) (acc : Option (Bytes × List Nat)) (p : Iter × Nat) :
    Option (Bytes × List Nat) :=
  match p.1 with
  | [] => acc
  | (k, _) :: _ =>
    if k.isEmpty && skipEmpty then acc else
    match acc with
    | none => some (k, [p.2])
    | some (lowK, idxs) =>
      if Bytes.lt k lowK then some (k, [p.2])
      else if k = lowK then some (lowK, idxs ++ [p.2])
      else acc

theorem enumLow_eq (skip : Bool) (its : List Iter) :
    enumLow skip its = (its.zipIdx).foldl (enumStep skip) none := rfl

/-- Indices (ascending, from `j`) of the iterators whose current key is `k`. -/
def idxsOf (k : Bytes) (its : List Iter) (j : Nat) : List Nat :=
  (its.zipIdx j).filterMap (fun p => if headKey p.1 = some k then some p.2 else none)

theorem idxsOf_snoc (k : Bytes) (l : List Iter) (a : Iter) :
    idxsOf k (l ++ [a]) 0 = idxsOf k l 0 ++ (if headKey a = some k then [l.length] else []) := by
  unfold idxsOf
  rw [List.zipIdx_append, List.filterMap_append]
  simp only [List.zipIdx_cons, List.zipIdx_nil, Nat.zero_add]
  by_cases h : headKey a = some k <;> simp [h]

/-- What `updateMatches(false)` computes. -/
def LowSpec (its : List Iter) : Option (Bytes × List Nat) → Prop
  | none => ∀ it ∈ its, it = []
  | some (k, idxs) => idxs = idxsOf k its 0 ∧ idxs ≠ [] ∧
      ∀ it ∈ its, ∀ h, headKey it = some h → Bytes.lt h k = false

theorem idxsOf_eq_nil_of_no_head (k : Bytes) (its : List Iter) (j : Nat)
    (h : ∀ it ∈ its, headKey it ≠ some k) : idxsOf k its j = [] := by
  unfold idxsOf
  rw [List.filterMap_eq_nil_iff]
  intro p hp
  have : p.1 ∈ its := by
    obtain ⟨a, b⟩ := p
    have := List.mem_zipIdx hp
    simp only; rw [this.2.2]; exact List.getElem_mem _
  simp [h p.1 this]

theorem enumLow_false_spec (its : List Iter) : LowSpec its (enumLow false its) := by
  rw [enumLow_eq]
  induction its using list_rev_induction with
  | hnil => intro it h; simp at h
  | hsnoc l a ih =>
    rw [List.zipIdx_append, List.foldl_append]
    simp only [List.zipIdx_cons, List.zipIdx_nil, List.foldl_cons, List.foldl_nil, Nat.zero_add]
    generalize List.foldl (enumStep false) none l.zipIdx = r at ih
    cases a with
    | nil =>
      have hstep : enumStep false r ([], l.length) = r := rfl
      rw [hstep]
      cases r with
      | none =>
        intro it hit
        rcases List.mem_append.1 hit with h | h
        · exact ih it h
        · simpa using h
      | some kv =>
        obtain ⟨k, idxs⟩ := kv
        obtain ⟨h1, h2, h3⟩ := ih
        refine ⟨?_, h2, ?_⟩
        · rw [idxsOf_snoc, h1]; simp [headKey]
        · intro it hit h hh
          rcases List.mem_append.1 hit with hm | hm
          · exact h3 it hm h hh
          · have : it = [] := by simpa using hm
            subst this; simp [headKey] at hh
    | cons kv rest =>
      obtain ⟨k', v'⟩ := kv
      have hk' : headKey ((k', v') :: rest) = some k' := rfl
      cases r with
      | none =>
        have hstep : enumStep false none ((k', v') :: rest, l.length) = some (k', [l.length]) := by
          simp [enumStep]
        rw [hstep]
        refine ⟨?_, by simp, ?_⟩
        · rw [idxsOf_snoc, idxsOf_eq_nil_of_no_head]
          · simp [hk']
          · intro it hit; rw [ih it hit]; simp [headKey]
        · intro it hit h hh
          rcases List.mem_append.1 hit with hm | hm
          · rw [ih it hm] at hh; simp [headKey] at hh
          · have : it = (k', v') :: rest := by simpa using hm
            subst this
            rw [hk'] at hh; cases hh
            exact Bytes.lt_irrefl _
      | some kv =>
        obtain ⟨k, idxs⟩ := kv
        obtain ⟨h1, h2, h3⟩ := ih
        by_cases hlt : Bytes.lt k' k = true
        · have hstep : enumStep false (some (k, idxs)) ((k', v') :: rest, l.length)
              = some (k', [l.length]) := by simp [enumStep, hlt]
          rw [hstep]
          refine ⟨?_, by simp, ?_⟩
          · rw [idxsOf_snoc, idxsOf_eq_nil_of_no_head]
            · simp [hk']
            · intro it hit hh
              have := h3 it hit k' hh
              rw [hlt] at this; cases this
          · intro it hit h hh
            rcases List.mem_append.1 hit with hm | hm
            · cases hx : Bytes.lt h k' with
              | false => rfl
              | true =>
                have := Bytes.lt_trans hx hlt
                rw [h3 it hm h hh] at this; cases this
            · have : it = (k', v') :: rest := by simpa using hm
              subst this
              rw [hk'] at hh; cases hh
              exact Bytes.lt_irrefl _
        · have hlt' : Bytes.lt k' k = false := by simpa using hlt
          by_cases heq : k' = k
          · subst heq
            have hstep : enumStep false (some (k', idxs)) ((k', v') :: rest, l.length)
                = some (k', idxs ++ [l.length]) := by simp [enumStep, hlt']
            rw [hstep]
            refine ⟨?_, by simp, ?_⟩
            · rw [idxsOf_snoc, h1]; simp [hk']
            · intro it hit h hh
              rcases List.mem_append.1 hit with hm | hm
              · exact h3 it hm h hh
              · have : it = (k', v') :: rest := by simpa using hm
                subst this
                rw [hk'] at hh; cases hh
                exact Bytes.lt_irrefl _
          · have hstep : enumStep false (some (k, idxs)) ((k', v') :: rest, l.length)
                = some (k, idxs) := by simp [enumStep, hlt', heq]
            rw [hstep]
            refine ⟨?_, h2, ?_⟩
            · rw [idxsOf_snoc, h1, hk']
              have : ¬ (some k' = some k) := by simpa using heq
              simp [this]
            · intro it hit h hh
              rcases List.mem_append.1 hit with hm | hm
              · exact h3 it hm h hh
              · have : it = (k', v') :: rest := by simpa using hm
                subst this
                rw [hk'] at hh; cases hh
                exact hlt'

/-! ### Sorted iterators -/

def keysOf (it : Iter) : List Bytes := it.map (·.1)

def ItSorted (it : Iter) : Prop := SortedLt (keysOf it)

/-- Advance an iterator if its current key is `k`. -/
def advOne (k : Bytes) (it : Iter) : Iter := if headKey it = some k then it.tail else it

def adv (k : Bytes) (its : List Iter) : List Iter := its.map (advOne k)

/-- Total number of remaining entries. -/
def tot (its : List Iter) : Nat := sumList (its.map List.length)

theorem foldl_add_eq_sumList (l : List Nat) (a : Nat) : l.foldl (· + ·) a = a + sumList l := by
  induction l generalizing a with
  | nil => simp [sumList]
  | cons x xs ih => rw [List.foldl_cons, ih]; simp [sumList, Nat.add_assoc]

theorem lookup_eq_none {k : Bytes} {it : Iter} (h : ∀ p ∈ it, p.1 ≠ k) : lookup k it = none := by
  induction it with
  | nil => rfl
  | cons p rest ih =>
    obtain ⟨k0, v0⟩ := p
    have h0 : k ≠ k0 := fun e => h (k0, v0) List.mem_cons_self e.symm
    simp only [lookup, if_neg h0]
    exact ih (fun p hp => h p (List.mem_cons_of_mem _ hp))

/-- In a sorted iterator whose current key is not below `k`, `k` can only be the current key. -/
theorem lookup_min {k : Bytes} {it : Iter} (hs : ItSorted it)
    (hmin : ∀ h, headKey it = some h → Bytes.lt h k = false) :
    lookup k it = if headKey it = some k then it.head?.map (·.2) else none := by
  cases it with
  | nil => rfl
  | cons p rest =>
    obtain ⟨k0, v0⟩ := p
    by_cases hk : k0 = k
    · subst hk; simp [lookup, headKey]
    · have hk' : k ≠ k0 := fun e => hk e.symm
      have hne : ¬ (headKey ((k0, v0) :: rest) = some k) := by simpa [headKey] using hk
      simp only [lookup, if_neg hk', if_neg hne]
      have h1 : Bytes.lt k0 k = false := hmin k0 rfl
      have hlt : Bytes.lt k k0 = true := by
        cases h : Bytes.lt k k0 with
        | true => rfl
        | false => exact absurd (Bytes.eq_of_not_lt h h1) hk'
      apply lookup_eq_none
      intro p hp e
      have hp' : p.1 ∈ keysOf rest := List.mem_map.2 ⟨p, hp, rfl⟩
      have := ((sortedLt_cons_iff k0 (keysOf rest)).1 hs).1 p.1 hp'
      rw [e] at this
      rw [Bytes.lt_asymm hlt] at this; cases this

theorem advOne_sorted {k : Bytes} {it : Iter} (hs : ItSorted it) : ItSorted (advOne k it) := by
  unfold advOne
  split
  · cases it with
    | nil => exact hs
    | cons p rest => exact ((sortedLt_cons_iff _ _).1 hs).2
  · exact hs

/-- After advancing, every remaining key is strictly above `k`. -/
theorem advOne_keys_gt {k : Bytes} {it : Iter} (hs : ItSorted it)
    (hmin : ∀ h, headKey it = some h → Bytes.lt h k = false) :
    ∀ key ∈ keysOf (advOne k it), Bytes.lt k key = true := by
  cases it with
  | nil => intro key hk; simp [advOne, keysOf] at hk
  | cons p rest =>
    obtain ⟨k0, v0⟩ := p
    obtain ⟨h1, _⟩ := (sortedLt_cons_iff k0 (keysOf rest)).1 hs
    by_cases hk : k0 = k
    · subst hk
      have : advOne k0 ((k0, v0) :: rest) = rest := by simp [advOne, headKey]
      rw [this]; exact h1
    · have hne : ¬ (headKey ((k0, v0) :: rest) = some k) := by simpa [headKey] using hk
      have : advOne k ((k0, v0) :: rest) = (k0, v0) :: rest := by simp [advOne, hne]
      rw [this]
      have h0 : Bytes.lt k0 k = false := hmin k0 rfl
      have hlt : Bytes.lt k k0 = true := by
        cases h : Bytes.lt k k0 with
        | true => rfl
        | false => exact absurd (Bytes.eq_of_not_lt h h0).symm hk
      intro key hkey
      rcases List.mem_cons.1 hkey with e | hm
      · rw [e]; exact hlt
      · exact Bytes.lt_trans hlt (h1 key hm)

theorem keysOf_advOne (k : Bytes) (it : Iter) :
    keysOf it = (if headKey it = some k then [k] else []) ++ keysOf (advOne k it) := by
  cases it with
  | nil => simp [keysOf, advOne, headKey]
  | cons p rest =>
    obtain ⟨k0, v0⟩ := p
    by_cases hk : k0 = k
    · subst hk; simp [keysOf, advOne, headKey]
    · have hne : ¬ (headKey ((k0, v0) :: rest) = some k) := by simpa [headKey] using hk
      simp [advOne, hne]

theorem lookup_advOne {k k' : Bytes} (hne : k' ≠ k) (it : Iter) :
    lookup k' (advOne k it) = lookup k' it := by
  cases it with
  | nil => simp [advOne, headKey]
  | cons p rest =>
    obtain ⟨k0, v0⟩ := p
    by_cases hk : k0 = k
    · subst hk
      have : advOne k0 ((k0, v0) :: rest) = rest := by simp [advOne, headKey]
      rw [this]; simp [lookup, hne]
    · have hne : ¬ (headKey ((k0, v0) :: rest) = some k) := by simpa [headKey] using hk
      simp [advOne, hne]

theorem length_advOne_le (k : Bytes) (it : Iter) : (advOne k it).length ≤ it.length := by
  unfold advOne; split <;> simp

theorem tot_adv_lt {k : Bytes} {its : List Iter} (h : ∃ it ∈ its, headKey it = some k) :
    tot (adv k its) < tot its := by
  induction its with
  | nil => obtain ⟨it, hit, _⟩ := h; simp at hit
  | cons x xs ih =>
    have hle : tot (adv k xs) ≤ tot xs := by
      clear ih h
      induction xs with
      | nil => exact Nat.le_refl _
      | cons y ys ih2 =>
        have := length_advOne_le k y
        simp only [tot, adv, List.map_cons, sumList] at ih2 ⊢
        omega
    have hx := length_advOne_le k x
    obtain ⟨it, hit, hh⟩ := h
    rcases List.mem_cons.1 hit with e | hm
    · subst e
      have : (advOne k it).length < it.length := by
        cases it with
        | nil => simp [headKey] at hh
        | cons p rest => simp [advOne, hh]
      simp only [tot, adv, List.map_cons, sumList] at hle ⊢
      omega
    · have := ih ⟨it, hm, hh⟩
      simp only [tot, adv, List.map_cons, sumList] at this ⊢
      omega

/-! ### The enumerator's output -/

/-- All triples for key `k`: one per iterator (ascending index) that has `k`. -/
def row (its : List Iter) (k : Bytes) : List (Bytes × Nat × Nat) :=
  (its.zipIdx).filterMap (fun p => (lookup k p.1).map (fun v => (k, p.2, v)))

def allKeys (its : List Iter) : List Bytes := its.flatMap keysOf

/-- Sorted, duplicate-free union of the iterators' keys. -/
def keysUnion (its : List Iter) : List Bytes := sortDedup (allKeys its)

def enumSpec (its : List Iter) : List (Bytes × Nat × Nat) := (keysUnion its).flatMap (row its)

theorem zipIdx_mem {α : Type} {xs : List α} {p : α × Nat} (hp : p ∈ xs.zipIdx) :
    xs[p.2]? = some p.1 ∧ p.1 ∈ xs := by
  obtain ⟨a, i⟩ := p
  obtain ⟨_, h2, h3⟩ := List.mem_zipIdx hp
  have hi : i < xs.length := by omega
  simp only [Nat.sub_zero] at h3
  refine ⟨?_, ?_⟩
  · simp only; rw [List.getElem?_eq_getElem hi, h3]
  · simp only; rw [h3]; exact List.getElem_mem _

theorem out_eq_row {k : Bytes} {its : List Iter} (hs : ∀ it ∈ its, ItSorted it)
    (hmin : ∀ it ∈ its, ∀ h, headKey it = some h → Bytes.lt h k = false) :
    (idxsOf k its 0).map (fun i => (k, i, ((its.getD i []).headD ([], 0)).2)) = row its k := by
  unfold idxsOf row
  rw [List.map_filterMap]
  apply filterMap_congr_mem
  intro p hp
  obtain ⟨hget, hmem⟩ := zipIdx_mem hp
  rw [lookup_min (hs _ hmem) (hmin _ hmem)]
  have hgd : its.getD p.2 [] = p.1 := by rw [List.getD_eq_getElem?_getD, hget]; rfl
  by_cases hh : headKey p.1 = some k
  · rw [if_pos hh, if_pos hh]
    simp only [Option.map_some, hgd]
    cases hp1 : p.1 with
    | nil => rw [hp1] at hh; simp [headKey] at hh
    | cons q rest => rfl
  · rw [if_neg hh, if_neg hh]; rfl

theorem flatMap_congr_mem {α β : Type} {f g : α → List β} {l : List α}
    (h : ∀ x ∈ l, f x = g x) : l.flatMap f = l.flatMap g := by
  induction l with
  | nil => rfl
  | cons x xs ih =>
    rw [List.flatMap_cons, List.flatMap_cons, h x List.mem_cons_self,
      ih (fun y hy => h y (List.mem_cons_of_mem _ hy))]

theorem adv_eq {k : Bytes} {its : List Iter} :
    (its.zipIdx).map (fun p => if (idxsOf k its 0).contains p.2 then p.1.tail else p.1) = adv k its := by
  have h0 : adv k its = (its.zipIdx).map (fun p => advOne k p.1) := by
    unfold adv
    conv => lhs; rw [← List.zipIdx_map_fst (l := its) (i := 0)]
    rw [List.map_map]; rfl
  rw [h0]
  apply List.map_congr_left
  intro p hp
  obtain ⟨hget, _⟩ := zipIdx_mem hp
  have hiff : (idxsOf k its 0).contains p.2 = true ↔ headKey p.1 = some k := by
    rw [List.contains_iff_mem]
    unfold idxsOf
    rw [List.mem_filterMap]
    constructor
    · rintro ⟨q, hq, hqe⟩
      obtain ⟨hgetq, _⟩ := zipIdx_mem hq
      by_cases hh : headKey q.1 = some k
      · rw [if_pos hh] at hqe
        have : q.2 = p.2 := by simpa using hqe
        rw [this, hget] at hgetq
        have : p.1 = q.1 := by simpa using hgetq
        rw [this]; exact hh
      · rw [if_neg hh] at hqe; cases hqe
    · intro hh; exact ⟨p, hp, by rw [if_pos hh]⟩
  unfold advOne
  by_cases hh : headKey p.1 = some k
  · rw [if_pos (hiff.2 hh), if_pos hh]
  · have : ¬ ((idxsOf k its 0).contains p.2 = true) := fun h => hh (hiff.1 h)
    rw [if_neg this, if_neg hh]

theorem row_adv {k k' : Bytes} (hne : k' ≠ k) (its : List Iter) : row (adv k its) k' = row its k' := by
  unfold row adv
  rw [List.zipIdx_map, List.filterMap_map]
  apply filterMap_congr_mem
  intro p _
  simp only [Function.comp, Prod.map, id]
  rw [lookup_advOne hne]

theorem mem_allKeys_adv {k : Bytes} {its : List Iter} (hex : ∃ it ∈ its, headKey it = some k) (x : Bytes) :
    x ∈ allKeys its ↔ x = k ∨ x ∈ allKeys (adv k its) := by
  unfold allKeys adv
  simp only [List.mem_flatMap, List.mem_map]
  constructor
  · rintro ⟨it, hit, hx⟩
    rw [keysOf_advOne k it] at hx
    rcases List.mem_append.1 hx with h | h
    · left
      by_cases hh : headKey it = some k
      · rw [if_pos hh] at h; simpa using h
      · rw [if_neg hh] at h; simp at h
    · exact Or.inr ⟨advOne k it, ⟨it, hit, rfl⟩, h⟩
  · rintro (rfl | ⟨it', ⟨it, hit, rfl⟩, hx⟩)
    · obtain ⟨it, hit, hh⟩ := hex
      refine ⟨it, hit, ?_⟩
      rw [keysOf_advOne x it, if_pos hh]; simp
    · refine ⟨it, hit, ?_⟩
      rw [keysOf_advOne k it]; exact List.mem_append_right _ hx

theorem keysUnion_step {k : Bytes} {its : List Iter} (hs : ∀ it ∈ its, ItSorted it)
    (hmin : ∀ it ∈ its, ∀ h, headKey it = some h → Bytes.lt h k = false)
    (hex : ∃ it ∈ its, headKey it = some k) :
    keysUnion its = k :: keysUnion (adv k its) := by
  apply sortedLt_ext (sortedLt_sortDedup _)
  · rw [sortedLt_cons_iff]
    refine ⟨?_, sortedLt_sortDedup _⟩
    intro b hb
    rw [keysUnion, mem_sortDedup] at hb
    unfold allKeys adv at hb
    simp only [List.mem_flatMap, List.mem_map] at hb
    obtain ⟨it', ⟨it, hit, rfl⟩, hx⟩ := hb
    exact advOne_keys_gt (hs it hit) (hmin it hit) b hx
  · intro x
    unfold keysUnion
    rw [mem_sortDedup, mem_allKeys_adv hex, List.mem_cons, mem_sortDedup]

theorem tot_eq (its : List Iter) : (its.map List.length).foldl (· + ·) 0 = tot its := by
  rw [foldl_add_eq_sumList, Nat.zero_add]; rfl

theorem enumLow_skip_eq (skip : Bool) (its : List Iter)
    (h : skip = true → ∀ it ∈ its, headKey it ≠ some []) :
    enumLow skip its = enumLow false its := by
  rw [enumLow_eq, enumLow_eq]
  apply foldl_congr_mem
  intro acc p hp
  obtain ⟨_, hmem⟩ := zipIdx_mem hp
  cases skip with
  | false => rfl
  | true =>
    have := h rfl p.1 hmem
    unfold enumStep
    cases hp1 : p.1 with
    | nil => rfl
    | cons q rest =>
      obtain ⟨k0, v0⟩ := q
      rw [hp1] at this
      have hk0 : k0 ≠ [] := by simpa [headKey] using this
      have : k0.isEmpty = false := by cases k0 <;> simp at hk0 ⊢
      simp [this]

theorem enumerate_go_spec (fuel : Nat) (first : Bool) (its : List Iter)
    (hs : ∀ it ∈ its, ItSorted it)
    (hne : first = false → ∀ it ∈ its, [] ∉ keysOf it)
    (hfuel : tot its < fuel) :
    enumerate.go fuel first its = enumSpec its := by
  induction fuel generalizing first its with
  | zero => exact absurd hfuel (Nat.not_lt_zero _)
  | succ fuel ih =>
    unfold enumerate.go
    have hskip : enumLow (!first) its = enumLow false its := by
      apply enumLow_skip_eq
      intro hf it hit hh
      have hf' : first = false := by cases first <;> simp at hf ⊢
      apply hne hf' it hit
      cases it with
      | nil => simp [headKey] at hh
      | cons q rest =>
        have : q.1 = [] := by simpa [headKey] using hh
        simp [keysOf, this]
    rw [hskip]
    have hspec := enumLow_false_spec its
    cases hr : enumLow false its with
    | none =>
      rw [hr] at hspec
      simp only
      have : allKeys its = [] := by
        unfold allKeys
        rw [List.flatMap_eq_nil_iff]
        intro it hit; rw [hspec it hit]; rfl
      simp [enumSpec, keysUnion, this, sortDedup]
    | some kv =>
      obtain ⟨k, idxs⟩ := kv
      rw [hr] at hspec
      obtain ⟨h1, h2, h3⟩ := hspec
      simp only
      have hex : ∃ it ∈ its, headKey it = some k := by
        cases hi : idxsOf k its 0 with
        | nil => rw [hi] at h1; exact absurd h1 h2
        | cons i rest =>
          have : i ∈ idxsOf k its 0 := by rw [hi]; exact List.mem_cons_self
          unfold idxsOf at this
          obtain ⟨p, hp, hpe⟩ := List.mem_filterMap.1 this
          by_cases hh : headKey p.1 = some k
          · exact ⟨p.1, (zipIdx_mem hp).2, hh⟩
          · rw [if_neg hh] at hpe; cases hpe
      rw [h1, out_eq_row hs h3, adv_eq]
      have hgt : ∀ it' ∈ adv k its, ∀ key ∈ keysOf it', Bytes.lt k key = true := by
        intro it' hit'
        obtain ⟨it, hit, rfl⟩ := List.mem_map.1 hit'
        exact advOne_keys_gt (hs it hit) (h3 it hit)
      rw [ih false (adv k its)
        (by intro it' hit'
            obtain ⟨it, hit, rfl⟩ := List.mem_map.1 hit'
            exact advOne_sorted (hs it hit))
        (by intro _ it' hit' hmem
            have := hgt it' hit' [] hmem
            rw [Bytes.not_lt_nil] at this; cases this)
        (by have := tot_adv_lt hex; omega)]
      unfold enumSpec
      rw [keysUnion_step hs h3 hex, List.flatMap_cons]
      congr 1
      apply flatMap_congr_mem
      intro k' hk'
      apply row_adv
      rw [keysUnion, mem_sortDedup] at hk'
      unfold allKeys at hk'
      obtain ⟨it', hit', hx⟩ := List.mem_flatMap.1 hk'
      exact (Bytes.lt_ne (hgt it' hit' k' hx)).symm

/-- The enumerator yields, key by key in ascending order, one triple per
    iterator (ascending index) that carries the key; the fuel suffices. -/
theorem enumerate_eq_spec (its : List Iter) (hs : ∀ it ∈ its, ItSorted it) :
    enumerate its = enumSpec its := by
  unfold enumerate
  simp only
  rw [tot_eq]
  exact enumerate_go_spec _ true its hs (fun h => by cases h) (Nat.lt_succ_self _)

/-! ### Consequences -/

theorem lookup_some_mem {α : Type} [DecidableEq α] {β : Type} {k : α} {v : β} {l : List (α × β)}
    (h : lookup k l = some v) : (k, v) ∈ l := by
  induction l with
  | nil => simp [lookup] at h
  | cons p rest ih =>
    obtain ⟨k0, v0⟩ := p
    by_cases hk : k = k0
    · subst hk; simp [lookup] at h; subst h; exact List.mem_cons_self
    · simp only [lookup, if_neg hk] at h; exact List.mem_cons_of_mem _ (ih h)

theorem lookup_iff_mem {k : Bytes} {v : Nat} {it : Iter} (hs : ItSorted it) :
    lookup k it = some v ↔ (k, v) ∈ it := by
  refine ⟨lookup_some_mem, ?_⟩
  induction it with
  | nil => intro h; simp at h
  | cons p rest ih =>
    obtain ⟨k0, v0⟩ := p
    obtain ⟨h1, h2⟩ := (sortedLt_cons_iff k0 (keysOf rest)).1 hs
    intro hm
    by_cases hk : k = k0
    · subst hk
      rcases List.mem_cons.1 hm with e | hr
      · cases e; simp [lookup]
      · have := h1 k (List.mem_map.2 ⟨(k, v), hr, rfl⟩)
        rw [Bytes.lt_irrefl] at this; cases this
    · simp only [lookup, if_neg hk]
      rcases List.mem_cons.1 hm with e | hr
      · cases e; exact absurd rfl hk
      · exact ih h2 hr

theorem mem_row {its : List Iter} {k : Bytes} {t : Bytes × Nat × Nat} :
    t ∈ row its k ↔ t.1 = k ∧ ∃ it, its[t.2.1]? = some it ∧ lookup k it = some t.2.2 := by
  unfold row
  rw [List.mem_filterMap]
  constructor
  · rintro ⟨p, hp, he⟩
    cases hl : lookup k p.1 with
    | none => rw [hl] at he; cases he
    | some v =>
      rw [hl] at he
      simp only [Option.map_some, Option.some.injEq] at he
      subst he
      exact ⟨rfl, p.1, (zipIdx_mem hp).1, hl⟩
  · rintro ⟨h1, it, hget, hl⟩
    obtain ⟨k', i, v⟩ := t
    simp only at h1 hget hl
    subst h1
    refine ⟨(it, i), ?_, by simp [hl]⟩
    rw [List.mem_iff_getElem?]
    exact ⟨i, by rw [List.getElem?_zipIdx, hget]; simp⟩

/-- (c) Nothing is lost and nothing invented: the triples are exactly the
    entries of the iterators, tagged with the iterator's index. -/
theorem mem_enumSpec {its : List Iter} (hs : ∀ it ∈ its, ItSorted it) (k : Bytes) (i v : Nat) :
    (k, i, v) ∈ enumSpec its ↔ ∃ it, its[i]? = some it ∧ (k, v) ∈ it := by
  unfold enumSpec
  rw [List.mem_flatMap]
  constructor
  · rintro ⟨k', _, hrow⟩
    obtain ⟨h1, it, hget, hl⟩ := mem_row.1 hrow
    simp only at h1 hget hl
    subst h1
    exact ⟨it, hget, lookup_some_mem hl⟩
  · rintro ⟨it, hget, hm⟩
    have hit : it ∈ its := List.mem_of_getElem? hget
    refine ⟨k, ?_, mem_row.2 ⟨rfl, it, hget, (lookup_iff_mem (hs it hit)).2 hm⟩⟩
    rw [keysUnion, mem_sortDedup]
    exact List.mem_flatMap.2 ⟨it, hit, List.mem_map.2 ⟨(k, v), hm, rfl⟩⟩

theorem row_fst (its : List Iter) (k : Bytes) : ∀ t ∈ row its k, t.1 = k :=
  fun _ ht => (mem_row.1 ht).1

theorem row_ne_nil {its : List Iter} {k : Bytes} (hs : ∀ it ∈ its, ItSorted it)
    (hk : k ∈ keysUnion its) : row its k ≠ [] := by
  rw [keysUnion, mem_sortDedup] at hk
  obtain ⟨it, hit, hx⟩ := List.mem_flatMap.1 hk
  obtain ⟨p, hp, hpk⟩ := List.mem_map.1 hx
  obtain ⟨i, hi⟩ := List.mem_iff_getElem?.1 hit
  have : (k, i, p.2) ∈ row its k :=
    mem_row.2 ⟨rfl, it, hi, (lookup_iff_mem (hs it hit)).2 (by rw [← hpk]; exact hp)⟩
  intro h; rw [h] at this; cases this

theorem row_eq_nil {its : List Iter} {k : Bytes} (hk : k ∉ keysUnion its) : row its k = [] := by
  rw [List.eq_nil_iff_forall_not_mem]
  intro t ht
  obtain ⟨_, it, hget, hl⟩ := mem_row.1 ht
  apply hk
  rw [keysUnion, mem_sortDedup]
  exact List.mem_flatMap.2 ⟨it, List.mem_of_getElem? hget,
    List.mem_map.2 ⟨_, lookup_some_mem hl, rfl⟩⟩

theorem eraseDups_blocks (ks : List Bytes) (blk : Bytes → List Bytes)
    (hb : ∀ k ∈ ks, blk k ≠ [] ∧ ∀ x ∈ blk k, x = k) (hnd : ks.Nodup) :
    (ks.flatMap blk).eraseDups = ks := by
  induction ks with
  | nil => rfl
  | cons k ks ih =>
    rw [List.nodup_cons] at hnd
    obtain ⟨hne, hall⟩ := hb k List.mem_cons_self
    rw [List.flatMap_cons]
    cases hbk : blk k with
    | nil => exact absurd hbk hne
    | cons x xs =>
      have hx : x = k := hall x (by rw [hbk]; exact List.mem_cons_self)
      subst hx
      rw [List.cons_append, List.eraseDups_cons, List.filter_append]
      have h1 : xs.filter (fun b => !b == x) = [] := by
        rw [List.filter_eq_nil_iff]
        intro a ha
        have : a = x := hall a (by rw [hbk]; exact List.mem_cons_of_mem _ ha)
        simp [this]
      have h2 : (ks.flatMap blk).filter (fun b => !b == x) = ks.flatMap blk := by
        rw [List.filter_eq_self]
        intro a ha
        obtain ⟨k', hk', ha'⟩ := List.mem_flatMap.1 ha
        have : a = k' := (hb k' (List.mem_cons_of_mem _ hk')).2 a ha'
        subst this
        have : a ≠ x := fun e => hnd.1 (e ▸ hk')
        simp [this]
      rw [h1, h2, List.nil_append, ih (fun k' hk' => hb k' (List.mem_cons_of_mem _ hk')) hnd.2]

/-- (a) The keys yielded, deduplicated, are the sorted union of the iterators' keys. -/
theorem enumSpec_keys {its : List Iter} (hs : ∀ it ∈ its, ItSorted it) :
    ((enumSpec its).map (·.1)).eraseDups = keysUnion its := by
  unfold enumSpec
  rw [List.map_flatMap]
  apply eraseDups_blocks
  · intro k hk
    refine ⟨?_, ?_⟩
    · intro h
      exact row_ne_nil hs hk (List.map_eq_nil_iff.1 h)
    · intro x hx
      obtain ⟨t, ht, rfl⟩ := List.mem_map.1 hx
      exact row_fst its k t ht
  · exact sortedLt_nodup (sortedLt_sortDedup _)

/-- (b) The triples with key `k` are exactly `row its k`, contiguous and in iterator order. -/
theorem enumSpec_filter_key {its : List Iter} (k : Bytes) :
    (enumSpec its).filter (fun t => t.1 = k) = row its k := by
  unfold enumSpec
  rw [List.filter_flatMap]
  have hnd : (keysUnion its).Nodup := sortedLt_nodup (sortedLt_sortDedup _)
  have hin : k ∉ keysUnion its → row its k = [] := row_eq_nil
  generalize keysUnion its = ks at hnd hin
  induction ks with
  | nil => simp [hin (by simp)]
  | cons a ks ih =>
    rw [List.nodup_cons] at hnd
    rw [List.flatMap_cons]
    by_cases ha : a = k
    · subst ha
      have h1 : (row its a).filter (fun t => decide (t.1 = a)) = row its a := by
        rw [List.filter_eq_self]; intro t ht; simp [row_fst its a t ht]
      have h2 : ks.flatMap (fun a' => (row its a').filter (fun t => decide (t.1 = a))) = [] := by
        rw [List.flatMap_eq_nil_iff]
        intro k' hk'
        rw [List.filter_eq_nil_iff]
        intro t ht
        have := row_fst its k' t ht
        have hne : k' ≠ a := fun e => hnd.1 (e ▸ hk')
        simp [this, hne]
      rw [h1, h2, List.append_nil]
    · have h1 : (row its a).filter (fun t => decide (t.1 = k)) = [] := by
        rw [List.filter_eq_nil_iff]
        intro t ht
        simp [row_fst its a t ht, ha]
      rw [h1, List.nil_append]
      apply ih hnd.2
      intro hk
      apply hin
      intro hm
      rcases List.mem_cons.1 hm with e | hm
      · exact ha e.symm
      · exact hk hm

/-! ## Per-term merge (C06) -/

/-- The entry one input contributes after renumbering (and, on the re-encode
    path, field-id translation of its locations). -/
def mergeEntry (same : Bool) (dstNames srcNames : List Name) (e : Entry) : Entry :=
  if same then e else { e with locs := translateLocs srcNames dstNames e.locs }

theorem mergeTermParts_flat (same : Bool) (dstNames : List Name)
    (parts : List (List Name × List (Option Nat) × PostRep)) :
    (mergeTermParts same dstNames parts).flatMap id =
      parts.flatMap (fun p => (survivors p.2.1 p.2.2.entries).map (mergeEntry same dstNames p.1)) := by
  unfold mergeTermParts
  rw [List.flatMap_map]
  apply flatMap_congr_mem
  intro p _
  cases same
  · rfl
  · have : mergeEntry true dstNames p.1 = id := by funext e; simp [mergeEntry]
    rw [this, List.map_id]; rfl

theorem chooseRep_none_iff (parts : List (List Entry)) :
    chooseRep parts = none ↔ parts.flatMap id = [] := by
  simp only [chooseRep]
  generalize parts.flatMap id = es
  match es with
  | [] => simp
  | _ :: _ :: _ => simp
  | [e] =>
    simp only
    cases (parts.getLast?.getD []).getLast? with
    | none => simp only []; split <;> simp
    | some l => simp only []; split <;> simp

theorem chooseRep_general_inv {parts : List (List Entry)} {es' : List Entry}
    (h : chooseRep parts = some (.general es')) : es' = parts.flatMap id := by
  simp only [chooseRep] at h
  generalize parts.flatMap id = es at h
  match es with
  | [] => simp at h
  | _ :: _ :: _ => simpa using h.symm
  | [e] =>
    simp only at h
    cases hl : (parts.getLast?.getD []).getLast? with
    | none =>
      simp only [hl] at h
      split at h
      · simp at h
      · simpa using h.symm
    | some l =>
      simp only [hl] at h
      split at h
      · simp at h
      · simpa using h.symm

/-- The chosen representation denotes exactly the merged entries (no condition on the norm
    bits any more: since the repair of D14 the 1-hit form is only chosen when it can hold them). -/
theorem chooseRep_entries {parts : List (List Entry)} {r : PostRep}
    (h : chooseRep parts = some r) :
    r.entries = parts.flatMap id := by
  cases r with
  | general es => exact chooseRep_general_inv h
  | oneHit d nb =>
    obtain ⟨e, hes, hl, _, hf, hd, hnb, _, _⟩ := chooseRep_oneHit_inv h
    rw [hes, hd, hnb]
    cases e
    simp only [PostRep.entries] at *
    subst hl hf
    rfl

/-! ### Ascending document numbers -/

theorem ascNat_cons_iff (a : Nat) (l : List Nat) :
    AscNat (a :: l) ↔ (∀ b ∈ l, a < b) ∧ AscNat l := by
  induction l generalizing a with
  | nil => simp [AscNat]
  | cons b r ih =>
    simp only [AscNat]
    constructor
    · intro ⟨h1, h2⟩
      refine ⟨?_, h2⟩
      intro c hc
      rcases List.mem_cons.1 hc with rfl | hc
      · exact h1
      · exact Nat.lt_trans h1 (((ih b).1 h2).1 c hc)
    · intro ⟨h1, h2⟩
      exact ⟨h1 b List.mem_cons_self, h2⟩

theorem ascNat_append (l1 l2 : List Nat) :
    AscNat (l1 ++ l2) ↔ AscNat l1 ∧ AscNat l2 ∧ ∀ a ∈ l1, ∀ b ∈ l2, a < b := by
  induction l1 with
  | nil => simp [AscNat]
  | cons x xs ih =>
    rw [List.cons_append, ascNat_cons_iff, ascNat_cons_iff, ih]
    constructor
    · rintro ⟨h1, h2, h3, h4⟩
      refine ⟨⟨fun b hb => h1 b (List.mem_append_left _ hb), h2⟩, h3, ?_⟩
      intro a ha b hb
      rcases List.mem_cons.1 ha with rfl | ha
      · exact h1 b (List.mem_append_right _ hb)
      · exact h4 a ha b hb
    · rintro ⟨⟨h1, h2⟩, h3, h4⟩
      refine ⟨?_, h2, h3, fun a ha b hb => h4 a (List.mem_cons_of_mem _ ha) b hb⟩
      intro b hb
      rcases List.mem_append.1 hb with hb | hb
      · exact h1 b hb
      · exact h4 x List.mem_cons_self b hb

/-- A renumbering map that is strictly monotone on the documents it keeps. -/
def MonoMap (m : List (Option Nat)) : Prop :=
  ∀ d d' k k', d < d' → m.getD d none = some k → m.getD d' none = some k' → k < k'

theorem survivors_docs (m : List (Option Nat)) (es : List Entry) :
    (survivors m es).map (·.doc) = es.filterMap (fun e => m.getD e.doc none) := by
  unfold survivors
  rw [List.map_filterMap]
  apply filterMap_congr_mem
  intro e _
  cases m.getD e.doc none <;> rfl

theorem mem_survivors_docs {m : List (Option Nat)} {es : List Entry} {k : Nat}
    (h : k ∈ (survivors m es).map (·.doc)) : ∃ e ∈ es, m.getD e.doc none = some k := by
  rw [survivors_docs] at h
  obtain ⟨e, he, hk⟩ := List.mem_filterMap.1 h
  exact ⟨e, he, hk⟩

theorem asc_survivors {m : List (Option Nat)} {es : List Entry} (hm : MonoMap m)
    (ha : AscNat (es.map (·.doc))) : AscNat ((survivors m es).map (·.doc)) := by
  induction es with
  | nil => simp [survivors, AscNat]
  | cons e es ih =>
    rw [List.map_cons, ascNat_cons_iff] at ha
    have ih' := ih ha.2
    rw [survivors_docs] at ih' ⊢
    rw [List.filterMap_cons]
    cases hk : m.getD e.doc none with
    | none => exact ih'
    | some k =>
      simp only
      rw [ascNat_cons_iff]
      refine ⟨?_, ih'⟩
      intro b hb
      obtain ⟨e', he', hb'⟩ := List.mem_filterMap.1 hb
      exact hm e.doc e'.doc k b (ha.1 e'.doc (List.mem_map.2 ⟨e', he', rfl⟩)) hk hb'

theorem getD_some_mem {m : List (Option Nat)} {d k : Nat} (h : m.getD d none = some k) : some k ∈ m := by
  rw [List.getD_eq_getElem?_getD] at h
  cases hm : m[d]? with
  | none => rw [hm] at h; cases h
  | some o => rw [hm] at h; simp at h; subst h; exact List.mem_of_getElem? hm

/-- Every new number of `a` is below every new number of `b`. -/
def MapsSep (a b : List (Option Nat)) : Prop := ∀ k k', some k ∈ a → some k' ∈ b → k < k'

theorem mergeEntry_doc (same : Bool) (dst src : List Name) (e : Entry) :
    (mergeEntry same dst src e).doc = e.doc := by
  cases same <;> rfl

theorem asc_merged (same : Bool) (dstNames : List Name)
    (parts : List (List Name × List (Option Nat) × PostRep))
    (hmono : ∀ p ∈ parts, MonoMap p.2.1)
    (hasc : ∀ p ∈ parts, AscNat (p.2.2.entries.map (·.doc)))
    (hsep : parts.Pairwise (fun a b => MapsSep a.2.1 b.2.1)) :
    AscNat (((mergeTermParts same dstNames parts).flatMap id).map (·.doc)) := by
  rw [mergeTermParts_flat, List.map_flatMap]
  have hblk : ∀ p : List Name × List (Option Nat) × PostRep,
      ((survivors p.2.1 p.2.2.entries).map (mergeEntry same dstNames p.1)).map (·.doc)
        = (survivors p.2.1 p.2.2.entries).map (·.doc) := by
    intro p; rw [List.map_map]; apply List.map_congr_left; intro e _; exact mergeEntry_doc _ _ _ _
  simp only [hblk]
  induction parts with
  | nil => simp [AscNat]
  | cons p ps ih =>
    rw [List.pairwise_cons] at hsep
    rw [List.flatMap_cons, ascNat_append]
    refine ⟨asc_survivors (hmono p List.mem_cons_self) (hasc p List.mem_cons_self),
      ih (fun q hq => hmono q (List.mem_cons_of_mem _ hq))
         (fun q hq => hasc q (List.mem_cons_of_mem _ hq)) hsep.2, ?_⟩
    intro a ha b hb
    obtain ⟨q, hq, hbq⟩ := List.mem_flatMap.1 hb
    obtain ⟨e, _, hk⟩ := mem_survivors_docs ha
    obtain ⟨e', _, hk'⟩ := mem_survivors_docs hbq
    exact hsep.1 q hq a b (getD_some_mem hk) (getD_some_mem hk')

/-! ### The maps produced by `remapAll` are monotone and separated -/

theorem mem_map_remapFn {dr : Option (List Nat)} {start n k : Nat}
    (h : some k ∈ (List.range n).map (remapFn dr start)) :
    start ≤ k ∧ k < start + surv n dr := by
  obtain ⟨d, hd, he⟩ := List.mem_map.1 h
  have hd' := List.mem_range.1 hd
  unfold remapFn at he
  cases hs : isDropped dr d with
  | true => rw [hs] at he; simp at he
  | false =>
    rw [hs] at he
    simp only [Bool.false_eq_true, if_false, Option.some.injEq] at he
    have := surv_lt hd' dr hs
    omega

theorem monoMap_map_remapFn (dr : Option (List Nat)) (start n : Nat) :
    MonoMap ((List.range n).map (remapFn dr start)) := by
  intro d d' k k' hlt h h'
  have key : ∀ x y, ((List.range n).map (remapFn dr start)).getD x none = some y →
      isDropped dr x = false ∧ y = start + surv x dr := by
    intro x y hx
    by_cases hxn : x < n
    · rw [getD_map_range _ _ _ _ hxn] at hx
      unfold remapFn at hx
      cases hs : isDropped dr x with
      | true => rw [hs] at hx; simp at hx
      | false => rw [hs] at hx; simp at hx; exact ⟨rfl, hx.symm⟩
    · rw [List.getD_eq_getElem?_getD, List.getElem?_eq_none (by simpa using Nat.le_of_not_lt hxn)] at hx
      cases hx
  obtain ⟨hs, hk⟩ := key d k h
  obtain ⟨_, hk'⟩ := key d' k' h'
  have := surv_lt hlt dr hs
  omega

theorem remapAll_mono (segs : List Seg) (drops : List (Option (List Nat))) (start : Nat) :
    ∀ m ∈ remapAll segs drops start, MonoMap m := by
  induction segs generalizing drops start with
  | nil => intro m hm; simp [remapAll] at hm
  | cons s ss ih =>
    rw [remapAll_cons]
    intro m hm
    rcases List.mem_cons.1 hm with rfl | hm
    · exact monoMap_map_remapFn _ _ _
    · exact ih _ _ m hm

theorem remapAll_ge (segs : List Seg) (drops : List (Option (List Nat))) (start : Nat) :
    ∀ m ∈ remapAll segs drops start, ∀ k, some k ∈ m → start ≤ k := by
  induction segs generalizing drops start with
  | nil => intro m hm; simp [remapAll] at hm
  | cons s ss ih =>
    rw [remapAll_cons]
    intro m hm k hk
    rcases List.mem_cons.1 hm with rfl | hm
    · exact (mem_map_remapFn hk).1
    · have := ih _ _ m hm k hk; omega

theorem remapAll_sep (segs : List Seg) (drops : List (Option (List Nat))) (start : Nat) :
    (remapAll segs drops start).Pairwise MapsSep := by
  induction segs generalizing drops start with
  | nil => simp [remapAll]
  | cons s ss ih =>
    rw [remapAll_cons, List.pairwise_cons]
    refine ⟨?_, ih _ _⟩
    intro m hm k k' hk hk'
    have h1 := (mem_map_remapFn hk).2
    have h2 := remapAll_ge ss _ _ m hm k' hk'
    omega

/-! ### The inverted section of `mergeSegs`, field by field -/

/-- Inputs "in focus" for field `nm`: those whose dictionary has at least one key. -/
def focusOf (nm : Name) (segs : List Seg) (maps : List (List (Option Nat))) :
    List (Seg × List (Option Nat)) :=
  (segs.zip maps).filter (fun p => !(p.1.dictTerms nm).isEmpty)

def itsOf (nm : Name) (focus : List (Seg × List (Option Nat))) : List Iter :=
  focus.map (fun p => (p.1.dictTerms nm).map (fun t => (t.1, 0)))

/-- The inputs (in order) that carry term `k` of field `nm`, with their field
    tables, renumbering maps and postings. -/
def partsOf (nm : Name) (k : Bytes) (focus : List (Seg × List (Option Nat))) :
    List (List Name × List (Option Nat) × PostRep) :=
  focus.filterMap (fun p => (lookup k (p.1.dictTerms nm)).map (fun r => (p.1.fields.map (·.name), p.2, r)))

theorem mergeSegs_terms (v : Bool) (m : Nat) (segs : List Seg) (drops : List (Option (List Nat)))
    (h : newDocCount segs drops ≠ 0) :
    (mergeSegs v m segs drops).1.fields.map (fun f => (f.name, f.terms)) =
      (mergedFieldNames segs).map (fun nm =>
        (nm,
          let focus := focusOf nm segs (remapAll segs drops 0)
          (((enumerate (itsOf nm focus)).map (·.1)).eraseDups).filterMap (fun k =>
            (chooseRep (mergeTermParts (fieldsSameAsCoded segs) (mergedFieldNames segs)
              (partsOf nm k focus))).map (fun r => (k, r))))) := by
  unfold mergeSegs
  simp only [h, if_false, List.map_map]
  rfl

theorem partsOf_pairwise (nm : Name) (k : Bytes) (segs : List Seg) (drops : List (Option (List Nat))) :
    (partsOf nm k (focusOf nm segs (remapAll segs drops 0))).Pairwise
      (fun a b => MapsSep a.2.1 b.2.1) := by
  unfold partsOf focusOf
  have hz : ((segs.zip (remapAll segs drops 0))).Pairwise (fun a b => MapsSep a.2 b.2) := by
    rw [← List.pairwise_map (f := Prod.snd) (R := MapsSep),
      List.map_snd_zip (by rw [remapAll_length]; exact Nat.le_refl _)]
    exact remapAll_sep segs drops 0
  apply List.Pairwise.filterMap _ _ (hz.filter _)
  intro a a' hR b hb b' hb'
  cases h1 : lookup k (a.1.dictTerms nm) with
  | none => rw [h1] at hb; cases hb
  | some r =>
    cases h2 : lookup k (a'.1.dictTerms nm) with
    | none => rw [h2] at hb'; cases hb'
    | some r' =>
      rw [h1] at hb; rw [h2] at hb'
      simp only [Option.map_some, Option.some.injEq] at hb hb'
      subst hb hb'
      exact hR

theorem partsOf_mono (nm : Name) (k : Bytes) (segs : List Seg) (drops : List (Option (List Nat))) :
    ∀ p ∈ partsOf nm k (focusOf nm segs (remapAll segs drops 0)), MonoMap p.2.1 := by
  intro p hp
  unfold partsOf at hp
  obtain ⟨q, hq, he⟩ := List.mem_filterMap.1 hp
  cases h1 : lookup k (q.1.dictTerms nm) with
  | none => rw [h1] at he; cases he
  | some r =>
    rw [h1] at he
    simp only [Option.map_some, Option.some.injEq] at he
    subst he
    have hq' : q ∈ segs.zip (remapAll segs drops 0) := (List.mem_filter.1 hq).1
    exact remapAll_mono segs drops 0 q.2 (List.of_mem_zip hq').2

theorem partsOf_rep_mem {nm : Name} {k : Bytes} {focus : List (Seg × List (Option Nat))}
    {p : List Name × List (Option Nat) × PostRep} (hp : p ∈ partsOf nm k focus) :
    ∃ q ∈ focus, lookup k (q.1.dictTerms nm) = some p.2.2 ∧ p.1 = q.1.fields.map (·.name) ∧ p.2.1 = q.2 := by
  unfold partsOf at hp
  obtain ⟨q, hq, he⟩ := List.mem_filterMap.1 hp
  cases h1 : lookup k (q.1.dictTerms nm) with
  | none => rw [h1] at he; cases he
  | some r =>
    rw [h1] at he
    simp only [Option.map_some, Option.some.injEq] at he
    subst he
    exact ⟨q, hq, h1, rfl, rfl⟩

theorem find_of_map_eq {T : Name → List (Bytes × PostRep)} {nm : Name} :
    ∀ {l : List FieldM} {names : List Name},
      l.map (fun f => (f.name, f.terms)) = names.map (fun n => (n, T n)) → nm ∈ names →
      ∃ f, l.find? (fun f => f.name = nm) = some f ∧ f.terms = T nm := by
  intro l
  induction l with
  | nil =>
    intro names h hnm
    cases names with
    | nil => simp at hnm
    | cons n ns => simp at h
  | cons f l ih =>
    intro names h hnm
    cases names with
    | nil => simp at hnm
    | cons n ns =>
      simp only [List.map_cons, List.cons.injEq, Prod.mk.injEq] at h
      obtain ⟨⟨h1, h2⟩, h3⟩ := h
      by_cases hn : n = nm
      · refine ⟨f, ?_, by rw [h2, hn]⟩
        rw [List.find?_cons_of_pos]; simp [h1, hn]
      · have hnm' : nm ∈ ns := by
          rcases List.mem_cons.1 hnm with e | h
          · exact absurd e.symm hn
          · exact h
        obtain ⟨g, hg1, hg2⟩ := ih h3 hnm'
        refine ⟨g, ?_, hg2⟩
        rw [List.find?_cons_of_neg]; exact hg1
        simp [h1, hn]

theorem lookup_filterMap_keys {β : Type} (g : Bytes → Option β) (k : Bytes) :
    ∀ ks : List Bytes, ks.Nodup →
      lookup k (ks.filterMap (fun k' => (g k').map (fun r => (k', r)))) = if k ∈ ks then g k else none := by
  intro ks
  induction ks with
  | nil => intro _; rfl
  | cons a ks ih =>
    intro hnd
    rw [List.nodup_cons] at hnd
    rw [List.filterMap_cons]
    by_cases ha : k = a
    · subst ha
      cases hg : g k with
      | none =>
        simp only [Option.map_none, List.mem_cons, true_or, if_true]
        rw [ih hnd.2, if_neg hnd.1]
      | some r => simp [lookup]
    · have hmem : (k ∈ a :: ks) ↔ k ∈ ks := by simp [ha]
      cases hg : g a with
      | none =>
        simp only [Option.map_none]
        rw [ih hnd.2]; simp [hmem]
      | some r =>
        simp only [Option.map_some, lookup, if_neg ha]
        rw [ih hnd.2]; simp [hmem]

theorem sortedLt_filter {l : List Bytes} (p : Bytes → Bool) (h : SortedLt l) : SortedLt (l.filter p) := by
  induction l with
  | nil => exact h
  | cons a l ih =>
    obtain ⟨h1, h2⟩ := (sortedLt_cons_iff a l).1 h
    rw [List.filter_cons]
    split
    · rw [sortedLt_cons_iff]
      exact ⟨fun b hb => h1 b (List.mem_filter.1 hb).1, ih h2⟩
    · exact ih h2

theorem filterMap_keys_fst {β : Type} (g : Bytes → Option β) (ks : List Bytes) :
    (ks.filterMap (fun k' => (g k').map (fun r => (k', r)))).map (·.1) = ks.filter (fun k' => (g k').isSome) := by
  induction ks with
  | nil => rfl
  | cons a ks ih =>
    rw [List.filterMap_cons, List.filter_cons]
    cases hg : g a with
    | none => simpa using ih
    | some r => simpa using ih

theorem itsOf_sorted {nm : Name} {segs : List Seg} {maps : List (List (Option Nat))}
    (hs : ∀ s ∈ segs, SortedLt ((s.dictTerms nm).map (·.1))) :
    ∀ it ∈ itsOf nm (focusOf nm segs maps), ItSorted it := by
  intro it hit
  unfold itsOf at hit
  obtain ⟨q, hq, rfl⟩ := List.mem_map.1 hit
  have hq' : q ∈ segs.zip maps := (List.mem_filter.1 hq).1
  have := hs q.1 (List.of_mem_zip hq').1
  unfold ItSorted keysOf
  rw [List.map_map]
  exact this

theorem partsOf_eq_nil {nm : Name} {k : Bytes} {focus : List (Seg × List (Option Nat))}
    (hk : k ∉ keysUnion (itsOf nm focus)) : partsOf nm k focus = [] := by
  unfold partsOf
  rw [List.filterMap_eq_nil_iff]
  intro q hq
  cases hl : lookup k (q.1.dictTerms nm) with
  | none => rfl
  | some r =>
    exfalso; apply hk
    rw [keysUnion, mem_sortDedup]
    refine List.mem_flatMap.2 ⟨_, List.mem_map.2 ⟨q, hq, rfl⟩, ?_⟩
    unfold keysOf
    rw [List.map_map]
    exact List.mem_map.2 ⟨(k, r), lookup_some_mem hl, rfl⟩

/-- The merged dictionary of field `nm`. -/
theorem mergeSegs_dictTerms (v : Bool) (m : Nat) (segs : List Seg) (drops : List (Option (List Nat)))
    (hne : newDocCount segs drops ≠ 0) (nm : Name) (hnm : nm ∈ mergedFieldNames segs)
    (hs : ∀ s ∈ segs, SortedLt ((s.dictTerms nm).map (·.1))) :
    (mergeSegs v m segs drops).1.dictTerms nm =
      (keysUnion (itsOf nm (focusOf nm segs (remapAll segs drops 0)))).filterMap (fun k =>
        (chooseRep (mergeTermParts (fieldsSameAsCoded segs) (mergedFieldNames segs)
          (partsOf nm k (focusOf nm segs (remapAll segs drops 0))))).map (fun r => (k, r))) := by
  have ht := mergeSegs_terms v m segs drops hne
  obtain ⟨f, hf1, hf2⟩ := find_of_map_eq ht hnm
  have hnd : (mergeSegs v m segs drops).1.numDocs ≠ 0 := by rw [mergeSegs_numDocs]; exact hne
  unfold Seg.dictTerms Seg.field? Seg.loadedFields
  rw [if_neg hnd, hf1]
  simp only [hf2]
  rw [enumerate_eq_spec _ (itsOf_sorted hs), enumSpec_keys (itsOf_sorted hs)]

/-! ### Decidability of the order predicates (for examples) -/

instance decSortedLt : (l : List Bytes) → Decidable (SortedLt l)
  | [] => isTrue trivial
  | [_] => isTrue trivial
  | a :: b :: rest =>
    match decEq (Bytes.lt a b) true, decSortedLt (b :: rest) with
    | isTrue h1, isTrue h2 => isTrue ⟨h1, h2⟩
    | isFalse h1, _ => isFalse (fun h => h1 h.1)
    | _, isFalse h2 => isFalse (fun h => h2 h.2)

instance decAscNat : (l : List Nat) → Decidable (AscNat l)
  | [] => isTrue trivial
  | [_] => isTrue trivial
  | a :: b :: rest =>
    match Nat.decLt a b, decAscNat (b :: rest) with
    | isTrue h1, isTrue h2 => isTrue ⟨h1, h2⟩
    | isFalse h1, _ => isFalse (fun h => h1 h.1)
    | _, isFalse h2 => isFalse (fun h => h2 h.2)

end Zap.MergeL
