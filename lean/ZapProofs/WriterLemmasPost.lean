/-
  ZapProofs.WriterLemmasPost: the freq/norm and location streams written by the
  per-term loop of `writeDicts` decode (list-level twin of Layout's entry decoder) to the
  entries that went in.
-/
import ZapProofs.WriterLemmasWalk
import ZapProofs.WriterLemmasUv
import ZapProofs.CodecLemmasGen

namespace Zap.Writer.Post
open Zap Zap.Codec Zap.Writer Zap.Writer.Walk Zap.Writer.Uv

/-! ### shape of a written stream -/

/-- The chunks of the stream written for `adds`. -/
def segsOf (cs maxDoc : Nat) (adds : List (Nat × List Nat)) : List Bytes :=
  (List.range (maxDoc / cs + 1)).map (chunkEnc cs adds)

theorem segsOf_length (cs maxDoc : Nat) (adds : List (Nat × List Nat)) :
    (segsOf cs maxDoc adds).length = maxDoc / cs + 1 := by simp [segsOf]

theorem segsOf_getElem (cs maxDoc : Nat) (adds : List (Nat × List Nat)) (k : Nat)
    (h : k < (segsOf cs maxDoc adds).length) : (segsOf cs maxDoc adds)[k] = chunkEnc cs adds k := by
  simp [segsOf]

theorem stream_shape (cs maxDoc : Nat) (adds : List (Nat × List Nat))
    (hmono : DocsMono adds) (hmax : ∀ a ∈ adds, a.1 ≤ maxDoc) :
    intCoderEncode cs maxDoc adds
      = putUvarint (maxDoc / cs + 1)
        ++ putUvarints (endOffsets ((segsOf cs maxDoc adds).map List.length))
        ++ (segsOf cs maxDoc adds).flatten := by
  obtain ⟨hlens, hfinal⟩ := closed_state cs maxDoc adds hmono hmax
  unfold intCoderEncode IntCoder.write
  rw [hlens, hfinal]
  simp [segsOf]

theorem coderFinal_eq (cs maxDoc : Nat) (adds : List (Nat × List Nat))
    (hmono : DocsMono adds) (hmax : ∀ a ∈ adds, a.1 ≤ maxDoc) :
    coderFinal cs maxDoc adds = (segsOf cs maxDoc adds).flatten :=
  (closed_state cs maxDoc adds hmono hmax).2

theorem nondec_offsFrom (lens : List Nat) : ∀ s, nondec (offsFrom s lens) = true := by
  induction lens with
  | nil => intro s; rfl
  | cons l ls ih =>
    intro s
    cases ls with
    | nil => rfl
    | cons l' ls' =>
      have := ih (s + l)
      simp only [offsFrom] at this ⊢
      simp only [nondec, Bool.and_eq_true, decide_eq_true_eq]
      exact ⟨by omega, by simpa [nondec] using this⟩

theorem getLastD_offsFrom (lens : List Nat) : ∀ s, (offsFrom s lens).getLastD 0 ≤ s + sumList lens := by
  induction lens with
  | nil => intro s; simp [offsFrom]
  | cons l ls ih =>
    intro s
    cases ls with
    | nil => simp [offsFrom, sumList]
    | cons l' ls' =>
      have := ih (s + l)
      simp only [offsFrom, sumList, List.getLastD_cons] at this ⊢
      omega

theorem mem_offsFrom_le (lens : List Nat) : ∀ s, ∀ o ∈ offsFrom s lens, o ≤ s + sumList lens := by
  induction lens with
  | nil => intro s o ho; simp [offsFrom] at ho
  | cons l ls ih =>
    intro s o ho
    simp only [offsFrom, List.mem_cons] at ho
    simp only [sumList]
    rcases ho with rfl | ho
    · omega
    · have := ih (s + l) o ho
      omega

theorem readChunksL_stream (cs maxDoc : Nat) (adds : List (Nat × List Nat))
    (hmono : DocsMono adds) (hmax : ∀ a ∈ adds, a.1 ≤ maxDoc)
    (hsz : (intCoderEncode cs maxDoc adds).length < 2 ^ 64) (post : Bytes) :
    readChunksL (intCoderEncode cs maxDoc adds ++ post)
      = some (endOffsets ((segsOf cs maxDoc adds).map List.length),
              (segsOf cs maxDoc adds).flatten ++ post) := by
  rw [stream_shape cs maxDoc adds hmono hmax] at hsz ⊢
  have hlen1 := putUvarints_length_ge (endOffsets ((segsOf cs maxDoc adds).map List.length))
  rw [endOffsets_length, List.length_map, segsOf_length] at hlen1
  simp only [List.length_append] at hsz
  unfold readChunksL
  rw [List.append_assoc, List.append_assoc, uv64_putUvarint _ (by omega)]
  simp only
  have hr := readN64_putUvarints (endOffsets ((segsOf cs maxDoc adds).map List.length))
    (by intro o ho
        rw [endOffsets_eq_offsFrom] at ho
        have := mem_offsFrom_le _ 0 o ho
        rw [sumList_map_length_flatten] at this
        omega)
    ((segsOf cs maxDoc adds).flatten ++ post)
  rw [endOffsets_length, List.length_map, segsOf_length] at hr
  rw [hr]
  simp only
  rw [endOffsets_eq_offsFrom, nondec_offsFrom]
  have h1 := getLastD_offsFrom ((segsOf cs maxDoc adds).map List.length) 0
  rw [sumList_map_length_flatten] at h1
  rw [if_neg (by simp), if_neg (by simp only [List.length_append]; omega)]

/-- Walking a written stream: one item per element of `xs`. -/
theorem walkChunksL_stream {α β : Type} (cs maxDoc : Nat) (adds : List (Nat × List Nat))
    (hcs : 0 < cs) (hmono : DocsMono adds) (hmax : ∀ a ∈ adds, a.1 ≤ maxDoc)
    (hsz : (intCoderEncode cs maxDoc adds).length < 2 ^ 64) (post : Bytes)
    (doc : β → Nat) (blk : β → Bytes) (val : β → α) (dec : Nat → Bytes → Option (α × Bytes))
    (xs : List β)
    (hseg : ∀ k, k < maxDoc / cs + 1 → chunkEnc cs adds k = segOf cs doc blk xs k)
    (hdec : ∀ x ∈ xs, ∀ r, dec (doc x) (blk x ++ r) = some (val x, r))
    (hxmono : xs.Pairwise (fun a b => doc a ≤ doc b))
    (hxmax : ∀ x ∈ xs, doc x ≤ maxDoc) :
    walkChunksL cs (intCoderEncode cs maxDoc adds ++ post) (xs.map doc) dec = some (xs.map val) := by
  unfold walkChunksL
  rw [if_neg (by omega), readChunksL_stream cs maxDoc adds hmono hmax hsz post]
  simp only
  apply walkL_roundtrip (table_of_endOffsets _ post) cs doc blk val dec xs
  · rw [segsOf_length]; exact Nat.succ_pos _
  · intro k hk
    rw [segsOf_getElem]
    exact hseg k (by simpa [segsOf_length] using hk)
  · exact hdec
  · exact hxmono
  · intro x hx
    rw [segsOf_length]
    have := Nat.div_le_div_right (c := cs) (hxmax x hx)
    omega

/-! ### freq/norm items -/

def freqBlk (e : Entry) : Bytes := putUvarints (freqVals e)

def freqVal (e : Entry) : Nat × Nat × Bool := (e.freq, e.norm, hasLocs e)

theorem putUvarints_flatMap {β : Type} (l : List β) (g : β → List Nat) :
    putUvarints (l.flatMap g) = l.flatMap (fun x => putUvarints (g x)) := by
  unfold putUvarints
  rw [List.flatMap_assoc]

theorem chunkEnc_freqAdds (cs : Nat) (es : List Entry) (k : Nat) :
    chunkEnc cs (freqAdds es) k = segOf cs Entry.doc freqBlk es k := by
  unfold chunkEnc chunkVals freqAdds segOf freqBlk
  rw [List.filter_map, List.flatMap_map, putUvarints_flatMap]
  rfl

theorem encodeFreqHasLocs_lt (f : Nat) (b : Bool) (hf : f < 2 ^ 63) :
    Gen.encodeFreqHasLocs f b < 2 ^ 64 := by
  rw [encodeFreqHasLocs_eq f b hf]
  cases b <;> simp <;> omega

theorem decFreqL_blk (e : Entry) (hf : e.freq < 2 ^ 63) (hn64 : e.norm < 2 ^ 64)
    (hn : e.freq = 0 → e.norm = 0)
    (r : Bytes) : decFreqL e.doc (freqBlk e ++ r) = some (freqVal e, r) := by
  unfold decFreqL freqBlk freqVals freqVal
  by_cases h0 : e.freq = 0
  · rw [if_pos h0, putUvarints_cons, putUvarints_nil, List.append_nil,
      uv64_putUvarint _ (encodeFreqHasLocs_lt _ _ hf)]
    simp only
    rw [freqHasLocs_roundtrip _ _ hf]
    simp [h0, hn h0]
  · rw [if_neg h0, putUvarints_cons, putUvarints_cons, putUvarints_nil, List.append_nil,
      List.append_assoc, uv64_putUvarint _ (encodeFreqHasLocs_lt _ _ hf)]
    simp only
    rw [freqHasLocs_roundtrip _ _ hf]
    simp only [ne_eq, h0, not_false_eq_true, if_true]
    rw [uv64_putUvarint _ hn64]

theorem freqAdds_mono (es : List Entry) (h : es.Pairwise (fun a b => a.doc < b.doc)) :
    DocsMono (freqAdds es) := by
  unfold DocsMono freqAdds
  rw [List.pairwise_map]
  exact h.imp (fun h => Nat.le_of_lt h)

theorem freqAdds_max (es : List Entry) (maxDoc : Nat) (h : ∀ e ∈ es, e.doc ≤ maxDoc) :
    ∀ a ∈ freqAdds es, a.1 ≤ maxDoc := by
  intro a ha
  obtain ⟨e, he, rfl⟩ := List.mem_map.mp ha
  exact h e he

theorem freq_walk (cs maxDoc : Nat) (es : List Entry) (hcs : 0 < cs)
    (hasc : es.Pairwise (fun a b => a.doc < b.doc)) (hmax : ∀ e ∈ es, e.doc ≤ maxDoc)
    (hf : ∀ e ∈ es, e.freq < 2 ^ 63) (hn64 : ∀ e ∈ es, e.norm < 2 ^ 64)
    (hn : ∀ e ∈ es, e.freq = 0 → e.norm = 0)
    (hsz : (encodeFreqNorm cs maxDoc es).length < 2 ^ 64) (post : Bytes) :
    walkChunksL cs (encodeFreqNorm cs maxDoc es ++ post) (es.map (·.doc)) decFreqL
      = some (es.map freqVal) :=
  walkChunksL_stream cs maxDoc (freqAdds es) hcs (freqAdds_mono es hasc) (freqAdds_max es maxDoc hmax)
    hsz post Entry.doc freqBlk freqVal decFreqL es (fun k _ => chunkEnc_freqAdds cs es k)
    (fun e he r => decFreqL_blk e (hf e he) (hn64 e he) (hn e he) r)
    (hasc.imp (fun h => Nat.le_of_lt h)) hmax

/-! ### location blocks -/

/-- All values of the locations of one posting, in stream order. -/
def locVals (ls : List MLoc) : List Nat := ls.flatMap (fun l => locHead l ++ l.ap)

/-- The block of one posting in the location stream: the length prefix, then the
    locations. -/
def locBlk (e : Entry) : Bytes := putUvarints (numLocsBytes e.locs :: locVals e.locs)

theorem totalUvarintBytes_eq (vs : List Nat) : totalUvarintBytes vs = (putUvarints vs).length := by
  unfold totalUvarintBytes putUvarints
  rw [List.length_flatMap]
  congr 1
  apply List.map_congr_left
  intro x _
  exact numUvarintBytes_eq x

/-- `numBytesLocs` is exactly the encoded length of the locations that follow it:
    `SkipBytes(numLocsBytes)` skips one location block. -/
theorem numLocsBytes_eq (ls : List MLoc) : numLocsBytes ls = (putUvarints (locVals ls)).length := by
  unfold numLocsBytes locVals
  rw [putUvarints_flatMap, List.length_flatMap]
  congr 1
  apply List.map_congr_left
  intro l _
  exact totalUvarintBytes_eq _

theorem ap_le_numLocsBytes (ls : List MLoc) (l : MLoc) (h : l ∈ ls) : l.ap.length ≤ numLocsBytes ls := by
  induction ls with
  | nil => simp at h
  | cons x ls ih =>
    unfold numLocsBytes
    simp only [List.map_cons, List.sum_cons]
    rcases List.mem_cons.mp h with h | h
    · subst h
      rw [totalUvarintBytes_eq, putUvarints_append, List.length_append]
      have := putUvarints_length_ge l.ap
      omega
    · have := ih h
      unfold numLocsBytes at this
      omega

theorem length_le_numLocsBytes (ls : List MLoc) : ls.length ≤ numLocsBytes ls := by
  induction ls with
  | nil => simp
  | cons x ls ih =>
    unfold numLocsBytes at ih ⊢
    simp only [List.map_cons, List.sum_cons, List.length_cons]
    rw [totalUvarintBytes_eq, putUvarints_append, List.length_append]
    have := putUvarints_length_ge (locHead x)
    have h5 : (locHead x).length = 5 := rfl
    omega

/-- Every number of the locations fits 64 bits. -/
def LocsFit (ls : List MLoc) : Prop := ∀ l ∈ ls, ∀ v ∈ locHead l ++ l.ap, v < 2 ^ 64

theorem readLoc_put (maxAp : Nat) (l : MLoc) (h : l.ap.length ≤ maxAp)
    (hfit : ∀ v ∈ locHead l ++ l.ap, v < 2 ^ 64) (r : Bytes) :
    readLoc maxAp (putUvarints (locHead l ++ l.ap) ++ r) = some (l, r) := by
  unfold readLoc
  rw [putUvarints_append, List.append_assoc]
  have h5 := readN64_putUvarints (locHead l) (fun v hv => hfit v (by simp [hv]))
    (putUvarints l.ap ++ r)
  have hl : (locHead l).length = 5 := rfl
  rw [hl] at h5
  rw [h5]
  simp only [locHead]
  rw [if_neg (by omega), readN64_putUvarints _ (fun v hv => hfit v (by simp [hv]))]

theorem parseLocs_put (maxAp : Nat) (ls : List MLoc) (hap : ∀ l ∈ ls, l.ap.length ≤ maxAp)
    (hfit : LocsFit ls) :
    ∀ fuel, ls.length ≤ fuel → parseLocs maxAp fuel (putUvarints (locVals ls)) = some ls := by
  induction ls with
  | nil => intro fuel _; cases fuel <;> simp [parseLocs, locVals, putUvarints]
  | cons l ls ih =>
    intro fuel hf
    cases fuel with
    | zero => simp at hf
    | succ fuel =>
      have hv : locVals (l :: ls) = (locHead l ++ l.ap) ++ locVals ls := by simp [locVals]
      rw [hv, putUvarints_append]
      have hne : putUvarints (locHead l ++ l.ap) ++ putUvarints (locVals ls) ≠ [] := by
        simp [locHead, putUvarints_cons, putUvarint_ne_nil]
      simp only [parseLocs]
      rw [if_neg hne, readLoc_put maxAp l (hap l (by simp)) (hfit l (by simp))]
      simp only
      rw [ih (fun x hx => hap x (by simp [hx])) (fun x hx => hfit x (by simp [hx])) fuel
        (by simpa using hf)]
      rfl

theorem decLocsL_blk (e : Entry) (hnb : numLocsBytes e.locs < 2 ^ 64) (hfit : LocsFit e.locs)
    (r : Bytes) : decLocsL e.doc (locBlk e ++ r) = some (e.locs, r) := by
  unfold decLocsL locBlk
  rw [putUvarints_cons, List.append_assoc, uv64_putUvarint _ hnb]
  simp only
  have hlen := numLocsBytes_eq e.locs
  rw [if_neg (by simp only [List.length_append]; omega)]
  rw [List.take_append_of_le_length (by omega), hlen, List.take_length, ← hlen,
    parseLocs_put _ e.locs (fun l hl => ap_le_numLocsBytes e.locs l hl) hfit _
      (length_le_numLocsBytes e.locs)]
  simp only
  rw [hlen, List.drop_append_of_le_length (by omega), List.drop_length, List.nil_append]

theorem locAddsOf_docs (e : Entry) : ∀ a ∈ locAddsOf e, a.1 = e.doc := by
  intro a ha
  unfold locAddsOf at ha
  by_cases h : e.locs.isEmpty
  · simp [h] at ha
  · simp only [h, Bool.false_eq_true, if_false, List.mem_cons, List.mem_flatMap] at ha
    rcases ha with rfl | ⟨l, _, hl⟩
    · rfl
    · simp at hl
      rcases hl with rfl | rfl <;> rfl

theorem locAddsOf_vals (e : Entry) :
    (locAddsOf e).flatMap (·.2) = if hasLocs e then numLocsBytes e.locs :: locVals e.locs else [] := by
  unfold locAddsOf hasLocs
  by_cases h : e.locs.isEmpty
  · simp [h]
  · simp only [h, Bool.false_eq_true, if_false, Bool.not_false, if_true, List.flatMap_cons,
      List.cons_append, List.nil_append, List.cons.injEq, true_and]
    rw [List.flatMap_assoc]
    unfold locVals
    congr 1
    funext l
    simp

theorem filter_locAddsOf (cs k : Nat) (e : Entry) :
    (locAddsOf e).filter (fun a => a.1 / cs = k)
      = if e.doc / cs = k then locAddsOf e else [] := by
  by_cases h : e.doc / cs = k
  · rw [if_pos h, List.filter_eq_self]
    intro a ha
    rw [locAddsOf_docs e a ha]
    simpa using h
  · rw [if_neg h, List.filter_eq_nil_iff]
    intro a ha
    rw [locAddsOf_docs e a ha]
    simpa using h

theorem chunkEnc_locAdds (cs : Nat) (es : List Entry) (k : Nat) :
    chunkEnc cs (locAdds es) k = segOf cs Entry.doc locBlk (es.filter hasLocs) k := by
  unfold chunkEnc chunkVals locAdds segOf
  induction es with
  | nil => rfl
  | cons e es ih =>
    rw [List.flatMap_cons, List.filter_append, List.flatMap_append, putUvarints_append, ih,
      filter_locAddsOf]
    by_cases hl : hasLocs e
    · rw [List.filter_cons_of_pos hl]
      by_cases hk : e.doc / cs = k
      · rw [if_pos hk, List.filter_cons_of_pos (by simpa using hk), List.flatMap_cons,
          locAddsOf_vals, if_pos hl]
        rfl
      · rw [if_neg hk, List.filter_cons_of_neg (by simpa using hk)]
        rfl
    · rw [List.filter_cons_of_neg hl]
      by_cases hk : e.doc / cs = k
      · rw [if_pos hk, locAddsOf_vals, if_neg hl]
        rfl
      · rw [if_neg hk]
        rfl

theorem locAdds_mono (es : List Entry) (h : es.Pairwise (fun a b => a.doc < b.doc)) :
    DocsMono (locAdds es) := by
  unfold DocsMono locAdds
  induction es with
  | nil => simp
  | cons e es ih =>
    have hpw := List.pairwise_cons.mp h
    rw [List.flatMap_cons, List.pairwise_append]
    refine ⟨?_, ih hpw.2, ?_⟩
    · rw [List.pairwise_iff_forall_sublist]
      intro a b hab
      have ha := locAddsOf_docs e a (hab.subset (by simp))
      have hb := locAddsOf_docs e b (hab.subset (by simp))
      omega
    · intro a ha b hb
      obtain ⟨e', he', hb'⟩ := List.mem_flatMap.mp hb
      rw [locAddsOf_docs e a ha, locAddsOf_docs e' b hb']
      exact Nat.le_of_lt (hpw.1 e' he')

theorem locAdds_max (es : List Entry) (maxDoc : Nat) (h : ∀ e ∈ es, e.doc ≤ maxDoc) :
    ∀ a ∈ locAdds es, a.1 ≤ maxDoc := by
  intro a ha
  obtain ⟨e, he, ha'⟩ := List.mem_flatMap.mp ha
  rw [locAddsOf_docs e a ha']
  exact h e he

theorem loc_walk (cs maxDoc : Nat) (es : List Entry) (hcs : 0 < cs)
    (hasc : es.Pairwise (fun a b => a.doc < b.doc)) (hmax : ∀ e ∈ es, e.doc ≤ maxDoc)
    (hnb : ∀ e ∈ es, numLocsBytes e.locs < 2 ^ 64) (hfit : ∀ e ∈ es, LocsFit e.locs)
    (hsz : (encodeLocs cs maxDoc es).length < 2 ^ 64) (post : Bytes) :
    walkChunksL cs (encodeLocs cs maxDoc es ++ post) ((es.filter hasLocs).map (·.doc)) decLocsL
      = some ((es.filter hasLocs).map (·.locs)) :=
  walkChunksL_stream cs maxDoc (locAdds es) hcs (locAdds_mono es hasc) (locAdds_max es maxDoc hmax)
    hsz post Entry.doc locBlk Entry.locs decLocsL (es.filter hasLocs)
    (fun k _ => chunkEnc_locAdds cs es k)
    (fun e he r => decLocsL_blk e (hnb e (List.mem_filter.mp he).1) (hfit e (List.mem_filter.mp he).1) r)
    ((hasc.imp (fun h => Nat.le_of_lt h)).sublist List.filter_sublist)
    (fun e he => hmax e (List.mem_filter.mp he).1)

/-! ### putting the two streams together -/

theorem zipLocs_roundtrip (es : List Entry) :
    zipLocs (es.map (fun e => (e.doc, freqVal e))) ((es.filter hasLocs).map (·.locs)) = some es := by
  induction es with
  | nil => rfl
  | cons e es ih =>
    by_cases hl : hasLocs e
    · rw [List.filter_cons_of_pos hl]
      simp only [List.map_cons, freqVal, hl, zipLocs]
      have ih' := ih
      simp only [freqVal] at ih'
      rw [ih']
      rfl
    · rw [List.filter_cons_of_neg hl]
      have hl' : hasLocs e = false := by simpa using hl
      have hnil : e.locs = [] := by
        unfold hasLocs at hl'
        simpa using hl'
      simp only [List.map_cons, freqVal, hl', zipLocs]
      have ih' := ih
      simp only [freqVal] at ih'
      rw [ih']
      simp only [Option.map_some, Option.some.injEq, List.cons.injEq, and_true]
      cases e
      simp_all

theorem locDocs_eq (es : List Entry) :
    ((es.map (fun e => (e.doc, freqVal e))).filter (·.2.2.2)).map (·.1)
      = (es.filter hasLocs).map (·.doc) := by
  rw [List.filter_map, List.map_map]
  rfl

/-- The coder's `final` is empty exactly when no entry has locations. -/
theorem coderFinal_locAdds_nil (cs maxDoc : Nat) (es : List Entry)
    (h : ∀ e ∈ es, e.locs = []) : coderFinal cs maxDoc (locAdds es) = [] := by
  have : locAdds es = [] := by
    unfold locAdds
    rw [List.flatMap_eq_nil_iff]
    intro e he
    simp [locAddsOf, h e he]
  rw [this]
  simp [coderFinal, IntCoder.close, IntCoder.new]

theorem locBlk_ne_nil (e : Entry) : locBlk e ≠ [] := by
  simp [locBlk, putUvarints_cons, putUvarint_ne_nil]

theorem coderFinal_locAdds_ne_nil (cs maxDoc : Nat) (es : List Entry)
    (hasc : es.Pairwise (fun a b => a.doc < b.doc)) (hmax : ∀ e ∈ es, e.doc ≤ maxDoc)
    (e : Entry) (he : e ∈ es) (hl : e.locs ≠ []) : coderFinal cs maxDoc (locAdds es) ≠ [] := by
  rw [coderFinal_eq cs maxDoc _ (locAdds_mono es hasc) (locAdds_max es maxDoc hmax)]
  have hk : e.doc / cs < maxDoc / cs + 1 := by
    have := Nat.div_le_div_right (c := cs) (hmax e he)
    omega
  intro hnil
  rw [List.flatten_eq_nil_iff] at hnil
  have hmem : chunkEnc cs (locAdds es) (e.doc / cs) ∈ segsOf cs maxDoc (locAdds es) := by
    unfold segsOf
    exact List.mem_map.mpr ⟨_, List.mem_range.mpr hk, rfl⟩
  have h0 := hnil _ hmem
  rw [chunkEnc_locAdds] at h0
  unfold segOf at h0
  rw [List.flatMap_eq_nil_iff] at h0
  have hmem' : e ∈ (es.filter hasLocs).filter (fun x => x.doc / cs = e.doc / cs) := by
    rw [List.mem_filter, List.mem_filter]
    refine ⟨⟨he, ?_⟩, by simp⟩
    unfold hasLocs
    cases h : e.locs with
    | nil => exact absurd h hl
    | cons _ _ => rfl
  exact locBlk_ne_nil e (h0 e hmem')

theorem filter_hasLocs_nil (es : List Entry) (h : ∀ e ∈ es, e.locs = []) : es.filter hasLocs = [] := by
  rw [List.filter_eq_nil_iff]
  intro e he
  simp [hasLocs, h e he]

theorem decodeEntriesL_roundtrip (cs maxDoc : Nat) (es : List Entry) (hcs : 0 < cs)
    (hasc : es.Pairwise (fun a b => a.doc < b.doc)) (hmax : ∀ e ∈ es, e.doc ≤ maxDoc)
    (hf : ∀ e ∈ es, e.freq < 2 ^ 63) (hn64 : ∀ e ∈ es, e.norm < 2 ^ 64)
    (hn : ∀ e ∈ es, e.freq = 0 → e.norm = 0)
    (hnb : ∀ e ∈ es, numLocsBytes e.locs < 2 ^ 64) (hfit : ∀ e ∈ es, LocsFit e.locs)
    (hszF : (encodeFreqNorm cs maxDoc es).length < 2 ^ 64)
    (hszL : (encodeLocs cs maxDoc es).length < 2 ^ 64)
    (postF postL : Bytes) :
    decodeEntriesL cs (es.map (·.doc)) (encodeFreqNorm cs maxDoc es ++ postF)
      (some (encodeLocs cs maxDoc es ++ postL)) = some es := by
  unfold decodeEntriesL
  rw [freq_walk cs maxDoc es hcs hasc hmax hf hn64 hn hszF postF]
  simp only
  rw [List.zip_map', locDocs_eq, loc_walk cs maxDoc es hcs hasc hmax hnb hfit hszL postL]
  exact zipLocs_roundtrip es

theorem decodeEntriesL_roundtrip_none (cs maxDoc : Nat) (es : List Entry) (hcs : 0 < cs)
    (hasc : es.Pairwise (fun a b => a.doc < b.doc)) (hmax : ∀ e ∈ es, e.doc ≤ maxDoc)
    (hf : ∀ e ∈ es, e.freq < 2 ^ 63) (hn64 : ∀ e ∈ es, e.norm < 2 ^ 64)
    (hn : ∀ e ∈ es, e.freq = 0 → e.norm = 0)
    (hszF : (encodeFreqNorm cs maxDoc es).length < 2 ^ 64)
    (hnl : ∀ e ∈ es, e.locs = []) (postF : Bytes) :
    decodeEntriesL cs (es.map (·.doc)) (encodeFreqNorm cs maxDoc es ++ postF) none = some es := by
  unfold decodeEntriesL
  rw [freq_walk cs maxDoc es hcs hasc hmax hf hn64 hn hszF postF]
  simp only
  rw [List.zip_map', locDocs_eq, filter_hasLocs_nil es hnl]
  have := zipLocs_roundtrip es
  rw [filter_hasLocs_nil es hnl] at this
  simpa using this

theorem locStream?_eq (cs maxDoc : Nat) (es : List Entry)
    (hasc : es.Pairwise (fun a b => a.doc < b.doc)) (hmax : ∀ e ∈ es, e.doc ≤ maxDoc) :
    locStream? cs maxDoc es
      = if ∀ e ∈ es, e.locs = [] then none else some (encodeLocs cs maxDoc es) := by
  unfold locStream?
  by_cases h : ∀ e ∈ es, e.locs = []
  · rw [if_pos h, if_pos (coderFinal_locAdds_nil cs maxDoc es h)]
  · rw [if_neg h]
    have : ∃ e, e ∈ es ∧ e.locs ≠ [] := by
      apply Classical.byContradiction
      intro hne
      apply h
      intro e he
      apply Classical.byContradiction
      intro hl
      exact hne ⟨e, he, hl⟩
    obtain ⟨e, he, hl⟩ := this
    rw [if_neg (coderFinal_locAdds_ne_nil cs maxDoc es hasc hmax e he hl)]

theorem freqBlk_ne_nil (e : Entry) : freqBlk e ≠ [] := by
  unfold freqBlk freqVals
  by_cases h : e.freq = 0 <;> simp [h, putUvarints_cons, putUvarint_ne_nil]

theorem coderFinal_freqAdds_ne_nil (cs maxDoc : Nat) (es : List Entry)
    (hasc : es.Pairwise (fun a b => a.doc < b.doc)) (hmax : ∀ e ∈ es, e.doc ≤ maxDoc)
    (hne : es ≠ []) : coderFinal cs maxDoc (freqAdds es) ≠ [] := by
  rw [coderFinal_eq cs maxDoc _ (freqAdds_mono es hasc) (freqAdds_max es maxDoc hmax)]
  obtain ⟨e, he⟩ := List.exists_mem_of_ne_nil es hne
  have hk : e.doc / cs < maxDoc / cs + 1 := by
    have := Nat.div_le_div_right (c := cs) (hmax e he)
    omega
  intro hnil
  rw [List.flatten_eq_nil_iff] at hnil
  have hmem : chunkEnc cs (freqAdds es) (e.doc / cs) ∈ segsOf cs maxDoc (freqAdds es) := by
    unfold segsOf
    exact List.mem_map.mpr ⟨_, List.mem_range.mpr hk, rfl⟩
  have h0 := hnil _ hmem
  rw [chunkEnc_freqAdds] at h0
  unfold segOf at h0
  rw [List.flatMap_eq_nil_iff] at h0
  exact freqBlk_ne_nil e (h0 e (by rw [List.mem_filter]; exact ⟨he, by simp⟩))

/-- The record written by `writePostings` and what its three header varints point at. -/
theorem writePostings_layout (count cs maxDoc : Nat) (es : List Entry) (roaring : Bytes)
    (hasc : es.Pairwise (fun a b => a.doc < b.doc)) (hmax : ∀ e ∈ es, e.doc ≤ maxDoc)
    (hne : es ≠ []) :
    let out := writePostings count cs maxDoc es roaring
    let lc : Bytes := match locStream? cs maxDoc es with | none => [] | some s => s
    out.tfOffset = count ∧
    out.locOffset = (if ∀ e ∈ es, e.locs = [] then 0 else count + (encodeFreqNorm cs maxDoc es).length) ∧
    out.postingsOffset = count + (encodeFreqNorm cs maxDoc es).length + lc.length ∧
    out.bytes = encodeFreqNorm cs maxDoc es ++ lc ++ putUvarint out.tfOffset ++ putUvarint out.locOffset
      ++ putUvarint roaring.length ++ roaring := by
  have htf : writeAt count cs maxDoc (freqAdds es) = (count, encodeFreqNorm cs maxDoc es) := by
    unfold writeAt
    rw [if_neg (coderFinal_freqAdds_ne_nil cs maxDoc es hasc hmax hne)]
    rfl
  have hls := locStream?_eq cs maxDoc es hasc hmax
  simp only [writePostings, htf]
  by_cases h : ∀ e ∈ es, e.locs = []
  · rw [if_pos h] at hls
    have hlc : ∀ c, writeAt c cs maxDoc (locAdds es) = (0, []) := by
      intro c
      unfold writeAt
      rw [if_pos (coderFinal_locAdds_nil cs maxDoc es h)]
    rw [hlc, hls, if_pos h]
    simp
  · rw [if_neg h] at hls
    have hlc : ∀ c, writeAt c cs maxDoc (locAdds es) = (c, encodeLocs cs maxDoc es) := by
      intro c
      unfold writeAt
      unfold locStream? at hls
      by_cases hf : coderFinal cs maxDoc (locAdds es) = []
      · rw [if_pos hf] at hls; cases hls
      · rw [if_neg hf]; rfl
    rw [hlc, hls, if_neg h]
    simp

end Zap.Writer.Post
