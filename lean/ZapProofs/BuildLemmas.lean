/-
  ZapProofs.BuildLemmas: helper lemmas for C01 (the build agrees with the
  per-query specification).  Part 1: byte order, sorting, the field table,
  generic "keyed fold" lemma.
-/
import ZapModel.Spec

namespace Zap

/-! ### 1. `Bytes.lt` is a strict total order -/

theorem Bytes.lt_irrefl (a : Bytes) : Bytes.lt a a = false := by
  induction a with
  | nil => rfl
  | cons x xs ih => simp [Bytes.lt, ih]

theorem Bytes.lt_trans {a b c : Bytes} (h1 : Bytes.lt a b = true) (h2 : Bytes.lt b c = true) :
    Bytes.lt a c = true := by
  induction a generalizing b c with
  | nil =>
    cases b with
    | nil => simp [Bytes.lt] at h1
    | cons y ys =>
      cases c with
      | nil => simp [Bytes.lt] at h2
      | cons z zs => simp [Bytes.lt]
  | cons x xs ih =>
    cases b with
    | nil => simp [Bytes.lt] at h1
    | cons y ys =>
      cases c with
      | nil => simp [Bytes.lt] at h2
      | cons z zs =>
        simp only [Bytes.lt] at h1 h2 ⊢
        split at h1
        · split at h2
          · have : x < z := by omega
            simp [this]
          · split at h2
            · simp at h2
            · have : x < z := by omega
              simp [this]
        · split at h1
          · simp at h1
          · split at h2
            · have : x < z := by omega
              simp [this]
            · split at h2
              · simp at h2
              · have hxz : ¬ x < z := by omega
                have hzx : ¬ z < x := by omega
                simp [hxz, hzx]
                exact ih h1 h2

/-- trichotomy: two different byte strings are comparable -/
theorem Bytes.lt_of_not_lt_of_ne {a b : Bytes} (h1 : Bytes.lt a b = false) (h2 : a ≠ b) :
    Bytes.lt b a = true := by
  induction a generalizing b with
  | nil =>
    cases b with
    | nil => exact absurd rfl h2
    | cons y ys => simp [Bytes.lt] at h1
  | cons x xs ih =>
    cases b with
    | nil => simp [Bytes.lt]
    | cons y ys =>
      simp only [Bytes.lt] at h1 ⊢
      split at h1
      · simp at h1
      · split at h1
        · rename_i h3 h4
          simp [h4]
        · rename_i h3 h4
          have : x = y := by omega
          subst this
          simp [h3]
          apply ih h1
          intro h; exact h2 (by rw [h])

theorem Bytes.lt_asymm {a b : Bytes} (h : Bytes.lt a b = true) : Bytes.lt b a = false := by
  cases h' : Bytes.lt b a with
  | false => rfl
  | true =>
    have := Bytes.lt_trans h h'
    rw [Bytes.lt_irrefl] at this
    exact absurd this (by simp)

theorem Bytes.ne_of_lt {a b : Bytes} (h : Bytes.lt a b = true) : a ≠ b := by
  intro e; subst e; rw [Bytes.lt_irrefl] at h; exact absurd h (by simp)

/-! ### `SortedLt` / `AscNat` as `Pairwise` -/

theorem sortedLt_iff_pairwise (l : List Bytes) :
    SortedLt l ↔ l.Pairwise (fun a b => Bytes.lt a b = true) := by
  induction l with
  | nil => simp [SortedLt]
  | cons a l ih =>
    cases l with
    | nil => simp [SortedLt]
    | cons b rest =>
      simp only [SortedLt, ih]
      constructor
      · rintro ⟨hab, hp⟩
        refine List.pairwise_cons.2 ⟨?_, hp⟩
        intro z hz
        rcases List.mem_cons.1 hz with rfl | hz
        · exact hab
        · exact Bytes.lt_trans hab ((List.pairwise_cons.1 hp).1 z hz)
      · intro hp
        have := List.pairwise_cons.1 hp
        exact ⟨this.1 b (by simp), this.2⟩

theorem ascNat_iff_pairwise (l : List Nat) : AscNat l ↔ l.Pairwise (· < ·) := by
  induction l with
  | nil => simp [AscNat]
  | cons a l ih =>
    cases l with
    | nil => simp [AscNat]
    | cons b rest =>
      simp only [AscNat, ih]
      constructor
      · rintro ⟨hab, hp⟩
        refine List.pairwise_cons.2 ⟨?_, hp⟩
        intro z hz
        rcases List.mem_cons.1 hz with rfl | hz
        · exact hab
        · exact Nat.lt_trans hab ((List.pairwise_cons.1 hp).1 z hz)
      · intro hp
        have := List.pairwise_cons.1 hp
        exact ⟨this.1 b (by simp), this.2⟩

/-! ### 2. `insertName` / `sortNames` / `sortTerms` -/

theorem mem_insertName {x y : Name} {l : List Name} : y ∈ insertName x l ↔ y = x ∨ y ∈ l := by
  induction l with
  | nil => simp [insertName]
  | cons z zs ih =>
    simp only [insertName]
    split
    · simp only [List.mem_cons, ih]
      constructor
      · rintro (h | h | h) <;> simp [h]
      · rintro (h | h | h) <;> simp [h]
    · simp

theorem mem_sortNames {y : Name} {l : List Name} : y ∈ sortNames l ↔ y ∈ l := by
  induction l with
  | nil => simp [sortNames]
  | cons z zs ih =>
    have : sortNames (z :: zs) = insertName z (sortNames zs) := rfl
    rw [this, mem_insertName, ih]; simp

theorem pairwise_insertName {x : Name} {l : List Name}
    (hp : l.Pairwise (fun a b => Bytes.lt a b = true)) (hx : x ∉ l) :
    (insertName x l).Pairwise (fun a b => Bytes.lt a b = true) := by
  induction l with
  | nil => simp [insertName]
  | cons y ys ih =>
    have hpc := List.pairwise_cons.1 hp
    simp only [insertName]
    split
    · rename_i hyx
      refine List.pairwise_cons.2 ⟨?_, ih hpc.2 (fun h => hx (List.mem_cons_of_mem _ h))⟩
      intro z hz
      rcases mem_insertName.1 hz with rfl | hz
      · exact hyx
      · exact hpc.1 z hz
    · rename_i hyx
      have hne : y ≠ x := fun h => hx (by simp [h])
      have hxy : Bytes.lt x y = true := Bytes.lt_of_not_lt_of_ne (by simpa using hyx) hne
      refine List.pairwise_cons.2 ⟨?_, hp⟩
      intro z hz
      rcases List.mem_cons.1 hz with rfl | hz
      · exact hxy
      · exact Bytes.lt_trans hxy (hpc.1 z hz)

theorem pairwise_sortNames {l : List Name} (hnd : l.Nodup) :
    (sortNames l).Pairwise (fun a b => Bytes.lt a b = true) := by
  induction l with
  | nil => simp [sortNames]
  | cons z zs ih =>
    have : sortNames (z :: zs) = insertName z (sortNames zs) := rfl
    rw [this]
    have hn := List.nodup_cons.1 hnd
    exact pairwise_insertName (ih hn.2) (fun h => hn.1 (mem_sortNames.1 h))

theorem sortedLt_sortNames {l : List Name} (hnd : l.Nodup) : SortedLt (sortNames l) :=
  (sortedLt_iff_pairwise _).2 (pairwise_sortNames hnd)

theorem map_fst_insertTerm (x : Bytes × List Entry) (l : List (Bytes × List Entry)) :
    (insertTerm x l).map (·.1) = insertName x.1 (l.map (·.1)) := by
  induction l with
  | nil => simp [insertTerm, insertName]
  | cons y ys ih =>
    simp only [insertTerm, List.map_cons, insertName]
    split <;> simp [ih]

theorem map_fst_sortTerms (d : List (Bytes × List Entry)) :
    (sortTerms d).map (·.1) = sortNames (d.map (·.1)) := by
  induction d with
  | nil => simp [sortTerms, sortNames]
  | cons z zs ih =>
    have h1 : sortTerms (z :: zs) = insertTerm z (sortTerms zs) := rfl
    have h2 : sortNames ((z :: zs).map (·.1)) = insertName z.1 (sortNames (zs.map (·.1))) := rfl
    rw [h1, h2, map_fst_insertTerm, ih]

theorem lookup_insertTerm (t : Bytes) (x : Bytes × List Entry) (l : List (Bytes × List Entry)) :
    lookup t (insertTerm x l) = if t = x.1 then some x.2 else lookup t l := by
  induction l with
  | nil => simp [insertTerm, lookup]
  | cons y ys ih =>
    obtain ⟨yk, yv⟩ := y
    simp only [insertTerm]
    split
    · rename_i hyx
      simp only [lookup, ih]
      by_cases h1 : t = x.1
      · have : t ≠ yk := by
          intro h2; subst h1; subst h2
          rw [Bytes.lt_irrefl] at hyx; exact absurd hyx (by simp)
        subst h1
        simp [this]
      · simp [h1]
    · obtain ⟨xk, xv⟩ := x
      simp [lookup]

theorem lookup_sortTerms (t : Bytes) (d : List (Bytes × List Entry)) :
    lookup t (sortTerms d) = lookup t d := by
  induction d with
  | nil => rfl
  | cons z zs ih =>
    have h1 : sortTerms (z :: zs) = insertTerm z (sortTerms zs) := rfl
    obtain ⟨zk, zv⟩ := z
    rw [h1, lookup_insertTerm, ih]; simp [lookup]

theorem lookup_map_general (t : Bytes) (d : List (Bytes × List Entry)) :
    lookup t (d.map (fun p => (p.1, PostRep.general p.2))) = (lookup t d).map PostRep.general := by
  induction d with
  | nil => rfl
  | cons z zs ih =>
    obtain ⟨zk, zv⟩ := z
    simp only [List.map_cons, lookup, ih]
    split <;> simp

/-! ### 3. The field table -/

theorem mem_getOrDefine {fs : List Name} {n y : Name} : y ∈ getOrDefine fs n ↔ y ∈ fs ∨ y = n := by
  unfold getOrDefine
  split
  · rename_i h
    have : n ∈ fs := by simpa using h
    constructor
    · intro h; exact Or.inl h
    · rintro (h | h)
      · exact h
      · exact h ▸ this
  · simp

theorem nodup_getOrDefine {fs : List Name} {n : Name} (h : fs.Nodup) : (getOrDefine fs n).Nodup := by
  unfold getOrDefine
  split
  · exact h
  · rename_i hc
    have : n ∉ fs := by simpa using hc
    exact List.nodup_append.2 ⟨h, by simp, by
      intro a ha b hb
      have : b = n := by simpa using hb
      subst this
      intro e; subst e; exact this ha⟩

theorem prefix_getOrDefine (fs : List Name) (n : Name) : fs <+: getOrDefine fs n := by
  unfold getOrDefine
  split
  · exact List.prefix_refl _
  · exact List.prefix_append _ _

theorem foldl_getOrDefine_spec (ns : List Name) (init : List Name) :
    init <+: ns.foldl getOrDefine init ∧ (init.Nodup → (ns.foldl getOrDefine init).Nodup) ∧
    ∀ y, y ∈ ns.foldl getOrDefine init ↔ y ∈ init ∨ y ∈ ns := by
  induction ns generalizing init with
  | nil => simp
  | cons n ns ih =>
    obtain ⟨h1, h2, h3⟩ := ih (getOrDefine init n)
    refine ⟨List.IsPrefix.trans (prefix_getOrDefine _ _) h1, fun h => h2 (nodup_getOrDefine h), ?_⟩
    intro y
    simp only [List.foldl_cons, h3, mem_getOrDefine, List.mem_cons]
    constructor
    · rintro ((h | h) | h) <;> simp [h]
    · rintro (h | h | h) <;> simp [h]

theorem firstAppearance_spec (b : Batch) (init : List Name) :
    let r := b.foldl (fun acc d => (docNames d).foldl getOrDefine acc) init
    init <+: r ∧ (init.Nodup → r.Nodup) ∧ ∀ y, y ∈ r ↔ y ∈ init ∨ y ∈ Spec.names b := by
  induction b generalizing init with
  | nil => simp [Spec.names]
  | cons d b ih =>
    obtain ⟨h1, h2, h3⟩ := ih ((docNames d).foldl getOrDefine init)
    obtain ⟨g1, g2, g3⟩ := foldl_getOrDefine_spec (docNames d) init
    refine ⟨List.IsPrefix.trans g1 h1, fun h => h2 (g2 h), ?_⟩
    intro y
    simp only [List.foldl_cons, h3, g3, Spec.names, List.flatMap_cons, List.mem_append]
    constructor
    · rintro ((h | h) | h) <;> simp [h]
    · rintro (h | h | h) <;> simp [h]

/-- shape of the table: `_id`, then the sorted rest -/
theorem fieldTable_shape (b : Batch) :
    ∃ rest : List Name, fieldTable b = idName :: sortNames rest ∧ (idName :: rest).Nodup ∧
      ∀ y, y ∈ idName :: rest ↔ y = idName ∨ y ∈ Spec.names b := by
  obtain ⟨h1, h2, h3⟩ := firstAppearance_spec b [idName]
  obtain ⟨s, hs⟩ := h1
  refine ⟨s, ?_, ?_, ?_⟩
  · unfold fieldTable firstAppearance
    rw [← hs]; rfl
  · have := h2 (by simp)
    rw [← hs] at this; exact this
  · intro y
    have := h3 y
    rw [← hs] at this
    simpa using this

theorem mem_fieldTable (b : Batch) (y : Name) : y ∈ fieldTable b ↔ y = idName ∨ y ∈ Spec.names b := by
  obtain ⟨rest, h1, _, h3⟩ := fieldTable_shape b
  rw [h1, ← h3]
  simp [mem_sortNames]

theorem fieldTable_isFieldTable (b : Batch) : Spec.IsFieldTable b (fieldTable b) := by
  obtain ⟨rest, h1, h2, h3⟩ := fieldTable_shape b
  have hn := List.nodup_cons.1 h2
  refine ⟨by rw [h1]; rfl, ?_, mem_fieldTable b, ?_⟩
  · rw [h1]; exact sortedLt_sortNames hn.2
  · rw [h1]; intro h; exact hn.1 (mem_sortNames.1 h)

theorem fieldTable_nodup (b : Batch) : (fieldTable b).Nodup := by
  obtain ⟨rest, h1, h2, _⟩ := fieldTable_shape b
  have hn := List.nodup_cons.1 h2
  rw [h1]
  refine List.nodup_cons.2 ⟨fun h => hn.1 (mem_sortNames.1 h), ?_⟩
  have := pairwise_sortNames hn.2
  exact this.imp (fun h => Bytes.ne_of_lt h)

/-! ### `fieldIdOf` -/

theorem fieldIdOf_cons (h : Name) (t : List Name) (n : Name) :
    fieldIdOf (h :: t) n = if h = n then 0 else fieldIdOf t n + 1 := by
  unfold fieldIdOf
  rw [List.findIdx?_cons]
  by_cases e : h = n
  · simp [e]
  · simp only [e, decide_false, Bool.false_eq_true, if_false, List.length_cons]
    cases List.findIdx? (fun x => decide (x = n)) t <;> simp

theorem fieldIdOf_lt {tbl : List Name} {n : Name} (h : n ∈ tbl) : fieldIdOf tbl n < tbl.length := by
  induction tbl with
  | nil => simp at h
  | cons x xs ih =>
    rw [fieldIdOf_cons]
    split
    · simp
    · rename_i hne
      have : n ∈ xs := by
        rcases List.mem_cons.1 h with e | e
        · exact absurd e.symm hne
        · exact e
      have := ih this
      simp; omega

theorem getD_fieldIdOf {tbl : List Name} {n : Name} (h : n ∈ tbl) : tbl.getD (fieldIdOf tbl n) [] = n := by
  induction tbl with
  | nil => simp at h
  | cons x xs ih =>
    rw [fieldIdOf_cons]
    split
    · rename_i e; simp [e]
    · rename_i hne
      have : n ∈ xs := by
        rcases List.mem_cons.1 h with e | e
        · exact absurd e.symm hne
        · exact e
      simpa using ih this

/-- an id that is the id of a table member determines the name -/
theorem fieldIdOf_inj {tbl : List Name} {n m : Name} (h : n ∈ tbl) (e : fieldIdOf tbl m = fieldIdOf tbl n) :
    m = n := by
  induction tbl with
  | nil => simp at h
  | cons x xs ih =>
    rw [fieldIdOf_cons, fieldIdOf_cons] at e
    by_cases h1 : x = m
    · by_cases h2 : x = n
      · rw [← h1, ← h2]
      · simp [h1] at e
        exact e
    · by_cases h2 : x = n
      · simp [h2] at e
        exact e.symm
      · simp only [h1, h2, if_false] at e
        have : n ∈ xs := by
          rcases List.mem_cons.1 h with e | e
          · exact absurd e.symm h2
          · exact e
        exact ih this (by omega)

/-! ### 4. A fold whose steps each touch one key -/

theorem foldl_keyed {S X K V : Type} [DecidableEq K] (step : S → X → S) (key : X → K) (get : S → V)
    (k : K) (upd : V → X → V) (inv : S → Prop) (xs : List X)
    (hinv : ∀ s, ∀ x ∈ xs, inv s → inv (step s x))
    (hstep : ∀ s, ∀ x ∈ xs, inv s → get (step s x) = if key x = k then upd (get s) x else get s)
    (hnd : (xs.map key).Nodup) (s : S) (hs : inv s) :
    inv (xs.foldl step s) ∧
    get (xs.foldl step s) = match xs.find? (fun x => key x = k) with
      | none => get s
      | some x => upd (get s) x := by
  induction xs generalizing s with
  | nil => exact ⟨hs, rfl⟩
  | cons x xs ih =>
    have hn : key x ∉ xs.map key ∧ (xs.map key).Nodup := List.nodup_cons.1 hnd
    have hx : x ∈ x :: xs := by simp
    obtain ⟨i1, i2⟩ := ih (fun s y hy => hinv s y (by simp [hy])) (fun s y hy => hstep s y (by simp [hy]))
      hn.2 (step s x) (hinv s x hx hs)
    refine ⟨i1, ?_⟩
    simp only [List.foldl_cons, i2, List.find?_cons, hstep s x hx hs]
    by_cases e : key x = k
    · have : xs.find? (fun x => decide (key x = k)) = none := by
        apply List.find?_eq_none.2
        intro y hy
        simp only [decide_eq_true_eq]
        intro e2
        exact hn.1 (List.mem_map.2 ⟨y, hy, by rw [e2, e]⟩)
      simp [e, this]
    · simp [e]

end Zap
