/-
  Lemmas for ZapModel.Theory.Lock (part 1): lockset discipline excludes overlapping
  conflicting accesses in every interleaving.
-/
import ZapModel.Theory.Lock

namespace Zap.Theory.Lock

/-- thread `i` holds `m` exclusively / shared in state `s` -/
def hw (s : State) (m : Mutex) (i : Nat) : Bool := (s.lk m).w == some i
def hr (s : State) (m : Mutex) (i : Nat) : Bool := (s.lk m).r.contains i

structure Inv (x : Loc) (m : Mutex) (s : State) : Prop where
  disc : ∀ i, disciplined x m (hw s m i) (hr s m i) (s.thr i).rest = true
  table : (s.lk m).w ≠ none → (s.lk m).r = []

theorem inv_init (x : Loc) (m : Mutex) (progs : Nat → List Ev)
    (h : ∀ i, disciplined x m false false (progs i) = true) : Inv x m (init progs) where
  disc := by intro i; simpa [init, hw, hr] using h i
  table := by intro h; simp [init] at h

@[simp] theorem setThr_same (f : Nat → Thread) (i : Nat) (t : Thread) : setThr f i t i = t := by
  simp [setThr]

theorem setThr_other (f : Nat → Thread) (i j : Nat) (t : Thread) (h : j ≠ i) :
    setThr f i t j = f j := by simp [setThr, h]

@[simp] theorem setLk_same (f : Mutex → LockSt) (m : Mutex) (l : LockSt) : setLk f m l m = l := by
  simp [setLk]

theorem setLk_other (f : Mutex → LockSt) (m m' : Mutex) (l : LockSt) (h : m' ≠ m) :
    setLk f m l m' = f m' := by simp [setLk, h]

/-- Re-establishing the invariant after thread `i` moved to `⟨r, b⟩` and the lock table
    changed to `lk'`: the other threads' view of `m` is unchanged, thread `i`'s remaining word is
    disciplined for its new view. -/
theorem inv_update (x : Loc) (m : Mutex) (s : State) (i : Nat) (lk' : Mutex → LockSt)
    (r : List Ev) (b : Bool) (hI : Inv x m s)
    (hother : ∀ j, j ≠ i →
      ((lk' m).w == some j) = hw s m j ∧ (lk' m).r.contains j = hr s m j)
    (hself : disciplined x m ((lk' m).w == some i) ((lk' m).r.contains i) r = true)
    (htable : (lk' m).w ≠ none → (lk' m).r = []) :
    Inv x m { lk := lk', thr := setThr s.thr i ⟨r, b⟩ } where
  disc := by
    intro j
    by_cases hj : j = i
    · subst hj; simpa [hw, hr] using hself
    · simp only [hw, hr, setThr_other _ _ _ _ hj]
      rw [(hother j hj).1, (hother j hj).2]
      exact hI.disc j
  table := htable

theorem inv_step (x : Loc) (m : Mutex) (s : State) (i : Nat) (hI : Inv x m s) :
    Inv x m (step s i) := by
  have hd := hI.disc i
  generalize hrest : (s.thr i).rest = rest at hd
  cases rest with
  | nil => simp only [step, hrest]; exact hI
  | cons e r =>
    cases e with
    | lock m' =>
      simp only [step, hrest]
      split
      next hc =>
        by_cases hm : m' = m
        · subst hm
          simp only [disciplined, if_true, Bool.and_eq_true, Bool.not_eq_true'] at hd
          apply inv_update x m' s i _ r false hI
          · intro j hj
            have hji : ¬ (i = j) := fun h => hj h.symm
            simp [hw, hr, hc.1, hji]
          · simpa [hr] using hd.2
          · intro _; simpa using hc.2
        · have hm' : m ≠ m' := fun h => hm h.symm
          simp only [disciplined, hm, if_false] at hd
          apply inv_update x m s i _ r false hI
          · intro j _; simp [hw, hr, setLk_other _ _ _ _ hm']
          · simpa [hw, hr, setLk_other _ _ _ _ hm'] using hd
          · simpa [setLk_other _ _ _ _ hm'] using hI.table
      next => exact hI
    | unlock m' =>
      simp only [step, hrest]
      by_cases hm : m' = m
      · subst hm
        simp only [disciplined, if_true, Bool.and_eq_true] at hd
        have hwi : (s.lk m').w = some i := by simpa [hw] using hd.1
        simp only [hwi, if_true]
        apply inv_update x m' s i _ r false hI
        · intro j hj
          have hji : ¬ (i = j) := fun h => hj h.symm
          simp [hw, hr, hwi, hji]
        · simpa [hr] using hd.2
        · intro h; simp at h
      · have hm' : m ≠ m' := fun h => hm h.symm
        simp only [disciplined, hm, if_false] at hd
        have hlk : (if (s.lk m').w = some i then setLk s.lk m' { s.lk m' with w := none }
            else s.lk) m = s.lk m := by
          split
          · exact setLk_other _ _ _ _ hm'
          · rfl
        apply inv_update x m s i _ r false hI
        · intro j _; simp [hw, hr, hlk]
        · simpa [hw, hr, hlk] using hd
        · simpa [hlk] using hI.table
    | rlock m' =>
      simp only [step, hrest]
      split
      next hc =>
        by_cases hm : m' = m
        · subst hm
          simp only [disciplined, if_true, Bool.and_eq_true, Bool.not_eq_true'] at hd
          apply inv_update x m' s i _ r false hI
          · intro j hj
            simp [hw, hr, hj]
          · have hwi : hw s m' i = false := hd.1.1
            have h2 := hd.2
            rw [hwi] at h2
            simpa [hc] using h2
          · intro h; simp [hc] at h
        · have hm' : m ≠ m' := fun h => hm h.symm
          simp only [disciplined, hm, if_false] at hd
          apply inv_update x m s i _ r false hI
          · intro j _; simp [hw, hr, setLk_other _ _ _ _ hm']
          · simpa [hw, hr, setLk_other _ _ _ _ hm'] using hd
          · simpa [setLk_other _ _ _ _ hm'] using hI.table
      next => exact hI
    | runlock m' =>
      simp only [step, hrest]
      by_cases hm : m' = m
      · subst hm
        simp only [disciplined, if_true, Bool.and_eq_true] at hd
        apply inv_update x m' s i _ r false hI
        · intro j hj
          simp [hw, hr, hj]
        · simpa [hw] using hd.2
        · intro h
          have := hI.table (by simpa using h)
          simp [this]
      · have hm' : m ≠ m' := fun h => hm h.symm
        simp only [disciplined, hm, if_false] at hd
        apply inv_update x m s i _ r false hI
        · intro j _; simp [hw, hr, setLk_other _ _ _ _ hm']
        · simpa [hw, hr, setLk_other _ _ _ _ hm'] using hd
        · simpa [setLk_other _ _ _ _ hm'] using hI.table
    | read x' =>
      simp only [step, hrest]
      split
      · apply inv_update x m s i s.lk r false hI
        · intro j _; simp [hw, hr]
        · simp only [disciplined, Bool.and_eq_true] at hd; exact hd.2
        · exact hI.table
      · apply inv_update x m s i s.lk _ true hI
        · intro j _; simp [hw, hr]
        · exact hd
        · exact hI.table
    | write x' =>
      simp only [step, hrest]
      split
      · apply inv_update x m s i s.lk r false hI
        · intro j _; simp [hw, hr]
        · simp only [disciplined, Bool.and_eq_true] at hd; exact hd.2
        · exact hI.table
      · apply inv_update x m s i s.lk _ true hI
        · intro j _; simp [hw, hr]
        · exact hd
        · exact hI.table

theorem inv_exec (x : Loc) (m : Mutex) (s : State) (sched : List Nat) (hI : Inv x m s) :
    Inv x m (exec s sched) := by
  induction sched generalizing s with
  | nil => exact hI
  | cons i is ih => exact ih _ (inv_step x m s i hI)

theorem no_conflict_of_inv (x : Loc) (m : Mutex) (s : State) (hI : Inv x m s) :
    ¬ Conflict s x := by
  rintro ⟨i, j, hij, ⟨_, ri, hri⟩, hj⟩
  have hdi := hI.disc i
  rw [hri] at hdi
  simp only [disciplined, bne_self_eq_false, Bool.false_or, Bool.and_eq_true] at hdi
  have hwi : (s.lk m).w = some i := by simpa [hw] using hdi.1
  have hwj : hw s m j = true ∨ hr s m j = true := by
    rcases hj with ⟨_, rj, hrj⟩ | ⟨_, rj, hrj⟩
    · have hdj := hI.disc j
      rw [hrj] at hdj
      simp only [disciplined, bne_self_eq_false, Bool.false_or, Bool.and_eq_true] at hdj
      exact Or.inl hdj.1
    · have hdj := hI.disc j
      rw [hrj] at hdj
      simp only [disciplined, bne_self_eq_false, Bool.false_or, Bool.and_eq_true,
        Bool.or_eq_true] at hdj
      exact hdj.1
  rcases hwj with h | h
  · have : (s.lk m).w = some j := by simpa [hw] using h
    rw [hwi] at this
    exact hij (Option.some.inj this)
  · have hr0 := hI.table (by rw [hwi]; simp)
    simp [hr, hr0] at h

/-- GENERIC THEOREM (lockset exclusion): any number of threads, each running a word that is
    `disciplined` for location `x` and mutex `m` (every write of `x` under `m`, every read of `x`
    under `m` or `m.R`): in EVERY interleaving, no reachable state has a write to `x` overlapping
    another access to `x`. -/
theorem lockset_excludes (x : Loc) (m : Mutex) (progs : Nat → List Ev)
    (hdisc : ∀ i, disciplined x m false false (progs i) = true) (sched : List Nat) :
    ¬ Conflict (exec (init progs) sched) x :=
  no_conflict_of_inv x m _ (inv_exec x m _ sched (inv_init x m progs hdisc))

theorem disciplined_append (x : Loc) (m : Mutex) (hw hr : Bool) (a b : List Ev) :
    disciplined x m hw hr (a ++ b)
      = (disciplined x m hw hr a
         && disciplined x m (endState m hw hr a).1 (endState m hw hr a).2 b) := by
  induction a generalizing hw hr with
  | nil => simp [disciplined, endState]
  | cons e a ih =>
    cases e with
    | lock m' =>
      by_cases hm : m' = m <;> simp [disciplined, endState, hm, ih, Bool.and_assoc]
    | unlock m' =>
      by_cases hm : m' = m <;> simp [disciplined, endState, hm, ih, Bool.and_assoc]
    | rlock m' =>
      by_cases hm : m' = m <;> simp [disciplined, endState, hm, ih, Bool.and_assoc]
    | runlock m' =>
      by_cases hm : m' = m <;> simp [disciplined, endState, hm, ih, Bool.and_assoc]
    | read x' => simp [disciplined, endState, ih, Bool.and_assoc]
    | write x' => simp [disciplined, endState, ih, Bool.and_assoc]

/-- A sequence of calls, each fine on its own, is a disciplined word. -/
theorem disciplined_flatten (x : Loc) (m : Mutex) (calls : List (List Ev))
    (h : ∀ w ∈ calls, callOK x m w = true) :
    disciplined x m false false calls.flatten = true := by
  induction calls with
  | nil => simp [disciplined]
  | cons w ws ih =>
    have hw := h w List.mem_cons_self
    simp only [callOK, Bool.and_eq_true, beq_iff_eq] at hw
    rw [List.flatten_cons, disciplined_append, hw.1, hw.2]
    simpa using ih (fun w' hw' => h w' (List.mem_cons_of_mem _ hw'))

end Zap.Theory.Lock
