/-
  ZapProofs.PostingLemmas: helper lemmas for property C07 (postings iteration).

  The model (`ZapModel.Posting`) is a state machine over "remaining suffix"
  cursors.  The proof is a simulation: an invariant `Inv` relates the iterator
  state to a suffix `rem` of the entry list; `It.step` returns the first kept
  entry of `rem` at/after the target and re-establishes `Inv` on the suffix
  after that entry.
-/
import ZapModel.Spec

namespace Zap
open Zap.Spec

/-! ## Ascending lists -/

theorem ascNat_cons {a : Nat} {l : List Nat} :
    AscNat (a :: l) ↔ (∀ b ∈ l, a < b) ∧ AscNat l := by
  induction l generalizing a with
  | nil => simp [AscNat]
  | cons b l ih =>
    simp only [AscNat, List.mem_cons, forall_eq_or_imp]
    rw [ih]
    constructor
    · rintro ⟨hab, hb, hl⟩
      exact ⟨⟨hab, fun c hc => Nat.lt_trans hab (hb c hc)⟩, hb, hl⟩
    · rintro ⟨⟨hab, _⟩, hb, hl⟩
      exact ⟨hab, hb, hl⟩

theorem ascNat_iff_pairwise {l : List Nat} : AscNat l ↔ l.Pairwise (· < ·) := by
  induction l with
  | nil => simp [AscNat]
  | cons a l ih => rw [ascNat_cons, List.pairwise_cons, ih]

/-- Entries strictly ascending by document number. -/
def Asc (es : List Entry) : Prop := es.Pairwise (fun a b => a.doc < b.doc)

theorem asc_of_ascNat {es : List Entry} (h : AscNat (es.map (·.doc))) : Asc es := by
  rw [ascNat_iff_pairwise, List.pairwise_map] at h
  exact h

/-! ## Chunk arithmetic -/

theorem chunkOf_mono (cs : Nat) {a b : Nat} (h : a ≤ b) : chunkOf cs a ≤ chunkOf cs b :=
  Nat.div_le_div_right h

/-- The test `allN >= nChunk * chunkSize` of the catch-up loop decides "same chunk". -/
theorem reach_iff {cs a n : Nat} (hcs : 0 < cs) (h : a ≤ n) :
    (chunkOf cs n * cs ≤ a) ↔ chunkOf cs a = chunkOf cs n := by
  unfold chunkOf
  constructor
  · intro h1
    apply Nat.le_antisymm (Nat.div_le_div_right h)
    exact (Nat.le_div_iff_mul_le hcs).2 h1
  · intro h1
    rw [← h1]
    exact Nat.div_mul_le_self a cs

theorem chunkEntries_cons (e : Entry) (es : List Entry) (cs c : Nat) :
    chunkEntries (e :: es) cs c
      = if chunkOf cs e.doc = c then e :: chunkEntries es cs c else chunkEntries es cs c := by
  unfold chunkEntries
  by_cases h : chunkOf cs e.doc = c <;> simp [h]

theorem chunkEntries_append (a b : List Entry) (cs c : Nat) :
    chunkEntries (a ++ b) cs c = chunkEntries a cs c ++ chunkEntries b cs c := by
  simp [chunkEntries]

theorem chunkEntries_eq_nil {a : List Entry} {cs c : Nat}
    (h : ∀ x ∈ a, chunkOf cs x.doc ≠ c) : chunkEntries a cs c = [] := by
  simp only [chunkEntries, List.filter_eq_nil_iff]
  intro x hx
  simpa using h x hx

/-! ## Splitting a filtered list at the first element at/after a target -/

theorem dropWhile_filter_split (keep : Entry → Bool) (t : Nat) :
    ∀ (rem : List Entry) (e : Entry) (lv' : List Entry),
      (rem.filter keep).dropWhile (fun x => decide (x.doc < t)) = e :: lv' →
      ∃ sk rem', rem = sk ++ e :: rem' ∧ lv' = rem'.filter keep ∧ keep e = true ∧ t ≤ e.doc ∧
        (∀ x ∈ sk, keep x = true → x.doc < t) := by
  intro rem
  induction rem with
  | nil => intro e lv' h; simp at h
  | cons x r ih =>
    intro e lv' h
    by_cases hk : keep x = true
    · rw [List.filter_cons_of_pos hk] at h
      by_cases hx : x.doc < t
      · rw [List.dropWhile_cons_of_pos (by simpa using hx)] at h
        obtain ⟨sk, rem', h1, h2, h3, h4, h5⟩ := ih e lv' h
        refine ⟨x :: sk, rem', by simp [h1], h2, h3, h4, ?_⟩
        intro y hy hky
        rcases List.mem_cons.1 hy with rfl | hy
        · exact hx
        · exact h5 y hy hky
      · rw [List.dropWhile_cons_of_neg (by simpa using hx)] at h
        injection h with h1 h2
        subst h1
        exact ⟨[], r, rfl, h2.symm, hk, Nat.le_of_not_lt hx, by simp⟩
    · rw [List.filter_cons_of_neg hk] at h
      obtain ⟨sk, rem', h1, h2, h3, h4, h5⟩ := ih e lv' h
      refine ⟨x :: sk, rem', by simp [h1], h2, h3, h4, ?_⟩
      intro y hy hky
      rcases List.mem_cons.1 hy with rfl | hy
      · exact absurd hky hk
      · exact h5 y hy hky

/-! ## The two chunk readers, abstractly -/

/-- Consume one entry in the freq/norm reader and, if it has locations, its
    block in the location reader (`skipFreqNormReadHasLocs` + `SkipBytes`). -/
def It.pop (i : It) : It :=
  match i.fn with
  | [] => i
  | e :: rest =>
    let i := { i with fn := rest }
    if i.incLocs ∧ !e.locs.isEmpty then { i with loc := i.loc.drop 1 } else i

theorem currChunkNext_eq (i : It) (c : Nat) : i.currChunkNext c = (i.ensureChunk c).pop := rfl

/-- Everything except the reader position is unchanged. -/
structure Frame (i j : It) : Prop where
  pl : j.pl = i.pl
  incFN : j.incFN = i.incFN
  incLocs : j.incLocs = i.incLocs
  isOneHit : j.isOneHit = i.isOneHit
  hasActual : j.hasActual = i.hasActual
  clean : j.clean = i.clean
  all : j.all = i.all
  actual : j.actual = i.actual

theorem Frame.refl (i : It) : Frame i i := ⟨rfl, rfl, rfl, rfl, rfl, rfl, rfl, rfl⟩

theorem Frame.trans {i j k : It} (a : Frame i j) (b : Frame j k) : Frame i k :=
  ⟨b.pl.trans a.pl, b.incFN.trans a.incFN, b.incLocs.trans a.incLocs, b.isOneHit.trans a.isOneHit,
   b.hasActual.trans a.hasActual, b.clean.trans a.clean, b.all.trans a.all, b.actual.trans a.actual⟩

theorem ensureChunk_frame (i : It) (c : Nat) : Frame i (i.ensureChunk c) := by
  unfold It.ensureChunk It.loadChunk
  split <;> exact ⟨rfl, rfl, rfl, rfl, rfl, rfl, rfl, rfl⟩

theorem pop_frame (i : It) : Frame i i.pop := by
  unfold It.pop
  split
  · exact Frame.refl i
  · dsimp only
    split <;> exact ⟨rfl, rfl, rfl, rfl, rfl, rfl, rfl, rfl⟩

theorem currChunkNext_frame (i : It) (c : Nat) : Frame i (i.currChunkNext c) := by
  rw [currChunkNext_eq]
  exact (ensureChunk_frame i c).trans (pop_frame _)

/-- The readers are positioned in chunk `c` exactly at the entries of `rem`. -/
structure Pos (p : PList) (i : It) (rem : List Entry) (c : Nat) : Prop where
  cur : i.currChunk = c
  loaded : i.loaded = true
  fn : i.fn = chunkEntries rem p.chunkSize c
  loc : i.incLocs = true →
    i.loc = (chunkEntries rem p.chunkSize c).filter (fun e => !e.locs.isEmpty)

/-- Loading chunk `c` if necessary positions the readers at `rem`. -/
def Ready (p : PList) (i : It) (rem : List Entry) (c : Nat) : Prop :=
  i.incFN = true → Pos p (i.ensureChunk c) rem c

theorem ensureChunk_of_pos {p : PList} {i : It} {rem : List Entry} {c : Nat}
    (h : Pos p i rem c) : i.ensureChunk c = i := by
  unfold It.ensureChunk
  simp [h.cur, h.loaded]

theorem pos_pop {p : PList} {i : It} {e : Entry} {rem : List Entry} {c : Nat}
    (h : Pos p i (e :: rem) c) (he : chunkOf p.chunkSize e.doc = c) : Pos p i.pop rem c := by
  have hfn := h.fn
  rw [chunkEntries_cons, if_pos he] at hfn
  have hloc := h.loc
  rw [chunkEntries_cons, if_pos he] at hloc
  unfold It.pop
  rw [hfn]
  dsimp only
  by_cases hl : i.incLocs = true ∧ (!e.locs.isEmpty) = true
  · rw [if_pos hl]
    refine ⟨h.cur, h.loaded, rfl, ?_⟩
    intro _
    show i.loc.drop 1 = _
    rw [hloc hl.1, List.filter_cons_of_pos (by simpa using hl.2)]
    rfl
  · rw [if_neg hl]
    refine ⟨h.cur, h.loaded, rfl, ?_⟩
    intro hi
    show i.loc = _
    rw [hloc hi, List.filter_cons_of_neg]
    intro hne
    exact hl ⟨hi, hne⟩

theorem ready_of_pos {p : PList} {i : It} {rem : List Entry} {c : Nat}
    (h : i.incFN = true → Pos p i rem c) : Ready p i rem c := by
  intro hf
  rw [ensureChunk_of_pos (h hf)]
  exact h hf

theorem ready_skip_same {p : PList} {i : It} {e : Entry} {rem : List Entry} {c : Nat}
    (h : Ready p i (e :: rem) c) (he : chunkOf p.chunkSize e.doc = c) :
    Ready p (i.currChunkNext c) rem c := by
  apply ready_of_pos
  intro hf
  rw [(currChunkNext_frame i c).incFN] at hf
  rw [currChunkNext_eq]
  exact pos_pop (h hf) he

theorem ready_skip_other {p : PList} {i : It} {e : Entry} {rem : List Entry} {c : Nat}
    (h : Ready p i (e :: rem) c) (he : chunkOf p.chunkSize e.doc ≠ c) : Ready p i rem c := by
  intro hf
  have := h hf
  constructor
  · exact this.cur
  · exact this.loaded
  · rw [this.fn, chunkEntries_cons, if_neg he]
  · intro hl
    rw [this.loc hl, chunkEntries_cons, if_neg he]

/-- `Ready` only looks at the reader part of the state. -/
theorem ready_congr {p : PList} {i j : It} {rem : List Entry} {c : Nat}
    (h1 : j.incFN = i.incFN) (h2 : j.incLocs = i.incLocs) (h3 : j.currChunk = i.currChunk)
    (h4 : j.loaded = i.loaded) (h5 : j.fn = i.fn) (h6 : j.loc = i.loc) (h7 : j.pl = i.pl)
    (h : Ready p i rem c) : Ready p j rem c := by
  intro hf
  have hp := h (h1 ▸ hf)
  unfold It.ensureChunk It.loadChunk at hp ⊢
  rw [h3, h4, h7, h1, h2, h5, h6]
  split
  · rename_i hc
    rw [if_pos hc] at hp
    exact ⟨hp.cur, hp.loaded, hp.fn, hp.loc⟩
  · rename_i hc
    rw [if_neg hc] at hp
    exact ⟨h3 ▸ hp.cur, h4 ▸ hp.loaded, h5 ▸ hp.fn, fun hl => h6 ▸ hp.loc (h2 ▸ hl)⟩

theorem load_ready {p : PList} {i : It} {P R : List Entry} {c : Nat}
    (hpl : i.pl = p) (hes : p.entries = P ++ R)
    (hP : ∀ x ∈ P, chunkOf p.chunkSize x.doc ≠ c)
    (hR : ∃ e ∈ R, chunkOf p.chunkSize e.doc = c)
    (hne : i.currChunk ≠ c ∨ i.loaded = false) : Ready p i R c := by
  intro hf
  have hcond : i.currChunk ≠ c ∨ (!i.loaded) = true := by simpa using hne
  unfold It.ensureChunk
  rw [if_pos hcond]
  unfold It.loadChunk
  rw [hpl, hes, chunkEntries_append, chunkEntries_eq_nil hP, List.nil_append]
  refine ⟨rfl, ?_, ?_, ?_⟩
  · obtain ⟨e, he, hc⟩ := hR
    have : e ∈ chunkEntries R p.chunkSize c := by
      simp [chunkEntries, he, hc]
    show (!(chunkEntries R p.chunkSize c).isEmpty) = true
    cases hce : chunkEntries R p.chunkSize c with
    | nil => rw [hce] at this; cases this
    | cons _ _ => rfl
  · show (if i.incFN = true then _ else _) = _
    rw [if_pos hf]
  · intro hl
    have hl' : i.incLocs = true := hl
    show (if i.incLocs = true then _ else _) = _
    rw [if_pos hl']

theorem iterN_skip {p : PList} (c : Nat) : ∀ (sk : List Entry) (i : It) (R : List Entry),
    Ready p i (sk ++ R) c →
    Ready p (iterN (fun j => j.currChunkNext c) (chunkEntries sk p.chunkSize c).length i) R c ∧
    Frame i (iterN (fun j => j.currChunkNext c) (chunkEntries sk p.chunkSize c).length i) := by
  intro sk
  induction sk with
  | nil => intro i R h; exact ⟨h, Frame.refl i⟩
  | cons x sk ih =>
    intro i R h
    rw [chunkEntries_cons]
    by_cases hx : chunkOf p.chunkSize x.doc = c
    · rw [if_pos hx]
      show Ready p (iterN _ _ (i.currChunkNext c)) R c ∧ Frame i (iterN _ _ (i.currChunkNext c))
      have h' : Ready p (i.currChunkNext c) (sk ++ R) c := ready_skip_same h hx
      obtain ⟨h1, h2⟩ := ih (i.currChunkNext c) R h'
      exact ⟨h1, (currChunkNext_frame i c).trans h2⟩
    · rw [if_neg hx]
      exact ih i R (ready_skip_other h hx)

/-! ## The skip loop of the clean path -/

theorem cleanLoop_spec (cs t : Nat) : ∀ (r : List Entry) (cur : Entry) (pre : List Entry),
    Asc (pre ++ cur :: r) → (∀ x ∈ pre, x.doc < t) →
    ∃ sk e r', pre ++ cur :: r = sk ++ e :: r' ∧ (∀ x ∈ sk, x.doc < t) ∧ (t ≤ e.doc ∨ r' = []) ∧
      cleanLoop cs t cur.doc (chunkOf cs cur.doc)
          (chunkEntries pre cs (chunkOf cs cur.doc)).length (r.map (·.doc))
        = (e.doc, chunkOf cs e.doc, (chunkEntries sk cs (chunkOf cs e.doc)).length,
           r'.map (·.doc)) := by
  intro r
  induction r with
  | nil =>
    intro cur pre _ hpre
    exact ⟨pre, cur, [], rfl, hpre, Or.inr rfl, by simp [cleanLoop]⟩
  | cons m r2 ih =>
    intro cur pre hasc hpre
    by_cases hlt : cur.doc < t
    · have hasc' : Asc ((pre ++ [cur]) ++ m :: r2) := by simpa using hasc
      have hpre' : ∀ x ∈ pre ++ [cur], x.doc < t := by
        intro x hx
        rcases List.mem_append.1 hx with hx | hx
        · exact hpre x hx
        · simp at hx; subst hx; exact hlt
      obtain ⟨sk, e, r', h1, h2, h3, h4⟩ := ih m (pre ++ [cur]) hasc' hpre'
      refine ⟨sk, e, r', by simpa using h1, h2, h3, ?_⟩
      rw [← h4]
      simp only [List.map_cons, cleanLoop, if_pos hlt]
      congr 1
      -- the `sameChunkNexts` counter
      have hA := hasc
      unfold Asc at hA
      rw [List.pairwise_append] at hA
      obtain ⟨_, hcur, hpc⟩ := hA
      rw [List.pairwise_cons] at hcur
      have hcm : cur.doc < m.doc := hcur.1 m (by simp)
      by_cases hc : chunkOf cs m.doc = chunkOf cs cur.doc
      · rw [if_neg (by simpa using hc), chunkEntries_append, hc]
        simp [chunkEntries]
      · rw [if_pos hc]
        have : chunkEntries (pre ++ [cur]) cs (chunkOf cs m.doc) = [] := by
          apply chunkEntries_eq_nil
          intro x hx
          have hxle : x.doc ≤ cur.doc := by
            rcases List.mem_append.1 hx with hx | hx
            · exact Nat.le_of_lt (hpc x hx cur (by simp))
            · simp at hx; subst hx; exact Nat.le_refl _
          have h1 := chunkOf_mono cs hxle
          have h2 := chunkOf_mono cs (Nat.le_of_lt hcm)
          omega
        rw [this]
        rfl
    · refine ⟨pre, cur, m :: r2, rfl, hpre, Or.inl (Nat.le_of_not_lt hlt), ?_⟩
      simp only [List.map_cons, cleanLoop, if_neg hlt]

/-! ## The catch-up loop of the filtered path -/

theorem frame_setAll {i j : It} (a : List Nat) (h : Frame i j) :
    Frame { i with all := a } { j with all := a } :=
  ⟨h.pl, h.incFN, h.incLocs, h.isOneHit, h.hasActual, h.clean, rfl, h.actual⟩

theorem catchUp_spec {p : PList} (hcs : 0 < p.chunkSize) (e : Entry) (rem' : List Entry) :
    ∀ (sk : List Entry) (cur : Entry) (L : List Entry) (i : It),
      cur :: L = sk ++ e :: rem' →
      (∀ x ∈ sk, x.doc < e.doc) →
      Ready p i (sk ++ e :: rem') (chunkOf p.chunkSize e.doc) →
      ∃ i', It.catchUp i e.doc (chunkOf p.chunkSize e.doc)
              (chunkOf p.chunkSize e.doc * p.chunkSize) cur.doc (L.map (·.doc)) = some i' ∧
        Frame { i with all := rem'.map (·.doc) } i' ∧
        Ready p i' (e :: rem') (chunkOf p.chunkSize e.doc) := by
  intro sk
  induction sk with
  | nil =>
    intro cur L i hsplit _ hr
    simp only [List.nil_append, List.cons.injEq] at hsplit
    obtain ⟨rfl, rfl⟩ := hsplit
    refine ⟨{ i with all := L.map (·.doc) }, ?_, Frame.refl _, ?_⟩
    · rw [It.catchUp, if_pos rfl]
    · have hr' : Ready p i (cur :: L) (chunkOf p.chunkSize cur.doc) := hr
      exact ready_congr (i := i) rfl rfl rfl rfl rfl rfl rfl hr'
  | cons x sk ih =>
    intro cur L i hsplit hlt hr
    simp only [List.cons_append, List.cons.injEq] at hsplit
    obtain ⟨rfl, rfl⟩ := hsplit
    have hx : cur.doc < e.doc := hlt cur (by simp)
    have hne : cur.doc ≠ e.doc := Nat.ne_of_lt hx
    rw [It.catchUp, if_neg hne]
    -- the state after the conditional `currChunkNext`
    generalize hi2 : (if i.incFN = true ∧ cur.doc ≥ chunkOf p.chunkSize e.doc * p.chunkSize
        then i.currChunkNext (chunkOf p.chunkSize e.doc) else i) = i2
    have hfr : Frame i i2 := by
      rw [← hi2]; split
      · exact currChunkNext_frame _ _
      · exact Frame.refl _
    have hr2 : Ready p i2 (sk ++ e :: rem') (chunkOf p.chunkSize e.doc) := by
      rw [← hi2]
      by_cases hreach : chunkOf p.chunkSize e.doc * p.chunkSize ≤ cur.doc
      · have hsame := (reach_iff hcs (Nat.le_of_lt hx)).1 hreach
        by_cases hf : i.incFN = true
        · rw [if_pos ⟨hf, hreach⟩]
          exact ready_skip_same hr hsame
        · rw [if_neg (fun h => hf h.1)]
          intro hf'; exact absurd hf' hf
      · rw [if_neg (fun h => hreach h.2)]
        have hother : chunkOf p.chunkSize cur.doc ≠ chunkOf p.chunkSize e.doc :=
          fun h => hreach ((reach_iff hcs (Nat.le_of_lt hx)).2 h)
        exact ready_skip_other hr hother
    cases hL : sk ++ e :: rem' with
    | nil => simp at hL
    | cons a L' =>
      simp only [List.map_cons]
      obtain ⟨i', h1, h2, h3⟩ := ih a L' i2 hL.symm (fun y hy => hlt y (by simp [hy])) hr2
      exact ⟨i', h1, (frame_setAll _ hfr).trans h2, h3⟩

/-! ## `dropWhile` helpers -/

theorem dropWhile_map_doc (t : Nat) (l : List Entry) :
    (l.map (·.doc)).dropWhile (fun d => decide (d < t))
      = (l.dropWhile (fun x => decide (x.doc < t))).map (·.doc) := by
  induction l with
  | nil => rfl
  | cons x l ih =>
    by_cases hx : x.doc < t
    · rw [List.map_cons, List.dropWhile_cons_of_pos (by simpa using hx),
        List.dropWhile_cons_of_pos (by simpa using hx), ih]
    · rw [List.map_cons, List.dropWhile_cons_of_neg (by simpa using hx),
        List.dropWhile_cons_of_neg (by simpa using hx), List.map_cons]

theorem dropWhile_all {α : Type} (q : α → Bool) :
    ∀ (l : List α), (∀ x ∈ l, q x = true) → l.dropWhile q = [] := by
  intro l
  induction l with
  | nil => intro _; rfl
  | cons x l ih =>
    intro h
    rw [List.dropWhile_cons_of_pos (h x (by simp))]
    exact ih (fun y hy => h y (by simp [hy]))

theorem dropWhile_append_lt {t : Nat} {sk : List Entry} {e : Entry} {r : List Entry}
    (hsk : ∀ x ∈ sk, x.doc < t) (he : t ≤ e.doc) :
    (sk ++ e :: r).dropWhile (fun x => decide (x.doc < t)) = e :: r := by
  induction sk with
  | nil => exact List.dropWhile_cons_of_neg (by simpa using he)
  | cons x sk ih =>
    rw [List.cons_append, List.dropWhile_cons_of_pos (by simpa using hsk x (by simp))]
    exact ih (fun y hy => hsk y (by simp [hy]))

/-! ## The simulation invariant (general representation) -/

/-- `rem` is the not-yet-visited suffix of the entry list; `keep` selects the
    entries that are in the actual bitmap. -/
structure Inv (p : PList) (f n l : Bool) (keep : Entry → Bool) (i : It) (rem : List Entry) :
    Prop where
  pl : i.pl = p
  incFN : i.incFN = (f || n || l)
  incLocs : i.incLocs = l
  notOne : i.isOneHit = false
  hasA : i.hasActual = true
  rep : p.rep.isNone = false
  asc : Asc p.entries
  cs : 0 < p.chunkSize
  suffix : ∃ pre, p.entries = pre ++ rem
  all : i.all = rem.map (·.doc)
  actual : i.actual = (rem.filter keep).map (·.doc)
  clean : i.clean = true → ∀ e, keep e = true
  ready : ∀ e ∈ rem, Ready p i rem (chunkOf p.chunkSize e.doc)

/-- The state between `nextDocNumAtOrAfter` and the reads of `nextAtOrAfter`:
    the readers sit exactly at entry `e`. -/
structure Mid (p : PList) (f n l : Bool) (keep : Entry → Bool) (i : It) (e : Entry)
    (rem : List Entry) : Prop where
  pl : i.pl = p
  incFN : i.incFN = (f || n || l)
  incLocs : i.incLocs = l
  notOne : i.isOneHit = false
  hasA : i.hasActual = true
  rep : p.rep.isNone = false
  asc : Asc p.entries
  cs : 0 < p.chunkSize
  suffix : ∃ pre, p.entries = pre ++ e :: rem
  all : i.all = rem.map (·.doc)
  actual : i.actual = (rem.filter keep).map (·.doc)
  clean : i.clean = true → ∀ e, keep e = true
  pos : i.incFN = true → Pos p i (e :: rem) (chunkOf p.chunkSize e.doc)

/-- Terminal states: every further call answers nil. -/
def Done (i : It) : Prop := i.isOneHit = false ∧ i.actual = []

theorem nextDoc_done {i : It} (h : Done i) (t : Nat) : i.nextDoc t = (i, none) := by
  unfold It.nextDoc
  simp [h.1, h.2]

theorem mid_of_frame {p : PList} {f n l : Bool} {keep : Entry → Bool} {i i' : It}
    {rem rem' : List Entry} {e : Entry} (h : Inv p f n l keep i rem) (A B : List Nat)
    (hfr : Frame { i with all := A, actual := B } i')
    (hA : A = rem'.map (·.doc)) (hB : B = (rem'.filter keep).map (·.doc))
    (hsuf : ∃ pre, p.entries = pre ++ e :: rem')
    (hpos : i'.incFN = true → Pos p i' (e :: rem') (chunkOf p.chunkSize e.doc)) :
    Mid p f n l keep i' e rem' :=
  { pl := hfr.pl.trans h.pl
    incFN := hfr.incFN.trans h.incFN
    incLocs := hfr.incLocs.trans h.incLocs
    notOne := hfr.isOneHit.trans h.notOne
    hasA := hfr.hasActual.trans h.hasA
    rep := h.rep
    asc := h.asc
    cs := h.cs
    suffix := hsuf
    all := hfr.all.trans hA
    actual := hfr.actual.trans hB
    clean := fun hc => h.clean (hfr.clean ▸ hc)
    pos := hpos }

theorem asc_suffix {pre rem : List Entry} (h : Asc (pre ++ rem)) : Asc rem := by
  unfold Asc at h ⊢
  exact (List.pairwise_append.1 h).2.1

theorem asc_split_lt {sk : List Entry} {e : Entry} {r : List Entry} (h : Asc (sk ++ e :: r)) :
    ∀ x ∈ sk, x.doc < e.doc := by
  unfold Asc at h
  intro x hx
  exact (List.pairwise_append.1 h).2.2 x hx e (by simp)

theorem suffix_split {es pre sk : List Entry} {e : Entry} {r : List Entry}
    (h : es = pre ++ (sk ++ e :: r)) : ∃ pre', es = pre' ++ e :: r :=
  ⟨pre ++ sk, by rw [h, List.append_assoc]⟩

theorem nextDoc_some {p : PList} {f n l : Bool} {keep : Entry → Bool} {i : It}
    {rem : List Entry} (h : Inv p f n l keep i rem) (t : Nat) {e : Entry} {lv' : List Entry}
    (hd : (rem.filter keep).dropWhile (fun x => decide (x.doc < t)) = e :: lv') :
    ∃ rem', lv' = rem'.filter keep ∧
      ∃ i', i.nextDoc t = (i', some e.doc) ∧ Mid p f n l keep i' e rem' := by
  have hact : i.actual.dropWhile (fun d => decide (d < t)) = e.doc :: lv'.map (·.doc) := by
    rw [h.actual, dropWhile_map_doc, hd]; rfl
  have hne : i.actual ≠ [] := by
    intro h0; rw [h0] at hact; simp at hact
  obtain ⟨pre, hpre⟩ := h.suffix
  have hascr : Asc rem := asc_suffix (hpre ▸ h.asc)
  unfold It.nextDoc
  rw [if_neg (by simp [h.notOne]), if_neg (by simp [h.hasA, hne]), if_neg (by simp [h.pl, h.rep])]
  by_cases hc : i.clean = true
  · rw [if_pos hc]
    have hkeep : ∀ l : List Entry, l.filter keep = l :=
      fun l => List.filter_eq_self.2 (fun x _ => h.clean hc x)
    rw [hkeep] at hd
    have hcsz : i.pl.chunkSize = p.chunkSize := by rw [h.pl]
    have hsplit : rem = rem.takeWhile (fun x => decide (x.doc < t)) ++ e :: lv' := by
      rw [← hd, List.takeWhile_append_dropWhile]
    have hsuf : ∃ pre', p.entries = pre' ++ e :: lv' := suffix_split (hsplit ▸ hpre)
    by_cases hf : i.incFN = true
    · rw [if_neg (by simp [hf])]
      cases hrem : rem with
      | nil => rw [hrem] at hd; simp at hd
      | cons e0 r0 =>
        rw [h.actual, hkeep, hrem]
        simp only [List.map_cons]
        have hasc0 : Asc ([] ++ e0 :: r0) := hrem ▸ hascr
        obtain ⟨sk, e', r', hsp, hsk, hor, hcl⟩ :=
          cleanLoop_spec p.chunkSize t r0 e0 [] hasc0 (by simp)
        have hcl' : cleanLoop p.chunkSize t e0.doc (chunkOf p.chunkSize e0.doc) 0
            (r0.map (·.doc)) = (e'.doc, chunkOf p.chunkSize e'.doc,
              (chunkEntries sk p.chunkSize (chunkOf p.chunkSize e'.doc)).length,
              r'.map (·.doc)) := hcl
        have hsp' : rem = sk ++ e' :: r' := by rw [hrem]; exact hsp
        have hee : e' :: r' = e :: lv' := by
          by_cases he' : t ≤ e'.doc
          · rw [← hd, hsp', dropWhile_append_lt hsk he']
          · exfalso
            have hr' : r' = [] := hor.resolve_left he'
            have : rem.dropWhile (fun x => decide (x.doc < t)) = [] := by
              apply dropWhile_all
              intro x hx
              rw [hsp', hr'] at hx
              rcases List.mem_append.1 hx with hx | hx
              · simpa using hsk x hx
              · simp at hx; subst hx; simpa using Nat.lt_of_not_le he'
            rw [this] at hd
            cases hd
        injection hee with h1 h2
        subst h1; subst h2
        have hte : t ≤ e'.doc := by
          rcases hor with h0 | h0
          · exact h0
          · apply Nat.le_of_not_lt
            intro hlt
            have : rem.dropWhile (fun x => decide (x.doc < t)) = [] := by
              apply dropWhile_all
              intro x hx
              rw [hsp', h0] at hx
              rcases List.mem_append.1 hx with hx | hx
              · simpa using hsk x hx
              · simp at hx; subst hx; simpa using hlt
            rw [this] at hd
            cases hd
        rw [hcsz, hcl']
        dsimp only
        rw [if_neg (Nat.not_lt.2 hte)]
        have hr0 : Ready p i (sk ++ e' :: r') (chunkOf p.chunkSize e'.doc) :=
          hsp' ▸ h.ready e' (by rw [hsp']; simp)
        have hr1 : Ready p { i with actual := r'.map (·.doc), all := r'.map (·.doc) }
            (sk ++ e' :: r') (chunkOf p.chunkSize e'.doc) :=
          ready_congr (i := i) rfl rfl rfl rfl rfl rfl rfl hr0
        obtain ⟨hr2, hfr2⟩ := iterN_skip (chunkOf p.chunkSize e'.doc) sk _ (e' :: r') hr1
        refine ⟨r', (hkeep r').symm, _, rfl, ?_⟩
        refine mid_of_frame h (r'.map (·.doc)) (r'.map (·.doc))
          (hfr2.trans (ensureChunk_frame _ _)) rfl (by rw [hkeep]) hsuf ?_
        intro hf'
        rw [(ensureChunk_frame _ _).incFN] at hf'
        exact hr2 hf'
    · rw [if_pos (by simpa using hf)]
      rw [hact]
      refine ⟨lv', (hkeep lv').symm, _, rfl, ?_⟩
      exact mid_of_frame h (lv'.map (·.doc)) (lv'.map (·.doc)) (Frame.refl _) rfl
        (by rw [hkeep]) hsuf (fun hf' => absurd hf' hf)
  · rw [if_neg hc]
    have hcsz : i.pl.chunkSize = p.chunkSize := by rw [h.pl]
    obtain ⟨sk, rem', hsp, hlv, _, _, _⟩ := dropWhile_filter_split keep t rem e lv' hd
    have hsuf : ∃ pre', p.entries = pre' ++ e :: rem' := suffix_split (hsp ▸ hpre)
    cases hL : sk ++ e :: rem' with
    | nil => simp at hL
    | cons cur L =>
      have hall : i.all = cur.doc :: L.map (·.doc) := by rw [h.all, hsp, hL]; rfl
      dsimp only
      rw [hact, hall]
      dsimp only
      rw [hcsz]
      have hr0 : Ready p i (sk ++ e :: rem') (chunkOf p.chunkSize e.doc) :=
        hsp ▸ h.ready e (by rw [hsp]; simp)
      have hr1 : Ready p { i with actual := lv'.map (·.doc), all := cur.doc :: L.map (·.doc) }
          (sk ++ e :: rem') (chunkOf p.chunkSize e.doc) :=
        ready_congr (i := i) rfl rfl rfl rfl rfl rfl rfl hr0
      obtain ⟨i', hcu, hfr, hr'⟩ :=
        catchUp_spec h.cs e rem' sk cur L _ hL.symm (asc_split_lt (hsp ▸ hascr)) hr1
      rw [hcu]
      dsimp only
      refine ⟨rem', hlv, _, rfl, ?_⟩
      by_cases hf : i'.incFN = true
      · rw [if_pos hf]
        refine mid_of_frame h (rem'.map (·.doc)) (lv'.map (·.doc))
          (hfr.trans (ensureChunk_frame _ _)) rfl (by rw [hlv]) hsuf ?_
        intro _
        exact hr' hf
      · rw [if_neg hf]
        exact mid_of_frame h (rem'.map (·.doc)) (lv'.map (·.doc)) hfr rfl (by rw [hlv]) hsuf
          (fun hf' => absurd hf' hf)

theorem all_of_dropWhile_nil {α : Type} (q : α → Bool) :
    ∀ (l : List α), l.dropWhile q = [] → ∀ x ∈ l, q x = true := by
  intro l
  induction l with
  | nil => intro _ x hx; cases hx
  | cons y l ih =>
    intro h x hx
    by_cases hy : q y = true
    · rw [List.dropWhile_cons_of_pos hy] at h
      rcases List.mem_cons.1 hx with rfl | hx
      · exact hy
      · exact ih h x hx
    · rw [List.dropWhile_cons_of_neg hy] at h
      cases h

theorem nextDoc_none {p : PList} {f n l : Bool} {keep : Entry → Bool} {i : It}
    {rem : List Entry} (h : Inv p f n l keep i rem) (t : Nat)
    (hd : (rem.filter keep).dropWhile (fun x => decide (x.doc < t)) = []) :
    ∃ i', i.nextDoc t = (i', none) ∧ Done i' := by
  have hact : i.actual.dropWhile (fun d => decide (d < t)) = [] := by
    rw [h.actual, dropWhile_map_doc, hd]; rfl
  by_cases hne : i.actual = []
  · exact ⟨i, nextDoc_done ⟨h.notOne, hne⟩ t, h.notOne, hne⟩
  obtain ⟨pre, hpre⟩ := h.suffix
  have hascr : Asc rem := asc_suffix (hpre ▸ h.asc)
  unfold It.nextDoc
  rw [if_neg (by simp [h.notOne]), if_neg (by simp [h.hasA, hne]), if_neg (by simp [h.pl, h.rep])]
  by_cases hc : i.clean = true
  · rw [if_pos hc]
    have hkeep : ∀ l : List Entry, l.filter keep = l :=
      fun l => List.filter_eq_self.2 (fun x _ => h.clean hc x)
    rw [hkeep] at hd
    have hcsz : i.pl.chunkSize = p.chunkSize := by rw [h.pl]
    by_cases hf : i.incFN = true
    · rw [if_neg (by simp [hf])]
      cases hrem : rem with
      | nil => rw [h.actual, hrem] at hne; exact absurd rfl hne
      | cons e0 r0 =>
        rw [h.actual, hkeep, hrem]
        simp only [List.map_cons]
        have hasc0 : Asc ([] ++ e0 :: r0) := hrem ▸ hascr
        obtain ⟨sk, e', r', hsp, hsk, hor, hcl⟩ :=
          cleanLoop_spec p.chunkSize t r0 e0 [] hasc0 (by simp)
        have hcl' : cleanLoop p.chunkSize t e0.doc (chunkOf p.chunkSize e0.doc) 0
            (r0.map (·.doc)) = (e'.doc, chunkOf p.chunkSize e'.doc,
              (chunkEntries sk p.chunkSize (chunkOf p.chunkSize e'.doc)).length,
              r'.map (·.doc)) := hcl
        have hsp' : rem = sk ++ e' :: r' := by rw [hrem]; exact hsp
        have hlt : e'.doc < t := by
          have := all_of_dropWhile_nil _ rem hd e' (by rw [hsp']; simp)
          simpa using this
        have hr' : r' = [] := hor.resolve_left (Nat.not_le.2 hlt)
        rw [hcsz, hcl']
        dsimp only
        rw [if_pos hlt, hr']
        exact ⟨_, rfl, h.notOne, rfl⟩
    · rw [if_pos (by simpa using hf), hact]
      exact ⟨_, rfl, h.notOne, rfl⟩
  · rw [if_neg hc]
    dsimp only
    rw [hact]
    exact ⟨_, rfl, h.notOne, rfl⟩

/-! ## Reading the entry under the readers -/

/-- The part of `nextAtOrAfter` after `nextDocNumAtOrAfter` succeeded. -/
def It.readHit (i : It) (d : Nat) : It × Option Hit :=
  if !i.incFN then (i, some { doc := d, freq := 0, norm := 0, locs := [] })
  else if i.isOneHit then
    let nb := match i.pl.rep with | some (.oneHit _ nb) => nb | _ => 0
    (i, some { doc := d, freq := 1, norm := nb, locs := [] })
  else
    match i.fn with
    | [] => (i, some { doc := d, freq := 0, norm := 0, locs := [] })
    | e :: rest =>
      let i := { i with fn := rest }
      if i.incLocs ∧ !e.locs.isEmpty then
        match i.loc with
        | [] => (i, some { doc := d, freq := e.freq, norm := e.norm, locs := [] })
        | le :: lrest =>
          ({ i with loc := lrest }, some { doc := d, freq := e.freq, norm := e.norm,
                                           locs := le.locs.map (resolveMLoc i.pl.names) })
      else (i, some { doc := d, freq := e.freq, norm := e.norm, locs := [] })

theorem step_eq (i : It) (op : Op) :
    i.step op = match i.nextDoc (target op) with
      | (i', none) => (i', none)
      | (i', some d) => i'.readHit d := by
  cases op <;> rfl

theorem asc_chunk_ne {p : PList} {pre : List Entry} {e : Entry} {rem : List Entry}
    (hasc : Asc (pre ++ e :: rem)) {e2 : Entry} (he2 : e2 ∈ rem)
    (hne : chunkOf p.chunkSize e.doc ≠ chunkOf p.chunkSize e2.doc) :
    ∀ x ∈ pre ++ [e], chunkOf p.chunkSize x.doc ≠ chunkOf p.chunkSize e2.doc := by
  unfold Asc at hasc
  rw [List.pairwise_append, List.pairwise_cons] at hasc
  obtain ⟨_, ⟨he, _⟩, hpe⟩ := hasc
  have h2 : e.doc < e2.doc := he e2 he2
  intro x hx
  have hxle : x.doc ≤ e.doc := by
    rcases List.mem_append.1 hx with hx | hx
    · exact Nat.le_of_lt (hpe x hx e (by simp))
    · simp at hx; subst hx; exact Nat.le_refl _
  have h3 := chunkOf_mono p.chunkSize hxle
  have h4 := chunkOf_mono p.chunkSize (Nat.le_of_lt h2)
  omega

theorem inv_of_mid_pop {p : PList} {f n l : Bool} {keep : Entry → Bool} {i j : It} {e : Entry}
    {rem : List Entry} (h : Mid p f n l keep i e rem) (hfr : Frame i j)
    (hpos : j.incFN = true → Pos p j rem (chunkOf p.chunkSize e.doc)) :
    Inv p f n l keep j rem := by
  obtain ⟨pre, hpre⟩ := h.suffix
  have hpre' : p.entries = (pre ++ [e]) ++ rem := by rw [hpre]; simp
  exact
  { pl := hfr.pl.trans h.pl
    incFN := hfr.incFN.trans h.incFN
    incLocs := hfr.incLocs.trans h.incLocs
    notOne := hfr.isOneHit.trans h.notOne
    hasA := hfr.hasActual.trans h.hasA
    rep := h.rep
    asc := h.asc
    cs := h.cs
    suffix := ⟨pre ++ [e], hpre'⟩
    all := hfr.all.trans h.all
    actual := hfr.actual.trans h.actual
    clean := fun hc => h.clean (hfr.clean ▸ hc)
    ready := by
      intro e2 he2
      by_cases hc : chunkOf p.chunkSize e.doc = chunkOf p.chunkSize e2.doc
      · apply ready_of_pos
        intro hf
        exact hc ▸ hpos hf
      · intro hf
        have hcur : j.currChunk = chunkOf p.chunkSize e.doc := (hpos hf).cur
        exact load_ready (hfr.pl.trans h.pl) hpre' (asc_chunk_ne (hpre ▸ h.asc) he2 hc)
          ⟨e2, he2, rfl⟩ (Or.inl (hcur ▸ hc)) hf }

theorem readHit_mid {p : PList} {f n l : Bool} {keep : Entry → Bool} {i : It} {e : Entry}
    {rem : List Entry} (h : Mid p f n l keep i e rem) :
    ∃ j, i.readHit e.doc = (j, some (mkHit p f n l e)) ∧ Inv p f n l keep j rem := by
  by_cases hf : i.incFN = true
  · have hpos := h.pos hf
    have hfn := hpos.fn
    rw [chunkEntries_cons, if_pos rfl] at hfn
    have hfl : (f || n || l) = true := h.incFN ▸ hf
    refine ⟨i.pop, ?_, inv_of_mid_pop h (pop_frame i) (fun _ => pos_pop hpos rfl)⟩
    unfold It.readHit It.pop mkHit
    rw [if_neg (by simp [hf]), if_neg (by simp [h.notOne]), if_pos hfl, hfn]
    dsimp only
    by_cases hl : i.incLocs = true ∧ (!e.locs.isEmpty) = true
    · have hloc := hpos.loc hl.1
      rw [chunkEntries_cons, if_pos rfl, List.filter_cons_of_pos (by simpa using hl.2)] at hloc
      rw [if_pos hl, if_pos hl, hloc]
      dsimp only
      rw [h.pl, if_pos (h.incLocs ▸ hl.1)]
      rfl
    · rw [if_neg hl, if_neg hl]
      by_cases hl' : l = true
      · have : e.locs = [] := by
          have h1 : i.incLocs = true := h.incLocs ▸ hl'
          have h2 : ¬ (!e.locs.isEmpty) = true := fun h2 => hl ⟨h1, h2⟩
          simpa using h2
        rw [if_pos hl', this]
        rfl
      · rw [if_neg hl']
  · have hfl : ¬ (f || n || l) = true := h.incFN ▸ hf
    refine ⟨i, ?_, inv_of_mid_pop h (Frame.refl i) (fun hf' => absurd hf' hf)⟩
    unfold It.readHit mkHit
    rw [if_pos (by simpa using hf), if_neg hfl]

/-! ## The simulation relation and one `Next`/`Advance` call -/

/-- `Sim p f n l i lv`: iterator state `i` will still return exactly the hits `lv`. -/
inductive Sim (p : PList) (f n l : Bool) : It → List Entry → Prop
  | done {i : It} : Done i → Sim p f n l i []
  | gen {i : It} {keep : Entry → Bool} {rem : List Entry} :
      Inv p f n l keep i rem → Sim p f n l i (rem.filter keep)
  | one {i : It} {d nb : Nat} : i.isOneHit = true → i.pl = p → p.rep = some (.oneHit d nb) →
      i.incFN = (f || n || l) → i.oneHit = some d →
      Sim p f n l i [{ doc := d, freq := 1, norm := nb, locs := [] }]
  | oneDone {i : It} : i.isOneHit = true → i.oneHit = none → Sim p f n l i []

theorem step_sim_nil {p : PList} {f n l : Bool} {i : It} {lv : List Entry}
    (h : Sim p f n l i lv) (op : Op)
    (hd : lv.dropWhile (fun e => decide (e.doc < target op)) = []) :
    ∃ i', i.step op = (i', none) ∧ Sim p f n l i' [] := by
  rw [step_eq]
  cases h with
  | done hdone =>
    rw [nextDoc_done hdone]
    exact ⟨i, rfl, Sim.done hdone⟩
  | gen hinv =>
    obtain ⟨i', h1, h2⟩ := nextDoc_none hinv (target op) hd
    rw [h1]
    exact ⟨i', rfl, Sim.done h2⟩
  | @one d nb h1 h2 h3 h4 h5 =>
    have hlt : d < target op := by
      by_cases hlt : d < target op
      · exact hlt
      · rw [List.dropWhile_cons_of_neg (by simpa using hlt)] at hd
        cases hd
    unfold It.nextDoc
    rw [if_pos h1, h5]
    dsimp only
    rw [if_pos hlt]
    exact ⟨_, rfl, Sim.oneDone h1 rfl⟩
  | oneDone h1 h2 =>
    unfold It.nextDoc
    rw [if_pos h1, h2]
    exact ⟨_, rfl, Sim.oneDone h1 h2⟩

theorem step_sim_cons {p : PList} {f n l : Bool} {i : It} {lv : List Entry}
    (h : Sim p f n l i lv) (op : Op) {e : Entry} {lv' : List Entry}
    (hd : lv.dropWhile (fun e => decide (e.doc < target op)) = e :: lv') :
    ∃ i', i.step op = (i', some (mkHit p f n l e)) ∧ Sim p f n l i' lv' := by
  rw [step_eq]
  cases h with
  | done hdone => cases hd
  | gen hinv =>
    obtain ⟨rem', h1, i', h2, h3⟩ := nextDoc_some hinv (target op) hd
    obtain ⟨j, h4, h5⟩ := readHit_mid h3
    rw [h2]
    dsimp only
    rw [h4, h1]
    exact ⟨j, rfl, Sim.gen h5⟩
  | @one d nb h1 h2 h3 h4 h5 =>
    have hlt : ¬ d < target op := by
      intro hlt
      rw [List.dropWhile_cons_of_pos (by simpa using hlt)] at hd
      cases hd
    rw [List.dropWhile_cons_of_neg (by simpa using hlt)] at hd
    injection hd with hd1 hd2
    subst hd1; subst hd2
    unfold It.nextDoc
    rw [if_pos h1, h5]
    dsimp only
    rw [if_neg hlt]
    dsimp only
    refine ⟨{ i with oneHit := none }, ?_, Sim.oneDone (i := { i with oneHit := none }) h1 rfl⟩
    unfold It.readHit mkHit
    dsimp only
    by_cases hf : i.incFN = true
    · rw [if_neg (by simp [hf]), if_pos h1, h2, h3, if_pos (h4 ▸ hf)]
      cases l <;> rfl
    · rw [if_pos (by simpa using hf), if_neg (h4 ▸ hf)]
  | oneDone h1 h2 => cases hd

theorem run_sim {p : PList} {f n l : Bool} (ops : List Op) :
    ∀ (i : It) (lv : List Entry), Sim p f n l i lv →
      i.run ops = Spec.run (mkHit p f n l) lv ops := by
  induction ops with
  | nil => intro i lv _; cases lv <;> rfl
  | cons op ops ih =>
    intro i lv h
    unfold It.run Spec.run
    cases hd : lv.dropWhile (fun e => decide (e.doc < target op)) with
    | nil =>
      obtain ⟨i', h1, h2⟩ := step_sim_nil h op hd
      rw [h1]
      dsimp only
      rw [ih i' [] h2]
    | cons e lv' =>
      obtain ⟨i', h1, h2⟩ := step_sim_cons h op hd
      rw [h1]
      dsimp only
      rw [ih i' lv' h2]

/-! ## Initial states -/

theorem entries_general {p : PList} {es : List Entry} (hrep : p.rep = some (.general es)) :
    p.entries = es := by
  unfold PList.entries; rw [hrep]

theorem create_general {p : PList} {es : List Entry} (hrep : p.rep = some (.general es))
    (f n l : Bool) :
    It.create p f n l =
      { pl := p, incFN := f || n || l, incLocs := l, oneHit := none, isOneHit := false,
        all := es.map (·.doc),
        actual := (es.map (·.doc)).filter (fun d => !excluded p.except d),
        clean := p.except.isNone, hasActual := true,
        currChunk := 0, loaded := false, fn := [], loc := [] } := by
  unfold It.create; rw [hrep]

/-- Any replacement of the actual cursor of a fresh iterator by the documents
    selected by `keep` satisfies the invariant. -/
theorem inv_init {p : PList} {es : List Entry} (hrep : p.rep = some (.general es))
    (hasc : Asc es) (hcs : 0 < p.chunkSize) (f n l : Bool) (keep : Entry → Bool)
    (cl : Bool) (hcl : cl = true → ∀ e, keep e = true) :
    Inv p f n l keep
      { pl := p, incFN := f || n || l, incLocs := l, oneHit := none, isOneHit := false,
        all := es.map (·.doc), actual := (es.filter keep).map (·.doc),
        clean := cl, hasActual := true,
        currChunk := 0, loaded := false, fn := [], loc := [] } es :=
  { pl := rfl, incFN := rfl, incLocs := rfl, notOne := rfl, hasA := rfl
    rep := by rw [hrep]; rfl
    asc := by rw [entries_general hrep]; exact hasc
    cs := hcs
    suffix := ⟨[], by rw [entries_general hrep]; rfl⟩
    all := rfl
    actual := rfl
    clean := hcl
    ready := by
      intro e he
      exact load_ready (P := []) rfl (by rw [entries_general hrep]; rfl) (by simp)
        ⟨e, he, rfl⟩ (Or.inr rfl) }

theorem filter_map_doc (q : Nat → Bool) (es : List Entry) :
    (es.map (·.doc)).filter q = (es.filter (fun e => q e.doc)).map (·.doc) := by
  induction es with
  | nil => rfl
  | cons x es ih =>
    by_cases hx : q x.doc = true
    · rw [List.map_cons, List.filter_cons_of_pos hx, List.filter_cons_of_pos (by simpa using hx),
        List.map_cons, ih]
    · rw [List.map_cons, List.filter_cons_of_neg hx, List.filter_cons_of_neg (by simpa using hx),
        ih]

theorem sim_create (p : PList) (hasc : Asc p.entries)
    (hcs : ∀ es, p.rep = some (.general es) → 0 < p.chunkSize) (f n l : Bool) :
    Sim p f n l (It.create p f n l) (Spec.live p) := by
  cases hrep : p.rep with
  | none =>
    have hl : Spec.live p = [] := by unfold Spec.live; rw [hrep]
    rw [hl]
    apply Sim.done
    unfold It.create; rw [hrep]
    exact ⟨rfl, rfl⟩
  | some r =>
    cases r with
    | general es =>
      have hl : Spec.live p = es.filter (fun e => !excluded p.except e.doc) := by
        unfold Spec.live; rw [hrep]; rfl
      rw [hl, create_general hrep, filter_map_doc]
      apply Sim.gen
      apply inv_init hrep (entries_general hrep ▸ hasc) (hcs es hrep)
      intro hc e
      cases hex : p.except with
      | none => rfl
      | some _ => rw [hex] at hc; cases hc
    | oneHit d nb =>
      by_cases hex : excluded p.except d = true
      · have hl : Spec.live p = [] := by
          unfold Spec.live; rw [hrep]
          simp [PostRep.entries, hex]
        rw [hl]
        apply Sim.oneDone
        · unfold It.create; rw [hrep]
        · unfold It.create; rw [hrep]
          dsimp only
          rw [if_pos hex]
      · have hl : Spec.live p = [{ doc := d, freq := 1, norm := nb, locs := [] }] := by
          unfold Spec.live; rw [hrep]
          simp [PostRep.entries, hex]
        rw [hl]
        apply Sim.one (d := d) (nb := nb)
        · unfold It.create; rw [hrep]
        · unfold It.create; rw [hrep]
        · exact hrep
        · unfold It.create; rw [hrep]
        · unfold It.create; rw [hrep]
          dsimp only
          rw [if_neg hex]

/-! ## Replacing the actual bitmap by a subset -/

theorem filter_contains_of_sublist : ∀ (L A : List Nat), L.Pairwise (· < ·) → A.Sublist L →
    L.filter (fun d => A.contains d) = A := by
  intro L
  induction L with
  | nil => intro A _ h; cases h; rfl
  | cons a L ih =>
    intro A hp h
    rw [List.pairwise_cons] at hp
    have hnotin : a ∉ L := fun hm => Nat.lt_irrefl a (hp.1 a hm)
    cases h with
    | cons _ h' =>
      have : a ∉ A := fun hm => hnotin (h'.subset hm)
      rw [List.filter_cons_of_neg (by simpa using this)]
      exact ih A hp.2 h'
    | @cons_cons A' _ _ h' =>
      rw [List.filter_cons_of_pos (by simp)]
      congr 1
      refine Eq.trans (List.filter_congr ?_) (ih A' hp.2 h')
      intro x hx
      have hxa : x ≠ a := fun h0 => hnotin (h0 ▸ hx)
      have hb : (x == a) = false := by simpa using hxa
      show (a :: A').contains x = A'.contains x
      rw [List.contains_cons, hb, Bool.false_or]

theorem sim_replace {p : PList} {es : List Entry} (hrep : p.rep = some (.general es))
    (hasc : Asc es) (hcs : 0 < p.chunkSize) (f n l : Bool) (A : List Nat)
    (hA : A.Sublist ((Spec.live p).map (·.doc))) :
    Sim p f n l ((It.create p f n l).replaceActual A)
      ((Spec.live p).filter (fun e => A.contains e.doc)) := by
  have hl : Spec.live p = es.filter (fun e => !excluded p.except e.doc) := by
    unfold Spec.live; rw [hrep]; rfl
  have hpw : ((Spec.live p).map (·.doc)).Pairwise (· < ·) := by
    rw [List.pairwise_map, hl]
    exact List.Pairwise.sublist List.filter_sublist hasc
  have hAeq : (((Spec.live p).filter (fun e => A.contains e.doc)).map (·.doc)) = A := by
    rw [← filter_map_doc (fun d => A.contains d)]
    exact filter_contains_of_sublist _ A hpw hA
  have hlv : (Spec.live p).filter (fun e => A.contains e.doc)
      = es.filter (fun e => A.contains e.doc && !excluded p.except e.doc) := by
    rw [hl, List.filter_filter]
  have hinv := inv_init hrep hasc hcs f n l
    (fun e => A.contains e.doc && !excluded p.except e.doc) false (by intro h; cases h)
  rw [← hlv, hAeq] at hinv
  rw [hlv, create_general hrep]
  exact Sim.gen hinv

theorem length_sub_filter {α : Type} (q : α → Bool) (l : List α) :
    l.length - (l.filter q).length = (l.filter (fun x => !q x)).length := by
  induction l with
  | nil => rfl
  | cons x l ih =>
    have := List.length_filter_le q l
    by_cases hx : q x = true
    · rw [List.filter_cons_of_pos hx, List.filter_cons_of_neg (by simp [hx])]
      simp only [List.length_cons]; omega
    · rw [List.filter_cons_of_neg hx, List.filter_cons_of_pos (by simpa using hx)]
      simp only [List.length_cons]; omega

end Zap
