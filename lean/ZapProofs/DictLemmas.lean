/-
  ZapProofs.DictLemmas: helper lemmas for C08 (dictionary enumeration) and the
  1-hit FST value codec (posting.go FSTValEncode1Hit / FSTValDecode1Hit).
-/
import ZapModel.Merge

namespace Zap.DictL

/-! ### 1-hit codec: kernel-only bit reasoning -/

theorem and_mask31 (x : Nat) : Gen.mask31Bits &&& x = x % 2 ^ 31 := by
  have h : Gen.mask31Bits = 2 ^ 31 - 1 := by decide
  rw [h, Nat.and_comm, Nat.and_two_pow_sub_one_eq_mod]

/-- The encoded 1-hit value as a sum (disjoint bit ranges). -/
theorem encode1Hit_eq (doc norm : Nat) :
    Gen.FSTValEncode1Hit doc norm = 2 ^ 63 + (norm % 2 ^ 31) * 2 ^ 31 + doc % 2 ^ 31 := by
  unfold Gen.FSTValEncode1Hit
  rw [and_mask31, and_mask31]
  have hb : norm % 2 ^ 31 < 2 ^ 31 := Nat.mod_lt _ (by decide)
  have ha : doc % 2 ^ 31 < 2 ^ 31 := Nat.mod_lt _ (by decide)
  generalize norm % 2 ^ 31 = b at hb
  generalize doc % 2 ^ 31 = a at ha
  have h1 : (b <<< 31) % Gen.u64 = b <<< 31 := by
    apply Nat.mod_eq_of_lt
    rw [Nat.shiftLeft_eq]
    have : Gen.u64 = 2 ^ 64 := by decide
    omega
  rw [h1]
  have h63 : Gen.FSTValEncoding1Hit = 2 ^ 63 := by decide
  rw [h63]
  have h2 : 2 ^ 63 ||| b <<< 31 = 2 ^ 63 + b <<< 31 := by
    have hlt : b <<< 31 < 2 ^ 63 := by rw [Nat.shiftLeft_eq]; omega
    have := Nat.two_pow_add_eq_or_of_lt hlt 1
    rw [Nat.mul_one] at this
    exact this.symm
  rw [h2]
  have h3 : 2 ^ 63 + b <<< 31 = (2 ^ 32 + b) <<< 31 := by
    rw [Nat.shiftLeft_eq, Nat.shiftLeft_eq]; omega
  rw [h3, ← Nat.shiftLeft_add_eq_or_of_lt ha, Nat.shiftLeft_eq]
  omega

/-- Decoding an encoded 1-hit value gives back the low 31 bits of both parts. -/
theorem decode_encode_1hit (doc norm : Nat) :
    Gen.FSTValDecode1Hit (Gen.FSTValEncode1Hit doc norm) = (doc % 2 ^ 31, norm % 2 ^ 31) := by
  unfold Gen.FSTValDecode1Hit
  rw [and_mask31, and_mask31, encode1Hit_eq, Nat.shiftRight_eq_div_pow]
  have hb : norm % 2 ^ 31 < 2 ^ 31 := Nat.mod_lt _ (by decide)
  have ha : doc % 2 ^ 31 < 2 ^ 31 := Nat.mod_lt _ (by decide)
  generalize norm % 2 ^ 31 = b at hb
  generalize doc % 2 ^ 31 = a at ha
  congr 1 <;> omega

theorem decode_encode_1hit_of_lt {doc norm : Nat} (hd : doc < 2 ^ 31) (hn : norm < 2 ^ 31) :
    Gen.FSTValDecode1Hit (Gen.FSTValEncode1Hit doc norm) = (doc, norm) := by
  rw [decode_encode_1hit, Nat.mod_eq_of_lt hd, Nat.mod_eq_of_lt hn]

theorem under32Bits_iff (x : Nat) : Gen.under32Bits x = true ↔ x < 2 ^ 31 := by
  unfold Gen.under32Bits
  have : Gen.mask31Bits = 2 ^ 31 - 1 := by decide
  simp only [decide_eq_true_eq, this]
  omega

/-! ### Scratch list: one `read` followed by `Count` -/

end Zap.DictL

namespace Zap

/-- 1-hit entries always carry non-zero norm bits: `PostingsList.Count` tests
    `normBits1Hit != 0` to recognise a 1-hit list, so a 1-hit with norm bits 0
    would be taken for a general list. -/
def RepWF : PostRep → Prop
  | .oneHit _ n => n ≠ 0
  | .general _ => True

instance : DecidablePred RepWF := fun r => by
  cases r <;> unfold RepWF <;> infer_instance

end Zap

namespace Zap.DictL

/-- With the fixed `read` (1-hit fields cleared on the general path) the count
    reported after reading any well-formed entry is its true cardinality,
    whatever the scratch list held before. -/
theorem count_read_true (sc : Scratch) (r : PostRep) (h : RepWF r) :
    (sc.read true r).count = r.docs.length := by
  cases r with
  | general es => simp [Scratch.read, Scratch.count, PostRep.docs]
  | oneHit d n =>
    have : n ≠ 0 := h
    simp [Scratch.read, Scratch.count, PostRep.docs, this]

/-! ### What the merge writes: `chooseRep` only picks the 1-hit form for a
     single location-free entry of frequency 1 whose doc fits in 31 bits -/

theorem last_of_last_mem {α : Type} {parts : List (List α)} {l : α}
    (h : (parts.getLast?.getD []).getLast? = some l) : l ∈ parts.flatMap id := by
  cases hp : parts.getLast? with
  | none => rw [hp] at h; simp at h
  | some p =>
    rw [hp] at h
    simp only [Option.getD_some] at h
    exact List.mem_flatMap.2 ⟨p, List.mem_of_getLast? hp, List.mem_of_getLast? h⟩

/-- Inversion of `chooseRep` on a 1-hit result. -/
theorem chooseRep_oneHit_inv {parts : List (List Entry)} {d nb : Nat}
    (h : chooseRep parts = some (.oneHit d nb)) :
    ∃ e, parts.flatMap id = [e] ∧ e.locs = [] ∧ e.doc < 2 ^ 31 ∧ e.freq = 1 ∧
      d = e.doc ∧ nb = e.norm ∧ nb ≠ 0 ∧ nb < 2 ^ 31 := by
  simp only [chooseRep] at h
  generalize hes : parts.flatMap id = es at h
  match es, hes with
  | [], _ => simp at h
  | _ :: _ :: _, _ => simp at h
  | [e], hes =>
    simp only at h
    cases hl : (parts.getLast?.getD []).getLast? with
    | none =>
      simp only [hl] at h
      split at h
      · rename_i hc; simp at hc
      · simp at h
    | some l =>
      simp only [hl] at h
      have hmem := last_of_last_mem hl
      rw [hes] at hmem
      have hle : l = e := by simpa using hmem
      subst hle
      split at h
      · rename_i hc
        obtain ⟨h1, h2, _, h4, h5, h6⟩ := hc
        have h2' := (under32Bits_iff _).1 h2
        have h6' := (under32Bits_iff _).1 h6
        rw [decode_encode_1hit] at h
        simp only [Option.some.injEq, PostRep.oneHit.injEq] at h
        have hnb : nb = l.norm := by rw [← h.2, Nat.mod_eq_of_lt h6']
        refine ⟨l, rfl, by simpa using h1, h2', h4, ?_, hnb, by rw [hnb]; exact h5, by rw [hnb]; exact h6'⟩
        rw [← h.1, Nat.mod_eq_of_lt h2']
      · simp at h

end Zap.DictL
