/-
  ZapProofs.WriterLemmasLayoutDefs: the part of `Layout.decPostings` that follows the
  record header and the bitmap lookup, composed from Layout's OWN functions
  (`readChunks`, `walkChunks`, `decFreq`, `decLocs`).  `decPostings` itself cannot be
  used in statements: it fetches the bitmap from a `Std.HashMap` keyed by strings (the
  oracle), and its last loop is inline; the loop is replicated here as `zipItems`.
  The adjacency checks of `decPostings` (streams back to back, F7) are kept.
-/
import ZapModel.Layout
import ZapModel.Writer

namespace Zap.Writer.LayoutDefs
open Zap Zap.Layout

/-- The last loop of `Layout.decPostings`. -/
def zipItems : List FreqItem → List (List MLoc) → R (List Entry)
  | [], _ => pure []
  | f :: fs, rest =>
    if f.hasLocs then
      match rest with
      | l :: r => do
        let tl ← zipItems fs r
        pure ({ doc := f.doc, freq := f.freq, norm := f.norm, locs := l } :: tl)
      | [] => throw s!"missing locations for doc {f.doc}"
    else do
      let tl ← zipItems fs rest
      pure ({ doc := f.doc, freq := f.freq, norm := f.norm, locs := [] } :: tl)

/-- `Layout.decPostings` from `let fch ← readChunks ...` on: the record is at `off`, the
    freq/norm stream at `fo`, the location stream at `lo` (0 = absent), the documents of
    the bitmap are `docs`, the chunk size is `cs`. -/
def layoutEntries (b : ByteArray) (cs : Nat) (docs : List Nat) (fo lo off : Nat) : R (List Entry) := do
  if fo = 0 then throw "freq/norm stream absent"
  let fch ← readChunks "freq/norm stream" b fo
  let fs ← walkChunks "freq/norm stream" fch cs docs (decFreq b)
  let locDocs := (fs.filter (·.hasLocs)).map (·.doc)
  let ls ←
    if lo = 0 then
      if !locDocs.isEmpty then throw "documents flagged hasLocs but no location stream"
      if fch.endAbs ≠ off then throw "freq/norm stream does not end at the record"
      pure []
    else do
      let lch ← readChunks "location stream" b lo
      if fch.endAbs ≠ lo then throw "freq/norm stream does not end at the location stream"
      if lch.endAbs ≠ off then throw "location stream does not end at the record"
      walkChunks "location stream" lch cs locDocs (decLocs b)
  zipItems fs ls

/-- Result equals `a` (errors carry strings, which never matter). -/
def isOk {α : Type} [DecidableEq α] (r : R α) (a : α) : Bool :=
  match r with
  | .ok x => x = a
  | .error _ => false

/-- A decoding context over the bytes `bs` without oracle blobs (stored documents and
    posting streams need none). -/
def ctxOf (bs : Bytes) (numDocs chunkMode : Nat) : Ctx :=
  { b := toBA bs, blobs := {}, numDocs := numDocs, chunkMode := chunkMode }

end Zap.Writer.LayoutDefs
