/-
  C08 / D1 link to the source: structural facts about `PostingsList.read` and
  `PostingsList.Count` (posting.go), extracted by tools/gofacts into
  `Gen.Facts.readGeneralAssigned` / `countReads` on every run.

  Modelled rather than verified: the lists say THAT a field is assigned on the
  general (non 1-hit) path of `read`, not TO WHAT (tools/README.md, item 3); that
  the assigned value is the reset value is established by the differential run
  and by `ZapProofs.Props.C08` (`dictIterate true ..`, whose `clears1Hit = true`
  is the meaning given to this fact).
-/
import ZapModel.Gen.Facts
import ZapModel.Theory.Str

namespace Zap.C08Facts
open Zap.Gen

/-- Fields that `Dictionary.postingsListInit` re-initialises itself before `read` is
    called (`*rv = PostingsList{}` followed by `rv.except = except`). -/
def initFields : List String := ["except"]

/-- Decidable side condition: both 1-hit fields are assigned on the general path, every
    field `Count` reads is re-initialised on the general path (by `read` or by
    `postingsListInit`), `Count` reads the fields the model's `count` depends on, and no
    entry is UNRECOGNISED. -/
def sideCondition (readGeneral countReads : List String) : Bool :=
  readGeneral.contains "normBits1Hit" && readGeneral.contains "docNum1Hit"
  && countReads.all (fun f => readGeneral.contains f || initFields.contains f)
  && ["normBits1Hit", "docNum1Hit", "postings"].all (countReads.contains ·)
  && Theory.allRecognised readGeneral && Theory.allRecognised countReads

theorem sideCondition_holds :
    sideCondition Facts.readGeneralAssigned Facts.countReads = true := by decide +kernel

/-- D1 link: the general path of `read` assigns both 1-hit fields. -/
theorem read_clears_1hit :
    "normBits1Hit" ∈ Facts.readGeneralAssigned ∧ "docNum1Hit" ∈ Facts.readGeneralAssigned := by
  decide +kernel

/-- Every field `Count` reads is re-initialised on the general path. -/
theorem count_reads_reinitialised :
    Facts.countReads ⊆ Facts.readGeneralAssigned ++ initFields := by
  decide +kernel

/-- The same for the 1-hit path (it returns early, having set both 1-hit fields; `postings`
    is not assigned there, which is why the model's `count` looks at `normBits1Hit` first). -/
theorem read_1hit_sets_1hit :
    "normBits1Hit" ∈ Facts.read1HitAssigned ∧ "docNum1Hit" ∈ Facts.read1HitAssigned := by
  decide +kernel

/-- The pre-fix tree (D1) is rejected: there the general path assigned neither 1-hit field. -/
example :
    sideCondition
      ["postingsOffset", "freqOffset", "locOffset", "bytesRead", "postings", "chunkSize"]
      ["docNum1Hit", "except", "normBits1Hit", "postings"] = false := by decide +kernel

/-- An extraction failure is rejected. -/
example :
    sideCondition Facts.readGeneralAssigned
      ["docNum1Hit", "except", "normBits1Hit", "postings", "UNRECOGNISED method call p.foo"]
      = false := by decide +kernel

end Zap.C08Facts

#print axioms Zap.C08Facts.sideCondition_holds
#print axioms Zap.C08Facts.read_clears_1hit
#print axioms Zap.C08Facts.count_reads_reinitialised
