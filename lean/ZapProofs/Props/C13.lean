/-
  C13: the synonym section of a merge.  The merged segment's `synonyms` are, as
  a set, exactly the inputs' pairs whose document survives, under the new
  numbering (`remapAll`, see C05); a term none of whose pairs survives is not a
  term of the result; a thesaurus present in only some inputs is present in the
  result; the result does not depend on the inputs' internal synonym ids; and
  the result's thesauri are well formed again (`Spec.ThesWF`), so merges can be
  iterated.

  Model: `mergeThes` (mirror of `mergeAndPersistSynonymSection`,
  section_synonym_index.go:555-789) inside `mergeSegs`.  Hypotheses: a non-zero
  survivor count (`newDocCount segs drops ≠ 0`; zero survivors is C05_zero) and
  every input thesaurus well formed (`Spec.SegThesWF`: true of built segments by
  `C12_wellformed`, and of merge results by `C13_closed`).  Of `ThesWF` the
  content theorems use only "terms strictly ascending by key" (what the k-way
  enumerator needs, see C06 `enumerate_spec`).

  The empty LHS term.  On the pinned tree `mergeAndPersistSynonymSection` tested
  `prevTerm != nil` to recognise "there is a previous term"; an EMPTY previous
  term is a nil slice after `prevTerm = append(prevTerm[:0], term...)`, so the
  empty LHS term was never finished and its pairs folded into the next term
  (finding D4).  That was a defect and is now fixed in /repo ("fix: synonym
  merge lost the empty left-hand term": a `seenTerm` flag replaces the nil
  test).  The model's `mergeThes` (and `enumerate`, which keeps the empty key in
  its first round) handles "" like any other key, `Spec.SynWF` does not exclude
  it, and the example below merges a thesaurus containing it.

  Property theorems only; lemmas are in ZapProofs/SynMergeLemmas.lean.
-/
import ZapProofs.SynMergeLemmas
import ZapProofs.Props.C12

namespace Zap
open SynL

/-- Exactly the surviving pairs under the new numbering: `p` is a synonym pair
    of (thesaurus `n`, `term`) in the result iff some input `i` has the pair
    `(p.1, d)`, document `d` of input `i` survives with new number `p.2`, and
    `p.2` is not excluded. -/
theorem C13_merged (vectors : Bool) (mode : Nat) (segs : List Seg) (drops : List (Option (List Nat)))
    (hne : newDocCount segs drops ≠ 0) (hwf : ∀ s ∈ segs, Spec.SegThesWF s)
    (n : Name) (term : Bytes) (ex : Option (List Nat)) :
    ∀ p, p ∈ (mergeSegs vectors mode segs drops).1.synonyms n term ex ↔
      ∃ i, ∃ hi : i < segs.length, ∃ d syn, (syn, d) ∈ segs[i].synonyms n term none ∧
        ((remapAll segs drops 0).getD i []).getD d none = some p.2 ∧ p.1 = syn ∧ excluded ex p.2 = false :=
  fun p => merged_synonyms_mem vectors mode segs drops hne n term ex
    (fun s hs t ht => (hwf s hs n t ht).sorted) p

/-- Closure under re-merge: every thesaurus of the result is well formed. -/
theorem C13_closed (vectors : Bool) (mode : Nat) (segs : List Seg) (drops : List (Option (List Nat)))
    (hne : newDocCount segs drops ≠ 0) (hwf : ∀ s ∈ segs, Spec.SegThesWF s) :
    Spec.SegThesWF (mergeSegs vectors mode segs drops).1 :=
  merged_thes_wf vectors mode segs drops hne (fun s hs nm t ht => (hwf s hs nm t ht).sorted)

/-- Each pair is listed once; terms are listed in ascending byte order. -/
theorem C13_nodup_sorted (vectors : Bool) (mode : Nat) (segs : List Seg) (drops : List (Option (List Nat)))
    (hne : newDocCount segs drops ≠ 0) (hwf : ∀ s ∈ segs, Spec.SegThesWF s)
    (n : Name) (term : Bytes) (ex : Option (List Nat)) :
    ((mergeSegs vectors mode segs drops).1.synonyms n term ex).Nodup ∧
    SortedLt ((mergeSegs vectors mode segs drops).1.thesTerms n) :=
  ⟨synonyms_nodup _ n term ex (fun t ht => C13_closed vectors mode segs drops hne hwf n t ht),
   thesTerms_sorted _ n (fun t ht => C13_closed vectors mode segs drops hne hwf n t ht)⟩

/-- The terms of the result are exactly those with a surviving pair; in
    particular a term with no surviving pair is not a term of the result. -/
theorem C13_terms_vanish (vectors : Bool) (mode : Nat) (segs : List Seg) (drops : List (Option (List Nat)))
    (hne : newDocCount segs drops ≠ 0) (hwf : ∀ s ∈ segs, Spec.SegThesWF s) (n : Name) (term : Bytes) :
    (term ∈ (mergeSegs vectors mode segs drops).1.thesTerms n ↔
      ∃ i, ∃ hi : i < segs.length, ∃ d syn nd, (syn, d) ∈ segs[i].synonyms n term none ∧
        ((remapAll segs drops 0).getD i []).getD d none = some nd) ∧
    ((∀ i (hi : i < segs.length) d syn, (syn, d) ∈ segs[i].synonyms n term none →
        ((remapAll segs drops 0).getD i []).getD d none = none) →
      term ∉ (mergeSegs vectors mode segs drops).1.thesTerms n) := by
  have hiff : term ∈ (mergeSegs vectors mode segs drops).1.thesTerms n ↔
      ∃ i, ∃ hi : i < segs.length, ∃ d syn nd, (syn, d) ∈ segs[i].synonyms n term none ∧
        ((remapAll segs drops 0).getD i []).getD d none = some nd := by
    rw [mem_thesTerms_iff_pair _ n term (fun t ht => C13_closed vectors mode segs drops hne hwf n t ht)]
    constructor
    · rintro ⟨q, hq⟩
      obtain ⟨i, hi, d, syn, h1, h2, _⟩ := (C13_merged vectors mode segs drops hne hwf n term none q).1 hq
      exact ⟨i, hi, d, syn, q.2, h1, h2⟩
    · rintro ⟨i, hi, d, syn, nd, h1, h2⟩
      exact ⟨(syn, nd), (C13_merged vectors mode segs drops hne hwf n term none (syn, nd)).2
        ⟨i, hi, d, syn, h1, h2, rfl, rfl⟩⟩
  refine ⟨hiff, fun hall hmem => ?_⟩
  obtain ⟨i, hi, d, syn, nd, h1, h2⟩ := hiff.1 hmem
  rw [hall i hi d syn h1] at h2
  cases h2

/-- A thesaurus is present in the result iff some input has it (so one present
    in only some inputs is preserved), and then every term with a surviving
    pair is a term of it. -/
theorem C13_thesaurus_preserved (vectors : Bool) (mode : Nat) (segs : List Seg)
    (drops : List (Option (List Nat))) (hne : newDocCount segs drops ≠ 0)
    (hwf : ∀ s ∈ segs, Spec.SegThesWF s) (n : Name) :
    (((mergeSegs vectors mode segs drops).1.thes? n).isSome = true ↔ ∃ s ∈ segs, (s.thes? n).isSome = true) ∧
    (∀ i (hi : i < segs.length) term d syn nd, (syn, d) ∈ segs[i].synonyms n term none →
        ((remapAll segs drops 0).getD i []).getD d none = some nd →
        term ∈ (mergeSegs vectors mode segs drops).1.thesTerms n ∧
        (syn, nd) ∈ (mergeSegs vectors mode segs drops).1.synonyms n term none) :=
  ⟨merged_thes?_isSome vectors mode segs drops hne n,
   fun i hi term d syn nd h1 h2 =>
    ⟨((C13_terms_vanish vectors mode segs drops hne hwf n term).1).2 ⟨i, hi, d, syn, nd, h1, h2⟩,
     (C13_merged vectors mode segs drops hne hwf n term none (syn, nd)).2 ⟨i, hi, d, syn, h1, h2, rfl, rfl⟩⟩⟩

/-- The result depends on the inputs only through their sizes and their
    `synonyms` as sets: two input lists that agree on these give the same
    merged `synonyms` (as sets). -/
theorem C13_observational (vectors : Bool) (mode : Nat) (segs segs' : List Seg)
    (drops : List (Option (List Nat)))
    (hnum : segs.map (·.numDocs) = segs'.map (·.numDocs))
    (hne : newDocCount segs drops ≠ 0)
    (hwf : ∀ s ∈ segs, Spec.SegThesWF s) (hwf' : ∀ s ∈ segs', Spec.SegThesWF s)
    (n : Name) (term : Bytes) (ex : Option (List Nat))
    (hsyn : ∀ i (hi : i < segs.length) (hi' : i < segs'.length) p,
      p ∈ segs[i].synonyms n term none ↔ p ∈ segs'[i].synonyms n term none) :
    ∀ q, q ∈ (mergeSegs vectors mode segs drops).1.synonyms n term ex ↔
      q ∈ (mergeSegs vectors mode segs' drops).1.synonyms n term ex :=
  fun q => merged_synonyms_congr vectors mode segs segs' drops hnum hne n term ex hsyn
    (fun s hs t ht => (hwf s hs n t ht).sorted) (fun s hs t ht => (hwf' s hs n t ht).sorted) q

/-- Independence of internal ids: rename the synonym ids of every input `i` and
    every thesaurus `nm` by an injective `f i nm` (table and codes consistently,
    `Spec.renameSegThes`); each renamed input is still well formed and exposes
    the same `synonyms`, and the merged `synonyms` are unchanged as sets.  In
    particular inputs that assign different ids to the same synonym term merge
    like inputs that agree. -/
theorem C13_id_independent (vectors : Bool) (mode : Nat) (segs : List Seg) (drops : List (Option (List Nat)))
    (hne : newDocCount segs drops ≠ 0) (hwf : ∀ s ∈ segs, Spec.SegThesWF s)
    (f : Nat → Name → Nat → Nat) (hinj : ∀ i nm a b, f i nm a = f i nm b → a = b)
    (n : Name) (term : Bytes) (ex : Option (List Nat)) :
    (∀ s ∈ renameAll f segs, Spec.SegThesWF s) ∧
    (∀ i (hi : i < segs.length) q,
      q ∈ (Spec.renameSegThes (f i) segs[i]).synonyms n term ex ↔ q ∈ segs[i].synonyms n term ex) ∧
    ∀ q, q ∈ (mergeSegs vectors mode (renameAll f segs) drops).1.synonyms n term ex ↔
      q ∈ (mergeSegs vectors mode segs drops).1.synonyms n term ex := by
  refine ⟨?_, fun i hi q => renameSegThes_synonyms (f i) (hinj i) segs[i] n term ex q,
    fun q => merged_rename_invariant vectors mode segs drops hne f hinj n term ex
      (fun s hs t ht => (hwf s hs n t ht).sorted) q⟩
  intro s hs
  obtain ⟨i, hi, rfl⟩ := List.mem_iff_getElem.1 hs
  have hi0 : i < segs.length := by rw [renameAll_length] at hi; exact hi
  rw [renameAll_get f segs i hi0]
  exact renameSegThes_wf (f i) (hinj i) (hwf _ (List.getElem_mem hi0))

/-! ### Examples: both sides computed on concrete data

Input 1 is the segment built from the batch of C12 (three documents; `th1` with
terms "", `x`, `y`; `th2` with term `x`).  Input 2 is built from a two-document
batch that defines `th1` only, lists the synonyms of `x` in another order (so it
assigns them other internal ids: `s ↦ 0, q ↦ 1` against `q ↦ 1, s ↦ 2`) and has
a term `w` of its own.  Document 2 of input 1 is deleted: the empty term of
`th1` (defined by that document only) vanishes, `th2` (input 1 only) is kept. -/

section Examples
open C12Example

private def batch2 : Batch :=
  [ { id := B "d", fields :=
        [ idf "d", { kind := .syn, name := th1, defs := [⟨B "x", [B "s", B "q"]⟩, ⟨B "w", [B "p"]⟩] } ] },
    { id := B "e", fields := [ idf "e", { kind := .syn, name := th1, defs := [⟨B "x", [B "q"]⟩] } ] } ]

private def s1 : Seg := buildSeg false 1024 batch
private def s2 : Seg := buildSeg false 1024 batch2
private def dr : List (Option (List Nat)) := [some [2]]

example : Spec.SynWF batch2 := by decide +kernel

/-- the inputs assign different internal ids to the same synonyms -/
example : (s1.thes? th1).map (·.table) = some [(0, B "p"), (1, B "q"), (2, B "s"), (3, B "z")]
    ∧ (s2.thes? th1).map (·.table) = some [(0, B "s"), (1, B "q"), (2, B "p")] := by decide +kernel

/-- hypotheses of the theorems -/
example : newDocCount [s1, s2] dr ≠ 0 := by decide +kernel
example : ∀ s ∈ [s1, s2], Spec.SegThesWF s := by
  intro s hs
  simp only [List.mem_cons, List.not_mem_nil, or_false] at hs
  rcases hs with rfl | rfl
  · exact C12_wellformed false 1024 batch (by simp [batch]) (by decide +kernel)
  · exact C12_wellformed false 1024 batch2 (by simp [batch2]) (by decide +kernel)
/-- … the same, computed, for the two thesaurus names -/
example : ∀ s ∈ [s1, s2], ∀ n ∈ [th1, th2], OptThesWF (s.thes? n) := by decide +kernel

example : remapAll [s1, s2] dr 0 = [[some 0, some 1, none], [some 2, some 3]] := by decide +kernel

/-- `C13_merged`, left side: the merged pairs of (`th1`, `x`) … -/
example : (mergeSegs false 1024 [s1, s2] dr).1.synonyms th1 (B "x") none
    = [(B "p", 0), (B "q", 0), (B "q", 2), (B "q", 3), (B "s", 2)] := by decide +kernel
/-- … right side: the inputs' pairs; document 2 of input 1 (pairs `(q, 2)`, `(s, 2)`) is deleted,
    documents 0, 1 of input 2 become 2, 3 -/
example : s1.synonyms th1 (B "x") none = [(B "p", 0), (B "q", 0), (B "q", 2), (B "s", 2)]
    ∧ s2.synonyms th1 (B "x") none = [(B "s", 0), (B "q", 0), (B "q", 1)] := by decide +kernel
/-- with the new document 2 excluded -/
example : (mergeSegs false 1024 [s1, s2] dr).1.synonyms th1 (B "x") (some [2])
    = [(B "p", 0), (B "q", 0), (B "q", 3)] := by decide +kernel

/-- `C13_terms_vanish`: the empty term had its only pair in the deleted document -/
example : s1.thesTerms th1 = [B "", B "x", B "y"] ∧ s1.synonyms th1 (B "") none = [(B "z", 2)]
    ∧ (mergeSegs false 1024 [s1, s2] dr).1.thesTerms th1 = [B "w", B "x", B "y"] := by decide +kernel
/-- … and survives (first, as the smallest key) when nothing is deleted -/
example : (mergeSegs false 1024 [s1, s2] []).1.thesTerms th1 = [B "", B "w", B "x", B "y"]
    ∧ (mergeSegs false 1024 [s1, s2] []).1.synonyms th1 (B "") none = [(B "z", 2)] := by decide +kernel

/-- `C13_thesaurus_preserved`: `th2` exists in input 1 only -/
example : s2.thes? th2 = none
    ∧ (mergeSegs false 1024 [s1, s2] dr).1.synonyms th2 (B "x") none = [(B "r", 0)]
    ∧ (mergeSegs false 1024 [s2, s1] [none, some [2]]).1.synonyms th2 (B "x") none = [(B "r", 2)] := by
  decide +kernel

/-- `C13_closed`: the result is well formed; merging it again with input 2 (deleting the new
    document 0) gives what the theorem says -/
example : ((mergeSegs false 1024 [s1, s2] dr).1.thes? th1).isSome = true
    ∧ OptThesWF ((mergeSegs false 1024 [s1, s2] dr).1.thes? th1) := by decide +kernel
example : (mergeSegs false 1024 [(mergeSegs false 1024 [s1, s2] dr).1, s2] [some [0]]).1.synonyms th1 (B "x") none
    = [(B "q", 1), (B "q", 2), (B "q", 3), (B "q", 4), (B "s", 1), (B "s", 3)] := by decide +kernel

/-- `C13_id_independent`: input 2 first, its ids renamed (`a ↦ 7 - a`): its table and codes change,
    the new ids the merge assigns change (first appearance follows the inputs' code order), the
    listing order changes — the merged pairs as a set do not -/
private def ren : Nat → Name → Nat → Nat := fun i _ a => if i = 0 then 7 - a else a
example : ((renameAll ren [s2, s1]).map (fun s => (s.thes? th1).map (·.table)))
    = [some [(7, B "s"), (6, B "q"), (5, B "p")], some [(0, B "p"), (1, B "q"), (2, B "s"), (3, B "z")]] := by
  decide +kernel
example : ((mergeSegs false 1024 [s2, s1] [none, some [2]]).1.thes? th1).map (·.table)
      = some [(0, B "p"), (1, B "s"), (2, B "q")]
    ∧ ((mergeSegs false 1024 (renameAll ren [s2, s1]) [none, some [2]]).1.thes? th1).map (·.table)
      = some [(0, B "p"), (1, B "q"), (2, B "s")] := by decide +kernel
example : (mergeSegs false 1024 [s2, s1] [none, some [2]]).1.synonyms th1 (B "x") none
      = [(B "p", 2), (B "s", 0), (B "q", 0), (B "q", 1), (B "q", 2)]
    ∧ (mergeSegs false 1024 (renameAll ren [s2, s1]) [none, some [2]]).1.synonyms th1 (B "x") none
      = [(B "p", 2), (B "q", 0), (B "q", 1), (B "q", 2), (B "s", 0)] := by decide +kernel

end Examples

end Zap

#print axioms Zap.C13_merged
#print axioms Zap.C13_closed
#print axioms Zap.C13_nodup_sorted
#print axioms Zap.C13_terms_vanish
#print axioms Zap.C13_thesaurus_preserved
#print axioms Zap.C13_observational
#print axioms Zap.C13_id_independent
