/-
  C11 (concurrent readers): the two clauses that are properties of the synchronisation
  skeleton, instantiated on facts extracted from /repo on every run.

  (1) POOL SAFETY.  `Theory.Pool.pool_safe`: if every call word is `Balanced`, then in every
      interleaving no pooled object has two holders, none is in the pool twice, none is held
      and pooled, every `use` is by the unique holder.  Instance: every extracted path of
      every user of `visitDocumentCtxPool` / `interimPool` is `Balanced`, and the users are
      exactly the four expected functions.
  (2) LOCKSET EXCLUSION (also used by C16 and C20).  `Theory.Lock.lockset_excludes`: if every
      write of a location happens under its mutex and every read under the mutex or its read
      lock, then in every interleaving no write overlaps another access.  Instance: the
      extracted accesses to `SegmentBase.fieldFSTs`, `synonymIndexCache.cache`,
      `vectorIndexCache.cache`, `Segment.refs`.

  MODELLED, NOT VERIFIED
  * Atomic steps at the granularity of extracted events (`get`/`use`/`put`/`ret`); the Go
    memory model, `sync.Pool`'s per-P caches and its victim cache are outside.  `sync.Pool`
    dropping objects at GC only shrinks the pool and is covered by "a missing put is allowed".
  * The words are the extractor's path abstraction (tools/README.md item 4: callees that
    receive the object are inlined, `defer` replayed before each return, loops cut at two
    iterations, aliasing / escaping pointers are blind spots).  That the running code follows
    one of the extracted paths is by reading and by the differential/concurrent runs.
  * Threads of one pool only interact through that pool; a thread's calls to users of the other
    pool are invisible to this pool, hence the theorem is stated per pool.
  * Locks: an access is two atomic steps (enter / leave); `sync.RWMutex` is modelled as
    writer-exclusive / reader-shared with no fairness.  A `LockFact` only says which locks the
    extractor saw held AT the access; the call word given to it here is
    `acquire held ; access ; release held` (`callWord`).  That the lock is the same object for
    all accesses (the mutex field of the same struct value) is the extractor's "same base
    expression" rule (tools/README.md item 9).
  * ASSUMPTION (LOCKED convention): functions named `*LOCKED` are called only with `m` held
    exclusively; the extractor reports `"m(LOCKED-convention)"` and this file treats it as
    `"m"`.  By reading: `createAndCacheLOCKED` / `addDocVecIDMapToCacheLOCKED` are called from
    `loadOrCreate` / `loadFromCache` after `m.Lock()`, `insertLOCKED` only from
    `createAndCacheLOCKED`.
  * The Go memory model (happens-before through Lock/Unlock) is outside; so are accesses the
    extractor does not attribute (aliases of the map, callees two levels down).
-/
import ZapModel.Gen.Facts
import ZapModel.Theory.Str
import ZapProofs.TheoryLemmasPool
import ZapProofs.TheoryLemmasLock

namespace Zap.C11
open Zap.Gen Zap.Gen.PoolEv Zap.Theory Zap.Theory.Pool

/-- The pool users that must be present (function, pool), in the extractor's (sorted) order. -/
def expectedPoolUsers : List (String × String) := [
  ("SegmentBase.DocID", "visitDocumentCtxPool"),
  ("SegmentBase.VisitStoredFields", "visitDocumentCtxPool"),
  ("ZapPlugin.newWithChunkMode", "interimPool"),
  ("mergeStoredAndRemap", "visitDocumentCtxPool")
]

/-- Decidable side condition on the extracted pool facts:
    * the users are EXACTLY the expected four (a deleted or a new user fails),
    * no name is an extraction-failure marker,
    * every user has at least one path, one path that really takes an object (`get`) and one
      that gives it back (`put`) - so the condition is not satisfied by empty words,
    * every path of every user is `Balanced`. -/
def poolSideCondition (fs : List PoolFn) : Bool :=
  (fs.map fun f => (f.fn, f.pool)) == expectedPoolUsers
  && fs.all fun f =>
      !unrec f.fn && !unrec f.pool
      && !f.paths.isEmpty
      && f.paths.any (·.contains .get) && f.paths.any (·.contains .put)
      && f.paths.all Balanced

/-- INSTANCE: the obligation that breaks when the Go source changes. -/
theorem poolSideCondition_holds : poolSideCondition Facts.poolFns = true := by decide +kernel

theorem balanced_of_sideCondition (fs : List PoolFn) (h : poolSideCondition fs = true) :
    ∀ f ∈ fs, ∀ w ∈ f.paths, Balanced w = true := by
  intro f hf w hw
  simp only [poolSideCondition, Bool.and_eq_true, List.all_eq_true] at h
  exact (h.2 f hf).2 w hw

/-- C11, pool clause (also C10's "a builder is never returned twice / never used after being
    returned"): for each pool `p`, any number of goroutines, each performing any sequence of
    calls of the extracted pool users along any of their extracted paths: EVERY interleaving
    is safe. -/
theorem C11_pool (p : String) (calls : Nat → List (List PoolEv))
    (hcalls : ∀ i, ∀ w ∈ calls i, ∃ f ∈ Facts.poolFns, f.pool = p ∧ w ∈ f.paths)
    (sched : Sched) : Safe (exec (init calls) sched) := by
  apply pool_safe
  intro i w hw
  obtain ⟨f, hf, _, hwf⟩ := hcalls i w hw
  exact balanced_of_sideCondition _ poolSideCondition_holds f hf w hwf

/-! ### The side condition rejects the pre-fix tree (D2) and extraction failures -/

/-- The pre-fix word of `VisitStoredFields` when the visitor stops at `_id`: the callee puts
    the context back and the caller's deferred `Put` puts it again. -/
example : Balanced [get, use, put, put, ret] = false := by decide
example : Balanced [get, use, put, use, ret] = false := by decide   -- use after put
example : Balanced [use, get, put, ret] = false := by decide        -- use before get
example : Balanced [get, use, ret] = true := by decide              -- no put: garbage collected

def preFixPoolFns : List PoolFn := [
  { fn := "SegmentBase.DocID", pool := "visitDocumentCtxPool",
    paths := [[ret], [get, use, ret], [get, use, put, ret]] },
  { fn := "SegmentBase.VisitStoredFields", pool := "visitDocumentCtxPool",
    paths := [[get, put, ret], [get, use, put, ret], [get, use, put, put, ret]] },
  { fn := "ZapPlugin.newWithChunkMode", pool := "interimPool",
    paths := [[get, use, ret], [get, use, put, ret]] },
  { fn := "mergeStoredAndRemap", pool := "visitDocumentCtxPool",
    paths := [[get, put, ret], [get, use, put, ret]] } ]

example : poolSideCondition preFixPoolFns = false := by decide +kernel

/-- A deleted user fails (no vacuous pass). -/
example : poolSideCondition (Facts.poolFns.drop 1) = false := by decide +kernel

/-- An unrecognised user fails. -/
example : poolSideCondition
    (Facts.poolFns ++ [{ fn := "foo UNRECOGNISED", pool := "interimPool", paths := [] }]) = false := by
  decide +kernel

/-- With the pre-fix word the bad state IS reachable, with two goroutines: goroutine 0 makes an
    early-terminated visit (double put: the pool now contains object 0 twice) and then a second
    call; goroutine 1 makes one call.  Both `Get`s return object 0. -/
def badProgs : List (List (List PoolEv)) :=
  [ [[get, use, put, put, ret], [get, use, put, ret]],
    [[get, use, put, ret]] ]

def badSched : Sched :=
  [(0, none), (0, none), (0, none), (0, none), (0, none),   -- goroutine 0: get(fresh 0) use put put ret
   (0, some 0),                                             -- goroutine 0: second call, Get -> 0
   (1, some 0)]                                             -- goroutine 1: Get -> 0 as well

example : holds ((exec (initL badProgs) badSched).thr 0) 0
        ∧ holds ((exec (initL badProgs) badSched).thr 1) 0 := by decide

/-- ... and one step earlier object 0 is in the pool twice. -/
example : (exec (initL badProgs) (badSched.take 5)).pool = [0, 0] := by decide

/-- Hypotheses are satisfiable: three goroutines running extracted words; a `Get` after a
    `Put` really reuses the object (so the theorem is not about an always-empty pool). -/
def goodProgs : List (List (List PoolEv)) :=
  [ [[get, use, put, ret], [get, use, ret]], [[get, put, ret]], [[ret], [get, use, put, ret]] ]

example : ∀ p ∈ goodProgs, ∀ w ∈ p, ∃ f ∈ Facts.poolFns, f.pool = "visitDocumentCtxPool" ∧ w ∈ f.paths := by
  decide +kernel

example : let s := exec (initL goodProgs) [(0, none), (0, none), (0, none), (1, some 0)]
          s.pool = [] ∧ holds (s.thr 1) 0 ∧ ¬ holds (s.thr 0) 0 := by decide


/-! ## Lockset exclusion -/

namespace Lockset
open Zap.Theory.Lock

/-- The watched locations and the mutex (field `m` of the same struct) guarding each. -/
def watched : List (Loc × Mutex) := [
  ("SegmentBase.fieldFSTs", "SegmentBase.m"),
  ("synonymIndexCache.cache", "synonymIndexCache.m"),
  ("vectorIndexCache.cache", "vectorIndexCache.m"),
  ("Segment.refs", "Segment.m")
]

def mutexOf (x : Loc) : Mutex := (watched.lookup x).getD "?"

/-- Events acquiring / releasing one extracted `held` entry.  `"m(LOCKED-convention)"` is
    treated as `"m"` (ASSUMPTION, see header).  Anything else acquires nothing, so the access
    is then unguarded and the check fails. -/
def acquire (m : Mutex) (h : String) : List Ev :=
  if h = "m" ∨ h = "m(LOCKED-convention)" then [.lock m]
  else if h = "m.R" then [.rlock m] else []

def release (m : Mutex) (h : String) : List Ev :=
  if h = "m" ∨ h = "m(LOCKED-convention)" then [.unlock m]
  else if h = "m.R" then [.runlock m] else []

/-- The word given to one extracted access: acquire what was held, access, release.
    An access kind other than "read" is treated as a write. -/
def callWord (f : LockFact) : List Ev :=
  let m := mutexOf f.location
  (f.held.map (acquire m)).flatten
    ++ [if f.access = "read" then .read f.location else .write f.location]
    ++ (f.held.reverse.map (release m)).flatten

/-- Accesses that must be present (function, location, access): a deleted access or function
    must not pass vacuously. -/
def expectedAccesses : List (String × String × String) := [
  ("Segment.AddRef", "Segment.refs", "write"),
  ("Segment.DecRef", "Segment.refs", "write"),
  ("Segment.DecRef", "Segment.refs", "read"),
  ("SegmentBase.dictionary", "SegmentBase.fieldFSTs", "read"),
  ("SegmentBase.dictionary", "SegmentBase.fieldFSTs", "write"),
  ("synonymIndexCache.Clear", "synonymIndexCache.cache", "write"),
  ("synonymIndexCache.insertLOCKED", "synonymIndexCache.cache", "write"),
  ("synonymIndexCache.loadOrCreate", "synonymIndexCache.cache", "read"),
  ("vectorIndexCache.Clear", "vectorIndexCache.cache", "write"),
  ("vectorIndexCache.cleanup", "vectorIndexCache.cache", "write"),
  ("vectorIndexCache.insertLOCKED", "vectorIndexCache.cache", "write"),
  ("vectorIndexCache.loadFromCache", "vectorIndexCache.cache", "read"),
  ("vectorIndexCache.incHit", "vectorIndexCache.cache", "read"),
  ("vectorIndexCache.decRef", "vectorIndexCache.cache", "read")
]

/-- Decidable side condition on the extracted lock facts:
    * no string is an extraction-failure marker;
    * every fact is about a watched location, with access "read" or "write";
    * every fact's call word is `callOK` for its location and that location's mutex: a write
      holds "m" (or the LOCKED convention), a read holds "m" or "m.R" (or the convention);
    * every expected (function, location, access) is present. -/
def lockSideCondition (fs : List LockFact) : Bool :=
  fs.all (fun f =>
      !unrec f.fn && !unrec f.location && !unrec f.access && allRecognised f.held
      && (watched.map (·.1)).contains f.location
      && (f.access == "read" || f.access == "write")
      && callOK f.location (mutexOf f.location) (callWord f))
  && expectedAccesses.all (fun e => fs.any (fun f => (f.fn, f.location, f.access) == e))

/-- INSTANCE: the obligation that breaks when the Go source changes. -/
theorem lockSideCondition_holds : lockSideCondition Facts.lockFacts = true := by decide +kernel

/-- C11 / C16 / C20, lockset clause: for each watched location `x`, any number of goroutines,
    each performing any sequence of the extracted accesses to `x` (each with the locks the
    extractor saw held): in EVERY interleaving no write to `x` overlaps another access to `x`. -/
theorem C11_lockset (x : Loc) (calls : Nat → List LockFact)
    (hcalls : ∀ i, ∀ f ∈ calls i, f ∈ Facts.lockFacts ∧ f.location = x)
    (sched : List Nat) :
    ¬ Conflict (exec (init fun i => ((calls i).map callWord).flatten) sched) x := by
  apply lockset_excludes x (mutexOf x)
  intro i
  apply disciplined_flatten
  intro w hw
  obtain ⟨f, hf, rfl⟩ := List.mem_map.mp hw
  obtain ⟨hmem, hloc⟩ := hcalls i f hf
  have h := lockSideCondition_holds
  simp only [lockSideCondition, Bool.and_eq_true, List.all_eq_true] at h
  have := (h.1 f hmem).2
  rw [hloc] at this
  exact this

/-! ### The side condition rejects unguarded accesses, missing entries, failures -/

/-- `dictionary` writing `fieldFSTs` without the lock. -/
example : lockSideCondition
    (Facts.lockFacts ++ [{ fn := "SegmentBase.foo", location := "SegmentBase.fieldFSTs",
                           access := "write", held := [] }]) = false := by decide +kernel

/-- A write under the read lock only. -/
example : lockSideCondition
    (Facts.lockFacts ++ [{ fn := "vectorIndexCache.foo", location := "vectorIndexCache.cache",
                           access := "write", held := ["m.R"] }]) = false := by decide +kernel

/-- `AddRef` deleted from the facts. -/
example : lockSideCondition (Facts.lockFacts.drop 1) = false := by decide +kernel

example : lockSideCondition
    (Facts.lockFacts ++ [{ fn := "f", location := "UNRECOGNISED location x.cache",
                           access := "read", held := ["m"] }]) = false := by decide +kernel

/-- Without the discipline the conflict IS reachable: an unguarded writer and a reader under
    the read lock are inside their accesses at the same time. -/
def badWords : List (List Ev) :=
  [ [.write "vectorIndexCache.cache"],
    [.rlock "vectorIndexCache.m", .read "vectorIndexCache.cache", .runlock "vectorIndexCache.m"] ]

example : let s := exec (initL badWords) [1, 1, 0]
          insideWriteB (s.thr 0) "vectorIndexCache.cache" = true
          ∧ insideReadB (s.thr 1) "vectorIndexCache.cache" = true := by decide +kernel

/-- Hypotheses are satisfiable, and the model does let two readers overlap (so exclusion of
    writers is not an artefact of a model in which nothing overlaps): `loadFromCache` twice. -/
example : let rd : LockFact := { fn := "vectorIndexCache.loadFromCache",
                                  location := "vectorIndexCache.cache", access := "read",
                                  held := ["m.R"] }
          rd ∈ Facts.lockFacts
          ∧ (let s := exec (initL [callWord rd, callWord rd]) [0, 0, 1, 1]
             insideReadB (s.thr 0) "vectorIndexCache.cache" = true
             ∧ insideReadB (s.thr 1) "vectorIndexCache.cache" = true) := by decide +kernel

end Lockset

end Zap.C11

#print axioms Zap.Theory.Pool.pool_safe
#print axioms Zap.C11.poolSideCondition_holds
#print axioms Zap.C11.C11_pool
#print axioms Zap.Theory.Lock.lockset_excludes
#print axioms Zap.C11.Lockset.lockSideCondition_holds
#print axioms Zap.C11.Lockset.C11_lockset
