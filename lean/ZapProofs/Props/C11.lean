/-
  C11 (concurrent readers): the two clauses that are properties of the synchronisation
  skeleton, instantiated on facts extracted from /repo on every run.

  (1) POOL SAFETY.  `Theory.Pool.pool_safe`: if every call word is `Balanced`, then in every
      interleaving no pooled object has two holders, none is in the pool twice, none is held
      and pooled, every `use` is by the unique holder.  Instance: every extracted path of
      every user of `visitDocumentCtxPool` / `interimPool` is `Balanced`, and the users are
      exactly the four expected functions.
  (2) LOCKSET EXCLUSION.  `Theory.Lock.lockset_excludes` (see ZapProofs/Props/C11Lock.lean for the
      instance on `Gen.Facts.lockFacts`).

  MODELLED, NOT VERIFIED
  * Atomic steps at the granularity of extracted events (`get`/`use`/`put`/`ret`); the Go
    memory model, `sync.Pool`'s per-P caches and its victim cache are outside.  `sync.Pool`
    dropping objects at GC only shrinks the pool and is covered by "a missing put is allowed".
  * The words are the extractor's path abstraction (tools/README.md item 4: callees that
    receive the object are inlined, `defer` replayed before each return, loops cut at two
    iterations, aliasing / escaping pointers are blind spots).  That the running code follows
    one of the extracted paths is by reading and by the differential/concurrent runs.
  * Threads of one pool only interact through that pool; a thread's calls to users of the other
    pool are invisible to this pool, hence the theorem is stated per pool.
-/
import ZapModel.Gen.Facts
import ZapModel.Theory.Str
import ZapProofs.TheoryLemmasPool

namespace Zap.C11
open Zap.Gen Zap.Gen.PoolEv Zap.Theory Zap.Theory.Pool

/-- The pool users that must be present (function, pool), in the extractor's (sorted) order. -/
def expectedPoolUsers : List (String × String) := [
  ("SegmentBase.DocID", "visitDocumentCtxPool"),
  ("SegmentBase.VisitStoredFields", "visitDocumentCtxPool"),
  ("ZapPlugin.newWithChunkMode", "interimPool"),
  ("mergeStoredAndRemap", "visitDocumentCtxPool")
]

/-- Decidable side condition on the extracted pool facts:
    * the users are EXACTLY the expected four (a deleted or a new user fails),
    * no name is an extraction-failure marker,
    * every user has at least one path, one path that really takes an object (`get`) and one
      that gives it back (`put`) - so the condition is not satisfied by empty words,
    * every path of every user is `Balanced`. -/
def poolSideCondition (fs : List PoolFn) : Bool :=
  (fs.map fun f => (f.fn, f.pool)) == expectedPoolUsers
  && fs.all fun f =>
      !unrec f.fn && !unrec f.pool
      && !f.paths.isEmpty
      && f.paths.any (·.contains .get) && f.paths.any (·.contains .put)
      && f.paths.all Balanced

/-- INSTANCE: the obligation that breaks when the Go source changes. -/
theorem poolSideCondition_holds : poolSideCondition Facts.poolFns = true := by decide +kernel

theorem balanced_of_sideCondition (fs : List PoolFn) (h : poolSideCondition fs = true) :
    ∀ f ∈ fs, ∀ w ∈ f.paths, Balanced w = true := by
  intro f hf w hw
  simp only [poolSideCondition, Bool.and_eq_true, List.all_eq_true] at h
  exact (h.2 f hf).2 w hw

/-- C11, pool clause (also C10's "a builder is never returned twice / never used after being
    returned"): for each pool `p`, any number of goroutines, each performing any sequence of
    calls of the extracted pool users along any of their extracted paths: EVERY interleaving
    is safe. -/
theorem C11_pool (p : String) (calls : Nat → List (List PoolEv))
    (hcalls : ∀ i, ∀ w ∈ calls i, ∃ f ∈ Facts.poolFns, f.pool = p ∧ w ∈ f.paths)
    (sched : Sched) : Safe (exec (init calls) sched) := by
  apply pool_safe
  intro i w hw
  obtain ⟨f, hf, _, hwf⟩ := hcalls i w hw
  exact balanced_of_sideCondition _ poolSideCondition_holds f hf w hwf

/-! ### The side condition rejects the pre-fix tree (D2) and extraction failures -/

/-- The pre-fix word of `VisitStoredFields` when the visitor stops at `_id`: the callee puts
    the context back and the caller's deferred `Put` puts it again. -/
example : Balanced [get, use, put, put, ret] = false := by decide
example : Balanced [get, use, put, use, ret] = false := by decide   -- use after put
example : Balanced [use, get, put, ret] = false := by decide        -- use before get
example : Balanced [get, use, ret] = true := by decide              -- no put: garbage collected

def preFixPoolFns : List PoolFn := [
  { fn := "SegmentBase.DocID", pool := "visitDocumentCtxPool",
    paths := [[ret], [get, use, ret], [get, use, put, ret]] },
  { fn := "SegmentBase.VisitStoredFields", pool := "visitDocumentCtxPool",
    paths := [[get, put, ret], [get, use, put, ret], [get, use, put, put, ret]] },
  { fn := "ZapPlugin.newWithChunkMode", pool := "interimPool",
    paths := [[get, use, ret], [get, use, put, ret]] },
  { fn := "mergeStoredAndRemap", pool := "visitDocumentCtxPool",
    paths := [[get, put, ret], [get, use, put, ret]] } ]

example : poolSideCondition preFixPoolFns = false := by decide +kernel

/-- A deleted user fails (no vacuous pass). -/
example : poolSideCondition (Facts.poolFns.drop 1) = false := by decide +kernel

/-- An unrecognised user fails. -/
example : poolSideCondition
    (Facts.poolFns ++ [{ fn := "foo UNRECOGNISED", pool := "interimPool", paths := [] }]) = false := by
  decide +kernel

/-- With the pre-fix word the bad state IS reachable, with two goroutines: goroutine 0 makes an
    early-terminated visit (double put: the pool now contains object 0 twice) and then a second
    call; goroutine 1 makes one call.  Both `Get`s return object 0. -/
def badProgs : List (List (List PoolEv)) :=
  [ [[get, use, put, put, ret], [get, use, put, ret]],
    [[get, use, put, ret]] ]

def badSched : Sched :=
  [(0, none), (0, none), (0, none), (0, none), (0, none),   -- goroutine 0: get(fresh 0) use put put ret
   (0, some 0),                                             -- goroutine 0: second call, Get -> 0
   (1, some 0)]                                             -- goroutine 1: Get -> 0 as well

example : holds ((exec (initL badProgs) badSched).thr 0) 0
        ∧ holds ((exec (initL badProgs) badSched).thr 1) 0 := by decide

/-- ... and one step earlier object 0 is in the pool twice. -/
example : (exec (initL badProgs) (badSched.take 5)).pool = [0, 0] := by decide

/-- Hypotheses are satisfiable: three goroutines running extracted words; a `Get` after a
    `Put` really reuses the object (so the theorem is not about an always-empty pool). -/
def goodProgs : List (List (List PoolEv)) :=
  [ [[get, use, put, ret], [get, use, ret]], [[get, put, ret]], [[ret], [get, use, put, ret]] ]

example : ∀ p ∈ goodProgs, ∀ w ∈ p, ∃ f ∈ Facts.poolFns, f.pool = "visitDocumentCtxPool" ∧ w ∈ f.paths := by
  decide +kernel

example : let s := exec (initL goodProgs) [(0, none), (0, none), (0, none), (1, some 0)]
          s.pool = [] ∧ holds (s.thr 1) 0 ∧ ¬ holds (s.thr 0) 0 := by decide

end Zap.C11

#print axioms Zap.Theory.Pool.pool_safe
#print axioms Zap.C11.poolSideCondition_holds
#print axioms Zap.C11.C11_pool
