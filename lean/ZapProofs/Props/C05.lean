/-
  C05: merge renumbering.  Survivors of a merge get consecutive new numbers in
  segment-then-document order, dropped documents get the sentinel (`none`), the
  new count is the number of survivors, stored documents follow their new
  numbers with field ids translated by name, and the merged field table is
  `_id` followed by the sorted union of the inputs' field names.
-/
import ZapProofs.MergeLemmas

namespace Zap
open DictL MergeL

/-! ### Renumbering (`mergeStoredAndRemap`) -/

theorem remapSeg_spec (n : Nat) (drops : Option (List Nat)) (start : Nat) :
    remapSeg n drops start =
      ((List.range n).map (fun d => if isDropped drops d then none
          else some (start + ((List.range d).filter (fun x => !isDropped drops x)).length)),
        start + ((List.range n).filter (fun x => !isDropped drops x)).length) :=
  remapSeg_eq n drops start

theorem remapAll_spec (segs : List Seg) (drops : List (Option (List Nat))) (i d : Nat)
    (hi : i < segs.length) (hd : d < segs[i].numDocs) :
    ((remapAll segs drops 0).getD i []).getD d none
      = Spec.newNum (segs.map (·.numDocs)) drops i d := by
  rw [remapAll_getD segs drops 0 i hi, getD_map_range _ _ _ _ hd, Nat.zero_add, newNum_eq]

/-- The map list has one entry per segment, each as long as the segment. -/
theorem remapAll_shape (segs : List Seg) (drops : List (Option (List Nat))) :
    (remapAll segs drops 0).length = segs.length ∧
    ∀ i (hi : i < segs.length), ((remapAll segs drops 0).getD i []).length = segs[i].numDocs := by
  refine ⟨remapAll_length segs drops 0, fun i hi => ?_⟩
  rw [remapAll_getD segs drops 0 i hi]; simp

/-! ### New document count (`computeNewDocCount`) -/

/-- `computeNewDocCount` = number of survivors, provided every drop list only
    names existing documents (`dropsInRange`, a decidable predicate; entries of
    `drops` beyond its length count as nil; duplicates in a list are harmless,
    the model takes `eraseDups` as a bitmap cardinality does). -/
theorem newDocCount_eq (segs : List Seg) (drops : List (Option (List Nat)))
    (hrange : dropsInRange segs drops = true) :
    newDocCount segs drops = Spec.survivorCount (segs.map (·.numDocs)) drops := by
  rw [newDocCount_eq_offset segs drops hrange, survivorCount_eq, List.length_map]

/-- The range hypothesis is necessary: a drop list naming a non-existent
    document makes the coded count (Σ numDocs − Σ |drops|) too small. -/
example :
    let segs : List Seg := [{ chunkMode := 1, numDocs := 2, fields := [], stored := [] }]
    dropsInRange segs [some [5]] = false ∧
    newDocCount segs [some [5]] = 1 ∧
    Spec.survivorCount (segs.map (·.numDocs)) [some [5]] = 2 := by decide

/-! ### Consecutive numbering / bijection -/

/-- Listing the new numbers of the survivors in segment-then-document order
    gives exactly `0, 1, …, count-1`. -/
theorem C05_consecutive (sizes : List Nat) (drops : List (Option (List Nat))) :
    (List.range sizes.length).flatMap (fun i =>
        (List.range (sizes.getD i 0)).filterMap (fun d => Spec.newNum sizes drops i d))
      = List.range (Spec.survivorCount sizes drops) := by
  rw [survivorCount_eq]; exact consecutive_upto sizes drops sizes.length

/-- Renumbering is a bijection between surviving (segment, document) pairs and
    `[0, count)`, strictly monotone in segment-then-document order; dropped
    documents (and only those) get the sentinel. -/
theorem C05_bijection (sizes : List Nat) (drops : List (Option (List Nat))) :
    -- dropped ⇔ sentinel
    (∀ i d, Spec.newNum sizes drops i d = none ↔ isDropped (drops.getD i none) d = true) ∧
    -- range
    (∀ i d k, i < sizes.length → d < sizes.getD i 0 → Spec.newNum sizes drops i d = some k →
        k < Spec.survivorCount sizes drops) ∧
    -- strictly monotone in (segment, document) order, hence injective
    (∀ i d k i' d' k', d < sizes.getD i 0 →
        Spec.newNum sizes drops i d = some k → Spec.newNum sizes drops i' d' = some k' →
        (i < i' ∨ (i = i' ∧ d < d')) → k < k') ∧
    (∀ i d i' d' k, d < sizes.getD i 0 → d' < sizes.getD i' 0 →
        Spec.newNum sizes drops i d = some k → Spec.newNum sizes drops i' d' = some k →
        i = i' ∧ d = d') ∧
    -- onto
    (∀ k, k < Spec.survivorCount sizes drops →
        ∃ i d, i < sizes.length ∧ d < sizes.getD i 0 ∧ Spec.newNum sizes drops i d = some k) := by
  refine ⟨newNum_none_iff sizes drops, ?_, ?_, ?_, ?_⟩
  · intro i d k hi hd h; exact newNum_lt_count hi hd h
  · intro i d k i' d' k' hd h h' hlt; exact newNum_strictMono hd h h' hlt
  · intro i d i' d' k hd hd' h h'
    by_cases hlt : i < i' ∨ (i = i' ∧ d < d')
    · exact absurd (newNum_strictMono hd h h' hlt) (Nat.lt_irrefl _)
    · by_cases hgt : i' < i ∨ (i' = i ∧ d' < d)
      · exact absurd (newNum_strictMono hd' h' h hgt) (Nat.lt_irrefl _)
      · omega
  · intro k hk; exact newNum_surj hk

/-! ### `mergeToWriter`: count, maps, stored documents -/

theorem C05_count (v : Bool) (m : Nat) (segs : List Seg) (drops : List (Option (List Nat)))
    (hrange : dropsInRange segs drops = true) :
    (mergeSegs v m segs drops).1.numDocs = Spec.survivorCount (segs.map (·.numDocs)) drops := by
  rw [mergeSegs_numDocs, newDocCount_eq segs drops hrange]

theorem C05_maps (v : Bool) (m : Nat) (segs : List Seg) (drops : List (Option (List Nat))) :
    (mergeSegs v m segs drops).2 = remapAll segs drops 0 :=
  mergeSegs_maps v m segs drops

/-- Zero survivors: an empty segment with only the `_id` record (which the
    reader then does not see) - and still one map per input (`C05_maps` has no hypothesis; before
    the repair of defect D15 no map came back in this case, against the property's "also when
    nothing survives"). -/
theorem C05_zero (v : Bool) (m : Nat) (segs : List Seg) (drops : List (Option (List Nat)))
    (h0 : newDocCount segs drops = 0) :
    (mergeSegs v m segs drops).1.numDocs = 0 ∧
    (mergeSegs v m segs drops).1.stored = [] ∧
    (mergeSegs v m segs drops).1.fieldNames = [] ∧
    (∀ nm, (mergeSegs v m segs drops).1.dictTerms nm = []) ∧
    (mergeSegs v m segs drops).2 = remapAll segs drops 0 := by
  have hz := mergeSegs_zero v m segs drops h0
  have h1 : (mergeSegs v m segs drops).1.numDocs = 0 := by rw [hz]
  have h2 : (mergeSegs v m segs drops).1.fields.length ≤ 1 := by rw [hz]; simp [mergedFieldNames]
  have hl : (mergeSegs v m segs drops).1.loadedFields = [] := by
    simp only [Seg.loadedFields, h1, if_true, List.drop_eq_nil_iff]; exact h2
  refine ⟨h1, by rw [hz], ?_, ?_, by rw [hz]⟩
  · simp only [Seg.fieldNames, hl, List.map_nil]
  · intro nm; simp only [Seg.dictTerms, Seg.field?, hl, List.find?_nil]

/-- Stored documents follow their new numbers; field ids are translated by
    name, so what `VisitStoredFields` reports (names, types, values, array
    positions) is unchanged.
    Hypotheses: drop lists in range; each input has one stored record per
    document; stored field ids are valid in their own segment. -/
theorem C05_stored (v : Bool) (m : Nat) (segs : List Seg) (drops : List (Option (List Nat)))
    (hrange : dropsInRange segs drops = true)
    (hlen : ∀ s ∈ segs, s.stored.length = s.numDocs)
    (hfid : ∀ s ∈ segs, ∀ sd ∈ s.stored, ∀ x ∈ sd.vals, x.fid < s.fields.length)
    (i d k : Nat) (hi : i < segs.length) (hd : d < segs[i].numDocs)
    (hk : Spec.newNum (segs.map (·.numDocs)) drops i d = some k) :
    (mergeSegs v m segs drops).1.storedAll k = segs[i].storedAll d := by
  have hsz : (segs.map (·.numDocs)).getD i 0 = segs[i].numDocs := by
    simp [List.getD_eq_getElem?_getD, hi]
  have hkc : k < Spec.survivorCount (segs.map (·.numDocs)) drops :=
    newNum_lt_count (by simpa using hi) (by rw [hsz]; exact hd) hk
  have hcnt := newDocCount_eq segs drops hrange
  have hne : newDocCount segs drops ≠ 0 := by omega
  obtain ⟨hs, hkeq⟩ := newNum_some hk
  have hmem : segs[i] ∈ segs := List.getElem_mem hi
  have hdl : d < segs[i].stored.length := by rw [hlen _ hmem]; exact hd
  have hget := mergedStored_get (mergedFieldNames segs) segs drops 0 hlen i d hi hd hs
  rw [← hkeq, ← mergeSegs_stored v m segs drops hne] at hget
  obtain ⟨F, hF, hfields⟩ := mergeSegs_fields v m segs drops hne
  have hsd : segs[i].stored.getD d default = segs[i].stored[d] := by
    simp [List.getD_eq_getElem?_getD, hdl]
  unfold Seg.storedAll
  rw [mergeSegs_numDocs, if_pos (by omega), if_pos hd, hget, List.getElem?_eq_getElem hdl, hsd]
  simp only [trDoc, List.map_map]
  congr 1
  apply List.map_congr_left
  intro x hx
  have hx' : x.fid < segs[i].fields.length :=
    hfid _ hmem _ (List.getElem_mem hdl) x hx
  have hname : segs[i].nameOf x.fid ∈ mergedFieldNames segs := by
    rw [(mergedFieldNames_props segs).2.2.1]
    refine Or.inr ⟨segs[i], hmem, ?_⟩
    have hnz : segs[i].numDocs ≠ 0 := by omega
    simp only [Seg.fieldNames, Seg.loadedFields, if_neg hnz, Seg.nameOf, List.mem_map]
    exact ⟨segs[i].fields[x.fid], List.getElem_mem hx', by simp [List.getD_eq_getElem?_getD, hx']⟩
  have hres : ∀ j, (mergeSegs v m segs drops).1.nameOf j
      = (((mergedFieldNames segs).map F).getD j default).name := by
    intro j; simp only [Seg.nameOf, hfields]
  simp only [Function.comp]
  rw [hres, nameOf_fieldIdOf _ F hF _ hname]

/-! ### Field union (`mergeFields`) -/

/-- `_id` first, the rest strictly ascending (hence without duplicates and
    without `_id`), membership = union of the inputs' field names ∪ {`_id`}. -/
theorem mergedFieldNames_spec (segs : List Seg) :
    (mergedFieldNames segs).head? = some idName ∧
    SortedLt (mergedFieldNames segs).tail ∧
    (∀ n, n ∈ mergedFieldNames segs ↔ n = idName ∨ ∃ s ∈ segs, n ∈ s.fieldNames) ∧
    idName ∉ (mergedFieldNames segs).tail :=
  mergedFieldNames_props segs

/-- `fieldsSame` as coded compares only inside the loop over a segment's
    fields: every segment with at least one field has exactly segment 0's
    field list; a segment without fields is never compared. -/
theorem fieldsSame_sound (s0 : Seg) (rest : List Seg)
    (h : fieldsSameAsCoded (s0 :: rest) = true) :
    ∀ s ∈ s0 :: rest, s.fieldNames ≠ [] → s.fieldNames = s0.fieldNames :=
  fieldsSame_sound_aux s0 rest h

/-- A segment without (visible) fields has no dictionaries, so it contributes
    nothing to the byte-copy path that `fieldsSame` enables. -/
theorem fieldsSame_fieldless_harmless (s : Seg) (h : s.fieldNames = []) (nm : Name) :
    s.dictTerms nm = [] := by
  have : s.loadedFields = [] := by simpa [Seg.fieldNames] using h
  simp [Seg.dictTerms, Seg.field?, this]

/-! ### Examples: both sides computed on concrete data -/

section Examples

private def sA : Seg :=
  { chunkMode := 1024, numDocs := 3,
    fields := [{ name := idName }, { name := strBytes "b" }, { name := strBytes "a" }],
    stored := [⟨[1], [⟨1, 116, [7], []⟩]⟩, ⟨[2], [⟨2, 116, [8], [0]⟩]⟩, ⟨[3], []⟩] }

private def sB : Seg :=
  { chunkMode := 1024, numDocs := 2,
    fields := [{ name := idName }, { name := strBytes "c" }, { name := strBytes "a" }],
    stored := [⟨[4], [⟨2, 116, [9], []⟩]⟩, ⟨[5], [⟨1, 116, [10], []⟩, ⟨2, 110, [11], []⟩]⟩] }

private def drops1 : List (Option (List Nat)) := [some [1, 1]]   -- shorter than segs; duplicate entry

example : dropsInRange [sA, sB] drops1 = true := by decide
example : remapAll [sA, sB] drops1 0 = [[some 0, none, some 1], [some 2, some 3]] := by decide
example : (List.range 3).map (Spec.newNum [3, 2] drops1 0) = [some 0, none, some 1]
    ∧ (List.range 2).map (Spec.newNum [3, 2] drops1 1) = [some 2, some 3] := by decide
example : newDocCount [sA, sB] drops1 = 4 ∧ Spec.survivorCount [3, 2] drops1 = 4 := by decide
example : mergedFieldNames [sA, sB] = [idName, strBytes "a", strBytes "b", strBytes "c"] := by decide +kernel
example : fieldsSameAsCoded [sA, sB] = false ∧ fieldsSameAsCoded [sA, sA] = true := by decide +kernel

/-- `fieldsSame` holds although the second segment's field list differs
    (it is empty: an empty segment whose only record is not seen). -/
example :
    let e : Seg := { chunkMode := 1024, numDocs := 0, fields := [{ name := idName }], stored := [] }
    fieldsSameAsCoded [sA, e] = true ∧ e.fieldNames ≠ sA.fieldNames := by decide +kernel

/-- Hypotheses of `C05_stored` hold for this data, and both sides agree:
    document 2 of `sA` becomes 1, document 1 of `sB` becomes 3 (its field ids
    1 ("c") and 2 ("a") become 3 and 1). -/
example : (∀ s ∈ [sA, sB], s.stored.length = s.numDocs) ∧
    (∀ s ∈ [sA, sB], ∀ sd ∈ s.stored, ∀ x ∈ sd.vals, x.fid < s.fields.length) := by decide
example : (mergeSegs false 1024 [sA, sB] drops1).1.numDocs = 4 := by decide +kernel
example : (mergeSegs false 1024 [sA, sB] drops1).1.stored =
    [⟨[1], [⟨2, 116, [7], []⟩]⟩, ⟨[3], []⟩, ⟨[4], [⟨1, 116, [9], []⟩]⟩,
     ⟨[5], [⟨3, 116, [10], []⟩, ⟨1, 110, [11], []⟩]⟩] := by decide +kernel
example : (mergeSegs false 1024 [sA, sB] drops1).1.storedAll 3 = sB.storedAll 1
    ∧ sB.storedAll 1 = [⟨idName, 116, [5], []⟩, ⟨strBytes "c", 116, [10], []⟩, ⟨strBytes "a", 110, [11], []⟩] := by
  decide +kernel
example : (mergeSegs false 1024 [sA, sB] [some [0, 1, 2], some [0, 1]]).1.fields = [{ name := idName }]
    ∧ (mergeSegs false 1024 [sA, sB] [some [0, 1, 2], some [0, 1]]).1.fieldNames = [] := by decide +kernel

end Examples

end Zap

#print axioms Zap.remapSeg_spec
#print axioms Zap.remapAll_spec
#print axioms Zap.remapAll_shape
#print axioms Zap.newDocCount_eq
#print axioms Zap.C05_consecutive
#print axioms Zap.C05_bijection
#print axioms Zap.C05_count
#print axioms Zap.C05_maps
#print axioms Zap.C05_zero
#print axioms Zap.C05_stored
#print axioms Zap.mergedFieldNames_spec
#print axioms Zap.fieldsSame_sound
#print axioms Zap.fieldsSame_fieldless_harmless
