/-
  ZapProofs.Props.Codec: headline theorems about the byte-level codecs.
  Proofs live in ZapProofs/CodecLemmas*.lean; this file restates them,
  instantiates them on concrete values and reports what each one depends on.
-/
import ZapProofs.CodecLemmas
import ZapProofs.CodecLemmasGen
import ZapProofs.CodecLemmasCrc
import ZapProofs.CodecLemmasInt
import ZapProofs.CodecLemmasContent

namespace Zap.Props.Codec
open Zap Zap.Codec

/-! ### A. uvarint -/

theorem uvarint_putUvarint (x : Nat) (rest : Bytes) :
    uvarint (putUvarint x ++ rest) = some (x, rest) := _root_.Zap.Codec.uvarint_putUvarint x rest

theorem putUvarint_bytes (x : Nat) : ∀ b ∈ putUvarint x, b < 256 := _root_.Zap.Codec.putUvarint_bytes x

theorem numUvarintBytes_eq (x : Nat) : numUvarintBytes x = (putUvarint x).length :=
  _root_.Zap.Codec.numUvarintBytes_eq x

theorem uvarints_putUvarints (xs : List Nat) : uvarints (putUvarints xs) = xs :=
  _root_.Zap.Codec.uvarints_putUvarints xs

theorem readN_putUvarints (xs : List Nat) (rest : Bytes) :
    readN xs.length (putUvarints xs ++ rest) = some (xs, rest) := _root_.Zap.Codec.readN_putUvarints xs rest

theorem memRead_put (pre : Bytes) (x : Nat) (hx : x < 2 ^ 64) (post : Bytes) :
    memRead (pre ++ putUvarint x ++ post) pre.length
      = some (x, false, pre.length + (putUvarint x).length) := _root_.Zap.Codec.memRead_put pre x hx post

theorem memSkip_put (pre : Bytes) (x : Nat) (post : Bytes) :
    memSkip (pre ++ putUvarint x ++ post) pre.length = pre.length + (putUvarint x).length :=
  _root_.Zap.Codec.memSkip_put pre x post

/-- `memSkip` lands where `memRead` lands. -/
theorem memSkip_eq_memRead_pos (pre : Bytes) (x : Nat) (hx : x < 2 ^ 64) (post : Bytes) :
    (memRead (pre ++ putUvarint x ++ post) pre.length).map (·.2.2)
      = some (memSkip (pre ++ putUvarint x ++ post) pre.length) := by
  rw [_root_.Zap.Codec.memRead_put pre x hx post, _root_.Zap.Codec.memSkip_put]; rfl

/-! ### B. chunk tables -/

theorem endOffsets_prefix_sums (lens : List Nat) :
    endOffsets lens = (List.range lens.length).map (fun i => sumList (lens.take (i + 1))) :=
  _root_.Zap.Codec.endOffsets_prefix_sums lens

theorem chunkBoundary_endOffsets (lens : List Nat) (c : Nat) (h : c < lens.length) :
    chunkBoundary (endOffsets lens) c = (sumList (lens.take c), sumList (lens.take (c + 1))) :=
  _root_.Zap.Codec.chunkBoundary_endOffsets lens c h

theorem chunk_slice (segs : List Bytes) (c : Nat) (h : c < segs.length) :
    let be := chunkBoundary (endOffsets (segs.map List.length)) c
    (segs.flatten.drop be.1).take (be.2 - be.1) = segs[c] := _root_.Zap.Codec.chunk_slice segs c h

/-! ### C. chunked int coder -/

theorem intcoder_roundtrip (cs maxDoc : Nat) (adds : List (Nat × List Nat)) (hcs : 0 < cs)
    (hmono : adds.Pairwise (fun a b => a.1 ≤ b.1)) (hmax : ∀ a ∈ adds, a.1 ≤ maxDoc) :
    intDecodeChunks (intCoderEncode cs maxDoc adds)
      = some ((List.range (maxDoc / cs + 1)).map (fun c =>
          (adds.filter (fun a => a.1 / cs = c)).flatMap (·.2))) :=
  _root_.Zap.Codec.intcoder_roundtrip cs maxDoc adds hcs hmono hmax

theorem intcoder_reuse (cs0 maxDoc0 : Nat) (ops : List Op) (cs maxDoc : Nat)
    (adds : List (Nat × List Nat)) :
    ((adds.foldl (fun c a => c.add a.1 a.2)
        (((ReCoder.fresh cs0 maxDoc0).run ops).reset.setChunkSize cs maxDoc).c).close).write
      = intCoderEncode cs maxDoc adds := _root_.Zap.Codec.reuse_encode cs0 maxDoc0 ops cs maxDoc adds

theorem intcoder_reuse_state (cs0 maxDoc0 : Nat) (ops : List Op) (cs maxDoc : Nat) :
    (((ReCoder.fresh cs0 maxDoc0).run ops).reset.setChunkSize cs maxDoc).c
      = IntCoder.new cs maxDoc := _root_.Zap.Codec.reuse_eq_new cs0 maxDoc0 ops cs maxDoc

/-! ### D. generated pure functions -/

theorem onehit_roundtrip (d n : Nat) (hd : d < 2 ^ 31) (hn : n < 2 ^ 31) :
    Gen.FSTValDecode1Hit (Gen.FSTValEncode1Hit d n) = (d, n) := _root_.Zap.Codec.onehit_roundtrip d n hd hn

theorem onehit_tagged (d n : Nat) :
    Gen.FSTValEncode1Hit d n &&& Gen.FSTValEncodingMask = Gen.FSTValEncoding1Hit :=
  _root_.Zap.Codec.onehit_tagged d n

theorem general_not_onehit (off : Nat) (h : off < 2 ^ 62) :
    off &&& Gen.FSTValEncodingMask ≠ Gen.FSTValEncoding1Hit := _root_.Zap.Codec.general_not_onehit off h

theorem freqHasLocs_roundtrip (f : Nat) (b : Bool) (hf : f < 2 ^ 63) :
    Gen.decodeFreqHasLocs (Gen.encodeFreqHasLocs f b) = (f, b) :=
  _root_.Zap.Codec.freqHasLocs_roundtrip f b hf

theorem synonym_roundtrip (s d : Nat) (hs : s < 2 ^ 32) (hd : d < 2 ^ 32) :
    Gen.decodeSynonym (Gen.encodeSynonym s d) = (s, d) := _root_.Zap.Codec.synonym_roundtrip s d hs hd

theorem synonym_order (s d s' d' : Nat) (hs : s < 2 ^ 32) (hd : d < 2 ^ 32)
    (hs' : s' < 2 ^ 32) (hd' : d' < 2 ^ 32) :
    Gen.encodeSynonym s d < Gen.encodeSynonym s' d' ↔ s < s' ∨ (s = s' ∧ d < d') :=
  _root_.Zap.Codec.synonym_order s d s' d' hs hd hs' hd'

theorem vectorCode_order (doc sc doc' sc' : Nat) (h1 : doc < 2 ^ 32) (h2 : sc < 2 ^ 32)
    (h3 : doc' < 2 ^ 32) (h4 : sc' < 2 ^ 32) :
    Gen.getVectorCode doc sc < Gen.getVectorCode doc' sc' ↔
      doc < doc' ∨ (doc = doc' ∧ sc < sc') := _root_.Zap.Codec.vectorCode_order doc sc doc' sc' h1 h2 h3 h4

theorem vectorCode_doc (doc sc : Nat) (h1 : doc < 2 ^ 32) (h2 : sc < 2 ^ 32) :
    Gen.getVectorCode doc sc >>> 32 = doc := _root_.Zap.Codec.vectorCode_doc doc sc h1 h2

theorem vectorCode_score (doc sc : Nat) (h1 : doc < 2 ^ 32) (h2 : sc < 2 ^ 32) :
    Gen.getVectorCode doc sc % 2 ^ 32 = sc := _root_.Zap.Codec.vectorCode_score doc sc h1 h2

theorem getChunkSize_pos (m c n s : Nat) (h : Gen.getChunkSize m c n = .ok s) : 0 < s :=
  _root_.Zap.Codec.getChunkSize_pos m c n s h

/-- Needs `c < 2^64` (Go `uint64`): without it the literal statement is false
    in the model, `_root_.Zap.Codec.getChunkSize_ok_of_valid_full_counterexample`. -/
theorem getChunkSize_ok_of_valid (m c n : Nat) (hm : 1 ≤ m ∧ m ≤ 1026) (hn : 0 < n)
    (hc : c ≤ n) (hc64 : c < 2 ^ 64) : ∃ s, Gen.getChunkSize m c n = .ok s :=
  _root_.Zap.Codec.getChunkSize_ok_of_valid m c n hm hn hc hc64

theorem getChunkSize_ok_of_valid_full_false : ¬ _root_.Zap.Codec.getChunkSize_ok_of_valid_full :=
  _root_.Zap.Codec.getChunkSize_ok_of_valid_full_counterexample

theorem chunk_index_lt (m c n s d : Nat) (h : Gen.getChunkSize m c n = .ok s) (hd : d < n) :
    d / s < (n - 1) / s + 1 := _root_.Zap.Codec.chunk_index_lt m c n s d h hd

/-! ### E. CRC and footer -/

theorem crcUpdateRaw_append (st : Nat) (a b : Bytes) :
    crcUpdateRaw st (a ++ b) = crcUpdateRaw (crcUpdateRaw st a) b :=
  _root_.Zap.Codec.crcUpdateRaw_append st a b

theorem crcUpdate_append (c : Nat) (a b : Bytes) (hc : c < 2 ^ 32) :
    crcUpdate c (a ++ b) = crcUpdate (crcUpdate c a) b := _root_.Zap.Codec.crcUpdate_append c a b hc

theorem crcUpdate_lt (c : Nat) (bs : Bytes) (hc : c < 2 ^ 32) (hbs : ∀ b ∈ bs, b < 256) :
    crcUpdate c bs < 2 ^ 32 := _root_.Zap.Codec.crcUpdate_lt c bs hc hbs

theorem footer_roundtrip (vals : String → Nat) (body : Bytes) (name : String)
    (hname : name ∈ Gen.Facts.footerReads.map (·.1))
    (hfit : ∀ w ∈ Gen.Facts.footerWrites, vals w.1 < 256 ^ w.2) :
    decodeField (body ++ encodeFooter vals) name = some (vals (writeName name)) :=
  _root_.Zap.Codec.footer_roundtrip vals body name hname hfit

theorem footer_layout : Gen.Facts.footerWrites =
    [("numDocs", 8), ("storedIndexOffset", 8), ("fieldsIndexOffset", 8),
     ("sectionsIndexOffset", 8), ("docValueOffset", 8), ("chunkMode", 4), ("Version", 4),
     ("crc", 4)] := _root_.Zap.Codec.footer_layout

theorem footer_size : (Gen.Facts.footerWrites.map (·.2)).sum = Gen.FooterSize := _root_.Zap.Codec.footer_size

theorem footer_length (vals : String → Nat) : (encodeFooter vals).length = Gen.FooterSize :=
  _root_.Zap.Codec.footer_length vals

/-! ### F. content coder framing (snappy abstract) -/

theorem content_roundtrip (compress : Bytes → Bytes)
    (hsn : ∀ x, snappyDecode (compress x) = some x)
    (cs maxDoc : Nat) (adds : List (Nat × Bytes))
    (hmono : adds.Pairwise (fun a b => a.1 ≤ b.1)) (hmax : ∀ a ∈ adds, a.1 ≤ maxDoc)
    (hsize : (contentEncode compress cs maxDoc adds).length < 2 ^ 64) :
    contentDecode (contentEncode compress cs maxDoc adds)
      = some ((List.range (maxDoc / cs + 1)).map (fun c => adds.filter (fun a => a.1 / cs = c))) :=
  _root_.Zap.Codec.content_roundtrip compress hsn cs maxDoc adds hmono hmax hsize

/-- the snappy hypothesis is satisfiable (all-literals encoder) -/
theorem snappyDecode_snappyLit (x : Bytes) : snappyDecode (snappyLit x) = some x :=
  _root_.Zap.Codec.snappyDecode_snappyLit x

/-! ### concrete instances (hypotheses are satisfiable, values non-trivial) -/

example : putUvarint 300 = [172, 2] := by
  rw [putUvarint_ge (by decide), putUvarint_lt (by decide)]
example : uvarint ([172, 2] ++ [7]) = some (300, [7]) := by decide
example : uvarint (putUvarint 300 ++ [7]) = some (300, [7]) := uvarint_putUvarint 300 [7]
example : uvarints (putUvarints [0, 127, 128, 16384, 2 ^ 64 - 1]) = [0, 127, 128, 16384, 2 ^ 64 - 1] :=
  uvarints_putUvarints _
example : memRead ([9, 9] ++ putUvarint (2 ^ 64 - 1) ++ [1]) 2
    = some (2 ^ 64 - 1, false, 2 + (putUvarint (2 ^ 64 - 1)).length) :=
  memRead_put [9, 9] (2 ^ 64 - 1) (by decide) [1]
-- the overflow rule of Go's reader really is modelled: ten 0xff bytes and a 2 is an error
example : memRead [255, 255, 255, 255, 255, 255, 255, 255, 255, 2] 0 = some (0, true, 10) := by
  decide

example : endOffsets [0, 5, 0, 5] = [0, 5, 5, 10] := by decide
example : chunkBoundary (endOffsets [3, 0, 4]) 2 = (3, 7) := by decide

-- three chunks (chunk size 2, docs 0..5), the middle one empty
example : intDecodeChunks (intCoderEncode 2 5 [(0, [1, 300]), (1, [2]), (4, [7]), (5, [])])
    = some [[1, 300, 2], [], [7]] := by
  rw [intcoder_roundtrip 2 5 _ (by decide) (by decide) (by decide)]
  decide

-- without the monotonicity hypothesis the round trip fails (chunks come out swapped)
theorem intcoder_needs_mono :
    intDecodeChunks (intCoderEncode 1 1 [(1, [5]), (0, [6])]) = some [[5], [6]] := by
  have h5 : putUvarint 5 = [5] := putUvarint_lt (by decide)
  have h6 : putUvarint 6 = [6] := putUvarint_lt (by decide)
  have h1 : putUvarint 1 = [1] := putUvarint_lt (by decide)
  have h2 : putUvarint 2 = [2] := putUvarint_lt (by decide)
  have he : intCoderEncode 1 1 [(1, [5]), (0, [6])] = [2, 1, 2, 5, 6] := by
    simp [intCoderEncode, IntCoder.add, IntCoder.new, IntCoder.close, IntCoder.write,
      putUvarints, endOffsets, h5, h6, h1, h2]
  rw [he]; decide

-- content coder: three chunks, middle one empty
example : contentDecode (contentEncode snappyLit 2 5 [(0, [1, 2]), (1, [3]), (4, [9, 9, 9])])
    = some [[(0, [1, 2]), (1, [3])], [], [(4, [9, 9, 9])]] := by
  have hsz : (contentEncode snappyLit 2 5 [(0, [1, 2]), (1, [3]), (4, [9, 9, 9])]).length
      < 2 ^ 64 := by
    simp [contentEncode, ContentCoder.add, ContentCoder.flush, ContentCoder.new,
      ContentCoder.write, metaBytes, snappyLit, putUvarints, putUvarint_lt, endOffsets,
      beBytes_length]
  rw [content_roundtrip snappyLit snappyDecode_snappyLit 2 5 _ (by decide) (by decide) hsz]
  decide

example : Gen.FSTValEncode1Hit 5 7 = 9223372051887161349 := by decide
example : Gen.FSTValDecode1Hit (Gen.FSTValEncode1Hit 123456 654321) = (123456, 654321) :=
  onehit_roundtrip _ _ (by decide) (by decide)
example : Gen.decodeFreqHasLocs (Gen.encodeFreqHasLocs 41 true) = (41, true) :=
  freqHasLocs_roundtrip 41 true (by decide)
example : Gen.encodeSynonym 3 9 < Gen.encodeSynonym 4 0 :=
  (synonym_order 3 9 4 0 (by decide) (by decide) (by decide) (by decide)).mpr (Or.inl (by decide))
example : Gen.getChunkSize 1026 5000 100000 = .ok 20000 := rfl
example : Gen.getChunkSize 1025 10 77 = .ok 77 := rfl
example : Gen.getChunkSize 0 10 77 = .error "ErrChunkSizeZero" := rfl

-- CRC-32/IEEE check value of "123456789"
theorem crc32_check : crc32 [49, 50, 51, 52, 53, 54, 55, 56, 57] = 0xCBF43926 := by decide +kernel
example : crcUpdate (crc32 [49, 50, 51, 52]) [53, 54, 55, 56, 57]
    = crc32 ([49, 50, 51, 52] ++ [53, 54, 55, 56, 57]) :=
  (_root_.Zap.Codec.crc32_append _ _).symm

example : decodeField ([1, 2, 3] ++ encodeFooter (Footer.vals
    { numDocs := 1000, storedIndexOffset := 77, fieldsIndexOffset := 88, sectionsIndexOffset := 99,
      docValueOffset := 2 ^ 64 - 1, chunkMode := 1026, version := 16, crc := 0xCBF43926 }))
    "docValueOffset" = some (2 ^ 64 - 1) := by
  rw [footer_roundtrip _ _ _ (by decide) (by decide)]
  rfl

end Zap.Props.Codec

section Report
open Zap.Props.Codec
#print axioms uvarint_putUvarint
#print axioms putUvarint_bytes
#print axioms numUvarintBytes_eq
#print axioms uvarints_putUvarints
#print axioms readN_putUvarints
#print axioms memRead_put
#print axioms memSkip_put
#print axioms memSkip_eq_memRead_pos
#print axioms endOffsets_prefix_sums
#print axioms chunkBoundary_endOffsets
#print axioms chunk_slice
#print axioms intcoder_roundtrip
#print axioms intcoder_reuse
#print axioms intcoder_reuse_state
#print axioms Zap.Codec.setChunkSize_without_reset_is_wrong
#print axioms intcoder_needs_mono
#print axioms content_roundtrip
#print axioms snappyDecode_snappyLit
#print axioms onehit_roundtrip
#print axioms onehit_tagged
#print axioms general_not_onehit
#print axioms freqHasLocs_roundtrip
#print axioms synonym_roundtrip
#print axioms synonym_order
#print axioms vectorCode_order
#print axioms vectorCode_doc
#print axioms vectorCode_score
#print axioms getChunkSize_pos
#print axioms getChunkSize_ok_of_valid
#print axioms getChunkSize_ok_of_valid_full_false
#print axioms chunk_index_lt
#print axioms crcUpdateRaw_append
#print axioms crcUpdate_append
#print axioms crcUpdate_lt
#print axioms crc32_check
#print axioms footer_roundtrip
#print axioms footer_layout
#print axioms footer_size
#print axioms footer_length
end Report
