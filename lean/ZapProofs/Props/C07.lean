/-
  Property C07 (postings iteration).

  Any sequence of `Next` / `Advance` calls on a `PostingsIterator` returns
  exactly the non-excluded hits at or after each target, in order, each with
  its own frequency, norm and locations, and then nil; `Count` equals the number
  of non-excluded hits; the actual bitmap / single-hit accessor describe exactly
  the non-excluded hits; after the actual bitmap has been replaced by a subset
  the run returns exactly that subset.

  Model: `ZapModel.Posting` (mirror of /repo/posting.go).  Specification:
  `Zap.Spec.live`, `Zap.Spec.mkHit`, `Zap.Spec.run` (ZapModel.Spec).
  Proof: simulation, see `ZapProofs.PostingLemmas`.
-/
import ZapProofs.PostingLemmas

namespace Zap
open Zap.Spec

/-- Well-formedness of a postings list as the writer produces it: document
    numbers strictly ascending (a roaring bitmap iterates in that order and the
    streams are written in that order), and a positive chunk size
    (`getChunkSize` never returns 0 for a non-empty general list; the reader
    answers `ErrChunkSizeZero` otherwise). -/
structure PList.WF (p : PList) : Prop where
  asc : match p.rep with | some (.general es) => AscNat (es.map (·.doc)) | _ => True
  cs  : match p.rep with | some (.general _) => 0 < p.chunkSize | _ => True

theorem PList.WF.ascEntries {p : PList} (h : p.WF) : Asc p.entries := by
  have h1 := h.asc
  unfold PList.entries
  cases hrep : p.rep with
  | none => exact List.Pairwise.nil
  | some r =>
    cases r with
    | general es => rw [hrep] at h1; exact asc_of_ascNat h1
    | oneHit d nb => exact List.Pairwise.nil

theorem PList.WF.csPos {p : PList} (h : p.WF) :
    ∀ es, p.rep = some (.general es) → 0 < p.chunkSize := by
  intro es hrep
  have h2 := h.cs
  rw [hrep] at h2
  exact h2

/-- C07, iteration: for every well-formed postings list, every exclusion set,
    every combination of detail flags and every sequence of `Next` / `Advance`
    calls (arbitrary targets, no monotonicity assumed), the iterator answers
    exactly as the specification. -/
theorem C07_run (p : PList) (h : p.WF) (f n l : Bool) (ops : List Op) :
    (It.create p f n l).run ops = Spec.run (Spec.mkHit p f n l) (Spec.live p) ops :=
  run_sim ops _ _ (sim_create p h.ascEntries h.csPos f n l)

/-- C07, `Count`: the number of non-excluded hits (no hypothesis needed). -/
theorem C07_count (p : PList) : p.count = (Spec.live p).length := by
  unfold PList.count Spec.live
  cases hrep : p.rep with
  | none => rfl
  | some r =>
    cases r with
    | general es =>
      dsimp only [PostRep.entries]
      exact length_sub_filter (fun e => excluded p.except e.doc) es
    | oneHit d nb =>
      dsimp only [PostRep.entries]
      by_cases hex : excluded p.except d = true <;> simp [hex]

/-- C07, `ActualBitmap` / `DocNum1Hit`: they describe exactly the non-excluded hits. -/
theorem C07_live (p : PList) (f n l : Bool) :
    (It.create p f n l).live = (Spec.live p).map (·.doc) := by
  unfold It.live Spec.live It.create
  cases hrep : p.rep with
  | none => rfl
  | some r =>
    cases r with
    | general es =>
      dsimp only [PostRep.entries]
      exact filter_map_doc (fun d => !excluded p.except d) es
    | oneHit d nb =>
      dsimp only [PostRep.entries]
      by_cases hex : excluded p.except d = true <;> simp [hex]

/-- C07, `ReplaceActual` by a subset `A` (ascending sublist of the live docs)
    before iteration, general representation: the run returns exactly the hits
    of `A`. -/
theorem C07_replace (p : PList) (h : p.WF) (es : List Entry) (hrep : p.rep = some (.general es))
    (f n l : Bool) (A : List Nat) (hA : A.Sublist ((Spec.live p).map (·.doc))) (ops : List Op) :
    ((It.create p f n l).replaceActual A).run ops
      = Spec.run (Spec.mkHit p f n l) ((Spec.live p).filter (fun e => A.contains e.doc)) ops :=
  run_sim ops _ _
    (sim_replace hrep (entries_general hrep ▸ h.ascEntries) (h.csPos es hrep) f n l A hA)

/-! ### The hypotheses are satisfiable, and the theorems compute -/

namespace C07Example

def ml (pos : Nat) : MLoc := { fid := 0, pos := pos, start := 0, stop := 1, ap := [] }

/-- Six postings over four chunks of size 4 (docs 1,3 | 4 | 9,10 | 17), some
    without locations, one with frequency 0, two of them excluded. -/
def p0 : PList :=
  { rep := some (.general
      [ { doc := 1,  freq := 2, norm := 7, locs := [ml 1, ml 5] },
        { doc := 3,  freq := 1, norm := 8, locs := [ml 2] },
        { doc := 4,  freq := 1, norm := 9, locs := [] },
        { doc := 9,  freq := 3, norm := 5, locs := [ml 3] },
        { doc := 10, freq := 0, norm := 0, locs := [ml 4] },
        { doc := 17, freq := 1, norm := 6, locs := [ml 6] } ]),
    except := some [3, 10, 12],
    chunkSize := 4,
    names := [[102]] }

theorem p0_wf : p0.WF := ⟨by simp [p0, AscNat], by simp [p0]⟩

def ops0 : List Op := [.next, .advance 4, .advance 2, .advance 11, .next, .advance 0]

def loc (pos : Nat) : Loc := { field := [102], pos := pos, start := 0, stop := 1, ap := [] }

/-- `Next` → 1; `Advance 4` → 4 (skipping excluded 3); `Advance 2` (a target
    behind the cursor) → the next hit 9; `Advance 11` → 17 (skipping excluded 10);
    then nil for ever. -/
example : (It.create p0 true true true).run ops0 =
    [ some { doc := 1,  freq := 2, norm := 7, locs := [loc 1, loc 5] },
      some { doc := 4,  freq := 1, norm := 9, locs := [] },
      some { doc := 9,  freq := 3, norm := 5, locs := [loc 3] },
      some { doc := 17, freq := 1, norm := 6, locs := [loc 6] },
      none, none ] := by
  rw [C07_run p0 p0_wf]; decide

/-- The same answers, without locations, when only the frequency is requested. -/
example : (It.create p0 true false false).run ops0 =
    [ some { doc := 1,  freq := 2, norm := 7, locs := [] },
      some { doc := 4,  freq := 1, norm := 9, locs := [] },
      some { doc := 9,  freq := 3, norm := 5, locs := [] },
      some { doc := 17, freq := 1, norm := 6, locs := [] },
      none, none ] := by
  rw [C07_run p0 p0_wf]; decide

example : p0.count = 4 := by rw [C07_count]; decide

example : (It.create p0 false false false).live = [1, 4, 9, 17] := by rw [C07_live]; decide

/-- `ReplaceActual {4, 17}`. -/
example : ((It.create p0 true true true).replaceActual [4, 17]).run [.next, .advance 5, .next] =
    [ some { doc := 4,  freq := 1, norm := 9, locs := [] },
      some { doc := 17, freq := 1, norm := 6, locs := [loc 6] },
      none ] := by
  rw [C07_replace p0 p0_wf _ rfl true true true [4, 17] (by decide)]; decide

-- The model itself, evaluated directly (compiled code, no theorem involved), agrees.
#guard (It.create p0 true true true).run ops0
    == Spec.run (Spec.mkHit p0 true true true) (Spec.live p0) ops0
#guard ((It.create p0 true false true).replaceActual [4, 17]).run [.next, .advance 5, .next]
    == Spec.run (Spec.mkHit p0 true false true)
        ((Spec.live p0).filter (fun e => [4, 17].contains e.doc)) [.next, .advance 5, .next]

/-- A 1-hit list. -/
def p1 : PList := { rep := some (.oneHit 5 77), except := some [2], chunkSize := 0, names := [] }

theorem p1_wf : p1.WF := ⟨trivial, trivial⟩

example : (It.create p1 true true false).run [.advance 3, .next] =
    [ some { doc := 5, freq := 1, norm := 77, locs := [] }, none ] := by
  rw [C07_run p1 p1_wf]; decide

end C07Example

#print axioms C07_run
#print axioms C07_count
#print axioms C07_live
#print axioms C07_replace

end Zap
