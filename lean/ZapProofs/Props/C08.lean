/-
  C08: dictionary enumeration (`DictionaryIterator.Next` to exhaustion) returns
  exactly the accepted terms in range, each with its true cardinality, for any
  prior history of the iterator's scratch postings list.
-/
import ZapProofs.DictLemmas

namespace Zap
open DictL

/-- C08 (on the fixed tree, `clears1Hit = true`): for ANY initial scratch state. -/
theorem C08_dict (accept : Bytes → Bool) (lo hi : Option Bytes) (terms : List (Bytes × PostRep))
    (hwf : ∀ p ∈ terms, RepWF p.2) (sc : Scratch) :
    dictIterate true accept lo hi sc terms
      = (terms.filter (fun p => accept p.1 && inRange lo hi p.1)).map
          (fun p => (p.1, p.2.docs.length)) := by
  induction terms generalizing sc with
  | nil => rfl
  | cons p rest ih =>
    obtain ⟨t, r⟩ := p
    have hr : RepWF r := hwf (t, r) (List.mem_cons_self)
    have hrest : ∀ p ∈ rest, RepWF p.2 := fun p hp => hwf p (List.mem_cons_of_mem _ hp)
    unfold dictIterate
    cases hc : (accept t && inRange lo hi t)
    · rw [List.filter_cons_of_neg (by simp [hc])]
      simpa using ih hrest sc
    · rw [List.filter_cons_of_pos (by simp [hc])]
      simp only [if_true, List.map_cons]
      rw [ih hrest, count_read_true sc r hr]

/-- The pinned tree (`clears1Hit = false`, defect D1): a general entry visited
    after a 1-hit entry reports count 1. -/
theorem C08_stale_1hit_counterexample :
    ∃ terms : List (Bytes × PostRep), (∀ p ∈ terms, RepWF p.2) ∧
      dictIterate false (fun _ => true) none none {} terms
        ≠ (terms.filter (fun p => (fun _ => true) p.1 && inRange none none p.1)).map
            (fun p => (p.1, p.2.docs.length)) :=
  ⟨[([97], .oneHit 5 3),
    ([122], .general [⟨0, 1, 3, []⟩, ⟨1, 1, 3, []⟩, ⟨2, 1, 3, []⟩])],
   by decide, by decide⟩

/-- What the pinned tree reports on that dictionary: `zebra` (3 docs) counts 1. -/
example :
    dictIterate false (fun _ => true) none none {}
      [([97], .oneHit 5 3), ([122], .general [⟨0, 1, 3, []⟩, ⟨1, 1, 3, []⟩, ⟨2, 1, 3, []⟩])]
      = [([97], 1), ([122], 1)] := by decide

/-- ... and the fixed tree on the same data, starting from a dirty scratch list. -/
example :
    dictIterate true (fun _ => true) none none { normBits1Hit := 9, docNum1Hit := 4, card := 7, hasPostings := true }
      [([97], .oneHit 5 3), ([122], .general [⟨0, 1, 3, []⟩, ⟨1, 1, 3, []⟩, ⟨2, 1, 3, []⟩])]
      = [([97], 1), ([122], 3)] := by decide

/-- `RepWF` is necessary: a 1-hit entry with norm bits 0 visited after a general
    entry reports the general entry's cardinality (2), not 1 — even on the fixed tree. -/
example :
    dictIterate true (fun _ => true) none none {}
      [([97], .general [⟨0, 1, 3, []⟩, ⟨1, 1, 3, []⟩]), ([98], .oneHit 5 0)]
      = [([97], 2), ([98], 2)]
    ∧ ([([97], PostRep.general [⟨0, 1, 3, []⟩, ⟨1, 1, 3, []⟩]), ([98], PostRep.oneHit 5 0)].map
          (fun p => (p.1, p.2.docs.length))) = [([97], 2), ([98], 1)] := by decide

/-- Range and automaton filtering, both sides computed. -/
example :
    dictIterate true (fun t => t != [98]) (some [98]) (some [100]) {}
      [([97], .oneHit 1 1), ([98], .oneHit 2 1), ([99], .general [⟨0, 1, 3, []⟩, ⟨4, 2, 3, []⟩]),
       ([99, 0], .oneHit 7 2), ([100], .oneHit 3 1)]
      = [([99], 2), ([99, 0], 1)] := by decide

/-! ### `RepWF` holds for what the merge writes -/

/-- Whatever `chooseRep` (`use1HitEncoding` + `writePostings`) selects is
    well-formed provided every frequency-1 entry has norm bits that are non-zero
    in their low 31 bits (the 1-hit FST value keeps only `mask31Bits & normBits`). -/
theorem C08_merge_writes_wf (parts : List (List Entry))
    (hn : ∀ p ∈ parts, ∀ e ∈ p, e.freq = 1 → e.norm % 2 ^ 31 ≠ 0)
    (r : PostRep) (h : chooseRep parts = some r) : RepWF r := by
  cases r with
  | general es => trivial
  | oneHit d nb =>
    obtain ⟨e, hes, _, _, hf, _, hnb⟩ := chooseRep_oneHit_inv h
    have hmem : e ∈ parts.flatMap id := by rw [hes]; exact List.mem_singleton.2 rfl
    obtain ⟨p, hp, he⟩ := List.mem_flatMap.1 hmem
    show nb ≠ 0
    rw [hnb]
    exact hn p hp e he hf

/-- The same under the hypothesis in its natural form: norm bits of frequency-1
    entries are a positive float32 pattern (`0 < norm < 2^31`). Then the 1-hit
    form also carries the norm bits unchanged. -/
theorem C08_merge_writes_wf' (parts : List (List Entry))
    (hn : ∀ p ∈ parts, ∀ e ∈ p, e.freq = 1 → 0 < e.norm ∧ e.norm < 2 ^ 31)
    (r : PostRep) (h : chooseRep parts = some r) : RepWF r :=
  C08_merge_writes_wf parts
    (fun p hp e he hf => by
      have := hn p hp e he hf
      rw [Nat.mod_eq_of_lt this.2]; omega) r h

/-- The norm hypothesis is necessary: norm bits `0` or `2^31` (sign bit only)
    make `chooseRep` write a 1-hit with norm bits 0. -/
example : chooseRep [[⟨4, 1, 0, []⟩]] = some (.oneHit 4 0) := by decide
example : chooseRep [[], [⟨4, 1, 2147483648, []⟩]] = some (.oneHit 4 0) := by decide
example : chooseRep [[⟨4, 1, 7, []⟩], []] = some (.general [⟨4, 1, 7, []⟩]) := by decide
example : chooseRep [[], [⟨4, 1, 7, []⟩]] = some (.oneHit 4 7) := by decide

end Zap

#print axioms Zap.C08_dict
#print axioms Zap.C08_stale_1hit_counterexample
#print axioms Zap.C08_merge_writes_wf
#print axioms Zap.C08_merge_writes_wf'
