/-
  C08: dictionary enumeration (`DictionaryIterator.Next` to exhaustion) returns
  exactly the accepted terms in range, each with its true cardinality, for any
  prior history of the iterator's scratch postings list.
-/
import ZapProofs.DictLemmas

namespace Zap
open DictL

/-- C08 (on the fixed tree, `clears1Hit = true`): for ANY initial scratch state. -/
theorem C08_dict (accept : Bytes → Bool) (lo hi : Option Bytes) (terms : List (Bytes × PostRep))
    (hwf : ∀ p ∈ terms, RepWF p.2) (sc : Scratch) :
    dictIterate true accept lo hi sc terms
      = (terms.filter (fun p => accept p.1 && inRange lo hi p.1)).map
          (fun p => (p.1, p.2.docs.length)) := by
  induction terms generalizing sc with
  | nil => rfl
  | cons p rest ih =>
    obtain ⟨t, r⟩ := p
    have hr : RepWF r := hwf (t, r) (List.mem_cons_self)
    have hrest : ∀ p ∈ rest, RepWF p.2 := fun p hp => hwf p (List.mem_cons_of_mem _ hp)
    unfold dictIterate
    cases hc : (accept t && inRange lo hi t)
    · rw [List.filter_cons_of_neg (by simp [hc])]
      simpa using ih hrest sc
    · rw [List.filter_cons_of_pos (by simp [hc])]
      simp only [if_true, List.map_cons]
      rw [ih hrest, count_read_true sc r hr]

/-- The pinned tree (`clears1Hit = false`, defect D1): a general entry visited
    after a 1-hit entry reports count 1. -/
theorem C08_stale_1hit_counterexample :
    ∃ terms : List (Bytes × PostRep), (∀ p ∈ terms, RepWF p.2) ∧
      dictIterate false (fun _ => true) none none {} terms
        ≠ (terms.filter (fun p => (fun _ => true) p.1 && inRange none none p.1)).map
            (fun p => (p.1, p.2.docs.length)) :=
  ⟨[([97], .oneHit 5 3),
    ([122], .general [⟨0, 1, 3, []⟩, ⟨1, 1, 3, []⟩, ⟨2, 1, 3, []⟩])],
   by decide, by decide⟩

/-- What the pinned tree reports on that dictionary: `zebra` (3 docs) counts 1. -/
example :
    dictIterate false (fun _ => true) none none {}
      [([97], .oneHit 5 3), ([122], .general [⟨0, 1, 3, []⟩, ⟨1, 1, 3, []⟩, ⟨2, 1, 3, []⟩])]
      = [([97], 1), ([122], 1)] := by decide

/-- ... and the fixed tree on the same data, starting from a dirty scratch list. -/
example :
    dictIterate true (fun _ => true) none none { normBits1Hit := 9, docNum1Hit := 4, card := 7, hasPostings := true }
      [([97], .oneHit 5 3), ([122], .general [⟨0, 1, 3, []⟩, ⟨1, 1, 3, []⟩, ⟨2, 1, 3, []⟩])]
      = [([97], 1), ([122], 3)] := by decide

/-- `RepWF` is necessary: a 1-hit entry with norm bits 0 visited after a general
    entry reports the general entry's cardinality (2), not 1 — even on the fixed tree. -/
example :
    dictIterate true (fun _ => true) none none {}
      [([97], .general [⟨0, 1, 3, []⟩, ⟨1, 1, 3, []⟩]), ([98], .oneHit 5 0)]
      = [([97], 2), ([98], 2)]
    ∧ ([([97], PostRep.general [⟨0, 1, 3, []⟩, ⟨1, 1, 3, []⟩]), ([98], PostRep.oneHit 5 0)].map
          (fun p => (p.1, p.2.docs.length))) = [([97], 2), ([98], 1)] := by decide

/-- Range and automaton filtering, both sides computed. -/
example :
    dictIterate true (fun t => t != [98]) (some [98]) (some [100]) {}
      [([97], .oneHit 1 1), ([98], .oneHit 2 1), ([99], .general [⟨0, 1, 3, []⟩, ⟨4, 2, 3, []⟩]),
       ([99, 0], .oneHit 7 2), ([100], .oneHit 3 1)]
      = [([99], 2), ([99, 0], 1)] := by decide

/-! ### `RepWF` holds for what the merge writes -/

/-- Whatever `chooseRep` (`use1HitEncoding` + `writePostings`) selects is well-formed: a 1-hit
    value always carries non-zero norm bits, so a reader recognises it.  No hypothesis on the norms
    (before the repair of D14 this needed "norm bits non-zero in their low 31 bits"). -/
theorem C08_merge_writes_wf (parts : List (List Entry))
    (r : PostRep) (h : chooseRep parts = some r) : RepWF r := by
  cases r with
  | general es => trivial
  | oneHit d nb =>
    obtain ⟨e, _, _, _, _, _, _, hnz, _⟩ := chooseRep_oneHit_inv h
    exact hnz

/-- Defect D14, evaluated: the choice as it was wrote a 1-hit value with norm bits 0 for a lone
    frequency-1 hit whose norm bits are 0 or 2^31 (an analysed length of 0, 2^31, 2^32, ...) - a value
    that is NOT well-formed: `Count` and the enumeration take it for an empty list, and the next merge
    drops the term.  The current choice writes the general form. -/
theorem C08_D14_counterexample :
    chooseRepD14 [[⟨4, 1, 0, []⟩]] = some (.oneHit 4 0) ∧ ¬ RepWF (.oneHit 4 0) ∧
    chooseRepD14 [[], [⟨4, 1, 2147483648, []⟩]] = some (.oneHit 4 0) ∧
    chooseRep [[⟨4, 1, 0, []⟩]] = some (.general [⟨4, 1, 0, []⟩]) ∧
    chooseRep [[], [⟨4, 1, 2147483648, []⟩]] = some (.general [⟨4, 1, 2147483648, []⟩]) := by
  refine ⟨by decide, by decide, by decide, by decide, by decide⟩

example : chooseRep [[⟨4, 1, 7, []⟩], []] = some (.general [⟨4, 1, 7, []⟩]) := by decide
example : chooseRep [[], [⟨4, 1, 7, []⟩]] = some (.oneHit 4 7) := by decide

end Zap

#print axioms Zap.C08_dict
#print axioms Zap.C08_stale_1hit_counterexample
#print axioms Zap.C08_merge_writes_wf
#print axioms Zap.C08_D14_counterexample
