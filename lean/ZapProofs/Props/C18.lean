/-
  C18: cancelled merge - for every instant at which the close channel is closed, the outcome is
  (`ErrClosed`, no file) or (success, complete file); closed before the call => the first poll
  returns `ErrClosed` and nothing is written.

  PROVED (generic, once; ZapProofs/TheoryLemmasPersist.lean)
  * `Persist.cancel_outcomes`: for EVERY run shape satisfying `wellChecked` and EVERY closing
    instant (before the first step, at any step, never): (`closed`, cleanup ran) or (success,
    every write accepted in order, no cleanup).
  * `Persist.cancel_before_start`: closed before the call and at least one poll in the run:
    the FIRST poll returns `closed`; the writes accepted are those before it.
  * `Persist.outcomes`: the same dichotomy with a write/engine fault happening as well.

  CHECKED AGAINST THE SOURCE ON EVERY RUN (`decide` on `Gen.Facts.pollSites`, and C17's side
  condition on `Gen.Facts.errFacts` for the callers)
  * every `if isClosed(closeCh)` site returns `seg.ErrClosed`;
  * each of the six merge routines has at least one site, and no other function has one;
  * the sites in `vectorIndexOpaque.mergeAndWriteVectorIndexes` release the reconstructed
    indexes before returning (`releasesBefore >= 1`);
  * every caller between a site and `mergeSegmentBases` returns the error, and
    `mergeSegmentBases` removes the file (C17's `c17SideCondition`).

  MODELLED, NOT VERIFIED
  * The channel is a monotone boolean that flips at an arbitrary step of the run; a poll site
    observes it exactly when executed.  Between two polls the merge keeps writing.
  * WHERE a site sits (inside which loop) is not extracted.  The run shape is therefore
    arbitrary, except for ONE positional assumption made by reading merge.go: the site of
    `mergeToWriter` is executed before anything is written (`firstPoll`).  It is only used for
    "closed before the call => nothing written".
  * A site with `returnsErrClosed = false` is modelled as a swallowed error (the run goes on);
    the side condition excludes it.
-/
import ZapProofs.Props.C17

namespace Zap.C18
open Zap.Gen Zap.Gen.ErrDisp Zap.Theory Zap.Theory.Persist Zap.C17

/-- The merge routines that must poll. -/
def expectedPollFns : List String := [
  "mergeToWriter", "mergeStoredAndRemap", "mergeAndPersistInvertedSection",
  "mergeAndPersistSynonymSection", "faissVectorIndexSection.Merge",
  "vectorIndexOpaque.mergeAndWriteVectorIndexes"
]

/-- The decidable side condition (see header). -/
def c18SideCondition (ps : List PollSite) : Bool :=
  ps.all (fun s => !unrec s.fn && s.returnsErrClosed && expectedPollFns.contains s.fn)
  && expectedPollFns.all (fun f => ps.any (·.fn == f))
  && ps.all (fun s => s.fn != "vectorIndexOpaque.mergeAndWriteVectorIndexes"
                      || decide (1 ≤ s.releasesBefore))

/-- INSTANCE: the obligation that breaks when the Go source changes. -/
theorem c18SideCondition_holds : c18SideCondition Facts.pollSites = true := by decide +kernel

/-- The links a poll site contributes itself: none if it returns `ErrClosed`. -/
def pollHead (s : PollSite) : List ErrDisp := if s.returnsErrClosed then [] else [ignored]

/-- One step of a merge body: an ordinary operation, or one of the extracted poll sites reached
    through some chain of callers. -/
inductive Step
  | op (o : Op)
  | poll (site : PollSite) (callers : List ErrDisp)

def Step.toOp : Step → Op
  | .op o => o
  | .poll s c => ⟨.poll, pollHead s ++ c⟩

/-- A step is drawn from the facts. -/
def Step.FromFacts : Step → Prop
  | .op o => C17.FromFacts Facts.errFacts o
  | .poll s c => s ∈ Facts.pollSites ∧ C17.FromFacts Facts.errFacts ⟨.poll, c⟩

/-- The site of `mergeToWriter` itself: executed first, directly under the driver. -/
def firstPoll : Op := ⟨.poll, []⟩

/-- The run of `mergeSegmentBases` for a body of steps. -/
def cancelRun (body : List Step) : List Op :=
  mergeRun Facts.errFacts (firstPoll :: body.map Step.toOp)

theorem site_returns (s : PollSite) (h : s ∈ Facts.pollSites) : pollHead s = [] := by
  have hsc := c18SideCondition_holds
  simp only [c18SideCondition, Bool.and_eq_true, List.all_eq_true] at hsc
  have := (hsc.1.1 s h).1.2
  simp [pollHead, this]

theorem cancelRun_wellChecked (body : List Step) (h : ∀ st ∈ body, st.FromFacts) :
    wellChecked true (cancelRun body) = true := by
  apply mergeRun_wellChecked
  intro op hop
  rcases List.mem_cons.mp hop with rfl | hop
  · intro d hd; simp [firstPoll] at hd
  · obtain ⟨st, hst, rfl⟩ := List.mem_map.mp hop
    have := h st hst
    cases st with
    | op o => exact this
    | poll s c =>
      obtain ⟨hs, hc⟩ := this
      simp only [Step.toOp, site_returns s hs, List.nil_append]
      exact hc

/-- C18: EVERY merge body drawn from the facts, EVERY closing instant (`some 0` = before the
    call, `some k` = during step k, `none` = never): the outcome is (`ErrClosed`, file removed)
    or (success, every write accepted in order, file kept). -/
theorem C18_cancel_outcomes (body : List Step) (h : ∀ st ∈ body, st.FromFacts)
    (closing : Option Nat) :
    ((run none closing (cancelRun body)).err = some .closed
      ∧ (run none closing (cancelRun body)).cleaned = true)
    ∨ run none closing (cancelRun body) = ⟨none, false, writeIdx 0 (cancelRun body)⟩ := by
  rcases cancel_outcomes true _ closing (cancelRun_wellChecked body h) with h | h
  · exact Or.inl ⟨h.1, h.2 rfl⟩
  · exact Or.inr h

/-- C18: closed before the call => `ErrClosed`, file removed, nothing written. -/
theorem C18_closed_before_call (body : List Step) (h : ∀ st ∈ body, st.FromFacts) :
    run none (some 0) (cancelRun body) = ⟨some .closed, true, []⟩ := by
  have hw := cancelRun_wellChecked body h
  obtain ⟨h1, h2, h3⟩ := cancel_before_start true (cancelRun body) hw
    (by simp [cancelRun, mergeRun, mkRun, firstPoll])
  have h3' : (run none (some 0) (cancelRun body)).bytes = [] := by
    rw [h3]; simp [cancelRun, mergeRun, mkRun, firstPoll, writeIdx]
  have h2 := h2 rfl
  generalize run none (some 0) (cancelRun body) = o at h1 h2 h3'
  cases o
  simp only at h1 h2 h3'
  simp [h1, h2, h3']

/-- C18 together with faults: whatever fails and whenever the channel closes, the outcome is an
    error with the file removed, or complete success. -/
theorem C18_cancel_and_fault (body : List Step) (h : ∀ st ∈ body, st.FromFacts)
    (fault closing : Option Nat) :
    ((run fault closing (cancelRun body)).err.isSome = true
      ∧ (run fault closing (cancelRun body)).cleaned = true)
    ∨ run fault closing (cancelRun body) = ⟨none, false, writeIdx 0 (cancelRun body)⟩ := by
  rcases outcomes true _ fault closing (cancelRun_wellChecked body h) with h | h
  · exact Or.inl ⟨h.1, h.2 rfl⟩
  · exact Or.inr h

/-- C18/C19: the vector sites free the reconstructed indexes before returning. -/
theorem C18_vector_sites_release :
    ∀ s ∈ Facts.pollSites, s.fn = "vectorIndexOpaque.mergeAndWriteVectorIndexes" →
      1 ≤ s.releasesBefore := by decide +kernel

/-! ### Examples -/

/-- Hypotheses are satisfiable: a body with the stored-fields poll (under `mergeToWriter`'s
    `mergeStoredAndRemap` returned), writes, and a vector poll two calls deep. -/
def sampleBody : List Step :=
  [ .op ⟨.write, [returned, returned]⟩,
    .poll ⟨"mergeStoredAndRemap", true, 0⟩ [returned],
    .op ⟨.write, [returned, returned]⟩,
    .poll ⟨"vectorIndexOpaque.mergeAndWriteVectorIndexes", true, 1⟩ [returned, returned],
    .op ⟨.write, [sticky, returned]⟩ ]

instance (st : Step) : Decidable st.FromFacts := by
  cases st <;> unfold Step.FromFacts <;> infer_instance

example : ∀ st ∈ sampleBody, st.FromFacts := by decide +kernel

/-- Every closing instant of that run, enumerated: closed at or before step 2 -> `ErrClosed`
    at the poll of step 2 (one write done, file removed); closed during steps 3..4 -> at the
    poll of step 4; later or never -> success with all 3 + 8 writes. -/
example : (List.range 8).map (fun c => run none (some c) (cancelRun sampleBody))
    = [ ⟨some .closed, true, []⟩, ⟨some .closed, true, [1]⟩, ⟨some .closed, true, [1]⟩,
        ⟨some .closed, true, [1, 3]⟩, ⟨some .closed, true, [1, 3]⟩,
        ⟨none, false, [1, 3, 5, 6, 7, 8, 9, 10, 11, 12, 13]⟩,
        ⟨none, false, [1, 3, 5, 6, 7, 8, 9, 10, 11, 12, 13]⟩,
        ⟨none, false, [1, 3, 5, 6, 7, 8, 9, 10, 11, 12, 13]⟩ ] := by decide +kernel

/-- Violations are rejected: a site that does not return `ErrClosed`; a merge routine without
    any site; a vector site that returns without freeing the indexes; a site in an unexpected
    function; an extraction failure. -/
example : c18SideCondition
    (Facts.pollSites.map fun s => if s.fn == "mergeStoredAndRemap"
                                    then { s with returnsErrClosed := false } else s) = false := by
  decide +kernel
example : c18SideCondition (Facts.pollSites.filter (·.fn != "mergeToWriter")) = false := by
  decide +kernel
example : c18SideCondition
    (Facts.pollSites.map fun s => { s with releasesBefore := 0 }) = false := by decide +kernel
example : c18SideCondition (Facts.pollSites ++ [⟨"someOtherFn", true, 0⟩]) = false := by
  decide +kernel
example : c18SideCondition [⟨"isClosed UNRECOGNISED", false, 0⟩] = false := by decide +kernel

/-- In the model the violation is real: a poll whose `ErrClosed` reaches a driver that returns
    WITHOUT cleanup gives (`ErrClosed`, file left behind) - neither allowed outcome. -/
example : wellChecked true [⟨.poll, [returned]⟩, ⟨.write, [cleanupReturned]⟩,
                            ⟨.flush, [cleanupReturned]⟩] = false := by decide
example : run none (some 0) [⟨.poll, [returned]⟩, ⟨.write, [cleanupReturned]⟩,
                             ⟨.flush, [cleanupReturned]⟩] = ⟨some .closed, false, []⟩ := by decide

end Zap.C18

#print axioms Zap.Theory.Persist.cancel_outcomes
#print axioms Zap.Theory.Persist.cancel_before_start
#print axioms Zap.C18.c18SideCondition_holds
#print axioms Zap.C18.C18_cancel_outcomes
#print axioms Zap.C18.C18_closed_before_call
#print axioms Zap.C18.C18_cancel_and_fault
#print axioms Zap.C18.C18_vector_sites_release
