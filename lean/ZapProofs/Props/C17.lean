/-
  C17: a failed write => error and no file; success => complete file.

  PROVED (generic, once; ZapProofs/TheoryLemmasPersist.lean)
  * `Persist.fault_any_position`: for EVERY run shape (list of write / flush / other / poll
    operations, each with the chain of error dispositions from its call site up to the driver)
    satisfying the decidable `wellChecked`, EVERY fault position and EVERY closing instant:
    an error is returned and the driver's cleanup (close + remove the file) ran.
  * `Persist.no_fault`: without fault, for EVERY run shape: success, no cleanup, every write
    accepted, in order.
  * `Persist.outcomes`: nothing in between.

  CHECKED AGAINST THE SOURCE ON EVERY RUN (`c17SideCondition Gen.Facts.errFacts`, `decide`)
  * `PersistSegmentBase` and `mergeSegmentBases` consist of exactly: `os.OpenFile` (returned:
    nothing to clean yet), the cleanup closure (`f.Close`, `os.Remove`, results ignored - as
    expected inside the cleanup itself), and then calls that are ALL `cleanupReturned`, namely
    exactly the expected ones (…ToWriter, [persistFooter, br.Flush,] f.Sync, f.Close).
  * in every function below the drivers that can see a write error no call is `ignored`;
    `sticky` (unchecked write) occurs only in `persistFieldsSection` and only on
    `binary.Write`; the buffered writer is flushed by a checked Flush (`br.Flush`
    cleanupReturned in `mergeSegmentBases`, `br.w.Flush` returned in
    `persistSegmentBaseToWriter`); the expected (function, callee) pairs are all present; no
    UNRECOGNISED entry.

  MODELLED, NOT VERIFIED
  * `bufio.Writer` latches its first error (its documented contract); `CountHashWriter.Write`
    passes the error of the writer below it through (count.go, 4 lines, by reading).
  * A fault is "operation number p fails"; a short write before the failure is covered
    because the conclusions do not depend on the bytes of a failed run.  Physical write
    boundaries (where the buffer spills) are below the model: a physical failure surfaces at
    some later logical write or at Flush, which is a fault position of the model.
  * The chain of an operation is the list of dispositions of the static call chain; WHICH
    chains occur is not extracted: the theorem quantifies over ALL bodies whose links are
    dispositions of facts of the inner functions (`FromFacts`).  The call graph itself
    (`x.Persist` = the section implementations, etc.) is by reading.
  * `f.Sync` / `f.Close` failures cannot be injected by the harness; they are covered by the
    theorem only.  That `os.Remove` succeeds is OS behaviour.
  * `faissVectorIndexSection.Persist` is in the list since D6 was fixed (its call of
    `vo.writeVectorIndexes` is now `returned`; on the pinned tree it was `ignored` and this
    side condition - like C19's - failed on it, see the `patch` examples below).
-/
import ZapModel.Gen.Facts
import ZapModel.Theory.Str
import ZapProofs.TheoryLemmasPersist

namespace Zap.C17
open Zap.Gen Zap.Gen.ErrDisp Zap.Theory Zap.Theory.Persist

/-- (callee, disposition) of the facts of one function, in source order. -/
def callsOf (fs : List ErrFact) (fn : String) : List (String × ErrDisp) :=
  (fs.filter (·.fn == fn)).map fun e => (e.callee, e.disp)

/-- The cleanup closure: its own results are dropped, as expected. -/
def closureCalls : List (String × ErrDisp) :=
  [("os.OpenFile", returned), ("f.Close", ignored), ("os.Remove", ignored)]

/-- A driver is exactly: open, closure, then the expected calls, all `cleanupReturned`. -/
def driverOK (fs : List ErrFact) (fn : String) (expected : List String) : Bool :=
  callsOf fs fn == closureCalls ++ expected.map (·, cleanupReturned)

/-- Functions below the drivers through which a write error (or `ErrClosed`) travels. -/
def innerFns : List String := [
  "persistSegmentBaseToWriter", "mergeToWriter", "interim.convert",
  "invertedTextIndexSection.Persist", "synonymIndexSection.Persist",
  "faissVectorIndexSection.Persist",
  "invertedTextIndexSection.Merge", "synonymIndexSection.Merge", "faissVectorIndexSection.Merge",
  "persistFooter", "persistFieldsSection",
  "vectorIndexOpaque.writeVectorIndexes", "vectorIndexOpaque.mergeAndWriteVectorIndexes"
]

/-- Calls that must be present (function, callee). -/
def expectedInner : List (String × String) := [
  ("persistSegmentBaseToWriter", "br.Write"),
  ("persistSegmentBaseToWriter", "persistFooter"),
  ("persistSegmentBaseToWriter", "br.w.Flush"),
  ("mergeToWriter", "mergeStoredAndRemap"),
  ("mergeToWriter", "x.Merge"),
  ("mergeToWriter", "persistFieldsSection"),
  ("interim.convert", "s.writeStoredFields"),
  ("interim.convert", "x.Persist"),
  ("interim.convert", "persistFieldsSection"),
  ("invertedTextIndexSection.Persist", "invIndexOpaque.writeDicts"),
  ("synonymIndexSection.Persist", "synIndexOpaque.writeThesauri"),
  ("faissVectorIndexSection.Persist", "vo.writeVectorIndexes"),
  ("invertedTextIndexSection.Merge", "mergeAndPersistInvertedSection"),
  ("synonymIndexSection.Merge", "mergeAndPersistSynonymSection"),
  ("faissVectorIndexSection.Merge", "vo.flushSectionMetadata"),
  ("faissVectorIndexSection.Merge", "vo.mergeAndWriteVectorIndexes"),
  ("persistFooter", "binary.Write"),
  ("persistFieldsSection", "writeUvarints"),
  ("persistFieldsSection", "w.Write"),
  ("persistFieldsSection", "binary.Write"),
  ("vectorIndexOpaque.writeVectorIndexes", "w.Write"),
  ("vectorIndexOpaque.mergeAndWriteVectorIndexes", "v.flushVectorIndex")
]

/-- No fact of an inner function is `ignored`; `sticky` only on `binary.Write` in
    `persistFieldsSection`. -/
def innerFactOK (e : ErrFact) : Bool :=
  !innerFns.contains e.fn
  || (e.disp != ignored
      && (e.disp != sticky || (e.fn == "persistFieldsSection" && e.callee == "binary.Write")))

/-- The decidable side condition (see header). -/
def c17SideCondition (fs : List ErrFact) : Bool :=
  fs.all (fun e => !unrec e.fn && !unrec e.callee)
  && driverOK fs "PersistSegmentBase" ["persistSegmentBaseToWriter", "f.Sync", "f.Close"]
  && driverOK fs "mergeSegmentBases"
       ["mergeToWriter", "persistFooter", "br.Flush", "f.Sync", "f.Close"]
  && fs.all innerFactOK
  && expectedInner.all (fun p => fs.any fun e => e.fn == p.1 && e.callee == p.2)
  && fs.contains ⟨"persistSegmentBaseToWriter", "br.w.Flush", returned⟩
  && (callsOf fs "persistFooter").length == 8

/-- INSTANCE: the obligation that breaks when the Go source changes. -/
theorem c17SideCondition_holds : c17SideCondition Facts.errFacts = true := by decide +kernel

/-! ### Run shapes of the two drivers, read off the facts -/

/-- The disposition of the LAST call of `callee` in `fn` (source order); `ignored` if there is
    none, so that a missing fact cannot help. -/
def lastDisp (fs : List ErrFact) (fn callee : String) : ErrDisp :=
  (((fs.filter fun e => e.fn == fn && e.callee == callee).map (·.disp)).getLast?).getD ignored

/-- A link of an inner chain is the disposition of some fact of an inner function; an
    unchecked (`sticky`) link belongs to a write. -/
def FromFacts (fs : List ErrFact) (op : Op) : Prop :=
  ∀ d ∈ op.chain, (∃ e ∈ fs, innerFns.contains e.fn = true ∧ e.disp = d)
                  ∧ (d = sticky → op.kind = .write)

instance (fs : List ErrFact) (op : Op) : Decidable (FromFacts fs op) := by
  unfold FromFacts; infer_instance

/-- `PersistSegmentBase`: the operations of `persistSegmentBaseToWriter` before its Flush (any
    list `body`, chains below the driver), then that Flush, then `f.Sync`, `f.Close`. -/
def persistRun (fs : List ErrFact) (body : List Op) : List Op :=
  mkRun (lastDisp fs "PersistSegmentBase" "persistSegmentBaseToWriter") body
    [ ⟨.flush, [lastDisp fs "persistSegmentBaseToWriter" "br.w.Flush",
                lastDisp fs "PersistSegmentBase" "persistSegmentBaseToWriter"]⟩,
      ⟨.other, [lastDisp fs "PersistSegmentBase" "f.Sync"]⟩,
      ⟨.other, [lastDisp fs "PersistSegmentBase" "f.Close"]⟩ ]

/-- `mergeSegmentBases`: the operations of `mergeToWriter` (any list `body`; may contain polls),
    then the eight footer writes, `br.Flush`, `f.Sync`, `f.Close`. -/
def mergeRun (fs : List ErrFact) (body : List Op) : List Op :=
  mkRun (lastDisp fs "mergeSegmentBases" "mergeToWriter") body
    (List.replicate 8 ⟨.write, [lastDisp fs "persistFooter" "binary.Write",
                                 lastDisp fs "mergeSegmentBases" "persistFooter"]⟩
     ++ [ ⟨.flush, [lastDisp fs "mergeSegmentBases" "br.Flush"]⟩,
          ⟨.other, [lastDisp fs "mergeSegmentBases" "f.Sync"]⟩,
          ⟨.other, [lastDisp fs "mergeSegmentBases" "f.Close"]⟩ ])

theorem innerOK_of_fromFacts (op : Op) (h : FromFacts Facts.errFacts op) : innerOK op = true := by
  simp only [innerOK, List.all_eq_true]
  intro d hd
  obtain ⟨⟨e, he, hfn, hdisp⟩, hst⟩ := h d hd
  have hsc := c17SideCondition_holds
  simp only [c17SideCondition, Bool.and_eq_true, List.all_eq_true] at hsc
  have hok := hsc.1.1.1.2 e he
  simp only [innerFactOK, hfn, Bool.not_true, Bool.false_or, Bool.and_eq_true, hdisp] at hok
  cases d with
  | returned => simp [passes]
  | cleanupReturned => simp [passes]
  | ignored => simp at hok
  | sticky => simp [passes, hst rfl]

theorem persistRun_wellChecked (body : List Op) (h : ∀ op ∈ body, FromFacts Facts.errFacts op) :
    wellChecked true (persistRun Facts.errFacts body) = true := by
  have e1 : lastDisp Facts.errFacts "PersistSegmentBase" "persistSegmentBaseToWriter"
      = cleanupReturned := by decide +kernel
  unfold persistRun
  rw [e1]
  exact wellChecked_mkRun body _ (fun op hop => innerOK_of_fromFacts op (h op hop))
    (by decide +kernel) (by decide +kernel)

theorem mergeRun_wellChecked (body : List Op) (h : ∀ op ∈ body, FromFacts Facts.errFacts op) :
    wellChecked true (mergeRun Facts.errFacts body) = true := by
  have e1 : lastDisp Facts.errFacts "mergeSegmentBases" "mergeToWriter" = cleanupReturned := by
    decide +kernel
  unfold mergeRun
  rw [e1]
  exact wellChecked_mkRun body _ (fun op hop => innerOK_of_fromFacts op (h op hop))
    (by decide +kernel) (by decide +kernel)

/-! ### C17 -/

/-- C17 for `PersistSegmentBase`: EVERY body, EVERY fault position (any write, the Flush,
    `Sync`, `Close`): an error is returned and the file was closed and removed. -/
theorem C17_persist_fault (body : List Op) (h : ∀ op ∈ body, FromFacts Facts.errFacts op)
    (p : Nat) (hp : p < (persistRun Facts.errFacts body).length) :
    (run (some p) none (persistRun Facts.errFacts body)).err.isSome = true
    ∧ (run (some p) none (persistRun Facts.errFacts body)).cleaned = true := by
  have := fault_any_position true _ p none (persistRun_wellChecked body h) hp
  exact ⟨this.1, this.2 rfl⟩

/-- C17 for `mergeSegmentBases`: EVERY body, EVERY fault position, EVERY closing instant. -/
theorem C17_merge_fault (body : List Op) (h : ∀ op ∈ body, FromFacts Facts.errFacts op)
    (p : Nat) (closing : Option Nat) (hp : p < (mergeRun Facts.errFacts body).length) :
    (run (some p) closing (mergeRun Facts.errFacts body)).err.isSome = true
    ∧ (run (some p) closing (mergeRun Facts.errFacts body)).cleaned = true := by
  have := fault_any_position true _ p closing (mergeRun_wellChecked body h) hp
  exact ⟨this.1, this.2 rfl⟩

/-- C17, success clause: no fault (and not cancelled) => no error, the file is kept, every write
    was accepted, in order.  (That these bytes are `Layout.encode`, and reopen to the full
    content, is C04.) -/
theorem C17_no_fault (ops : List Op) :
    run none none ops = ⟨none, false, writeIdx 0 ops⟩ := no_fault ops

/-- C17, no third outcome: error-with-cleanup or complete success. -/
theorem C17_merge_outcomes (body : List Op) (h : ∀ op ∈ body, FromFacts Facts.errFacts op)
    (fault closing : Option Nat) :
    ((run fault closing (mergeRun Facts.errFacts body)).err.isSome = true
      ∧ (run fault closing (mergeRun Facts.errFacts body)).cleaned = true)
    ∨ run fault closing (mergeRun Facts.errFacts body)
        = ⟨none, false, writeIdx 0 (mergeRun Facts.errFacts body)⟩ := by
  rcases outcomes true _ fault closing (mergeRun_wellChecked body h) with h | h
  · exact Or.inl ⟨h.1, h.2 rfl⟩
  · exact Or.inr h

/-- `br.w.Flush()` of `persistSegmentBaseToWriter`, seen from its direct caller. -/
def writeToFlush : Op := ⟨.flush, [returned]⟩

/-- `WriteTo` / `persistSegmentBaseToWriter` on its own (no file to remove): the same run
    without the driver: every fault position is an error. -/
theorem C17_writeTo_fault (body : List Op) (hb : body.all (strict false) = true) (p : Nat)
    (hp : p < (body ++ [writeToFlush]).length) :
    (run (some p) none (body ++ [writeToFlush])).err.isSome = true := by
  have hwc : wellChecked false (body ++ [writeToFlush]) = true := by
    apply wellChecked_of_all_strict
    simp only [List.all_append, hb, Bool.true_and]
    decide
  exact (fault_any_position false _ p none hwc hp).1

/-! ### Examples -/

/-- Hypotheses are satisfiable: a body with checked writes and the two unchecked
    `binary.Write`s of `persistFieldsSection` (chain: sticky, then `mergeToWriter`'s
    `persistFieldsSection` returned). -/
def sampleBody : List Op :=
  [⟨.poll, []⟩, ⟨.write, [returned]⟩, ⟨.write, [returned, returned]⟩,
   ⟨.write, [sticky, returned]⟩, ⟨.write, [sticky, returned]⟩, ⟨.write, [returned, returned]⟩]

example : ∀ op ∈ sampleBody, FromFacts Facts.errFacts op := by decide +kernel

/-- The fault in the unchecked write (position 3) is reported by a later checked operation, and
    the file is removed; bytes of the failed run are irrelevant. -/
example : run (some 3) none (mergeRun Facts.errFacts sampleBody)
    = ⟨some .io, true, [1, 2]⟩ := by decide +kernel

/-- No fault: all 5 + 8 writes accepted, in order (0 is the poll). -/
example : run none none (mergeRun Facts.errFacts sampleBody)
    = ⟨none, false, [1, 2, 3, 4, 5, 6, 7, 8, 9, 10, 11, 12, 13]⟩ := by decide +kernel

/-- A violating instance is rejected, and the violation is real in the model: a driver whose
    `Sync` error is returned WITHOUT cleanup leaves the file behind. -/
example : wellChecked true [⟨.write, [returned, cleanupReturned]⟩, ⟨.flush, [cleanupReturned]⟩,
                            ⟨.other, [returned]⟩] = false := by decide
example : run (some 2) none [⟨.write, [returned, cleanupReturned]⟩, ⟨.flush, [cleanupReturned]⟩,
                             ⟨.other, [returned]⟩] = ⟨some .io, false, [0]⟩ := by decide

/-- An unchecked write with an UNCHECKED Flush: the fault is lost (success reported, bytes
    missing). -/
example : wellChecked true [⟨.write, [sticky, cleanupReturned]⟩, ⟨.flush, [ignored]⟩] = false := by
  decide
example : run (some 0) none [⟨.write, [sticky, cleanupReturned]⟩, ⟨.flush, [ignored]⟩]
    = ⟨none, false, []⟩ := by decide

/-- The side condition rejects: a driver call that returns without cleanup; an ignored call in an
    inner function; an unchecked write outside `persistFieldsSection`; a deleted call; an
    extraction failure. -/
def patch (fn callee : String) (d : ErrDisp) : List ErrFact :=
  Facts.errFacts.map fun e => if e.fn == fn && e.callee == callee then { e with disp := d } else e

example : c17SideCondition (patch "PersistSegmentBase" "f.Sync" returned) = false := by
  decide +kernel
example : c17SideCondition (patch "mergeToWriter" "x.Merge" ignored) = false := by decide +kernel
/-- D6 as on the pinned tree. -/
example : c17SideCondition (patch "faissVectorIndexSection.Persist" "vo.writeVectorIndexes" ignored)
    = false := by decide +kernel
example : c17SideCondition (patch "persistFooter" "binary.Write" sticky) = false := by
  decide +kernel
example : c17SideCondition (patch "mergeSegmentBases" "br.Flush" ignored) = false := by
  decide +kernel
example : c17SideCondition
    (Facts.errFacts.filter fun e => !(e.fn == "mergeSegmentBases" && e.callee == "f.Sync"))
    = false := by decide +kernel
example : c17SideCondition (Facts.errFacts ++ [⟨"mergeToWriter UNRECOGNISED", "x", returned⟩])
    = false := by decide +kernel

end Zap.C17

#print axioms Zap.Theory.Persist.fault_any_position
#print axioms Zap.Theory.Persist.no_fault
#print axioms Zap.Theory.Persist.outcomes
#print axioms Zap.C17.c17SideCondition_holds
#print axioms Zap.C17.C17_persist_fault
#print axioms Zap.C17.C17_merge_fault
#print axioms Zap.C17.C17_merge_outcomes
