/-
  ZapProofs.Props.DocNumWidth: a regenerated-fact obligation shared by the merge properties.

  Document numbers are 32 bits wide in the v16 file format (roaring bitmaps, vector id -> document
  maps) and 64 bits wide in the API.  The models use `Nat`; the tie below is what keeps that honest
  for the one failure mode no affordable script can exhibit: a conversion that squeezes a document
  number through 8 or 16 bits only misbehaves in segments of more than 65 535 documents (the Lean
  driver needs more than twenty minutes for one such case).  `tools/gofacts` lists every conversion
  `uint16(..)`, `uint8(..)`, `int16(..)`, `int8(..)`, `byte(..)` whose operand names a document
  number; the list must be empty.
-/
import ZapModel.Gen.Facts

namespace Zap.DocNumWidth

/-- No document number is ever narrowed below 32 bits anywhere in the package. -/
theorem no_narrow_docnum : Gen.Facts.narrowDocConversions = [] := by decide

end Zap.DocNumWidth

section Report
#print axioms Zap.DocNumWidth.no_narrow_docnum
end Report
