/-
  ZapProofs.Props.ReadWindows: a regenerated-fact obligation of the layout properties (C04, C08, C09)
  and of the doc-value readers of an opened file (C03: `getSectionDvOffsets`, `loadFieldDocValueReader`,
  `loadDvChunk` are among the listed calls; a field whose block straddles offset 2^14 or 2^21 needs the
  full window).

  Every varint of the v16 layout may be up to `binary.MaxVarintLen64` bytes long.  The readers decode
  them with `binary.Uvarint(mem[lo:hi])`; a window `[lo, hi)` that is shorter than that (a smaller
  constant, or an end to which the running offset was not added) makes `Uvarint` return `(0, 0)` for
  values that need the missing bytes - which only happens in files of several megabytes or with
  postings bitmaps of more than 16 KiB (tens of thousands of documents), beyond what a script of the
  correspondence check can afford.  `tools/gofacts` therefore lists every such call
  (`Gen.Facts.uvarintWindows`); the obligation: each window is `lo .. lo+binary.MaxVarintLen64`
  verbatim, with the exceptions below, which are listed with their exact text and multiplicity.
-/
import ZapModel.Gen.Facts

namespace Zap.ReadWindows

/-- the well-formed shape: `hi` is `lo` followed by `+binary.MaxVarintLen64` -/
def standard (w : String × String × String) : Bool :=
  w.2.2 == w.2.1 ++ "+binary.MaxVarintLen64"

/-- The windows that are not of the standard shape, each justified:
    * `PostingsList.read`, first header varint: the running offset `n` is still 0 there, so
      `postingsOffset+binary.MaxVarintLen64` is the standard end;
    * `SegmentBase.loadFields` (pre-v16 files only) and `loadFieldsNew`: the window ends at the end of
      the fields index / at an explicitly clamped `seek` (the buffer may be shorter than 10 bytes
      there, see the comment in the source). -/
def exceptions : List (String × String × String) := [
  ("PostingsList.read", "postingsOffset+n", "postingsOffset+binary.MaxVarintLen64"),
  ("SegmentBase.loadFields", "addr", "fieldsIndexEnd"),
  ("SegmentBase.loadFields", "addr+n", "fieldsIndexEnd"),
  ("SegmentBase.loadFieldsNew", "pos", "seek")
]

/-- Every varint read window is a full-width one, except exactly the listed ones. -/
theorem windows_full_width :
    (Gen.Facts.uvarintWindows.filter (fun w => !standard w)) = exceptions := by decide +kernel

/-- nothing was unrecognised by the extractor, and the list is not empty (a vacuous pass is impossible) -/
theorem windows_recognised :
    Gen.Facts.uvarintWindows.all (fun w => !(w.2.1.startsWith "UNRECOGNISED")) = true ∧
    Gen.Facts.uvarintWindows.length ≥ 40 := by decide +kernel

end Zap.ReadWindows

section Report
#print axioms Zap.ReadWindows.windows_full_width
#print axioms Zap.ReadWindows.windows_recognised
end Report
