/-
  Property C04, the doc-value loaders: "opening yields a segment that answers every query
  as the in-memory one" needs the two DUPLICATED loaders of segment.go
  (`(*SegmentBase).loadDvReaders` for in-memory segments, `(*Segment).loadDvReaders` for
  opened files; model: ZapModel/Loaders.lean) to register the same doc-value readers.

  They range over different things (the sections present in a field's map vs. all
  registered sections) in orders Go does not fix (map iteration); the theorems quantify
  over every iteration order.
-/
import ZapProofs.WriterLemmasLoaders

namespace Zap.Props.C04Loaders
open Zap Zap.Loaders

open Zap.Loaders.Lemmas

/-! ### what each loader registers -/

/-- The in-memory loader registers exactly the readers the table calls for, whatever order
    Go ranges over the section maps in. -/
theorem base_loader_spec (numDocs : Nat) (tbl : FieldTable) (ord : Nat → List SecRec → List SecRec)
    (hn : numDocs ≠ 0) (hord : ∀ fid l, (ord fid l).Perm l) (sec fid : Nat) (i : DvInfo) :
    ((sec, fid), i) ∈ (loadBase numDocs tbl ord).readers ↔ ∃ name, Registers tbl sec fid i name := by
  rw [loadBase_eq numDocs tbl ord hn, run_readers']
  exact exists_congr (fun name => base_registers tbl ord hord sec fid i name)

/-- The file loader registers exactly the same, for a well-formed table. -/
theorem file_loader_spec (numDocs : Nat) (regs : List Nat) (tbl : FieldTable) (hwf : WF regs tbl)
    (ordS : Nat → List Nat) (hn : numDocs ≠ 0) (hord : ∀ fid, (ordS fid).Perm regs)
    (sec fid : Nat) (i : DvInfo) :
    ((sec, fid), i) ∈ (loadFile numDocs tbl ordS).readers ↔ ∃ name, Registers tbl sec fid i name := by
  rw [loadFile_eq numDocs tbl ordS hn, run_readers']
  exact exists_congr (fun name => file_registers regs tbl hwf ordS hord sec fid i name)

theorem base_loader_names (numDocs : Nat) (tbl : FieldTable) (ord : Nat → List SecRec → List SecRec)
    (hn : numDocs ≠ 0) (hord : ∀ fid l, (ord fid l).Perm l) (name : Name) :
    name ∈ (loadBase numDocs tbl ord).names ↔ ∃ sec fid i, Registers tbl sec fid i name := by
  rw [loadBase_eq numDocs tbl ord hn, run_names']
  exact exists_congr (fun sec => exists_congr (fun fid => exists_congr (fun i =>
    base_registers tbl ord hord sec fid i name)))

theorem file_loader_names (numDocs : Nat) (regs : List Nat) (tbl : FieldTable) (hwf : WF regs tbl)
    (ordS : Nat → List Nat) (hn : numDocs ≠ 0) (hord : ∀ fid, (ordS fid).Perm regs) (name : Name) :
    name ∈ (loadFile numDocs tbl ordS).names ↔ ∃ sec fid i, Registers tbl sec fid i name := by
  rw [loadFile_eq numDocs tbl ordS hn, run_names']
  exact exists_congr (fun sec => exists_congr (fun fid => exists_congr (fun i =>
    file_registers regs tbl hwf ordS hord sec fid i name)))

/-! ### the two loaders agree -/

/-- For every well-formed table, every document count and every pair of iteration orders:
    the same set of (section, field id) ↦ reader entries, the same reader under every key
    (`fieldDvReaders[sec][fid]`), and the same set of `fieldDvNames`
    (`VisitableDocValueFields`). -/
theorem loaders_agree (numDocs : Nat) (regs : List Nat) (tbl : FieldTable) (hwf : WF regs tbl)
    (ord : Nat → List SecRec → List SecRec) (hord : ∀ fid l, (ord fid l).Perm l)
    (ordS : Nat → List Nat) (hordS : ∀ fid, (ordS fid).Perm regs) :
    (∀ k i, (k, i) ∈ (loadBase numDocs tbl ord).readers ↔ (k, i) ∈ (loadFile numDocs tbl ordS).readers) ∧
    (∀ sec fid, (loadBase numDocs tbl ord).get? sec fid = (loadFile numDocs tbl ordS).get? sec fid) ∧
    (∀ name, name ∈ (loadBase numDocs tbl ord).names ↔ name ∈ (loadFile numDocs tbl ordS).names) := by
  by_cases hn : numDocs = 0
  · subst hn
    simp [loadBase, loadFile]
  · have hmem : ∀ k i, (k, i) ∈ (loadBase numDocs tbl ord).readers ↔
        (k, i) ∈ (loadFile numDocs tbl ordS).readers := by
      rintro ⟨sec, fid⟩ i
      rw [base_loader_spec numDocs tbl ord hn hord, file_loader_spec numDocs regs tbl hwf ordS hn hordS]
    refine ⟨hmem, ?_, ?_⟩
    · intro sec fid
      unfold DvState.get?
      apply lookup_congr _ _ _ _ hmem
      · rintro ⟨s, f⟩ v v' h h'
        obtain ⟨n, hr⟩ := (base_loader_spec numDocs tbl ord hn hord s f v).mp h
        obtain ⟨n', hr'⟩ := (base_loader_spec numDocs tbl ord hn hord s f v').mp h'
        exact registers_functional regs tbl hwf s f v v' n n' hr hr'
      · rintro ⟨s, f⟩ v v' h h'
        obtain ⟨n, hr⟩ := (file_loader_spec numDocs regs tbl hwf ordS hn hordS s f v).mp h
        obtain ⟨n', hr'⟩ := (file_loader_spec numDocs regs tbl hwf ordS hn hordS s f v').mp h'
        exact registers_functional regs tbl hwf s f v v' n n' hr hr'
    · intro name
      rw [base_loader_names numDocs tbl ord hn hord, file_loader_names numDocs regs tbl hwf ordS hn hordS]

/-- The `_id` field (field id 0) is registered, by both loaders, whenever it has doc values. -/
theorem loaders_contain_id (numDocs : Nat) (regs : List Nat) (tbl : FieldTable) (hwf : WF regs tbl)
    (ord : Nat → List SecRec → List SecRec) (hord : ∀ fid l, (ord fid l).Perm l)
    (ordS : Nat → List Nat) (hordS : ∀ fid, (ordS fid).Perm regs) (hn : numDocs ≠ 0)
    (secs : List SecRec) (rest : FieldTable) (htbl : tbl = (idName, secs) :: rest)
    (sec addr : Nat) (i : DvInfo) (hrec : (sec, addr, some i) ∈ secs) (haddr : addr > 0) :
    (loadBase numDocs tbl ord).get? sec 0 = some i ∧ (loadFile numDocs tbl ordS).get? sec 0 = some i ∧
    idName ∈ (loadBase numDocs tbl ord).names ∧ idName ∈ (loadFile numDocs tbl ordS).names := by
  have hreg : Registers tbl sec 0 i idName := by
    subst htbl
    exact ⟨(idName, secs), rfl, rfl, (sec, addr, some i), hrec, rfl, haddr, rfl⟩
  have hb : ((sec, 0), i) ∈ (loadBase numDocs tbl ord).readers :=
    (base_loader_spec numDocs tbl ord hn hord sec 0 i).mpr ⟨_, hreg⟩
  have hagree := loaders_agree numDocs regs tbl hwf ord hord ordS hordS
  have hbget : (loadBase numDocs tbl ord).get? sec 0 = some i := by
    unfold DvState.get?
    rw [lookup_eq_some_iff]
    · exact hb
    · rintro ⟨s, f⟩ v v' h h'
      obtain ⟨n, hr⟩ := (base_loader_spec numDocs tbl ord hn hord s f v).mp h
      obtain ⟨n', hr'⟩ := (base_loader_spec numDocs tbl ord hn hord s f v').mp h'
      exact registers_functional regs tbl hwf s f v v' n n' hr hr'
  refine ⟨hbget, ?_, ?_, ?_⟩
  · rw [← hagree.2.1]; exact hbget
  · exact (base_loader_names numDocs tbl ord hn hord idName).mpr ⟨sec, 0, i, hreg⟩
  · exact (file_loader_names numDocs regs tbl hwf ordS hn hordS idName).mpr ⟨sec, 0, i, hreg⟩

/-! ### concrete instances -/

section Examples

/-- `_id` with doc values in the inverted section (0); "body" with an inverted section
    that is not uninverted and a vector section (1, never has doc values); "tags" with
    doc values, its map listed in the other order, and an absent (address 0) synonym
    section (2). -/
def tbl1 : FieldTable := [
  (idName, [(0, 77, some ⟨10, 40⟩), (1, 0, none)]),
  (strBytes "body", [(0, 120, none), (1, 300, none)]),
  (strBytes "tags", [(2, 0, none), (0, 200, some ⟨50, 70⟩)]) ]

def regs1 : List Nat := [0, 1, 2]

theorem wf_tbl1 : WF regs1 tbl1 where
  secsNodup := by decide
  secsReg := by decide

/-- Two different iteration orders. -/
def ordRev : Nat → List SecRec → List SecRec := fun _ l => l.reverse
def ordSRot : Nat → List Nat := fun fid => if fid % 2 = 0 then [2, 0, 1] else [1, 2, 0]

example : (loadBase 5 tbl1 (fun _ l => l)).readers = [((0, 2), ⟨50, 70⟩), ((0, 0), ⟨10, 40⟩)] := by
  decide +kernel
example : (loadFile 5 tbl1 ordSRot).readers = [((0, 2), ⟨50, 70⟩), ((0, 0), ⟨10, 40⟩)] := by
  decide +kernel
example : (loadBase 5 tbl1 ordRev).names = [idName, strBytes "tags"] := by decide +kernel
example : (loadFile 5 tbl1 ordSRot).names = [idName, strBytes "tags"] := by decide +kernel
example : (loadBase 5 tbl1 ordRev).get? 0 0 = (loadFile 5 tbl1 ordSRot).get? 0 0 := by decide +kernel
example : (loadBase 0 tbl1 ordRev) = {} ∧ (loadFile 0 tbl1 ordSRot) = {} := by decide +kernel

/-- A loader that skips field 0 loses the `_id` reader: it disagrees with the in-memory
    loader on the very table above. -/
theorem skip0_disagrees :
    (loadFileSkip0 5 tbl1 ordSRot).get? 0 0 = none ∧ (loadBase 5 tbl1 ordRev).get? 0 0 = some ⟨10, 40⟩ ∧
    (loadFileSkip0 5 tbl1 ordSRot).visitable idName = false ∧
    (loadBase 5 tbl1 ordRev).visitable idName = true := by decide +kernel

/-- Well-formedness is needed: a section that has a record but is not registered (a file
    with a vector-like section carrying doc values, opened by a build that does not
    register section 1) is seen by the in-memory loader only. -/
theorem unregistered_section_disagrees :
    let tbl : FieldTable := [(idName, [(0, 77, some ⟨10, 40⟩), (1, 90, some ⟨1, 2⟩)])]
    (loadBase 5 tbl (fun _ l => l)).get? 1 0 = some ⟨1, 2⟩ ∧
    (loadFile 5 tbl (fun _ => [0])).get? 1 0 = none := by decide +kernel

end Examples

end Zap.Props.C04Loaders

section Report
open Zap.Props.C04Loaders
#print axioms base_loader_spec
#print axioms file_loader_spec
#print axioms base_loader_names
#print axioms file_loader_names
#print axioms loaders_agree
#print axioms loaders_contain_id
#print axioms skip0_disagrees
#print axioms unregistered_section_disagrees
end Report
