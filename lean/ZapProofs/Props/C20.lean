/-
  C20: reference counting of opened segments - the release (`closeActual`: unmap, close fd)
  happens exactly once, at the last reference, never earlier, under every interleaving of
  concurrent holders.

  PROVED (generic, once)
  * `RefCount.release_once`: for EVERY op list whose running count (start 1; addRef +1;
    decRef/close -1) stays >= 1 on every proper prefix and ends at 0: `releases = 1` after the
    list and `releases = 0` after every proper prefix.
  * `Crit.atomic`: operations executed entirely under one mutex are atomic - for EVERY schedule
    the shared state at any instant the mutex is free equals the sequential run of the logged
    operations, and the log is a merge of the threads' programs in program order.
  * `Lock.lockset_excludes` (instance `C11.Lockset.C11_lockset "Segment.refs"`): no write of
    `refs` overlaps another access of `refs`.

  CHECKED AGAINST THE SOURCE ON EVERY RUN (`decide` on generated facts)
  * `refSideCondition`: `AddRef` = lock; refs++; unlock.  `DecRef` = lock; refs--;
    if refs==0 {closeActual}; unlock; return err.  `Close` = return DecRef.  `Open` sets
    `refs=1` and contains no other statement about `refs`.
  * `C11.Lockset.lockSideCondition` (imported): every access to `Segment.refs` holds `Segment.m`,
    and `AddRef` / `DecRef` accesses are present.

  MODELLED, NOT VERIFIED
  * `RefSt.step` (ZapModel/Life.lean) is the MEANING GIVEN to those statement shapes:
    `addRef` for `refs++`; `decRef`/`close` for `refs--; if refs==0 {closeActual}`, with
    `releases` counting runs of `closeActual`.  That link is by reading (the shapes are short
    enough to read: see `refImpl` below, which spells the same thing in micro-steps and is
    proved equal to `RefSt.step`), and by the differential run (C20 (B): all balanced
    sequences up to length 10).
  * What `closeActual` does (munmap, close) and its error are OS behaviour: observed by the
    harness, not modelled.
  * The Go memory model is outside: the model's steps are sequentially consistent.
  * Callers holding no reference and calling `AddRef` after the last `DecRef` are outside the
    hypothesis (count discipline); `use_after_release_example` shows what the code then does.
-/
import ZapModel.Gen.Facts
import ZapModel.Theory.Str
import ZapProofs.TheoryLemmasRef
import ZapProofs.TheoryLemmasCrit
import ZapProofs.Props.C11

namespace Zap.C20
open Zap.Gen Zap.Theory Zap.Theory.RefCount

/-! ### Side condition on `Gen.Facts.refBodies` -/

/-- Decidable side condition:
    * exactly the four expected functions, in order, none UNRECOGNISED;
    * `AddRef`, `DecRef`, `Close` have exactly the expected statement shapes;
    * `Open` contains `refs=1`, and that is its only statement mentioning `refs` outside
      `other:` text, and no `other:` text of `Open` mentions `refs` either. -/
def refSideCondition (rb : List (String × List String)) : Bool :=
  rb.map (·.1) == ["Segment.AddRef", "Segment.DecRef", "Segment.Close", "ZapPlugin.Open"]
  && rb.all (fun p => !unrec p.1 && allRecognised p.2)
  && rb.lookup "Segment.AddRef" == some ["lock", "refs++", "unlock"]
  && rb.lookup "Segment.DecRef"
      == some ["lock", "refs--", "if refs==0 {closeActual}", "unlock", "return err"]
  && rb.lookup "Segment.Close" == some ["return DecRef"]
  && (match rb.lookup "ZapPlugin.Open" with
      | some b => b.contains "refs=1" && (b.filter (hasSub "refs")) == ["refs=1"]
      | none => false)

/-- INSTANCE: the obligation that breaks when segment.go changes. -/
theorem refSideCondition_holds : refSideCondition Facts.refBodies = true := by decide +kernel

/-- The lock facts for `Segment.refs` (part of `C11.Lockset.lockSideCondition_holds`, restated
    for this location): every extracted access to `refs` holds exactly `["m"]`, and `AddRef` and
    `DecRef` write it. -/
theorem refs_always_under_m :
    (Facts.lockFacts.filter (·.location == "Segment.refs")).all (·.held == ["m"]) = true
    ∧ (Facts.lockFacts.any fun f => f.fn == "Segment.AddRef" && f.location == "Segment.refs"
                                      && f.access == "write") = true
    ∧ (Facts.lockFacts.any fun f => f.fn == "Segment.DecRef" && f.location == "Segment.refs"
                                      && f.access == "write") = true := by decide +kernel

/-! ### Sequential clause -/

/-- C20 (sequential histories): released exactly once, at the last reference, never earlier. -/
theorem C20_release_once (ops : List RefOp)
    (hpos : ∀ pre, pre <+: ops → pre ≠ ops → 1 ≤ count 1 pre)
    (hzero : count 1 ops = 0) :
    (RefSt.run {} ops).releases = 1
    ∧ ∀ pre, pre <+: ops → pre ≠ ops → (RefSt.run {} pre).releases = 0 :=
  release_once ops hpos hzero

/-- `Close = DecRef` (`refBodies`: `Close` is `return DecRef`; in the model the two ops step
    identically). -/
theorem close_eq_decRef (s : RefSt) : s.step .close = s.step .decRef := rfl

/-! ### Concurrent holders -/

/-- The statement shapes of `refBodies` as micro-steps under the mutex (scratch = the value
    read by `refs++` / `refs--`):  `refs++` = read, write;  `refs--` = read, write;
    `if refs==0 {closeActual}` = read-and-release. -/
def refImpl : RefOp → List (Crit.Micro RefSt Int)
  | .addRef => [fun s _ => (s, s.refs), fun s l => ({ s with refs := l + 1 }, l)]
  | .decRef | .close =>
    [fun s _ => (s, s.refs), fun s l => ({ s with refs := l - 1 }, l),
     fun s l => (if s.refs = 0 then { s with releases := s.releases + 1 } else s, l)]

/-- Executed alone, the micro-steps mean `RefSt.step`. -/
theorem refImpl_sem (op : RefOp) (s : RefSt) : Crit.opSem 0 (refImpl op) s = s.step op := by
  cases op <;> simp only [Crit.opSem, Crit.runMicro, refImpl, RefSt.step] <;> split <;> rfl

theorem seqRun_eq_run (s : RefSt) (ops : List RefOp) :
    Crit.seqRun refImpl 0 s ops = RefSt.run s ops := by
  induction ops generalizing s with
  | nil => rfl
  | cons op rest ih =>
    simp only [Crit.seqRun, List.foldl_cons, RefSt.run] at ih ⊢
    rw [refImpl_sem]; exact ih _

/-- C20 (concurrent holders are sequentialisable): any number of goroutines, each issuing any
    sequence of AddRef / DecRef / Close, each executed under the segment's mutex as extracted.
    For EVERY schedule: the log of operations (in the order they took the mutex) is a merge of
    the goroutines' programs, and whenever the mutex is free the segment's (refs, releases) is
    exactly `RefSt.run {}` of that log. -/
theorem C20_concurrent (progs : Nat → List RefOp) (sched : List Nat) :
    let s := Crit.exec refImpl true 0 (Crit.init {} 0 progs) sched
    (∀ i, Crit.logOf s.log i ++ (s.thr i).todo = progs i)
    ∧ (s.owner = none → s.shared = RefSt.run {} (s.log.map (·.2))) := by
  have h := Crit.atomic refImpl 0 ({} : RefSt) progs sched
  refine ⟨h.1, fun ho => ?_⟩
  rw [← seqRun_eq_run]; exact h.2.1 ho

/-- C20 (full statement): under EVERY interleaving, at any instant the mutex is free, with `ops`
    the operations performed so far in mutex order:
    * if the count stayed >= 1 on every prefix (references outstanding): nothing released yet;
    * if the count stayed >= 1 on every proper prefix and is now 0 (the last reference was just
      dropped): released exactly once. -/
theorem C20_concurrent_release (progs : Nat → List RefOp) (sched : List Nat) :
    let s := Crit.exec refImpl true 0 (Crit.init {} 0 progs) sched
    let ops := s.log.map (·.2)
    s.owner = none →
      ((∀ pre, pre <+: ops → 1 ≤ count 1 pre) → s.shared.releases = 0)
      ∧ ((∀ pre, pre <+: ops → pre ≠ ops → 1 ≤ count 1 pre) → count 1 ops = 0 →
            s.shared.releases = 1) := by
  intro s ops ho
  have hs : s.shared = RefSt.run {} ops := (C20_concurrent progs sched).2 ho
  refine ⟨fun hpos => ?_, fun hpos hz => ?_⟩
  · rw [hs]
    have := no_release {} ops (by
      intro q hq _
      have := hpos q hq
      show count 1 q ≠ 0
      omega)
    simpa using this
  · rw [hs]; exact (release_once ops hpos hz).1

/-! ### Examples: hypotheses satisfiable; violations rejected -/

/-- Hypotheses satisfiable (executable check), e.g. two extra holders. -/
example : lastRefAtEnd 1 [.addRef, .addRef, .decRef, .close, .decRef] = true := by decide
example : (RefSt.run {} [.addRef, .addRef, .decRef, .close, .decRef]).releases = 1 :=
  (release_once_of_check _ (by decide)).1

/-- Outside the hypothesis (AddRef after the last reference was dropped) the code releases
    twice: the hypothesis is needed, not decoration. -/
theorem use_after_release_example :
    lastRefAtEnd 1 [.decRef, .addRef, .decRef] = false
    ∧ (RefSt.run {} [.decRef, .addRef, .decRef]).releases = 2 := by decide

/-- Without the mutex (`locked = false`) the SAME micro-steps are not atomic: two goroutines
    dropping the last two references both see `refs == 0` and both release (double unmap),
    although the history `[addRef, decRef, decRef]` satisfies the count discipline. -/
example :
    lastRefAtEnd 1 [.addRef, .decRef, .decRef] = true
    ∧ (Crit.exec refImpl false 0 (Crit.init {} 0 (fun i => [[.addRef, .decRef], [.decRef]].getD i []))
        [0, 0, 0, 0,      -- goroutine 0: AddRef completely (refs = 2)
         0, 0, 0,         -- goroutine 0: DecRef: start, read 2, write 1
         1, 1, 1,         -- goroutine 1: DecRef: start, read 1, write 0
         0, 1]            -- both now test refs == 0
       ).shared.releases = 2 := by decide

/-- The same schedule with the mutex: goroutine 1 blocks until goroutine 0 is done; one release
    at most (here the run is not finished: goroutine 1 has not yet entered). -/
example :
    (Crit.exec refImpl true 0 (Crit.init {} 0 (fun i => [[.addRef, .decRef], [.decRef]].getD i []))
        [0, 0, 0, 0, 0, 0, 0, 1, 1, 1, 0, 1]).shared.releases = 0 := by decide

/-- Side condition rejects: `DecRef` that forgets the zero test; `AddRef` without the lock;
    `Open` starting at 0; an extraction failure. -/
def withBody (fn : String) (b : List String) : List (String × List String) :=
  Facts.refBodies.map fun p => if p.1 == fn then (fn, b) else p

example : refSideCondition (withBody "Segment.DecRef" ["lock", "refs--", "unlock", "return err"])
    = false := by decide +kernel
example : refSideCondition (withBody "Segment.AddRef" ["refs++"]) = false := by decide +kernel
example : refSideCondition (withBody "ZapPlugin.Open" ["refs=0", "return rv, nil"]) = false := by
  decide +kernel
example : refSideCondition (withBody "ZapPlugin.Open" ["refs=1", "refs++", "return rv, nil"])
    = false := by decide +kernel
example : refSideCondition (withBody "Segment.Close" ["other:UNRECOGNISED"]) = false := by
  decide +kernel
example : refSideCondition (Facts.refBodies.drop 1) = false := by decide +kernel

end Zap.C20

#print axioms Zap.Theory.RefCount.release_once
#print axioms Zap.Theory.Crit.atomic
#print axioms Zap.C20.refSideCondition_holds
#print axioms Zap.C20.refs_always_under_m
#print axioms Zap.C20.C20_release_once
#print axioms Zap.C20.C20_concurrent
#print axioms Zap.C20.C20_concurrent_release
