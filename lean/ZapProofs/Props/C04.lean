/-
  Property C04 (persisted and re-opened segment; footer).

  "Persist and WriteTo emit the same bytes, and the file ends with a footer carrying the
  document count, the chunk mode, format version 16 and a CRC-32 that matches all preceding
  bytes", and what `Open` (`loadConfig`) reads from that footer is what the in-memory segment
  was constructed with (`InitSegmentBase` arguments), and the body it maps is `mem`.

  Model of the bytes: `persistSegmentBaseToWriter` (build.go:93) writes `sb.mem` and then
  `persistFooter` (write.go:111) — the fields of the GENERATED table `Gen.Facts.footerWrites`,
  big-endian, through a `CountHashWriter` whose CRC is seeded with `sb.memCRC` and continues
  over every footer field written; the last field is that running CRC.  `loadConfig`
  (segment.go:206) is `decodeField` over the GENERATED table `Gen.Facts.footerReads`, and
  `s.mm[:len(s.mm)-footerSize]`.

  The content part of C04 ("answers every query exactly as the in-memory segment") is, at the
  model level, the identity: both segments denote the same `Seg` (the meaning of `mem`); it is
  tied to the code by the differential checks (`open` + full query surface, `dumpfile`, `footer`,
  `cmpfile`) of the harness, not by a theorem here.
-/
import ZapProofs.ComposeLemmas

namespace Zap.C04
open Zap Zap.Codec

/-! ### The writer -/

/-- What `InitSegmentBase(mem, memCRC, chunkMode, numDocs, storedIndexOffset, sectionsIndexOffset)`
    records (build.go:160-172): `fieldsIndexOffset := sectionsIndexOffset`, `docValueOffset := 0`. -/
structure SegBase where
  mem : Bytes
  memCRC : Nat
  chunkMode : Nat
  numDocs : Nat
  storedIndexOffset : Nat
  fieldsIndexOffset : Nat
  sectionsIndexOffset : Nat
  docValueOffset : Nat
  deriving Repr, DecidableEq

def initSegmentBase (mem : Bytes) (memCRC chunkMode numDocs storedIdx sectionsIdx : Nat) : SegBase :=
  { mem := mem, memCRC := memCRC, chunkMode := chunkMode, numDocs := numDocs,
    storedIndexOffset := storedIdx, fieldsIndexOffset := sectionsIdx, sectionsIndexOffset := sectionsIdx,
    docValueOffset := 0 }

/-- the footer values of a segment base, with a given CRC field -/
def valsOf (sb : SegBase) (crc : Nat) : String → Nat :=
  Footer.vals { numDocs := sb.numDocs, storedIndexOffset := sb.storedIndexOffset,
                fieldsIndexOffset := sb.fieldsIndexOffset, sectionsIndexOffset := sb.sectionsIndexOffset,
                docValueOffset := sb.docValueOffset, chunkMode := sb.chunkMode, version := Gen.Version,
                crc := crc }

/-- the footer fields written before the CRC itself (all rows of the generated table but the last) -/
def headRows : List (String × Nat) := Gen.Facts.footerWrites.dropLast

/-- `CountHashWriter.Write`, once per footer field: the running CRC after the rows `ws`. -/
def crcFields (c : Nat) (ws : List (String × Nat)) (vals : String → Nat) : Nat :=
  ws.foldl (fun c w => crcUpdate c (beBytes w.2 (vals w.1))) c

/-- `persistFooter`: every row but the last through the hashing writer (seeded with
    `crcBeforeFooter`), then the running CRC as the last 4 bytes. -/
def persistFooter (sb : SegBase) (crcBeforeFooter : Nat) : Bytes :=
  encodeFields headRows (valsOf sb 0) ++ beBytes 4 (crcFields crcBeforeFooter headRows (valsOf sb 0))

/-- `persistSegmentBaseToWriter`: `br.Write(sb.mem)`, then `persistFooter(…, sb.memCRC, br)`. -/
def persistSegmentBaseToWriter (sb : SegBase) : Bytes := sb.mem ++ persistFooter sb sb.memCRC

/-- `PersistSegmentBase(sb, path)`: the content of the file at `path` on success. -/
def Persist (sb : SegBase) : Bytes := persistSegmentBaseToWriter sb

/-- `SegmentBase.WriteTo(w)`: the bytes received by `w` on success. -/
def WriteTo (sb : SegBase) : Bytes := persistSegmentBaseToWriter sb

/-! ### The file, in closed form -/

/-- values of the footer of a segment built with these constructor arguments -/
def footerVals (numDocs storedIdx sectionsIdx chunkMode crc : Nat) : String → Nat :=
  Footer.vals { numDocs := numDocs, storedIndexOffset := storedIdx, fieldsIndexOffset := sectionsIdx,
                sectionsIndexOffset := sectionsIdx, docValueOffset := 0, chunkMode := chunkMode,
                version := Gen.Version, crc := crc }

/-- the first `FooterSize - 4 = 48` footer bytes (everything but the CRC) -/
def footerHead (numDocs storedIdx sectionsIdx chunkMode : Nat) : Bytes :=
  encodeFields headRows (footerVals numDocs storedIdx sectionsIdx chunkMode 0)

/-- The persisted file: `mem`, then the footer whose CRC field is the CRC of `mem` continued
    over the first 48 footer bytes. -/
def persistBytes (mem : Bytes) (numDocs storedIdx sectionsIdx chunkMode : Nat) : Bytes :=
  mem ++ encodeFooter (footerVals numDocs storedIdx sectionsIdx chunkMode
    (crcUpdate (crc32 mem) (footerHead numDocs storedIdx sectionsIdx chunkMode)))

/-! ### Lemmas -/

theorem footerWrites_split : Gen.Facts.footerWrites = headRows ++ [("crc", 4)] := by decide

theorem headRows_eq : headRows =
    [("numDocs", 8), ("storedIndexOffset", 8), ("fieldsIndexOffset", 8), ("sectionsIndexOffset", 8),
     ("docValueOffset", 8), ("chunkMode", 4), ("Version", 4)] := by decide

theorem encodeFields_append (ws₁ ws₂ : List (String × Nat)) (vals : String → Nat) :
    encodeFields (ws₁ ++ ws₂) vals = encodeFields ws₁ vals ++ encodeFields ws₂ vals := by
  simp [encodeFields]

theorem encodeFields_congr (ws : List (String × Nat)) (v₁ v₂ : String → Nat)
    (h : ∀ w ∈ ws, v₁ w.1 = v₂ w.1) : encodeFields ws v₁ = encodeFields ws v₂ := by
  induction ws with
  | nil => rfl
  | cons w ws ih =>
    rw [encodeFields_cons, encodeFields_cons, h w (by simp), ih (fun x hx => h x (by simp [hx]))]

/-- the CRC field does not influence the bytes before it -/
theorem head_indep (f : Footer) (c : Nat) :
    encodeFields headRows (Footer.vals { f with crc := c }) = encodeFields headRows (Footer.vals f) := by
  apply encodeFields_congr
  rw [headRows_eq]
  intro w hw
  simp only [List.mem_cons, List.not_mem_nil, or_false] at hw
  rcases hw with rfl | rfl | rfl | rfl | rfl | rfl | rfl <;> rfl

theorem encodeFooter_split (vals : String → Nat) :
    encodeFooter vals = encodeFields headRows vals ++ beBytes 4 (vals "crc") := by
  unfold encodeFooter
  rw [footerWrites_split, encodeFields_append]
  simp [encodeFields]

theorem encodeFields_bytes (ws : List (String × Nat)) (vals : String → Nat) :
    ∀ x ∈ encodeFields ws vals, x < 256 := by
  intro x hx
  simp only [encodeFields, List.mem_flatMap] at hx
  obtain ⟨w, _, hxw⟩ := hx
  exact beBytes_bytes _ _ x hxw

/-- hashing field by field is hashing the concatenation -/
theorem crcFields_eq (ws : List (String × Nat)) (vals : String → Nat) :
    ∀ c, crcFields c ws vals = crcUpdate c (encodeFields ws vals) := by
  induction ws with
  | nil => intro c; exact (crcUpdate_nil c).symm
  | cons w ws ih =>
    intro c
    rw [encodeFields_cons, crcUpdate_append']
    exact ih _

theorem headRows_length (vals : String → Nat) : (encodeFields headRows vals).length = Gen.FooterSize - 4 := by
  rw [encodeFields_length, headRows_eq]; rfl

/-- `persistFooter` is the table-driven `encodeFooter` with the running CRC as the CRC field. -/
theorem persistFooter_eq (sb : SegBase) (c : Nat) :
    persistFooter sb c =
      encodeFooter (valsOf sb (crcUpdate c (encodeFields headRows (valsOf sb 0)))) := by
  rw [encodeFooter_split, persistFooter, crcFields_eq]
  congr 1

/-- The writer run on a freshly initialised segment base whose `memCRC` is the CRC of `mem`
    (new.go:74: `InitSegmentBase(br.Bytes(), s.w.Sum32(), …)`) produces `persistBytes`. -/
theorem persistSegmentBaseToWriter_init (mem : Bytes) (numDocs storedIdx sectionsIdx chunkMode : Nat) :
    persistSegmentBaseToWriter (initSegmentBase mem (crc32 mem) chunkMode numDocs storedIdx sectionsIdx) =
      persistBytes mem numDocs storedIdx sectionsIdx chunkMode := by
  rw [persistSegmentBaseToWriter, persistFooter_eq]
  rfl

theorem persistBytes_eq (mem : Bytes) (numDocs storedIdx sectionsIdx chunkMode : Nat) :
    persistBytes mem numDocs storedIdx sectionsIdx chunkMode =
      (mem ++ footerHead numDocs storedIdx sectionsIdx chunkMode) ++
        beBytes 4 (crc32 (mem ++ footerHead numDocs storedIdx sectionsIdx chunkMode)) := by
  rw [persistBytes, encodeFooter_split, crc32_append, List.append_assoc]
  congr 2

theorem footerVals_fit (mem : Bytes) (numDocs storedIdx sectionsIdx chunkMode : Nat)
    (hmem : ∀ x ∈ mem, x < 256) (h1 : numDocs < 2 ^ 64) (h2 : storedIdx < 2 ^ 64)
    (h3 : sectionsIdx < 2 ^ 64) (h4 : chunkMode < 2 ^ 32) :
    ∀ w ∈ Gen.Facts.footerWrites,
      footerVals numDocs storedIdx sectionsIdx chunkMode
        (crcUpdate (crc32 mem) (footerHead numDocs storedIdx sectionsIdx chunkMode)) w.1 < 256 ^ w.2 := by
  have hcrc : crcUpdate (crc32 mem) (footerHead numDocs storedIdx sectionsIdx chunkMode) < 2 ^ 32 :=
    crcUpdate_lt _ _ (crcUpdate_lt 0 mem (by decide) hmem) (encodeFields_bytes _ _)
  rw [footer_layout]
  intro w hw
  simp only [documentedFooter, List.mem_cons, List.not_mem_nil, or_false] at hw
  rcases hw with rfl | rfl | rfl | rfl | rfl | rfl | rfl | rfl
  · exact h1
  · exact h2
  · exact h3
  · exact h3
  · show 0 < 256 ^ 8; decide
  · exact h4
  · show Gen.Version < 256 ^ 4; decide
  · exact hcrc

/-! ### (a) `Open` recovers the constructor arguments -/

/-- C04 (footer fields): what `loadConfig` decodes from the persisted file is what
    `InitSegmentBase` was given: document count, chunk mode, stored-index and sections-index
    offsets (the latter also as `fieldsIndexOffset`), `docValueOffset = 0`, version 16.
    Hypotheses: the values fit their Go types (`uint64` / `uint32`), `mem` is a byte string. -/
theorem open_recovers_init_args (mem : Bytes) (numDocs storedIdx sectionsIdx chunkMode : Nat)
    (hmem : ∀ x ∈ mem, x < 256) (h1 : numDocs < 2 ^ 64) (h2 : storedIdx < 2 ^ 64)
    (h3 : sectionsIdx < 2 ^ 64) (h4 : chunkMode < 2 ^ 32) :
    decodeField (persistBytes mem numDocs storedIdx sectionsIdx chunkMode) "numDocs" = some numDocs ∧
    decodeField (persistBytes mem numDocs storedIdx sectionsIdx chunkMode) "chunkMode" = some chunkMode ∧
    decodeField (persistBytes mem numDocs storedIdx sectionsIdx chunkMode) "storedIndexOffset" = some storedIdx ∧
    decodeField (persistBytes mem numDocs storedIdx sectionsIdx chunkMode) "sectionsIndexOffset" = some sectionsIdx ∧
    decodeField (persistBytes mem numDocs storedIdx sectionsIdx chunkMode) "fieldsIndexOffset" = some sectionsIdx ∧
    decodeField (persistBytes mem numDocs storedIdx sectionsIdx chunkMode) "docValueOffset" = some 0 ∧
    decodeField (persistBytes mem numDocs storedIdx sectionsIdx chunkMode) "version" = some 16 := by
  have hfit := footerVals_fit mem numDocs storedIdx sectionsIdx chunkMode hmem h1 h2 h3 h4
  unfold persistBytes
  refine ⟨?_, ?_, ?_, ?_, ?_, ?_, ?_⟩ <;>
    (rw [footer_roundtrip _ _ _ (by decide) hfit]; rfl)

/-! ### (b) the CRC field -/

/-- C04 (CRC): the footer's CRC field is the CRC-32 of all bytes of the file except the last 4. -/
theorem footer_crc_is_crc_of_all_preceding_bytes (mem : Bytes) (numDocs storedIdx sectionsIdx chunkMode : Nat)
    (hmem : ∀ x ∈ mem, x < 256) (h1 : numDocs < 2 ^ 64) (h2 : storedIdx < 2 ^ 64)
    (h3 : sectionsIdx < 2 ^ 64) (h4 : chunkMode < 2 ^ 32) :
    decodeField (persistBytes mem numDocs storedIdx sectionsIdx chunkMode) "crc" =
      some (crc32 ((persistBytes mem numDocs storedIdx sectionsIdx chunkMode).take
        ((persistBytes mem numDocs storedIdx sectionsIdx chunkMode).length - 4))) := by
  have hfit := footerVals_fit mem numDocs storedIdx sectionsIdx chunkMode hmem h1 h2 h3 h4
  have htake : (persistBytes mem numDocs storedIdx sectionsIdx chunkMode).take
      ((persistBytes mem numDocs storedIdx sectionsIdx chunkMode).length - 4) =
      mem ++ footerHead numDocs storedIdx sectionsIdx chunkMode := by
    rw [persistBytes_eq]
    generalize mem ++ footerHead numDocs storedIdx sectionsIdx chunkMode = pre
    rw [List.length_append, beBytes_length, Nat.add_sub_cancel, List.take_left]
  rw [htake, crc32_append]
  unfold persistBytes
  rw [footer_roundtrip _ _ _ (by decide) hfit]
  rfl

/-- the same for any seed: with `memCRC` as given to `InitSegmentBase`, the CRC field continues
    `memCRC` over the 48 footer bytes before it (it is the CRC of the whole file iff
    `memCRC = crc32 mem`, which is what `new.go` and `merge.go` pass). -/
theorem persistFooter_crc (sb : SegBase) :
    persistSegmentBaseToWriter sb =
      (sb.mem ++ encodeFields headRows (valsOf sb 0)) ++
        beBytes 4 (crcUpdate sb.memCRC (encodeFields headRows (valsOf sb 0))) := by
  rw [persistSegmentBaseToWriter, persistFooter, crcFields_eq, List.append_assoc]

/-! ### (c) the body -/

theorem persistBytes_length (mem : Bytes) (numDocs storedIdx sectionsIdx chunkMode : Nat) :
    (persistBytes mem numDocs storedIdx sectionsIdx chunkMode).length = mem.length + Gen.FooterSize := by
  rw [persistBytes, List.length_append, footer_length]

/-- C04 (body): `s.mm[:len(s.mm)-footerSize]` of the persisted file is `mem` — the re-opened
    segment reads every section from the very bytes the in-memory segment reads them from. -/
theorem mem_recovered (mem : Bytes) (numDocs storedIdx sectionsIdx chunkMode : Nat) :
    (persistBytes mem numDocs storedIdx sectionsIdx chunkMode).take
      ((persistBytes mem numDocs storedIdx sectionsIdx chunkMode).length - Gen.FooterSize) = mem := by
  rw [persistBytes_length, Nat.add_sub_cancel, persistBytes, List.take_left]

/-- … and the file ends with exactly `FooterSize = 52` footer bytes. -/
theorem footer_recovered (mem : Bytes) (numDocs storedIdx sectionsIdx chunkMode : Nat) :
    ((persistBytes mem numDocs storedIdx sectionsIdx chunkMode).drop mem.length).length = Gen.FooterSize := by
  rw [List.length_drop, persistBytes_length, Nat.add_sub_cancel_left]

/-! ### (d) Persist and WriteTo

Both are `persistSegmentBaseToWriter` on the same segment base: build.go:48-61
(`PersistSegmentBase` opens the file and calls `persistSegmentBaseToWriter(sb, f)`) and
build.go:38-45 (`WriteTo` calls `persistSegmentBaseToWriter(sb, w)`).  The extracted call facts
below witness the `PersistSegmentBase` side and the shape of `persistSegmentBaseToWriter`
(`br.Write(sb.mem)`, `persistFooter`, `Flush`, in this order, each error returned) and of
`persistFooter` (one checked `binary.Write` per row of `footerWrites`).  `WriteTo` is not among
the driver functions `tools/gofacts` extracts error facts for, so that call is witnessed only
by reading build.go:43; the byte equality of the two outputs itself is tied to the real code
by the differential check `cmpfile` (harness: `bytes.Equal(file written by Persist, buffer
filled by WriteTo)`, expected `same=1` by the driver for every script). -/

theorem persist_eq_writeTo (sb : SegBase) : Persist sb = WriteTo sb := rfl

theorem persist_is_persistBytes (mem : Bytes) (numDocs storedIdx sectionsIdx chunkMode : Nat) :
    Persist (initSegmentBase mem (crc32 mem) chunkMode numDocs storedIdx sectionsIdx) =
      persistBytes mem numDocs storedIdx sectionsIdx chunkMode ∧
    WriteTo (initSegmentBase mem (crc32 mem) chunkMode numDocs storedIdx sectionsIdx) =
      persistBytes mem numDocs storedIdx sectionsIdx chunkMode :=
  ⟨persistSegmentBaseToWriter_init mem numDocs storedIdx sectionsIdx chunkMode,
   persistSegmentBaseToWriter_init mem numDocs storedIdx sectionsIdx chunkMode⟩

/-- extracted fact: `PersistSegmentBase` calls `persistSegmentBaseToWriter` (and cleans up on its error) -/
theorem persistSegmentBase_calls_toWriter :
    Gen.Facts.errFacts.any (fun e => e.fn == "PersistSegmentBase" &&
      e.callee == "persistSegmentBaseToWriter" && e.disp == .cleanupReturned) = true := by decide

/-- extracted fact: `persistSegmentBaseToWriter` is body write, footer, flush — all checked -/
theorem toWriter_shape :
    (Gen.Facts.errFacts.filter (fun e => e.fn == "persistSegmentBaseToWriter")).map (fun e => (e.callee, e.disp)) =
      [("br.Write", .returned), ("persistFooter", .returned), ("br.w.Flush", .returned)] := by decide

/-- extracted fact: `persistFooter` performs one checked `binary.Write` per row of `footerWrites` -/
theorem persistFooter_shape :
    (Gen.Facts.errFacts.filter (fun e => e.fn == "persistFooter")).map (fun e => (e.callee, e.disp)) =
      List.replicate Gen.Facts.footerWrites.length ("binary.Write", .returned) := by decide

/-! ### Concrete instance -/

namespace Example

/-- "123456789" -/
def mem : Bytes := [49, 50, 51, 52, 53, 54, 55, 56, 57]
def file : Bytes := persistBytes mem 3 2 5 1026

/-- the file, byte for byte: body, then numDocs=3, stored=2, fields=5, sections=5, dv=0,
    chunkMode=1026 (0x402), version=16, CRC -/
example : file.take 57 =
    [49, 50, 51, 52, 53, 54, 55, 56, 57,
     0, 0, 0, 0, 0, 0, 0, 3,  0, 0, 0, 0, 0, 0, 0, 2,  0, 0, 0, 0, 0, 0, 0, 5,  0, 0, 0, 0, 0, 0, 0, 5,
     0, 0, 0, 0, 0, 0, 0, 0,  0, 0, 4, 2,  0, 0, 0, 16] ∧ file.length = 61 := by decide +kernel

/-- (a), (b), (c) by evaluation alone -/
example :
    decodeField file "numDocs" = some 3 ∧ decodeField file "chunkMode" = some 1026 ∧
    decodeField file "storedIndexOffset" = some 2 ∧ decodeField file "sectionsIndexOffset" = some 5 ∧
    decodeField file "fieldsIndexOffset" = some 5 ∧ decodeField file "docValueOffset" = some 0 ∧
    decodeField file "version" = some 16 ∧
    decodeField file "crc" = some (crc32 (file.take (file.length - 4))) ∧
    file.take (file.length - Gen.FooterSize) = mem := by decide +kernel

/-- the same through the theorems (hypotheses satisfiable) -/
example : decodeField file "numDocs" = some 3 :=
  (open_recovers_init_args mem 3 2 5 1026 (by decide) (by decide) (by decide) (by decide) (by decide)).1

/-- the writer, run step by step (field-wise CRC), gives the same file -/
example : Persist (initSegmentBase mem (crc32 mem) 1026 3 2 5) = file ∧
    WriteTo (initSegmentBase mem (crc32 mem) 1026 3 2 5) = file := by decide +kernel

/-- a wrong seed is visible: with `memCRC = 0` the CRC field is not the CRC of the file -/
example : decodeField (persistSegmentBaseToWriter (initSegmentBase mem 0 1026 3 2 5)) "crc" ≠
    some (crc32 ((persistSegmentBaseToWriter (initSegmentBase mem 0 1026 3 2 5)).take 57)) := by
  decide +kernel

end Example

end Zap.C04

#print axioms Zap.C04.open_recovers_init_args
#print axioms Zap.C04.footer_crc_is_crc_of_all_preceding_bytes
#print axioms Zap.C04.persistFooter_crc
#print axioms Zap.C04.mem_recovered
#print axioms Zap.C04.footer_recovered
#print axioms Zap.C04.persist_eq_writeTo
#print axioms Zap.C04.persist_is_persistBytes
#print axioms Zap.C04.persistSegmentBaseToWriter_init
#print axioms Zap.C04.persistSegmentBase_calls_toWriter
#print axioms Zap.C04.toWriter_shape
#print axioms Zap.C04.persistFooter_shape
