/-
  C03: doc values.
    (a) content of the doc-value data of a built segment (`C03_content`,
        `C03_visit_built`), given the dictionary content of C01;
    (b) the reader state machine of `VisitDocValues` for ANY segment: a visit
        returns the same whatever (legitimately obtained) state it is given
        (`C03_visit_any_order`, `C03_visit_sequence`, `C03_fresh_visit`);
    (c) `VisitableDocValueFields` (`C03_dvFieldNames`).
  Property theorems only; helpers are in ZapProofs.DvLemmas.
-/
import ZapProofs.DvLemmas

namespace Zap
open Zap.Dv Zap.Stored

/-! ### (b) the visit-state machine -/

/-- C03 (fresh state): with no state, a visit of `doc` walks `fields` in order;
    each occurrence of a name contributes (a name listed twice contributes
    twice): nothing if the name is unknown or the field has no doc values,
    otherwise the terms recorded for `doc` in the field's doc-value data, each
    paired with the name.  The chunk size plays no role in the result. -/
theorem C03_fresh_visit (s : Seg) (tag cs : Nat) (fields : List Name) (doc : Nat) :
    (s.visitDocValues tag cs none fields doc).2 =
      fields.flatMap (fun n =>
        match s.fieldId? n with
        | none => []
        | some fid =>
          match (s.fields.getD fid default).dv with
          | none => []
          | some data => (((data.find? (·.1 = doc)).map (·.2)).getD []).map (fun t => (n, t))) :=
  visit_out (fun _ => s) cs fields none trivial tag doc

/-- C03 (any order, state reuse, also across segments).
    `Reach segOf cs fields st` says that `st` is `none` or was returned by a
    visit — on any segment `segOf tag'`, of any document — that itself started
    from such a state, all with the same field list and chunk size.  `segOf`
    models "the tag (Go: the `*SegmentBase` pointer) identifies the segment":
    the visit below is on `s = segOf tag`, and every earlier visit tagged `tag`
    was on the same `s`; visits with other tags were on arbitrary other
    segments.  Then the visit returns exactly what a visit without state
    returns.  Holds for every chunk size (also 0) and every segment, built or not. -/
theorem C03_visit_any_order (segOf : Nat → Seg) (s : Seg) (tag cs : Nat) (htag : segOf tag = s)
    (fields : List Name) (st : Option DvState) (hst : Reach segOf cs fields st) (doc : Nat) :
    (s.visitDocValues tag cs st fields doc).2 = (s.visitDocValues tag cs none fields doc).2 := by
  subst htag
  rw [visit_out segOf cs fields st hst.inv tag doc, visit_out segOf cs fields none trivial tag doc]

/-- C03 (a whole session): any sequence of visits `(tag, doc)` — any order,
    repeats, switching segments — threaded through one state that starts from
    any reachable state returns, visit by visit, what stateless visits return. -/
theorem C03_visit_sequence (segOf : Nat → Seg) (cs : Nat) (fields : List Name) (st : Option DvState)
    (hst : Reach segOf cs fields st) (visits : List (Nat × Nat)) :
    runVisits segOf cs fields st visits =
      visits.map (fun p => ((segOf p.1).visitDocValues p.1 cs none fields p.2).2) := by
  rw [runVisits_eq segOf cs fields visits st hst.inv]
  apply List.map_congr_left
  intro p _
  exact (visit_out segOf cs fields none trivial p.1 p.2).symm

/-- C03 (the invariant behind it): in a reachable state that belongs to segment
    `segOf tag`, every reader that claims to hold chunk `c` holds exactly the
    entries of chunk `c` of its field's doc-value data. -/
theorem C03_reader_invariant (segOf : Nat → Seg) (cs : Nat) (fields : List Name) (st : DvState)
    (hst : Reach segOf cs fields (some st)) (tag : Nat) (rs : List DvReader)
    (htag : st.segTag = some tag) (hrs : st.readers = some rs) :
    ∀ r ∈ rs, ∀ c, r.curChunk = some c →
      r.cache = dvChunk ((((segOf tag).fields.getD r.fid default).dv).getD []) cs c :=
  (hst.inv tag rs htag hrs).1

/-! ### (c) visitable doc-value fields -/

/-- C03 (`VisitableDocValueFields`): the names of the field table that are
    indexed with doc values somewhere in the batch, in table order. -/
theorem C03_dvFieldNames (vectors : Bool) (mode : Nat) (b : Batch) :
    (buildSeg vectors mode b).dvFieldNames = (fieldTable b).filter (includeDocValues b) := by
  by_cases hb : b = []
  · subst hb
    have hn : (buildSeg vectors mode []).numDocs = 0 := rfl
    simp [Seg.dvFieldNames, hn, includeDocValues]
  · exact buildSeg_dvFieldNames vectors mode b hb

/-! ### (a) content, given C01 -/

/-- C03 (content).  For a non-empty batch and a name `n` of the field table the
    segment has a field record `f` for `n`; if `n` is indexed with doc values in
    the batch, `f.dv` is `docTermMap` of the field's dictionary with the extra
    doc values (encoded geo shapes) added, whose document numbers are strictly
    ascending, in range and never carry an empty list, and the values it records
    for ANY document number are the specified doc values (the terms ascending,
    each once, then the document's shape if it has one - also for a document
    without terms; none beyond the batch); otherwise `f.dv = none`.
    `hC01` / `hsorted` are the statements of `C01_entries` / `C01_termsSorted`. -/
theorem C03_content (vectors : Bool) (mode : Nat) (b : Batch) (hb : b ≠ [])
    (hC01 : ∀ n t, match lookup t ((buildSeg vectors mode b).dictTerms n) with
      | none => Spec.postings vectors b n t = []
      | some (.general es) =>
          es.map (Spec.hitOfEntry ((buildSeg vectors mode b).fields.map (·.name))) = Spec.postings vectors b n t ∧
          AscNat (es.map (·.doc)) ∧ es ≠ []
      | some (.oneHit _ _) => False)
    (hsorted : ∀ n, SortedLt (((buildSeg vectors mode b).dictTerms n).map (·.1)))
    (n : Name) (hn : n ∈ fieldTable b) :
    ∃ f, (buildSeg vectors mode b).field? n = some f ∧ f.name = n ∧
      (includeDocValues b n = true →
        ∃ terms, f.terms = terms.map (fun t => (t.1, PostRep.general t.2)) ∧
          f.dv = some (addShapes b n (docTermMap b.length terms)) ∧
          ((addShapes b n (docTermMap b.length terms)).map (·.1)).Pairwise (· < ·) ∧
          (∀ p ∈ addShapes b n (docTermMap b.length terms), p.1 < b.length ∧ p.2 ≠ []) ∧
          ∀ d, (((addShapes b n (docTermMap b.length terms)).find? (·.1 = d)).map (·.2)).getD [] =
            Spec.docValues vectors b n d) ∧
      (includeDocValues b n = false → f.dv = none) := by
  obtain ⟨f, hf, hfind⟩ := buildSeg_field?_some vectors mode b hb n hn
  obtain ⟨hname, h1, h2⟩ := buildSeg_field_content vectors mode b hC01 hsorted n f hfind
  refine ⟨f, hf, hname, ?_, ?_⟩
  · intro hi
    obtain ⟨terms, ht, hdv, hrec⟩ := h1 ⟨hb, hi⟩
    exact ⟨terms, ht, hdv, (addShapes_shape b n _).1, (addShapes_shape b n _).2, hrec⟩
  · intro hi
    exact h2 (by rintro ⟨_, h⟩; rw [hi] at h; cases h)

/-- C03 (end to end): on a built segment, with any reachable state, a visit of
    `doc` delivers for each listed name (in order, per occurrence) the specified
    doc values of the document (terms, then the encoded shape of a geo-shape
    field) — nothing for names without doc values, unknown names, or documents
    beyond the batch. -/
theorem C03_visit_built (vectors : Bool) (mode : Nat) (b : Batch)
    (hC01 : ∀ n t, match lookup t ((buildSeg vectors mode b).dictTerms n) with
      | none => Spec.postings vectors b n t = []
      | some (.general es) =>
          es.map (Spec.hitOfEntry ((buildSeg vectors mode b).fields.map (·.name))) = Spec.postings vectors b n t ∧
          AscNat (es.map (·.doc)) ∧ es ≠ []
      | some (.oneHit _ _) => False)
    (hsorted : ∀ n, SortedLt (((buildSeg vectors mode b).dictTerms n).map (·.1)))
    (segOf : Nat → Seg) (tag cs : Nat) (htag : segOf tag = buildSeg vectors mode b)
    (fields : List Name) (st : Option DvState) (hst : Reach segOf cs fields st) (doc : Nat) :
    ((buildSeg vectors mode b).visitDocValues tag cs st fields doc).2 =
      fields.flatMap (fun n => (Spec.docValues vectors b n doc).map (fun t => (n, t))) := by
  rw [← htag, visit_out segOf cs fields st hst.inv tag doc, htag]
  exact flatMap_congr' (fun n _ => buildSeg_fieldOut vectors mode b hC01 hsorted doc n)

/-! ### Concrete data

A 3-document batch with a multi-valued doc-value field `tag` (document 2 has
two instances of it), a field without doc values, chunk size 2, and the visits
2, 0, 2, 1 through one state; then the same on two segments alternately. -/

namespace C03Ex

def tk (s : String) : Tok := { term := strBytes s, freq := 1, locs := [] }
def idF (s : String) : FieldIn := { name := idName, stored := true, val := strBytes s, toks := [tk s] }
def tagN : Name := strBytes "tag"
def bodyN : Name := strBytes "body"

def exB : Batch := [
  { id := strBytes "a", fields := [idF "a", { name := tagN, dv := true, toks := [tk "y", tk "x"] }] },
  { id := strBytes "b", fields := [idF "b", { name := bodyN, toks := [tk "q"] }] },
  { id := strBytes "c", fields := [idF "c", { name := tagN, dv := true, toks := [tk "z"] },
                                   { name := tagN, dv := true, toks := [tk "x", tk "w"] }] } ]

/-- a second, different batch (for the cross-segment session) -/
def exB2 : Batch := [
  { id := strBytes "p", fields := [idF "p", { name := tagN, dv := true, toks := [tk "m"] }] },
  { id := strBytes "q", fields := [idF "q", { name := tagN, dv := true, toks := [tk "n", tk "m"] }] } ]

def seg1 : Seg := buildSeg false 0 exB
def seg2 : Seg := buildSeg false 0 exB2
def flds : List Name := [tagN, strBytes "nope", bodyN, tagN]
def one : Nat → Seg := fun _ => seg1
def two : Nat → Seg := fun t => if t = 0 then seg1 else seg2

/-- `x`, `w`, `y`, `z` as byte strings. -/
def x : Bytes := [120]
def w : Bytes := [119]
def y : Bytes := [121]
def z : Bytes := [122]

/-- the state after the visits 2, 0, 2 is reachable (hypothesis of the theorems is satisfiable) -/
example : Reach one 2 flds
    (some (seg1.visitDocValues 0 2
      (some (seg1.visitDocValues 0 2 (some (seg1.visitDocValues 0 2 none flds 2).1) flds 0).1) flds 2).1) :=
  Reach.visit (segOf := one) 0 2 (Reach.visit (segOf := one) 0 0 (Reach.visit (segOf := one) 0 2 Reach.init))

/-- … and that state really carries a loaded chunk (chunk 1 = documents 2, 3) -/
example : ((seg1.visitDocValues 0 2
      (some (seg1.visitDocValues 0 2 (some (seg1.visitDocValues 0 2 none flds 2).1) flds 0).1) flds 2).1).readers
    = some [{ fid := 2, curChunk := some 1, cache := [(2, [w, x, z])] }] := by decide +kernel

/-- visits 2, 0, 2, 1 through one state: `tag` is listed twice, hence delivered
    twice; `nope` is unknown and `body` has no doc values; document 1 has none. -/
example : runVisits one 2 flds none [(0, 2), (0, 0), (0, 2), (0, 1)] =
    [ [(tagN, w), (tagN, x), (tagN, z), (tagN, w), (tagN, x), (tagN, z)],
      [(tagN, x), (tagN, y), (tagN, x), (tagN, y)],
      [(tagN, w), (tagN, x), (tagN, z), (tagN, w), (tagN, x), (tagN, z)],
      [] ] := by decide +kernel

/-- the same session, visit by visit, against stateless visits (both sides of `C03_visit_sequence`) -/
example : runVisits one 2 flds none [(0, 2), (0, 0), (0, 2), (0, 1)] =
    [(0, 2), (0, 0), (0, 2), (0, 1)].map (fun p => ((one p.1).visitDocValues p.1 2 none flds p.2).2) := by
  decide +kernel

/-- … and against the specification (both sides of `C03_visit_built`) -/
example : runVisits one 2 flds none [(0, 2), (0, 0), (0, 2), (0, 1)] =
    [2, 0, 2, 1].map (fun d => flds.flatMap (fun n => (Spec.docValues false exB n d).map (fun t => (n, t)))) := by
  decide +kernel

/-- one state carried across two segments alternately -/
example : runVisits two 2 flds none [(0, 2), (1, 1), (0, 2), (1, 0), (1, 1), (0, 0)] =
    [(0, 2), (1, 1), (0, 2), (1, 0), (1, 1), (0, 0)].map
      (fun p => ((two p.1).visitDocValues p.1 2 none flds p.2).2) := by decide +kernel

/-- The hypothesis "same field list" of `Reach` is needed (and this is the real
    API's behaviour too: the readers are created from the field list of the
    first visit): a state obtained with another field list hides `tag`. -/
example : (seg1.visitDocValues 0 2 (some (seg1.visitDocValues 0 2
        (some (seg1.visitDocValues 0 2 none [bodyN] 0).1) [bodyN] 0).1) [tagN] 0).2 = [] ∧
    (seg1.visitDocValues 0 2 none [tagN] 0).2 = [(tagN, x), (tagN, y)] := by decide +kernel

/-- `VisitableDocValueFields` on the example (both sides of `C03_dvFieldNames`) -/
example : seg1.dvFieldNames = [tagN] ∧ (fieldTable exB).filter (includeDocValues exB) = [tagN] := by
  decide +kernel

/-- the doc-value data of `tag` (cf. `C03_content`) -/
example : (seg1.field? tagN).map (·.dv) = some (some [(0, [x, y]), (2, [w, x, z])]) := by decide +kernel

/-! Geo-shape fields: the encoded shape is one more doc value, after the terms.
Document 0 has terms and a shape, document 1 only a shape (no terms at all),
document 2 three instances of the field - shapes `aa`, then `bbcc`, then none:
the last shape wins -, document 3 has neither and gets no entry.  (The real
code's answers on this batch: `geo=6869,78,79`, `geo=0102`, `geo=77,7a,bbcc`, `-`.) -/

def geoN : Name := strBytes "geo"

def exG : Batch := [
  { id := strBytes "a", fields := [idF "a",
      { name := geoN, dv := true, toks := [tk "y", tk "x"], shape := some [0x68, 0x69] }] },
  { id := strBytes "b", fields := [idF "b", { name := geoN, dv := true, shape := some [0x01, 0x02] }] },
  { id := strBytes "c", fields := [{ name := geoN, dv := true, toks := [tk "z"], shape := some [0xaa] }, idF "c",
      { name := geoN, dv := true, toks := [tk "w"], shape := some [0xbb, 0xcc] },
      { name := geoN, dv := true, toks := [tk "z"] }] },
  { id := strBytes "d", fields := [idF "d"] } ]

def segG : Seg := buildSeg false 0 exG

/-- the doc-value data of `geo` in the built segment -/
theorem exG_dv : (segG.field? geoN).map (·.dv) =
    some (some [(0, [x, y, [0x68, 0x69]]), (1, [[0x01, 0x02]]), (2, [w, z, [0xbb, 0xcc]])]) := by decide +kernel

/-- visiting it, document by document (4 is beyond the batch), through one state -/
example : runVisits (fun _ => segG) 2 [geoN] none [(0, 0), (0, 1), (0, 2), (0, 3), (0, 4), (0, 1)] =
    [ [(geoN, x), (geoN, y), (geoN, [0x68, 0x69])],
      [(geoN, [0x01, 0x02])],
      [(geoN, w), (geoN, z), (geoN, [0xbb, 0xcc])],
      [], [],
      [(geoN, [0x01, 0x02])] ] := by decide +kernel

/-- … and the specification says the same -/
example : [0, 1, 2, 3, 4].map (Spec.docValues false exG geoN) =
    [[x, y, [0x68, 0x69]], [[0x01, 0x02]], [w, z, [0xbb, 0xcc]], [], []] := by decide +kernel

end C03Ex

#print axioms C03_fresh_visit
#print axioms C03_visit_any_order
#print axioms C03_visit_sequence
#print axioms C03_reader_invariant
#print axioms C03_dvFieldNames
#print axioms C03_content
#print axioms C03_visit_built

end Zap
