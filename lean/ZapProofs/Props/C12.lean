/-
  C12: the thesaurus of a built segment.  For every thesaurus name and term the
  segment's `synonyms` are, as a set with each pair listed once, exactly the
  (synonym, document) pairs the batch defines (minus the excluded documents);
  `thesTerms` are exactly the LHS terms having a pair, in ascending byte order;
  an unknown thesaurus / term gives nothing; synonym fields contribute nothing
  to the ordinary term dictionaries; the synonym ids of pass 1 (`realloc`) and
  the lookups of pass 2 (`process`) are consistent.

  Model: `synIds` (pass 1), `buildThes` (pass 2 + `writeThesauri`), read through
  `Seg.synonyms` / `Seg.thesTerms` (thesaurus.go, synonym_posting.go).
  Specification: `Spec.synPairs` / `Spec.synonyms` / `Spec.thesTermsSet`
  (ZapModel/SpecSyn.lean), domain `Spec.SynWF`.  Of `SynWF` the proofs use only
  the clause "synonym fields occur only in non-plain documents" (`SynPlainOK`);
  the other clauses delimit the domain of the real code (see SpecSyn.lean).

  "The same after persist / open": in the model the reopened segment is the
  same `Seg` value, so there is nothing to prove here; that the bytes written by
  `writeThesauri` read back to this value is tied by the differential run.

  Property theorems only; lemmas are in ZapProofs/SynLemmas.lean.
-/
import ZapProofs.SynLemmas

namespace Zap
open SynL

/-- What the specification lists means what the English says: document number
    `d` defines `term → syn` in thesaurus `n` iff it has a field of kind `.syn`
    named `n` with a definition `df`, `df.lhs = term`, `syn ∈ df.rhs`; the LHS
    terms are those having at least one pair. -/
theorem C12_spec_meaning (b : Batch) (n : Name) (term : Bytes) :
    (∀ syn d, (syn, d) ∈ Spec.synPairs b n term ↔
      ∃ doc, b[d]? = some doc ∧ ∃ f ∈ doc.fields, f.kind = .syn ∧ f.name = n ∧
        ∃ df ∈ f.defs, df.lhs = term ∧ syn ∈ df.rhs) ∧
    (∀ ex p, p ∈ Spec.synonyms b n term ex ↔ p ∈ Spec.synPairs b n term ∧ excluded ex p.2 = false) ∧
    (term ∈ Spec.thesTermsSet b n ↔ ∃ syn d, (syn, d) ∈ Spec.synPairs b n term) :=
  ⟨fun syn d => synPairs_meaning b n term syn d,
   fun ex p => mem_spec_synonyms b n term ex p,
   thesTermsSet_meaning b n term⟩

/-- The synonyms of (thesaurus `n`, `term`) with exclusion `ex`: each pair once,
    and exactly the pairs the batch defines whose document is not excluded. -/
theorem C12_synonyms (vectors : Bool) (mode : Nat) (b : Batch) (hne : b ≠ []) (hwf : Spec.SynWF b)
    (n : Name) (term : Bytes) (ex : Option (List Nat)) :
    ((buildSeg vectors mode b).synonyms n term ex).Nodup ∧
    ∀ p, p ∈ (buildSeg vectors mode b).synonyms n term ex ↔ p ∈ Spec.synonyms b n term ex :=
  ⟨synonyms_nodup _ n term ex (fun t ht => build_thes_wf vectors mode b hne hwf.plainOK n t ht),
   fun p => build_synonyms_mem vectors mode b hne hwf.plainOK n term ex p⟩

/-- The terms of thesaurus `n`: ascending byte order, exactly the LHS terms. -/
theorem C12_terms (vectors : Bool) (mode : Nat) (b : Batch) (hne : b ≠ []) (hwf : Spec.SynWF b) (n : Name) :
    SortedLt ((buildSeg vectors mode b).thesTerms n) ∧
    ∀ t, t ∈ (buildSeg vectors mode b).thesTerms n ↔ t ∈ Spec.thesTermsSet b n :=
  ⟨thesTerms_sorted _ n (fun t ht => build_thes_wf vectors mode b hne hwf.plainOK n t ht),
   fun t => build_thesTerms_mem vectors mode b hne hwf.plainOK n t⟩

/-- Unknown thesaurus name (no document has a synonym field of that name):
    no synonyms, no terms.  Unknown term: no synonyms. -/
theorem C12_unknown (vectors : Bool) (mode : Nat) (b : Batch) (hne : b ≠ []) (hwf : Spec.SynWF b)
    (n : Name) (term : Bytes) (ex : Option (List Nat)) :
    (¬ Spec.hasSynField b n →
      (buildSeg vectors mode b).synonyms n term ex = [] ∧ (buildSeg vectors mode b).thesTerms n = []) ∧
    (term ∉ Spec.thesTermsSet b n → (buildSeg vectors mode b).synonyms n term ex = []) := by
  refine ⟨fun hno => ⟨?_, ?_⟩, fun hno => ?_⟩
  · apply eq_nil_of_no_mem
    intro p hp
    obtain ⟨hp', _⟩ := (mem_spec_synonyms b n term ex p).1 ((C12_synonyms vectors mode b hne hwf n term ex).2 p |>.1 hp)
    exact hno (hasSynField_of_pair (syn := p.1) (d := p.2) hp')
  · apply eq_nil_of_no_mem
    intro t ht
    obtain ⟨syn, d, h⟩ := (thesTermsSet_meaning b n t).1 ((C12_terms vectors mode b hne hwf n).2 t |>.1 ht)
    exact hno (hasSynField_of_pair h)
  · apply eq_nil_of_no_mem
    intro p hp
    obtain ⟨hp', _⟩ := (mem_spec_synonyms b n term ex p).1 ((C12_synonyms vectors mode b hne hwf n term ex).2 p |>.1 hp)
    exact hno ((thesTermsSet_meaning b n term).2 ⟨p.1, p.2, hp'⟩)

/-- Synonym fields contribute nothing to the ordinary term dictionaries: if
    every field named `n` in the batch is a synonym field, the dictionary of
    `n` is empty.  (Neither `SynWF` nor "some synonym field is named `n`" is
    needed: the inverted-index section's exclusion check skips every synonym
    field, `invProcessed`.) -/
theorem C12_not_in_dictionaries (vectors : Bool) (mode : Nat) (b : Batch) (hne : b ≠ []) (n : Name)
    (h : ∀ d ∈ b, ∀ f ∈ d.fields, f.name = n → f.kind = .syn) :
    (buildSeg vectors mode b).dictTerms n = [] :=
  build_dictTerms_syn vectors mode b hne n h

/-- Pass 1 assigned every synonym of every definition of thesaurus `n` an id,
    injectively: the id pass 2 looks up is in range and maps back to the
    synonym through `synIds` and through the segment's id → term table. -/
theorem C12_ids_consistent (b : Batch) (hwf : Spec.SynWF b) (n : Name) :
    (synIds b n).Nodup ∧
    (∀ s s', s ∈ synIds b n → s' ∈ synIds b n → synIdOf (synIds b n) s = synIdOf (synIds b n) s' → s = s') ∧
    ∀ d ∈ b, ∀ f ∈ d.fields, f.kind = .syn → f.name = n → ∀ df ∈ f.defs, ∀ syn ∈ df.rhs,
      synIdOf (synIds b n) syn < (synIds b n).length ∧
      (synIds b n)[synIdOf (synIds b n) syn]? = some syn ∧
      lookup (synIdOf (synIds b n) syn) (buildThes b n).table = some syn :=
  ⟨synIds_nodup b n, fun _ _ h h' e => synIdOf_inj h h' e,
   fun _ hd _ hf hk hn _ hdf _ hs => ids_consistent hwf.plainOK n hd hf hk hn hdf hs⟩

/-- Every thesaurus of a built segment is well formed (`Spec.ThesWF`): the
    input condition of the merge theorems C13. -/
theorem C12_wellformed (vectors : Bool) (mode : Nat) (b : Batch) (hne : b ≠ []) (hwf : Spec.SynWF b) :
    Spec.SegThesWF (buildSeg vectors mode b) :=
  build_thes_wf vectors mode b hne hwf.plainOK

/-! ### The hypotheses are not vacuous: a concrete batch

Three documents, two thesauri (`th1`, `th2`).  In `th1` the synonym `q` is shared
between the terms `x` and `y`; the term `x` is defined by documents 0 and 2 (and
twice the pair `(q, 2)`: it is listed once); the empty LHS term occurs; document 1
is a plain document with an ordinary field that happens to contain the token `x`. -/

namespace C12Example

def B (s : String) : Bytes := strBytes s
def th1 : Name := B "th1"
def th2 : Name := B "th2"

def idf (s : String) : FieldIn :=
  { name := idName, stored := true, val := B s, len := 1, toks := [{ term := B s, freq := 1, locs := [] }] }

def batch : Batch :=
  [ { id := B "a", fields :=
        [ idf "a",
          { kind := .syn, name := th1, defs := [⟨B "x", [B "p", B "q"]⟩, ⟨B "y", [B "q"]⟩] },
          { kind := .syn, name := th2, defs := [⟨B "x", [B "r"]⟩] } ] },
    { id := B "b", plain := true, fields :=
        [ idf "b", { name := B "body", len := 1, toks := [{ term := B "x", freq := 1, locs := [] }] } ] },
    { id := B "c", fields :=
        [ idf "c",
          { kind := .syn, name := th1, defs := [⟨B "x", [B "q", B "s", B "q"]⟩, ⟨B "", [B "z"]⟩] } ] } ]

example : Spec.SynWF batch := by decide +kernel
example : batch ≠ [] := by simp [batch]

/-- both sides of `C12_synonyms` for (`th1`, `x`), no exclusion … -/
example : (buildSeg false 1024 batch).synonyms th1 (B "x") none
    = [(B "p", 0), (B "q", 0), (B "q", 2), (B "s", 2)] := by decide +kernel
/-- … the specification lists the pair `(q, 2)` twice (it is a set) -/
example : Spec.synonyms batch th1 (B "x") none
    = [(B "p", 0), (B "q", 0), (B "q", 2), (B "s", 2), (B "q", 2)] := by decide +kernel

/-- with document 0 excluded -/
example : (buildSeg false 1024 batch).synonyms th1 (B "x") (some [0]) = [(B "q", 2), (B "s", 2)]
    ∧ Spec.synonyms batch th1 (B "x") (some [0]) = [(B "q", 2), (B "s", 2), (B "q", 2)] := by decide +kernel

/-- the second thesaurus is separate -/
example : (buildSeg false 1024 batch).synonyms th2 (B "x") none = [(B "r", 0)]
    ∧ Spec.synonyms batch th2 (B "x") none = [(B "r", 0)] := by decide +kernel

/-- both sides of `C12_terms` (the empty term first) -/
example : (buildSeg false 1024 batch).thesTerms th1 = [B "", B "x", B "y"]
    ∧ Spec.thesTermsSet batch th1 = [B "x", B "y", B "x", B ""] := by decide +kernel

/-- `C12_unknown`: unknown thesaurus, unknown term -/
example : ¬ Spec.hasSynField batch (B "body") := by
  unfold Spec.hasSynField; decide +kernel
example : (buildSeg false 1024 batch).synonyms (B "body") (B "x") none = []
    ∧ (buildSeg false 1024 batch).thesTerms (B "body") = []
    ∧ (buildSeg false 1024 batch).synonyms th2 (B "y") none = [] := by decide +kernel

/-- `C12_not_in_dictionaries`: hypothesis holds for `th1`; the dictionary is
    empty although the field is in the field table -/
example : ∀ d ∈ batch, ∀ f ∈ d.fields, f.name = th1 → f.kind = .syn := by decide +kernel
example : (buildSeg false 1024 batch).dictTerms th1 = [] ∧ th1 ∈ (buildSeg false 1024 batch).fieldNames
    ∧ (buildSeg false 1024 batch).dictTerms (B "body") ≠ [] := by decide +kernel

/-- `C12_ids_consistent`: ids in first-appearance order; the stored table -/
example : synIds batch th1 = [B "p", B "q", B "s", B "z"]
    ∧ (buildThes batch th1).table = [(0, B "p"), (1, B "q"), (2, B "s"), (3, B "z")]
    ∧ (buildThes batch th1).terms
        = [(B "", [(3, 2)]), (B "x", [(0, 0), (1, 0), (1, 2), (2, 2)]), (B "y", [(1, 0)])] := by decide +kernel

/-- The domain clause is necessary: the same synonym field in a *plain* document
    is seen by pass 2 only — no thesaurus is recorded, the specification is not
    met (in the real code `process` would index `Thesauri` with an undefined id). -/
example :
    let bad : Batch := [ { id := B "a", plain := true, fields :=
        [ idf "a", { kind := .syn, name := th1, defs := [⟨B "x", [B "p"]⟩] } ] } ]
    ¬ Spec.SynWF bad ∧ (buildSeg false 1024 bad).synonyms th1 (B "x") none = []
      ∧ Spec.synonyms bad th1 (B "x") none = [(B "p", 0)] := by decide +kernel

end C12Example

end Zap

#print axioms Zap.C12_spec_meaning
#print axioms Zap.C12_synonyms
#print axioms Zap.C12_terms
#print axioms Zap.C12_unknown
#print axioms Zap.C12_not_in_dictionaries
#print axioms Zap.C12_ids_consistent
#print axioms Zap.C12_wellformed
