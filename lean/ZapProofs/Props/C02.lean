/-
  C02: stored fields, document ids, document count, id lookup (DocNumbers) of
  a built segment, against `Spec.stored` / `Spec.docNumbers`.
  Property theorems only; helpers are in ZapProofs.StoredLemmas.
-/
import ZapProofs.StoredLemmas

namespace Zap
open Zap.Stored

/-- C02 (stored fields): visiting all stored fields of document `d` of the built
    segment delivers `_id` first and then, in field-table order and within a
    field in input order, every stored instance of the document, with the name
    resolved through the segment's field table and the type as one byte. -/
theorem C02_stored (vectors : Bool) (mode : Nat) (b : Batch) (_hwf : Spec.WF b) (d : Nat) (hd : d < b.length) :
    (buildSeg vectors mode b).storedAll d = Spec.stored (fieldTable b) b[d] :=
  buildSeg_storedAll vectors mode b d hd

/-- C02 (out of range): beyond the last document nothing is visited and there is no id. -/
theorem C02_beyond (vectors : Bool) (mode : Nat) (b : Batch) (d : Nat) (hd : b.length ≤ d) :
    (buildSeg vectors mode b).storedAll d = [] ∧ (buildSeg vectors mode b).docID d = none := by
  have hn : (buildSeg vectors mode b).numDocs = b.length := rfl
  have : ¬ d < b.length := by omega
  simp [Seg.storedAll, Seg.docID, hn, this]

/-- C02 (early stop): a visitor that returns `false` on its `k`-th callback
    receives exactly the first `max k 1` values (all of them if there are fewer):
    a prefix of the full visit, of length `min (max k 1) xs.length`. -/
theorem C02_stop {α : Type} (xs : List α) (k : Nat) :
    visitWithStop xs (some k) = xs.take (max k 1) ∧
    visitWithStop xs (some k) <+: visitWithStop xs none ∧
    (visitWithStop xs (some k)).length = min (max k 1) xs.length := by
  refine ⟨rfl, ?_, ?_⟩
  · exact List.take_prefix _ _
  · simp [visitWithStop]

/-- C02 (DocID): the id of document `d` is the value of the first stored `_id`
    instance of `b[d]` (which exists for a well-formed batch). -/
theorem C02_docID (vectors : Bool) (mode : Nat) (b : Batch) (hwf : Spec.WF b) (d : Nat) (hd : d < b.length) :
    ∃ f, (storedInsts b[d] idName).head? = some f ∧ (buildSeg vectors mode b).docID d = some f.val := by
  have hn : (buildSeg vectors mode b).numDocs = b.length := rfl
  obtain ⟨f, hf, hk, hname, hst⟩ := hwf.hasId b[d] (List.getElem_mem hd)
  have hmem : f ∈ storedInsts b[d] idName := by
    simp [storedInsts, hf, hk, hname, hst]
  cases hh : storedInsts b[d] idName with
  | nil => rw [hh] at hmem; cases hmem
  | cons g rest =>
    refine ⟨g, rfl, ?_⟩
    simp [Seg.docID, hn, hd, buildSeg_stored_get vectors mode b d hd, storedDoc, hh]

/-- C02 (DocID, bleve's `_id` discipline): the id is the document's id. -/
theorem C02_docID_id (vectors : Bool) (mode : Nat) (b : Batch) (hid : IdWF b) (d : Nat) (hd : d < b.length) :
    (buildSeg vectors mode b).docID d = some b[d].id := by
  have hn : (buildSeg vectors mode b).numDocs = b.length := rfl
  simp [Seg.docID, hn, hd, buildSeg_stored_get vectors mode b d hd, storedDoc,
    storedInsts_id_of_idWF (hid b[d] (List.getElem_mem hd))]

/-- C02 (Count). -/
theorem C02_count (vectors : Bool) (mode : Nat) (b : Batch) : (buildSeg vectors mode b).numDocs = b.length := rfl

/-- The max-key short cut of `DocNumbers` never hides a hit: above the last key
    of a strictly ascending dictionary nothing is found. -/
theorem C02_maxkey_shortcut_sound {β : Type} (terms : List (Bytes × β)) (mx : Bytes) (v : β) (id : Bytes)
    (hs : SortedLt (terms.map (·.1))) (hlast : terms.getLast? = some (mx, v))
    (hgt : Bytes.le id mx = false) : lookup id terms = none :=
  maxkey_shortcut_sound terms mx v id hs hlast hgt

/-- C02 (DocNumbers), for the built segment, given the dictionary content of
    C01 (`hC01`, `hsorted`: proved elsewhere as `C01_entries` / `C01_termsSorted`)
    and bleve's `_id` discipline (`IdWF`): the result is exactly the ascending,
    duplicate-free list of numbers of the documents whose id is requested. -/
theorem C02_docNumbers (vectors : Bool) (mode : Nat) (b : Batch) (hid : IdWF b)
    (hC01 : ∀ n t, match lookup t ((buildSeg vectors mode b).dictTerms n) with
      | none => Spec.postings vectors b n t = []
      | some (.general es) =>
          es.map (Spec.hitOfEntry ((buildSeg vectors mode b).fields.map (·.name))) = Spec.postings vectors b n t ∧
          AscNat (es.map (·.doc)) ∧ es ≠ []
      | some (.oneHit _ _) => False)
    (hsorted : SortedLt (((buildSeg vectors mode b).dictTerms idName).map (·.1)))
    (ids : List Bytes) :
    (buildSeg vectors mode b).docNumbers ids = Spec.docNumbers b ids :=
  buildSeg_docNumbers vectors mode b hid hC01 hsorted ids

/-- `Spec.docNumbers` is ascending and duplicate free, and lists exactly the
    documents whose id is in `ids`. -/
theorem C02_docNumbers_spec (b : Batch) (ids : List Bytes) :
    (Spec.docNumbers b ids).Pairwise (· < ·) ∧
    ∀ d, d ∈ Spec.docNumbers b ids ↔ ∃ h : d < b.length, b[d].id ∈ ids :=
  ⟨specDocNumbers_pairwise b ids, mem_specDocNumbers b ids⟩

/-! ### Concrete data

A 3-document batch: a field stored twice in one document (with array
positions), a type byte above 255, field-table order different from input
order, a composite field, a field that is not stored. -/

namespace C02Ex

def tk (s : String) : Tok := { term := strBytes s, freq := 1, locs := [] }
def idF (s : String) : FieldIn := { name := idName, stored := true, val := strBytes s, toks := [tk s] }
def titleN : Name := strBytes "title"
def alphaN : Name := strBytes "alpha"
def zetaN : Name := strBytes "zeta"

def exB : Batch := [
  { id := strBytes "a", fields := [idF "a",
      { name := titleN, stored := true, val := [84, 49], toks := [tk "t"] },
      { name := titleN, stored := true, val := [84, 50], ap := [1], typ := 372 }] },
  { id := strBytes "b", fields := [idF "b", { name := strBytes "body", toks := [tk "q"] },
      { kind := .comp, name := strBytes "_all", toks := [tk "q"] }] },
  { id := strBytes "c", fields := [idF "c",
      { name := zetaN, stored := true, val := [90] },
      { name := alphaN, stored := true, val := [65], typ := 110 }] } ]

def seg : Seg := buildSeg false 0 exB

/-- the hypotheses are satisfiable -/
example : Spec.WF exB := by constructor <;> decide +kernel
example : IdWF exB := by decide +kernel

/-- both sides of `C02_stored`, and their value, for documents 0 and 2 -/
example : seg.storedAll 0 = Spec.stored (fieldTable exB) exB[0] ∧
    seg.storedAll 0 =
      [ { name := idName, typ := 116, val := [97], ap := [] },
        { name := titleN, typ := 116, val := [84, 49], ap := [] },
        { name := titleN, typ := 116, val := [84, 50], ap := [1] } ] := by decide +kernel
example : seg.storedAll 2 = Spec.stored (fieldTable exB) exB[2] ∧
    seg.storedAll 2 =
      [ { name := idName, typ := 116, val := [99], ap := [] },
        { name := alphaN, typ := 110, val := [65], ap := [] },
        { name := zetaN, typ := 116, val := [90], ap := [] } ] := by decide +kernel

/-- `C02_beyond`, `C02_docID`, `C02_count` -/
example : seg.storedAll 3 = [] ∧ seg.docID 3 = none ∧ seg.docID 1 = some [98] ∧ seg.numDocs = 3 := by
  decide +kernel

/-- `C02_stop`: a visitor stopping at its 2nd callback (resp. at once) on document 0 -/
example : visitWithStop (seg.storedAll 0) (some 2) = (seg.storedAll 0).take 2 ∧
    (visitWithStop (seg.storedAll 0) (some 0)).length = 1 ∧
    (visitWithStop (seg.storedAll 0) (some 7)).length = 3 := by decide +kernel

/-- both sides of `C02_docNumbers` (ids out of order, repeated, unknown, above the
    maximal key); the sort is evaluated by `simp`, everything else by the kernel -/
example : seg.docNumbers [[99], [122, 122], [97], [99], [96]] =
    Spec.docNumbers exB [[99], [122, 122], [97], [99], [96]] := by
  rw [show Spec.docNumbers exB [[99], [122, 122], [97], [99], [96]] = [0, 2] by decide +kernel]
  unfold Seg.docNumbers
  rw [show seg.fieldNames.isEmpty = false by decide +kernel]
  rw [show seg.dictTerms idName =
    [([97], .general [{ doc := 0, freq := 1, norm := 0, locs := [] }]),
     ([98], .general [{ doc := 1, freq := 1, norm := 0, locs := [] }]),
     ([99], .general [{ doc := 2, freq := 1, norm := 0, locs := [] }])] by decide +kernel]
  simp [lookup, Bytes.le, Bytes.lt, PostRep.docs, List.mergeSort]

end C02Ex

#print axioms C02_stored
#print axioms C02_beyond
#print axioms C02_stop
#print axioms C02_docID
#print axioms C02_docID_id
#print axioms C02_count
#print axioms C02_maxkey_shortcut_sound
#print axioms C02_docNumbers
#print axioms C02_docNumbers_spec

end Zap
