/-
  C01: the segment built from a batch agrees with the per-query specification:
  field table, dictionary content (documents, frequencies, norms, locations),
  term order.  Property theorems only; lemmas are in ZapProofs.BuildLemmas*.
-/
import ZapProofs.BuildLemmas4

namespace Zap

/-- the field table: `_id` first, the other names ascending, each once, exactly the batch's names -/
theorem C01_fieldTable (b : Batch) : Spec.IsFieldTable b (fieldTable b) :=
  fieldTable_isFieldTable b

/-- the segment's field records carry exactly the names of the field table, in order -/
theorem C01_fieldNames (vectors : Bool) (mode : Nat) (b : Batch) :
    (buildSeg vectors mode b).fields.map (·.name) = fieldTable b :=
  buildSeg_names vectors mode b

/-- dictionary content: for every field name `n` and term `t`, the built segment's dictionary of `n`
    has `t` iff some document has `t` in `n`, and then its entries, resolved through the field table,
    are exactly `Spec.postings` (documents in increasing order, frequency / norm / locations as the
    spec says). -/
theorem C01_entries (vectors : Bool) (mode : Nat) (b : Batch) (hwf : Spec.WF b) (hne : b ≠ [])
    (n : Name) (t : Bytes) :
    match lookup t ((buildSeg vectors mode b).dictTerms n) with
    | none => Spec.postings vectors b n t = []
    | some (.general es) =>
        es.map (Spec.hitOfEntry ((buildSeg vectors mode b).fields.map (·.name))) = Spec.postings vectors b n t
        ∧ AscNat (es.map (·.doc)) ∧ es ≠ []
    | some (.oneHit _ _) => False := by
  rw [lookup_dictTerms vectors mode b hne n t, buildSeg_names]
  by_cases hn : n ∈ fieldTable b
  · have hsrc : ∀ d ∈ b, DocSrcIn (fieldTable b) d := by
      intro d hd f hf tok htok l hl
      rcases hwf.srcKnown d hd f hf tok htok l hl with e | e
      · exact Or.inl e
      · exact Or.inr ((mem_fieldTable b _).2 (Or.inr e))
    have hpost := postings_eq_entries vectors (fieldTable b) n hn t b hsrc
    have hasc := postings_docs_asc vectors b n t
    rw [if_pos hn, dget_processDocs vectors (fieldTable b) n hn t b (fun d hd => hwf.termsDistinct d hd)]
    rw [hpost] at hasc ⊢
    generalize List.filterMap (fun p => entryOf vectors (fieldTable b) n t p.2 p.1) b.zipIdx = l at hasc ⊢
    cases l with
    | nil => simp
    | cons e es =>
      show _ ∧ _ ∧ _
      refine ⟨rfl, ?_, by simp⟩
      have : (List.map (Spec.hitOfEntry (fieldTable b)) (e :: es)).map (·.doc) = (e :: es).map (·.doc) := by
        rw [List.map_map]; rfl
      rw [← this]; exact hasc
  · rw [if_neg hn]
    exact postings_of_unknown vectors b n t (fun h => hn ((mem_fieldTable b n).2 (Or.inr h)))

/-- terms of every field dictionary are strictly ascending (what the FST requires) -/
theorem C01_termsSorted (vectors : Bool) (mode : Nat) (b : Batch) :
    ∀ f ∈ (buildSeg vectors mode b).fields, SortedLt (f.terms.map (·.1)) :=
  buildSeg_termsSorted vectors mode b

/-- empty batch: no fields visible, no postings -/
theorem C01_empty (vectors : Bool) (mode : Nat) :
    (buildSeg vectors mode []).fieldNames = [] ∧
    (∀ n, (buildSeg vectors mode []).dictTerms n = []) ∧
    ∀ n t, Spec.postings vectors [] n t = [] :=
  ⟨(buildSeg_empty vectors mode).1, (buildSeg_empty vectors mode).2, fun _ _ => rfl⟩

/-- `C01_entries` without the non-emptiness hypothesis -/
theorem C01_entries_all (vectors : Bool) (mode : Nat) (b : Batch) (hwf : Spec.WF b) (n : Name) (t : Bytes) :
    match lookup t ((buildSeg vectors mode b).dictTerms n) with
    | none => Spec.postings vectors b n t = []
    | some (.general es) =>
        es.map (Spec.hitOfEntry ((buildSeg vectors mode b).fields.map (·.name))) = Spec.postings vectors b n t
        ∧ AscNat (es.map (·.doc)) ∧ es ≠ []
    | some (.oneHit _ _) => False := by
  by_cases hne : b = []
  · subst hne
    rw [(C01_empty vectors mode).2.1 n]
    exact (C01_empty vectors mode).2.2 n t
  · exact C01_entries vectors mode b hwf hne n t

/-! ### The hypotheses are not vacuous: a concrete batch

Two documents; field `a` is multi-valued in document 0 (two instances, the second one also
carrying the term `y` without locations, the first one the empty term); the composite field
`_all` has locations naming the source field `a`; in document 1 `_all` occurs twice, so the
second instance's location is attributed to `_all` itself (the `MergeAll` renaming). -/

namespace C01Example

def nA : Name := [97]
def nAll : Name := [95, 97, 108, 108]
def tX : Bytes := [120]
def tY : Bytes := [121]

def batch : Batch :=
  [ { id := [49], fields :=
        [ { name := idName, stored := true, val := [49], len := 1, toks := [{ term := [49], freq := 1, locs := [] }] },
          { name := nA, len := 2, toks := [{ term := tX, freq := 2, locs := [⟨[], 1, 0, 1, []⟩, ⟨[], 2, 2, 3, []⟩] },
                                         { term := [], freq := 1, locs := [⟨[], 3, 4, 4, []⟩] }] },
          { name := nA, len := 1, toks := [{ term := tX, freq := 1, locs := [⟨[], 1, 0, 1, [1]⟩] },
                                         { term := tY, freq := 1, locs := [] }] },
          { kind := .comp, name := nAll, len := 3,
            toks := [{ term := tX, freq := 3, locs := [⟨nA, 1, 0, 1, []⟩, ⟨nA, 2, 2, 3, []⟩, ⟨nA, 1, 0, 1, [1]⟩] }] } ] },
    { id := [50], fields :=
        [ { name := idName, stored := true, val := [50], len := 1, toks := [{ term := [50], freq := 1, locs := [] }] },
          { name := nA, len := 1, toks := [{ term := tX, freq := 1, locs := [⟨[], 1, 0, 1, []⟩] }] },
          { kind := .comp, name := nAll, len := 1, toks := [{ term := tX, freq := 1, locs := [⟨nA, 1, 0, 1, []⟩] }] },
          { kind := .comp, name := nAll, len := 1, toks := [{ term := tX, freq := 1, locs := [⟨nA, 7, 8, 9, []⟩] }] } ] } ]

example : Spec.WF batch := ⟨by decide +kernel, by decide +kernel, by decide +kernel⟩

example : batch ≠ [] := by simp [batch]

example : fieldTable batch = [idName, nAll, nA] := by decide +kernel

/-- both sides of `C01_entries` for (`_all`, `x`): what the built dictionary holds … -/
example : lookup tX ((buildSeg false 0 batch).dictTerms nAll) = some (.general
    [ { doc := 0, freq := 3, norm := 3, locs := [⟨2, 1, 0, 1, []⟩, ⟨2, 2, 2, 3, []⟩, ⟨2, 1, 0, 1, [1]⟩] },
      { doc := 1, freq := 2, norm := 2, locs := [⟨2, 1, 0, 1, []⟩, ⟨1, 7, 8, 9, []⟩] } ]) := by
  decide +kernel

/-- … and what the specification says. -/
example : Spec.postings false batch nAll tX =
    [ { doc := 0, freq := 3, norm := 3, locs := [⟨nA, 1, 0, 1, []⟩, ⟨nA, 2, 2, 3, []⟩, ⟨nA, 1, 0, 1, [1]⟩] },
      { doc := 1, freq := 2, norm := 2, locs := [⟨nA, 1, 0, 1, []⟩, ⟨nAll, 7, 8, 9, []⟩] } ] := by
  decide +kernel

/-- the multi-valued field, the empty term, a term without locations, an absent term, an unknown field -/
example :
    lookup tX ((buildSeg false 0 batch).dictTerms nA) = some (.general
      [ { doc := 0, freq := 3, norm := 3, locs := [⟨2, 1, 0, 1, []⟩, ⟨2, 2, 2, 3, []⟩, ⟨2, 1, 0, 1, [1]⟩] },
        { doc := 1, freq := 1, norm := 1, locs := [⟨2, 1, 0, 1, []⟩] } ]) ∧
    Spec.postings false batch nA [] = [ { doc := 0, freq := 1, norm := 3, locs := [⟨nA, 3, 4, 4, []⟩] } ] ∧
    lookup [] ((buildSeg false 0 batch).dictTerms nA) =
      some (.general [ { doc := 0, freq := 1, norm := 3, locs := [⟨2, 3, 4, 4, []⟩] } ]) ∧
    lookup tY ((buildSeg false 0 batch).dictTerms nA) =
      some (.general [ { doc := 0, freq := 1, norm := 3, locs := [] } ]) ∧
    lookup [122] ((buildSeg false 0 batch).dictTerms nA) = none ∧
    Spec.postings false batch nA [122] = [] ∧
    (buildSeg false 0 batch).dictTerms [122] = [] := by
  decide +kernel

/-- the statement of `C01_entries` on this batch, checked by evaluation alone -/
example :
    (match lookup tX ((buildSeg false 0 batch).dictTerms nAll) with
     | none => decide (Spec.postings false batch nAll tX = [])
     | some (.general es) =>
         decide (es.map (Spec.hitOfEntry ((buildSeg false 0 batch).fields.map (·.name))) =
           Spec.postings false batch nAll tX) && !es.isEmpty
     | some (.oneHit _ _) => false) = true := by
  decide +kernel

end C01Example

/-! ### Why `Spec.WF` is needed (the two clauses the proof uses)

* `termsDistinct`: a field instance listing a term twice is committed twice
  (`firstTFs` keeps both, `appendEntry` appends two entries for the same document). -/
example :
    let toks : List Tok := [{ term := [120], freq := 1, locs := [] }, { term := [120], freq := 5, locs := [] }]
    let b : Batch := [ { id := [49], fields := [ { name := [97], len := 1, toks := toks } ] } ]
    (lookup [120] ((buildSeg false 0 b).dictTerms [97])).map (fun r => r.entries.map (·.freq)) = some [1, 5] ∧
    (Spec.postings false b [97] [120]).map (·.freq) = [1] := by
  decide +kernel

/-- * `srcKnown`: a location naming a field that is not in the batch gets the id `tbl.length`,
    which no name of the field table resolves. -/
example :
    let toks : List Tok := [{ term := [120], freq := 1, locs := [⟨[98], 1, 0, 1, []⟩] }]
    let b : Batch := [ { id := [49], fields := [ { name := [97], len := 1, toks := toks } ] } ]
    (lookup [120] ((buildSeg false 0 b).dictTerms [97])).map
        (fun r => r.entries.map (fun e => (Spec.hitOfEntry (fieldTable b) e).locs.map (·.field))) = some [[[]]] ∧
    (Spec.postings false b [97] [120]).map (fun h => h.locs.map (·.field)) = [[[98]]] := by
  decide +kernel

#print axioms C01_fieldTable
#print axioms C01_fieldNames
#print axioms C01_entries
#print axioms C01_entries_all
#print axioms C01_termsSorted
#print axioms C01_empty

end Zap
