/-
  Property C01 (headline): for any batch, the built segment reports, for every
  field and term, exactly the documents that contain the term, in increasing
  order, each with its frequency, norm and locations; absent fields / terms give
  empty results; for every supported chunk mode.

  Composition of
    * `C01_entries_all` / `C01_termsSorted` (Props/C01Build): dictionary content;
    * `C07_run` (Props/C07): the postings iterator returns exactly the live entries;
    * `getChunkSize_pos` / `getChunkSize_ok_of_valid` (Props/Codec) on the GENERATED
      `Gen.getChunkSize`.
  `Spec.readAll` is the read path itself: `Seg.postingsList` (dictionary lookup,
  `getChunkSize`), `It.create … true true true`, `numDocs + 1` calls of `Next`.
-/
import ZapProofs.ComposeLemmas

namespace Zap
open Zap.Compose

/-- an absent term / absent field yields a postings list whose full iteration is empty -/
theorem readAll_absent (pl : PList) (hrep : pl.rep = none) (k : Nat) :
    ((It.create pl true true true).run (List.replicate k Op.next)).filterMap id = [] := by
  have hwf : pl.WF := ⟨by rw [hrep]; trivial, by rw [hrep]; trivial⟩
  rw [C07_run pl hwf]
  have hlive : Spec.live pl = [] := by unfold Spec.live; rw [hrep]
  rw [hlive, run_next_filterMap _ _ _ (Nat.zero_le _)]
  rfl

/-- full iteration of a well-formed general postings list (no exclusion) delivers every entry -/
theorem readAll_general (es : List Entry) (cs : Nat) (names : List Name) (k : Nat)
    (hasc : AscNat (es.map (·.doc))) (hpos : 0 < cs) (hk : es.length ≤ k) :
    ((It.create ⟨some (.general es), none, cs, names⟩ true true true).run
        (List.replicate k Op.next)).filterMap id = es.map (Spec.hitOfEntry names) := by
  have hplwf : PList.WF ⟨some (.general es), none, cs, names⟩ := ⟨hasc, hpos⟩
  rw [C07_run _ hplwf]
  have hlive : Spec.live ⟨some (.general es), none, cs, names⟩ = es := by
    simp [Spec.live, PostRep.entries, excluded]
  rw [hlive, run_next_filterMap _ _ _ hk, mkHit_all]

/-- C01 (headline).  `hmode` is the guard the real build applies (`getChunkSize` succeeds for
    every term's cardinality); `C01_modes` discharges it for every supported mode. -/
theorem C01_postings (vectors : Bool) (mode : Nat) (b : Batch) (hwf : Spec.WF b)
    (hmode : modeOK mode (buildSeg vectors mode b) = true) (n : Name) (t : Bytes) :
    Spec.readAll (buildSeg vectors mode b) n t = .ok (Spec.postings vectors b n t) := by
  have h := C01_entries_all vectors mode b hwf n t
  unfold Seg.dictTerms at h
  unfold Spec.readAll Seg.postingsList
  cases hf : (buildSeg vectors mode b).field? n with
  | none =>
    rw [hf] at h
    simp only [lookup] at h
    simp only
    rw [readAll_absent _ rfl, h]
  | some f =>
    rw [hf] at h
    simp only at h ⊢
    cases hl : lookup t f.terms with
    | none =>
      rw [hl] at h
      simp only at h ⊢
      rw [readAll_absent _ rfl, h]
    | some r =>
      rw [hl] at h
      cases r with
      | oneHit d nb => exact False.elim h
      | general es =>
        simp only at h ⊢
        obtain ⟨hpost, hasc, _⟩ := h
        -- the chunk size: `modeOK` covers this term
        have hmem : (t, PostRep.general es) ∈ f.terms := mem_of_lookup hl
        have hfm : f ∈ (buildSeg vectors mode b).fields := (field?_mem hf).1
        have hok := hmode
        unfold modeOK at hok
        rw [List.all_eq_true] at hok
        have hok2 := hok f hfm
        rw [List.all_eq_true] at hok2
        have hok3 := hok2 _ hmem
        simp only [PostRep.docs, List.length_map] at hok3
        have hcm : (buildSeg vectors mode b).chunkMode = mode := rfl
        rw [hcm]
        cases hcs : Gen.getChunkSize mode es.length (buildSeg vectors mode b).numDocs with
        | error e => rw [hcs] at hok3; cases hok3
        | ok cs =>
          simp only
          have hpos : 0 < cs := Props.Codec.getChunkSize_pos _ _ _ _ hcs
          have hlen : es.length ≤ (buildSeg vectors mode b).numDocs + 1 := by
            have hn : (buildSeg vectors mode b).numDocs = b.length := rfl
            have : es.length = (Spec.postings vectors b n t).length := by
              rw [← hpost, List.length_map]
            have := postings_length_le vectors b n t
            omega
          rw [readAll_general es cs _ _ hasc hpos hlen, hpost]

/-- C01 (every supported chunk mode): the build guard holds for modes 1..1026.
    `hwf` is needed (a term listed 1024 times in one field instance would make the model's
    cardinality exceed the document count); `h64` is Go's `uint64` range of the cardinality. -/
theorem C01_modes (vectors : Bool) (mode : Nat) (b : Batch) (hwf : Spec.WF b)
    (hm : 1 ≤ mode ∧ mode ≤ 1026) (h64 : b.length < 2 ^ 64) :
    modeOK mode (buildSeg vectors mode b) = true := by
  unfold modeOK
  rw [List.all_eq_true]
  intro f hf
  rw [List.all_eq_true]
  intro p hp
  have hcard := buildSeg_card_le vectors mode b hwf f hf p hp
  have hn : (buildSeg vectors mode b).numDocs = b.length := rfl
  rw [hn]
  have hpos : 0 < b.length := by
    cases b with
    | nil =>
      exfalso
      have hfs : (buildSeg vectors mode []).fields.map (·.terms) = [[]] := by cases vectors <;> rfl
      have : f.terms ∈ (buildSeg vectors mode []).fields.map (·.terms) := List.mem_map.2 ⟨f, hf, rfl⟩
      rw [hfs] at this
      have : f.terms = [] := by simpa using this
      rw [this] at hp; cases hp
    | cons d l => simp
  obtain ⟨s, hs⟩ := Props.Codec.getChunkSize_ok_of_valid mode p.2.docs.length b.length hm hpos hcard
    (by omega)
  rw [hs]

/-- Why `C01_modes` needs `Spec.WF` (clause `termsDistinct`): one document whose field instance
    lists the same term 1024 times gives, in the model, a postings list of cardinality 1024 over a
    single document; mode 1026 then computes `1 / 2 = 0` and the guard fails.  (The real input type
    `TokenFrequencies` is a map and the real postings are a bitmap, so this input cannot arise.) -/
def nonWFBatch : Batch :=
  [ { id := [49], fields := [ { name := [97], len := 1,
                                toks := List.replicate 1024 { term := [120], freq := 1, locs := [] } } ] } ]

set_option maxRecDepth 1000000 in
theorem C01_modes_needs_WF : modeOK 1026 (buildSeg false 1026 nonWFBatch) = false := by decide +kernel

/-- C01 for every supported chunk mode, no guard hypothesis. -/
theorem C01_postings_all_modes (vectors : Bool) (mode : Nat) (b : Batch) (hwf : Spec.WF b)
    (hm : 1 ≤ mode ∧ mode ≤ 1026) (h64 : b.length < 2 ^ 64) (n : Name) (t : Bytes) :
    Spec.readAll (buildSeg vectors mode b) n t = .ok (Spec.postings vectors b n t) :=
  C01_postings vectors mode b hwf (C01_modes vectors mode b hwf hm h64) n t

/-- C01 (absent field): a name that no document carries (and that is not `_id`) reads as empty. -/
theorem C01_absent_field (vectors : Bool) (mode : Nat) (b : Batch) (hwf : Spec.WF b)
    (hmode : modeOK mode (buildSeg vectors mode b) = true) (n : Name) (hn : n ∉ Spec.names b) (t : Bytes) :
    Spec.readAll (buildSeg vectors mode b) n t = .ok [] := by
  rw [C01_postings vectors mode b hwf hmode n t, postings_of_unknown vectors b n t hn]

/-- C01 (absent term): a term that no document has in field `n` reads as empty. -/
theorem C01_absent_term (vectors : Bool) (mode : Nat) (b : Batch) (hwf : Spec.WF b)
    (hmode : modeOK mode (buildSeg vectors mode b) = true) (n : Name) (t : Bytes)
    (ht : ∀ d ∈ b, Spec.hasTerm t (Spec.insts vectors d n) = false) :
    Spec.readAll (buildSeg vectors mode b) n t = .ok [] := by
  rw [C01_postings vectors mode b hwf hmode n t]
  congr 1
  unfold Spec.postings
  apply List.filterMap_eq_nil_iff.2
  intro p hp
  have := ht p.1 (mem_of_mem_zipIdx hp)
  simp [Spec.hitOf, this]

/-- what the specification promises about the result: documents strictly increasing -/
theorem C01_postings_ascending (vectors : Bool) (b : Batch) (n : Name) (t : Bytes) :
    ((Spec.postings vectors b n t).map (·.doc)).Pairwise (· < ·) :=
  (postings_docs_asc_aux vectors n t b 0).1

/-- … and exactly the documents that have the term in the field -/
theorem C01_postings_docs (vectors : Bool) (b : Batch) (n : Name) (t : Bytes) (k : Nat) :
    k ∈ (Spec.postings vectors b n t).map (·.doc) ↔
      ∃ h : k < b.length, Spec.hasTerm t (Spec.insts vectors b[k] n) = true :=
  Stored.mem_postings_doc vectors b n t k

/-! ### Concrete instances (the batch of `C01Example`, modes 1, 1025 and 1026) -/

namespace C01Example

example : modeOK 1026 (buildSeg false 1026 batch) = true := by decide +kernel

/-- both sides of `C01_postings`, evaluated: the iterator over the built segment (mode 1, i.e. one
    document per chunk) returns the specified hits, with resolved locations -/
example : (Spec.readAll (buildSeg false 1 batch) nAll tX).toOption = some (Spec.postings false batch nAll tX) ∧
    (Spec.readAll (buildSeg false 1 batch) nAll tX).toOption = some
      [ { doc := 0, freq := 3, norm := 3, locs := [⟨nA, 1, 0, 1, []⟩, ⟨nA, 2, 2, 3, []⟩, ⟨nA, 1, 0, 1, [1]⟩] },
        { doc := 1, freq := 2, norm := 2, locs := [⟨nA, 1, 0, 1, []⟩, ⟨nAll, 7, 8, 9, []⟩] } ] := by
  decide +kernel

/-- the theorem applied (hypotheses discharged on the concrete batch) -/
example : Spec.readAll (buildSeg false 1026 batch) nA tX = .ok (Spec.postings false batch nA tX) :=
  C01_postings_all_modes false 1026 batch ⟨by decide +kernel, by decide +kernel, by decide +kernel⟩
    (by decide) (by decide +kernel) nA tX

/-- absent term, absent field, under modes 1025 / 1026 -/
example : (Spec.readAll (buildSeg false 1025 batch) nA [122]).toOption = some [] ∧
    (Spec.readAll (buildSeg false 1026 batch) [122] tX).toOption = some [] := by decide +kernel

/-- mode 0 is rejected by the guard, and then a lookup does fail (so `hmode` is not redundant) -/
example : modeOK 0 (buildSeg false 0 batch) = false ∧
    (match Spec.readAll (buildSeg false 0 batch) nA tX with
     | .error e => e == "ErrChunkSizeZero"
     | .ok _ => false) = true := by decide +kernel

end C01Example

#print axioms C01_postings
#print axioms C01_modes
#print axioms C01_postings_all_modes
#print axioms C01_modes_needs_WF
#print axioms C01_absent_field
#print axioms C01_absent_term
#print axioms C01_postings_ascending
#print axioms C01_postings_docs

end Zap
