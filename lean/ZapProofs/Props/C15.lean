/-
  C15 (merged vector indexes hold exactly the vecSurvivors' vectors, renumbered).

  MODEL.  `mergeVec parts` (ZapModel.Merge; `faissVectorIndexSection.Merge` +
  `flushSectionMetadata` + `mergeAndWriteVectorIndexes`): `parts` lists, per input segment that
  has a vector index for the field, the input's new-number map (`none` = dropped document; as
  produced by `remapAll`) and the input's index content `VecIx` (dim, metric, optimisation
  tag, the (doc, vector) pairs in id order).  The merge reconstructs the vectors by id from
  each input and rebuilds; vector ids are renumbered, so the model is id-free.

  SPEC (`VecL.vecSurvivors`, written independently as filter + map): the vectors of an input whose
  document has a new number, attached to that number, in input order.

  HYPOTHESES are explicit:
  * `C15_admissible_union` / `C15_search_merged`: every document of an input index is inside the
    input's map (`hrange`; the map has one entry per document of the segment) and all inputs
    use the metric of the result (`hmetric`; one field mapping).  Without `hrange` a document
    beyond the map counts as dropped in `mergeVec` (`getD … none`) but could not be named in a
    finite exclusion list built from the map.
  * `C15_search_merged` assumes the engine contract of C14 for the engine holding the merged
    content; the rebuilt index is exact below 1000 vectors (`isExact`), the clustered case is
    only sound.

  NOT MODELLED: the byte layout of the section, index training / class selection beyond
  `determineIndexClass`, freeing of the reconstructed input indexes (C19), errors.
-/
import ZapProofs.VecLemmas

namespace Zap.C15
open Zap Zap.VecSearch Zap.VecL

/-- The result's vectors are exactly the surviving vectors attached to their new document
    numbers, in input order (sequence equality, hence with multiplicities); dimension and
    metric are those of the first input. -/
theorem C15_vecs (parts : List (List (Option Nat) × VecIx)) (ix : VecIx)
    (h : mergeVec parts = some ix) :
    ix.vecs = allVecSurvivors parts ∧
    (∀ nd v, (nd, v) ∈ ix.vecs ↔ ∃ p ∈ parts, ∃ d, (d, v) ∈ p.2.vecs ∧ vecNewNum p.1 d = some nd) ∧
    ix.vecs.length =
      (parts.map (fun p => (p.2.vecs.filter (fun dv => (vecNewNum p.1 dv.1).isSome)).length)).sum ∧
    ix.vecs ≠ [] ∧
    (∃ m0 v0 r, parts = (m0, v0) :: r ∧ ix.dim = v0.dim ∧ ix.metric = v0.metric) := by
  rw [mergeVec_eq] at h
  cases parts with
  | nil => cases h
  | cons p0 r =>
    obtain ⟨m0, v0⟩ := p0
    simp only at h
    split at h
    · cases h
    · rename_i hne
      simp only [Option.some.injEq] at h
      subst h
      refine ⟨rfl, ?_, ?_, ?_, ⟨m0, v0, r, rfl, rfl, rfl⟩⟩
      · intro nd v
        simp only [allVecSurvivors, List.mem_flatMap, mem_survivors]
      · simp only [allVecSurvivors, List.length_flatMap, vecSurvivors, List.length_map]
      · simpa using hne

/-- `none` iff no vector survives: a field all of whose vectors were deleted (or which no
    input carries) has no vector index in the merged segment -/
theorem C15_none_iff (parts : List (List (Option Nat) × VecIx)) :
    mergeVec parts = none ↔ ∀ p ∈ parts, ∀ dv ∈ p.2.vecs, vecNewNum p.1 dv.1 = none := by
  rw [← allSurvivors_nil_iff, mergeVec_eq]
  cases parts with
  | nil => simp [allVecSurvivors]
  | cons p0 r =>
    obtain ⟨m0, v0⟩ := p0
    simp only
    split
    · rename_i h; simpa using h
    · rename_i h; simpa using h

/-- closure (1): merging a single index with nothing deleted gives the same index back -/
theorem C15_closure_identity (ix : VecIx) (n : Nat) (hne : ix.vecs ≠ [])
    (hr : ∀ dv ∈ ix.vecs, dv.1 < n) : mergeVec [(idMap n, ix)] = some ix := by
  have hs : vecSurvivors (idMap n, ix) = ix.vecs := by
    simp only [vecSurvivors]
    have hf : ix.vecs.filter (fun dv => (vecNewNum (idMap n) dv.1).isSome) = ix.vecs := by
      rw [List.filter_eq_self]
      intro dv hdv
      simp [newNum_idMap n dv.1 (hr dv hdv)]
    rw [hf]
    conv => rhs; rw [← List.map_id ix.vecs]
    apply List.map_congr_left
    intro dv hdv
    simp [newNum_idMap n dv.1 (hr dv hdv)]
  rw [mergeVec_eq]
  simp only [allVecSurvivors, List.flatMap_cons, List.flatMap_nil, List.append_nil, hs]
  cases ix with
  | mk dim metric opt vecs =>
    simp only at hne
    simp [hne]

/-- closure (2): a merged index is an input like any other - merging it again (map `m'`),
    together with further inputs, is merging the original inputs under the composed maps -/
theorem C15_closure_compose (parts : List (List (Option Nat) × VecIx)) (ix : VecIx)
    (m' : List (Option Nat)) (rest : List (List (Option Nat) × VecIx))
    (h : mergeVec parts = some ix) :
    mergeVec ((m', ix) :: rest) =
      mergeVec (parts.map (fun p => (composeMap m' p.1, p.2)) ++ rest) := by
  have hv := (C15_vecs parts ix h).1
  have hsurv : vecSurvivors (m', ix) = allVecSurvivors (parts.map (fun p => (composeMap m' p.1, p.2))) := by
    have := survivors_allSurvivors m' ix parts
    rw [← hv] at this
    exact this
  rw [mergeVec_eq] at h
  cases parts with
  | nil => cases h
  | cons p0 r =>
    obtain ⟨m0, v0⟩ := p0
    simp only at h
    split at h
    · cases h
    · simp only [Option.some.injEq] at h
      rw [mergeVec_eq, mergeVec_eq]
      have h1 : allVecSurvivors ((m', ix) :: rest) =
          allVecSurvivors (List.map (fun p => (composeMap m' p.1, p.2)) ((m0, v0) :: r) ++ rest) := by
        simp only [allVecSurvivors, List.flatMap_cons, List.flatMap_append] at hsurv ⊢
        rw [hsurv]
      simp only [List.map_cons, List.cons_append] at h1 ⊢
      rw [h1]
      have hd : ix.dim = v0.dim := by rw [← h]
      have hm : ix.metric = v0.metric := by rw [← h]
      have ho : ix.opt = (Option.map (fun x => x.2.opt) ((m0, v0) :: r).getLast?).getD v0.opt := by rw [← h]
      have hopt : (Option.map (fun x => x.2.opt) ((m', ix) :: rest).getLast?).getD ix.opt =
          (Option.map (fun x => x.2.opt)
            ((composeMap m' m0, v0) :: (List.map (fun p => (composeMap m' p.1, p.2)) r ++ rest)).getLast?).getD v0.opt := by
        cases rest with
        | nil =>
          simp only [List.getLast?_singleton, Option.map_some, Option.getD_some, List.append_nil]
          rw [ho]
          have : ((composeMap m' m0, v0) :: List.map (fun p => (composeMap m' p.1, p.2)) r) =
              List.map (fun p => (composeMap m' p.1, p.2)) ((m0, v0) :: r) := rfl
          rw [this, List.getLast?_map, Option.map_map]
          rfl
        | cons x xs =>
          rw [List.getLast?_cons_cons]
          have : (composeMap m' m0, v0) :: (List.map (fun p => (composeMap m' p.1, p.2)) r ++ x :: xs) =
              ((composeMap m' m0, v0) :: List.map (fun p => (composeMap m' p.1, p.2)) r) ++ x :: xs := rfl
          rw [this, List.getLast?_append]
          cases hy : (x :: xs).getLast? with
          | none => simp at hy
          | some y => simp
      rw [hopt, hd, hm]

/-- closure (2'), no survivor: the merged segment carries no index for the field, and the
    dropped inputs contribute nothing to any later merge either -/
theorem C15_closure_compose_none (parts : List (List (Option Nat) × VecIx))
    (m' : List (Option Nat)) (rest : List (List (Option Nat) × VecIx))
    (h : mergeVec parts = none) :
    (mergeVec (parts.map (fun p => (composeMap m' p.1, p.2)) ++ rest)).map (·.vecs) =
      (mergeVec rest).map (·.vecs) := by
  have hnil : allVecSurvivors parts = [] := (allSurvivors_nil_iff parts).2 ((C15_none_iff parts).1 h)
  have := survivors_allSurvivors m' default parts
  rw [hnil] at this
  have h2 : allVecSurvivors (parts.map (fun p => (composeMap m' p.1, p.2))) = [] := by
    rw [← this]; simp [vecSurvivors]
  rw [mergeVec_vecs, mergeVec_vecs]
  have h3 : allVecSurvivors (parts.map (fun p => (composeMap m' p.1, p.2)) ++ rest) = allVecSurvivors rest := by
    simp only [allVecSurvivors, List.flatMap_append] at h2 ⊢
    rw [h2, List.nil_append]
  rw [h3]

/-- `admissible` on the merged index = union (in input order) of `admissible` on the inputs
    under renumbering: on input `p` exclude the dropped documents and those renumbered into
    `ex`, keep those renumbered into the eligible set, and renumber the hits. -/
theorem C15_admissible_union (parts : List (List (Option Nat) × VecIx)) (ix : VecIx)
    (h : mergeVec parts = some ix)
    (hrange : ∀ p ∈ parts, ∀ dv ∈ p.2.vecs, dv.1 < p.1.length)
    (hmetric : ∀ p ∈ parts, p.2.metric = ix.metric)
    (q : List Int) (ex : List Nat) (elig : Option (List Nat)) :
    admissible ix q (some ex) elig =
      parts.flatMap (fun p =>
        (admissible p.2 q (some (exclPre p.1 ex)) (eligPre p.1 elig)).map (renumHit p.1)) := by
  have hv := (C15_vecs parts ix h).1
  have : ix = { ix with vecs := allVecSurvivors parts } := by rw [← hv]
  rw [this, admissible_flatMap]
  apply flatMap_congr'
  intro p hp
  exact admissible_survivors p ix q ex elig (hrange p hp) (hmetric p hp)

/-- hence (C14): an exact search on the merged segment returns a best-k selection of what the
    inputs' surviving, non-excluded vectors offer -/
theorem C15_search_merged (parts : List (List (Option Nat) × VecIx)) (ix : VecIx)
    (h : mergeVec parts = some ix)
    (hrange : ∀ p ∈ parts, ∀ dv ∈ p.2.vecs, dv.1 < p.1.length)
    (hmetric : ∀ p ∈ parts, p.2.metric = ix.metric)
    (E : Engine) (hE : EngineOK E (VIndex.ofVecIx ix))
    (q : List Int) (k : Nat) (ex : List Nat) (hq : q.length = ix.dim) :
    validTopK ix.metric k
      (parts.flatMap (fun p =>
        (admissible p.2 q (some (exclPre p.1 ex)) none).map (renumHit p.1)))
      (search E (VIndex.ofVecIx ix) q k ex) = true := by
  have := search_topk E (VIndex.ofVecIx ix) (ofVecIx_nodup ix) hE ix.opt q k ex hq
  rw [ofVecIx_toVecIx] at this
  rw [C15_admissible_union parts ix h hrange hmetric q ex none] at this
  exact this

/-! ### Non-vacuity -/

/-- input A: docs 0,1,2 (doc 1 has two vectors); input B: doc 0 with the same vector as A's doc 0 -/
def ixA : VecIx := { dim := 2, metric := 0, opt := 0, vecs := [(0, [1, 0]), (1, [1, 0]), (1, [0, 1]), (2, [5, 5])] }
def ixB : VecIx := { dim := 2, metric := 0, opt := 1, vecs := [(0, [1, 0])] }

/-- A's doc 0 deleted; A: 1 ↦ 0, 2 ↦ 1; B: 0 ↦ 2 -/
example : mergeVec [([none, some 0, some 1], ixA), ([some 2], ixB)] =
    some { dim := 2, metric := 0, opt := 1, vecs := [(0, [1, 0]), (0, [0, 1]), (1, [5, 5]), (2, [1, 0])] } := by
  decide
/-- everything deleted: no index -/
example : mergeVec [([none, none, none], ixA), ([none], ixB)] = none := by decide
/-- an input contributing nothing -/
example : mergeVec [([none, none, none], ixA), ([some 0], ixB)] =
    some { dim := 2, metric := 0, opt := 1, vecs := [(0, [1, 0])] } := by decide
/-- the union formula on the example: exclude new doc 2, query [0,0] -/
example : admissible { dim := 2, metric := 0, opt := 1, vecs := [(0, [1, 0]), (0, [0, 1]), (1, [5, 5]), (2, [1, 0])] }
      [0, 0] (some [2]) none = [⟨0, 1⟩, ⟨0, 1⟩, ⟨1, 50⟩] ∧
    exclPre [none, some 0, some 1] [2] = [0] ∧ exclPre [some 2] [2] = [0] := by decide

section Report
#print axioms C15_vecs
#print axioms C15_none_iff
#print axioms C15_closure_identity
#print axioms C15_closure_compose
#print axioms C15_closure_compose_none
#print axioms C15_admissible_union
#print axioms C15_search_merged
end Report

end Zap.C15
