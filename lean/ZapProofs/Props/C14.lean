/-
  C14 (vector search returns true scores of live documents, exactly top-k when exact).

  SCOPE.  zapx's own logic around the nearest-neighbour engine (`VecSearch.search`,
  `searchWithFilter`, `addIDsToPostingsList`, the id tables, the postings iterator), for
  EVERY engine that satisfies the stated contract `VecSearch.EngineOK` of an exact (flat)
  index.  FAISS itself is not verified; `VecL.refEngine_ok` shows that the contract is
  satisfiable (exhaustive scan, stable sort, first k), and the differential run checks the
  engine actually linked (real or stand-in) against `validTopK` on every generated search.
  `C14_topk_exact*` make that run-time oracle a proved consequence of the contract: the
  driver's check `validTopK ix.metric k (admissible ix q ex elig) R` holds for the model's
  result `R`.

  HYPOTHESES (explicit in every statement)
  * `hnd`: vector ids are distinct (zapx assigns them from a counter at build / merge);
  * `hE : EngineOK E ix`: for queries of the index dimension, `searchExcl` / `searchIncl`
    return an exact best-k selection among the selected ids with their true scores
    (`VecSearch.ExactSel`: sound, no id twice, at most k, nothing omitted is strictly better
    than something returned, exactly min k (#selected) pairs);
  * filtered search, full-selectivity shortcut: "only eligible documents" needs the caller
    contract that `eligible` lists distinct document numbers of the segment
    (`C14_only_eligible`); the include-list path needs nothing;
  * no contract `eligible ∩ ex = ∅`: since the fix of defect D12 the include-list path drops the
    excluded documents from the caller's eligible set (`VecSearch.liveEligible`), so "never a
    document in the exclusion bitmap" and the filtered top-k hold for every eligible set
    (`C14_filtered_no_excluded`, `C14_topk_exact_filtered`); `C14_D12_counterexample` evaluates
    the closure as it was before the fix on an input where it returns an excluded document.

  NOT MODELLED: what the clustered (IVF) engine does inside the probed clusters (sound only, checked
  by `soundHits` at run time; zapx's id selector for it IS modelled: `C14_ivf_selector`),
  float32 rounding of scores (scores of generated inputs are exact integers), engine errors,
  the `num_vectors` statistic and persistence (differential run).
-/
import ZapProofs.VecLemmas
import ZapProofs.Props.Codec

namespace Zap.C14
open Zap Zap.VecSearch Zap.VecL

section Thms
variable (E : Engine) (ix : VIndex) (hnd : (ix.content.map (·.1)).Nodup) (hE : EngineOK E ix)
include hnd hE

/-- every returned (doc, score) is the true score of a vector of that document -/
theorem C14_sound (numDocs : Nat) (q : List Int) (k : Nat) (ex eligible : List Nat) :
    (∀ h ∈ search E ix q k ex, ∃ id v, (id, h.doc, v) ∈ ix.content ∧ h.score = vscore ix.metric q v) ∧
    (∀ h ∈ searchWithFilter E ix numDocs q k ex eligible,
        ∃ id v, (id, h.doc, v) ∈ ix.content ∧ h.score = vscore ix.metric q v) := by
  constructor
  · intro h hh
    obtain ⟨t, ht, _, rfl⟩ := mem_search E ix hnd hE q k ex h hh
    exact ⟨t.1, t.2.2, ht, rfl⟩
  · intro h hh
    obtain ⟨t, ht, rfl, _⟩ := mem_swf E ix hnd hE numDocs q k ex eligible h hh
    exact ⟨t.1, t.2.2, ht, rfl⟩

/-- no returned document is in the exclusion list (unfiltered search, and the
    full-selectivity shortcut of the filtered search) -/
theorem C14_no_excluded (numDocs : Nat) (q : List Int) (k : Nat) (ex eligible : List Nat) :
    (∀ h ∈ search E ix q k ex, h.doc ∉ ex) ∧
    (eligible.length = numDocs → ∀ h ∈ searchWithFilter E ix numDocs q k ex eligible, h.doc ∉ ex) := by
  constructor
  · intro h hh
    obtain ⟨t, _, hx, rfl⟩ := mem_search E ix hnd hE q k ex h hh
    exact hx
  · intro _ h hh
    obtain ⟨t, _, rfl, hx, _⟩ := mem_swf E ix hnd hE numDocs q k ex eligible h hh
    exact hx

/-- a filtered search returns only eligible documents.  Partial filter: unconditionally.
    Filter of `numDocs` entries (shortcut to the unfiltered search): under the caller contract
    that `eligible` lists distinct document numbers below `numDocs` and the index only holds
    documents below `numDocs`. -/
theorem C14_only_eligible (numDocs : Nat) (q : List Int) (k : Nat) (ex eligible : List Nat)
    (hcaller : eligible.length = numDocs →
      eligible.Nodup ∧ (∀ d ∈ eligible, d < numDocs) ∧ ∀ t ∈ ix.content, t.2.1 < numDocs) :
    ∀ h ∈ searchWithFilter E ix numDocs q k ex eligible, h.doc ∈ eligible := by
  intro h hh
  obtain ⟨t, ht, rfl, _, hx⟩ := mem_swf E ix hnd hE numDocs q k ex eligible h hh
  by_cases hfull : eligible.length = numDocs
  · obtain ⟨h1, h2, h3⟩ := hcaller hfull
    exact mem_of_full eligible numDocs h1 h2 hfull _ (h3 t ht)
  · simp only [hfull, if_false] at hx
    exact hx

/-- a filtered search returns no excluded document - whatever the caller's eligible set names
    (defect D12 was the failure of exactly this statement; before the fix it needed the caller
    contract `eligible ∩ ex = ∅`, see `C14_D12_counterexample`) -/
theorem C14_filtered_no_excluded (numDocs : Nat) (q : List Int) (k : Nat) (ex eligible : List Nat) :
    ∀ h ∈ searchWithFilter E ix numDocs q k ex eligible, h.doc ∉ ex := by
  intro h hh
  obtain ⟨t, _, rfl, hx, _⟩ := mem_swf E ix hnd hE numDocs q k ex eligible h hh
  exact hx

omit hnd in
theorem C14_at_most_k (numDocs : Nat) (q : List Int) (k : Nat) (ex eligible : List Nat) :
    (search E ix q k ex).length ≤ k ∧ (searchWithFilter E ix numDocs q k ex eligible).length ≤ k :=
  ⟨search_length_le E ix hE q k ex, swf_length_le E ix hE numDocs q k ex eligible⟩

/-- the run-time oracle of the differential run holds for the model's result -/
theorem C14_topk_exact (opt : Nat) (q : List Int) (k : Nat) (ex : List Nat) (hq : q.length = ix.dim) :
    validTopK ix.metric k (admissible (ix.toVecIx opt) q (some ex) none) (search E ix q k ex) = true :=
  search_topk E ix hnd hE opt q k ex hq

/-- filtered search against the `admissible` set the driver uses (`eligArg` = the driver's
    choice of the filter argument): exactly the best k among the documents that are eligible AND
    not excluded - no caller contract -/
theorem C14_topk_exact_filtered (opt numDocs : Nat) (q : List Int) (k : Nat) (ex eligible : List Nat)
    (hq : q.length = ix.dim) (hne : eligible ≠ []) :
    validTopK ix.metric k (admissible (ix.toVecIx opt) q (some ex) (eligArg numDocs eligible))
      (searchWithFilter E ix numDocs q k ex eligible) = true := by
  unfold eligArg
  by_cases hfull : eligible.length = numDocs
  · simp only [hfull, if_true]
    rw [swf_full E ix numDocs q k ex eligible hne hfull]
    exact search_topk E ix hnd hE opt q k ex hq
  · simp only [hfull, if_false]
    exact swf_topk_incl E ix hnd hE opt numDocs q k ex eligible hq hne hfull

omit hnd hE in
/-- wrong dimension, or an empty filter: empty result (no contract needed) -/
theorem C14_wrong_dim_empty (numDocs : Nat) (q : List Int) (k : Nat) (ex eligible : List Nat) :
    (q.length ≠ ix.dim → search E ix q k ex = [] ∧ searchWithFilter E ix numDocs q k ex eligible = []) ∧
    searchWithFilter E ix numDocs q k ex [] = [] :=
  ⟨fun hq => ⟨search_wrong_dim E ix q k ex hq, swf_wrong_dim E ix numDocs q k ex eligible hq⟩,
   swf_empty E ix numDocs q k ex⟩

omit hnd in
/-- a field without a vector index, or an index without vectors: empty result -/
theorem C14_no_vectors_empty (numDocs : Nat) (q : List Int) (k : Nat) (ex eligible : List Nat) :
    searchField none q k ex = [] ∧ searchWithFilterField none numDocs q k ex eligible = [] ∧
    (ix.content = [] → search E ix q k ex = []) :=
  ⟨rfl, rfl, fun hc => search_no_vectors E ix hE hc q k ex⟩

end Thms

/-- Clustered index, filtered search: whichever selector the ratio test picks, it admits exactly
    the vectors of the documents that are eligible and not excluded - the exclusion selector is
    not a second, weaker filter.  (Every vector id of the table, ids distinct.) -/
theorem C14_ivf_selector (m : VMap) (hnd : (m.map (·.1)).Nodup) (ex eligible : List Nat)
    (useNot : Bool) (id d : Nat) (hm : (id, d) ∈ m) :
    ivfSelects useNot m (liveEligible ex eligible) id = (eligible.contains d && !ex.contains d) := by
  have huniq : ∀ d', (id, d') ∈ m → d' = d := by
    intro d' h'
    have := unique_of_nodup_map (·.1) hnd h' hm rfl
    exact congrArg Prod.snd this
  have hlive : (liveEligible ex eligible).contains d = (eligible.contains d && !ex.contains d) := by
    by_cases h1 : d ∈ eligible <;> by_cases h2 : d ∈ ex <;> simp [liveEligible, h1, h2]
  rw [← hlive]
  cases useNot
  · -- inclusion selector
    simp only [ivfSelects, Bool.false_eq_true, if_false]
    by_cases hd : d ∈ liveEligible ex eligible
    · have : id ∈ (liveEligible ex eligible).flatMap (docVecIDs m) := by
        simp only [List.mem_flatMap, docVecIDs, List.mem_map, List.mem_filter]
        exact ⟨d, hd, (id, d), ⟨hm, by simp⟩, rfl⟩
      simp [this, hd]
    · have : id ∉ (liveEligible ex eligible).flatMap (docVecIDs m) := by
        simp only [List.mem_flatMap, docVecIDs, List.mem_map, List.mem_filter, not_exists, not_and]
        intro d' hd' p hp hpid
        obtain ⟨hpm, hpd⟩ := hp
        have hp' : p = (id, p.2) := by rw [← hpid]
        rw [hp'] at hpm
        have := huniq _ hpm
        simp only [beq_iff_eq] at hpd
        rw [hp'] at hpd
        simp only at hpd
        rw [this] at hpd
        exact hd (hpd ▸ hd')
      simp [this, hd]
  · -- exclusion selector
    simp only [ivfSelects, if_true]
    by_cases hd : d ∈ liveEligible ex eligible
    · have : id ∉ ineligibleVecIDs m (liveEligible ex eligible) := by
        simp only [ineligibleVecIDs, List.mem_map, List.mem_filter, not_exists, not_and]
        intro p hp hpid
        obtain ⟨hpm, hpd⟩ := hp
        have hp' : p = (id, p.2) := by rw [← hpid]
        rw [hp'] at hpm
        have := huniq _ hpm
        rw [hp'] at hpd
        simp only at hpd
        rw [this] at hpd
        simp [hd] at hpd
      simp [this, hd]
    · have : id ∈ ineligibleVecIDs m (liveEligible ex eligible) := by
        simp only [ineligibleVecIDs, List.mem_map, List.mem_filter]
        exact ⟨(id, d), ⟨hm, by simp [hd]⟩, rfl⟩
      simp [this, hd]

/-- what goes wrong when the exclusion selector is built from the caller's eligible set instead of
    the live one (seeded change C14-r7m1): the excluded document 0, named eligible, is admitted -/
example : ivfSelects true [(0, 0), (1, 1), (2, 2)] [0, 1] 0 = true ∧
    ivfSelects true [(0, 0), (1, 1), (2, 2)] (liveEligible [0] [0, 1]) 0 = false := by decide

/-- the statements apply to every id-free index of the driver: number its vectors by position -/
theorem C14_covers_every_VecIx (v : VecIx) :
    (VIndex.ofVecIx v).toVecIx v.opt = v ∧ ((VIndex.ofVecIx v).content.map (·.1)).Nodup :=
  ⟨ofVecIx_toVecIx v, ofVecIx_nodup v⟩

/-- the contract is satisfiable: the reference engine fulfils it on every index with distinct ids -/
theorem C14_contract_satisfiable (ix : VIndex) (hnd : (ix.content.map (·.1)).Nodup) :
    EngineOK (refEngine ix) ix := refEngine_ok ix hnd

/-- The postings list in iteration order (`bits` = `Float32bits` of the score, any function
    into 32 bits; documents below 2^32):
    (1) it holds exactly the codes of the hits; (2) a code decodes to its (doc, score bits);
    (3) iteration is strictly ascending in (doc, score bits), lexicographically
        (`vectorCode_order`); (4) `Next()` takes the codes one by one in this order;
    (5) `Advance(target)` on the codes still ahead skips exactly the codes of documents below
        `target` and returns the first code whose document is ≥ `target` (the least such code),
        or nothing if there is none. -/
theorem C14_code_order (bits : Int → Nat) (hits : List VHit)
    (hd : ∀ h ∈ hits, h.doc < 2 ^ 32) (hb : ∀ s, bits s < 2 ^ 32) :
    (∀ x, x ∈ postingsCodes bits hits ↔ ∃ h ∈ hits, x = Gen.getVectorCode h.doc (bits h.score)) ∧
    (∀ h ∈ hits, decodeCode (Gen.getVectorCode h.doc (bits h.score)) = (h.doc, bits h.score)) ∧
    (postingsCodes bits hits).Pairwise (fun a b =>
      (decodeCode a).1 < (decodeCode b).1 ∨
      ((decodeCode a).1 = (decodeCode b).1 ∧ (decodeCode a).2 < (decodeCode b).2)) ∧
    (∀ rest, nextAtOrAfter rest 0 = (rest.head?, rest.tail)) ∧
    (∀ target, target < 2 ^ 32 → ∀ done rest, postingsCodes bits hits = done ++ rest →
      (∀ c r, nextAtOrAfter rest target = (some c, r) →
        ∃ pre, rest = pre ++ c :: r ∧ (∀ x ∈ pre, (decodeCode x).1 < target) ∧
          target ≤ (decodeCode c).1 ∧ (∀ y ∈ r, c < y)) ∧
      (∀ r, nextAtOrAfter rest target = (none, r) → ∀ x ∈ rest, (decodeCode x).1 < target)) := by
  have hdec : ∀ h ∈ hits, decodeCode (Gen.getVectorCode h.doc (bits h.score)) = (h.doc, bits h.score) := by
    intro h hh
    simp only [decodeCode, Prod.mk.injEq]
    exact ⟨Props.Codec.vectorCode_doc _ _ (hd h hh) (hb _), Props.Codec.vectorCode_score _ _ (hd h hh) (hb _)⟩
  refine ⟨mem_postingsCodes bits hits, hdec, ?_, nextAtOrAfter_zero, ?_⟩
  · apply List.Pairwise.imp_of_mem _ (sorted_postingsCodes bits hits)
    intro a b ha hb' hab
    obtain ⟨h, hh, rfl⟩ := (mem_postingsCodes bits hits a).1 ha
    obtain ⟨h', hh', rfl⟩ := (mem_postingsCodes bits hits b).1 hb'
    rw [hdec h hh, hdec h' hh']
    exact (Props.Codec.vectorCode_order _ _ _ _ (hd h hh) (hb _) (hd h' hh') (hb _)).1 hab
  · intro target ht done rest hsplit
    have hsorted : rest.Pairwise (· < ·) := by
      have := sorted_postingsCodes bits hits
      rw [hsplit, List.pairwise_append] at this
      exact this.2.1
    obtain ⟨h1, h2⟩ := nextAtOrAfter_spec rest target ht
    constructor
    · intro c r hn
      obtain ⟨pre, hp, hlt, hge⟩ := h1 c r hn
      refine ⟨pre, hp, hlt, hge, ?_⟩
      rw [hp, List.pairwise_append, List.pairwise_cons] at hsorted
      exact hsorted.2.1.1
    · exact h2

/-! ### Non-vacuity: a 4-vector index, a duplicate vector across documents, a document with two
    vectors, exclusion, k = 2 with a three-way tie -/

/-- doc 0: [1,0]; doc 1: [1,0] (the same vector) and [0,1]; doc 2: [5,5].  Squared L2. -/
def ixEx : VIndex :=
  { dim := 2, metric := 0,
    content := [(0, 0, [1, 0]), (1, 1, [1, 0]), (2, 1, [0, 1]), (3, 2, [5, 5])] }

example : EngineOK (refEngine ixEx) ixEx := C14_contract_satisfiable ixEx (by decide)

/-- three vectors tie at distance 1; the stable engine returns ids 0, 1 -/
example : search (refEngine ixEx) ixEx [0, 0] 2 [] = [⟨0, 1⟩, ⟨1, 1⟩] := by decide
/-- excluding doc 0 the two best are both vectors of doc 1 with equal score: ONE posting -/
example : search (refEngine ixEx) ixEx [0, 0] 2 [0] = [⟨1, 1⟩] := by decide
example : validTopK 0 2 (admissible ixEx.toVecIx [0, 0] (some [0]) none) [⟨1, 1⟩] = true := by decide
/-- ties are arbitrary: another engine may answer ids 1, 2 - one posting - also accepted -/
example : validTopK 0 2 (admissible ixEx.toVecIx [0, 0] (some []) none) [⟨1, 1⟩] = true := by decide
example : validTopK 0 2 (admissible ixEx.toVecIx [0, 0] (some []) none) [⟨0, 1⟩, ⟨1, 1⟩] = true := by decide
/-- the checker is not trivially true: a worse vector, an excluded document, a wrong score,
    too few and too many are all rejected -/
example : validTopK 0 2 (admissible ixEx.toVecIx [0, 0] (some []) none) [⟨2, 50⟩, ⟨1, 1⟩] = false := by decide
example : validTopK 0 2 (admissible ixEx.toVecIx [0, 0] (some [0]) none) [⟨0, 1⟩] = false := by decide
example : validTopK 0 2 (admissible ixEx.toVecIx [0, 0] (some []) none) [⟨0, 2⟩] = false := by decide
example : validTopK 0 3 (admissible ixEx.toVecIx [0, 0] (some []) none) [⟨0, 1⟩] = false := by decide
example : validTopK 0 1 (admissible ixEx.toVecIx [0, 0] (some []) none) [⟨0, 1⟩, ⟨1, 1⟩] = false := by decide
/-- filtered: partial filter (include list), full filter (shortcut), empty filter, a document
    without vectors, wrong dimension -/
example : searchWithFilter (refEngine ixEx) ixEx 3 [0, 0] 2 [] [2] = [⟨2, 50⟩] := by decide
example : searchWithFilter (refEngine ixEx) ixEx 3 [0, 0] 2 [] [1, 2] = [⟨1, 1⟩] := by decide
example : searchWithFilter (refEngine ixEx) ixEx 3 [0, 0] 2 [1] [0, 1, 2] = [⟨0, 1⟩, ⟨2, 50⟩] := by decide
example : searchWithFilter (refEngine ixEx) ixEx 3 [0, 0] 2 [] [] = [] := by decide
example : searchWithFilter (refEngine ixEx) ixEx 4 [0, 0] 2 [] [3] = [] := by decide
example : search (refEngine ixEx) ixEx [0, 0, 0] 2 [] = [] := by decide
/-- inner product (larger is better) -/
example : search (refEngine { ixEx with metric := 1 }) { ixEx with metric := 1 } [1, 1] 2 [] =
    [⟨2, 10⟩, ⟨0, 1⟩] := by decide
/-- the postings iterate by (doc, score bits); Advance(1) skips doc 0 -/
example : postingsCodes Int.toNat [⟨2, 50⟩, ⟨0, 1⟩, ⟨1, 7⟩, ⟨1, 1⟩] =
    [1, 2 ^ 32 + 1, 2 ^ 32 + 7, 2 * 2 ^ 32 + 50] := by decide
example : nextAtOrAfter [1, 2 ^ 32 + 1, 2 ^ 32 + 7, 2 * 2 ^ 32 + 50] 1 =
    (some (2 ^ 32 + 1), [2 ^ 32 + 7, 2 * 2 ^ 32 + 50]) := by decide

/-- Defect D12, evaluated: three documents with one vector each, document 0 excluded, eligible
    set {0, 1} (the caller's filter knows nothing of the exclusion), query on document 0's
    vector, k = 1.  The closure as it was before the fix returns the excluded document 0; the
    current one returns document 1. -/
def ixD12 : VIndex := { dim := 1, metric := 0, content := [(0, 0, [0]), (1, 1, [5]), (2, 2, [9])] }

theorem C14_D12_counterexample :
    (searchWithFilterCoreD12 (refEngine ixD12) 1 (vecDocIDMap ixD12.content)
        (vecIDsToExclude (vecDocIDMap ixD12.content) [0]) 3 [0] 1 [0, 1]).map (·.doc) = [0] ∧
    (searchWithFilter (refEngine ixD12) ixD12 3 [0] 1 [0] [0, 1]).map (·.doc) = [1] := by
  decide

section Report
#print axioms C14_sound
#print axioms C14_D12_counterexample
#print axioms C14_no_excluded
#print axioms C14_only_eligible
#print axioms C14_filtered_no_excluded
#print axioms C14_at_most_k
#print axioms C14_topk_exact
#print axioms C14_topk_exact_filtered
#print axioms C14_wrong_dim_empty
#print axioms C14_ivf_selector
#print axioms C14_no_vectors_empty
#print axioms C14_covers_every_VecIx
#print axioms C14_contract_satisfiable
#print axioms C14_code_order
end Report

end Zap.C14
