/-
  C14 (vector search returns true scores of live documents, exactly top-k when exact).

  SCOPE.  zapx's own logic around the nearest-neighbour engine (`VecSearch.search`,
  `searchWithFilter`, `addIDsToPostingsList`, the id tables, the postings iterator), for
  EVERY engine that satisfies the stated contract `VecSearch.EngineOK` of an exact (flat)
  index.  FAISS itself is not verified; `VecL.refEngine_ok` shows that the contract is
  satisfiable (exhaustive scan, stable sort, first k), and the differential run checks the
  engine actually linked (real or stand-in) against `validTopK` on every generated search.
  `C14_topk_exact*` make that run-time oracle a proved consequence of the contract: the
  driver's check `validTopK ix.metric k (admissible ix q ex elig) R` holds for the model's
  result `R`.

  HYPOTHESES (explicit in every statement)
  * `hnd`: vector ids are distinct (zapx assigns them from a counter at build / merge);
  * `hE : EngineOK E ix`: for queries of the index dimension, `searchExcl` / `searchIncl`
    return an exact best-k selection among the selected ids with their true scores
    (`VecSearch.ExactSel`: sound, no id twice, at most k, nothing omitted is strictly better
    than something returned, exactly min k (#selected) pairs);
  * filtered search, full-selectivity shortcut: "only eligible documents" needs the caller
    contract that `eligible` lists distinct document numbers of the segment
    (`C14_only_eligible`); the include-list path needs nothing;
  * `eligible ∩ ex = ∅` is needed only to state the filtered top-k against
    `admissible … (some ex) (some eligible)` (`C14_topk_exact_filtered`); without it the
    include-list path ignores `ex` (`C14_topk_exact_filtered_nocontract`), as the code does.

  NOT MODELLED: the clustered (IVF) branch (sound only, checked by `soundHits` at run time),
  float32 rounding of scores (scores of generated inputs are exact integers), engine errors,
  the `num_vectors` statistic and persistence (differential run).
-/
import ZapProofs.VecLemmas
import ZapProofs.Props.Codec

namespace Zap.C14
open Zap Zap.VecSearch Zap.VecL

section Thms
variable (E : Engine) (ix : VIndex) (hnd : (ix.content.map (·.1)).Nodup) (hE : EngineOK E ix)
include hnd hE

/-- every returned (doc, score) is the true score of a vector of that document -/
theorem C14_sound (numDocs : Nat) (q : List Int) (k : Nat) (ex eligible : List Nat) :
    (∀ h ∈ search E ix q k ex, ∃ id v, (id, h.doc, v) ∈ ix.content ∧ h.score = vscore ix.metric q v) ∧
    (∀ h ∈ searchWithFilter E ix numDocs q k ex eligible,
        ∃ id v, (id, h.doc, v) ∈ ix.content ∧ h.score = vscore ix.metric q v) := by
  constructor
  · intro h hh
    obtain ⟨t, ht, _, rfl⟩ := mem_search E ix hnd hE q k ex h hh
    exact ⟨t.1, t.2.2, ht, rfl⟩
  · intro h hh
    obtain ⟨t, ht, rfl, _⟩ := mem_swf E ix hnd hE numDocs q k ex eligible h hh
    exact ⟨t.1, t.2.2, ht, rfl⟩

/-- no returned document is in the exclusion list (unfiltered search, and the
    full-selectivity shortcut of the filtered search) -/
theorem C14_no_excluded (numDocs : Nat) (q : List Int) (k : Nat) (ex eligible : List Nat) :
    (∀ h ∈ search E ix q k ex, h.doc ∉ ex) ∧
    (eligible.length = numDocs → ∀ h ∈ searchWithFilter E ix numDocs q k ex eligible, h.doc ∉ ex) := by
  constructor
  · intro h hh
    obtain ⟨t, _, hx, rfl⟩ := mem_search E ix hnd hE q k ex h hh
    exact hx
  · intro hfull h hh
    obtain ⟨t, _, rfl, hx⟩ := mem_swf E ix hnd hE numDocs q k ex eligible h hh
    simp only [hfull, if_true] at hx
    exact hx

/-- a filtered search returns only eligible documents.  Partial filter: unconditionally.
    Filter of `numDocs` entries (shortcut to the unfiltered search): under the caller contract
    that `eligible` lists distinct document numbers below `numDocs` and the index only holds
    documents below `numDocs`. -/
theorem C14_only_eligible (numDocs : Nat) (q : List Int) (k : Nat) (ex eligible : List Nat)
    (hcaller : eligible.length = numDocs →
      eligible.Nodup ∧ (∀ d ∈ eligible, d < numDocs) ∧ ∀ t ∈ ix.content, t.2.1 < numDocs) :
    ∀ h ∈ searchWithFilter E ix numDocs q k ex eligible, h.doc ∈ eligible := by
  intro h hh
  obtain ⟨t, ht, rfl, hx⟩ := mem_swf E ix hnd hE numDocs q k ex eligible h hh
  by_cases hfull : eligible.length = numDocs
  · obtain ⟨h1, h2, h3⟩ := hcaller hfull
    exact mem_of_full eligible numDocs h1 h2 hfull _ (h3 t ht)
  · simp only [hfull, if_false] at hx
    exact hx

/-- with the caller contract `eligible ∩ ex = ∅` the filtered search returns no excluded document -/
theorem C14_filtered_no_excluded (numDocs : Nat) (q : List Int) (k : Nat) (ex eligible : List Nat)
    (hc : ∀ d ∈ eligible, d ∉ ex) :
    ∀ h ∈ searchWithFilter E ix numDocs q k ex eligible, h.doc ∉ ex := by
  intro h hh
  obtain ⟨t, ht, rfl, hx⟩ := mem_swf E ix hnd hE numDocs q k ex eligible h hh
  by_cases hfull : eligible.length = numDocs
  · simp only [hfull, if_true] at hx
    exact hx
  · simp only [hfull, if_false] at hx
    exact hc _ hx

omit hnd in
theorem C14_at_most_k (numDocs : Nat) (q : List Int) (k : Nat) (ex eligible : List Nat) :
    (search E ix q k ex).length ≤ k ∧ (searchWithFilter E ix numDocs q k ex eligible).length ≤ k :=
  ⟨search_length_le E ix hE q k ex, swf_length_le E ix hE numDocs q k ex eligible⟩

/-- the run-time oracle of the differential run holds for the model's result -/
theorem C14_topk_exact (opt : Nat) (q : List Int) (k : Nat) (ex : List Nat) (hq : q.length = ix.dim) :
    validTopK ix.metric k (admissible (ix.toVecIx opt) q (some ex) none) (search E ix q k ex) = true :=
  search_topk E ix hnd hE opt q k ex hq

/-- filtered search against the `admissible` set the driver uses (`eligArg` = the driver's
    choice of the filter argument); `eligible ∩ ex = ∅` is the caller's contract -/
theorem C14_topk_exact_filtered (opt numDocs : Nat) (q : List Int) (k : Nat) (ex eligible : List Nat)
    (hq : q.length = ix.dim) (hne : eligible ≠ []) (hc : ∀ d ∈ eligible, d ∉ ex) :
    validTopK ix.metric k (admissible (ix.toVecIx opt) q (some ex) (eligArg numDocs eligible))
      (searchWithFilter E ix numDocs q k ex eligible) = true := by
  unfold eligArg
  by_cases hfull : eligible.length = numDocs
  · simp only [hfull, if_true]
    rw [swf_full E ix numDocs q k ex eligible hne hfull]
    exact search_topk E ix hnd hE opt q k ex hq
  · simp only [hfull, if_false]
    rw [admissible_contract ix opt q ex eligible hc]
    exact swf_topk_incl E ix hnd hE opt numDocs q k ex eligible hq hne hfull

/-- without the caller contract: the include-list path does not look at `ex` -/
theorem C14_topk_exact_filtered_nocontract (opt numDocs : Nat) (q : List Int) (k : Nat)
    (ex eligible : List Nat) (hq : q.length = ix.dim) (hne : eligible ≠ []) :
    validTopK ix.metric k
      (admissible (ix.toVecIx opt) q (if eligible.length = numDocs then some ex else none)
        (eligArg numDocs eligible))
      (searchWithFilter E ix numDocs q k ex eligible) = true := by
  unfold eligArg
  by_cases hfull : eligible.length = numDocs
  · simp only [hfull, if_true]
    rw [swf_full E ix numDocs q k ex eligible hne hfull]
    exact search_topk E ix hnd hE opt q k ex hq
  · simp only [hfull, if_false]
    exact swf_topk_incl E ix hnd hE opt numDocs q k ex eligible hq hne hfull

omit hnd hE in
/-- wrong dimension, or an empty filter: empty result (no contract needed) -/
theorem C14_wrong_dim_empty (numDocs : Nat) (q : List Int) (k : Nat) (ex eligible : List Nat) :
    (q.length ≠ ix.dim → search E ix q k ex = [] ∧ searchWithFilter E ix numDocs q k ex eligible = []) ∧
    searchWithFilter E ix numDocs q k ex [] = [] :=
  ⟨fun hq => ⟨search_wrong_dim E ix q k ex hq, swf_wrong_dim E ix numDocs q k ex eligible hq⟩,
   swf_empty E ix numDocs q k ex⟩

omit hnd in
/-- a field without a vector index, or an index without vectors: empty result -/
theorem C14_no_vectors_empty (numDocs : Nat) (q : List Int) (k : Nat) (ex eligible : List Nat) :
    searchField none q k ex = [] ∧ searchWithFilterField none numDocs q k ex eligible = [] ∧
    (ix.content = [] → search E ix q k ex = []) :=
  ⟨rfl, rfl, fun hc => search_no_vectors E ix hE hc q k ex⟩

end Thms

/-- the statements apply to every id-free index of the driver: number its vectors by position -/
theorem C14_covers_every_VecIx (v : VecIx) :
    (VIndex.ofVecIx v).toVecIx v.opt = v ∧ ((VIndex.ofVecIx v).content.map (·.1)).Nodup :=
  ⟨ofVecIx_toVecIx v, ofVecIx_nodup v⟩

/-- the contract is satisfiable: the reference engine fulfils it on every index with distinct ids -/
theorem C14_contract_satisfiable (ix : VIndex) (hnd : (ix.content.map (·.1)).Nodup) :
    EngineOK (refEngine ix) ix := refEngine_ok ix hnd

/-- The postings list in iteration order (`bits` = `Float32bits` of the score, any function
    into 32 bits; documents below 2^32):
    (1) it holds exactly the codes of the hits; (2) a code decodes to its (doc, score bits);
    (3) iteration is strictly ascending in (doc, score bits), lexicographically
        (`vectorCode_order`); (4) `Next()` takes the codes one by one in this order;
    (5) `Advance(target)` on the codes still ahead skips exactly the codes of documents below
        `target` and returns the first code whose document is ≥ `target` (the least such code),
        or nothing if there is none. -/
theorem C14_code_order (bits : Int → Nat) (hits : List VHit)
    (hd : ∀ h ∈ hits, h.doc < 2 ^ 32) (hb : ∀ s, bits s < 2 ^ 32) :
    (∀ x, x ∈ postingsCodes bits hits ↔ ∃ h ∈ hits, x = Gen.getVectorCode h.doc (bits h.score)) ∧
    (∀ h ∈ hits, decodeCode (Gen.getVectorCode h.doc (bits h.score)) = (h.doc, bits h.score)) ∧
    (postingsCodes bits hits).Pairwise (fun a b =>
      (decodeCode a).1 < (decodeCode b).1 ∨
      ((decodeCode a).1 = (decodeCode b).1 ∧ (decodeCode a).2 < (decodeCode b).2)) ∧
    (∀ rest, nextAtOrAfter rest 0 = (rest.head?, rest.tail)) ∧
    (∀ target, target < 2 ^ 32 → ∀ done rest, postingsCodes bits hits = done ++ rest →
      (∀ c r, nextAtOrAfter rest target = (some c, r) →
        ∃ pre, rest = pre ++ c :: r ∧ (∀ x ∈ pre, (decodeCode x).1 < target) ∧
          target ≤ (decodeCode c).1 ∧ (∀ y ∈ r, c < y)) ∧
      (∀ r, nextAtOrAfter rest target = (none, r) → ∀ x ∈ rest, (decodeCode x).1 < target)) := by
  have hdec : ∀ h ∈ hits, decodeCode (Gen.getVectorCode h.doc (bits h.score)) = (h.doc, bits h.score) := by
    intro h hh
    simp only [decodeCode, Prod.mk.injEq]
    exact ⟨Props.Codec.vectorCode_doc _ _ (hd h hh) (hb _), Props.Codec.vectorCode_score _ _ (hd h hh) (hb _)⟩
  refine ⟨mem_postingsCodes bits hits, hdec, ?_, nextAtOrAfter_zero, ?_⟩
  · apply List.Pairwise.imp_of_mem _ (sorted_postingsCodes bits hits)
    intro a b ha hb' hab
    obtain ⟨h, hh, rfl⟩ := (mem_postingsCodes bits hits a).1 ha
    obtain ⟨h', hh', rfl⟩ := (mem_postingsCodes bits hits b).1 hb'
    rw [hdec h hh, hdec h' hh']
    exact (Props.Codec.vectorCode_order _ _ _ _ (hd h hh) (hb _) (hd h' hh') (hb _)).1 hab
  · intro target ht done rest hsplit
    have hsorted : rest.Pairwise (· < ·) := by
      have := sorted_postingsCodes bits hits
      rw [hsplit, List.pairwise_append] at this
      exact this.2.1
    obtain ⟨h1, h2⟩ := nextAtOrAfter_spec rest target ht
    constructor
    · intro c r hn
      obtain ⟨pre, hp, hlt, hge⟩ := h1 c r hn
      refine ⟨pre, hp, hlt, hge, ?_⟩
      rw [hp, List.pairwise_append, List.pairwise_cons] at hsorted
      exact hsorted.2.1.1
    · exact h2

/-! ### Non-vacuity: a 4-vector index, a duplicate vector across documents, a document with two
    vectors, exclusion, k = 2 with a three-way tie -/

/-- doc 0: [1,0]; doc 1: [1,0] (the same vector) and [0,1]; doc 2: [5,5].  Squared L2. -/
def ixEx : VIndex :=
  { dim := 2, metric := 0,
    content := [(0, 0, [1, 0]), (1, 1, [1, 0]), (2, 1, [0, 1]), (3, 2, [5, 5])] }

example : EngineOK (refEngine ixEx) ixEx := C14_contract_satisfiable ixEx (by decide)

/-- three vectors tie at distance 1; the stable engine returns ids 0, 1 -/
example : search (refEngine ixEx) ixEx [0, 0] 2 [] = [⟨0, 1⟩, ⟨1, 1⟩] := by decide
/-- excluding doc 0 the two best are both vectors of doc 1 with equal score: ONE posting -/
example : search (refEngine ixEx) ixEx [0, 0] 2 [0] = [⟨1, 1⟩] := by decide
example : validTopK 0 2 (admissible ixEx.toVecIx [0, 0] (some [0]) none) [⟨1, 1⟩] = true := by decide
/-- ties are arbitrary: another engine may answer ids 1, 2 - one posting - also accepted -/
example : validTopK 0 2 (admissible ixEx.toVecIx [0, 0] (some []) none) [⟨1, 1⟩] = true := by decide
example : validTopK 0 2 (admissible ixEx.toVecIx [0, 0] (some []) none) [⟨0, 1⟩, ⟨1, 1⟩] = true := by decide
/-- the checker is not trivially true: a worse vector, an excluded document, a wrong score,
    too few and too many are all rejected -/
example : validTopK 0 2 (admissible ixEx.toVecIx [0, 0] (some []) none) [⟨2, 50⟩, ⟨1, 1⟩] = false := by decide
example : validTopK 0 2 (admissible ixEx.toVecIx [0, 0] (some [0]) none) [⟨0, 1⟩] = false := by decide
example : validTopK 0 2 (admissible ixEx.toVecIx [0, 0] (some []) none) [⟨0, 2⟩] = false := by decide
example : validTopK 0 3 (admissible ixEx.toVecIx [0, 0] (some []) none) [⟨0, 1⟩] = false := by decide
example : validTopK 0 1 (admissible ixEx.toVecIx [0, 0] (some []) none) [⟨0, 1⟩, ⟨1, 1⟩] = false := by decide
/-- filtered: partial filter (include list), full filter (shortcut), empty filter, a document
    without vectors, wrong dimension -/
example : searchWithFilter (refEngine ixEx) ixEx 3 [0, 0] 2 [] [2] = [⟨2, 50⟩] := by decide
example : searchWithFilter (refEngine ixEx) ixEx 3 [0, 0] 2 [] [1, 2] = [⟨1, 1⟩] := by decide
example : searchWithFilter (refEngine ixEx) ixEx 3 [0, 0] 2 [1] [0, 1, 2] = [⟨0, 1⟩, ⟨2, 50⟩] := by decide
example : searchWithFilter (refEngine ixEx) ixEx 3 [0, 0] 2 [] [] = [] := by decide
example : searchWithFilter (refEngine ixEx) ixEx 4 [0, 0] 2 [] [3] = [] := by decide
example : search (refEngine ixEx) ixEx [0, 0, 0] 2 [] = [] := by decide
/-- inner product (larger is better) -/
example : search (refEngine { ixEx with metric := 1 }) { ixEx with metric := 1 } [1, 1] 2 [] =
    [⟨2, 10⟩, ⟨0, 1⟩] := by decide
/-- the postings iterate by (doc, score bits); Advance(1) skips doc 0 -/
example : postingsCodes Int.toNat [⟨2, 50⟩, ⟨0, 1⟩, ⟨1, 7⟩, ⟨1, 1⟩] =
    [1, 2 ^ 32 + 1, 2 ^ 32 + 7, 2 * 2 ^ 32 + 50] := by decide
example : nextAtOrAfter [1, 2 ^ 32 + 1, 2 ^ 32 + 7, 2 * 2 ^ 32 + 50] 1 =
    (some (2 ^ 32 + 1), [2 ^ 32 + 7, 2 * 2 ^ 32 + 50]) := by decide

section Report
#print axioms C14_sound
#print axioms C14_no_excluded
#print axioms C14_only_eligible
#print axioms C14_filtered_no_excluded
#print axioms C14_at_most_k
#print axioms C14_topk_exact
#print axioms C14_topk_exact_filtered
#print axioms C14_topk_exact_filtered_nocontract
#print axioms C14_wrong_dim_empty
#print axioms C14_no_vectors_empty
#print axioms C14_covers_every_VecIx
#print axioms C14_contract_satisfiable
#print axioms C14_code_order
end Report

end Zap.C14
