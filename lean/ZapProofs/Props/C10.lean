/-
  C10 (a build depends only on its batch): the clauses that are properties of HOW the reusable
  builder is reset and pooled, instantiated on facts extracted from /repo on every run.
  (The refinement "build after reset = build on a fresh builder" over the builder model is the
  job of the Build lemmas; this file supplies its container-level premises.)

  PROVED (generic, once; ZapProofs/TheoryLemmasReset.lean, slices as backing array + length)
  * `read_after_zeroing`: ANY slice a build can produce (make, writes, appends, grows), reset
    with a zeroing kind (`setNil`, `zeroThenTruncate`, `clearEachThenTruncate`,
    `deleteAllKeys`, `scalarZero`), re-sliced to ANY n, read at ANY index: zero value.
  * `stale_after_truncate` / `stale_after_notReset`: with `truncate` (or no reset) the same
    re-slice returns the previous build's content.
  * `visible_after_truncate_appends`: after `truncate`, a field that is only APPENDED to shows
    exactly what was appended (also the reason `bufferReset` - `bytes.Buffer.Reset`, whose API
    only appends and only exposes what was written - leaves nothing stale).
  * `read_after_truncate_overwrite`: after `truncate`, re-slice to n and ASSIGN every index
    below n: every read returns what was assigned.
  * pool clause: `C11.C11_pool "interimPool"` (no builder held by two builds, none pooled twice).

  CHECKED AGAINST THE SOURCE ON EVERY RUN (`decide` on `Gen.Facts.resetFacts`/`structFields`)
  * completeness: exactly one reset fact per declared field of the six reusable structs, in
    declaration order; the six structs are present with the expected number of fields > 0;
    no UNRECOGNISED entry;
  * `ResetSafe`: every field has a kind that leaves nothing stale, except `truncate` fields on
    `allowTruncate` and `notReset` fields on `allowNotReset` (each entry justified below by
    where the Go code appends / overwrites / re-derives it);
  * the fields that ARE re-sliced within capacity and then read without being assigned first
    have a zeroing kind (`mustZero`);
  * the builder pool: `newWithChunkMode` has exactly the two paths `get use ret` (failure: the
    builder is dropped, never returned) and `get use put ret`, and `s.convert`'s error is
    returned.

  MODELLED, NOT VERIFIED
  * The extractor's kind says what the Reset loop does over `len`, not over capacity
    (tools/README.md item 5).  The generic lemma closes that gap with the invariant `TailZero`
    (everything beyond `len` is zero), which make / write / append / grow preserve; it is broken
    only by shrinking a dirty slice without zeroing - i.e. by a `truncate`d field that is later
    grown and read, which is exactly what the allow-list has to exclude BY READING.
  * The allow-list justifications are by reading the Go code (cited per entry); the model of
    the builder (ZapModel/Build.lean) and the differential run (sequences of 2..6 builds in one
    process, with a hook reporting that the pooled builder was in fact reused) test them.
  * Data races on the builder are excluded by the pool clause at the granularity of extracted
    events; the Go memory model is outside.
-/
import ZapModel.Gen.Facts
import ZapModel.Theory.Str
import ZapProofs.TheoryLemmasReset
import ZapProofs.Props.C11

namespace Zap.C10
open Zap.Gen Zap.Gen.ResetKind Zap.Theory Zap.Theory.Reset

/-- `truncate` is safe ONLY for these fields.  Justification (Go file : what happens before any
    read):

    interim (new.go)
    * `FieldsInv`  - `getOrDefineField` appends from length 0; never re-sliced.
    * `tmp0`,`tmp1` - `writeStoredFields` takes `s.tmp0[:0]`, `s.tmp1[:0]` and only appends
                     (`data = append(..)`, snappy.Encode into `compressed[:cap]` returning the
                     written prefix).
    invertedIndexOpaque (section_inverted_text_index.go)
    * `FreqNorms`, `Locs` - `realloc` re-slices to `numPostingsLists` and then assigns EVERY
                     index: `for pid := range numTermsPerPostingsList { FreqNorms[pid] =
                     freqNormsBacking[0:0] }` (one entry per postings list, appended together
                     with `pidNext++`); the per-list slices start at length 0 inside the zeroed
                     backing arrays and are only appended to.
    * `numTermsPerPostingsList`, `numLocsPerPostingsList` - `append(.., 0)` from length 0, then
                     `+=` at the index just appended.
    * `reusableFieldLens`, `reusableFieldTFs` - NOT safe by the reset alone: `realloc` re-slices
                     them to `len(FieldsInv)` WITHOUT clearing and `process` reads them
                     (`+=`, `!= nil`).  Safe because of an invariant of the BUILD: `process`
                     with `fieldID == MaxUint16` zeroes every entry below `len(FieldsInv)` at the
                     end of EVERY document, so between documents - and hence at every Reset of
                     a builder that is put back - the whole capacity is zero; a build that fails
                     in the middle of a document is not put back (pool clause below:
                     the path without `put`).  So `TailZero` holds with all-zero content, and
                     `read_after_zeroing`'s conclusion applies although the kind is `truncate`.
    * `tmp0`       - `grabBuf` hands out `tmp0[:size]` uncleared; every user does
                     `n := binary.PutUvarint(buf, v); w.Write(buf[:n])`: written before read.
    synonymIndexOpaque (section_synonym_index.go)
    * `ThesaurusInv`, `SynonymTermToID`, `SynonymIDtoTerm` - `getOrDefineThesaurus` appends
                     (fresh maps) from length 0; never re-sliced.
    * `tmp0`       - `grabBuf`, as above.
    vectorIndexOpaque (section_faiss_vector_index.go)
    * `tmp0`       - `grabBuf`, as above.
    chunkedIntCoder (intcoder.go) / chunkedContentCoder (contentcoder.go)
    * `final`      - `c.final = append(c.final, ..)` only; read as a whole after `Close`.
    * `chunkMeta`  - `append(c.chunkMeta, MetaData{..})` from length 0. -/
def allowTruncate : List (String × String) := [
  ("interim", "FieldsInv"), ("interim", "tmp0"), ("interim", "tmp1"),
  ("invertedIndexOpaque", "FreqNorms"), ("invertedIndexOpaque", "Locs"),
  ("invertedIndexOpaque", "numTermsPerPostingsList"),
  ("invertedIndexOpaque", "numLocsPerPostingsList"),
  ("invertedIndexOpaque", "reusableFieldLens"), ("invertedIndexOpaque", "reusableFieldTFs"),
  ("invertedIndexOpaque", "tmp0"),
  ("synonymIndexOpaque", "ThesaurusInv"), ("synonymIndexOpaque", "SynonymTermToID"),
  ("synonymIndexOpaque", "SynonymIDtoTerm"), ("synonymIndexOpaque", "tmp0"),
  ("vectorIndexOpaque", "tmp0"),
  ("chunkedIntCoder", "final"),
  ("chunkedContentCoder", "final"), ("chunkedContentCoder", "chunkMeta")
]

/-- `notReset` is safe ONLY for these fields.  Justification:

    * `synonymIndexOpaque.thesaurusAddrs` - read only through `FieldIDtoThesaurusID`, which IS
                     reset (`setNil`: `AddrForField` then returns 0) and is refilled by this
                     build's `getOrDefineThesaurus`; `writeThesauri` assigns every thesaurus id
                     of this build before the fields section is written.
    * `synonymIndexOpaque.FieldsMap` - `Set("fieldsMap", ..)` by `interim.convert` at the start
                     of every build, before `process`.
    * `vectorIndexOpaque.lastNumVecs`, `lastNumFields` - ASSIGNED by `Reset` (the sizes of the
                     maps being dropped); used only as `make(map, hint)` capacity hints.
    * `chunkedIntCoder.chunkSize`, `chunkedContentCoder.chunkSize` - set by `SetChunkSize`, which
                     the users call right after `Reset` (or by the constructor).
    * `chunkedIntCoder.buf` - scratch for `binary.PutUvarint`, written before read; grown by
                     `make` when too small.
    * `chunkedContentCoder.compressed` - `snappy.Encode(c.compressed[:cap(c.compressed)], ..)`
                     returns the written prefix; written before read.
    * `chunkedContentCoder.w`, `progressiveWrite` - configuration fixed by the constructor; a
                     coder lives within one `writeDicts` call (one writer), never across builds. -/
def allowNotReset : List (String × String) := [
  ("synonymIndexOpaque", "FieldsMap"), ("synonymIndexOpaque", "thesaurusAddrs"),
  ("vectorIndexOpaque", "lastNumVecs"), ("vectorIndexOpaque", "lastNumFields"),
  ("chunkedIntCoder", "chunkSize"), ("chunkedIntCoder", "buf"),
  ("chunkedContentCoder", "chunkSize"), ("chunkedContentCoder", "compressed"),
  ("chunkedContentCoder", "w"), ("chunkedContentCoder", "progressiveWrite")
]

/-- Fields that are re-sliced within capacity and READ (or appended into their elements)
    without being assigned first; they must be zeroed over their whole length by the reset:
    `IncludeDocValues` (`realloc`: `[:len(FieldsInv)]`, then only set to `true` where wanted),
    `Postings` (`[:numPostingsLists]`, bitmaps reused: must be `Clear()`ed),
    `DictKeys` (`[:n+1]`; `DictKeys[n][:0]`), `Dicts`, the two backing arrays,
    `chunkLens` of both coders (`SetChunkSize`: `[:total]`, then `chunkLens[chunk] = n` only for
    chunks that get data), `Synonyms`, `Thesauri`, `ThesaurusKeys`. -/
def mustZero : List (String × String) := [
  ("invertedIndexOpaque", "IncludeDocValues"), ("invertedIndexOpaque", "Postings"),
  ("invertedIndexOpaque", "DictKeys"), ("invertedIndexOpaque", "Dicts"),
  ("invertedIndexOpaque", "freqNormsBacking"), ("invertedIndexOpaque", "locsBacking"),
  ("chunkedIntCoder", "chunkLens"), ("chunkedContentCoder", "chunkLens"),
  ("synonymIndexOpaque", "Synonyms"), ("synonymIndexOpaque", "Thesauri"),
  ("synonymIndexOpaque", "ThesaurusKeys")
]

/-- The reusable structs and their number of fields (a struct that loses all its fields, or
    disappears, must not pass vacuously; a new field changes the count and forces a review). -/
def expectedStructs : List (String × Nat) := [
  ("interim", 12), ("invertedIndexOpaque", 25), ("synonymIndexOpaque", 15),
  ("vectorIndexOpaque", 8), ("chunkedIntCoder", 7), ("chunkedContentCoder", 11)
]

/-- The decidable side condition (see header). -/
def c10SideCondition (fields : List (String × List String)) (facts : List ResetFact) : Bool :=
  (fields.map fun p => (p.1, p.2.length)) == expectedStructs
  && fields.all (fun p => !unrec p.1 && allRecognised p.2)
  && facts.all (fun f => !unrec f.struct && !unrec f.field)
  && Complete fields facts
  && ResetSafe facts allowTruncate allowNotReset
  && mustZero.all (fun m => facts.any fun f => (f.struct, f.field) == m && zeroing f.kind)

/-- INSTANCE: the obligation that breaks when the Go source changes. -/
theorem c10SideCondition_holds :
    c10SideCondition Facts.structFields Facts.resetFacts = true := by decide +kernel

/-- Every struct field has exactly one reset fact (completeness). -/
theorem C10_complete : Complete Facts.structFields Facts.resetFacts = true := by decide +kernel

/-- `ResetSafe` on the generated facts. -/
theorem C10_resetSafe : ResetSafe Facts.resetFacts allowTruncate allowNotReset = true := by
  decide +kernel

/-- The allow-lists contain nothing superfluous: every entry is a field that really has that
    kind (so a field that becomes properly zeroed must be taken off the list). -/
theorem allowLists_tight :
    allowTruncate.all (fun a => Facts.resetFacts.any fun f =>
        (f.struct, f.field) == a && f.kind == truncate) = true
    ∧ allowNotReset.all (fun a => Facts.resetFacts.any fun f =>
        (f.struct, f.field) == a && f.kind == notReset) = true := by decide +kernel

/-- C10, container clause: for every field that is NOT on an allow-list, whatever a build did
    to it, after `Reset` a later re-slice-and-read observes only zero values. -/
theorem C10_no_stale (f : ResetFact) (hf : f ∈ Facts.resetFacts)
    (hT : (f.struct, f.field) ∉ allowTruncate) (hN : (f.struct, f.field) ∉ allowNotReset)
    (hB : f.kind ≠ bufferReset)
    (cap : Nat) (ops : List SOp) (n i : Nat) :
    ((applyReset f.kind (runOps (Slice.fresh cap) ops)).reslice n).read i = 0 := by
  apply read_after_zeroing
  have h := C10_resetSafe
  simp only [ResetSafe, List.all_eq_true] at h
  have hk := h f hf
  cases hkind : f.kind <;> simp only [hkind] at hk hB <;> simp [zeroing]
  · exact hT (by simpa using hk)
  · exact hB rfl
  · exact hN (by simpa using hk)

/-! ### Pool clause -/

/-- The builder pool: `newWithChunkMode` takes one builder; it either fails and drops it
    (`get use ret` - a failed build never returns its builder) or puts it back exactly once;
    the error of `s.convert` is returned (so the failure path is taken on a failed build). -/
theorem C10_builder_pool_shape :
    (Facts.poolFns.filter (·.pool == "interimPool"))
      = [⟨"ZapPlugin.newWithChunkMode", "interimPool",
          [[.get, .use, .ret], [.get, .use, .put, .ret]]⟩]
    ∧ Facts.errFacts.contains ⟨"ZapPlugin.newWithChunkMode", "s.convert", .returned⟩ = true := by
  decide +kernel

/-- C10, pool clause: any number of concurrent builds, EVERY interleaving: no builder is used
    by two builds, none is in the pool twice, none is used after being put back. -/
theorem C10_builder_pool (calls : Nat → List (List PoolEv))
    (hcalls : ∀ i, ∀ w ∈ calls i, ∃ f ∈ Facts.poolFns, f.pool = "interimPool" ∧ w ∈ f.paths)
    (sched : Pool.Sched) : Pool.Safe (Pool.exec (Pool.init calls) sched) :=
  C11.C11_pool "interimPool" calls hcalls sched

/-! ### Examples -/

/-- `IncludeDocValues` (zeroThenTruncate): build 1 has 3 fields, field 2 with doc values;
    build 2 has 3 fields, none with doc values: field 2 reads `false`. -/
example : ((applyReset zeroThenTruncate (runOps (Slice.fresh 3) [.write 2 1])).reslice 3).read 2 = 0 := by
  decide

/-- Had `Reset` only truncated it, build 2 would see field 2 WITH doc values. -/
example : ((applyReset truncate (runOps (Slice.fresh 3) [.write 2 1])).reslice 3).read 2 = 1 := by
  decide

/-- `chunkLens` (zeroed over its length, `SetChunkSize` re-slices): a coder used for 4 chunks
    (lengths 5,6,7,8), reset, then set to 2 chunks, reset again, then set back to 4 chunks: all
    four lengths read 0 - also the two that were beyond `len` during the second use. -/
example :
    let c1 := runOps (Slice.fresh 4) [.write 0 5, .write 1 6, .write 2 7, .write 3 8]
    let c2 := runOps ((applyReset zeroThenTruncate c1).reslice 2) [.write 0 9, .write 1 9]
    let c3 := (applyReset zeroThenTruncate c2).reslice 4
    (List.range 4).map c3.read = [0, 0, 0, 0] := by decide

/-- With `truncate` instead, chunk 3 of the new use starts with the old length 8. -/
example :
    let c1 := runOps (Slice.fresh 4) [.write 0 5, .write 1 6, .write 2 7, .write 3 8]
    ((applyReset truncate c1).reslice 4).read 3 = 8 := by decide

/-- Append-only after truncate (e.g. `numTermsPerPostingsList`): only what was appended is
    visible, whatever the capacity held. -/
example : (appendAll (applyReset truncate (runOps (Slice.fresh 4) [.write 0 5, .write 3 8])) [1, 2]).visible
    = [1, 2] := by decide

/-- The side condition rejects: a zeroing loop removed (`IncludeDocValues` only truncated); a
    new field without reset; a field missing from the facts; a struct that disappeared. -/
def setKind (s fld : String) (k : ResetKind) : List ResetFact :=
  Facts.resetFacts.map fun f => if f.struct == s && f.field == fld then { f with kind := k } else f

example : c10SideCondition Facts.structFields
    (setKind "invertedIndexOpaque" "IncludeDocValues" truncate) = false := by decide +kernel
example : c10SideCondition Facts.structFields
    (setKind "chunkedIntCoder" "chunkLens" notReset) = false := by decide +kernel
example : c10SideCondition Facts.structFields
    (setKind "interim" "FieldsMap" notReset) = false := by decide +kernel
example : c10SideCondition
    (Facts.structFields.map fun p => if p.1 == "interim" then (p.1, p.2 ++ ["newField"]) else p)
    (Facts.resetFacts ++ [⟨"interim", "newField", notReset⟩]) = false := by decide +kernel
example : c10SideCondition Facts.structFields (Facts.resetFacts.drop 1) = false := by
  decide +kernel
example : c10SideCondition (Facts.structFields.drop 1) (Facts.resetFacts.drop 12) = false := by
  decide +kernel
example : c10SideCondition Facts.structFields
    (Facts.resetFacts.map fun f => if f.field == "opaque"
      then { f with field := "UNRECOGNISED Reset method of interim" } else f) = false := by
  decide +kernel

end Zap.C10

#print axioms Zap.Theory.Reset.read_after_zeroing
#print axioms Zap.Theory.Reset.stale_after_truncate
#print axioms Zap.Theory.Reset.visible_after_truncate_appends
#print axioms Zap.Theory.Reset.read_after_truncate_overwrite
#print axioms Zap.C10.c10SideCondition_holds
#print axioms Zap.C10.C10_complete
#print axioms Zap.C10.C10_resetSafe
#print axioms Zap.C10.C10_no_stale
#print axioms Zap.C10.C10_builder_pool
