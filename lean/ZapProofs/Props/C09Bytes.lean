/-
  ZapProofs.Props.C09Bytes: byte-level WRITER models (ZapModel/Writer.lean) round-trip
  through the decoder of the documented layout.

  A  stored documents  (`encodeStoredDoc`  = new.go `writeStoredFields`)
  B  posting streams   (`encodeFreqNorm`, `encodeLocs` = the per-term loop of
     `writeDicts` through the chunked int coder; `writePostings` = merge.go
     `writePostings` + intcoder.go `writeAt`)

  Three layers:
   1. round trips for list-level twins of Layout's decoders (`Writer.decodeEntriesL`,
      `Writer.decodeStoredDocL`: same reads, same checks, same order as
      `Layout.readChunks/walkChunks/decFreq/decLocs/decStoredDoc`, over `Bytes` instead of
      `ByteArray` + cursor, with Layout's 10-byte / 64-bit uvarint rule);
   2. simulation: for EVERY `ByteArray`, whatever a twin accepts Layout's own function
      accepts with the same result (`C09_layout_simulates_*`);
   3. hence the round trips against Layout's OWN functions on the file's `ByteArray`
      (`C09_postings_roundtrip_layout`, `C09_stored_roundtrip_layout`).
  `Layout.decPostings` itself is not a possible subject (bitmap lookup in a string-keyed
  `Std.HashMap` oracle, last loop inline): `LayoutDefs.layoutEntries` composes Layout's own
  `readChunks`, `walkChunks`, `decFreq`, `decLocs` exactly as `decPostings` does after the
  lookup (adjacency checks included).  For stored documents Layout calls its array snappy
  decoder `snappyFast`; the byte-array theorem assumes it decodes `compress data`
  (`FastDecodes`, checked by evaluation on the examples below).
  Proofs live in ZapProofs/WriterLemmas*.lean.
-/
import ZapProofs.WriterLemmasPost
import ZapProofs.WriterLemmasStored
import ZapProofs.WriterLemmasLayoutDefs
import ZapProofs.WriterLemmasLayoutFinal
import ZapProofs.WriterLemmasLayoutStored
import ZapProofs.WriterLemmasLayoutStoredCex
import ZapProofs.CodecLemmasContent

namespace Zap.Props.C09Bytes
open Zap Zap.Codec Zap.Writer

/-! ### B. posting streams -/

/-- Hypotheses on the entries of one postings list ("all numbers fit 64 bits"). -/
structure EntriesFit (cs maxDoc : Nat) (es : List Entry) : Prop where
  hcs : 0 < cs
  hasc : es.Pairwise (fun a b => a.doc < b.doc)
  hmax : ∀ e ∈ es, e.doc ≤ maxDoc
  hfreq : ∀ e ∈ es, e.freq < 2 ^ 63
  hnorm : ∀ e ∈ es, e.norm < 2 ^ 64
  hnorm0 : ∀ e ∈ es, e.freq = 0 → e.norm = 0
  hnb : ∀ e ∈ es, numLocsBytes e.locs < 2 ^ 64
  hlocs : ∀ e ∈ es, ∀ l ∈ e.locs, ∀ v ∈ locHead l ++ l.ap, v < 2 ^ 64
  hszF : (encodeFreqNorm cs maxDoc es).length < 2 ^ 64
  hszL : (encodeLocs cs maxDoc es).length < 2 ^ 64

/-- Decoding the freq/norm stream and the location stream chunk by chunk, one freq/norm
    item per document of the bitmap and one length-prefixed location block per document
    flagged `hasLocs`, gives back the entries. -/
theorem C09_postings_roundtrip (cs maxDoc : Nat) (es : List Entry) (h : EntriesFit cs maxDoc es)
    (postF postL : Bytes) :
    decodeEntriesL cs (es.map (·.doc)) (encodeFreqNorm cs maxDoc es ++ postF)
      (some (encodeLocs cs maxDoc es ++ postL)) = some es :=
  Post.decodeEntriesL_roundtrip cs maxDoc es h.hcs h.hasc h.hmax h.hfreq h.hnorm h.hnorm0 h.hnb
    h.hlocs h.hszF h.hszL postF postL

/-- `numBytesLocs` is the encoded length of the locations that follow it ... -/
theorem C09_numLocsBytes (ls : List MLoc) :
    numLocsBytes ls = (putUvarints (Post.locVals ls)).length := Post.numLocsBytes_eq ls

/-- ... so `SkipBytes(numLocsBytes)` skips exactly one location block: after the length
    prefix, dropping `numLocsBytes` bytes leaves what follows the block. -/
theorem C09_skipBytes (e : Entry) (rest : Bytes) :
    (putUvarints (Post.locVals e.locs) ++ rest).drop (numLocsBytes e.locs) = rest := by
  rw [Post.numLocsBytes_eq, List.drop_left]

/-- The location decoder consumes exactly one block. -/
theorem C09_decLocs_block (e : Entry) (hnb : numLocsBytes e.locs < 2 ^ 64)
    (hfit : ∀ l ∈ e.locs, ∀ v ∈ locHead l ++ l.ap, v < 2 ^ 64) (rest : Bytes) :
    decLocsL e.doc (putUvarint (numLocsBytes e.locs) ++ putUvarints (Post.locVals e.locs) ++ rest)
      = some (e.locs, rest) := by
  have := Post.decLocsL_blk e hnb hfit rest
  unfold Post.locBlk at this
  rwa [putUvarints_cons] at this

/-- Empty-stream convention: `writeAt` writes nothing and reports offset 0 exactly when
    no entry has locations. -/
theorem C09_empty_loc_stream (cs maxDoc : Nat) (es : List Entry)
    (hasc : es.Pairwise (fun a b => a.doc < b.doc)) (hmax : ∀ e ∈ es, e.doc ≤ maxDoc) :
    locStream? cs maxDoc es
      = if ∀ e ∈ es, e.locs = [] then none else some (encodeLocs cs maxDoc es) :=
  Post.locStream?_eq cs maxDoc es hasc hmax

/-- ... and the reader, told "offset 0" (`none`), still gets the entries back. -/
theorem C09_postings_roundtrip_writeAt (cs maxDoc : Nat) (es : List Entry)
    (h : EntriesFit cs maxDoc es) (postF : Bytes) :
    decodeEntriesL cs (es.map (·.doc)) (encodeFreqNorm cs maxDoc es ++ postF)
      (locStream? cs maxDoc es) = some es := by
  rw [C09_empty_loc_stream cs maxDoc es h.hasc h.hmax]
  by_cases hnl : ∀ e ∈ es, e.locs = []
  · rw [if_pos hnl]
    exact Post.decodeEntriesL_roundtrip_none cs maxDoc es h.hcs h.hasc h.hmax h.hfreq h.hnorm
      h.hnorm0 h.hszF hnl postF
  · rw [if_neg hnl]
    have := C09_postings_roundtrip cs maxDoc es h postF []
    rwa [List.append_nil] at this

/-- The record of `writePostings`: where the three header varints point. -/
theorem C09_postings_record (count cs maxDoc : Nat) (es : List Entry) (roaring : Bytes)
    (hasc : es.Pairwise (fun a b => a.doc < b.doc)) (hmax : ∀ e ∈ es, e.doc ≤ maxDoc)
    (hne : es ≠ []) :
    let out := writePostings count cs maxDoc es roaring
    let lc : Bytes := match locStream? cs maxDoc es with | none => [] | some s => s
    out.tfOffset = count ∧
    out.locOffset = (if ∀ e ∈ es, e.locs = [] then 0 else count + (encodeFreqNorm cs maxDoc es).length) ∧
    out.postingsOffset = count + (encodeFreqNorm cs maxDoc es).length + lc.length ∧
    out.bytes = encodeFreqNorm cs maxDoc es ++ lc ++ putUvarint out.tfOffset ++ putUvarint out.locOffset
      ++ putUvarint roaring.length ++ roaring :=
  Post.writePostings_layout count cs maxDoc es roaring hasc hmax hne

/-- Simulation: on EVERY byte array, if the twin decodes the streams at `fo` / `lo`
    (`lo = 0`: no location stream) to `es` and the streams are back to back up to the
    record at `off`, Layout's own functions return `es`. -/
theorem C09_layout_simulates_postings (b : ByteArray) (cs : Nat) (docs : List Nat) (fo lo off : Nat)
    (es : List Entry) (hfo : fo ≠ 0)
    (h : decodeEntriesL cs docs ((Layout.ofBA b).drop fo)
      (if lo = 0 then none else some ((Layout.ofBA b).drop lo)) = some es)
    (hadjF : ∀ offs data, readChunksL ((Layout.ofBA b).drop fo) = some (offs, data) →
      b.size - data.length + offs.getLastD 0 = if lo = 0 then off else lo)
    (hadjL : lo ≠ 0 → ∀ offs data, readChunksL ((Layout.ofBA b).drop lo) = some (offs, data) →
      b.size - data.length + offs.getLastD 0 = off) :
    LayoutDefs.layoutEntries b cs docs fo lo off = .ok es :=
  LP.layoutEntries_sim b cs docs fo lo off es hfo h hadjF hadjL

/-- Round trip against Layout's OWN `readChunks` / `walkChunks` / `decFreq` / `decLocs`:
    any byte array that holds, after `pre`, what `writePostings` emits decodes at the
    offsets `writePostings` records to the entries. -/
theorem C09_postings_roundtrip_layout (b : ByteArray) (pre post roaring : Bytes) (cs maxDoc : Nat)
    (es : List Entry) (h : EntriesFit cs maxDoc es) (hpre : 0 < pre.length) (hne : es ≠ [])
    (hb : Layout.ofBA b = pre ++ (writePostings pre.length cs maxDoc es roaring).bytes ++ post) :
    LayoutDefs.layoutEntries b cs (es.map (·.doc))
      (writePostings pre.length cs maxDoc es roaring).tfOffset
      (writePostings pre.length cs maxDoc es roaring).locOffset
      (writePostings pre.length cs maxDoc es roaring).postingsOffset = .ok es :=
  Final.layout_postings_roundtrip b pre post roaring cs maxDoc es h.hcs h.hasc h.hmax h.hfreq h.hnorm
    h.hnorm0 h.hnb h.hlocs h.hszF h.hszL hpre hne hb

/-- The same for the `ByteArray` made of a byte list (`Layout.decodeFile` does
    `toBA bs`). -/
theorem C09_postings_roundtrip_file (pre post roaring : Bytes) (cs maxDoc : Nat)
    (es : List Entry) (h : EntriesFit cs maxDoc es) (hpre : 0 < pre.length) (hne : es ≠ [])
    (hbytes : ∀ x ∈ pre ++ (writePostings pre.length cs maxDoc es roaring).bytes ++ post, x < 256) :
    LayoutDefs.layoutEntries
      (Layout.toBA (pre ++ (writePostings pre.length cs maxDoc es roaring).bytes ++ post)) cs
      (es.map (·.doc))
      (writePostings pre.length cs maxDoc es roaring).tfOffset
      (writePostings pre.length cs maxDoc es roaring).locOffset
      (writePostings pre.length cs maxDoc es roaring).postingsOffset = .ok es :=
  C09_postings_roundtrip_layout _ pre post roaring cs maxDoc es h hpre hne (BA.ofBA_toBA _ hbytes)

/-! ### A. stored documents -/

theorem C09_stored_roundtrip (compress : Bytes → Bytes)
    (hsn : ∀ x, snappyDecode (compress x) = some x) (sd : StoredDoc)
    (hsz : (encodeStoredDoc compress sd).length < 2 ^ 64) (pre post : Bytes) :
    decodeStoredDocL (pre ++ encodeStoredDoc compress sd ++ post) pre.length = some sd :=
  Stored.decodeStoredDocL_roundtrip compress hsn sd hsz pre post

/-- Simulation: on EVERY decoding context, if the twin decodes the record at `off` to `sd`
    and Layout's array snappy decoder agrees with `Codec.snappyDecode` on the record's
    snappy block, `Layout.decStoredDoc` returns `sd`. -/
theorem C09_layout_simulates_stored (c : Layout.Ctx) (doc off : Nat) (sd : StoredDoc)
    (hfast : ∀ s e, storedBlockL (Layout.ofBA c.b) off = some (s, e) → LS.FastAgrees c.b s e)
    (h : decodeStoredDocL (Layout.ofBA c.b) off = some sd) : Layout.decStoredDoc c doc off = .ok sd :=
  LS.decStoredDoc_sim c doc off sd hfast h

/-- Round trip against Layout's OWN `decStoredDoc`. -/
theorem C09_stored_roundtrip_layout (compress : Bytes → Bytes)
    (hsn : ∀ x, snappyDecode (compress x) = some x) (sd : StoredDoc)
    (hfd : LS.FastDecodes compress (storedData sd.vals))
    (hsz : (encodeStoredDoc compress sd).length < 2 ^ 64) (c : Layout.Ctx) (doc : Nat) (pre post : Bytes)
    (hb : Layout.ofBA c.b = pre ++ encodeStoredDoc compress sd ++ post) :
    Layout.decStoredDoc c doc pre.length = .ok sd :=
  LS.layout_stored_roundtrip compress hsn sd hfd hsz c doc pre post hb

/-- The hypotheses on `compress` are satisfiable: the all-literals snappy encoder
    (`snappyLit`, a valid snappy stream) on data of at most 2^32 bytes (`snappyFast`, like
    Go's snappy, refuses longer blocks). -/
theorem C09_fastDecodes_snappyLit (x : Bytes) (hx : x.length ≤ 2 ^ 32) : LS.FastDecodes snappyLit x :=
  LS.fastDecodes_snappyLit x hx

theorem C09_stored_roundtrip_layout_lit (sd : StoredDoc) (hx : (storedData sd.vals).length ≤ 2 ^ 32)
    (hsz : (encodeStoredDoc snappyLit sd).length < 2 ^ 64) (c : Layout.Ctx) (doc : Nat) (pre post : Bytes)
    (hb : Layout.ofBA c.b = pre ++ encodeStoredDoc snappyLit sd ++ post) :
    Layout.decStoredDoc c doc pre.length = .ok sd :=
  C09_stored_roundtrip_layout snappyLit snappyDecode_snappyLit sd (C09_fastDecodes_snappyLit _ hx) hsz c doc
    pre post hb

/-- The literal target against Layout's own decoder - assuming of `compress` only that
    `Codec.snappyDecode` inverts it - is FALSE: counterexample `LS.bigDoc` (one value of
    2^32 + 1 bytes) with the all-literals compressor; Layout's array decoder `snappyFast`
    refuses blocks announcing more than 2^32 bytes (as Go's snappy does), the list decoder
    `Codec.snappyDecode` has no such limit.  `C09_stored_roundtrip_layout` (hypothesis
    `FastDecodes`) is the true variant; `C09_stored_roundtrip` (twin) needs nothing more. -/
theorem C09_stored_roundtrip_layout_full_false : ¬ LS.stored_roundtrip_layout_full :=
  LS.stored_roundtrip_layout_full_false

theorem C09_stored_roundtrip_layout_partial (compress : Bytes → Bytes)
    (hsn : ∀ x, snappyDecode (compress x) = some x) (sd : StoredDoc)
    (hfd : LS.FastDecodes compress (storedData sd.vals))
    (hsz : (encodeStoredDoc compress sd).length < 2 ^ 64) (c : Layout.Ctx) (doc : Nat) (pre post : Bytes)
    (hb : Layout.ofBA c.b = pre ++ encodeStoredDoc compress sd ++ post) :
    Layout.decStoredDoc c doc pre.length = .ok sd :=
  C09_stored_roundtrip_layout compress hsn sd hfd hsz c doc pre post hb

/-! ### concrete instances: both sides evaluated; Layout's OWN functions on the same bytes -/

section Examples
open Zap.Layout Zap.Writer.LayoutDefs

/-- three chunks of size 2 (docs 0..5), the middle one empty; entry 2 has `freq = 0`
    (norm omitted); entry 1 has no locations; a two-byte and a three-byte varint. -/
def es1 : List Entry := [
  { doc := 0, freq := 2, norm := 1065353216,
    locs := [{ fid := 1, pos := 1, start := 0, stop := 5, ap := [] },
             { fid := 1, pos := 7, start := 300, stop := 305, ap := [2, 70000] }] },
  { doc := 1, freq := 1, norm := 7, locs := [] },
  { doc := 4, freq := 0, norm := 0, locs := [{ fid := 3, pos := 1, start := 0, stop := 1, ap := [] }] } ]

/-- no entry has locations -/
def es2 : List Entry := [
  { doc := 3, freq := 1, norm := 9, locs := [] }, { doc := 700, freq := 5, norm := 300, locs := [] } ]

example : encodeFreqNorm 2 5 es1 = [3, 8, 8, 9, 5, 128, 128, 128, 252, 3, 2, 7, 1] := by decide +kernel
example : encodeLocs 2 5 es1
    = [3, 17, 17, 23, 16, 1, 1, 0, 5, 0, 1, 7, 172, 2, 177, 2, 2, 2, 240, 162, 4, 5, 3, 1, 0, 1, 0] := by
  decide +kernel
example : numLocsBytes (es1[0]!).locs = 16 := by decide +kernel
example : decodeEntriesL 2 [0, 1, 4] (encodeFreqNorm 2 5 es1 ++ [1, 2, 3])
    (some (encodeLocs 2 5 es1 ++ [9])) = some es1 := by decide +kernel
example : locStream? 2 5 es1 = some (encodeLocs 2 5 es1) := by decide +kernel
example : locStream? 1024 700 es2 = none := by decide +kernel
example : decodeEntriesL 1024 [3, 700] (encodeFreqNorm 1024 700 es2) (locStream? 1024 700 es2)
    = some es2 := by decide +kernel
example : (writePostings 100 1024 700 es2 [58, 48]).locOffset = 0 := by decide +kernel
-- a wrong chunk size is detected (documents do not sit in the chunks the reader expects)
example : decodeEntriesL 3 [0, 1, 4] (encodeFreqNorm 2 5 es1) (some (encodeLocs 2 5 es1)) = none := by
  decide +kernel

/-- The whole record as `writePostings` lays it out after 3 bytes of file. -/
def out1 : PostingsOut := writePostings 3 2 5 es1 [58, 48, 0, 0]

example : (out1.tfOffset, out1.locOffset, out1.postingsOffset) = (3, 16, 43) := by decide +kernel

/-- Layout's own `readChunks` / `walkChunks` / `decFreq` / `decLocs` (composed as in
    `decPostings`, adjacency checks included) decode the written record. -/
example : isOk (layoutEntries (toBA ([9, 9, 9] ++ out1.bytes ++ [1, 2])) 2 [0, 1, 4]
    out1.tfOffset out1.locOffset out1.postingsOffset) es1 = true := by decide +kernel

example : isOk (layoutEntries (toBA ([9] ++ (writePostings 1 1024 700 es2 [58]).bytes)) 1024 [3, 700]
    1 0 (writePostings 1 1024 700 es2 [58]).postingsOffset) es2 = true := by decide +kernel

def sd1 : StoredDoc := { id := [100, 49], vals := [
  { fid := 1, typ := 116, val := [104, 105], ap := [] },
  { fid := 2, typ := 110, val := [1, 2, 3, 4, 5, 6, 7, 8], ap := [0, 300] },
  { fid := 2, typ := 116, val := [], ap := [1] } ] }

def sd2 : StoredDoc := { id := [], vals := [] }

def sd3 : StoredDoc := { id := List.replicate 20 120, vals := [
  { fid := 7, typ := 100, val := List.replicate 25 65, ap := [5, 6, 7] },
  { fid := 300, typ := 116, val := [255, 0, 255], ap := [] } ] }

example : encodeStoredDoc snappyLit sd1
    = [20, 23, 2, 1, 116, 0, 2, 0, 2, 110, 2, 8, 2, 0, 172, 2, 2, 116, 10, 0, 1, 1, 100, 49, 10, 0,
       104, 0, 105, 0, 1, 0, 2, 0, 3, 0, 4, 0, 5, 0, 6, 0, 7, 0, 8] := by decide +kernel
example : decodeStoredDocL ([9, 9, 9] ++ encodeStoredDoc snappyLit sd1 ++ [7, 7]) 3 = some sd1 := by
  decide +kernel
example : decodeStoredDocL (encodeStoredDoc snappyLit sd2) 0 = some sd2 := by decide +kernel
example : decodeStoredDocL ([1] ++ encodeStoredDoc snappyLit sd3) 1 = some sd3 := by decide +kernel

/-- Layout's own `decStoredDoc` agrees with the twin on the three documents. -/
example : isOk (decStoredDoc (ctxOf ([9, 9, 9] ++ encodeStoredDoc snappyLit sd1 ++ [7, 7]) 1 1026) 0 3) sd1
    = true := by decide +kernel
example : isOk (decStoredDoc (ctxOf (encodeStoredDoc snappyLit sd2) 1 1026) 0 0) sd2 = true := by
  decide +kernel
example : isOk (decStoredDoc (ctxOf ([1] ++ encodeStoredDoc snappyLit sd3) 1 1026) 0 1) sd3 = true := by
  decide +kernel

end Examples

end Zap.Props.C09Bytes

section Report
open Zap.Props.C09Bytes
#print axioms C09_postings_roundtrip
#print axioms C09_numLocsBytes
#print axioms C09_skipBytes
#print axioms C09_decLocs_block
#print axioms C09_empty_loc_stream
#print axioms C09_postings_roundtrip_writeAt
#print axioms C09_postings_record
#print axioms C09_stored_roundtrip
#print axioms C09_layout_simulates_postings
#print axioms C09_postings_roundtrip_layout
#print axioms C09_postings_roundtrip_file
#print axioms C09_layout_simulates_stored
#print axioms C09_stored_roundtrip_layout
#print axioms C09_fastDecodes_snappyLit
#print axioms C09_stored_roundtrip_layout_lit
#print axioms C09_stored_roundtrip_layout_full_false
#print axioms C09_stored_roundtrip_layout_partial
end Report
